"""Per-property configuration of ./check (models, harnesses, evidence texts)."""

COMMON_TB = [
    "Lean 4.33.0 kernel (thorough tier: re-checked by leanchecker)",
    "the correspondence harness under /verif/go (test equipment: calls the real packages in-process with build tag verif)",
    "the line-protocol driver (Lean, compiled; runs the very definitions the theorems are about)",
]

PROPS = {
    'C14': dict(
        lean_modules=['Iscp.Props.C14', 'Iscp.Props.C14Glue'],
        gen=['SegGlue'],
        harnesses=[dict(name='seg', pkg='./corr/seg', topic='seg', n_quick=400, n_thorough=4000, thorough_seeds=4)],
        trusted_base=COMMON_TB + [
            "modelled, not verified: QUIC/WebTransport datagram service (assumed: unordered, lossy, non-duplicating), Go map and slice semantics",
            "hook H3 (verif tag): payload-size and clock setters of internal/segment, re-export package verifhook",
        ],
        rule="cases = (a) every permutation x loss subset of the segments of one message for 1..5 segments (6 in thorough; sampled subsets at 5+ in quick) at exact-multiple / off-by-one lengths, (b) random interleavings of 1-4 in-flight messages with lost segments, malformed datagrams (short, index beyond count, random), expiry sweeps and sequence wrap-around, (c) the 65535/65536-segment limit; distinct = distinct (kind, segment count, length, permutation, loss mask) resp. (payload size, message count, event count, completed count); non-trivial = every case delivers at least one datagram to the receiver",
        explanation="Lean theorems over the executable model of internal/segment (any message, any payload size P>0, any arrival list); tie = differential run of the real sender/receiver against the model on generated op lines plus the property's own oracle on the implementation",
        assumptions=["datagrams of one sequence number are segments of one message and are not duplicated by the network (QUIC datagram service)",
                     "sender-side SendDatagram succeeds (a failing send aborts the message; transport error path)"],
    ),
    'C17': dict(
        lean_modules=['Iscp.Props.C17'],
        gen=[],
        harnesses=[dict(name='neg', pkg='./corr/neg', topic='neg', n_quick=300, n_thorough=3000, thorough_seeds=4)],
        trusted_base=COMMON_TB + [
            "modelled, not verified: encoding/json (struct tags, omitempty/,string, exact-then-folded key matching, sorted map keys, U+FFFD coercion, literal rules of ,string fields) - mirrored in Iscp/Model/Neg.lean and pinned by correspondence; net/url.Values as a plain multimap; unicode/utf8.Valid (model has its own validator, compared on every generated string)",
        ],
        rule="cases = (a) grid encoding{'',json,proto,xml} x compression{'',per-message,context-takeover,gzip} x level{nil,-1,0..9,10} x window{nil,-1,0,1,8,15,32,33} x reconnect x group fields (every combination in thorough, a third sampled in quick), each through marshal/unmarshal on all three carriers, Validate and CompressConfig with two different bases; (b) every DialConfig on enable x level 0..9 x takeover x window{0,1,8,15,32}; (c) arbitrary key/value maps from pools of tag names, case variants, unknown keys, numeric oddities, invalid UTF-8; (d) malformed URL values; (e) binary inputs: truncations, duplicated/empty keys, invalid UTF-8, byte flips, random bytes. distinct = distinct op argument; non-trivial = every case runs at least one codec call",
        explanation="Lean theorems over the executable model of the three negotiation codecs, Validate and CompressConfig (all parameter sets, all byte strings); tie = differential run of the real codecs against the model on the grid and on arbitrary maps/bytes, plus the property's own oracle on the implementation",
        assumptions=["the receiving struct is fresh (zero) as in every call site of the library", "Go int is 64 bit"],
    ),
    'C07': dict(
        lean_modules=['Iscp.Props.C07'],
        gen=[],
        harnesses=[dict(name='store', pkg='./corr/store', topic='store', n_quick=400, n_thorough=4000, thorough_seeds=4),
                   dict(name='wire', pkg='./corr/wire', topic='wire', n_quick=80, n_thorough=600, thorough_seeds=3, timeout=1500)],
        trusted_base=COMMON_TB + [
            "hook H2 (verif tag): exported constructors of the unexported in-memory sent storages",
            "modelled, not verified: Go maps, sync.RWMutex (each critical section = one atomic model step), buffered channels as bounded FIFO queues",
        ],
        rule="store harness: random multi-stream op sequences (2-4 stream ids always hold data before any Clear; store/remove/list/clear on known and unknown stream ids; both storage variants), isolation oracle after every op on the real storage; wire harness: routing scenarios on a real wire.ClientConn over scripted transports (several upstream/downstream aliases opened and closed through real request/response exchanges, acks/chunks/ack-completes/metadata for known and unknown aliases and source nodes, drains) with the oracle that every drained token was addressed to the draining alias; distinct = distinct op-kind signature of the case; non-trivial = at least two streams hold data / are open",
        explanation="Lean theorems: frame lemmas for the storage and the routing tables and the relational non-interference statement over arbitrary interleavings; tie = differential runs of the real storage and the real wire connection against the model",
        assumptions=["stream aliases in use on one connection are pairwise distinct (assigned by the broker / the connection's generator)"],
    ),
    'C06': dict(
        lean_modules=['Iscp.Props.C06'],
        gen=[],
        harnesses=[dict(name='wire', pkg='./corr/wire', topic='wire', n_quick=120, n_thorough=1000, thorough_seeds=3, timeout=1500)],
        trusted_base=COMMON_TB + [
            "modelled, not verified: goroutine scheduling (a history = any list of req/resp/cancel events), channels (1-slot reply mailbox), sync.Mutex",
        ],
        rule="cases = 1-5 concurrent callers on one real wire.ClientConn issuing mixed typed requests; the scripted broker answers in random order with correct, duplicated, spurious (unknown / odd / already answered id) and wrong-kind responses; cancellations at random points followed by the late response; every response is followed by a FIFO sentinel exchange through readRequestLoop so outcomes are observed without sleeping; independent oracle: each returning caller holds a response bearing its own request id and of its own kind, ids are fresh and even; distinct = distinct event-kind signature; non-trivial = at least one response delivered out of issue order or a spurious/cancel event present (signature length > 6 sampled)",
        explanation="Lean theorems over the correlator model (ids even/distinct, invariant of reachable states, own response, unknown/duplicate ignored, cancel isolated, typed); tie = differential run of the real wire.ClientConn against the model",
        assumptions=["fewer than 2^31-1 requests per connection (uint32 id wrap-around)"],
    ),
    'C19': dict(
        lean_modules=['Iscp.Props.C19'],
        gen=[],
        harnesses=[dict(name='multi', pkg='./corr/multi', topic='multi', n_quick=40, n_thorough=200, thorough_seeds=3)],
        trusted_base=COMMON_TB + [
            "modelled, not verified: goroutines of readLoop/transportIDLoop (a history = any list of select/write/memberRead/read/close events), sync.RWMutex, channels; the scripted member transports of the harness",
        ],
        rule="cases = every member set over ids 1..4 (16 sets) x every initial id 0..5 (incl. the empty id and foreign ids), each followed by a random history of scheduler selections (members, foreign ids, empty id), writes, AsUnreliable/NegotiationParams, member reads and merged reads, counters and Close; plus per-member order cases, round-robin poller cases and last-used poller cases on a polling-mode transport; distinct = (member set, initial id, event signature); non-trivial = configuration accepted and at least two members (sampled)",
        explanation="Lean theorems (invariant current-is-member over all histories, routing, exactly-once merge, close, counters, pollers); tie = differential run of a real multi.Transport over scripted members against the model",
        assumptions=["member Read/Write behave as reliable transports (scripted)", "the empty transport id is not a member id"],
    ),
    'C18': dict(
        lean_modules=['Iscp.Props.C18'],
        gen=[],
        harnesses=[dict(name='rec', pkg='./corr/rec', topic='rec', n_quick=250, n_thorough=1500, thorough_seeds=4)],
        trusted_base=COMMON_TB + [
            "modelled, not verified: the three goroutines of the transport (write loop, read loop, ping loop) serialised as events; timers (1 ms reconnect interval in the harness); the scripted dialer and underlying transports",
        ],
        rule="cases = random histories on a real reconnect.Transport (budget 1-3): writes, bursts of 2-5 concurrent writers, scripted underlying write failures, read failures, redial outcome scripts (ok / dial failure / handshake failure, shorter and longer than the budget), delivered messages and control pings, reads, Close; oracle on the implementation: each nil-returning write is in exactly one incarnation's log and logs concatenate to issue order, every redial reuses the transport id with the reconnect flag, nothing blocks after exhaustion or Close; distinct = (budget, event signature); non-trivial = at least one injected failure (sampled)",
        explanation="Lean theorems over the reconnect model for all histories (accepted once in order, redial flags, ping filtered, reads continue, budget, dead means error); tie = differential run of the real transport against the model",
        assumptions=["an underlying Write that returns an error did not deliver", "single-writer issue order; for concurrent bursts only exactly-once is claimed (order between concurrent writers is the scheduler's)"],
    ),
    'C01': dict(
        lean_modules=['Iscp.Props.C01'],
        gen=[],
        harnesses=[dict(name='up', pkg='./corr/up', topic='up', n_quick=300, n_thorough=2500, thorough_seeds=4, timeout=600)],
        trusted_base=COMMON_TB + [
            "the scripted in-memory broker (go/broker): transport.Pipe + the real protobuf encoding on the broker side; hook H1 (dialer registry), H2 (sent storage option)",
            "modelled, not verified: goroutine scheduling of Write/Flush callers (the model's event order is the order in which the single flushLoop goroutine serves them), the eventDispatcher goroutine running hooks, timers (ticks are events; the harness owns the ticker channel of interval policies)",
        ],
        rule="lock-step cases: each of 8 policy settings x QoS x pre-registered ids, random histories of 6-30 ops (writes of 0-3 points with payload sizes straddling the thresholds under 4 data ids, ticks, Flush, acks for any subset of outstanding chunks in any order with success/failure codes, duplicates and unknown sequence numbers, alias assignments and re-announcements, state snapshots), then Close; every op's observable effects (chunks at the broker, State(), send/ack hook calls, close request) compared with the model; plus concurrent cases (2-8 writer goroutines, real tickers, Flush from many goroutines, self-acknowledging broker) judged by the conservation oracle on the broker's ledger; distinct = (policy, qos, pre-registration, op signature); non-trivial = at least two acks (sampled)",
        explanation="Lean theorems over all event histories of the upstream model (conservation per data id, contiguous numbering, alias round trip = send hook content, close totals, ack hook, store tracking); tie = differential lock-step run of a real Conn/Upstream against the model through a scripted broker, and the property's own ledger oracle",
        assumptions=["the connection stays up (C02 covers disconnects)", "the broker never announces one data id alias for two different ids"],
    ),
    'C20': dict(
        lean_modules=['Iscp.Props.C20'],
        gen=[],
        harnesses=[dict(name='up', pkg='./corr/up', topic='up', n_quick=300, n_thorough=2500, thorough_seeds=4, timeout=600)],
        trusted_base=COMMON_TB + [
            "the scripted in-memory broker (go/broker); hook H1, H2",
            "modelled, not verified: wall-clock behaviour of the interval ticker (a tick is an event; the real 1 ms ticker is exercised in the concurrent cases by the oracle only)",
        ],
        rule="same harness as C01: every policy (none, interval, size 0/3/8, interval-or-size 8/20, immediate), payload sizes 0,1,2,3,4,5,8,9 straddling the thresholds, zero-point writes, ticks, Flush, State() compared after every op with the model; concurrent cases with Flush from several goroutines; distinct = (policy, qos, pre-registration, op signature)",
        explanation="Lean theorems (flush barrier, none/size/immediate/interval policy, snapshot conservation, no empty cut) over all event histories of the upstream model; tie = the C01 lock-step correspondence",
        assumptions=["interval policy: 'within one interval' is measured, not proved (a tick is an event)"],
    ),
    'C02': dict(
        lean_modules=['Iscp.Props.C02'],
        gen=[],
        harnesses=[dict(name='up', pkg='./corr/up', topic='up', n_quick=300, n_thorough=2500, thorough_seeds=4, timeout=600)],
        trusted_base=COMMON_TB + [
            "the scripted in-memory broker (go/broker): a new in-memory transport per dial, severable at any message boundary (incl. dropping a chunk in flight); hook H1, H2",
            "modelled, not verified: which chunks reached the broker before a failure (the theorems hold for every choice), redial back-off timing, keepalive-based detection of the dead transport (20 ms ping interval in the harness)",
        ],
        rule="the C01 lock-step harness with transport failures injected at random op positions for reliable streams: kill (between ops), killafter (right after a chunk arrived, before its ack), killdrop (chunk lost in flight), one to several per history, with the library's own default sent storage in a third of the cases; after each failure the library reconnects and resumes by itself and the broker acknowledges retransmissions as they arrive; compared with the model: retransmitted set (sequence numbers, resolved content), state, hooks; oracle on the broker's ledger after Close: every written point present with its payload under the first sequence number, all copies of one sequence number identical, totals; distinct = (policy, qos, pre-registration, op signature incl. failure positions)",
        explanation="Lean theorems over histories with disconnect/resume events (projection to C01, store invariant, resume resends stored chunks with original number and content, delivery); tie = lock-step differential run with injected transport failures + ledger oracle",
        assumptions=["the broker resumes the stream (success); refused resumes are C05", "the broker acknowledges every (re)transmitted chunk eventually"],
    ),
    'C09': dict(
        lean_modules=['Iscp.Props.C09'],
        gen=['Guarded'],
        harnesses=[dict(name='race', pkg='./search/race', kind='race', build_flags=['-race'], workloads=['wire', 'wireclose', 'rec', 'multi', 'conn'], ms_quick=1500, ms_thorough=15000)],
        trusted_base=COMMON_TB + [
            "the extractor go/extract (go/packages + x/tools/go/cfg + the curated tables in go/extract/guards.go: guarded fields, helpers entered with a lock held, happens-before exemptions each with a justification)",
            "modelled, not verified: sync.Mutex/RWMutex semantics (Iscp.Lock.TStep), lock identity by declaring type and field (instance-insensitive)",
            "NOT decided by proof: fields ordered by happens-before (Gen.Guarded.exemptedSites), atomics, third-party code, completeness of the curated field list: the race-detector workloads search there and can only find, not exclude",
        ],
        rule="proof part: one kernel-checked obligation per function that touches a guarded field (regenerated every run); search part: race-detector workloads wire (streams opened/closed while another carries chunks and the connection closes), wireclose (Close exactly while an open response is dispatched), rec (redial budget exhausted under concurrent writers), multi (poller vs traffic), conn (real Conn: writers, readers, metadata, calls, repeated transport kills with resume, Close); distinct = workload",
        explanation="Lean: soundness of the lock-discipline checker and of lock discipline itself (mutual exclusion => no two conflicting accesses co-enabled) + regenerated per-function obligations over every access site of 45 guarded fields; race detector as failing-input search",
        assumptions=["the curated guard table names the intended guard of each shared field", "happens-before exemptions hold as justified"],
    ),
    'C08': dict(
        lean_modules=['Iscp.Props.C08Lock'],
        gen=['LockCFG'],
        harnesses=[dict(name='wire', pkg='./corr/wire', topic='wire', n_quick=60, n_thorough=400, thorough_seeds=2, timeout=1500),
                   dict(name='block', pkg='./corr/block', topic=None, n_quick=1, n_thorough=3, thorough_seeds=2, timeout=900)],
        trusted_base=COMMON_TB + [
            "the extractor go/extract (go/packages + x/tools/go/cfg): CFG of every function and function literal that calls Lock/RLock/Unlock/RUnlock/Cond.Wait in iscp/, wire/, transport/, encoding/, internal/",
            "modelled, not verified: Go's defer semantics as 'deferred unlocks run at every exit', lock identity by declaring type and field, panics as exits",
            "NOT decided by proof: that every blocking wait has a bounded waker (layer 2/3): measured by the block harness under a watchdog with the adversary {silent, misaddress, disconnect} per API scenario",
        ],
        rule="proof part: one kernel-checked obligation per locking function (regenerated); measured part: wire harness (dispatch keeps running, watchdog turns a stuck call into a violation) and block harness: every blocking public call (open up/down, write, flush, read, read metadata, metadata, call, call-and-wait-reply, stream Close, connection Close) against a broker that stays silent / answers another id / disconnects mid-exchange, each required to return within its bound (context, close timeout) plus slack, followed by a fresh call that must succeed",
        explanation="Lean: soundness of the lock certificate checker + regenerated per-function obligations (every path releases what it takes); harness: API-level bounds under an adversarial broker",
        assumptions=["scheduling slack 1.5 s on top of each bound in the measured part"],
    ),
    'C03': dict(
        lean_modules=['Iscp.Props.C03'],
        gen=[],
        harnesses=[dict(name='down', pkg='./corr/down', topic='down', n_quick=100, n_thorough=800, thorough_seeds=3, timeout=900)],
        trusted_base=COMMON_TB + [
            "the scripted in-memory broker (go/broker); hook H1",
            "modelled, not verified: the forwarding goroutines between the wire connection and the stream (order-preserving single-goroutine hops, each modelled as 'arrive'), the ack flush timer (a flush is an event; how many acks carry a batch is not compared, only their content, order and id continuity)",
        ],
        rule="lock-step cases on a real Conn/Downstream: random histories of chunks (1-3 upstreams in full form or under the alias the client announced, data ids in full or alias form, pre-registered ids, aliases never announced, empty groups), batched reads, metadata from two source nodes with read+ack, transport kills with plain and conflict-then-success resume, Close; compared per op with the model: returned chunks (sequence, upstream, resolved groups with points), errors, merged ack content; distinct = (qos, pre-registration, op signature); non-trivial = at least two read batches (sampled)",
        explanation="Lean theorems over all histories of the downstream model (in order once, resolution, unknown alias is an error, tables stable, metadata order) + lock-step differential correspondence",
        assumptions=["the consumer keeps up with the documented 1024-item buffering (explicit hypothesis keepsUp)", "cross-node metadata order is unspecified (per node only)"],
    ),
    'C04': dict(
        lean_modules=['Iscp.Props.C04'],
        gen=[],
        harnesses=[dict(name='down', pkg='./corr/down', topic='down', n_quick=100, n_thorough=800, thorough_seeds=3, timeout=900)],
        trusted_base=COMMON_TB + [
            "the scripted in-memory broker (go/broker); hook H1",
            "modelled, not verified: the forwarding goroutines between the wire connection and the stream (order-preserving single-goroutine hops, each modelled as 'arrive'), the ack flush timer (a flush is an event; how many acks carry a batch is not compared, only their content, order and id continuity)",
        ],
        rule="same harness as C03; additional oracles on the implementation: every chunk returned by ReadDataPoints is acknowledged exactly once with its upstream stream id and sequence number, ack ids increase by one from 1 across resumes, no upstream / data id receives two aliases and no alias names two things, the last ack precedes the close request",
        explanation="Lean theorems (ack exactly once, ack ids, alias injectivity and single announcement, close flushes first, resume keeps state) + lock-step differential correspondence",
        assumptions=["fewer than 2^32-1 aliases of each kind per stream"],
    ),
}
