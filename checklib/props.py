"""Per-property configuration of ./check (models, harnesses, evidence texts)."""

COMMON_TB = [
    "Lean 4.33.0 kernel (thorough tier: re-checked by leanchecker)",
    "the correspondence harness under /verif/go (test equipment: calls the real packages in-process with build tag verif)",
    "the line-protocol driver (Lean, compiled; runs the very definitions the theorems are about)",
]

PROPS = {
    'C14': dict(
        lean_modules=['Iscp.Props.C14', 'Iscp.Props.C14Glue'],
        gen=['SegGlue'],
        harnesses=[dict(name='seg', pkg='./corr/seg', topic='seg', n_quick=400, n_thorough=4000, thorough_seeds=4)],
        trusted_base=COMMON_TB + [
            "modelled, not verified: QUIC/WebTransport datagram service (assumed: unordered, lossy, non-duplicating), Go map and slice semantics",
            "hook H3 (verif tag): payload-size and clock setters of internal/segment, re-export package verifhook",
        ],
        rule="cases = (a) every permutation x loss subset of the segments of one message for 1..5 segments (6 in thorough; sampled subsets at 5+ in quick) at exact-multiple / off-by-one lengths, (b) random interleavings of 1-4 in-flight messages with lost segments, malformed datagrams (short, index beyond count, random), expiry sweeps and sequence wrap-around, (c) the 65535/65536-segment limit; distinct = distinct (kind, segment count, length, permutation, loss mask) resp. (payload size, message count, event count, completed count); non-trivial = every case delivers at least one datagram to the receiver",
        explanation="Lean theorems over the executable model of internal/segment (any message, any payload size P>0, any arrival list); tie = differential run of the real sender/receiver against the model on generated op lines plus the property's own oracle on the implementation",
        assumptions=["datagrams of one sequence number are segments of one message and are not duplicated by the network (QUIC datagram service)",
                     "sender-side SendDatagram succeeds (a failing send aborts the message; transport error path)"],
    ),
    'C17': dict(
        lean_modules=['Iscp.Props.C17'],
        gen=[],
        harnesses=[dict(name='neg', pkg='./corr/neg', topic='neg', n_quick=300, n_thorough=3000, thorough_seeds=4)],
        trusted_base=COMMON_TB + [
            "modelled, not verified: encoding/json (struct tags, omitempty/,string, exact-then-folded key matching, sorted map keys, U+FFFD coercion, literal rules of ,string fields) - mirrored in Iscp/Model/Neg.lean and pinned by correspondence; net/url.Values as a plain multimap; unicode/utf8.Valid (model has its own validator, compared on every generated string)",
        ],
        rule="cases = (a) grid encoding{'',json,proto,xml} x compression{'',per-message,context-takeover,gzip} x level{nil,-1,0..9,10} x window{nil,-1,0,1,8,15,32,33} x reconnect x group fields (every combination in thorough, a third sampled in quick), each through marshal/unmarshal on all three carriers, Validate and CompressConfig with two different bases; (b) every DialConfig on enable x level 0..9 x takeover x window{0,1,8,15,32}; (c) arbitrary key/value maps from pools of tag names, case variants, unknown keys, numeric oddities, invalid UTF-8; (d) malformed URL values; (e) binary inputs: truncations, duplicated/empty keys, invalid UTF-8, byte flips, random bytes. distinct = distinct op argument; non-trivial = every case runs at least one codec call",
        explanation="Lean theorems over the executable model of the three negotiation codecs, Validate and CompressConfig (all parameter sets, all byte strings); tie = differential run of the real codecs against the model on the grid and on arbitrary maps/bytes, plus the property's own oracle on the implementation",
        assumptions=["the receiving struct is fresh (zero) as in every call site of the library", "Go int is 64 bit"],
    ),
}
