// Correspondence harness for C05 / C10: a real iscp.Conn against the scripted broker, driven by the events of the Lean model
// M-Conn (topic `conn`): transport failures, scripted redial outcomes (the attempt waits at a gate until the harness releases
// it), resume requests held back and answered / refused one by one, requests and stream opens issued before, during and across
// outages, stream Close and connection Close.  After every event the observable state (status, incarnations, dial attempts,
// token calls, notifications, per-stream state and notification counts, completed / waiting / failed requests, answered resume
// requests) is printed and compared with the model.  Oracles on the implementation: resume requests carry the original
// stream id (and alias for downstreams); surviving streams keep working after recovery; after Close: sentinel errors returned
// promptly, silence on the wire, no further dial, no library goroutine left.
package main

import (
	"context"
	"fmt"
	"runtime"
	"sort"
	"strconv"
	"strings"
	"sync"
	"sync/atomic"
	"time"

	ierrors "github.com/aptpod/iscp-go/errors"
	"github.com/aptpod/iscp-go/iscp"
	"github.com/aptpod/iscp-go/message"
	uuid "github.com/google/uuid"
	"verif.local/harness/broker"
	"verif.local/harness/lp"
)

const wd = 3 * time.Second

type stream struct {
	sid           int
	dir           string
	up            *iscp.Upstream
	down          *iscp.Downstream
	id            uuid.UUID
	alias         uint32
	opened        bool
	openErr       error
	attached      int32 // incarnation (1-based) the stream is attached to
	resumedEv     int32
	closedEv      int32
	closedErr     int32
	appClosed     bool
	flaggedTwice  bool
	overlapClosed bool // closed by two overlapping Close calls: the closed notification may be lost (at most once is what is required)
	writeSeq      int
	points        uint64 // data points the application wrote successfully
	evAtClose     int32  // closed notifications delivered before the connection's Close (-1: not yet closed)
}

type req struct {
	id   int
	done chan error
	res  string // "", "ok", "err"
	err  error
}

type held struct {
	inc *broker.Inc
	msg message.Message
	id  uuid.UUID
}

type counters struct{ tokens, disc, reconn int32 }

type impl struct {
	b    *broker.Broker
	conn *iscp.Conn
	*counters
	streams                       []*stream
	reqs                          []*req
	mu                            sync.Mutex
	held                          []held
	holdMeta                      string
	gate                          chan struct{}
	closed                        bool
	discSent                      int
	incAtClose                    int
	released                      int      // dial attempts released from the gate so far (incl. the initial connect)
	ackAttempts                   int      // attempts the events so far account for (1 + outages + elapsed back-offs): an attempt that starts early because the harness was slow is not shown before its event
	holdOpen                      bool     // the broker swallows stream open requests (their exchange is to be cut)
	shorts                        []string // names of requests whose context ended during an outage: they must never reach the broker
	tokenFlagged                  bool
	pendingViolation              string
	earlyAtClose, earlyTokAtClose int
	discFlagged                   bool
	downAliases                   map[*broker.Inc]map[uint32]string
	aliasSeq                      int
	aliasClash                    string
	dialsAtClose                  int
	tokensAtClose                 int32
}

func waitUntil(d time.Duration, f func() bool) bool {
	for t := time.Now(); time.Since(t) < d; time.Sleep(200 * time.Microsecond) {
		if f() {
			return true
		}
	}
	return f()
}

func (i *impl) teardown() {
	if i.b == nil {
		return
	}
	i.b.Lock()
	g := i.b.DialGate
	i.b.DialGate = nil
	i.b.Unlock()
	if g != nil {
		select {
		case <-g:
		default:
			close(g)
		}
	}
	if i.conn != nil {
		ctx, cancel := context.WithTimeout(context.Background(), 300*time.Millisecond)
		i.conn.Close(ctx)
		cancel()
	}
	for _, inc := range i.incs() {
		inc.Kill()
	}
}

// claimAlias (i.mu held): the aliases the client's downstreams ask for on one transport must be pairwise distinct - the alias
// is what keeps the streams' entries in the connection's routing tables apart.
func (i *impl) claimAlias(inc *broker.Inc, alias uint32, who string) {
	if i.downAliases == nil {
		i.downAliases = map[*broker.Inc]map[uint32]string{}
	}
	if i.downAliases[inc] == nil {
		i.downAliases[inc] = map[uint32]string{}
	}
	if other, taken := i.downAliases[inc][alias]; taken && other != who && i.aliasClash == "" {
		i.aliasClash = fmt.Sprintf("two live downstreams of one connection ask for the same stream alias %d on the same transport (%s and %s): their routing-table entries collide", alias, other, who)
	}
	i.downAliases[inc][alias] = who
}

func (i *impl) incs() []*broker.Inc {
	i.b.Lock()
	defer i.b.Unlock()
	return append([]*broker.Inc(nil), i.b.Incs...)
}

func (i *impl) reset() string {
	i.teardown()
	*i = impl{counters: &counters{}}
	cnt := i.counters // handlers of this connection count into this connection's counters only
	i.b = broker.New()
	i.b.Policy = func(inc *broker.Inc, m message.Message) bool {
		switch r := m.(type) {
		case *message.UpstreamResumeRequest:
			i.mu.Lock()
			i.held = append(i.held, held{inc, m, r.StreamID})
			i.mu.Unlock()
			return true
		case *message.DownstreamResumeRequest:
			i.mu.Lock()
			i.claimAlias(inc, r.DesiredStreamIDAlias, r.StreamID.String())
			i.held = append(i.held, held{inc, m, r.StreamID})
			i.mu.Unlock()
			return true
		case *message.DownstreamCloseRequest:
			i.b.Lock()
			ds := i.b.Downs[r.StreamID]
			i.b.Unlock()
			if ds != nil {
				i.mu.Lock()
				delete(i.downAliases[inc], ds.Alias) // the alias is free again on this transport
				i.mu.Unlock()
			}
		case *message.UpstreamMetadata:
			if bt, ok := r.Metadata.(*message.BaseTime); ok {
				i.mu.Lock()
				h := i.holdMeta
				i.mu.Unlock()
				if h != "" && bt.Name == h {
					return true // swallowed: the exchange stays unanswered until the transport is cut
				}
			}
		case *message.UpstreamOpenRequest, *message.DownstreamOpenRequest:
			i.mu.Lock()
			if o, ok := m.(*message.DownstreamOpenRequest); ok {
				i.aliasSeq++
				i.claimAlias(inc, o.DesiredStreamIDAlias, fmt.Sprintf("new downstream #%d", i.aliasSeq))
			}
			ho := i.holdOpen
			i.mu.Unlock()
			if ho {
				return true
			}
		case *message.UpstreamCall:
			i.mu.Lock()
			h := i.holdMeta
			i.mu.Unlock()
			if h != "" && r.Name == h {
				return true
			}
		}
		return false
	}
	i.b.Register()
	conn, err := iscp.Connect("mem", broker.TransportName,
		iscp.WithConnPingInterval(20*time.Millisecond), iscp.WithConnPingTimeout(500*time.Millisecond),
		iscp.WithConnTokenSource(iscp.TokenSourceFunc(func() (iscp.Token, error) {
			n := atomic.AddInt32(&cnt.tokens, 1)
			return iscp.Token("tok" + strconv.Itoa(int(n))), nil
		})),
		iscp.WithConnDisconnectedEventHandler(iscp.DisconnectedEventHandlerFunc(func(*iscp.DisconnectedEvent) { atomic.AddInt32(&cnt.disc, 1) })),
		iscp.WithConnReconnectedEventHandler(iscp.ReconnectedEventHandlerFunc(func(*iscp.ReconnectedEvent) { atomic.AddInt32(&cnt.reconn, 1) })))
	for try := 0; err != nil && try < 3; try++ { // a loaded machine: the connect handshake of the harness's own connection may time out
		time.Sleep(20 * time.Millisecond)
		conn, err = iscp.Connect("mem", broker.TransportName,
			iscp.WithConnPingInterval(20*time.Millisecond), iscp.WithConnPingTimeout(500*time.Millisecond),
			iscp.WithConnTokenSource(iscp.TokenSourceFunc(func() (iscp.Token, error) {
				n := atomic.AddInt32(&cnt.tokens, 1)
				return iscp.Token("tok" + strconv.Itoa(int(n))), nil
			})),
			iscp.WithConnDisconnectedEventHandler(iscp.DisconnectedEventHandlerFunc(func(*iscp.DisconnectedEvent) { atomic.AddInt32(&cnt.disc, 1) })),
			iscp.WithConnReconnectedEventHandler(iscp.ReconnectedEventHandlerFunc(func(*iscp.ReconnectedEvent) { atomic.AddInt32(&cnt.reconn, 1) })))
	}
	if err != nil {
		return "err connect: " + err.Error()
	}
	i.conn = conn
	i.released = 1
	i.ackAttempts = 1
	return "ok"
}

func (i *impl) status() string { return []string{"c", "r", "x"}[i.conn.VerifConnStatus()] }

func (i *impl) curInc() int {
	if i.closed {
		return i.incAtClose // a dial that was in flight when Close was called may still complete; it is judged by the probe
	}
	i.b.Lock()
	defer i.b.Unlock()
	return len(i.b.Incs)
}

func (i *impl) openStream(st *stream) { i.openStreamOn(i.conn, i.b, st) }

// openStreamOn: the connection and broker are fixed when the open is issued (a later `reset` must not redirect an open that is still waiting)
func (i *impl) openStreamOn(conn *iscp.Conn, b *broker.Broker, st *stream) {
	ctx, cancel := context.WithTimeout(context.Background(), 8*time.Second)
	defer cancel()
	if st.dir == "u" {
		qos := message.QoSReliable
		if st.sid%2 == 0 {
			qos = message.QoSUnreliable
		}
		u, err := conn.OpenUpstream(ctx, "sess"+strconv.Itoa(st.sid), iscp.WithUpstreamQoS(qos), iscp.WithUpstreamFlushPolicyIntervalOnly(time.Hour),
			iscp.WithUpstreamResumedEventHandler(iscp.UpstreamResumedEventHandlerFunc(func(*iscp.UpstreamResumedEvent) {
				atomic.StoreInt32(&st.attached, int32(i.curInc()))
				atomic.AddInt32(&st.resumedEv, 1)
			})),
			iscp.WithUpstreamClosedEventHandler(iscp.UpstreamClosedEventHandlerFunc(func(ev *iscp.UpstreamClosedEvent) {
				if ev.Err != nil {
					atomic.StoreInt32(&st.closedErr, 1)
				}
				atomic.AddInt32(&st.closedEv, 1)
			})))
		if err != nil {
			st.openErr = err
			return
		}
		st.up, st.id = u, u.ID
	} else {
		d, err := conn.OpenDownstream(ctx, []*message.DownstreamFilter{{SourceNodeID: "n0", DataFilters: []*message.DataFilter{{Name: "#", Type: "#"}}}},
			iscp.WithDownstreamQoS(message.QoSReliable), iscp.WithDownstreamAckFlushInterval(2*time.Millisecond),
			iscp.WithDownstreamResumedEventHandler(iscp.DownstreamResumedEventHandlerFunc(func(*iscp.DownstreamResumedEvent) {
				atomic.StoreInt32(&st.attached, int32(i.curInc()))
				atomic.AddInt32(&st.resumedEv, 1)
			})),
			iscp.WithDownstreamClosedEventHandler(iscp.DownstreamClosedEventHandlerFunc(func(ev *iscp.DownstreamClosedEvent) {
				if ev.Err != nil {
					atomic.StoreInt32(&st.closedErr, 1)
				}
				atomic.AddInt32(&st.closedEv, 1)
			})))
		if err != nil {
			st.openErr = err
			return
		}
		st.down, st.id = d, d.ID
		// the alias this stream asked for: recorded by the broker under the stream id it assigned (several opens may complete at once)
		b.Lock()
		if ds := b.Downs[d.ID]; ds != nil {
			st.alias = ds.Alias
		}
		b.Unlock()
	}
	atomic.StoreInt32(&st.attached, int32(i.curInc()))
	st.opened = true
}

func (i *impl) issueReq(h *lp.H, id int) *req {
	r := &req{id: id, done: make(chan error, 1)}
	i.reqs = append(i.reqs, r)
	conn := i.conn
	go func() {
		ctx, cancel := context.WithTimeout(context.Background(), 8*time.Second)
		defer cancel()
		if id%2 == 0 {
			_, err := conn.SendCall(ctx, &iscp.UpstreamCall{DestinationNodeID: "dst", Name: "r" + strconv.Itoa(id), Type: "t", Payload: []byte{1}})
			r.done <- err
			return
		}
		r.done <- conn.SendBaseTime(ctx, &message.BaseTime{Name: "r" + strconv.Itoa(id), BaseTime: time.Unix(1700000000, 0).UTC()})
	}()
	return r
}

func (i *impl) settle(r *req, d time.Duration) {
	if r.res != "" {
		return
	}
	select {
	case err := <-r.done:
		r.err = err
		if err == nil {
			r.res = "ok"
		} else {
			r.res = "err"
		}
	case <-time.After(d):
	}
}

// incarnation (1-based) on which request id was acknowledged = the last one it was received on
func (i *impl) reqInc(id int) int {
	inc := 0
	for _, r := range i.b.LogFrom(0) {
		if m, ok := r.Msg.(*message.UpstreamMetadata); ok {
			if bt, ok := m.Metadata.(*message.BaseTime); ok && bt.Name == "r"+strconv.Itoa(id) {
				inc = r.Inc + 1
			}
		}
		if m, ok := r.Msg.(*message.UpstreamCall); ok && m.Name == "r"+strconv.Itoa(id) {
			inc = r.Inc + 1
		}
	}
	return inc
}

func (i *impl) heldFor(st *stream) *held {
	i.mu.Lock()
	defer i.mu.Unlock()
	cur := i.curIncPtr()
	for k := len(i.held) - 1; k >= 0; k-- {
		if i.held[k].id == st.id && i.held[k].inc == cur && i.held[k].msg != nil {
			return &i.held[k]
		}
	}
	return nil
}

func (i *impl) curIncPtr() *broker.Inc {
	i.b.Lock()
	defer i.b.Unlock()
	if len(i.b.Incs) == 0 {
		return nil
	}
	return i.b.Incs[len(i.b.Incs)-1]
}

func (i *impl) closedEvOf(st *stream) int32 {
	if i.closed && st.evAtClose >= 0 {
		return st.evAtClose // what happens to a stream after the connection's Close is judged by the oracles, not shown
	}
	if st.overlapClosed {
		return 1 // the application closed it; zero or one notification, never two (checked on the raw counter)
	}
	return atomic.LoadInt32(&st.closedEv)
}

func (i *impl) streamState(st *stream) string {
	if i.closedEvOf(st) > 0 {
		if atomic.LoadInt32(&st.closedErr) > 0 && !st.appClosed {
			return "closederr"
		}
		return "closed"
	}
	if i.closed {
		return "closedconn" // ended with the connection, no notification of its own
	}
	if i.status() == "c" && int(atomic.LoadInt32(&st.attached)) == i.curInc() {
		return "open"
	}
	return "resuming"
}

func (i *impl) summary() string {
	var ss, sent, pend, failed, res []string
	for _, st := range i.streams {
		if !st.opened {
			continue
		}
		ss = append(ss, fmt.Sprintf("%d:%s:%s:%d:%d", st.sid, st.dir, i.streamState(st), atomic.LoadInt32(&st.resumedEv), i.closedEvOf(st)))
	}
	for _, st := range i.streams {
		if n := atomic.LoadInt32(&st.closedEv); n > 1 && !st.flaggedTwice {
			st.flaggedTwice = true
			i.pendingViolation = fmt.Sprintf("stream %d received %d closed notifications", st.sid, n)
		}
	}
	popen := 0
	for _, st := range i.streams {
		if !st.opened && st.openErr == nil {
			popen++
		}
	}
	type pr struct{ a, b int }
	var sp []pr
	for _, r := range i.reqs {
		switch r.res {
		case "ok":
			sp = append(sp, pr{i.reqInc(r.id), r.id})
		case "err":
			failed = append(failed, strconv.Itoa(r.id))
		default:
			pend = append(pend, strconv.Itoa(r.id))
		}
	}
	sort.Slice(sp, func(x, y int) bool { return sp[x].a < sp[y].a || (sp[x].a == sp[y].a && sp[x].b < sp[y].b) })
	for _, p := range sp {
		sent = append(sent, fmt.Sprintf("%d/%d", p.a, p.b))
	}
	// answered resume requests: (incarnation, stream) of every resumed notification; the request itself is checked when it is answered
	i.mu.Lock()
	var rs []pr
	for _, hh := range i.held {
		if hh.msg == nil { // answered ok
			for _, st := range i.streams {
				if st.id == hh.id {
					rs = append(rs, pr{hh.inc.N + 1, st.sid})
				}
			}
		}
	}
	i.mu.Unlock()
	sort.Slice(rs, func(x, y int) bool { return rs[x].a < rs[y].a || (rs[x].a == rs[y].a && rs[x].b < rs[y].b) })
	for _, p := range rs {
		res = append(res, fmt.Sprintf("%d/%d", p.a, p.b))
	}
	i.b.Lock()
	dials := i.b.Dials
	i.b.Unlock()
	tokens := int(atomic.LoadInt32(&i.tokens))
	if tokens < dials && !i.tokenFlagged {
		i.tokenFlagged = true
		i.pendingViolation = fmt.Sprintf("%d connect attempts were made but the token source was asked only %d times: an attempt reused an earlier token", dials, tokens)
	}
	if !i.closed {
		if dials > i.ackAttempts {
			dials = i.ackAttempts
		}
		if tokens > i.ackAttempts {
			tokens = i.ackAttempts
		}
	} else {
		// the token is fetched first, then the dial starts: an early attempt may have shown only its token request at the Close
		early := i.earlyTokAtClose
		if i.earlyAtClose > early {
			early = i.earlyAtClose
		}
		forgive := func(raw int) int {
			switch {
			case raw-early >= i.ackAttempts:
				return raw - early
			case raw > i.ackAttempts:
				return i.ackAttempts
			}
			return raw
		}
		dials, tokens = forgive(dials), forgive(tokens)
	}
	nd := 0
	for _, r := range i.b.LogFrom(0) {
		if _, ok := r.Msg.(*message.Disconnect); ok {
			nd++
		}
	}
	if nd > 1 && i.pendingViolation == "" && !i.discFlagged {
		i.discFlagged = true
		i.pendingViolation = fmt.Sprintf("the broker received %d Disconnect messages from one connection: Close must send exactly one", nd)
	}
	if i.closed && nd == 0 && i.discSent == 1 {
		nd = 1 // Close while no transport was up: the Disconnect cannot reach anybody; the model counts the Close
	}
	return fmt.Sprintf("st=%s inc=%d dials=%d tokens=%d disc=%d reconn=%d streams=[%s] sent=[%s] pending=[%s] popen=%d failed=[%s] resumes=[%s] disconnects=%d",
		i.status(), i.curInc(), dials, tokens, atomic.LoadInt32(&i.disc), atomic.LoadInt32(&i.reconn),
		strings.Join(ss, " "), strings.Join(sent, " "), strings.Join(pend, " "), popen, strings.Join(failed, " "), strings.Join(res, " "), nd)
}

// attemptWaiting: an attempt the events so far account for is in progress (it sits at the gate, or is about to). An attempt
// that the library started early - the back-off elapsed before the harness issued its `backoff` event - does not count yet.
func (i *impl) attemptWaiting() bool {
	return i.ackAttempts > i.released
}

func (i *impl) releaseAttempt(outcome string) {
	i.b.Lock()
	i.b.DialScript = []string{outcome}
	old := i.gate
	i.gate = make(chan struct{})
	i.b.DialGate = i.gate
	i.released = i.b.Dials
	i.b.Unlock()
	close(old)
}

// awaitResumeRequests: after a recovery every surviving stream sends its resume request (held by the broker until the harness
// answers it)
func (i *impl) awaitResumeRequests(h *lp.H) {
	want := 0
	cur := i.curIncPtr()
	if !waitUntil(wd, func() bool {
		// recomputed on every poll: a closed notification (cut resume) may still be on its way
		want = 0
		for _, st := range i.streams {
			if st.opened && i.closedEvOf(st) == 0 && int(atomic.LoadInt32(&st.attached)) != i.curInc() {
				want++
			}
		}
		i.mu.Lock()
		defer i.mu.Unlock()
		n := 0
		for _, hh := range i.held {
			if hh.inc == cur && hh.msg != nil {
				n++
			}
		}
		return n >= want
	}) {
		diag := fmt.Sprintf("incs=%d status=%s", len(i.incs()), i.status())
		for _, st := range i.streams {
			diag += fmt.Sprintf(" [s%d %s opened=%v attached=%d closedEv=%d resumedEv=%d]", st.sid, st.dir, st.opened, atomic.LoadInt32(&st.attached), atomic.LoadInt32(&st.closedEv), atomic.LoadInt32(&st.resumedEv))
		}
		i.mu.Lock()
		for _, hh := range i.held {
			diag += fmt.Sprintf(" held(inc=%d answered=%v)", hh.inc.N, hh.msg == nil)
		}
		i.mu.Unlock()
		var last []string
		lg := i.b.LogFrom(0)
		for k := len(lg) - 1; k >= 0 && len(last) < 10; k-- {
			if _, isPing := lg[k].Msg.(*message.Ping); !isPing {
				last = append(last, fmt.Sprintf("%d:%T", lg[k].Inc, lg[k].Msg))
			}
		}
		h.Violate(fmt.Sprintf("after the recovery %d stream(s) should send a resume request; fewer arrived within %v: a stream is left detached {%s last=%v}", want, wd, diag, last))
	}
}

func (i *impl) newGate() {
	i.b.Lock()
	i.gate = make(chan struct{})
	i.b.DialGate = i.gate
	i.b.Unlock()
}

// lose: the transport dies under the client; returns once the client noticed
// cutSet: streams whose resume request is unanswered on the current transport: a transport failure now cuts that exchange
func (i *impl) cutSet() []*stream {
	var cut []*stream
	if cur := i.curIncPtr(); cur != nil {
		i.mu.Lock()
		for _, hh := range i.held {
			if hh.inc == cur && hh.msg != nil && hh.id != uuid.Nil {
				for _, st := range i.streams {
					if st.id == hh.id && i.closedEvOf(st) == 0 {
						cut = append(cut, st)
					}
				}
			}
		}
		i.mu.Unlock()
	}
	return cut
}

// awaitCut: every stream whose resume exchange was cut is reported closed
func (i *impl) awaitCut(h *lp.H, cut []*stream) {
	for _, st := range cut {
		if !waitUntil(wd, func() bool { return atomic.LoadInt32(&st.closedEv) > 0 }) {
			h.Violate(fmt.Sprintf("stream %d: its resume exchange was cut by a transport failure and it was not reported closed within %v (left silently detached)", st.sid, wd))
		}
	}
}

func (i *impl) lose(h *lp.H) {
	cut := i.cutSet()
	defer i.awaitCut(h, cut)
	d0 := atomic.LoadInt32(&i.disc)
	i.b.Lock()
	dials0 := i.b.Dials
	i.b.Unlock()
	i.newGate()
	if cur := i.curIncPtr(); cur != nil {
		cur.Kill()
	}
	if !waitUntil(wd, func() bool { return atomic.LoadInt32(&i.disc) > d0 && i.status() == "r" }) {
		h.Violate(fmt.Sprintf("the transport failed and within %v the client neither reported the disconnection nor started to reconnect (status %s)", wd, i.status()))
	}
	// the first redial attempt is waiting at the gate
	i.ackAttempts++
	waitUntil(wd, func() bool { i.b.Lock(); defer i.b.Unlock(); return i.b.Dials > dials0 })
	// streams whose resume exchange was cut are closed with an error
	time.Sleep(3 * time.Millisecond)
}

func (i *impl) exec(h *lp.H, op string) string {
	w := strings.Fields(op)
	if w[0] == "reset" {
		return i.reset()
	}
	if i.conn == nil {
		return "noconn"
	}
	switch w[0] {
	case "open":
		st := &stream{sid: len(i.streams) + 1, dir: w[1][:1], evAtClose: -1}
		i.streams = append(i.streams, st)
		switch i.status() {
		case "c":
			i.openStream(st)
			if st.openErr != nil {
				h.Violate(fmt.Sprintf("cannot open a stream on a healthy connection: %v", st.openErr))
			}
		case "r":
			go i.openStreamOn(i.conn, i.b, st)
			time.Sleep(2 * time.Millisecond)
		default:
			t0 := time.Now()
			i.openStream(st)
			i.afterCloseErr(h, "open "+w[1], st.openErr, time.Since(t0))
			i.streams = i.streams[:len(i.streams)-1]
		}
	case "opencut":
		// a stream open whose request is in flight when the transport fails: it is sent again after the recovery and the stream
		// it returns must be attached to the new transport and stay open
		if i.status() != "c" {
			break
		}
		st := &stream{sid: len(i.streams) + 1, dir: w[1][:1], evAtClose: -1}
		i.streams = append(i.streams, st)
		i.mu.Lock()
		i.holdOpen = true
		i.mu.Unlock()
		n0 := i.b.LogLen()
		go i.openStreamOn(i.conn, i.b, st)
		if !waitUntil(wd, func() bool {
			for _, r := range i.b.LogFrom(n0) {
				switch r.Msg.(type) {
				case *message.UpstreamOpenRequest, *message.DownstreamOpenRequest:
					return true
				}
			}
			return false
		}) {
			h.Violate("an open request on a healthy connection never reached the broker")
		}
		i.lose(h)
		i.mu.Lock()
		i.holdOpen = false
		i.mu.Unlock()
	case "reqshort":
		// a request issued during the outage whose context ends before the recovery: it returns with its context's error when
		// the context ends (not when the connection comes back) and is never sent
		if i.status() != "r" {
			break
		}
		t0 := time.Now()
		ctx, cancel := context.WithTimeout(context.Background(), 120*time.Millisecond)
		err := i.conn.SendBaseTime(ctx, &message.BaseTime{Name: "short" + w[1], BaseTime: time.Unix(1700000000, 0).UTC()})
		cancel()
		took := time.Since(t0)
		if err == nil {
			h.Violate("a request issued during the outage with a 120 ms context returned nil although the connection was down all the time")
		} else if took > 600*time.Millisecond {
			h.Violate(fmt.Sprintf("a request issued during the outage with a 120 ms context returned only after %v (%v)", took.Round(time.Millisecond), err))
		}
		i.shorts = append(i.shorts, "short"+w[1])
	case "req", "reqcut":
		id, _ := strconv.Atoi(w[1])
		switch i.status() {
		case "c":
			if w[0] == "reqcut" {
				i.mu.Lock()
				i.holdMeta = "r" + w[1]
				i.mu.Unlock()
				r := i.issueReq(h, id)
				if !waitUntil(wd, func() bool { return i.reqInc(id) > 0 }) {
					h.Violate("a metadata request on a healthy connection never reached the broker")
				}
				i.lose(h)
				i.mu.Lock()
				i.holdMeta = ""
				i.mu.Unlock()
				i.settle(r, 30*time.Millisecond)
				if r.res == "err" {
					h.Violate(fmt.Sprintf("a request interrupted by the transport failure failed instead of waiting for the recovery: %v", r.err))
				}
			} else {
				r := i.issueReq(h, id)
				i.settle(r, wd)
				if r.res != "ok" {
					h.Violate(fmt.Sprintf("a metadata request on a healthy connection did not complete: %v", r.err))
				}
			}
		case "r":
			r := i.issueReq(h, id)
			i.settle(r, 30*time.Millisecond)
			if r.res == "err" {
				h.Violate(fmt.Sprintf("a request issued during the outage failed instead of waiting for the recovery: %v", r.err))
			}
		default:
			t0 := time.Now()
			r := i.issueReq(h, id)
			i.settle(r, wd)
			i.afterCloseErr(h, "request", r.err, time.Since(t0))
			if r.res == "" {
				h.Violate("a request after Close neither fails nor returns")
			}
		}
	case "reqcutfast", "opencutfast":
		// a request / stream open in flight when the transport fails, with an immediate redial: exactly one outage results
		if i.status() != "c" {
			break
		}
		d0, rc0 := atomic.LoadInt32(&i.disc), atomic.LoadInt32(&i.reconn)
		cut := i.cutSet()
		defer i.awaitCut(h, cut)
		i.b.Lock()
		i.b.DialGate = nil
		i.b.Unlock()
		i.ackAttempts++
		n0 := i.b.LogLen()
		var r *req
		var st *stream
		i.mu.Lock()
		if w[0] == "reqcutfast" {
			i.holdMeta = "r" + w[1]
		} else {
			i.holdOpen = true
		}
		i.mu.Unlock()
		if w[0] == "reqcutfast" {
			id, _ := strconv.Atoi(w[1])
			r = i.issueReq(h, id)
		} else {
			st = &stream{sid: len(i.streams) + 1, dir: w[1][:1], evAtClose: -1}
			i.streams = append(i.streams, st)
			go i.openStreamOn(i.conn, i.b, st)
		}
		if !waitUntil(wd, func() bool {
			for _, rec := range i.b.LogFrom(n0) {
				switch rec.Msg.(type) {
				case *message.UpstreamOpenRequest, *message.DownstreamOpenRequest, *message.UpstreamMetadata, *message.UpstreamCall:
					return true
				}
			}
			return false
		}) {
			h.Violate("a request on a healthy connection never reached the broker")
		}
		cur := i.curIncPtr()
		i.mu.Lock()
		i.holdMeta, i.holdOpen = "", false
		i.mu.Unlock()
		if cur != nil {
			cur.Kill()
		}
		if !waitUntil(wd, func() bool {
			return atomic.LoadInt32(&i.disc) > d0 && atomic.LoadInt32(&i.reconn) > rc0 && i.status() == "c"
		}) {
			h.Violate(fmt.Sprintf("the transport failed and the immediate redial succeeded, but within %v the connection did not report disconnected+reconnected (status %s)", wd, i.status()))
			break
		}
		if r != nil {
			i.settle(r, wd)
			if r.res != "ok" {
				h.Violate(fmt.Sprintf("request %d was interrupted by the transport failure and did not complete after the immediate recovery: %v", r.id, r.err))
			}
		} else if !waitUntil(wd, func() bool { return st.opened || st.openErr != nil }) || st.openErr != nil {
			h.Violate(fmt.Sprintf("a stream open interrupted by the transport failure did not complete after the immediate recovery: %v", st.openErr))
		}
		// nothing else happens: the connection stays up (a stale error of the old transport must not be taken for a new outage)
		time.Sleep(60 * time.Millisecond)
		i.b.Lock()
		i.released = i.b.Dials
		i.b.Unlock()
		i.awaitResumeRequests(h)
	case "killfast":
		// the transport fails and the redial succeeds at once (no gate): the outage is over before most goroutines have seen it
		if i.status() != "c" {
			break
		}
		d0, rc0 := atomic.LoadInt32(&i.disc), atomic.LoadInt32(&i.reconn)
		cut := i.cutSet()
		defer i.awaitCut(h, cut)
		i.b.Lock()
		i.b.DialGate = nil
		i.b.Unlock()
		i.ackAttempts++
		if cur := i.curIncPtr(); cur != nil {
			cur.Kill()
		}
		if !waitUntil(wd, func() bool {
			return atomic.LoadInt32(&i.disc) > d0 && atomic.LoadInt32(&i.reconn) > rc0 && i.status() == "c"
		}) {
			h.Violate(fmt.Sprintf("the transport failed and the immediate redial succeeded, but within %v the connection did not report disconnected+reconnected (status %s)", wd, i.status()))
			break
		}
		i.b.Lock()
		i.released = i.b.Dials
		i.b.Unlock()
		i.awaitResumeRequests(h)
	case "kill":
		if i.status() == "c" {
			// every resuming stream has its resume request at the broker (held): the cut is well defined
			i.lose(h)
		}
	case "backoff":
		if i.status() != "r" || i.attemptWaiting() {
			break
		}
		i.ackAttempts++
		want := i.ackAttempts
		if !waitUntil(wd, func() bool { i.b.Lock(); defer i.b.Unlock(); return i.b.Dials >= want }) {
			h.Violate("after a failed redial no further attempt was made within 3 s")
		}
		time.Sleep(2 * time.Millisecond)
	case "failclose":
		// the attempt in progress fails and, while the client backs off, the application closes the connection
		if i.status() != "r" || !i.attemptWaiting() {
			break
		}
		i.releaseAttempt("fail")
		time.Sleep(4 * time.Millisecond)
		return i.exec(h, "close")
	case "dial":
		if i.status() != "r" || !i.attemptWaiting() {
			break
		}
		rc0 := atomic.LoadInt32(&i.reconn)
		if w[1] == "cut" { // the dial succeeds, the link drops during the connect handshake: a failed attempt like any other
			i.releaseAttempt("deadlink")
		} else {
			i.releaseAttempt(w[1])
		}
		if w[1] == "fail" || w[1] == "cut" {
			time.Sleep(4 * time.Millisecond)
			break
		}
		if !waitUntil(wd, func() bool { return atomic.LoadInt32(&i.reconn) > rc0 && i.status() == "c" }) {
			h.Violate(fmt.Sprintf("the redial succeeded but the connection did not come back within %v (status %s, reconnected events %d)", wd, i.status(), atomic.LoadInt32(&i.reconn)))
			break
		}
		// requests and opens that waited are sent now; every surviving stream sends its resume request (held)
		for _, r := range i.reqs {
			if r.res == "" {
				i.settle(r, wd)
				if r.res != "ok" {
					h.Violate(fmt.Sprintf("request %d waited for the recovery and then failed or was dropped: %v", r.id, r.err))
				}
			}
		}
		for _, st := range i.streams {
			if !st.opened {
				if !waitUntil(wd, func() bool { return st.opened || st.openErr != nil }) || st.openErr != nil {
					h.Violate(fmt.Sprintf("a stream open issued during the outage did not complete after the recovery: %v", st.openErr))
				}
			}
		}
		i.awaitResumeRequests(h)
	case "resume":
		sid, _ := strconv.Atoi(w[1])
		if i.status() != "c" || sid < 1 || sid > len(i.streams) {
			break
		}
		st := i.streams[sid-1]
		hh := i.heldFor(st)
		if hh == nil || atomic.LoadInt32(&st.closedEv) > 0 {
			break
		}
		// the request carries the original identity
		switch r := hh.msg.(type) {
		case *message.UpstreamResumeRequest:
			if r.StreamID != st.id {
				h.Violate("an upstream resume request does not carry the stream's original id")
			}
		case *message.DownstreamResumeRequest:
			if r.StreamID != st.id || r.DesiredStreamIDAlias != st.alias {
				h.Violate(fmt.Sprintf("a downstream resume request does not carry the original stream id and alias (alias %d, was %d)", r.DesiredStreamIDAlias, st.alias))
			}
		}
		ev0, cl0 := atomic.LoadInt32(&st.resumedEv), atomic.LoadInt32(&st.closedEv)
		msg := hh.msg
		if w[2] == "conflict" {
			// the broker still holds the old attachment: it answers the first resume request with RESUME_REQUEST_CONFLICT; the
			// stream must ask again (not take the conflict for an answer), and the second request is accepted
			i.mu.Lock()
			hh.id = uuid.Nil // answered with a conflict: not counted as answered (like a refusal)
			i.mu.Unlock()
			i.b.Lock()
			i.b.ResumeCodes = []message.ResultCode{message.ResultCodeResumeRequestConflict}
			i.b.Unlock()
			hh.inc.Respond(msg)
			var again *held
			if !waitUntil(wd, func() bool { again = i.heldFor(st); return again != nil }) {
				h.Violate(fmt.Sprintf("stream %d: the broker answered its resume request with a conflict and no second resume request followed within %v (resumed notifications %d, closed %d)", sid, wd, atomic.LoadInt32(&st.resumedEv)-ev0, atomic.LoadInt32(&st.closedEv)-cl0))
				break
			}
			if atomic.LoadInt32(&st.resumedEv) > ev0 {
				h.Violate(fmt.Sprintf("stream %d was reported resumed although the broker had only answered with a conflict", sid))
			}
			hh, msg = again, again.msg
			w[2] = "ok"
		}
		if w[2] == "ok" {
			i.mu.Lock()
			hh.msg = nil
			i.mu.Unlock()
			hh.inc.Respond(msg)
			if !waitUntil(wd, func() bool { return atomic.LoadInt32(&st.resumedEv) > ev0 }) {
				h.Violate(fmt.Sprintf("stream %d: the broker accepted the resume, no resumed notification within %v", sid, wd))
			}
		} else {
			i.mu.Lock()
			hh.id = uuid.Nil // refused: not counted as answered
			i.mu.Unlock()
			i.b.Lock()
			i.b.ResumeCodes = []message.ResultCode{message.ResultCodeStreamNotFound}
			i.b.Unlock()
			hh.inc.Respond(msg)
			if !waitUntil(wd, func() bool { return atomic.LoadInt32(&st.closedEv) > cl0 }) {
				h.Violate(fmt.Sprintf("stream %d: the broker refused the resume, the stream was not reported closed within %v (left silently detached)", sid, wd))
			}
		}
		time.Sleep(2 * time.Millisecond)
	case "closestream":
		sid, _ := strconv.Atoi(w[1])
		if sid < 1 || sid > len(i.streams) || i.status() == "x" {
			break
		}
		st := i.streams[sid-1]
		if !st.opened {
			break
		}
		ctx, cancel := context.WithTimeout(context.Background(), 400*time.Millisecond)
		cl0 := atomic.LoadInt32(&st.closedEv)
		wasLive := cl0 == 0
		if wasLive {
			st.appClosed = true
		}
		t0 := time.Now()
		var err error
		buffered := ""
		if st.up != nil {
			if wasLive && i.streamState(st) == "open" {
				// a point that is still in the send buffer when the stream is closed must go out before the close request
				buffered = fmt.Sprintf("cl%d", sid)
				if werr := st.up.WriteDataPoints(ctx, &message.DataID{Name: buffered, Type: "t"}, &message.DataPoint{Payload: []byte{7}}); werr != nil {
					buffered = ""
				} else {
					st.points++
				}
			}
			err = st.up.Close(ctx)
		} else if wasLive && sid%2 == 0 {
			// two overlapping Close calls on the same stream: at most one closed notification, at most one close request
			st.overlapClosed = true
			var wg sync.WaitGroup
			wg.Add(1)
			go func() { defer wg.Done(); st.down.Close(ctx) }()
			err = st.down.Close(ctx)
			wg.Wait()
			err = nil
			time.Sleep(3 * time.Millisecond)
			n := 0
			for _, r := range i.b.LogFrom(0) {
				if m, ok := r.Msg.(*message.DownstreamCloseRequest); ok && m.StreamID == st.id {
					n++
				}
			}
			if n > 1 {
				h.Violate(fmt.Sprintf("stream %d: two overlapping Close calls sent %d close requests", sid, n))
			}
		} else {
			err = st.down.Close(ctx)
		}
		cancel()
		if buffered != "" && err == nil {
			seenChunk, order, total := false, "no-close-request", uint64(0)
			for _, r := range i.b.LogFrom(0) {
				switch m := r.Msg.(type) {
				case *message.UpstreamChunk:
					for _, d := range m.DataIDs {
						if d.Name == buffered {
							seenChunk = true
						}
					}
					for _, g := range m.StreamChunk.DataPointGroups {
						if d, ok := g.DataIDOrAlias.(*message.DataID); ok && d.Name == buffered {
							seenChunk = true
						}
					}
				case *message.UpstreamCloseRequest:
					if m.StreamID == st.id {
						total = m.TotalDataPoints
						if seenChunk {
							order = "chunk-before-close"
						} else {
							order = "close-without-chunk"
						}
					}
				}
			}
			if order != "chunk-before-close" {
				h.Violate(fmt.Sprintf("stream %d: a point written before Close did not reach the broker before the close request (%s)", sid, order))
			} else if total != st.points {
				h.Violate(fmt.Sprintf("stream %d: %d points were written, the close request reports %d", sid, st.points, total))
			}
		}
		if took := time.Since(t0); took > 1200*time.Millisecond {
			h.Violate(fmt.Sprintf("stream %d: Close(ctx=400ms) returned after %v", sid, took))
		}
		if wasLive && st.overlapClosed {
			time.Sleep(20 * time.Millisecond)
		} else if wasLive {
			if !waitUntil(wd, func() bool { return atomic.LoadInt32(&st.closedEv) > cl0 }) {
				h.Violate(fmt.Sprintf("stream %d: Close returned (%v), no closed notification within %v", sid, err, wd))
			}
		} else if time.Since(t0) > 500*time.Millisecond {
			h.Violate(fmt.Sprintf("stream %d: Close of an already closed stream took %v", sid, time.Since(t0)))
		}
		time.Sleep(2 * time.Millisecond)
	case "close":
		if i.closed {
			t0 := time.Now()
			ctx, cancel := context.WithTimeout(context.Background(), time.Second)
			i.conn.Close(ctx)
			cancel()
			if time.Since(t0) > 500*time.Millisecond {
				h.Violate(fmt.Sprintf("a repeated Close took %v", time.Since(t0)))
			}
			break
		}
		i.incAtClose = i.curInc()
		// an attempt the library started before this Close because the back-off elapsed while the harness was busy (no `backoff`
		// event yet) is not an attempt after Close: only what is dialled from here on counts on top of the acknowledged ones
		i.b.Lock()
		if early := i.b.Dials - i.ackAttempts; early > 0 {
			i.earlyAtClose = early
		}
		i.b.Unlock()
		if t := int(atomic.LoadInt32(&i.tokens)) - i.ackAttempts; t > 0 {
			i.earlyTokAtClose = t
		}
		// calls that are blocked when the connection is closed must come back with the documented errors
		type blocked struct {
			what string
			done chan error
		}
		var bl []blocked
		for _, st := range i.streams {
			if st.opened && st.down != nil && i.closedEvOf(st) == 0 {
				b := blocked{fmt.Sprintf("ReadDataPoints on stream %d blocked at Close", st.sid), make(chan error, 1)}
				bl = append(bl, b)
				go func(d *iscp.Downstream) {
					c, cancel := context.WithTimeout(context.Background(), 5*time.Second)
					defer cancel()
					_, err := d.ReadDataPoints(c)
					b.done <- err
				}(st.down)
			}
		}
		if i.status() == "c" {
			b := blocked{"ReceiveCall blocked at Close", make(chan error, 1)}
			bl = append(bl, b)
			go func() {
				c, cancel := context.WithTimeout(context.Background(), 5*time.Second)
				defer cancel()
				_, err := i.conn.ReceiveCall(c)
				b.done <- err
			}()
			for k := 0; k < 4; k++ {
				b := blocked{"ReceiveReplyCall blocked at Close", make(chan error, 1)}
				bl = append(bl, b)
				go func() {
					c, cancel := context.WithTimeout(context.Background(), 5*time.Second)
					defer cancel()
					_, err := i.conn.ReceiveReplyCall(c)
					b.done <- err
				}()
			}
		}
		if i.status() == "c" {
			// a call that has been sent and waits for its ack (the broker withholds it)
			b := blocked{"SendCall waiting for its ack at Close", make(chan error, 1)}
			bl = append(bl, b)
			i.mu.Lock()
			i.holdMeta = "blk"
			i.mu.Unlock()
			go func() {
				c, cancel := context.WithTimeout(context.Background(), 5*time.Second)
				defer cancel()
				_, err := i.conn.SendCall(c, &iscp.UpstreamCall{DestinationNodeID: "dst", Name: "blk", Type: "t"})
				b.done <- err
			}()
			// a stream Close that waits for a withheld chunk ack, overlapping the connection's Close
			for _, st := range i.streams {
				if st.opened && st.up != nil && i.streamState(st) == "open" {
					i.b.Lock()
					i.b.HoldAcks = true
					i.b.Unlock()
					c, cancel := context.WithTimeout(context.Background(), time.Second)
					err := st.up.WriteDataPoints(c, &message.DataID{Name: "last", Type: "t"}, &message.DataPoint{Payload: []byte{9}})
					if err == nil {
						err = st.up.Flush(c)
					}
					cancel()
					if err == nil {
						b := blocked{fmt.Sprintf("Upstream.Close of stream %d (waiting for a withheld ack) overlapping the connection's Close", st.sid), make(chan error, 1)}
						bl = append(bl, b)
						up := st.up
						go func() {
							c, cancel := context.WithTimeout(context.Background(), 5*time.Second)
							defer cancel()
							up.Close(c)
							b.done <- ierrors.ErrStreamClosed // any return value is fine: what counts is that it returns
						}()
					}
					break
				}
			}
		}
		for _, st := range i.streams {
			st.evAtClose = i.closedEvOf(st)
		}
		time.Sleep(5 * time.Millisecond)
		defer func() {
			i.b.Lock()
			i.b.HoldAcks = false
			i.b.Unlock()
			i.mu.Lock()
			i.holdMeta = ""
			i.mu.Unlock()
			for _, b := range bl {
				select {
				case err := <-b.done:
					i.afterCloseErr(h, b.what, err, 0)
				case <-time.After(time.Second):
					h.Violate(b.what + " did not return within 1 s after Close returned")
				}
			}
		}()
		statusAtClose, discAtClose := i.status(), atomic.LoadInt32(&i.disc)
		ctx, cancel := context.WithTimeout(context.Background(), time.Second)
		t0 := time.Now()
		var err error
		if len(w) > 1 && w[1] == "twice" { // two concurrent Close calls, over a link that is slow for a moment: exactly one Disconnect
			gate := make(chan struct{})
			i.b.Lock()
			i.b.HoldWrites = gate
			i.b.Unlock()
			var wg sync.WaitGroup
			wg.Add(1)
			go func() { defer wg.Done(); i.conn.Close(ctx) }()
			go func() {
				time.Sleep(30 * time.Millisecond)
				i.b.Lock()
				i.b.HoldWrites = nil
				i.b.Unlock()
				close(gate)
			}()
			err = i.conn.Close(ctx)
			wg.Wait()
		} else {
			err = i.conn.Close(ctx)
		}
		cancel()
		if took := time.Since(t0); took > 1500*time.Millisecond {
			h.Violate(fmt.Sprintf("Close(ctx=1s) returned after %v (status before: a redial may be in progress)", took))
		}
		i.closed = true
		i.discSent = 1
		_ = err
		i.b.Lock()
		i.dialsAtClose = i.b.Dials
		i.b.Unlock()
		i.tokensAtClose = atomic.LoadInt32(&i.tokens)
		// an attempt that waits at the gate is released (the dial itself is the environment's): it fails or, sometimes, succeeds
		i.b.Lock()
		g := i.b.DialGate
		i.b.DialGate = nil
		if len(w) > 1 && w[1] == "latefail" {
			i.b.DialScript = []string{"fail"}
		}
		i.b.Unlock()
		if g != nil {
			close(g)
		}
		if !waitUntil(wd, func() bool { return i.status() == "x" }) {
			h.Violate("Close returned and the connection is not closed")
		}
		if statusAtClose == "c" {
			// the end of a live connection's run loop is reported as a disconnection; the notification is dispatched
			// asynchronously: give it a moment before the counters are read (its absence shows in the comparison)
			waitUntil(time.Second, func() bool { return atomic.LoadInt32(&i.disc) > discAtClose })
		}
		for _, r := range i.reqs {
			if r.res == "" {
				i.settle(r, wd)
				if r.res != "err" {
					h.Violate(fmt.Sprintf("request %d was waiting for the recovery when the connection was closed and did not fail (%q)", r.id, r.res))
				} else {
					i.afterCloseErr(h, "pending request", r.err, 0)
				}
			}
		}
		time.Sleep(5 * time.Millisecond)
	case "probe":
		i.probe(h)
		return "-"
	default:
		return "bad-op"
	}
	out := i.summary()
	i.mu.Lock()
	if i.aliasClash != "" && i.pendingViolation == "" {
		i.pendingViolation, i.aliasClash = i.aliasClash, ""
	}
	i.mu.Unlock()
	if i.pendingViolation != "" {
		h.Violate(i.pendingViolation)
		i.pendingViolation = ""
	}
	return out
}

func (i *impl) afterCloseErr(h *lp.H, what string, err error, took time.Duration) {
	if err == nil {
		h.Violate(what + " after Close succeeded silently")
		return
	}
	if !ierrors.Is(err, ierrors.ErrConnectionClosed) && !ierrors.Is(err, ierrors.ErrStreamClosed) {
		h.Violate(fmt.Sprintf("%s after Close failed with %q, which is neither the connection-closed nor the stream-closed error", what, err))
	} else if !ierrors.Is(err, ierrors.ErrISCP) {
		h.Violate(fmt.Sprintf("%s after Close: %q is not recognisable as a library error", what, err))
	}
	if took > 500*time.Millisecond {
		h.Violate(fmt.Sprintf("%s after Close returned only after %v", what, took))
	}
}

// probe: end-of-case oracles
func (i *impl) probe(h *lp.H) {
	if i.conn == nil {
		return
	}
	for _, r := range i.b.LogFrom(0) {
		if m, ok := r.Msg.(*message.UpstreamMetadata); ok {
			if bt, ok := m.Metadata.(*message.BaseTime); ok {
				for _, sname := range i.shorts {
					if bt.Name == sname {
						h.Violate("a request whose context had ended during the outage was sent after the recovery")
					}
				}
			}
		}
	}
	if !i.closed && i.status() == "c" {
		// every stream that is attached keeps working
		for _, st := range i.streams {
			if !st.opened || i.streamState(st) != "open" {
				continue
			}
			if st.up != nil {
				ctx, cancel := context.WithTimeout(context.Background(), time.Second)
				name := fmt.Sprintf("p%d-%d", st.sid, st.writeSeq)
				st.writeSeq++
				err := st.up.WriteDataPoints(ctx, &message.DataID{Name: name, Type: "t"}, &message.DataPoint{ElapsedTime: time.Duration(st.writeSeq), Payload: []byte{1}})
				if err == nil {
					st.points++
					err = st.up.Flush(ctx)
				}
				cancel()
				arrived := err == nil && i.b.WaitFor(func() bool {
					for k := len(i.b.Log) - 1; k >= 0; k-- {
						if c, ok := i.b.Log[k].Msg.(*message.UpstreamChunk); ok && i.b.Log[k].Inc == len(i.b.Incs)-1 {
							for _, g := range c.StreamChunk.DataPointGroups {
								if d, ok := g.DataIDOrAlias.(*message.DataID); ok && d.Name == name {
									return true
								}
							}
							for _, d := range c.DataIDs {
								if d.Name == name {
									return true
								}
							}
						}
					}
					return false
				}, time.Second)
				if !arrived {
					h.Violate(fmt.Sprintf("upstream %d is attached after the recovery but a data point written to it does not reach the broker on the current transport (%v)", st.sid, err))
				}
			} else {
				up := &message.UpstreamInfo{SessionID: "s", SourceNodeID: "n0"}
				up.StreamID[0] = byte(st.sid)
				st.writeSeq++
				i.curIncPtr().Send(&message.DownstreamChunk{StreamIDAlias: st.alias, UpstreamOrAlias: up, StreamChunk: &message.StreamChunk{SequenceNumber: uint32(st.writeSeq),
					DataPointGroups: []*message.DataPointGroup{{DataIDOrAlias: &message.DataID{Name: "x", Type: "t"}, DataPoints: []*message.DataPoint{{Payload: []byte{2}}}}}}, ExtensionFields: &message.DownstreamChunkExtensionFields{}})
				ctx, cancel := context.WithTimeout(context.Background(), time.Second)
				c, err := st.down.ReadDataPoints(ctx)
				cancel()
				if err != nil || c.SequenceNumber != uint32(st.writeSeq) {
					h.Violate(fmt.Sprintf("downstream %d is attached after the recovery but a chunk sent on the current transport does not reach the reader (%v)", st.sid, err))
				}
			}
		}
		return
	}
	if !i.closed {
		return
	}
	// ---- after Close
	// streams: calls fail promptly with the sentinel errors
	for _, st := range i.streams {
		if !st.opened {
			continue
		}
		ctx, cancel := context.WithTimeout(context.Background(), time.Second)
		t0 := time.Now()
		var err error
		if st.up != nil {
			err = st.up.WriteDataPoints(ctx, &message.DataID{Name: "late", Type: "t"}, &message.DataPoint{Payload: []byte{1}})
			if err == nil {
				err = st.up.Flush(ctx)
			}
		} else {
			_, err = st.down.ReadDataPoints(ctx)
		}
		cancel()
		i.afterCloseErr(h, fmt.Sprintf("stream %d call", st.sid), err, time.Since(t0))
	}
	// a dial that was in flight at the Close may complete: the client must drop that transport at once and use it for nothing
	incs := i.incs()
	for k := i.incAtClose; k < len(incs); k++ {
		inc := incs[k]
		if !waitUntil(time.Second, inc.Dead) {
			h.Violate("a transport whose dial completed after Close is kept open by the client")
		}
		for _, r := range i.b.LogFrom(0) {
			if r.Inc == k {
				switch r.Msg.(type) {
				case *message.ConnectRequest, *message.Ping, *message.Pong, *message.Disconnect:
				default:
					h.Violate(fmt.Sprintf("the client sent a %T on a transport established after Close", r.Msg))
				}
			}
		}
	}
	if atomic.LoadInt32(&i.reconn) > int32(i.incAtClose-1) {
		h.Violate("a reconnected notification was delivered after Close")
	}
	// silence on the wire after the Disconnect, no further dial
	i.b.Lock()
	dials0 := i.b.Dials
	i.b.Unlock()
	time.Sleep(150 * time.Millisecond)
	seenDisc := map[int]bool{}
	for _, r := range i.b.LogFrom(0) {
		switch r.Msg.(type) {
		case *message.Disconnect:
			seenDisc[r.Inc] = true
		case *message.Ping, *message.Pong:
		default:
			if seenDisc[r.Inc] {
				h.Violate(fmt.Sprintf("the client sent a %T after its Disconnect", r.Msg))
			}
		}
	}
	i.b.Lock()
	dials1 := i.b.Dials
	i.b.Unlock()
	if dials1 != dials0 {
		h.Violate("the client dialled again after Close")
	}
	// a back-off that was running at the Close must not end in a new attempt (first back-offs last 50-600 ms)
	time.Sleep(500 * time.Millisecond)
	i.b.Lock()
	dials2 := i.b.Dials
	i.b.Unlock()
	if dials2 != i.dialsAtClose || atomic.LoadInt32(&i.tokens) != i.tokensAtClose {
		h.Violate(fmt.Sprintf("after Close the client started a new connect attempt: dial attempts %d -> %d, token source calls %d -> %d", i.dialsAtClose, dials2, i.tokensAtClose, atomic.LoadInt32(&i.tokens)))
	}
	// no goroutine of the library survives once the peer side is closed too
	for _, inc := range i.incs() {
		inc.Kill()
	}
	var left string
	ok := waitUntil(2*time.Second, func() bool {
		left = libGoroutines()
		return left == ""
	})
	if !ok {
		h.Violate("goroutines started by the library are still alive 2 s after both sides were closed:\n" + left)
	}
}

// libGoroutines: stacks of goroutines that run library code (frames of github.com/aptpod/iscp-go/) other than the harness's own
func libGoroutines() string {
	buf := make([]byte, 1<<22)
	buf = buf[:runtime.Stack(buf, true)]
	var res []string
	for _, g := range strings.Split(string(buf), "\n\n") {
		if !strings.Contains(g, "github.com/aptpod/iscp-go/") {
			continue
		}
		if strings.Contains(g, "main.libGoroutines") {
			continue
		}
		// goroutines of the harness that are blocked inside a library call it made itself count too: after Close they must return
		lines := strings.Split(g, "\n")
		if len(lines) > 40 {
			lines = lines[:40]
		}
		res = append(res, strings.Join(lines, "\n"))
	}
	if len(res) > 3 {
		res = append(res[:3], fmt.Sprintf("... and %d more", len(res)-3))
	}
	return strings.Join(res, "\n--\n")
}

func main() {
	h := lp.New()
	defer h.Finish()
	im := &impl{counters: &counters{}}
	defer im.teardown()
	do := func(op string) string {
		out := im.exec(h, op)
		h.Op(op, out)
		return out
	}
	if h.Replay != "" {
		for _, l := range lp.ReadOps(h.Replay) {
			if strings.HasPrefix(l, "#") {
				h.Case(strings.TrimPrefix(l, "# case "))
				continue
			}
			do(l)
		}
		return
	}
	rng := h.Rng
	for c := 0; c < h.N && !h.TooMany(); c++ {
		h.Case(fmt.Sprintf("conn %d", c))
		if do("reset") != "ok" {
			h.Violate("cannot connect")
			continue
		}
		// model of the harness's own bookkeeping, only to generate sensible events
		status := "c"
		nstreams, nreq := 0, 0
		resuming := map[int]bool{}
		closedS := map[int]bool{}
		sig := ""
		fails := 0
		attempting := false
		nops := 6 + rng.Intn(12)
		for s := 0; s < nops && !h.TooMany(); s++ {
			r := rng.Intn(100)
			switch {
			case status == "c" && len(resuming) > 0 && rng.Intn(2) == 0:
				var ks []int
				for k := range resuming {
					ks = append(ks, k)
				}
				sort.Ints(ks)
				k := ks[rng.Intn(len(ks))]
				if rng.Intn(4) == 0 {
					do(fmt.Sprintf("resume %d refused", k))
					closedS[k] = true
					sig += "R"
				} else {
					do(fmt.Sprintf("resume %d %s", k, []string{"ok", "ok", "conflict"}[rng.Intn(3)]))
					sig += "r"
				}
				delete(resuming, k)
			case status == "c" && r < 18 && nstreams < 5:
				nstreams++
				do("open " + []string{"up", "down"}[rng.Intn(2)])
				sig += "o"
			case status == "c" && r < 30:
				nreq++
				do(fmt.Sprintf("req %d", nreq))
				sig += "q"
			case status == "c" && r < 38:
				nreq++
				do(fmt.Sprintf("reqcut %d", nreq))
				status, fails, attempting = "r", 0, true
				for k := 1; k <= nstreams; k++ {
					if resuming[k] {
						closedS[k] = true
						delete(resuming, k)
					} else if !closedS[k] {
						resuming[k] = true
					}
				}
				sig += "Q"
			case status == "c" && r >= 46 && r < 50 && nstreams < 5:
				nstreams++
				do("opencut " + []string{"up", "down"}[rng.Intn(2)])
				status, fails, attempting = "r", 0, true
				for k := 1; k < nstreams; k++ {
					if resuming[k] {
						closedS[k] = true
						delete(resuming, k)
					} else if !closedS[k] {
						resuming[k] = true
					}
				}
				sig += "C"
			case status == "c" && r >= 50 && r < 56:
				if rng.Intn(2) == 0 && nstreams < 5 {
					nstreams++
					do("opencutfast " + []string{"up", "down"}[rng.Intn(2)])
				} else {
					nreq++
					do(fmt.Sprintf("reqcutfast %d", nreq))
				}
				for k := 1; k <= nstreams; k++ {
					if resuming[k] {
						closedS[k] = true
						delete(resuming, k)
					} else if !closedS[k] && k < nstreams+1 {
						resuming[k] = true
					}
				}
				sig += "Z"
			case status == "c" && r >= 38 && r < 46:
				do("killfast")
				for k := 1; k <= nstreams; k++ {
					if resuming[k] {
						closedS[k] = true
						delete(resuming, k)
					} else if !closedS[k] {
						resuming[k] = true
					}
				}
				sig += "K"
			case status == "c" && r < 58:
				do("kill")
				status, fails, attempting = "r", 0, true
				for k := 1; k <= nstreams; k++ {
					if resuming[k] {
						closedS[k] = true
						delete(resuming, k)
					} else if !closedS[k] {
						resuming[k] = true
					}
				}
				sig += "k"
			case status != "x" && r >= 86 && r < 93 && nstreams > 0:
				k := 1 + rng.Intn(nstreams)
				do(fmt.Sprintf("closestream %d", k))
				closedS[k] = true
				delete(resuming, k)
				sig += "s"
			case status == "r" && !attempting && r < 70:
				do("backoff")
				attempting = true
				sig += "b"
			case status == "r" && attempting && r < 22 && fails < 2:
				do([]string{"dial fail", "dial cut"}[rng.Intn(2)])
				fails++
				attempting = false
				sig += "f"
			case status == "r" && attempting && r >= 22 && r < 27:
				do("failclose")
				status = "x"
				sig += "F"
			case status == "r" && attempting && r < 70:
				do("dial ok")
				status = "c"
				sig += "d"
			case status == "r" && r < 78:
				nreq++
				do(fmt.Sprintf("req %d", nreq))
				sig += "p"
			case status == "r" && r < 82 && attempting:
				nreq++
				do(fmt.Sprintf("reqshort %d", nreq))
				sig += "S"
			case status == "r" && r < 88 && nstreams < 5:
				nstreams++
				do("open " + []string{"up", "down"}[rng.Intn(2)])
				sig += "O"
			case r >= 95 && status != "x":
				do([]string{"close", "close latefail", "close twice"}[rng.Intn(3)])
				status = "x"
				sig += "X"
			case status == "x":
				switch rng.Intn(5) {
				case 0:
					nreq++
					do(fmt.Sprintf("req %d", nreq))
				case 1:
					do("close")
				case 2:
					do("kill")
				case 3:
					do("dial ok")
				default:
					do("open up")
				}
				sig += "x"
			}
		}
		// bring the case to a quiet end: recover, answer the resumes, probe; or close and probe
		if status == "r" && rng.Intn(3) > 0 {
			if !attempting {
				do("backoff")
				attempting = true
			}
			do("dial ok")
			status = "c"
		}
		if status == "c" {
			var ks []int
			for k := range resuming {
				ks = append(ks, k)
			}
			sort.Ints(ks)
			for _, k := range ks {
				do(fmt.Sprintf("resume %d ok", k))
			}
			do("probe")
		}
		if status != "x" && rng.Intn(2) == 0 {
			do([]string{"close", "close latefail"}[rng.Intn(2)])
			status = "x"
		}
		if status == "x" {
			do("probe")
		}
		if h.Distinct(sig) && len(sig) > 6 {
			h.Sample()
		}
	}
}
