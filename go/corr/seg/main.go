// Correspondence harness for C14: runs internal/segment (via the verif re-export) on generated
// op sequences, writes ops.txt / impl.out for the Lean driver, and evaluates the property's own
// oracle (exact reassembly or nothing) on the implementation.
package main

import (
	"fmt"
	"sort"
	"strconv"
	"strings"
	"time"

	"github.com/aptpod/iscp-go/verifhook"
	"verif.local/harness/lp"
)

type collector struct{ dgs [][]byte }

func (c *collector) SendDatagram(b []byte) error {
	c.dgs = append(c.dgs, append([]byte(nil), b...))
	return nil
}

type impl struct {
	rb  *verifhook.SegmentReadBuffers
	now int64 // ms
}

func newImpl() *impl {
	i := &impl{}
	i.reset()
	verifhook.SegmentSetTimeNow(func() time.Time { return time.UnixMilli(i.now) })
	return i
}

func (i *impl) reset() {
	i.rb = &verifhook.SegmentReadBuffers{ReadBuffer: map[uint32]*verifhook.SegmentReadBuffer{}, ReadBufferExpiry: 10000 * time.Millisecond}
	verifhook.SegmentSetMaxPayloadSize(1188)
}

func (i *impl) exec(op string) (out string) {
	defer func() {
		if r := recover(); r != nil {
			out = "crash"
		}
	}()
	w := strings.Fields(op)
	switch w[0] {
	case "reset":
		i.reset()
		return "ok"
	case "P":
		n, _ := strconv.Atoi(w[1])
		verifhook.SegmentSetMaxPayloadSize(n)
		return "ok"
	case "expiry":
		n, _ := strconv.Atoi(w[1])
		i.rb.ReadBufferExpiry = time.Duration(n) * time.Millisecond
		return "ok"
	case "send":
		seq, _ := strconv.ParseUint(w[1], 10, 32)
		c := &collector{}
		n, err := verifhook.SegmentSendTo(c, uint32(seq), lp.UnHex(w[2]))
		if err != nil {
			return "err too-large"
		}
		hs := make([]string, len(c.dgs))
		for k, d := range c.dgs {
			hs[k] = lp.Hex(d)
		}
		return fmt.Sprintf("dgs %d %s", n, strings.Join(hs, ","))
	case "recv":
		now, _ := strconv.ParseInt(w[1], 10, 64)
		i.now = now
		m, ok, err := i.rb.Receive(lp.UnHex(w[2]))
		if err != nil {
			return "err"
		}
		if !ok {
			return "none"
		}
		return "msg " + lp.Hex(m)
	case "slot":
		seq, _ := strconv.ParseUint(w[1], 10, 32)
		b, ok := i.rb.ReadBuffer[uint32(seq)]
		if !ok {
			return "noslot"
		}
		return fmt.Sprintf("slot %d %d", len(b.Msgs), b.SegCount)
	case "expire":
		now, _ := strconv.ParseInt(w[1], 10, 64)
		i.now = now
		i.rb.RemoveExpired()
		keys := []int{}
		for k := range i.rb.ReadBuffer {
			keys = append(keys, int(k))
		}
		sort.Ints(keys)
		ss := make([]string, len(keys))
		for k, v := range keys {
			ss[k] = strconv.Itoa(v)
		}
		return "live " + strings.Join(ss, ",")
	}
	return "bad-op"
}

func parseDgs(out string) [][]byte {
	w := strings.Fields(out)
	if len(w) < 3 || w[0] != "dgs" {
		return nil
	}
	var res [][]byte
	for _, h := range strings.Split(w[2], ",") {
		res = append(res, lp.UnHex(h))
	}
	return res
}

func permutations(n int, f func([]int)) {
	p := make([]int, n)
	for i := range p {
		p[i] = i
	}
	var rec func(k int)
	rec = func(k int) {
		if k == n {
			f(p)
			return
		}
		for i := k; i < n; i++ {
			p[k], p[i] = p[i], p[k]
			rec(k + 1)
			p[k], p[i] = p[i], p[k]
		}
	}
	rec(0)
}

func main() {
	h := lp.New()
	defer h.Finish()
	im := newImpl()
	do := func(op string) string {
		out := im.exec(op)
		h.Op(op, out)
		if out == "crash" {
			h.Violate("process-level panic in segment code on: " + op)
		}
		return out
	}
	if h.Replay != "" {
		for _, l := range lp.ReadOps(h.Replay) {
			if strings.HasPrefix(l, "#") {
				h.Case(strings.TrimPrefix(l, "# case "))
				continue
			}
			do(l)
		}
		return
	}
	rng := h.Rng
	randBytes := func(n int) []byte {
		b := make([]byte, n)
		if rng.Intn(3) == 0 {
			for i := range b {
				b[i] = byte(i % 7)
			}
		} else {
			rng.Read(b)
		}
		return b
	}

	// 1. exhaustive: every permutation x loss subset for up to maxSeg segments, P = 3
	maxSeg := 5
	if h.Tier == "thorough" {
		maxSeg = 6
	}
	const P = 3
	for nseg := 1; nseg <= maxSeg; nseg++ {
		// message lengths giving exactly nseg segments: nseg=1: 0..P ; else (nseg-1)*P .. nseg*P-1
		var lens []int
		if nseg == 1 {
			lens = []int{0, 1, P}
		} else {
			lens = []int{(nseg - 1) * P, (nseg-1)*P + 1, nseg*P - 1}
		}
		for _, ln := range lens {
			if nseg == 1 && ln > P {
				continue
			}
			if nseg > 1 && ln <= P {
				continue
			}
			msg := randBytes(ln)
			permutations(nseg, func(p []int) {
				for mask := 0; mask < 1<<nseg; mask++ {
					if nseg >= 5 && h.Tier != "thorough" && rng.Intn(8) != 0 && mask != (1<<nseg)-1 {
						continue
					}
					h.Case(fmt.Sprintf("exh nseg=%d len=%d perm=%v mask=%b", nseg, ln, p, mask))
					do("reset")
					do(fmt.Sprintf("P %d", P))
					out := do(fmt.Sprintf("send 9 %s", lp.Hex(msg)))
					dgs := parseDgs(out)
					if len(dgs) != nseg {
						h.Violate(fmt.Sprintf("sender produced %d datagrams, want %d", len(dgs), nseg))
						continue
					}
					delivered := 0
					got := 0
					for k, idx := range p {
						if mask&(1<<idx) == 0 {
							continue
						}
						delivered++
						o := do(fmt.Sprintf("recv %d %s", k, lp.Hex(dgs[idx])))
						if strings.HasPrefix(o, "msg") {
							got++
							if o != "msg "+lp.Hex(msg) {
								h.Violate("reassembled bytes differ from the message sent")
							}
							if delivered != nseg {
								h.Violate("message handed up before all segments arrived")
							}
						}
					}
					if mask == (1<<nseg)-1 && got != 1 {
						h.Violate(fmt.Sprintf("all %d segments delivered but %d messages handed up", nseg, got))
					}
					if mask != (1<<nseg)-1 && got != 0 {
						h.Violate("message handed up although a segment is missing")
					}
					if h.Distinct(fmt.Sprintf("exh/%d/%d/%v/%d", nseg, ln, p, mask)) && nseg >= 3 && mask == (1<<nseg)-1 {
						h.Sample()
					}
				}
			})
		}
	}

	// 2. random interleavings of several in-flight messages, with loss, malformed datagrams, expiry
	for c := 0; c < h.N; c++ {
		p := []int{1, 2, 3, 5, 8, 64, 1188}[rng.Intn(7)]
		nm := 1 + rng.Intn(4)
		h.Case(fmt.Sprintf("rnd %d P=%d msgs=%d", c, p, nm))
		do("reset")
		do(fmt.Sprintf("P %d", p))
		exp := 50 + rng.Intn(100)
		do(fmt.Sprintf("expiry %d", exp))
		type fl struct {
			seq   uint32
			msg   []byte
			dgs   [][]byte
			seen  map[int]bool
			dirty bool // slot may have been expired or polluted: oracle only checks soundness
		}
		var fls []*fl
		type ev struct {
			f   *fl
			idx int
			raw []byte
		}
		var evs []ev
		seqBase := uint32(rng.Intn(3))
		if rng.Intn(4) == 0 {
			seqBase = 4294967294 // wrap-around region
		}
		for m := 0; m < nm; m++ {
			var ln int
			switch rng.Intn(5) {
			case 0:
				ln = p * rng.Intn(6) // exact multiples incl. 0
			case 1:
				ln = p*rng.Intn(6) + 1
			default:
				ln = rng.Intn(6*p + 2)
			}
			if ln > 4000 {
				ln = 4000
			}
			f := &fl{seq: seqBase + uint32(m), msg: randBytes(ln), seen: map[int]bool{}}
			out := do(fmt.Sprintf("send %d %s", f.seq, lp.Hex(f.msg)))
			f.dgs = parseDgs(out)
			fls = append(fls, f)
			for i := range f.dgs {
				if rng.Intn(6) == 0 {
					h.Count("gen:lost-segment")
					continue
				}
				evs = append(evs, ev{f: f, idx: i})
			}
		}
		// malformed datagrams
		var conflicting []int
		for k := rng.Intn(3); k > 0; k-- {
			var raw []byte
			switch rng.Intn(5) {
			case 0:
				raw = randBytes(rng.Intn(8)) // shorter than the header
				h.Count("gen:short-datagram")
			case 1: // index beyond announced count, fresh seq
				raw = []byte{0, 0, 1, byte(rng.Intn(256)), 0, 2, 0, byte(3 + rng.Intn(250)), 1, 2}
				h.Count("gen:index-beyond-count")
			case 2: // index beyond count for an in-flight seq
				f := fls[rng.Intn(len(fls))]
				raw = []byte{byte(f.seq >> 24), byte(f.seq >> 16), byte(f.seq >> 8), byte(f.seq), 0, 0, 255, 255}
				h.Count("gen:index-beyond-count-inflight")
			case 3: // header for an in-flight seq that announces a larger count and an index beyond the real one
				f := fls[rng.Intn(len(fls))]
				real := len(f.dgs)
				idx := real + rng.Intn(5)
				max := idx + rng.Intn(4)
				raw = []byte{byte(f.seq >> 24), byte(f.seq >> 16), byte(f.seq >> 8), byte(f.seq), byte(max >> 8), byte(max), byte(idx >> 8), byte(idx), 9, 9}
				conflicting = append(conflicting, len(evs))
				h.Count("gen:conflicting-count-inflight")
			default:
				raw = randBytes(8 + rng.Intn(6))
				raw[0], raw[1] = 7, 7 // keep away from in-flight seqs
				h.Count("gen:random-datagram")
			}
			evs = append(evs, ev{raw: raw})
		}
		rng.Shuffle(len(evs), func(a, b int) { evs[a], evs[b] = evs[b], evs[a] })
		now := 0
		outputs := map[*fl]int{}
		for _, e := range evs {
			now += rng.Intn(20)
			if rng.Intn(12) == 0 {
				now += exp + 1 + rng.Intn(50)
				do(fmt.Sprintf("expire %d", now))
				for _, f := range fls {
					f.dirty = true
				}
				h.Count("gen:expire-mid")
			}
			if e.raw != nil {
				if len(e.raw) >= 8 && e.raw[0] != 7 {
					// a well-formed-looking header for an in-flight seq that arrives before any genuine segment
					// fixes a wrong slot count: outside the property's hypothesis for that message
					sq := uint32(e.raw[0])<<24 | uint32(e.raw[1])<<16 | uint32(e.raw[2])<<8 | uint32(e.raw[3])
					idx := int(e.raw[6])<<8 | int(e.raw[7])
					max := int(e.raw[4])<<8 | int(e.raw[5])
					for _, f := range fls {
						if f.seq == sq && len(f.seen) == 0 && idx <= max {
							f.dirty = true
						}
					}
				}
				o := do(fmt.Sprintf("recv %d %s", now, lp.Hex(e.raw)))
				if len(e.raw) < 8 && o != "none" {
					h.Violate("short datagram not discarded: " + o)
				}
				continue
			}
			o := do(fmt.Sprintf("recv %d %s", now, lp.Hex(e.f.dgs[e.idx])))
			e.f.seen[e.idx] = true
			if strings.HasPrefix(o, "msg") && !e.f.dirty {
				outputs[e.f]++
				if o != "msg "+lp.Hex(e.f.msg) {
					h.Violate("reassembled bytes differ from the message sent")
				}
				if len(e.f.seen) != len(e.f.dgs) {
					h.Violate("message handed up before all segments arrived")
				}
			}
		}
		complete := 0
		for _, f := range fls {
			if f.dirty {
				continue
			}
			if len(f.seen) == len(f.dgs) && len(f.dgs) > 0 {
				complete++
				if outputs[f] != 1 {
					h.Violate(fmt.Sprintf("all segments of seq %d delivered but %d messages handed up", f.seq, outputs[f]))
				}
			} else if outputs[f] != 0 {
				h.Violate("message handed up although a segment is missing")
			}
		}
		// incomplete entries are forgotten after the expiry time
		now += exp + 1
		if o := do(fmt.Sprintf("expire %d", now)); o != "live " {
			h.Violate("incomplete entries survive the expiry time: " + o)
		}
		if h.Distinct(fmt.Sprintf("rnd/%d/%d/%d/%d", p, nm, len(evs), complete)) {
			h.Sample()
		}
	}

	// 3. the segment-count limit with P = 1: last accepted sizes, first refused size.
	// The model sees the refusal decision and the slot allocation for the largest announced index;
	// the full delivery of 65535/65536 segments is run on the implementation only (oracle).
	for _, ln := range []int{65534, 65535, 65536} {
		h.Case(fmt.Sprintf("limit len=%d P=1", ln))
		do("reset")
		do("P 1")
		msg := randBytes(ln)
		if ln > 65535 {
			if out := do(fmt.Sprintf("send 3 %s", lp.Hex(msg))); out != "err too-large" {
				h.Violate("oversized message not refused")
			}
			continue
		}
		out := im.exec(fmt.Sprintf("send 3 %s", lp.Hex(msg))) // implementation only
		dgs := parseDgs(out)
		if len(dgs) != ln+1 {
			h.Violate(fmt.Sprintf("sender produced %d datagrams for %d bytes at payload size 1", len(dgs), ln))
			continue
		}
		do(fmt.Sprintf("recv 0 %s", lp.Hex(dgs[0])))
		do("slot 3")
		do(fmt.Sprintf("recv 0 %s", lp.Hex(dgs[len(dgs)-1])))
		do("slot 3")
		got := 0
		for k, d := range dgs {
			if k == 0 || k == len(dgs)-1 {
				continue
			}
			o := im.exec(fmt.Sprintf("recv %d %s", k, lp.Hex(d))) // implementation only
			if strings.HasPrefix(o, "msg") {
				got++
				if o != "msg "+lp.Hex(msg) {
					h.Violate("reassembled bytes differ from the message sent")
				}
			}
		}
		if got != 1 {
			h.Violate(fmt.Sprintf("all %d segments delivered (message of %d bytes, payload size 1, last index %d) but %d messages handed up", len(dgs), ln, len(dgs)-1, got))
		}
		h.Distinct(fmt.Sprintf("limit/%d", ln))
	}
}
