// Correspondence harness for C17: negotiation parameter codecs (key/value map, URL values, QUIC binary form),
// Validate and CompressConfig, against the Lean model (topic `neg`), plus the property's own oracle
// (round trip, rejection, configuration is a function of the parameters) on the implementation.
package main

import (
	"bytes"
	"encoding/binary"
	"fmt"
	"net/url"
	"sort"
	"strconv"
	"strings"

	"github.com/aptpod/iscp-go/transport"
	"github.com/aptpod/iscp-go/transport/compress"
	tquic "github.com/aptpod/iscp-go/transport/quic"
	tws "github.com/aptpod/iscp-go/transport/websocket"
	twt "github.com/aptpod/iscp-go/transport/webtransport"
	"verif.local/harness/lp"
)

func optInt(p *int) string {
	if p == nil {
		return "nil"
	}
	return strconv.Itoa(*p)
}

func b01(b bool) string {
	if b {
		return "1"
	}
	return "0"
}

func showParams(p transport.NegotiationParams) string {
	return strings.Join([]string{lp.Hex([]byte(p.Encoding)), lp.Hex([]byte(p.Compress)), optInt(p.CompressLevel), optInt(p.CompressWindowBits),
		lp.Hex([]byte(p.TransportID)), b01(p.Reconnect), lp.Hex([]byte(p.TransportGroupID)),
		strconv.Itoa(p.TransportGroupTotalCount), strconv.Itoa(p.TransportGroupIndex)}, " ")
}

func parseOptInt(s string) *int {
	if s == "nil" {
		return nil
	}
	n, err := strconv.Atoi(s)
	if err != nil {
		panic(err)
	}
	return &n
}

func atoi(s string) int {
	n, err := strconv.Atoi(s)
	if err != nil {
		panic(err)
	}
	return n
}

func parseParams(w []string) transport.NegotiationParams {
	return transport.NegotiationParams{
		Encoding: transport.EncodingName(lp.UnHex(w[0])), Compress: compress.Type(lp.UnHex(w[1])),
		CompressLevel: parseOptInt(w[2]), CompressWindowBits: parseOptInt(w[3]),
		TransportID: transport.TransportID(lp.UnHex(w[4])), Reconnect: w[5] == "1",
		TransportGroupID: transport.TransportGroupID(lp.UnHex(w[6])), TransportGroupTotalCount: atoi(w[7]), TransportGroupIndex: atoi(w[8]),
	}
}

func showKVs(m map[string]string) string {
	if len(m) == 0 {
		return "_"
	}
	keys := make([]string, 0, len(m))
	for k := range m {
		keys = append(keys, k)
	}
	sort.Strings(keys)
	parts := make([]string, len(keys))
	for i, k := range keys {
		parts[i] = lp.Hex([]byte(k)) + "=" + lp.Hex([]byte(m[k]))
	}
	return strings.Join(parts, ",")
}

// canonBin splits a binary encoding into its records (independent reader of the documented framing:
// u16 key length, key, u16 value length, value), sorts the records by key and concatenates them again.
func canonBin(b []byte) (string, bool) {
	type rec struct{ k, all []byte }
	var recs []rec
	for len(b) > 0 {
		if len(b) < 2 {
			return "", false
		}
		kl := int(binary.BigEndian.Uint16(b))
		if len(b) < 2+kl+2 {
			return "", false
		}
		vl := int(binary.BigEndian.Uint16(b[2+kl:]))
		if len(b) < 2+kl+2+vl {
			return "", false
		}
		recs = append(recs, rec{k: b[2 : 2+kl], all: b[:2+kl+2+vl]})
		b = b[2+kl+2+vl:]
	}
	sort.Slice(recs, func(i, j int) bool { return bytes.Compare(recs[i].k, recs[j].k) < 0 })
	var out []byte
	for _, r := range recs {
		out = append(out, r.all...)
	}
	return lp.Hex(out), true
}

func exec(op string) (out string) {
	defer func() {
		if r := recover(); r != nil {
			out = fmt.Sprintf("crash %v", r)
		}
	}()
	w := strings.Fields(op)
	switch w[0] {
	case "kv":
		m := map[string]string{}
		if w[1] != "_" {
			for _, kv := range strings.Split(w[1], ",") {
				p := strings.SplitN(kv, "=", 2)
				m[string(lp.UnHex(p[0]))] = string(lp.UnHex(p[1]))
			}
		}
		var p transport.NegotiationParams
		if err := p.UnmarshalKeyValues(m); err != nil {
			return "err"
		}
		return "ok " + showParams(p)
	case "url":
		vals := url.Values{}
		if w[1] != "_" {
			for _, kv := range strings.Split(w[1], ",") {
				p := strings.SplitN(kv, "=", 2)
				vs := []string{}
				if p[1] != "" {
					for _, v := range strings.Split(p[1], "|") {
						vs = append(vs, string(lp.UnHex(v)))
					}
				}
				vals[string(lp.UnHex(p[0]))] = vs
			}
		}
		var p tws.NegotiationParams
		err := p.UnmarshalURLValues(vals)
		var p2 twt.NegotiationParams
		err2 := p2.UnmarshalURLValues(vals)
		r1, r2 := "err", "err"
		if err == nil {
			r1 = "ok " + showParams(p.NegotiationParams)
		}
		if err2 == nil {
			r2 = "ok " + showParams(p2.NegotiationParams)
		}
		if r1 != r2 {
			return "websocket and webtransport disagree: " + r1 + " / " + r2
		}
		return r1
	case "bin":
		var p tquic.NegotiationParams
		if err := p.Unmarshal(lp.UnHex(w[1])); err != nil {
			return "err"
		}
		return "ok " + showParams(p.NegotiationParams)
	case "marshal":
		p := parseParams(w[1:])
		m, err := p.MarshalKeyValues()
		if err != nil {
			return "err"
		}
		return "kv " + showKVs(m)
	case "marshalbin":
		p := tquic.NegotiationParams{NegotiationParams: parseParams(w[1:])}
		b, err := p.Marshal()
		if err != nil {
			return "err"
		}
		c, ok := canonBin(b)
		if !ok {
			return "bin <unparsable> " + lp.Hex(b)
		}
		return "bin " + c
	case "validate":
		p := parseParams(w[1:])
		if err := p.Validate(); err != nil {
			return "err"
		}
		return "ok " + showParams(p)
	case "cfg":
		p := parseParams(w[1:10])
		base := compress.Config{Enable: w[10] == "1", Level: atoi(w[11]), DisableContextTakeover: w[12] == "1", WindowBits: atoi(w[13])}
		c := p.CompressConfig(base)
		return fmt.Sprintf("cfg %s %d %s %d", b01(c.Enable), c.Level, b01(c.DisableContextTakeover), c.WindowBits)
	case "dial":
		dc := transport.DialConfig{
			CompressConfig: compress.Config{Enable: w[1] == "1", Level: atoi(w[2]), DisableContextTakeover: w[3] == "1", WindowBits: atoi(w[4])},
			EncodingName:   transport.EncodingName(lp.UnHex(w[5])), TransportID: transport.TransportID(lp.UnHex(w[6])), Reconnect: w[7] == "1",
			TransportGroupID: transport.TransportGroupID(lp.UnHex(w[8])), TransportGroupTotalCount: atoi(w[9]), TransportGroupIndex: atoi(w[10]),
		}
		return "ok " + showParams(dc.NegotiationParams())
	}
	return "bad-op"
}

func effective(cfgOut string) string {
	w := strings.Fields(cfgOut)
	if len(w) == 5 && w[1] == "0" {
		return "disabled"
	}
	return cfgOut
}

func main() {
	h := lp.New()
	defer h.Finish()
	do := func(op string) string {
		out := exec(op)
		h.Op(op, out)
		if strings.HasPrefix(out, "crash") {
			h.Violate("panic in negotiation code on: " + op)
		}
		return out
	}
	if h.Replay != "" {
		for _, l := range lp.ReadOps(h.Replay) {
			if strings.HasPrefix(l, "#") {
				h.Case(strings.TrimPrefix(l, "# case "))
				continue
			}
			do(l)
		}
		return
	}
	rng := h.Rng
	ip := func(n int) *int { return &n }

	// ---- 1. grid: every combination, every carrier
	encs := []string{"", "json", "proto", "xml"}
	comps := []string{"", "per-message", "context-takeover", "gzip"}
	levels := []*int{nil, ip(-1), ip(0), ip(1), ip(2), ip(3), ip(4), ip(5), ip(6), ip(7), ip(8), ip(9), ip(10)}
	wins := []*int{nil, ip(-1), ip(0), ip(1), ip(8), ip(15), ip(32), ip(33)}
	type grp struct {
		tid, tgid string
		cnt, idx  int
	}
	grps := []grp{{"", "", 0, 0}, {"t-1", "", 0, 0}, {"5d0a4a7e-1c3b-4e62-9a53-7c6ad0f1f2aa", "gé世", 3, 2}, {"x&y=z <\"q\">", "grp", 1, 0}}
	bases := []string{"0 0 0 0", "1 4 1 11"}
	for _, e := range encs {
		for _, c := range comps {
			for _, l := range levels {
				for _, w := range wins {
					for _, rc := range []bool{false, true} {
						g := grps[rng.Intn(len(grps))]
						if h.Tier != "thorough" && rng.Intn(3) != 0 {
							continue
						}
						p := transport.NegotiationParams{Encoding: transport.EncodingName(e), Compress: compress.Type(c), CompressLevel: l, CompressWindowBits: w,
							TransportID: transport.TransportID(g.tid), Reconnect: rc, TransportGroupID: transport.TransportGroupID(g.tgid),
							TransportGroupTotalCount: g.cnt, TransportGroupIndex: g.idx}
						ps := showParams(p)
						h.Case("grid " + ps)
						kv := do("marshal " + ps)
						valid := do("validate " + ps)
						isValidEnc := e == "" || e == "json" || e == "proto"
						lvlOK := l == nil || (*l >= 0 && *l <= 9)
						winOK := w == nil || (*w >= 0 && *w <= 32)
						// the property's own notion of a valid set, independent of the code and of the model
						wantValid := isValidEnc && (c == "" || c == "per-message" || c == "context-takeover") && lvlOK && winOK
						if wantValid != strings.HasPrefix(valid, "ok") {
							h.Violate(fmt.Sprintf("Validate accepts=%v but the parameter set is valid=%v: %s", strings.HasPrefix(valid, "ok"), wantValid, ps))
						}
						// round trips on each carrier
						if strings.HasPrefix(kv, "kv ") {
							if r := do("kv " + kv[3:]); r != "ok "+ps {
								h.Violate("key/value round trip changed the parameters: " + ps + " -> " + r)
							}
							urlArg := kv[3:]
							if r := do("url " + urlArg); r != "ok "+ps {
								h.Violate("URL values round trip changed the parameters: " + ps + " -> " + r)
							}
						}
						mb := do("marshalbin " + ps)
						if strings.HasPrefix(mb, "bin ") {
							if r := do("bin " + mb[4:]); r != "ok "+ps {
								h.Violate("binary round trip changed the parameters: " + ps + " -> " + r)
							}
						}
						// compression config is a function of the parameters when type, level and window are named
						c0 := do("cfg " + ps + " " + bases[0])
						c1 := do("cfg " + ps + " " + bases[1])
						if c != "" && c != "gzip" && l != nil && w != nil && effective(c0) != effective(c1) {
							h.Violate("CompressConfig depends on the local base although type, level and window are named: " + ps + ": " + c0 + " vs " + c1)
						}
						if h.Distinct("grid/" + ps) {
							if c == "context-takeover" && l != nil && *l == 6 && w != nil {
								h.Sample()
							}
						}
					}
				}
			}
		}
	}
	// dialer output always names type, level, window; both ends derive the same effective config
	for _, en := range []bool{false, true} {
		for lvl := 0; lvl <= 9; lvl++ {
			for _, dis := range []bool{false, true} {
				for _, wb := range []int{0, 1, 8, 15, 32} {
					h.Case(fmt.Sprintf("dial %v %d %v %d", en, lvl, dis, wb))
					out := do(fmt.Sprintf("dial %s %d %s %d %s %s %s %s %d %d", b01(en), lvl, b01(dis), wb, lp.Hex([]byte("proto")), lp.Hex([]byte("tid")), b01(lvl%2 == 0), "-", lvl%3, 0))
					if !strings.HasPrefix(out, "ok ") {
						h.Violate("DialConfig.NegotiationParams failed")
						continue
					}
					ps := out[3:]
					w := strings.Fields(ps)
					if w[1] == "-" || w[2] == "nil" || w[3] == "nil" {
						h.Violate("dialer parameters do not name compression type, level and window: " + ps)
					}
					a := do("cfg " + ps + " " + bases[0])
					b := do("cfg " + ps + " " + bases[1])
					if effective(a) != effective(b) {
						h.Violate("the two ends derive different compression settings from dialer parameters " + ps + ": " + a + " vs " + b)
					}
					h.Distinct("dial/" + ps)
				}
			}
		}
	}

	// ---- 2. arbitrary key/value maps
	keyPool := []string{"enc", "comp", "clevel", "cwinbits", "tid", "reconnect", "tgid", "tgcount", "tgidx",
		"ENC", "Comp", "cLevel", "CWINBITS", "cwinbitſ", "Tid", "Reconnect", "RECONNECT", "TGID", "tgCount", "TgIdx",
		"unknown", "x", "enc ", " tid", "t\xffid", "K", "clevelx", "reconnect2"}
	valPool := []string{"", "json", "proto", "per-message", "context-takeover", "true", "false", "True", "1", "0", "6", "9", "10", "-1", "-0", "007", "+1", "1.0", "1e2", " 1", "1 ",
		"null", "nul", "nullx", "9223372036854775807", "9223372036854775808", "-9223372036854775808", "-9223372036854775809", "\"1\"", "t", "f", "-", "--1", "0x10",
		"\xff", "a\xc0\xafb", "\xed\xa0\x80", "\xf4\x90\x80\x80", "\xe4\xb8", "café", "世界", "\U0001F600", "a,b=c|d", "<&>", " "}
	for c := 0; c < h.N*4; c++ {
		n := rng.Intn(5)
		m := map[string]string{}
		for i := 0; i < n; i++ {
			k := keyPool[rng.Intn(len(keyPool))]
			if rng.Intn(3) != 0 {
				k = keyPool[rng.Intn(9)]
			}
			m[k] = valPool[rng.Intn(len(valPool))]
		}
		h.Case(fmt.Sprintf("kvmap %d", c))
		arg := showKVs(m)
		r := do("kv " + arg)
		do("url " + arg)
		// invalid sets must be rejected rather than misread: a known numeric key with a non-numeric value must not yield ok
		if strings.HasPrefix(r, "ok") {
			for k, v := range m {
				switch k {
				case "clevel", "cwinbits", "tgcount", "tgidx":
					if _, err := strconv.ParseInt(v, 10, 64); err != nil && v != "null" {
						h.Violate(fmt.Sprintf("numeric parameter %s=%q accepted", k, v))
					}
				case "reconnect":
					if v != "true" && v != "false" {
						h.Violate(fmt.Sprintf("boolean parameter reconnect=%q accepted (only the spellings true and false are valid)", v))
					}
				}
			}
		}
		if h.Distinct("kv/"+arg) && strings.HasPrefix(r, "ok") && n >= 3 {
			h.Sample()
		}
		h.Count("kvres:" + strings.Fields(r)[0])
	}
	// url-specific: empty key, zero / two values
	for c := 0; c < h.N/2+5; c++ {
		h.Case(fmt.Sprintf("urlodd %d", c))
		var parts []string
		for i := rng.Intn(3) + 1; i > 0; i-- {
			k := keyPool[rng.Intn(9)]
			if rng.Intn(6) == 0 {
				k = ""
			}
			nv := []int{0, 1, 1, 1, 2}[rng.Intn(5)]
			vs := []string{}
			for j := 0; j < nv; j++ {
				vs = append(vs, lp.Hex([]byte(valPool[rng.Intn(len(valPool))])))
			}
			parts = append(parts, lp.Hex([]byte(k))+"="+strings.Join(vs, "|"))
		}
		// keys must be distinct for a Go map
		seen := map[string]bool{}
		var uniq []string
		for _, p := range parts {
			k := strings.SplitN(p, "=", 2)[0]
			if !seen[k] {
				seen[k] = true
				uniq = append(uniq, p)
			}
		}
		arg := strings.Join(uniq, ",")
		r := do("url " + arg)
		for _, p := range uniq {
			kv := strings.SplitN(p, "=", 2)
			if (kv[0] == "-" || kv[1] == "" || strings.Contains(kv[1], "|")) && r != "err" {
				h.Violate("malformed URL values accepted: " + arg)
			}
		}
		h.Distinct("url/" + arg)
	}

	// ---- 3. arbitrary bytes for the binary reader
	var seeds [][]byte
	for i := 0; i < 20; i++ {
		p := tquic.NegotiationParams{NegotiationParams: transport.NegotiationParams{
			Encoding: transport.EncodingName(encs[rng.Intn(3)]), Compress: compress.Type(comps[rng.Intn(3)]), CompressLevel: levels[rng.Intn(len(levels))],
			CompressWindowBits: wins[rng.Intn(len(wins))], TransportID: transport.TransportID(grps[rng.Intn(4)].tid), Reconnect: rng.Intn(2) == 0,
			TransportGroupID: transport.TransportGroupID(grps[rng.Intn(4)].tgid), TransportGroupTotalCount: rng.Intn(4), TransportGroupIndex: rng.Intn(3)}}
		b, _ := p.Marshal()
		seeds = append(seeds, b)
	}
	rec := func(k, v string) []byte {
		b := make([]byte, 0, 4+len(k)+len(v))
		b = binary.BigEndian.AppendUint16(b, uint16(len(k)))
		b = append(b, k...)
		b = binary.BigEndian.AppendUint16(b, uint16(len(v)))
		b = append(b, v...)
		return b
	}
	for c := 0; c < h.N*4; c++ {
		h.Case(fmt.Sprintf("bin %d", c))
		var b []byte
		kind := rng.Intn(8)
		switch kind {
		case 0: // truncation of a valid encoding
			s := seeds[rng.Intn(len(seeds))]
			if len(s) > 0 {
				b = append(b, s[:rng.Intn(len(s))]...)
			}
		case 1: // duplicated record
			k := keyPool[rng.Intn(9)]
			b = append(rec(k, "1"), rec("enc", "json")...)
			b = append(b, rec(k, "2")...)
		case 2: // empty key
			b = append(rec("enc", "json"), rec("", "x")...)
		case 3: // invalid UTF-8 in key or value
			if rng.Intn(2) == 0 {
				b = rec("ti\xffd", "x")
			} else {
				b = rec("tid", []string{"\xff", "a\xc0\xafb", "\xed\xa0\x80", "\xf4\x90\x80\x80", "\xe4\xb8"}[rng.Intn(5)])
			}
		case 4: // records built from the pools (mostly valid framing)
			for i := rng.Intn(4); i >= 0; i-- {
				b = append(b, rec(keyPool[rng.Intn(len(keyPool))], valPool[rng.Intn(len(valPool))])...)
			}
		case 5: // byte flips in a valid encoding
			s := append([]byte(nil), seeds[rng.Intn(len(seeds))]...)
			for i := rng.Intn(3); i >= 0 && len(s) > 0; i-- {
				s[rng.Intn(len(s))] ^= byte(1 << uint(rng.Intn(8)))
			}
			b = s
		case 6: // length field larger than the rest
			b = append(rec("enc", "proto"), 0, 5, 'a', 'b')
		default:
			b = make([]byte, rng.Intn(24))
			rng.Read(b)
		}
		r := do("bin " + lp.Hex(b))
		h.Count(fmt.Sprintf("bin-kind-%d:%s", kind, strings.Fields(r)[0]))
		if (kind == 1 || kind == 2 || kind == 3 || kind == 6) && r != "err" {
			h.Violate(fmt.Sprintf("malformed binary parameters (kind %d) accepted: %s", kind, lp.Hex(b)))
		}
		if kind == 0 && len(b) > 0 {
			if _, ok := canonBin(b); !ok && r != "err" {
				h.Violate("truncated binary parameters accepted: " + lp.Hex(b))
			}
		}
		h.Distinct("bin/" + lp.Hex(b))
	}
}
