// Correspondence / measurement harness for C15: the real keepalive loop of a real iscp.Conn against a broker whose pong delays
// are scripted; discrete observations (closed or alive, number of pings) are compared with the Lean model (topic `ka`), the
// timing bounds of the theorems are checked as an oracle with scheduling slack.
package main

import (
	"context"
	"fmt"
	"strconv"
	"strings"
	"sync"
	"time"

	"github.com/aptpod/iscp-go/encoding"
	"github.com/aptpod/iscp-go/encoding/protobuf"
	"github.com/aptpod/iscp-go/iscp"
	"github.com/aptpod/iscp-go/transport"
	"github.com/aptpod/iscp-go/wire"
	"github.com/aptpod/iscp-go/message"
	"verif.local/harness/broker"
	"verif.local/harness/lp"
)

const slack = 150 * time.Millisecond

func runKA(h *lp.H, I, T int, delays []int) string { return runKAx(h, I, T, delays, false) }

// runKAx with closeErr: Close of the transport reports an error although it closes (a dead peer does not answer a close
// handshake); detection and recovery must not depend on what Close returns
func runKAx(h *lp.H, I, T int, delays []int, closeErr bool) string {
	b := broker.New()
	b.Auto["ping"] = false
	if closeErr {
		b.FirstCloseErr = fmt.Errorf("failed to close the transport: the peer did not answer the close handshake")
	}
	b.Register()
	var mu sync.Mutex
	pingIdx := 0
	var lastPong time.Time
	delivered := 0
	b.Policy = func(inc *broker.Inc, m message.Message) bool {
		p, ok := m.(*message.Ping)
		if !ok || inc.N != 0 {
			if ok {
				inc.Send(&message.Pong{RequestID: p.RequestID}) // later incarnations: a healthy broker
				return true
			}
			return false
		}
		mu.Lock()
		k := pingIdx
		pingIdx++
		mu.Unlock()
		if k >= len(delays) || delays[k] < 0 {
			return true // silent
		}
		d := time.Duration(delays[k]) * time.Millisecond
		go func() {
			time.Sleep(d)
			mu.Lock()
			lastPong = time.Now()
			delivered++
			mu.Unlock()
			inc.Send(&message.Pong{RequestID: p.RequestID})
		}()
		return true
	}
	disc := make(chan time.Time, 4)
	t0 := time.Now()
	conn, err := iscp.Connect("mem", broker.TransportName, iscp.WithConnPingInterval(time.Duration(I)*time.Millisecond), iscp.WithConnPingTimeout(time.Duration(T)*time.Millisecond),
		iscp.WithConnDisconnectedEventHandler(iscp.DisconnectedEventHandlerFunc(func(*iscp.DisconnectedEvent) { disc <- time.Now() })))
	if err != nil {
		return "err connect"
	}
	defer func() {
		ctx, cancel := context.WithTimeout(context.Background(), 300*time.Millisecond)
		conn.Close(ctx)
		cancel()
	}()
	allAnswered := true
	for _, d := range delays {
		if d < 0 || d >= T {
			allAnswered = false
		}
	}
	// how long the script lasts at most
	total := time.Duration(0)
	for _, d := range delays {
		if d >= 0 && d < T {
			total += time.Duration(d+I) * time.Millisecond
		} else {
			total += time.Duration(T+I) * time.Millisecond
			break
		}
	}
	countPings := func() int {
		n := 0
		for _, r := range b.LogFrom(0) {
			if _, ok := r.Msg.(*message.Ping); ok && r.Inc == 0 {
				n++
			}
		}
		return n
	}
	if allAnswered {
		// the connection must stay up until every scripted pong has been delivered
		deadline := time.After(total + slack + time.Second)
		for {
			select {
			case <-disc:
				h.Violate(fmt.Sprintf("I=%d T=%d delays=%v: the client gave up the connection although every pong arrived within the timeout", I, T, delays))
				return fmt.Sprintf("closed pings=%d", countPings())
			case <-deadline:
				h.Violate(fmt.Sprintf("I=%d T=%d delays=%v: the keepalive loop stopped pinging", I, T, delays))
				return fmt.Sprintf("alive pings=%d", countPings())
			case <-time.After(2 * time.Millisecond):
				mu.Lock()
				done := delivered >= len(delays)
				mu.Unlock()
				if done {
					return fmt.Sprintf("alive pings=%d", len(delays))
				}
			}
		}
	}
	select {
	case at := <-disc:
		mu.Lock()
		lp0 := lastPong
		mu.Unlock()
		if lp0.IsZero() {
			lp0 = t0
		}
		el := at.Sub(lp0)
		bound := time.Duration(I+T) * time.Millisecond
		if el > bound+slack {
			h.Violate(fmt.Sprintf("I=%d T=%d delays=%v: the dead peer was detected %v after the last pong, bound is interval+timeout=%v (+%v slack)", I, T, delays, el.Round(time.Millisecond), bound, slack))
		}
		if el < time.Duration(T)*time.Millisecond-20*time.Millisecond {
			h.Violate(fmt.Sprintf("I=%d T=%d delays=%v: connection given up only %v after the last pong (timeout %d ms)", I, T, delays, el.Round(time.Millisecond), T))
		}
		n := countPings()
		// recovery starts: a new connect request arrives
		if !b.WaitFor(func() bool { return len(b.Incs) >= 2 }, time.Second) {
			h.Violate("after the keepalive failure no reconnect was attempted within 1 s")
		}
		return fmt.Sprintf("closed pings=%d", n)
	case <-time.After(total + time.Duration(I+T)*time.Millisecond + slack + time.Second):
		h.Violate(fmt.Sprintf("I=%d T=%d delays=%v: the silent broker was never detected", I, T, delays))
		return fmt.Sprintf("alive pings=%d", countPings())
	}
}

func announce(h *lp.H, ms int) string {
	b := broker.New()
	b.Register()
	opts := []iscp.ConnOption{}
	if ms != 0 {
		opts = append(opts, iscp.WithConnPingInterval(time.Duration(ms)*time.Millisecond), iscp.WithConnPingTimeout(time.Duration(ms)*time.Millisecond))
	}
	conn, err := iscp.Connect("mem", broker.TransportName, opts...)
	if err != nil {
		return "err"
	}
	defer func() {
		ctx, cancel := context.WithTimeout(context.Background(), 300*time.Millisecond)
		conn.Close(ctx)
		cancel()
	}()
	for _, r := range b.LogFrom(0) {
		if c, ok := r.Msg.(*message.ConnectRequest); ok {
			if ms != 0 && c.PingTimeout != c.PingInterval {
				h.Violate("interval and timeout configured equal are announced differently")
			}
			return fmt.Sprintf("announced %d", int(c.PingInterval/time.Second))
		}
	}
	return "no-connect-request"
}

func pongEcho(h *lp.H) string {
	b := broker.New()
	b.Register()
	conn, err := iscp.Connect("mem", broker.TransportName, iscp.WithConnPingInterval(time.Hour), iscp.WithConnPingTimeout(time.Hour))
	if err != nil {
		return "err"
	}
	defer func() {
		ctx, cancel := context.WithTimeout(context.Background(), 300*time.Millisecond)
		conn.Close(ctx)
		cancel()
	}()
	ids := []uint32{1, 3, 77, 4294967295}
	for _, id := range ids {
		b.Cur().Send(&message.Ping{RequestID: message.RequestID(id)})
	}
	ok := b.WaitFor(func() bool {
		n := 0
		for _, r := range b.Log {
			if p, is := r.Msg.(*message.Pong); is {
				for _, id := range ids {
					if uint32(p.RequestID) == id {
						n++
					}
				}
			}
		}
		return n == len(ids)
	}, time.Second)
	if !ok {
		h.Violate("a ping from the broker was not answered with a pong carrying the same request id")
		return "echo missing"
	}
	return "echo ok"
}

// burst: application traffic must not cost a live connection: n chunks arrive on a downstream nobody reads while the broker
// answers every ping at once; the connection must survive the next keepalive rounds
func burst(h *lp.H, n int) string {
	b := broker.New()
	b.Register()
	disc := make(chan struct{}, 4)
	I, T := 100, 160
	conn, err := iscp.Connect("mem", broker.TransportName, iscp.WithConnPingInterval(time.Duration(I)*time.Millisecond), iscp.WithConnPingTimeout(time.Duration(T)*time.Millisecond),
		iscp.WithConnDisconnectedEventHandler(iscp.DisconnectedEventHandlerFunc(func(*iscp.DisconnectedEvent) { disc <- struct{}{} })))
	if err != nil {
		return "err connect"
	}
	defer func() {
		ctx, cancel := context.WithTimeout(context.Background(), 300*time.Millisecond)
		conn.Close(ctx)
		cancel()
	}()
	ctx, cancel := context.WithTimeout(context.Background(), 2*time.Second)
	defer cancel()
	if _, err := conn.OpenDownstream(ctx, []*message.DownstreamFilter{{SourceNodeID: "n0", DataFilters: []*message.DataFilter{{Name: "#", Type: "#"}}}}); err != nil {
		return "err open"
	}
	var alias uint32 = 1
	for _, r := range b.LogFrom(0) {
		if o, ok := r.Msg.(*message.DownstreamOpenRequest); ok {
			alias = o.DesiredStreamIDAlias
		}
	}
	up := &message.UpstreamInfo{SessionID: "s", SourceNodeID: "n0"}
	up.StreamID[0] = 7
	sent := make(chan struct{})
	go func() {
		defer close(sent)
		for k := 0; k < n; k++ {
			b.Cur().Send(&message.DownstreamChunk{StreamIDAlias: alias, UpstreamOrAlias: up, StreamChunk: &message.StreamChunk{SequenceNumber: uint32(k + 1), DataPointGroups: []*message.DataPointGroup{}}, ExtensionFields: &message.DownstreamChunkExtensionFields{}})
		}
	}()
	select {
	case <-sent:
	case <-disc:
		h.Violate(fmt.Sprintf("the client gave up a live connection while %d unread chunks were arriving (the broker answers every ping at once)", n))
		return "closed"
	case <-time.After(5 * time.Second):
		h.Violate(fmt.Sprintf("the client stopped reading from the connection while %d unread chunks were arriving", n))
		return "stuck"
	}
	select {
	case <-disc:
		h.Violate(fmt.Sprintf("the client gave up a live connection after a burst of %d unread chunks (the broker answers every ping at once)", n))
		return "closed"
	case <-time.After(time.Duration(4*(I+T)) * time.Millisecond):
	}
	return "alive"
}

// wireBurst: the same at the wire level, where a subscriber that does not drain its channel is possible: n chunks for a
// subscribed alias nobody reads, pings answered at once; the connection must not be given up
func wireBurst(h *lp.H, n int) string {
	cli, srv := transport.Pipe()
	enc := protobuf.NewEncoding()
	ct := encoding.NewTransport(&encoding.TransportConfig{Transport: cli, Encoding: enc})
	st := encoding.NewTransport(&encoding.TransportConfig{Transport: srv, Encoding: enc})
	I, T := 100, 160
	var wmu sync.Mutex
	write := func(m message.Message) { wmu.Lock(); st.Write(m); wmu.Unlock() }
	answered := make(chan struct{}, 4096)
	go func() {
		for {
			m, err := st.Read()
			if err != nil {
				return
			}
			switch v := m.(type) {
			case *message.ConnectRequest:
				go write(&message.ConnectResponse{RequestID: v.RequestID, ResultCode: message.ResultCodeSucceeded})
			case *message.Ping:
				go func() { write(&message.Pong{RequestID: v.RequestID}); answered <- struct{}{} }()
			}
		}
	}()
	conn, err := wire.Connect(&wire.ClientConnConfig{Transport: ct, PingInterval: time.Duration(I) * time.Millisecond, PingTimeout: time.Duration(T) * time.Millisecond})
	if err != nil {
		return "err connect"
	}
	defer func() { conn.Close(); srv.Close() }()
	ctx, cancel := context.WithTimeout(context.Background(), time.Second)
	defer cancel()
	if _, err := conn.SubscribeDownstreamChunk(ctx, 5, message.QoSReliable); err != nil {
		return "err subscribe"
	}
	up := &message.UpstreamInfo{SessionID: "s", SourceNodeID: "n0"}
	sent := make(chan struct{})
	go func() {
		defer close(sent)
		for k := 0; k < n; k++ {
			write(&message.DownstreamChunk{StreamIDAlias: 5, UpstreamOrAlias: up, StreamChunk: &message.StreamChunk{SequenceNumber: uint32(k + 1), DataPointGroups: []*message.DataPointGroup{}}, ExtensionFields: &message.DownstreamChunkExtensionFields{}})
		}
	}()
	deadline := time.After(time.Duration(5*(I+T))*time.Millisecond + 2*time.Second)
	burstDone := false
	var quiet <-chan time.Time
	for {
		select {
		case <-sent:
			sent = nil
			burstDone = true
			quiet = time.After(time.Duration(4*(I+T)) * time.Millisecond)
		case <-conn.Closed():
			h.Violate(fmt.Sprintf("wire level: the client gave up a live connection around a burst of %d chunks its subscriber does not read (every ping was answered at once; burst delivered: %v)", n, burstDone))
			return "closed"
		case <-quiet:
			return "alive"
		case <-deadline:
			if !burstDone {
				h.Violate(fmt.Sprintf("wire level: the client stopped reading while %d chunks for an undrained subscriber were arriving", n))
				return "stuck"
			}
			return "alive"
		}
	}
}

// appTraffic: concurrent application traffic must not cost a live connection. The broker answers every ping at once.
// kind "abandon": a metadata request whose caller gives up after 40 ms is answered after 130 ms, then another one likewise;
// kind "refused": metadata requests are refused with a result code. In both cases the client must keep the connection (no
// disconnected event, one dial) through the following keepalive rounds, and a later request must still be served.
func appTraffic(h *lp.H, kind string) string {
	b := broker.New()
	I, T := 100, 160
	var mu sync.Mutex
	var busyAlias uint32
	mode := kind
	b.Policy = func(inc *broker.Inc, m message.Message) bool {
		if cr, isClose := m.(*message.DownstreamCloseRequest); isClose && kind == "closebusy" {
			// a busy downstream is being closed: chunks that were on their way are delivered before the close response
			for k := 0; k < 40; k++ {
				inc.Send(&message.DownstreamChunk{StreamIDAlias: busyAlias, UpstreamOrAlias: &message.UpstreamInfo{SessionID: "s", SourceNodeID: "n0"},
					StreamChunk: &message.StreamChunk{SequenceNumber: uint32(k + 1), DataPointGroups: []*message.DataPointGroup{}}, ExtensionFields: &message.DownstreamChunkExtensionFields{}})
			}
			inc.Send(&message.DownstreamCloseResponse{RequestID: cr.RequestID, ResultCode: message.ResultCodeSucceeded, ExtensionFields: &message.DownstreamCloseResponseExtensionFields{}})
			return true
		}
		r, ok := m.(*message.UpstreamMetadata)
		if !ok {
			return false
		}
		mu.Lock()
		md := mode
		mu.Unlock()
		switch md {
		case "abandon":
			go func() {
				time.Sleep(130 * time.Millisecond)
				inc.Send(&message.UpstreamMetadataAck{RequestID: r.RequestID, ResultCode: message.ResultCodeSucceeded, ExtensionFields: &message.UpstreamMetadataAckExtensionFields{}})
			}()
			return true
		case "refused":
			inc.Send(&message.UpstreamMetadataAck{RequestID: r.RequestID, ResultCode: message.ResultCodeUnspecifiedError, ResultString: "refused", ExtensionFields: &message.UpstreamMetadataAckExtensionFields{}})
			return true
		}
		return false
	}
	b.Register()
	disc := make(chan struct{}, 64)
	conn, err := iscp.Connect("mem", broker.TransportName, iscp.WithConnPingInterval(time.Duration(I)*time.Millisecond), iscp.WithConnPingTimeout(time.Duration(T)*time.Millisecond),
		iscp.WithConnDisconnectedEventHandler(iscp.DisconnectedEventHandlerFunc(func(*iscp.DisconnectedEvent) {
			select {
			case disc <- struct{}{}:
			default:
			}
		})))
	if err != nil {
		return "err connect"
	}
	defer func() {
		ctx, cancel := context.WithTimeout(context.Background(), 300*time.Millisecond)
		conn.Close(ctx)
		cancel()
	}()
	if kind == "closebusy" {
		octx, ocancel := context.WithTimeout(context.Background(), 2*time.Second)
		d, err := conn.OpenDownstream(octx, []*message.DownstreamFilter{{SourceNodeID: "n0", DataFilters: []*message.DataFilter{{Name: "#", Type: "#"}}}})
		ocancel()
		if err != nil {
			return "err open"
		}
		b.Lock()
		if ds := b.Downs[d.ID]; ds != nil {
			busyAlias = ds.Alias
		}
		b.Unlock()
		cctx, ccancel := context.WithTimeout(context.Background(), 2*time.Second)
		t0 := time.Now()
		err = d.Close(cctx)
		ccancel()
		if err != nil || time.Since(t0) > time.Second {
			h.Violate(fmt.Sprintf("closing a downstream while 40 of its chunks were still arriving: Close returned %v after %v (the broker answered the close request and every ping at once)", err, time.Since(t0).Round(time.Millisecond)))
		}
	}
	for k := 0; k < 2 && kind != "closebusy"; k++ {
		ctx, cancel := context.WithTimeout(context.Background(), 40*time.Millisecond)
		if kind == "refused" {
			cancel()
			ctx, cancel = context.WithTimeout(context.Background(), time.Second)
		}
		t0 := time.Now()
		err := conn.SendBaseTime(ctx, &message.BaseTime{Name: "app", BaseTime: time.Unix(1700000000, 0)})
		cancel()
		if kind == "refused" && (err == nil || time.Since(t0) > 500*time.Millisecond) {
			h.Violate(fmt.Sprintf("a metadata request the broker refuses with a result code returned %v after %v (the refusal should be reported at once)", err, time.Since(t0).Round(time.Millisecond)))
		}
		time.Sleep(150 * time.Millisecond)
	}
	gaveUp := func(when string) bool {
		select {
		case <-disc:
			b.Lock()
			dials := b.Dials
			b.Unlock()
			h.Violate(fmt.Sprintf("application traffic (%s metadata requests) cost a live connection %s: the client reported a disconnection although the broker answers every ping at once (dials so far: %d)", kind, when, dials))
			return true
		default:
			return false
		}
	}
	if gaveUp("during the requests") {
		return "closed"
	}
	select {
	case <-disc:
		disc <- struct{}{}
		gaveUp("in the keepalive rounds that followed")
		return "closed"
	case <-time.After(time.Duration(4*(I+T)) * time.Millisecond):
	}
	b.Lock()
	dials := b.Dials
	b.Unlock()
	if dials != 1 {
		h.Violate(fmt.Sprintf("application traffic (%s metadata requests): the client dialled %d times although the broker answers every ping at once", kind, dials))
		return "closed"
	}
	// the connection still serves requests
	mu.Lock()
	mode = "serve"
	mu.Unlock()
	ctx, cancel := context.WithTimeout(context.Background(), time.Second)
	defer cancel()
	if err := conn.SendBaseTime(ctx, &message.BaseTime{Name: "after", BaseTime: time.Unix(1700000001, 0)}); err != nil {
		h.Violate(fmt.Sprintf("after %s metadata requests a later request on the live connection fails: %v", kind, err))
		return "closed"
	}
	return "alive"
}

// pingBurst: n pings from the broker while it is momentarily not reading; every one must be answered with its id
func pingBurst(h *lp.H, n int) string {
	b := broker.New()
	gate := make(chan struct{})
	var gateOn bool
	var gmu sync.Mutex
	b.Policy = func(inc *broker.Inc, m message.Message) bool {
		gmu.Lock()
		on := gateOn
		gmu.Unlock()
		if on {
			<-gate
		}
		return false
	}
	b.Register()
	conn, err := iscp.Connect("mem", broker.TransportName, iscp.WithConnPingInterval(time.Hour), iscp.WithConnPingTimeout(time.Hour))
	if err != nil {
		return "err"
	}
	defer func() {
		ctx, cancel := context.WithTimeout(context.Background(), 300*time.Millisecond)
		conn.Close(ctx)
		cancel()
	}()
	gmu.Lock()
	gateOn = true
	gmu.Unlock()
	go func() {
		for k := 0; k < n; k++ {
			b.Cur().Send(&message.Ping{RequestID: message.RequestID(5001 + 2*k)})
		}
	}()
	time.Sleep(300 * time.Millisecond)
	gmu.Lock()
	gateOn = false
	gmu.Unlock()
	close(gate)
	countIn := func(recs []broker.Rec) int {
		seen := map[uint32]bool{}
		for _, r := range recs {
			if p, ok := r.Msg.(*message.Pong); ok && uint32(p.RequestID) >= 5001 {
				seen[uint32(p.RequestID)] = true
			}
		}
		return len(seen)
	}
	b.WaitFor(func() bool { return countIn(b.Log) == n }, 2*time.Second) // WaitFor holds the broker's lock
	count := func() int { return countIn(b.LogFrom(0)) }
	if got := count(); got != n {
		h.Violate(fmt.Sprintf("the broker sent %d pings while it was not reading for 300 ms; only %d were answered with a pong of the same id", n, got))
	}
	return fmt.Sprintf("echo %d", count())
}

func main() {
	h := lp.New()
	defer h.Finish()
	do := func(op string) string {
		w := strings.Fields(op)
		out := "bad-op"
		switch w[0] {
		case "run":
			I, _ := strconv.Atoi(w[1])
			T, _ := strconv.Atoi(w[2])
			var ds []int
			if w[3] != "_" {
				for _, s := range strings.Split(w[3], ",") {
					if s == "x" {
						ds = append(ds, -1)
					} else {
						v, _ := strconv.Atoi(s)
						ds = append(ds, v)
					}
				}
			}
			out = runKA(h, I, T, ds)
		case "runce", "apptraffic":
			if w[0] == "apptraffic" {
				out = appTraffic(h, w[1])
				break
			}
			I, _ := strconv.Atoi(w[1])
			T, _ := strconv.Atoi(w[2])
			var ds []int
			for _, s := range strings.Split(w[3], ",") {
				if s == "x" {
					ds = append(ds, -1)
				} else {
					v, _ := strconv.Atoi(s)
					ds = append(ds, v)
				}
			}
			out = runKAx(h, I, T, ds, true)
		case "announce":
			ms, _ := strconv.Atoi(w[1])
			out = announce(h, ms)
		case "echo":
			out = pongEcho(h)
		case "burst":
			k, _ := strconv.Atoi(w[1])
			out = burst(h, k)
		case "wireburst":
			k, _ := strconv.Atoi(w[1])
			out = wireBurst(h, k)
		case "pingburst":
			k, _ := strconv.Atoi(w[1])
			out = pingBurst(h, k)
		}
		h.Op(op, out)
		return out
	}
	if h.Replay != "" {
		for _, l := range lp.ReadOps(h.Replay) {
			if strings.HasPrefix(l, "#") {
				h.Case(strings.TrimPrefix(l, "# case "))
				continue
			}
			do(l)
		}
		return
	}
	rng := h.Rng
	cfgs := [][2]int{{100, 160}, {200, 180}, {80, 250}, {150, 200}} // timeouts of 160 ms and more: the answered pongs below keep at least 80 ms of margin
	type job struct{ name, op string }
	var jobs []job
	for c := 0; c < h.N; c++ {
		cfg := cfgs[c%len(cfgs)]
		I, T := cfg[0], cfg[1]
		k := rng.Intn(4) // pings answered before silence
		var ds []string
		for j := 0; j < k; j++ {
			ds = append(ds, strconv.Itoa([]int{0, T / 5, T / 3, T / 2}[rng.Intn(4)]))
		}
		switch rng.Intn(3) {
		case 0:
			ds = append(ds, "x") // silent from here on
		case 1:
			ds = append(ds, strconv.Itoa(T*3/2)) // pong later than the timeout
		default:
			if len(ds) == 0 {
				ds = append(ds, strconv.Itoa(T/2))
			}
			for j := 0; j < 3+rng.Intn(4); j++ { // a live peer: never dropped
				ds = append(ds, strconv.Itoa([]int{0, T / 5, T / 3, T / 2}[rng.Intn(4)]))
			}
		}
		jobs = append(jobs, job{fmt.Sprintf("ka %d I=%d T=%d", c, I, T), fmt.Sprintf("run %d %d %s", I, T, strings.Join(ds, ","))})
	}
	// the scenarios are wall-clock bound: run them concurrently (each has its own broker and connection), report in order
	type resT struct {
		out string
	}
	outs := make([]string, len(jobs))
	// broker.Register is global (one dialer registry): run sequentially but keep each short
	for j, jb := range jobs {
		h.Case(jb.name)
		outs[j] = do(jb.op)
		if h.Distinct(jb.op) {
			h.Sample()
		}
	}
	for _, ms := range []int{0, 1000, 2500, 999, 61000} {
		h.Case(fmt.Sprintf("announce %d", ms))
		out := do(fmt.Sprintf("announce %d %d", ms, 10000))
		want := ms / 1000
		if ms == 0 {
			want = 10
		}
		if out != fmt.Sprintf("announced %d", want) {
			h.Violate(fmt.Sprintf("configured ping interval %d ms is announced as %s (want %d s)", ms, out, want))
		}
		h.Distinct(fmt.Sprintf("announce/%d", ms))
	}
	h.Case("pong echo")
	do("echo")
	h.Distinct("echo")
	h.Case("chunk burst")
	do("burst 3000")
	h.Distinct("burst")
	h.Case("chunk burst, wire level")
	do("wireburst 1100")
	h.Distinct("wireburst")
	for _, k := range []string{"abandon", "refused", "closebusy"} {
		h.Case("application traffic: " + k)
		do("apptraffic " + k)
		h.Distinct("apptraffic/" + k)
	}
	for c, ds := range []string{"x", "0,x", "0,30,240"} {
		h.Case(fmt.Sprintf("dead peer, Close of the transport reports an error %d", c))
		do("runce 100 160 " + ds)
		h.Distinct("runce/" + ds)
	}
	h.Case("ping burst")
	do("pingburst 14")
	h.Distinct("pingburst")
}
