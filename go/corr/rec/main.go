// Correspondence harness for C18: a real reconnect.Transport over scripted underlying transports and a scripted
// dialer, against the Lean model (topic `rec`), plus the property's oracle on the implementation: every
// successful Write is in exactly one incarnation's log, in issue order; redials reuse the transport id with
// the reconnect flag; after budget exhaustion or Close nothing blocks.
package main

import (
	"errors"
	"fmt"
	"io"
	"sort"
	"strconv"
	"strings"
	"sync"
	"time"

	liberrors "github.com/aptpod/iscp-go/errors"
	"github.com/aptpod/iscp-go/transport"
	"github.com/aptpod/iscp-go/transport/reconnect"
	"verif.local/harness/lp"
)

type utr struct {
	idx    int
	mu     sync.Mutex
	log    [][]byte
	failW  bool
	in     chan []byte
	failR  chan struct{}
	failRErr error // what the failing Read returns (default: a plain error)
	done   chan struct{}
	once   sync.Once
	onceR  sync.Once
	badHS  bool
	params transport.NegotiationParams
	closeErr bool
	gate    chan struct{} // when set: the next Write parks here, then fails (and the connection stays broken for writes)
	entered chan struct{}
}

func (u *utr) Write(b []byte) error {
	u.mu.Lock()
	if g := u.gate; g != nil {
		u.gate = nil
		u.failW = true
		ent := u.entered
		u.mu.Unlock()
		close(ent)
		<-g
		return errors.New("scripted write failure (connection broke while the write was in progress)")
	}
	u.mu.Unlock()
	u.mu.Lock()
	defer u.mu.Unlock()
	select {
	case <-u.done:
		return transport.ErrAlreadyClosed
	default:
	}
	if u.failW {
		return errors.New("scripted write failure")
	}
	u.log = append(u.log, append([]byte(nil), b...))
	return nil
}
func (u *utr) Read() ([]byte, error) {
	if u.badHS {
		return nil, errors.New("scripted handshake failure")
	}
	select {
	case b := <-u.in:
		return b, nil
	default:
	}
	select {
	case b := <-u.in:
		return b, nil
	case <-u.failR:
		select { // a message that arrived before the failure is still handed up first
		case b := <-u.in:
			return b, nil
		default:
		}
		u.mu.Lock()
		e := u.failRErr
		u.mu.Unlock()
		if e != nil {
			return nil, e
		}
		return nil, errors.New("scripted read failure")
	case <-u.done:
		select {
		case b := <-u.in:
			return b, nil
		default:
		}
		return nil, transport.ErrAlreadyClosed
	}
}
func (u *utr) Close() error {
	u.once.Do(func() { close(u.done) })
	u.mu.Lock()
	defer u.mu.Unlock()
	if u.closeErr {
		return errors.New("scripted error while closing (peer vanished)")
	}
	return nil
}
func (u *utr) CloseWithStatus(transport.CloseStatus) error        { return u.Close() }
func (u *utr) RxBytesCounterValue() uint64                        { return 0 }
func (u *utr) TxBytesCounterValue() uint64                        { return 0 }
func (u *utr) AsUnreliable() (transport.UnreliableTransport, bool) { return nil, false }
func (u *utr) NegotiationParams() transport.NegotiationParams     { return u.params }
func (u *utr) Name() transport.Name                               { return "scripted" }

type dialRec struct {
	tid       transport.TransportID
	reconnect bool
	outcome   string
}

type impl struct {
	mu     sync.Mutex
	tr     *reconnect.Transport
	incs   []*utr // successful incarnations
	script []string
	dials  []dialRec
	budget int
	bornFailing int // the next k incarnations are born with failing writes
	appClosed   bool
	violation   string
}

func (i *impl) Dial(c transport.DialConfig) (transport.Transport, error) {
	i.mu.Lock()
	defer i.mu.Unlock()
	o := "ok"
	if c.Reconnect && len(i.script) > 0 {
		o = i.script[0]
		i.script = i.script[1:]
	}
	i.dials = append(i.dials, dialRec{c.TransportID, c.Reconnect, o})
	switch o {
	case "fail":
		return nil, errors.New("scripted dial failure")
	case "badhs":
		return &utr{idx: -1, badHS: true, in: make(chan []byte, 1), failR: make(chan struct{}), done: make(chan struct{})}, nil
	}
	u := &utr{idx: len(i.incs), in: make(chan []byte, 4096), failR: make(chan struct{}), done: make(chan struct{}), params: c.NegotiationParams()}
	if c.Reconnect {
		u.in <- []byte("hello") // consumed by the handshake read of reconnect()
		if i.bornFailing > 0 {
			i.bornFailing--
			u.failW = true
		}
	}
	i.incs = append(i.incs, u)
	return u, nil
}

func (i *impl) cur() *utr {
	i.mu.Lock()
	defer i.mu.Unlock()
	return i.incs[len(i.incs)-1]
}

const watchdog = 3 * time.Second

func guard(f func() string) string {
	done := make(chan string, 1)
	go func() {
		defer func() {
			if r := recover(); r != nil {
				done <- fmt.Sprintf("crash %v", r)
			}
		}()
		done <- f()
	}()
	select {
	case s := <-done:
		return s
	case <-time.After(watchdog):
		return "hang"
	}
}

func (i *impl) whereLogged(b []byte, before []int) int {
	i.mu.Lock()
	defer i.mu.Unlock()
	for k, u := range i.incs {
		u.mu.Lock()
		n := len(u.log)
		u.mu.Unlock()
		prev := 0
		if k < len(before) {
			prev = before[k]
		}
		if n > prev {
			return k
		}
	}
	return -1
}

func (i *impl) logCounts() []int {
	i.mu.Lock()
	defer i.mu.Unlock()
	r := make([]int, len(i.incs))
	for k, u := range i.incs {
		u.mu.Lock()
		r[k] = len(u.log)
		u.mu.Unlock()
	}
	return r
}

// settle waits until no redial is in progress: Name() takes the transport mutex, which reconnect holds throughout.
func (i *impl) settle() {
	prev := -1
	for k := 0; k < 200; k++ {
		guard(func() string { i.tr.Name(); return "" })
		i.mu.Lock()
		n := len(i.dials)
		i.mu.Unlock()
		if n == prev {
			return
		}
		prev = n
		time.Sleep(3 * time.Millisecond)
	}
}

func (i *impl) exec(op string) string {
	w := strings.Fields(op)
	switch w[0] {
	case "new":
		if i.tr != nil {
			i.tr.Close()
		}
		b, _ := strconv.Atoi(w[1])
		*i = impl{budget: b}
		tid := transport.TransportID("tid-1")
		if len(w) > 2 && w[2] == "gen" {
			tid = "" // the transport generates its own id
		}
		tr, err := reconnect.Dial(reconnect.DialConfig{Dialer: i, DialConfig: transport.DialConfig{TransportID: tid, EncodingName: "proto"},
			MaxReconnectAttempts: b, ReconnectInterval: time.Millisecond})
		if err != nil {
			return "err"
		}
		i.tr = tr
		return "ok"
	case "script":
		i.mu.Lock()
		if w[1] == "_" {
			i.script = nil
		} else {
			i.script = strings.Split(w[1], ",")
		}
		i.mu.Unlock()
		return "ok"
	case "write":
		b := lp.UnHex(w[1])
		before := i.logCounts()
		return guard(func() string {
			if err := i.tr.Write(b); err != nil {
				return "err"
			}
			return "ok " + strconv.Itoa(i.whereLogged(b, before))
		})
	case "burst":
		hs := strings.Split(w[1], ",")
		res := make([]string, len(hs))
		return guard(func() string {
			var wg sync.WaitGroup
			for k, hx := range hs {
				wg.Add(1)
				go func(k int, hx string) {
					defer wg.Done()
					if err := i.tr.Write(lp.UnHex(hx)); err != nil {
						res[k] = hx + ":err"
					} else {
						res[k] = hx + ":ok"
					}
				}(k, hx)
			}
			wg.Wait()
			sort.Strings(res)
			return "burst " + strings.Join(res, ",")
		})
	case "wstorm":
		// n writers released at the same instant, `rounds` times, on a healthy connection: every Write that returns nil is in the
		// log exactly once; no Write is left hanging
		nw, rounds := 32, 150
		if len(w) > 2 {
			nw, _ = strconv.Atoi(w[1])
			rounds, _ = strconv.Atoi(w[2])
		}
		return guard(func() string {
			u := i.cur()
			for r := 0; r < rounds; r++ {
				start := make(chan struct{})
				errs := make(chan error, nw)
				for k := 0; k < nw; k++ {
					go func(k int) {
						<-start
						errs <- i.tr.Write([]byte{0xee, byte(r), byte(r >> 8), byte(k)})
					}(k)
				}
				close(start)
				for k := 0; k < nw; k++ {
					select {
					case err := <-errs:
						if err != nil {
							return fmt.Sprintf("wstorm round %d: Write failed on a healthy connection: %v", r, err)
						}
					case <-time.After(watchdog):
						return fmt.Sprintf("wstorm round %d: only %d of %d concurrent writers returned", r, k, nw)
					}
				}
				u.mu.Lock()
				seen := map[string]int{}
				for _, b := range u.log {
					if len(b) == 4 && b[0] == 0xee && int(b[1])|int(b[2])<<8 == r {
						seen[string(b)]++
					}
				}
				u.mu.Unlock()
				for k := 0; k < nw; k++ {
					if n := seen[string([]byte{0xee, byte(r), byte(r >> 8), byte(k)})]; n != 1 {
						return fmt.Sprintf("wstorm round %d: the Write of writer %d returned nil and the connection accepted its payload %d times", r, k, n)
					}
				}
			}
			return "wstorm ok"
		})
	case "gatedpair":
		// A is parked inside the underlying Write; B is issued behind it; then A's write fails and the transport redials.
		u := i.cur()
		u.mu.Lock()
		u.gate = make(chan struct{})
		u.entered = make(chan struct{})
		gate, entered := u.gate, u.entered
		u.mu.Unlock()
		ra, rb := make(chan error, 1), make(chan error, 1)
		go func() { ra <- i.tr.Write(lp.UnHex(w[1])) }()
		select {
		case <-entered:
		case <-time.After(watchdog):
			close(gate)
			return "hang"
		}
		go func() { rb <- i.tr.Write(lp.UnHex(w[2])) }()
		time.Sleep(5 * time.Millisecond) // let B reach the request queue (not needed for soundness: A was issued first)
		close(gate)
		res := func(c chan error) string {
			select {
			case err := <-c:
				if err != nil {
					return "err"
				}
				return "ok"
			case <-time.After(watchdog):
				return "hang"
			}
		}
		return "pair " + res(ra) + " " + res(rb)
	case "closeerr":
		u := i.cur()
		u.mu.Lock()
		u.closeErr = true
		u.mu.Unlock()
		return "ok"
	case "bornfailing":
		k, _ := strconv.Atoi(w[1])
		i.mu.Lock()
		i.bornFailing = k
		i.mu.Unlock()
		return "ok"
	case "failw":
		u := i.cur()
		u.mu.Lock()
		u.failW = true
		u.mu.Unlock()
		return "ok"
	case "failr":
		u := i.cur()
		if len(w) > 1 {
			// every way a connection can break other than the peer's normal close is followed by a redial
			u.mu.Lock()
			u.failRErr = map[string]error{
				"closed":    transport.ErrAlreadyClosed,
				"goingaway": fmt.Errorf("read: %w", liberrors.ErrConnectionGoingAwayClose),
				"abnormal":  fmt.Errorf("read: %w", liberrors.ErrConnectionAbnormalClose),
				"internal":  fmt.Errorf("read: %w", liberrors.ErrConnectionInternalErrorClose),
				"eof":       io.ErrUnexpectedEOF,
			}[w[1]]
			u.mu.Unlock()
		}
		i.mu.Lock()
		nd := len(i.dials)
		i.mu.Unlock()
		wasDead, first := i.isDead(), false
		u.onceR.Do(func() { first = true; close(u.failR) })
		// wait for the read loop to notice (first new dial attempt) unless the transport is already closed/dead
		redialled := false
		for t := time.Now(); time.Since(t) < 300*time.Millisecond; time.Sleep(time.Millisecond) {
			i.mu.Lock()
			n := len(i.dials)
			i.mu.Unlock()
			if n > nd {
				redialled = true
				break
			}
		}
		if first && !wasDead && !i.appClosed && !redialled {
			for t := time.Now(); time.Since(t) < 2*time.Second && !redialled; time.Sleep(time.Millisecond) { // a loaded machine
				i.mu.Lock()
				redialled = len(i.dials) > nd
				i.mu.Unlock()
			}
		}
		if first && !wasDead && !i.appClosed && !redialled {
			i.violation = fmt.Sprintf("the current connection's Read failed (`%s`) on a live transport and no redial was attempted within 2.3 s: a broken connection is not replaced", op)
		}
		i.settle()
		// dead? then Read fails promptly
		if i.isDead() {
			return "dead"
		}
		return "inc " + strconv.Itoa(i.cur().idx)
	case "deliver":
		if i.isDead() {
			return "ok"
		}
		cu := i.cur()
		cu.in <- lp.UnHex(w[1])
		// the message has arrived at the wrapper, not merely at the socket: wait until its read loop has taken it over. (What
		// still sits unread in a connection's receive buffer when that connection is replaced is lost with it - by nature, and
		// whether the read loop got to it first would otherwise depend on scheduling.)
		for t := time.Now(); time.Since(t) < 300*time.Millisecond && len(cu.in) > 0; time.Sleep(50 * time.Microsecond) {
		}
		return "ok"
	case "ping":
		if i.isDead() {
			return "nopong"
		}
		before := i.logCounts()
		i.cur().in <- []byte("ping")
		for t := time.Now(); time.Since(t) < watchdog; time.Sleep(time.Millisecond) {
			if k := i.whereLogged(nil, before); k >= 0 {
				i.settle()
				u := i.incs[k]
				u.mu.Lock()
				last := string(u.log[len(u.log)-1])
				u.mu.Unlock()
				if last != "pong" {
					return "wrote-" + last
				}
				return "pong " + strconv.Itoa(k)
			}
		}
		return "nopong"
	case "read":
		return guard(func() string {
			b, err := i.tr.Read()
			if err != nil {
				return "err"
			}
			return "msg " + lp.Hex(b)
		})
	case "close":
		i.appClosed = true
		return guard(func() string { i.tr.Close(); return "ok" })
	case "dials":
		i.mu.Lock()
		defer i.mu.Unlock()
		s := make([]string, len(i.dials))
		pattern := true
		for k, d := range i.dials {
			s[k] = "0"
			if d.reconnect {
				s[k] = "1"
			}
			if d.reconnect != (k > 0) {
				pattern = false
			}
		}
		if pattern {
			return "dials first-plain-then-reconnect"
		}
		return "dials " + strings.Join(s, ",")
	case "logs":
		i.mu.Lock()
		defer i.mu.Unlock()
		parts := make([]string, len(i.incs))
		for k, u := range i.incs {
			u.mu.Lock()
			hs := make([]string, len(u.log))
			for j, b := range u.log {
				hs[j] = lp.Hex(b)
			}
			u.mu.Unlock()
			sort.Strings(hs)
			parts[k] = strconv.Itoa(k) + "=" + strings.Join(hs, ",")
		}
		return "logs " + strings.Join(parts, ";")
	case "seqlogs":
		i.mu.Lock()
		defer i.mu.Unlock()
		var hs []string
		for _, u := range i.incs {
			u.mu.Lock()
			for _, b := range u.log {
				hs = append(hs, lp.Hex(b))
			}
			u.mu.Unlock()
		}
		return "seq " + strings.Join(hs, ",")
	}
	return "bad-op"
}

// isDead: the budget was exhausted or Close was called: Read returns an error promptly instead of blocking
func (i *impl) isDead() bool {
	i.mu.Lock()
	n := len(i.dials)
	dead := n > i.budget
	if dead {
		for _, d := range i.dials[n-i.budget:] {
			if d.outcome == "ok" {
				dead = false
			}
		}
	}
	i.mu.Unlock()
	return dead
}

func main() {
	h := lp.New()
	defer h.Finish()
	im := &impl{}
	do := func(op string) string {
		out := im.exec(op)
		h.Op(op, out)
		if im.violation != "" {
			h.Violate(im.violation)
			im.violation = ""
		}
		switch {
		case strings.HasPrefix(out, "crash"):
			h.Violate("reconnect transport panicked on: " + op)
		case out == "hang":
			h.Violate("reconnect transport call blocked (no error, no result within the watchdog) on: " + op)
		}
		return out
	}
	if h.Replay != "" {
		for _, l := range lp.ReadOps(h.Replay) {
			if strings.HasPrefix(l, "#") {
				h.Case(strings.TrimPrefix(l, "# case "))
				continue
			}
			do(l)
		}
		return
	}
	rng := h.Rng
	h.Case("writer storm")
	do("new 3")
	if out := do("wstorm 32 1500"); out != "wstorm ok" {
		h.Violate(out)
	}
	do("close")
	h.Distinct("wstorm")
	for c := 0; c < h.N; c++ {
		budget := 1 + rng.Intn(3)
		h.Case(fmt.Sprintf("rnd %d budget=%d", c, budget))
		if rng.Intn(3) == 0 {
			do(fmt.Sprintf("new %d gen", budget))
		} else {
			do(fmt.Sprintf("new %d", budget))
		}
		var okWrites []string // payloads whose Write returned nil, in issue order
		pendingReads := 0
		alive := true
		seq := 0
		sig := ""
		for s := 0; s < 6+rng.Intn(16); s++ {
			seq++
			pay := lp.Hex([]byte{byte(c), byte(seq), byte(rng.Intn(256))})
			switch k := rng.Intn(12); {
			case k < 4:
				out := do("write " + pay)
				if strings.HasPrefix(out, "ok") {
					if !alive {
						h.Violate("Write returned nil after the redial budget had been exhausted (the transport had already failed its callers): " + out)
					}
					okWrites = append(okWrites, pay)
				} else {
					alive = false // budget exhausted through the write path
				}
				sig += "w"
			case k == 4:
				var outs []string
				for n := rng.Intn(budget + 2); n > 0; n-- {
					outs = append(outs, []string{"ok", "fail", "badhs"}[rng.Intn(3)])
				}
				if len(outs) == 0 {
					do("script _")
				} else {
					do("script " + strings.Join(outs, ","))
				}
				sig += "s"
			case k == 5:
				if rng.Intn(3) == 0 {
					do(fmt.Sprintf("bornfailing %d", 1+rng.Intn(3))) // the write that follows fails again on the fresh connection(s)
					sig += "b"
				}
				do("failw")
				sig += "f"
			case k == 6:
				out := do([]string{"failr", "failr closed", "failr goingaway", "failr abnormal", "failr internal", "failr eof"}[rng.Intn(6)])
				if out == "dead" {
					alive = false
					pendingReads = 0
				}
				sig += "r"
			case k == 7:
				if alive {
					if rng.Intn(3) == 0 {
						pay = lp.Hex(append([]byte("ping"), byte(c), byte(seq))) // data that merely starts like the control ping
					}
					do("deliver " + pay)
					pendingReads++
				}
				sig += "d"
			case k == 8:
				if pendingReads > 0 {
					do("read")
					pendingReads--
				}
				sig += "R"
			case k == 9:
				out := do("ping")
				if strings.HasPrefix(out, "pong") {
					// pongs are writes too
					okWrites = append(okWrites, lp.Hex([]byte("pong")))
				} else {
					alive = false
				}
				sig += "p"
			case k == 10 && rng.Intn(2) == 0:
				pa, pb := lp.Hex([]byte{byte(c), byte(seq), 0xa1}), lp.Hex([]byte{byte(c), byte(seq), 0xb2})
				out := do("gatedpair " + pa + " " + pb)
				f := strings.Fields(out)
				if len(f) == 3 && f[1] == "ok" {
					okWrites = append(okWrites, pa)
				}
				if len(f) == 3 && f[2] == "ok" {
					okWrites = append(okWrites, pb)
				}
				if strings.Contains(out, "err") {
					alive = false
				}
				sig += "g"
			case k == 10:
				n := 2 + rng.Intn(4)
				var ps []string
				for j := 0; j < n; j++ {
					ps = append(ps, lp.Hex([]byte{byte(c), byte(seq), byte(j), 0xbb}))
				}
				out := do("burst " + strings.Join(ps, ","))
				if strings.Contains(out, ":err") {
					alive = false
				}
				sig += "b"
			default:
				if rng.Intn(4) == 0 {
					// drain first: a message taken before Close may still be returned by a Read racing with Close
					for ; pendingReads > 0; pendingReads-- {
						do("read")
					}
					if rng.Intn(3) == 0 {
						do("closeerr") // the underlying Close itself reports an error
					}
					do("close")
					alive = false
					// after Close: pending and later Reads and Writes fail with an error instead of blocking
					if o := do("write " + pay); o != "err" {
						h.Violate("Write after Close did not fail: " + o)
					}
					if o := do("read"); o != "err" {
						h.Violate("Read after Close did not fail: " + o)
					}
					sig += "c"
				}
			}
			if !alive {
				break
			}
		}
		// oracle on the implementation: successful single writes appear exactly once, in issue order, across the incarnations
		seqOut := im.exec("seqlogs")
		logged := []string{}
		if len(seqOut) > 4 {
			logged = strings.Split(seqOut[4:], ",")
		}
		pos := 0
		for _, w := range okWrites {
			cnt := 0
			for _, l := range logged {
				if l == w && w != lp.Hex([]byte("pong")) {
					cnt++
				}
			}
			if w != lp.Hex([]byte("pong")) && cnt != 1 {
				h.Violate(fmt.Sprintf("write %s returned nil but was accepted by %d underlying connections", w, cnt))
			}
			found := false
			for pos < len(logged) {
				if logged[pos] == w {
					found = true
					pos++
					break
				}
				pos++
			}
			if !found {
				h.Violate(fmt.Sprintf("accepted writes are not in issue order across the connections: %v vs logged %v", okWrites, logged))
				break
			}
		}
		do("logs")
		do("dials")
		// redials keep the transport id and set the reconnect flag
		for k, d := range im.dials {
			if d.tid == "" || d.tid != im.dials[0].tid || d.reconnect != (k > 0) {
				h.Violate(fmt.Sprintf("dial %d used transport id %q reconnect=%v", k, d.tid, d.reconnect))
			}
		}
		// dead or alive, nothing may block now
		if o := do("write " + lp.Hex([]byte{0xee, byte(c)})); o == "hang" {
			h.Violate("Write blocks instead of failing")
		} else if !alive && strings.HasPrefix(o, "ok") {
			h.Violate("Write returned nil after the redial budget had been exhausted (the transport had already failed its callers): " + o)
		}
		if h.Distinct(fmt.Sprintf("rnd/%d/%s", budget, sig)) && strings.ContainsAny(sig, "fr") {
			h.Sample()
		}
	}
}
