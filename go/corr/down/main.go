// Correspondence harness for C03 / C04: a real iscp.Conn + Downstream against the scripted broker, in lock step, compared op by
// op with the Lean model (topic `down`), plus the properties' own oracles (each chunk returned once, in order, correctly
// resolved; each returned chunk acknowledged exactly once; ack ids 1,2,3,…; each upstream / data id announced once under one alias).
package main

import (
	"context"
	"errors"
	"fmt"
	"sort"
	"strconv"
	"strings"
	"time"

	"github.com/aptpod/iscp-go/iscp"
	"github.com/aptpod/iscp-go/message"
	uuid "github.com/google/uuid"
	"verif.local/harness/broker"
	"verif.local/harness/dp"
	"verif.local/harness/lp"
)

const watchdog = 3 * time.Second

func upInfo(tok int) *message.UpstreamInfo {
	var id uuid.UUID
	id[0], id[1], id[15] = byte(tok>>8), byte(tok), 0x11
	// upstreams 4k, 4k+2 (and 4k+1, 4k+3) share source node and session and differ in the stream id only
	return &message.UpstreamInfo{SessionID: "s" + strconv.Itoa(tok/4), SourceNodeID: "n" + strconv.Itoa(tok%2), StreamID: id}
}

func upTok(i *message.UpstreamInfo) int { return upTokOfStream(i.StreamID) }

func upTokOfStream(id uuid.UUID) int { return int(id[0])<<8 | int(id[1]) }

type impl struct {
	b          *broker.Broker
	conn       *iscp.Conn
	down       *iscp.Downstream
	logPos     int
	alias      uint32
	starved    bool // a read timed out in this case
	lastAckInc int
	// oracle bookkeeping
	sent      []string            // chunks sent by the broker, in order: "seq/up"
	sentOps   map[string][]string // sequence number -> [upstream word, groups word] of the chunk ops carrying it
	returned  []string            // chunks returned by ReadDataPoints
	acked     map[string]int      // "up:seq" -> times acknowledged
	upAlias   map[int]int         // upstream token -> alias announced
	idAlias   map[int]int
	aliasUsed map[string]string
	lastAckID uint32
	resumedEv int
}

func waitUntil(f func() bool) bool {
	for t := time.Now(); time.Since(t) < watchdog; time.Sleep(100 * time.Microsecond) {
		if f() {
			return true
		}
	}
	return f()
}

func (i *impl) open(qos, pre string) string {
	i.b = broker.New()
	i.b.Auto["downack"] = true
	i.b.Register()
	conn, err := iscp.Connect("mem", broker.TransportName, iscp.WithConnPingInterval(20*time.Millisecond), iscp.WithConnPingTimeout(400*time.Millisecond))
	if err != nil {
		return "err connect"
	}
	i.conn = conn
	q := map[string]message.QoS{"r": message.QoSReliable, "u": message.QoSUnreliable, "p": message.QoSPartial}[qos]
	var ids []*message.DataID
	if pre != "_" {
		for _, t := range strings.Split(pre, ",") {
			n, _ := strconv.Atoi(t)
			ids = append(ids, dp.ID(n))
		}
	}
	wdog := watchdog
	if i.starved {
		wdog = 100 * time.Millisecond // a read has already starved in this case: the rest of it is not comparable, do not wait for it
	}
	ctx, cancel := context.WithTimeout(context.Background(), wdog)
	defer cancel()
	filters := []*message.DownstreamFilter{{SourceNodeID: "n0", DataFilters: []*message.DataFilter{{Name: "#", Type: "#"}}}, {SourceNodeID: "n1", DataFilters: []*message.DataFilter{{Name: "#", Type: "#"}}}}
	d, err := conn.OpenDownstream(ctx, filters, iscp.WithDownstreamQoS(q), iscp.WithDownstreamDataIDs(ids), iscp.WithDownstreamAckFlushInterval(2*time.Millisecond),
		iscp.WithDownstreamResumedEventHandler(iscp.DownstreamResumedEventHandlerFunc(func(*iscp.DownstreamResumedEvent) { i.resumedEv++ })))
	if err != nil {
		return "err open " + err.Error()
	}
	i.down = d
	i.alias = 1
	i.acked, i.upAlias, i.idAlias, i.aliasUsed = map[string]int{}, map[int]int{}, map[int]int{}, map[string]string{}
	for _, r := range i.b.LogFrom(0) {
		if o, ok := r.Msg.(*message.DownstreamOpenRequest); ok {
			i.alias = o.DesiredStreamIDAlias
			// aliases pre-registered with the open request are taken: a later announcement must not reuse them for another data id
			for al, id := range o.DataIDAliases {
				i.idAlias[dp.Tok(id)] = int(al)
				i.aliasUsed[fmt.Sprintf("d%d", al)] = id.Name
			}
		}
	}
	i.logPos = i.b.LogLen()
	return "ok"
}

func parseWire(gs string) []*message.DataPointGroup {
	res := []*message.DataPointGroup{}
	if gs == "_" {
		return res
	}
	for _, g := range strings.Split(gs, "|") {
		p := strings.SplitN(g, ":", 2)
		n, _ := strconv.Atoi(p[0][1:])
		var ref message.DataIDOrAlias
		if p[0][0] == 'I' {
			ref = dp.ID(n)
		} else {
			ref = message.DataIDAlias(n)
		}
		res = append(res, &message.DataPointGroup{DataIDOrAlias: ref, DataPoints: dp.ParsePoints(p[1])})
	}
	return res
}

type mergedAck struct {
	first, last uint32
	gap         bool
	up          map[int]int
	id          map[int]int
	res         []string
	n           int
}

// collectAcks waits until `wantRes` results and the expected announcements have been acknowledged (or the watchdog fires)
func (i *impl) collectAcks(h *lp.H, wantRes int, expectAny bool) string {
	m := mergedAck{up: map[int]int{}, id: map[int]int{}}
	before := i.lastAckID
	take := func() {
		recs := i.b.LogFrom(i.logPos)
		i.logPos += len(recs)
		for _, r := range recs {
			a, ok := r.Msg.(*message.DownstreamChunkAck)
			if !ok {
				continue
			}
			lostInFlight := a.AckID == i.lastAckID+2 && r.Inc != i.lastAckInc
			if m.n == 0 {
				m.first = a.AckID
				if lostInFlight {
					before++
				}
			} else if a.AckID != m.last+1 && !lostInFlight {
				m.gap = true
			}
			switch {
			case a.AckID == i.lastAckID+1:
			case lostInFlight:
				// one ack was on its way when the transport was cut: the broker never saw it (the client numbered it all the same)
				h.Count("ack-lost-in-flight-at-kill")
			default:
				h.Violate(fmt.Sprintf("ack ids do not increase strictly by one from 1: %d follows %d", a.AckID, i.lastAckID))
			}
			i.lastAckInc = r.Inc
			i.lastAckID = a.AckID
			m.last = a.AckID
			m.n++
			for al, info := range a.UpstreamAliases {
				m.up[int(al)] = upTok(info)
				if prev, ok := i.upAlias[upTok(info)]; ok && prev != int(al) {
					h.Violate(fmt.Sprintf("upstream %d received two aliases: %d and %d", upTok(info), prev, al))
				}
				i.upAlias[upTok(info)] = int(al)
				key := fmt.Sprintf("u%d", al)
				if prev, ok := i.aliasUsed[key]; ok && prev != info.StreamID.String() {
					h.Violate(fmt.Sprintf("upstream alias %d announced for two upstreams", al))
				}
				i.aliasUsed[key] = info.StreamID.String()
			}
			for al, id := range a.DataIDAliases {
				m.id[int(al)] = dp.Tok(id)
				if prev, ok := i.idAlias[dp.Tok(id)]; ok && prev != int(al) {
					h.Violate(fmt.Sprintf("data id %d received two aliases: %d and %d", dp.Tok(id), prev, al))
				}
				i.idAlias[dp.Tok(id)] = int(al)
				key := fmt.Sprintf("d%d", al)
				if prev, ok := i.aliasUsed[key]; ok && prev != id.Name {
					h.Violate(fmt.Sprintf("data id alias %d announced for two data ids", al))
				}
				i.aliasUsed[key] = id.Name
			}
			for _, r := range a.Results {
				k := fmt.Sprintf("%d:%d", upTokOfStream(r.StreamIDOfUpstream), r.SequenceNumberInUpstream)
				m.res = append(m.res, k)
				i.acked[k]++
			}
		}
	}
	if expectAny {
		waitUntil(func() bool { take(); return len(m.res) >= wantRes && m.n > 0 })
		time.Sleep(6 * time.Millisecond) // one more flush interval: late announcements of the same reads
		take()
	} else {
		time.Sleep(6 * time.Millisecond)
		take()
	}
	if m.n == 0 {
		return "[]"
	}
	pairs := func(mm map[int]int) string {
		ks := make([]int, 0, len(mm))
		for k := range mm {
			ks = append(ks, k)
		}
		sort.Ints(ks)
		s := make([]string, len(ks))
		for j, k := range ks {
			s[j] = fmt.Sprintf("%d=%d", k, mm[k])
		}
		return strings.Join(s, ",")
	}
	// how many acks carry this is the flush timer's business; what matters: ids continue strictly by one from the previous ack
	ids := "ok"
	if m.gap || m.first != before+1 {
		ids = fmt.Sprintf("%d-%d!gap-after-%d", m.first, m.last, before)
	}
	return fmt.Sprintf("[ids=%s up=[%s] id=[%s] res=[%s]]", ids, pairs(m.up), pairs(m.id), strings.Join(m.res, ","))
}

func (i *impl) exec(h *lp.H, op string) string {
	w := strings.Fields(op)
	if w[0] == "open" {
		if i.conn != nil {
			c, cancel := context.WithTimeout(context.Background(), 200*time.Millisecond)
			i.conn.Close(c)
			cancel()
		}
		*i = impl{}
		return i.open(w[1], w[2])
	}
	if i.down == nil {
		return "nostream"
	}
	ctx, cancel := context.WithTimeout(context.Background(), watchdog)
	defer cancel()
	switch w[0] {
	case "chunk":
		n, _ := strconv.Atoi(w[1][1:])
		var up message.UpstreamOrAlias
		if w[1][0] == 'U' {
			up = upInfo(n)
		} else {
			up = message.UpstreamAlias(n)
		}
		seq, _ := strconv.Atoi(w[2])
		i.b.Cur().Send(&message.DownstreamChunk{StreamIDAlias: i.alias, UpstreamOrAlias: up, StreamChunk: &message.StreamChunk{SequenceNumber: uint32(seq), DataPointGroups: parseWire(w[3])}, ExtensionFields: &message.DownstreamChunkExtensionFields{}})
		i.sent = append(i.sent, w[2]+"/"+w[1])
		if i.sentOps == nil {
			i.sentOps = map[string][]string{}
		}
		i.sentOps[w[2]] = append(i.sentOps[w[2]], w[1], w[3])
		return "ok"
	case "readn", "readnp":
		k, _ := strconv.Atoi(w[1])
		var outs []string
		okReads := 0
		anyFull := false
		for j := 0; j < k; j++ {
			var c *iscp.DownstreamChunk
			var err error
			polled := false
			if w[0] == "readnp" {
				// a consumer that polls: reads whose context has already ended come first. Such a read returns a chunk or the
				// context's error - it never takes a chunk and drops it
				for pp := 0; pp < 3 && !polled; pp++ {
					dead, cancelDead := context.WithDeadline(context.Background(), time.Now().Add(-time.Second))
					pc, perr := i.down.ReadDataPoints(dead)
					cancelDead()
					switch {
					case perr == nil:
						c, polled = pc, true
					case !errors.Is(perr, context.DeadlineExceeded) && !errors.Is(perr, context.Canceled):
						err, polled = perr, true // the chunk was taken and refused (e.g. an alias nobody announced): that is this read's result
					}
				}
			}
			if !polled {
				c, err = i.down.ReadDataPoints(ctx)
			}
			if err != nil {
				if err == context.DeadlineExceeded {
					i.starved = true
					outs = append(outs, "empty")
				} else {
					outs = append(outs, "err")
				}
				anyFull = true
				continue
			}
			okReads++
			// attribution, judged without the model: what the broker sent in full form must come back under exactly that identity
			if so := i.sentOps[strconv.Itoa(int(c.SequenceNumber))]; len(so) == 2 {
				if so[0][0] == 'U' && so[0][1:] != strconv.Itoa(upTok(c.UpstreamInfo)) {
					h.Violate(fmt.Sprintf("chunk %d was sent for upstream %s in full form and reached the reader attributed to upstream %d", c.SequenceNumber, so[0][1:], upTok(c.UpstreamInfo)))
				}
				gw := strings.Split(so[1], "|")
				if so[1] == "_" {
					gw = nil
				}
				if len(gw) == len(c.DataPointGroups) {
					for gi, g := range gw {
						if strings.HasPrefix(g, "I") {
							want := g[1:strings.Index(g, ":")]
							if got := strconv.Itoa(dp.Tok(c.DataPointGroups[gi].DataID)); got != want {
								h.Violate(fmt.Sprintf("chunk %d group %d was sent under data id %s in full form and reached the reader under data id %s", c.SequenceNumber, gi, want, got))
							}
						} else if strings.HasPrefix(g, "A") {
							// alias form: the reader must see exactly the data id the client itself announced (or pre-registered) under
							// that alias - judged from the announcements the broker received, not from the model
							al, _ := strconv.Atoi(g[1:strings.Index(g, ":")])
							announced := false
							for _, a := range i.idAlias {
								if a == al {
									announced = true
								}
							}
							if !announced && al >= 50 { // 50.. are the aliases the generator uses as never-announced ones
								h.Violate(fmt.Sprintf("chunk %d group %d was sent under data id alias %d, which the client never announced or pre-registered: the read must fail, it returned the chunk (group delivered under data id %q)", c.SequenceNumber, gi, al, c.DataPointGroups[gi].DataID.Name))
							}
							for tok, a := range i.idAlias {
								if a == al {
									if got := dp.Tok(c.DataPointGroups[gi].DataID); got != tok {
										h.Violate(fmt.Sprintf("chunk %d group %d was sent under data id alias %d, which the client announced for data id %d, and reached the reader under data id %d", c.SequenceNumber, gi, al, tok, got))
									}
								}
							}
						}
					}
				} else {
					h.Violate(fmt.Sprintf("chunk %d was sent with %d groups and reached the reader with %d", c.SequenceNumber, len(gw), len(c.DataPointGroups)))
				}
			}
			outs = append(outs, fmt.Sprintf("%d/%d/%s", c.SequenceNumber, upTok(c.UpstreamInfo), dp.ShowGroups(c.DataPointGroups)))
			i.returned = append(i.returned, fmt.Sprintf("%d:%d", upTok(c.UpstreamInfo), c.SequenceNumber))
		}
		acks := i.collectAcks(h, okReads, okReads > 0 || anyFull)
		return "reads=[" + strings.Join(outs, ";") + "] acks=" + acks
	case "meta":
		node, _ := strconv.Atoi(w[1])
		rid, _ := strconv.Atoi(w[2])
		i.b.Cur().Send(&message.DownstreamMetadata{StreamIDAlias: i.alias, SourceNodeID: "n" + strconv.Itoa(node), RequestID: message.RequestID(rid),
			Metadata: &message.BaseTime{Name: "b" + w[2]}, ExtensionFields: &message.DownstreamMetadataExtensionFields{}})
		return "ok"
	case "readmeta":
		m, err := i.down.ReadMetadata(ctx)
		if err != nil {
			return "empty"
		}
		bt := m.Metadata.(*message.BaseTime)
		rid := strings.TrimPrefix(bt.Name, "b")
		// the ack carries the request id the metadata came with
		ack := "none"
		i.b.WaitFor(func() bool {
			for _, r := range i.b.Log {
				if a, ok := r.Msg.(*message.DownstreamMetadataAck); ok && fmt.Sprint(uint32(a.RequestID)) == rid {
					ack = rid
					return true
				}
			}
			return false
		}, watchdog)
		return "meta " + strings.TrimPrefix(m.SourceNodeID, "n") + " " + rid + " ack=" + ack
	case "kill", "killconflict":
		if w[0] == "killconflict" {
			// the broker first answers the resume with "conflict" (the old session is still winding down), then accepts
			i.b.Lock()
			i.b.ResumeCodes = []message.ResultCode{message.ResultCodeResumeRequestConflict}
			i.b.Unlock()
		}
		old := i.b.Cur()
		ev0 := i.resumedEv
		old.Kill()
		okk := waitUntil(func() bool { return i.b.Cur() != old && i.resumedEv > ev0 })
		same := "other"
		for _, r := range i.b.LogFrom(0) {
			if rr, ok := r.Msg.(*message.DownstreamResumeRequest); ok && r.Inc == i.b.Cur().N {
				if rr.DesiredStreamIDAlias == i.alias && rr.StreamID == i.down.ID {
					same = "same"
				}
			}
		}
		if !okk {
			i.b.Lock()
			nInc, dials := len(i.b.Incs), i.b.Dials
			i.b.Unlock()
			var last []string
			lg := i.b.LogFrom(0)
			for k := len(lg) - 1; k >= 0 && len(last) < 6; k-- {
				last = append(last, fmt.Sprintf("%d:%T", lg[k].Inc, lg[k].Msg))
			}
			h.Extra["resume-incomplete"] = fmt.Sprintf("status=%d incs=%d dials=%d curIsOld=%v resumedEv=%d->%d last=%v", i.conn.VerifConnStatus(), nInc, dials, i.b.Cur() == old, ev0, i.resumedEv, last)
			return "resume-incomplete"
		}
		return "resumed alias=" + same
	case "close":
		err := i.down.Close(ctx)
		// order at the broker: the last ack strictly before the close request
		final := i.collectAcks(h, 0, false)
		order := "ack-before-close"
		seenClose := false
		for _, r := range i.b.LogFrom(0) {
			switch r.Msg.(type) {
			case *message.DownstreamCloseRequest:
				seenClose = true
			case *message.DownstreamChunkAck:
				if seenClose {
					order = "bad-order"
				}
			}
		}
		if !seenClose {
			order = "no-close-request"
		}
		res := "ok"
		if err != nil {
			res = "err"
		}
		return "final=" + final + " close=" + res + " order=" + order
	}
	return "bad-op"
}

func (i *impl) oracle(h *lp.H) {
	// every returned chunk acknowledged exactly once
	for _, k := range i.returned {
		if i.acked[k] != 1 {
			h.Violate(fmt.Sprintf("chunk %s was returned by ReadDataPoints and acknowledged %d times", k, i.acked[k]))
		}
	}
	for k, n := range i.acked {
		found := false
		for _, r := range i.returned {
			if r == k {
				found = true
			}
		}
		if !found {
			h.Violate(fmt.Sprintf("chunk %s acknowledged %d time(s) but never returned", k, n))
		}
	}
	// every upstream that reached the reader was announced under an alias (exactly once: duplicates are flagged when collected)
	for _, k := range i.returned {
		var up int
		fmt.Sscanf(k, "%d:", &up)
		if _, ok := i.upAlias[up]; !ok && i.acked[k] > 0 {
			h.Violate(fmt.Sprintf("upstream %d reached the reader (chunk %s, acknowledged) but was never announced under an alias", up, k))
		}
	}
}

// lateAck (oracle only): a downstream whose acknowledgements are flushed rarely (10 s) survives an outage, consumes n chunks and is
// closed: the final acknowledgement, with all n results, must reach the broker before the close request.
// metaBurst: two filters of one downstream name the same source node (and a third another node); bursts of metadata for both
// nodes; the reader must get every item once and, per source node, in the order the broker sent them
func metaBurst(h *lp.H) {
	b := broker.New()
	b.Register()
	conn, err := iscp.Connect("mem", broker.TransportName, iscp.WithConnPingInterval(time.Hour), iscp.WithConnPingTimeout(time.Hour))
	if err != nil {
		h.Violate("metaburst: cannot connect")
		return
	}
	defer func() {
		c, cancel := context.WithTimeout(context.Background(), 300*time.Millisecond)
		conn.Close(c)
		cancel()
	}()
	ctx, cancel := context.WithTimeout(context.Background(), 20*time.Second)
	defer cancel()
	d, err := conn.OpenDownstream(ctx, []*message.DownstreamFilter{
		{SourceNodeID: "n0", DataFilters: []*message.DataFilter{{Name: "a", Type: "#"}}},
		{SourceNodeID: "n0", DataFilters: []*message.DataFilter{{Name: "b", Type: "#"}}},
		{SourceNodeID: "n1", DataFilters: []*message.DataFilter{{Name: "#", Type: "#"}}}}, iscp.WithDownstreamQoS(message.QoSReliable))
	if err != nil {
		h.Violate("metaburst: cannot open a downstream with two filters for one source node: " + err.Error())
		return
	}
	var alias uint32 = 1
	b.Lock()
	if ds := b.Downs[d.ID]; ds != nil {
		alias = ds.Alias
	}
	b.Unlock()
	rid := 1
	for round := 0; round < 3; round++ {
		next := map[string]int{"n0": 0, "n1": 0}
		total := 0
		for k := 0; k < 400; k++ {
			nodes := []string{"n0"}
			if k%4 == 0 {
				nodes = append(nodes, "n1")
			}
			for _, node := range nodes {
				rid++
				total++
				b.Cur().Send(&message.DownstreamMetadata{StreamIDAlias: alias, SourceNodeID: node, RequestID: message.RequestID(rid),
					Metadata: &message.BaseTime{Name: fmt.Sprintf("%s/%d", node, k)}, ExtensionFields: &message.DownstreamMetadataExtensionFields{}})
			}
		}
		for j := 0; j < total; j++ {
			rctx, rc := context.WithTimeout(ctx, watchdog)
			m, err := d.ReadMetadata(rctx)
			rc()
			if err != nil {
				h.Violate(fmt.Sprintf("metaburst round %d: only %d of %d metadata items reached the reader: %v", round, j, total, err))
				return
			}
			bt, ok := m.Metadata.(*message.BaseTime)
			if !ok {
				continue
			}
			p := strings.SplitN(bt.Name, "/", 2)
			k, _ := strconv.Atoi(p[1])
			if p[0] != m.SourceNodeID {
				h.Violate(fmt.Sprintf("metaburst: an item sent for node %s reached the reader attributed to node %s", p[0], m.SourceNodeID))
				return
			}
			want := next[p[0]]
			for p[0] == "n1" && want%4 != 0 {
				want++
			}
			if k != want {
				h.Violate(fmt.Sprintf("metaburst round %d: metadata of source node %s out of order or not exactly once: item #%d delivered where #%d was due", round, p[0], k, want))
				return
			}
			next[p[0]] = k + 1
		}
	}
	h.Count("metaburst:items-1500")
}

// qosMix: a transport that also has a datagram channel; a reliable, an unreliable and a partial downstream side by side. What
// the broker sends on the reliable channel (reliable and partial streams) and as datagrams (unreliable stream) reaches each
// stream's reader once and in order.
func qosMix(h *lp.H) {
	b := broker.New()
	b.Datagrams = true
	b.Register()
	conn, err := iscp.Connect("mem", broker.TransportName, iscp.WithConnPingInterval(time.Hour), iscp.WithConnPingTimeout(time.Hour))
	if err != nil {
		h.Violate("qosmix: cannot connect over a transport with a datagram channel: " + err.Error())
		return
	}
	defer func() {
		c, cancel := context.WithTimeout(context.Background(), 300*time.Millisecond)
		conn.Close(c)
		cancel()
	}()
	ctx, cancel := context.WithTimeout(context.Background(), 10*time.Second)
	defer cancel()
	for _, q := range []message.QoS{message.QoSReliable, message.QoSUnreliable, message.QoSPartial} {
		d, err := conn.OpenDownstream(ctx, []*message.DownstreamFilter{{SourceNodeID: "n0", DataFilters: []*message.DataFilter{{Name: "#", Type: "#"}}}}, iscp.WithDownstreamQoS(q))
		if err != nil {
			h.Violate(fmt.Sprintf("qosmix: cannot open a downstream with QoS %v: %v", q, err))
			return
		}
		var alias uint32
		b.Lock()
		if ds := b.Downs[d.ID]; ds != nil {
			alias = ds.Alias
		}
		b.Unlock()
		for k := 1; k <= 5; k++ {
			c := &message.DownstreamChunk{StreamIDAlias: alias, UpstreamOrAlias: upInfo(1), StreamChunk: &message.StreamChunk{SequenceNumber: uint32(k),
				DataPointGroups: []*message.DataPointGroup{{DataIDOrAlias: dp.ID(1), DataPoints: dp.ParsePoints(fmt.Sprintf("%d/0%d", k, k))}}}, ExtensionFields: &message.DownstreamChunkExtensionFields{}}
			if q == message.QoSUnreliable {
				b.Cur().Dgram.Write(c)
			} else {
				b.Cur().Send(c)
			}
		}
		for k := 1; k <= 5; k++ {
			rctx, rc := context.WithTimeout(ctx, watchdog)
			c, err := d.ReadDataPoints(rctx)
			rc()
			if err != nil {
				h.Violate(fmt.Sprintf("qosmix: QoS %v downstream on a transport with a datagram channel: chunk %d of 5 sent by the broker never reached the reader: %v", q, k, err))
				return
			}
			if int(c.SequenceNumber) != k {
				h.Violate(fmt.Sprintf("qosmix: QoS %v downstream: chunk %d delivered where chunk %d was due", q, c.SequenceNumber, k))
				return
			}
		}
	}
	h.Count("qosmix:streams-3")
}

func lateAck(h *lp.H, n int) {
	b := broker.New()
	b.Auto["downack"] = true
	b.Register()
	conn, err := iscp.Connect("mem", broker.TransportName, iscp.WithConnPingInterval(20*time.Millisecond), iscp.WithConnPingTimeout(400*time.Millisecond))
	if err != nil {
		h.Violate("lateack: cannot connect")
		return
	}
	defer func() {
		c, cancel := context.WithTimeout(context.Background(), 300*time.Millisecond)
		conn.Close(c)
		cancel()
	}()
	resumed := make(chan struct{}, 4)
	ctx, cancel := context.WithTimeout(context.Background(), 10*time.Second)
	defer cancel()
	d, err := conn.OpenDownstream(ctx, []*message.DownstreamFilter{{SourceNodeID: "n0", DataFilters: []*message.DataFilter{{Name: "#", Type: "#"}}}},
		iscp.WithDownstreamQoS(message.QoSReliable), iscp.WithDownstreamAckFlushInterval(10*time.Second),
		iscp.WithDownstreamResumedEventHandler(iscp.DownstreamResumedEventHandlerFunc(func(*iscp.DownstreamResumedEvent) { resumed <- struct{}{} })))
	if err != nil {
		h.Violate("lateack: cannot open a downstream: " + err.Error())
		return
	}
	var alias uint32 = 1
	b.Lock()
	if ds := b.Downs[d.ID]; ds != nil {
		alias = ds.Alias
	}
	b.Unlock()
	b.Cur().Kill()
	select {
	case <-resumed:
	case <-time.After(watchdog):
		h.Violate("lateack: the downstream did not resume after the outage")
		return
	}
	for k := 1; k <= n; k++ {
		b.Cur().Send(&message.DownstreamChunk{StreamIDAlias: alias, UpstreamOrAlias: upInfo(1), StreamChunk: &message.StreamChunk{SequenceNumber: uint32(k),
			DataPointGroups: []*message.DataPointGroup{{DataIDOrAlias: dp.ID(1), DataPoints: dp.ParsePoints("1/01")}}}, ExtensionFields: &message.DownstreamChunkExtensionFields{}})
	}
	for k := 1; k <= n; k++ {
		if _, err := d.ReadDataPoints(ctx); err != nil {
			h.Violate(fmt.Sprintf("lateack: chunk %d of %d did not reach the reader after the resume: %v", k, n, err))
			return
		}
	}
	cctx, ccancel := context.WithTimeout(context.Background(), 2*time.Second)
	err = d.Close(cctx)
	ccancel()
	if err != nil {
		h.Violate("lateack: Close failed: " + err.Error())
		return
	}
	results, order := 0, "no-close-request"
	for _, r := range b.LogFrom(0) {
		switch m := r.Msg.(type) {
		case *message.DownstreamChunkAck:
			if order == "no-close-request" {
				results += len(m.Results)
			} else {
				order = "ack-after-close"
			}
		case *message.DownstreamCloseRequest:
			if order == "no-close-request" {
				order = "closed"
			}
		}
	}
	if order != "closed" || results != n {
		h.Violate(fmt.Sprintf("after an outage and resume, %d chunks were consumed and the stream closed: %d results were acknowledged before the close request (%s)", n, results, order))
	}
}

func main() {
	h := lp.New()
	defer h.Finish()
	im := &impl{}
	do := func(op string) string {
		out := im.exec(h, op)
		h.Op(op, out)
		return out
	}
	if h.Replay != "" {
		for _, l := range lp.ReadOps(h.Replay) {
			if strings.HasPrefix(l, "#") {
				h.Case(strings.TrimPrefix(l, "# case "))
				continue
			}
			do(l)
		}
		return
	}
	rng := h.Rng
	for c := 0; c < h.N; c++ {
		qos := []string{"r", "u", "p"}[rng.Intn(3)]
		pre := "_"
		idAliasKnown := map[int]int{} // what the generator believes the client announced (only to generate alias-form inputs)
		nextID := 1
		if rng.Intn(3) == 0 {
			pre = "1,2"
			idAliasKnown[1], idAliasKnown[2] = 1, 2
			nextID = 3
		}
		upAliasKnown := map[int]int{}
		nextUp := 1
		h.Case(fmt.Sprintf("down %d qos=%s pre=%s", c, qos, pre))
		if out := do(fmt.Sprintf("open %s %s", qos, pre)); out != "ok" {
			h.Violate("cannot open a downstream: " + out)
			continue
		}
		pending := 0
		seq := 0
		sig := ""
		var pendingInfo []struct {
			up  int
			ids []int
			ok  bool
		}
		nops := 5 + rng.Intn(20)
		for s := 0; s < nops; s++ {
			switch k := rng.Intn(10); {
			case k < 5: // a chunk: upstream in full or alias form, data ids in full or alias form, sometimes an alias never announced
				u := 1 + rng.Intn(3)
				seq++
				upRef := fmt.Sprintf("U%d", u)
				willErr := false
				if a, ok := upAliasKnown[u]; ok && rng.Intn(3) != 0 {
					upRef = fmt.Sprintf("A%d", a)
				} else if rng.Intn(12) == 0 {
					upRef = fmt.Sprintf("A%d", 40+rng.Intn(5)) // never announced
					willErr = true
				}
				upErr := willErr
				var gs []string
				var fullIDs []int
				for g := rng.Intn(3); g >= 0; g-- {
					id := 1 + rng.Intn(4)
					ref := fmt.Sprintf("I%d", id)
					if a, ok := idAliasKnown[id]; ok && rng.Intn(3) != 0 {
						ref = fmt.Sprintf("A%d", a)
					} else if rng.Intn(15) == 0 {
						ref = fmt.Sprintf("A%d", 50+rng.Intn(5))
						willErr = true
					} else {
						fullIDs = append(fullIDs, id)
					}
					var pts []string
					for p := rng.Intn(3); p > 0; p-- {
						b := make([]byte, rng.Intn(4))
						rng.Read(b)
						pts = append(pts, fmt.Sprintf("%d/%s", rng.Intn(1000), lp.Hex(b)))
					}
					gs = append(gs, ref+":"+strings.Join(pts, ";"))
				}
				if rng.Intn(8) == 0 { // a chunk that carries a sequence number and no data point group
					gs, fullIDs = nil, nil
					willErr = upErr
				}
				gw := strings.Join(gs, "|")
				if len(gs) == 0 {
					gw = "_"
				}
				do(fmt.Sprintf("chunk %s %d %s", upRef, seq, gw))
				pending++
				up := 0
				if upRef[0] == 'U' {
					up = u
				}
				pendingInfo = append(pendingInfo, struct {
					up  int
					ids []int
					ok  bool
				}{up, fullIDs, !willErr})
				sig += "c"
			case k < 8 && pending > 0: // the consumer reads some of what arrived
				n := 1 + rng.Intn(pending)
				out := do(fmt.Sprintf("%s %d", []string{"readn", "readnp"}[rng.Intn(2)], n))
				// learn which aliases the client has announced by now (generation only)
				for j := 0; j < n; j++ {
					pi := pendingInfo[j]
					if pi.up != 0 {
						if _, ok := upAliasKnown[pi.up]; !ok {
							upAliasKnown[pi.up] = nextUp
							nextUp++
						}
					}
					for _, id := range pi.ids {
						if _, ok := idAliasKnown[id]; !ok {
							idAliasKnown[id] = nextID
							nextID++
						}
					}
				}
				pendingInfo = pendingInfo[n:]
				pending -= n
				_ = out
				sig += "r"
			case k == 8:
				node := rng.Intn(2)
				rid := 100 + s
				do(fmt.Sprintf("meta %d %d", node, rid))
				do("readmeta")
				sig += "m"
			default:
				// a transport failure while nothing is in flight towards the consumer (chunks still travelling through the old
				// connection's queues at that moment are the broker's to resend, not the client's to keep)
				if rng.Intn(3) == 0 && pending == 0 {
					do([]string{"kill", "kill", "killconflict"}[rng.Intn(3)])
					sig += "K"
				}
			}
		}
		if pending > 0 {
			do(fmt.Sprintf("readn %d", pending))
		}
		out := do("close")
		if !strings.Contains(out, "order=ack-before-close") {
			h.Violate("the last acknowledgements were not sent before the close request: " + out)
		}
		im.oracle(h)
		if h.Distinct(fmt.Sprintf("%s/%s/%s", qos, pre, sig)) && strings.Count(sig, "r") >= 2 {
			h.Sample()
		}
	}
	for k := 0; k < 2 && !h.TooMany(); k++ {
		h.Case(fmt.Sprintf("lateack %d", k))
		if im.conn != nil {
			c, cancel := context.WithTimeout(context.Background(), 200*time.Millisecond)
			im.conn.Close(c)
			cancel()
			im.conn, im.down = nil, nil
		}
		lateAck(h, 30+270*k)
		h.Op(fmt.Sprintf("scenario lateack %d", k), "-")
		h.Distinct(fmt.Sprintf("lateack/%d", k))
	}
	if !h.TooMany() {
		h.Case("metaburst")
		metaBurst(h)
		h.Op("scenario metaburst", "-")
		h.Distinct("metaburst")
		h.Case("qosmix")
		qosMix(h)
		h.Op("scenario qosmix", "-")
		h.Distinct("qosmix")
	}
}
