// Correspondence harness for C19: a real multi.Transport over scripted member transports, driven by an event
// scheduler the harness controls (or by the real pollers), against the Lean model (topic `multi`).
package main

import (
	"errors"
	"fmt"
	"sort"
	"strconv"
	"strings"
	"sync"
	"sync/atomic"
	"time"

	"github.com/aptpod/iscp-go/transport"
	"github.com/aptpod/iscp-go/transport/multi"
	"verif.local/harness/lp"
)

type member struct {
	id     int
	n      int // group size
	in     chan []byte
	mu     sync.Mutex
	log    [][]byte
	tx, rx uint64
	closed int32
	done   chan struct{}
	once   sync.Once
	asun   int32
	np     int32
	closeErr int32
	gate     chan struct{} // when set: the next Write parks here (holding the multi transport's read lock)
	entered  chan struct{}
}

func (m *member) Read() ([]byte, error) {
	select {
	case b := <-m.in:
		atomic.AddUint64(&m.rx, uint64(len(b)))
		return b, nil
	case <-m.done:
		return nil, transport.ErrAlreadyClosed
	}
}
func (m *member) Write(b []byte) error {
	m.mu.Lock()
	if g := m.gate; g != nil {
		m.gate = nil
		ent := m.entered
		m.mu.Unlock()
		close(ent)
		<-g
		m.mu.Lock()
	}
	m.log = append(m.log, append([]byte(nil), b...))
	m.mu.Unlock()
	atomic.AddUint64(&m.tx, uint64(len(b)))
	return nil
}
func (m *member) Close() error {
	atomic.StoreInt32(&m.closed, 1)
	m.once.Do(func() { close(m.done) })
	if atomic.LoadInt32(&m.closeErr) == 1 {
		return errors.New("scripted close error")
	}
	return nil
}
func (m *member) RxBytesCounterValue() uint64 { return atomic.LoadUint64(&m.rx) }
func (m *member) TxBytesCounterValue() uint64 { return atomic.LoadUint64(&m.tx) }
func (m *member) AsUnreliable() (transport.UnreliableTransport, bool) {
	atomic.AddInt32(&m.asun, 1)
	return nil, false
}
func (m *member) NegotiationParams() transport.NegotiationParams {
	atomic.AddInt32(&m.np, 1)
	return transport.NegotiationParams{TransportID: tid(m.id), TransportGroupID: "g", TransportGroupTotalCount: m.n}
}
func (m *member) Name() transport.Name { return "scripted" }

func tid(n int) transport.TransportID {
	if n == 0 {
		return ""
	}
	return transport.TransportID("t" + strconv.Itoa(n))
}
func untid(t transport.TransportID) int {
	if t == "" {
		return 0
	}
	n, _ := strconv.Atoi(strings.TrimPrefix(string(t), "t"))
	return n
}

const watchdog = 3 * time.Second

type rd struct {
	b   []byte
	err error
}

type nicListener struct{ ch chan string }

func (n *nicListener) Subscribe() <-chan string { return n.ch }

type impl struct {
	nic      *nicListener
	dangling chan rd // a Read started by `readnone` that has not returned yet
	tr      *multi.Transport
	members map[int]*member
	lu      *multi.LastUsedPoller
	rr      *multi.RoundRobinPoller
}

func parseIDs(s string) []int {
	if s == "_" {
		return nil
	}
	var r []int
	for _, x := range strings.Split(s, ",") {
		n, _ := strconv.Atoi(x)
		r = append(r, n)
	}
	return r
}

func guard(f func() string) (out string) {
	done := make(chan string, 1)
	go func() {
		defer func() {
			if r := recover(); r != nil {
				done <- "crash"
			}
		}()
		done <- f()
	}()
	select {
	case s := <-done:
		return s
	case <-time.After(watchdog):
		return "hang"
	}
}

// readOne performs one Read, reusing a still-blocked Read left behind by `readnone`.
func (i *impl) readOne(d time.Duration) (rd, bool) {
	if i.dangling == nil {
		ch := make(chan rd, 1)
		tr := i.tr
		go func() { b, err := tr.Read(); ch <- rd{b, err} }()
		i.dangling = ch
	}
	select {
	case r := <-i.dangling:
		i.dangling = nil
		return r, true
	case <-time.After(d):
		return rd{}, false
	}
}

func (i *impl) newT(initial int, ids []int, polling bool) string {
	i.dangling = nil
	if i.tr != nil {
		i.tr.Close()
		i.tr = nil
	}
	i.members = map[int]*member{}
	tm := multi.TransportMap{}
	for _, id := range ids {
		m := &member{id: id, n: len(ids), in: make(chan []byte, 4096), done: make(chan struct{})}
		i.members[id] = m
		tm[tid(id)] = m
	}
	cfg := multi.TransportConfig{TransportMap: tm, InitialTransportID: tid(initial)}
	if polling {
		i.lu = multi.NewLastReadPoller()
		cfg.SchedulerMode = multi.SchedulerModePolling
		cfg.PollingScheduler = &multi.PollingScheduler{Poller: i.lu, Interval: time.Hour}
	} else {
		// the shipped NIC event subscriber: NIC name -> transport id; nic0 is unknown to the map (-> empty id), nic5/nic6 map to foreign ids
		i.nic = &nicListener{ch: make(chan string)}
		nm := map[string]transport.TransportID{}
		for k := 1; k <= 6; k++ {
			nm["nic"+strconv.Itoa(k)] = tid(k)
		}
		cfg.SchedulerMode = multi.SchedulerModeEvent
		cfg.EventScheduler = &multi.EventScheduler{Subscriber: &multi.NICEventSubscriber{NICManager: i.nic, NICTransportID: nm}}
	}
	return guard(func() string {
		t, err := multi.NewTransport(cfg)
		if err != nil {
			return "err"
		}
		i.tr = t
		return "ok"
	})
}

func (i *impl) routedTo(before map[int]int, field string) string {
	var hit []int
	for id, m := range i.members {
		var now int
		switch field {
		case "log":
			m.mu.Lock()
			now = len(m.log)
			m.mu.Unlock()
		case "asun":
			now = int(atomic.LoadInt32(&m.asun))
		case "np":
			now = int(atomic.LoadInt32(&m.np))
		}
		if now != before[id] {
			hit = append(hit, id)
		}
	}
	if len(hit) != 1 {
		return fmt.Sprintf("routed-to-%d-members", len(hit))
	}
	return "routed " + strconv.Itoa(hit[0])
}

func (i *impl) snapshot(field string) map[int]int {
	r := map[int]int{}
	for id, m := range i.members {
		switch field {
		case "log":
			m.mu.Lock()
			r[id] = len(m.log)
			m.mu.Unlock()
		case "asun":
			r[id] = int(atomic.LoadInt32(&m.asun))
		case "np":
			r[id] = int(atomic.LoadInt32(&m.np))
		}
	}
	return r
}

func (i *impl) exec(op string) string {
	w := strings.Fields(op)
	n := func(k int) int { v, _ := strconv.Atoi(w[k]); return v }
	switch w[0] {
	case "new":
		return i.newT(n(1), parseIDs(w[2]), false)
	case "newpoll":
		return i.newT(n(1), parseIDs(w[2]), true)
	case "rrnew":
		ids := []transport.TransportID{}
		for _, x := range parseIDs(w[1]) {
			ids = append(ids, tid(x))
		}
		i.rr = multi.NewRoundRobinPoller(ids)
		return "ok"
	case "rrget":
		return guard(func() string { return "id " + strconv.Itoa(untid(i.rr.Get())) })
	}
	if i.tr == nil {
		return "nosuch"
	}
	switch w[0] {
	case "select":
		// the id travels through two forwarding goroutines before transportIDLoop applies it under the lock;
		// four identical sends guarantee the first has been applied (applying an id is idempotent)
		return guard(func() string {
			for k := 0; k < 8; k++ {
				i.nic.ch <- "nic" + w[1]
			}
			return "ok"
		})
	case "burstselect":
		// a Write is parked inside the current member (so the transport's read lock is held and transportIDLoop cannot
		// apply anything); a burst of NIC events arrives meanwhile; then the write completes.  Every event must still be
		// applied, in order: the last one wins.
		ids := parseIDs(w[1])
		var cur *member
		for _, m := range i.members {
			cur = m
			_ = cur
		}
		before := i.snapshot("log")
		// arm the gate on every member (only the current one will be written to)
		gate := make(chan struct{})
		entered := make(chan struct{})
		var once sync.Once
		for _, m := range i.members {
			m.mu.Lock()
			m.gate, m.entered = gate, make(chan struct{})
			ent := m.entered
			m.mu.Unlock()
			go func() { <-ent; once.Do(func() { close(entered) }) }()
		}
		wres := make(chan string, 1)
		go func() { wres <- guard(func() string { i.tr.Write([]byte{0x77}); return "w" }) }()
		select {
		case <-entered:
		case <-time.After(watchdog):
			close(gate)
			return "hang"
		}
		sent := make(chan struct{})
		go func() {
			for _, id := range ids {
				i.nic.ch <- "nic" + strconv.Itoa(id)
			}
			close(sent)
		}()
		time.Sleep(5 * time.Millisecond)
		close(gate)
		for _, m := range i.members { // disarm unused gates
			m.mu.Lock()
			m.gate = nil
			m.mu.Unlock()
		}
		select {
		case <-sent:
		case <-time.After(watchdog):
			return "hang"
		}
		if r := <-wres; r != "w" {
			return r
		}
		// barrier: ids that are no members travel the same pipeline and are ignored
		for k := 0; k < 8; k++ {
			i.nic.ch <- "nic0"
		}
		return i.routedTo(before, "log")
	case "closeerr":
		if m, ok := i.members[n(1)]; ok {
			atomic.StoreInt32(&m.closeErr, 1)
		}
		return "ok"
	case "write":
		b := lp.UnHex(w[1])
		before := i.snapshot("log")
		return guard(func() string {
			if err := i.tr.Write(b); err != nil {
				return "err"
			}
			return i.routedTo(before, "log")
		})
	case "asun":
		before := i.snapshot("asun")
		return guard(func() string { i.tr.AsUnreliable(); return i.routedTo(before, "asun") })
	case "np":
		before := i.snapshot("np")
		return guard(func() string { i.tr.NegotiationParams(); return i.routedTo(before, "np") })
	case "mread":
		m, ok := i.members[n(1)]
		if !ok {
			return "ok"
		}
		m.in <- lp.UnHex(w[2])
		// wait until the member's read goroutine has taken it (its rx counter moves before the hand-over to the merge queue)
		want := atomic.LoadUint64(&m.rx) + uint64(len(lp.UnHex(w[2])))
		for t := time.Now(); atomic.LoadUint64(&m.rx) < want && time.Since(t) < watchdog; {
			time.Sleep(50 * time.Microsecond)
		}
		return "ok"
	case "mburst": // n messages arrive on member m faster than anybody reads
		m, ok := i.members[n(1)]
		if !ok {
			return "ok"
		}
		for k := 0; k < n(2); k++ {
			m.in <- []byte{byte(n(1)), byte(k), byte(k >> 8)}
		}
		return "ok"
	case "readall":
		var got []string
		for k := 0; k < n(1); k++ {
			r, ok := i.readOne(watchdog)
			if !ok {
				return "hang"
			}
			if r.err != nil {
				got = append(got, "<err>")
				continue
			}
			got = append(got, strconv.Itoa(int(r.b[0]))+":"+lp.Hex(r.b))
		}
		sort.Strings(got)
		return "got " + strings.Join(got, ",")
	case "readnone":
		r, ok := i.readOne(30 * time.Millisecond)
		if !ok {
			return "empty"
		}
		if r.err != nil {
			return "err"
		}
		return "msg " + strconv.Itoa(int(r.b[0])) + " " + lp.Hex(r.b)
	case "close":
		return guard(func() string {
			i.tr.Close()
			var c []int
			for id, m := range i.members {
				if atomic.LoadInt32(&m.closed) == 1 {
					c = append(c, id)
				}
			}
			sort.Ints(c)
			s := make([]string, len(c))
			for k, v := range c {
				s[k] = strconv.Itoa(v)
			}
			return "closed " + strings.Join(s, ",")
		})
	case "counters":
		return guard(func() string { return fmt.Sprintf("counters %d %d", i.tr.TxBytesCounterValue(), i.tr.RxBytesCounterValue()) })
	case "luget":
		return guard(func() string { return "id " + strconv.Itoa(untid(i.lu.Get())) })
	}
	return "bad-op"
}

func main() {
	h := lp.New()
	defer h.Finish()
	im := &impl{}
	do := func(op string) string {
		out := im.exec(op)
		h.Op(op, out)
		switch out {
		case "crash":
			h.Violate("multi-transport panicked (missing member dereferenced) on: " + op)
		case "hang":
			h.Violate("multi-transport call did not return on: " + op)
		}
		return out
	}
	if h.Replay != "" {
		for _, l := range lp.ReadOps(h.Replay) {
			if strings.HasPrefix(l, "#") {
				h.Case(strings.TrimPrefix(l, "# case "))
				continue
			}
			do(l)
		}
		return
	}
	rng := h.Rng
	idsStr := func(ids []int) string {
		if len(ids) == 0 {
			return "_"
		}
		s := make([]string, len(ids))
		for k, v := range ids {
			s[k] = strconv.Itoa(v)
		}
		return strings.Join(s, ",")
	}
	// every member set of size <= 4 over ids 1..4 x every initial id in 0..5
	var sets [][]int
	for mask := 0; mask < 16; mask++ {
		var s []int
		for b := 0; b < 4; b++ {
			if mask&(1<<b) != 0 {
				s = append(s, b+1)
			}
		}
		sets = append(sets, s)
	}
	caseNo := 0
	for _, set := range sets {
		for initial := 0; initial <= 5; initial++ {
			reps := 1
			if h.Tier == "thorough" {
				reps = 4
			}
			for r := 0; r < reps; r++ {
				caseNo++
				h.Case(fmt.Sprintf("evt %d members=%v initial=%d", caseNo, set, initial))
				out := do(fmt.Sprintf("new %d %s", initial, idsStr(set)))
				inSet := false
				for _, m := range set {
					if m == initial {
						inSet = true
					}
				}
				if out == "ok" && !inSet {
					// configuration naming a non-member: must be rejected, or at least never crash later
					h.Count("gen:initial-not-member-accepted")
				}
				if out != "ok" {
					continue
				}
				current := initial
				pending := 0
				seq := map[int]int{}
				lastSeen := map[int]int{}
				sig := ""
				for s := 0; s < 6+rng.Intn(14); s++ {
					switch k := rng.Intn(10); {
					case k < 3: // scheduler selection incl. foreign and empty ids
						id := rng.Intn(7) // 0 = empty id, 5,6 = foreign
						do(fmt.Sprintf("select %d", id))
						for _, m := range set {
							if m == id {
								current = id
							}
						}
						sig += "s"
					case k < 6:
						b := []byte{byte(rng.Intn(256)), byte(s)}
						out := do("write " + lp.Hex(b[:1+rng.Intn(2)]))
						if out != fmt.Sprintf("routed %d", current) && out != "crash" {
							h.Violate(fmt.Sprintf("write went to %s, selected member is %d", out, current))
						}
						sig += "w"
					case k == 6 && rng.Intn(2) == 0 && len(set) >= 2:
						var ids []int
						for j := 0; j < 4+rng.Intn(5); j++ {
							ids = append(ids, set[rng.Intn(len(set))])
						}
						out := do("burstselect " + idsStr(ids))
						if out != fmt.Sprintf("routed %d", current) {
							h.Violate(fmt.Sprintf("write went to %s, selected member is %d", out, current))
						}
						current = ids[len(ids)-1]
						if o := do("write 55"); o != fmt.Sprintf("routed %d", current) {
							h.Violate(fmt.Sprintf("after a burst of scheduler events ending in %d the write went to: %s", current, o))
						}
						sig += "B"
					case k == 6:
						do([]string{"asun", "np"}[rng.Intn(2)])
						sig += "d"
					case k < 9 && len(set) > 0:
						m := set[rng.Intn(len(set))]
						seq[m]++
						do(fmt.Sprintf("mread %d %s", m, lp.Hex([]byte{byte(m), byte(seq[m])})))
						pending++
						sig += "m"
					default:
						if pending == 0 {
							do("readnone")
						} else {
							k := 1 + rng.Intn(pending)
							out := do(fmt.Sprintf("readall %d", k))
							pending -= k
							_ = out
						}
						sig += "r"
					}
				}
				if pending > 0 {
					do(fmt.Sprintf("readall %d", pending))
				}
				_ = lastSeen
				do("readnone")
				do("counters")
				if len(set) >= 2 && rng.Intn(2) == 0 {
					do(fmt.Sprintf("closeerr %d", set[rng.Intn(len(set))])) // a member whose Close reports an error
				}
				out = do("close")
				if out != "closed "+idsStr(set) {
					h.Violate("Close did not close every member: " + out)
				}
				if h.Distinct(fmt.Sprintf("evt/%v/%d/%s", set, initial, sig)) && len(set) >= 2 {
					h.Sample()
				}
			}
		}
	}
	// per-member order through the merge (single reader, one message at a time per member burst)
	for c := 0; c < h.N/4+1; c++ {
		h.Case(fmt.Sprintf("order %d", c))
		do("new 1 1,2,3")
		want := map[int][]int{}
		total := 0
		for k := 0; k < 5+rng.Intn(20); k++ {
			m := 1 + rng.Intn(3)
			want[m] = append(want[m], k)
			do(fmt.Sprintf("mread %d %s", m, lp.Hex([]byte{byte(m), byte(k)})))
			total++
		}
		// read one by one on the implementation and check per-member order + exactly once (oracle only)
		got := map[int][]int{}
		for k := 0; k < total; k++ {
			r, ok := im.readOne(watchdog)
			if !ok || r.err != nil {
				h.Violate("Read failed or blocked while member data is pending")
				break
			}
			b := r.b
			got[int(b[0])] = append(got[int(b[0])], int(b[1]))
		}
		for m, w := range want {
			if fmt.Sprint(got[m]) != fmt.Sprint(w) {
				h.Violate(fmt.Sprintf("member %d: messages %v were read as %v (lost, duplicated or reordered)", m, w, got[m]))
			}
		}
		// keep the model in step
		h.Op(fmt.Sprintf("readall %d", total), func() string {
			var l []string
			for m, ks := range got {
				for _, k := range ks {
					l = append(l, strconv.Itoa(m)+":"+lp.Hex([]byte{byte(m), byte(k)}))
				}
			}
			sort.Strings(l)
			return "got " + strings.Join(l, ",")
		}())
		do("close")
		h.Distinct(fmt.Sprintf("order/%v", want))
	}
	// volume: more messages taken from the members than the merge queue holds before anybody reads; every one is returned once
	h.Case("volume")
	do("new 1 1,2")
	do("mburst 1 700")
	do("mburst 2 700")
	if out := do("readall 1400"); strings.Count(out, ",") != 1399 || strings.Contains(out, "<") {
		h.Violate("1400 messages arrived on two members before the first Read; Read did not return every one of them once: " + out[:min(len(out), 200)])
	}
	do("close")
	h.Distinct("volume")
	// pollers
	for c := 0; c < 20; c++ {
		h.Case(fmt.Sprintf("rr %d", c))
		n := rng.Intn(5)
		var ids []int
		for k := 0; k < n; k++ {
			ids = append(ids, 1+rng.Intn(4))
		}
		do("rrnew " + idsStr(ids))
		for k := 0; k < 2*n+2; k++ {
			do("rrget")
		}
		h.Distinct("rr/" + idsStr(ids))
	}
	for c := 0; c < 10; c++ {
		h.Case(fmt.Sprintf("lastused %d", c))
		do("newpoll 1 1,2")
		do("luget")
		do("write aa")
		for k := 0; k < 1+rng.Intn(3); k++ {
			m := 1 + rng.Intn(2)
			do(fmt.Sprintf("mread %d %s", m, lp.Hex([]byte{byte(m), byte(k)})))
			do("luget")
		}
		do("write bb")
		do("close")
		h.Distinct(fmt.Sprintf("lu/%d", c))
	}
}
