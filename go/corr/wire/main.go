// Correspondence harness for C06 (request/response correlation), the routing half of C07 and the typed read
// path of C12: drives a real wire.ClientConn over scripted in-memory EncodingTransports and compares, op by
// op, with the Lean model (topic `wire`).  All waiting is event-driven (FIFO sentinels through the very
// dispatch loops under test); a watchdog turns a hang into the output `hang`.
package main

import (
	"context"
	"fmt"
	"strconv"
	"strings"
	"sync"
	"time"

	"github.com/aptpod/iscp-go/encoding"
	"github.com/aptpod/iscp-go/message"
	"github.com/aptpod/iscp-go/transport"
	"github.com/aptpod/iscp-go/wire"
	uuid "github.com/google/uuid"
	"verif.local/harness/lp"
)

// ---- scripted EncodingTransport

type fakeTr struct {
	in     chan message.Message
	out    chan message.Message
	closed chan struct{}
	once   sync.Once
}

func newFake() *fakeTr {
	return &fakeTr{in: make(chan message.Message, 4096), out: make(chan message.Message, 4096), closed: make(chan struct{})}
}
func (f *fakeTr) Read() (message.Message, error) {
	select {
	case m := <-f.in:
		return m, nil
	case <-f.closed:
		return nil, transport.ErrAlreadyClosed
	}
}
func (f *fakeTr) Write(m message.Message) error {
	select {
	case <-f.closed:
		return transport.ErrAlreadyClosed
	default:
	}
	f.out <- m
	return nil
}
func (f *fakeTr) Close() error                  { f.once.Do(func() { close(f.closed) }); return nil }
func (f *fakeTr) RxCount() *encoding.Count      { return &encoding.Count{} }
func (f *fakeTr) TxCount() *encoding.Count      { return &encoding.Count{} }
func (f *fakeTr) RxMessageCounterValue() uint64 { return 0 }
func (f *fakeTr) TxMessageCounterValue() uint64 { return 0 }

func sidOf(n int) uuid.UUID {
	var u uuid.UUID
	u[0], u[1], u[15] = byte(n>>8), byte(n), 0x77
	return u
}

const sentinelAlias = 9999
const watchdog = 3 * time.Second

type callRes struct {
	caller int
	out    string
}

type waiter struct {
	kind       string
	sid, alias int
	caller int
	cancel context.CancelFunc
	id     uint32
	done   bool
}

type impl struct {
	tr, utr *fakeTr
	conn    *wire.ClientConn
	results chan callRes
	waiters map[int]*waiter
	byID    map[uint32]*waiter
	dead    bool
}

func newImpl() (*impl, string) {
	i := &impl{tr: newFake(), utr: newFake(), results: make(chan callRes, 256), waiters: map[int]*waiter{}, byID: map[uint32]*waiter{}}
	i.tr.in <- &message.ConnectResponse{RequestID: 0, ResultCode: message.ResultCodeSucceeded}
	c, err := wire.Connect(&wire.ClientConnConfig{Transport: i.tr, UnreliableTransport: i.utr, PingInterval: time.Hour, PingTimeout: time.Hour})
	if err != nil {
		return nil, "connect failed: " + err.Error()
	}
	i.conn = c
	if m := i.nextWritten(); m == nil {
		return nil, "no connect request"
	}
	return i, ""
}

func (i *impl) nextWritten() message.Message {
	select {
	case m := <-i.tr.out:
		return m
	case <-time.After(watchdog):
		return nil
	}
}

// pingIDs: every keepalive ping of one connection, and the other requests issued meanwhile, bear distinct even ids.
func pingIDs(n int) string {
	tr, utr := newFake(), newFake()
	tr.in <- &message.ConnectResponse{RequestID: 0, ResultCode: message.ResultCodeSucceeded}
	c, err := wire.Connect(&wire.ClientConnConfig{Transport: tr, UnreliableTransport: utr, PingInterval: 4 * time.Millisecond, PingTimeout: 10 * time.Second})
	if err != nil {
		return "connect failed: " + err.Error()
	}
	defer c.Close()
	var ids []uint32
	pings, others, asked := 0, 0, false
	deadline := time.After(watchdog)
	for pings < n || (asked && others == 0) {
		select {
		case m := <-tr.out:
			switch v := m.(type) {
			case *message.ConnectRequest:
			case *message.Ping:
				ids = append(ids, uint32(v.RequestID))
				pings++
				tr.in <- &message.Pong{RequestID: v.RequestID}
				if pings == 2 && !asked {
					asked = true
					go func() {
						ctx, cancel := context.WithTimeout(context.Background(), watchdog)
						defer cancel()
						c.SendUpstreamMetadata(ctx, &message.UpstreamMetadata{Metadata: &message.BaseTime{Name: "x"}})
					}()
				}
			case *message.UpstreamMetadata:
				ids = append(ids, uint32(v.RequestID))
				others++
				tr.in <- &message.UpstreamMetadataAck{RequestID: v.RequestID, ResultCode: message.ResultCodeSucceeded}
			}
		case <-deadline:
			return fmt.Sprintf("pingids hang after %d pings", pings)
		}
	}
	seen := map[uint32]bool{}
	for _, id := range ids {
		if seen[id] || id%2 != 0 {
			return fmt.Sprintf("pingids bad %v", ids)
		}
		seen[id] = true
	}
	return "pingids ok"
}

// burst: n requests outstanding at once on a connection of its own, the broker answers all of them back to back in reverse
// order; every caller gets the response bearing its own id (however many are in flight, in whatever order they are answered)
func burst(n int) string {
	tr, utr := newFake(), newFake()
	tr.in <- &message.ConnectResponse{RequestID: 0, ResultCode: message.ResultCodeSucceeded}
	c, err := wire.Connect(&wire.ClientConnConfig{Transport: tr, UnreliableTransport: utr, PingInterval: time.Hour, PingTimeout: time.Hour})
	if err != nil {
		return "connect failed: " + err.Error()
	}
	defer c.Close()
	type outcome struct {
		k   int
		ack *message.UpstreamMetadataAck
		err error
	}
	results := make(chan outcome, n)
	for k := 0; k < n; k++ {
		go func(k int) {
			ctx, cancel := context.WithTimeout(context.Background(), watchdog)
			defer cancel()
			a, err := c.SendUpstreamMetadata(ctx, &message.UpstreamMetadata{Metadata: &message.BaseTime{Name: fmt.Sprintf("b%d", k)}})
			results <- outcome{k, a, err}
		}(k)
	}
	idOf := map[string]uint32{} // tag -> request id as written
	deadline := time.After(watchdog)
	for len(idOf) < n {
		select {
		case m := <-tr.out:
			if v, ok := m.(*message.UpstreamMetadata); ok {
				idOf[v.Metadata.(*message.BaseTime).Name] = uint32(v.RequestID)
			}
		case <-deadline:
			return fmt.Sprintf("burst: only %d of %d requests were written", len(idOf), n)
		}
	}
	for k := n - 1; k >= 0; k-- { // all answers at once, newest first; the result string carries the tag
		tr.in <- &message.UpstreamMetadataAck{RequestID: message.RequestID(idOf[fmt.Sprintf("b%d", k)]), ResultCode: message.ResultCodeSucceeded, ResultString: fmt.Sprintf("b%d", k)}
	}
	okN, bad := 0, ""
	for j := 0; j < n; j++ {
		r := <-results
		switch {
		case r.err != nil:
			if bad == "" {
				bad = fmt.Sprintf("caller %d got no response: %v", r.k, r.err)
			}
		case r.ack.ResultString != fmt.Sprintf("b%d", r.k) || uint32(r.ack.RequestID) != idOf[fmt.Sprintf("b%d", r.k)]:
			if bad == "" {
				bad = fmt.Sprintf("caller %d got the response of %s", r.k, r.ack.ResultString)
			}
		default:
			okN++
		}
	}
	if bad != "" {
		return fmt.Sprintf("burst %d of %d: %s", okN, n, bad)
	}
	return fmt.Sprintf("burst ok %d", okN)
}

func kindOfResp(m message.Message) string {
	switch m.(type) {
	case *message.UpstreamOpenResponse:
		return "upopenr"
	case *message.UpstreamResumeResponse:
		return "upresumer"
	case *message.UpstreamCloseResponse:
		return "upcloser"
	case *message.DownstreamOpenResponse:
		return "downopenr"
	case *message.DownstreamResumeResponse:
		return "downresumer"
	case *message.DownstreamCloseResponse:
		return "downcloser"
	case *message.UpstreamMetadataAck:
		return "metaack"
	case *message.Pong:
		return "pong"
	}
	return "other"
}

func mkResp(kind string, id uint32, rsid, ralias int, refused bool) message.Message {
	rid := message.RequestID(id)
	ok := message.ResultCodeSucceeded
	if refused {
		ok = message.ResultCodeUnspecifiedError
	}
	switch kind {
	case "upopenr":
		return &message.UpstreamOpenResponse{RequestID: rid, AssignedStreamID: sidOf(rsid), AssignedStreamIDAlias: uint32(ralias), ResultCode: ok}
	case "upresumer":
		return &message.UpstreamResumeResponse{RequestID: rid, AssignedStreamIDAlias: uint32(ralias), ResultCode: ok}
	case "upcloser":
		return &message.UpstreamCloseResponse{RequestID: rid, ResultCode: ok}
	case "downopenr":
		return &message.DownstreamOpenResponse{RequestID: rid, AssignedStreamID: sidOf(rsid), ResultCode: ok}
	case "downresumer":
		return &message.DownstreamResumeResponse{RequestID: rid, ResultCode: ok}
	case "downcloser":
		return &message.DownstreamCloseResponse{RequestID: rid, ResultCode: ok}
	case "metaack":
		return &message.UpstreamMetadataAck{RequestID: rid, ResultCode: ok}
	case "pong":
		return &message.Pong{RequestID: rid}
	default: // a Request-typed message that is no response at all
		return &message.UpstreamOpenRequest{RequestID: rid, SessionID: "spurious"}
	}
}

// startCall runs one typed request in its own goroutine and reports (caller, outcome).
func (i *impl) startCall(caller int, kind string, sid, alias int) string {
	ctx, cancel := context.WithCancel(context.Background())
	go func() {
		var res message.Message
		var err error
		out := ""
		func() {
			defer func() {
				if r := recover(); r != nil {
					out = "crash"
				}
			}()
			switch kind {
			case "upopen":
				res, err = i.conn.SendUpstreamOpenRequest(ctx, &message.UpstreamOpenRequest{SessionID: "s", QoS: message.QoSReliable})
			case "upresume":
				res, err = i.conn.SendUpstreamResumeRequest(ctx, &message.UpstreamResumeRequest{StreamID: sidOf(sid)}, message.QoSReliable)
			case "upclose":
				res, err = i.conn.SendUpstreamCloseRequest(ctx, &message.UpstreamCloseRequest{StreamID: sidOf(sid)})
			case "downopen":
				res, err = i.conn.SendDownstreamOpenRequest(ctx, &message.DownstreamOpenRequest{DesiredStreamIDAlias: uint32(alias)})
			case "downresume":
				res, err = i.conn.SendDownstreamResumeRequest(ctx, &message.DownstreamResumeRequest{StreamID: sidOf(sid), DesiredStreamIDAlias: uint32(alias)})
			case "downclose":
				res, err = i.conn.SendDownstreamCloseRequest(ctx, &message.DownstreamCloseRequest{StreamID: sidOf(sid)})
			case "metadata":
				res, err = i.conn.SendUpstreamMetadata(ctx, &message.UpstreamMetadata{Metadata: &message.BaseTime{Name: "b"}})
			}
		}()
		if out == "" {
			switch {
			case err == context.Canceled:
				out = "cancelled"
			case err != nil:
				out = "error"
			default:
				out = fmt.Sprintf("ok %s %d", kindOfResp(res), res.(message.Request).GetRequestID())
			}
		}
		i.results <- callRes{caller, out}
	}()
	m := i.nextWritten()
	if m == nil {
		cancel()
		return "hang"
	}
	req, ok := m.(message.Request)
	if !ok {
		cancel()
		return fmt.Sprintf("wrote %T", m)
	}
	id := req.GetRequestID()
	wt := &waiter{caller: caller, cancel: cancel, id: id, kind: kind, sid: sid, alias: alias}
	i.waiters[caller] = wt
	i.byID[id] = wt
	return fmt.Sprintf("issued %d", id)
}

// waitResult waits for the outcome of one caller (nil on watchdog).
func (i *impl) waitResult(caller int, d time.Duration) *callRes {
	deadline := time.After(d)
	var stash []callRes
	defer func() {
		for _, r := range stash {
			i.results <- r
		}
	}()
	for {
		select {
		case r := <-i.results:
			if r.caller == caller {
				if w := i.waiters[caller]; w != nil {
					w.done = true
				}
				return &r
			}
			stash = append(stash, r)
		case <-deadline:
			return nil
		}
	}
}

// barrier: a response for the permanently outstanding sentinel request travels through readRequestLoop behind
// everything injected before it; when the sentinel caller returns, those have been processed.
func (i *impl) barrier() string {
	w := i.waiters[99]
	if w == nil || w.done {
		return "no-sentinel"
	}
	i.tr.in <- mkResp("metaack", w.id, 0, 0, false)
	if r := i.waitResult(99, watchdog); r == nil {
		return "hang"
	}
	return ""
}

// subscriptions hand out the channel once; the harness keeps it for draining
type subs struct {
	dps, dpsu map[int]<-chan *message.DownstreamChunk
	ackc      map[int]<-chan *message.DownstreamChunkAckComplete
	meta      map[[2]int]<-chan *message.DownstreamMetadata
}

func withWatchdog(f func() string) string {
	done := make(chan string, 1)
	go func() {
		defer func() {
			if r := recover(); r != nil {
				done <- "crash"
			}
		}()
		done <- f()
	}()
	select {
	case s := <-done:
		return s
	case <-time.After(watchdog):
		return "hang"
	}
}

func main() {
	h := lp.New()
	defer h.Finish()
	var im *impl
	var sb subs
	downAlias := map[int]int{}
	// per-dispatch-loop FIFO sentinels: a message for the sentinel alias is injected behind the message under test
	// and awaited on the sentinel's own channel.
	var sentAckCh <-chan *message.UpstreamChunkAck
	var sentDps, sentDpsU <-chan *message.DownstreamChunk
	var sentAckc <-chan *message.DownstreamChunkAckComplete
	var sentMeta <-chan *message.DownstreamMetadata

	waitSent := func(kind string) string {
		t := time.After(watchdog)
		switch kind {
		case "ack":
			im.tr.in <- &message.UpstreamChunkAck{StreamIDAlias: sentinelAlias, Results: []*message.UpstreamChunkResult{{SequenceNumber: 0}}}
			select {
			case <-sentAckCh:
			case <-t:
				return "hang"
			}
		case "chunk":
			im.tr.in <- &message.DownstreamChunk{StreamIDAlias: sentinelAlias, UpstreamOrAlias: message.UpstreamAlias(1), StreamChunk: &message.StreamChunk{}}
			select {
			case <-sentDps:
			case <-t:
				return "hang"
			}
		case "chunku":
			im.utr.in <- &message.DownstreamChunk{StreamIDAlias: sentinelAlias, UpstreamOrAlias: message.UpstreamAlias(1), StreamChunk: &message.StreamChunk{}}
			select {
			case <-sentDpsU:
			case <-t:
				return "hang"
			}
		case "ackc":
			im.tr.in <- &message.DownstreamChunkAckComplete{StreamIDAlias: sentinelAlias}
			select {
			case <-sentAckc:
			case <-t:
				return "hang"
			}
		case "meta":
			im.tr.in <- &message.DownstreamMetadata{StreamIDAlias: sentinelAlias, SourceNodeID: "n0", Metadata: &message.BaseTime{}}
			select {
			case <-sentMeta:
			case <-t:
				return "hang"
			}
		}
		return "sent"
	}

	exec := func(op string) string {
		w := strings.Fields(op)
		n := func(k int) int {
			if k >= len(w) {
				return 0
			}
			v, _ := strconv.Atoi(w[k])
			return v
		}
		if w[0] != "reset" && w[0] != "pingids" && w[0] != "burst" && (im == nil || im.dead) {
			return "dead"
		}
		switch w[0] {
		case "reset":
			if im != nil {
				im.conn.Close()
			}
			var e string
			im, e = newImpl()
			if im == nil {
				return e
			}
			downAlias = map[int]int{}
			sb = subs{dps: map[int]<-chan *message.DownstreamChunk{}, dpsu: map[int]<-chan *message.DownstreamChunk{}, ackc: map[int]<-chan *message.DownstreamChunkAckComplete{}, meta: map[[2]int]<-chan *message.DownstreamMetadata{}}
			return "ok"
		case "req":
			caller, kind := n(1), w[2]
			if kind == "ping" {
				// the keepalive loop's first ping (sent by the library itself right after connect)
				m := im.nextWritten()
				p, ok := m.(*message.Ping)
				if !ok {
					return fmt.Sprintf("expected the keepalive ping, got %T", m)
				}
				wt := &waiter{caller: caller, cancel: func() {}, id: p.GetRequestID()}
				im.waiters[caller] = wt
				im.byID[p.GetRequestID()] = wt
				return fmt.Sprintf("issued %d", p.GetRequestID())
			}
			sid, alias := 0, 0
			switch kind {
			case "upresume", "upclose", "downclose":
				sid = n(3)
			case "downopen":
				alias = n(3)
			case "downresume":
				sid, alias = n(3), n(4)
			}
			return im.startCall(caller, kind, sid, alias)
		case "resp":
			id := uint32(n(1))
			rsid, ral := 0, 0
			refused := w[len(w)-1] == "refused" // the broker refuses the request (result code other than Succeeded)
			if refused {
				w = w[:len(w)-1]
			}
			if len(w) == 5 {
				rsid, ral = n(3), n(4)
			} else if len(w) == 4 {
				ral = n(3)
			}
			wt := im.byID[id]
			im.tr.in <- mkResp(w[2], id, rsid, ral, refused)
			classify := func(r *callRes) string {
				c := strconv.Itoa(r.caller)
				f := strings.Fields(r.out)
				switch {
				case f[0] == "ok":
					if f[2] != strconv.Itoa(int(wt.id)) {
						return "wrong-id " + c + " got " + f[2]
					}
					// the harness forgets the channels it holds for a downstream that was closed
					switch wt.kind {
					case "downopen":
						downAlias[rsid] = wt.alias
					case "downresume":
						downAlias[wt.sid] = wt.alias
					case "downclose":
						if a, ok := downAlias[wt.sid]; ok {
							delete(downAlias, wt.sid)
							delete(sb.dps, a)
							delete(sb.dpsu, a)
							delete(sb.ackc, a)
							for k := range sb.meta {
								if k[0] == a {
									delete(sb.meta, k)
								}
							}
						}
					}
					return "delivered " + c + " " + f[1]
				case r.out == "crash":
					return "crash " + c
				case r.out == "error":
					return "mismatch " + c + " " + w[2]
				}
				return r.out + " " + c
			}
			if wt != nil && !wt.done && wt.caller == 99 {
				// answering the sentinel itself: it is its own barrier
				r := im.waitResult(99, watchdog)
				if r == nil {
					return "hang"
				}
				return classify(r)
			}
			if wt != nil && !wt.done && wt.caller == 0 {
				// the keepalive loop is the caller: a pong is consumed silently; anything else must end the
				// connection in an orderly way (an unrecovered panic would kill this process)
				if b := im.barrier(); b == "hang" {
					return "hang"
				}
				wt.done = true
				if w[2] == "pong" {
					return "delivered 0 pong"
				}
				select {
				case <-im.conn.Closed():
					im.dead = true
					return "mismatch 0 " + w[2]
				case <-time.After(watchdog):
					return "nobody"
				}
			}
			if b := im.barrier(); b == "hang" {
				return "hang"
			}
			// the message under test has been processed by readRequestLoop; see who returned
			if wt != nil && !wt.done {
				if r := im.waitResult(wt.caller, 500*time.Millisecond); r != nil {
					return classify(r)
				}
				return "nobody"
			}
			select {
			case r := <-im.results:
				return fmt.Sprintf("unexpected return of caller %d: %s", r.caller, r.out)
			case <-time.After(2 * time.Millisecond):
			}
			return "nobody"
		case "burst":
			return burst(n(1))
		case "pingids": // a connection of its own that lives through n keepalive periods, with a metadata request in between
			return pingIDs(n(1))
		case "sync": // re-arm the sentinel
			return im.startCall(99, "metadata", 0, 0)
		case "cancel":
			caller := n(1)
			wt := im.waiters[caller]
			if wt == nil || wt.done {
				return "noop"
			}
			wt.cancel()
			r := im.waitResult(caller, watchdog)
			if r == nil {
				return "hang"
			}
			if r.out == "cancelled" {
				return "cancelled " + strconv.Itoa(caller)
			}
			return r.out
		case "subdps":
			return withWatchdog(func() string {
				ch, err := im.conn.SubscribeDownstreamChunk(context.Background(), uint32(n(1)), message.QoSReliable)
				if err != nil {
					return "err already-subscribed"
				}
				sb.dps[n(1)] = ch
				if n(1) == sentinelAlias {
					sentDps = ch
				}
				return "ok"
			})
		case "subdpsu":
			return withWatchdog(func() string {
				ch, err := im.conn.SubscribeDownstreamChunk(context.Background(), uint32(n(1)), message.QoSUnreliable)
				if err != nil {
					return "err already-subscribed"
				}
				sb.dpsu[n(1)] = ch
				if n(1) == sentinelAlias {
					sentDpsU = ch
				}
				return "ok"
			})
		case "subackc":
			return withWatchdog(func() string {
				ch, err := im.conn.SubscribeDownstreamChunkAckComplete(context.Background(), uint32(n(1)))
				if err != nil {
					return "err already-subscribed"
				}
				sb.ackc[n(1)] = ch
				if n(1) == sentinelAlias {
					sentAckc = ch
				}
				return "ok"
			})
		case "submeta":
			return withWatchdog(func() string {
				ch, err := im.conn.SubscribeDownstreamMeta(context.Background(), uint32(n(1)), "n"+w[2])
				if err != nil {
					return "err"
				}
				sb.meta[[2]int{n(1), n(2)}] = ch
				if n(1) == sentinelAlias {
					sentMeta = ch
				}
				return "ok"
			})
		case "ack":
			im.tr.in <- &message.UpstreamChunkAck{StreamIDAlias: uint32(n(1)), Results: []*message.UpstreamChunkResult{{SequenceNumber: uint32(n(2))}}}
			if sentAckCh == nil {
				ch, err := im.conn.SubscribeUpstreamChunkAck(context.Background(), sentinelAlias)
				if err != nil {
					return "no-sentinel"
				}
				sentAckCh = ch
			}
			return waitSent("ack")
		case "chunk":
			im.tr.in <- &message.DownstreamChunk{StreamIDAlias: uint32(n(1)), UpstreamOrAlias: message.UpstreamAlias(1), StreamChunk: &message.StreamChunk{SequenceNumber: uint32(n(2))}}
			return waitSent("chunk")
		case "chunku":
			im.utr.in <- &message.DownstreamChunk{StreamIDAlias: uint32(n(1)), UpstreamOrAlias: message.UpstreamAlias(1), StreamChunk: &message.StreamChunk{SequenceNumber: uint32(n(2))}}
			return waitSent("chunku")
		case "ackc":
			im.tr.in <- &message.DownstreamChunkAckComplete{StreamIDAlias: uint32(n(1)), AckID: uint32(n(2))}
			return waitSent("ackc")
		case "meta":
			im.tr.in <- &message.DownstreamMetadata{StreamIDAlias: uint32(n(1)), SourceNodeID: "n" + w[2], RequestID: message.RequestID(n(3)), Metadata: &message.BaseTime{}}
			return waitSent("meta")
		case "drainack":
			return withWatchdog(func() string {
				ch, err := im.conn.SubscribeUpstreamChunkAck(context.Background(), uint32(n(1)))
				if err != nil {
					return "nosub"
				}
				var items []string
				for {
					select {
					case m := <-ch:
						items = append(items, strconv.Itoa(int(m.Results[0].SequenceNumber)))
						continue
					default:
					}
					break
				}
				return "items " + strings.Join(items, ",")
			})
		case "draindps", "draindpsu":
			tab := sb.dps
			if w[0] == "draindpsu" {
				tab = sb.dpsu
			}
			ch, ok := tab[n(1)]
			if !ok {
				return "nosub"
			}
			var items []string
			for {
				select {
				case m := <-ch:
					items = append(items, strconv.Itoa(int(m.StreamChunk.SequenceNumber)))
					continue
				default:
				}
				break
			}
			return "items " + strings.Join(items, ",")
		case "drainackc":
			ch, ok := sb.ackc[n(1)]
			if !ok {
				return "nosub"
			}
			var items []string
			for {
				select {
				case m := <-ch:
					items = append(items, strconv.Itoa(int(m.AckID)))
					continue
				default:
				}
				break
			}
			return "items " + strings.Join(items, ",")
		case "drainmeta":
			ch, ok := sb.meta[[2]int{n(1), n(2)}]
			if !ok {
				return "nosub"
			}
			var items []string
			for {
				select {
				case m := <-ch:
					items = append(items, strconv.Itoa(int(m.RequestID)))
					continue
				default:
				}
				break
			}
			return "items " + strings.Join(items, ",")
		}
		return "bad-op"
	}
	stuck := false
	do := func(op string) string {
		if stuck {
			return "dead" // a library call of an earlier op never returned: nothing after it is comparable
		}
		// library calls made on this goroutine's behalf (Subscribe*, Close, ...) must return: a lock left behind by an earlier
		// operation would otherwise stall the harness itself instead of being reported
		res := make(chan string, 1)
		go func() { res <- exec(op) }()
		var out string
		select {
		case out = <-res:
		case <-time.After(5 * watchdog):
			out, stuck = "hang", true
		}
		if op == "reset" {
			sentAckCh, sentDps, sentDpsU, sentAckc, sentMeta = nil, nil, nil, nil, nil
		}
		h.Op(op, out)
		switch {
		case strings.HasPrefix(out, "crash"):
			h.Violate("a frame from the broker crashed the client (panic in the wire connection's read path or in an API caller) on: " + op)
			if im != nil {
				im.dead = true
			}
		case out == "hang":
			h.Violate("client stuck (no progress within the watchdog) on: " + op)
			if im != nil {
				im.dead = true
			}
		case strings.HasPrefix(out, "wrong-id"):
			h.Violate("a caller received a response bearing another request id: " + out)
		case strings.HasPrefix(out, "unexpected return"):
			h.Violate("a response with an unknown id disturbed another caller: " + out)
		}
		return out
	}
	if h.Replay != "" {
		for _, l := range lp.ReadOps(h.Replay) {
			if strings.HasPrefix(l, "#") {
				h.Case(strings.TrimPrefix(l, "# case "))
				continue
			}
			do(l)
		}
		return
	}
	gen(h, do)
}

