package main

import (
	"strconv"
	"fmt"
	"os"
	"strings"

	"verif.local/harness/lp"
)

var reqKinds = []string{"upopen", "upresume", "upclose", "downopen", "downresume", "downclose", "metadata"}
var respOf = map[string]string{"upopen": "upopenr", "upresume": "upresumer", "upclose": "upcloser", "downopen": "downopenr",
	"downresume": "downresumer", "downclose": "downcloser", "metadata": "metaack", "ping": "pong"}
var respKinds = []string{"upopenr", "upresumer", "upcloser", "downopenr", "downresumer", "downcloser", "metaack", "pong", "other"}

func gen(h *lp.H, do func(string) string) {
	rng := h.Rng
	start := func(name string) {
		h.Case(name)
		do("reset")
		do("req 0 ping")
		do("sync")
	}
	issuedID := func(out string) (int, bool) {
		var id int
		if _, err := fmt.Sscanf(out, "issued %d", &id); err != nil {
			return 0, false
		}
		return id, true
	}
	// ---- A. correlation: concurrent requests, permuted / duplicated / spurious responses, cancellations
	for c := 0; c < h.N; c++ {
		m := 1 + rng.Intn(5)
		start(fmt.Sprintf("corr %d callers=%d", c, m))
		type pend struct {
			caller int
			kind   string
			id     int
			sid    int
			alias  int
		}
		var pending []pend
		var answered []int
		nextSid := 1
		steps := 4 + rng.Intn(12)
		sig := ""
		for s := 0; s < steps; s++ {
			switch r := rng.Intn(10); {
			case r < 4 || len(pending) == 0: // a free caller issues a request
				caller := 1 + rng.Intn(m)
				busy := false
				for _, p := range pending {
					if p.caller == caller {
						busy = true
					}
				}
				if busy {
					continue
				}
				k := reqKinds[rng.Intn(len(reqKinds))]
				p := pend{caller: caller, kind: k, sid: rng.Intn(4), alias: 1 + rng.Intn(4)}
				op := fmt.Sprintf("req %d %s", caller, k)
				switch k {
				case "upresume", "upclose", "downclose":
					op += fmt.Sprintf(" %d", p.sid)
				case "downopen":
					op += fmt.Sprintf(" %d", p.alias)
				case "downresume":
					op += fmt.Sprintf(" %d %d", p.sid, p.alias)
				}
				out := do(op)
				if id, ok := issuedID(out); ok {
					p.id = id
					if id%2 != 0 || id == 0 {
						h.Violate(fmt.Sprintf("request id %d is not a fresh even id", id))
					}
					for _, q := range pending {
						if q.id == id {
							h.Violate(fmt.Sprintf("request id %d issued twice while outstanding", id))
						}
					}
					for _, a := range answered {
						if a == id {
							h.Violate(fmt.Sprintf("request id %d reused", id))
						}
					}
					pending = append(pending, p)
				}
				sig += "q"
			case r < 7: // correct response to a random outstanding request (any order)
				i := rng.Intn(len(pending))
				p := pending[i]
				op := fmt.Sprintf("resp %d %s", p.id, respOf[p.kind])
				switch p.kind {
				case "upopen", "downopen":
					op += fmt.Sprintf(" %d %d", nextSid, 10+nextSid)
					nextSid++
				case "upresume":
					op += fmt.Sprintf(" %d", 20+rng.Intn(5))
				}
				out := do(op)
				if out != fmt.Sprintf("delivered %d %s", p.caller, respOf[p.kind]) {
					h.Violate(fmt.Sprintf("caller %d did not receive its own response (id %d): %s", p.caller, p.id, out))
				}
				do("sync")
				answered = append(answered, p.id)
				pending = append(pending[:i], pending[i+1:]...)
				sig += "r"
			case r == 7: // spurious: unknown id, odd id, or duplicate of an answered one
				var id int
				switch rng.Intn(3) {
				case 0:
					id = 100000 + 2*rng.Intn(50)
				case 1:
					id = 1 + 2*rng.Intn(50)
				default:
					if len(answered) > 0 {
						id = answered[rng.Intn(len(answered))]
					} else {
						id = 4242
					}
				}
				out := do(fmt.Sprintf("resp %d %s 7 7", id, respKinds[rng.Intn(len(respKinds))]))
				if out != "nobody" {
					h.Violate("a response with an unknown or already answered id was not ignored: " + out)
				}
				do("sync")
				sig += "s"
			case r == 8: // cancellation, then the late response must reach nobody
				i := rng.Intn(len(pending))
				p := pending[i]
				do(fmt.Sprintf("cancel %d", p.caller))
				pending = append(pending[:i], pending[i+1:]...)
				if rng.Intn(2) == 0 {
					out := do(fmt.Sprintf("resp %d %s 3 3", p.id, respOf[p.kind]))
					if out != "nobody" {
						h.Violate("the response of a cancelled request was delivered to somebody: " + out)
					}
					do("sync")
					// ... and so must retransmissions of that late response (the abandoned mailbox is full by now)
					for k := rng.Intn(3); k > 0; k-- {
						if out := do(fmt.Sprintf("resp %d %s 3 3", p.id, respOf[p.kind])); out != "nobody" {
							h.Violate("a repeated response of a cancelled request was delivered to somebody: " + out)
						}
						do("sync")
						sig += "d"
					}
				}
				answered = append(answered, p.id)
				sig += "c"
			default: // a response of the wrong kind bearing an outstanding id
				i := rng.Intn(len(pending))
				p := pending[i]
				rk := respKinds[rng.Intn(len(respKinds))]
				if rk == respOf[p.kind] {
					rk = "other"
				}
				out := do(fmt.Sprintf("resp %d %s 5 5", p.id, rk))
				if strings.HasPrefix(out, "delivered") {
					h.Violate("a response of the wrong kind was returned as a value: " + out)
				}
				do("sync")
				answered = append(answered, p.id)
				pending = append(pending[:i], pending[i+1:]...)
				sig += "m"
			}
		}
		if h.Distinct(fmt.Sprintf("corr/%d/%s", m, sig)) && len(sig) > 6 {
			h.Sample()
		}
	}

	// ---- B. routing tables: several streams, traffic for known and unknown aliases / nodes, lifecycle
	for c := 0; c < h.N/2+1; c++ {
		start(fmt.Sprintf("route %d", c))
		// sentinel alias in every table (upstream via an open exchange)
		out := do("req 98 upopen")
		if id, ok := issuedID(out); ok {
			do(fmt.Sprintf("resp %d upopenr 9999 9999", id))
			do("sync")
		}
		do("subdps 9999")
		do("subdpsu 9999")
		do("subackc 9999")
		do("submeta 9999 0")
		type st struct{ sid, alias int }
		var ups, downs []st
		sent := map[string][]int{} // queue name -> tokens addressed to it
		tok := 0
		caller := 1
		nsteps := 10 + rng.Intn(30)
		sig := ""
		for s := 0; s < nsteps; s++ {
			alias := rng.Intn(5) // alias 0 is a legal alias
			node := rng.Intn(3)
			tok++
			switch r := rng.Intn(16); {
			case r == 0: // open upstream under alias
				out := do(fmt.Sprintf("req %d upopen", caller))
				if id, ok := issuedID(out); ok {
					sid := 100 + len(ups)
					do(fmt.Sprintf("resp %d upopenr %d %d", id, sid, alias))
					do("sync")
					ups = append(ups, st{sid, alias})
					sent[fmt.Sprintf("ack/%d", alias)] = nil
				}
				sig += "U"
			case r == 15 && len(ups) > 0: // an unrelated upstream open / resume is refused by the broker: nothing is
				// assigned, and the alias field of the refusal (0, or whatever the broker left there) may be a healthy stream's alias
				victim := ups[rng.Intn(len(ups))]
				kind := []string{"upopen", "upresume 650"}[rng.Intn(2)]
				tokA := victim.alias*1000 + tok // an ack that is waiting in the healthy stream's queue when the refusal arrives
				do(fmt.Sprintf("ack %d %d", victim.alias, tokA))
				out := do(fmt.Sprintf("req %d %s", caller, kind))
				if id, ok := issuedID(out); ok {
					do(fmt.Sprintf("resp %d %sr 651 %d refused", id, strings.Fields(kind)[0], []int{0, victim.alias}[rng.Intn(2)]))
					do("sync")
				}
				tok++
				tokB := victim.alias*1000 + tok // ... and one that arrives afterwards
				do(fmt.Sprintf("ack %d %d", victim.alias, tokB))
				if out := do(fmt.Sprintf("drainack %d", victim.alias)); strings.HasPrefix(out, "items") &&
					(!strings.Contains(out, strconv.Itoa(tokA)) || !strings.Contains(out, strconv.Itoa(tokB))) {
					h.Violate(fmt.Sprintf("the broker refused an unrelated upstream open/resume; of the acks %d (queued before) and %d (sent after) for the healthy upstream under alias %d its reader got: %s", tokA, tokB, victim.alias, out))
				}
				sig += "R"
			case r == 1 && (len(ups) == 0 || rng.Intn(4) == 0): // close of a stream id the connection does not know (e.g. a repeated close)
				kind := []string{"upclose", "downclose"}[rng.Intn(2)]
				out := do(fmt.Sprintf("req %d %s %d", caller, kind, 700+rng.Intn(3)))
				if id, ok := issuedID(out); ok {
					do(fmt.Sprintf("resp %d %sr", id, kind))
					do("sync")
				}
				sig += "z"
			case r == 1 && len(ups) > 0: // close upstream
				i := rng.Intn(len(ups))
				out := do(fmt.Sprintf("req %d upclose %d", caller, ups[i].sid))
				if id, ok := issuedID(out); ok {
					do(fmt.Sprintf("resp %d upcloser", id))
					do("sync")
					delete(sent, fmt.Sprintf("ack/%d", ups[i].alias))
					ups = append(ups[:i], ups[i+1:]...)
				}
				sig += "u"
			case r == 2: // downstream: subscribe everything, then open
				do(fmt.Sprintf("subdps %d", alias))
				do(fmt.Sprintf("subdpsu %d", alias))
				do(fmt.Sprintf("subackc %d", alias))
				do(fmt.Sprintf("submeta %d %d", alias, node))
				out := do(fmt.Sprintf("req %d downopen %d", caller, alias))
				if id, ok := issuedID(out); ok {
					sid := 200 + len(downs)
					do(fmt.Sprintf("resp %d downopenr %d 0", id, sid))
					do("sync")
					downs = append(downs, st{sid, alias})
				}
				sig += "D"
			case r == 3 && len(downs) > 0: // close downstream
				i := rng.Intn(len(downs))
				out := do(fmt.Sprintf("req %d downclose %d", caller, downs[i].sid))
				if id, ok := issuedID(out); ok {
					do(fmt.Sprintf("resp %d downcloser", id))
					do("sync")
					downs = append(downs[:i], downs[i+1:]...)
				}
				sig += "d"
			case r < 6:
				do(fmt.Sprintf("ack %d %d", alias, alias*1000+tok))
				sig += "a"
			case r < 8:
				do(fmt.Sprintf("chunk %d %d", alias, alias*1000+tok))
				sig += "k"
			case r == 8:
				do(fmt.Sprintf("chunku %d %d", alias, alias*1000+tok))
				sig += "K"
			case r == 9:
				do(fmt.Sprintf("ackc %d %d", alias, alias*1000+tok))
				sig += "c"
			case r < 12:
				do(fmt.Sprintf("meta %d %d %d", alias, node, alias*1000+tok))
				sig += "m"
			default: // drain one queue of one alias and check every token was addressed to it
				var op string
				switch rng.Intn(5) {
				case 0:
					op = fmt.Sprintf("drainack %d", alias)
				case 1:
					op = fmt.Sprintf("draindps %d", alias)
				case 2:
					op = fmt.Sprintf("draindpsu %d", alias)
				case 3:
					op = fmt.Sprintf("drainackc %d", alias)
				default:
					op = fmt.Sprintf("drainmeta %d %d", alias, node)
				}
				out := do(op)
				if strings.HasPrefix(out, "items ") && len(out) > 6 {
					for _, t := range strings.Split(out[6:], ",") {
						var v int
						fmt.Sscanf(t, "%d", &v)
						if v/1000 != alias {
							h.Violate(fmt.Sprintf("alias %d received a message addressed to alias %d (%s -> %s)", alias, v/1000, op, out))
						}
					}
				}
				sig += "x"
			}
		}
		// the connection must still dispatch: a fresh request is answered
		out = do(fmt.Sprintf("req %d metadata", caller))
		if id, ok := issuedID(out); ok {
			if r := do(fmt.Sprintf("resp %d metaack", id)); !strings.HasPrefix(r, "delivered") {
				h.Violate("after the routing scenario a fresh request no longer gets its response: " + r)
			}
			do("sync")
		}
		if h.Distinct("route/" + sig) {
			h.Sample()
		}
	}

	// ---- C0. ids over several keepalive periods of one connection
	for c := 0; c < 2+h.N/60; c++ {
		h.Case(fmt.Sprintf("pingids %d", c))
		n := 3 + rng.Intn(6)
		if out := do(fmt.Sprintf("pingids %d", n)); out != "pingids ok" {
			h.Violate("request ids on one connection are not distinct and even over several keepalive pings: " + out)
		}
		h.Distinct(fmt.Sprintf("pingids/%d", n))
	}

	// ---- C1. many requests in flight, answered back to back in reverse order
	for c, n := range []int{12, 64} {
		h.Case(fmt.Sprintf("burst %d", c))
		if out := do(fmt.Sprintf("burst %d", n)); out != fmt.Sprintf("burst ok %d", n) {
			h.Violate(fmt.Sprintf("%d requests outstanding at once, all answered back to back: %s", n, out))
		}
		h.Distinct(fmt.Sprintf("burst/%d", n))
	}

	// ---- C. a wrong-typed response to the keepalive ping must not kill the process
	if os.Getenv("VERIF_SKIP_KEEPALIVE_CASE") != "" {
		return
	}
	h.Case("keepalive ping answered with another kind")
	do("reset")
	if id, ok := issuedID(do("req 0 ping")); ok {
		do("sync")
		do(fmt.Sprintf("resp %d upopenr 1 1", id))
	}
	h.Distinct("keepalive-mismatch")
}
