// Measured part of C08 (layer 3): every blocking public call of a real iscp.Conn against a scripted broker that stays silent,
// answers another request id, or disconnects mid-exchange must return no later than the bound that governs it (its context,
// the stream's close timeout) plus scheduling slack, and afterwards a fresh call must still work (dispatching alive).
// Oracle only (no model stream): a violation carries the scenario as its replay.
package main

import (
	"context"
	"fmt"
	"strings"
	"time"

	"github.com/aptpod/iscp-go/iscp"
	"github.com/aptpod/iscp-go/message"
	"verif.local/harness/broker"
	"verif.local/harness/lp"
)

const (
	bound = 300 * time.Millisecond
	slack = 1500 * time.Millisecond
)

type env struct {
	b    *broker.Broker
	conn *iscp.Conn
	up   *iscp.Upstream
	down *iscp.Downstream
	gate chan struct{}
}

func setup() (*env, error) {
	b := broker.New()
	b.Register()
	conn, err := iscp.Connect("mem", broker.TransportName, iscp.WithConnPingInterval(20*time.Millisecond), iscp.WithConnPingTimeout(400*time.Millisecond))
	if err != nil {
		return nil, err
	}
	ctx, cancel := context.WithTimeout(context.Background(), 3*time.Second)
	defer cancel()
	up, err := conn.OpenUpstream(ctx, "s", iscp.WithUpstreamFlushPolicyNone(), iscp.WithUpstreamQoS(message.QoSReliable), iscp.WithUpstreamCloseTimeout(bound))
	if err != nil {
		return nil, err
	}
	down, err := conn.OpenDownstream(ctx, []*message.DownstreamFilter{{SourceNodeID: "n", DataFilters: []*message.DataFilter{{Name: "#", Type: "#"}}}})
	if err != nil {
		return nil, err
	}
	return &env{b: b, conn: conn, up: up, down: down}, nil
}

func (e *env) teardown() {
	if e.gate != nil {
		func() {
			defer func() { recover() }()
			close(e.gate) // release a dial that still hangs at the gate
		}()
	}
	ctx, cancel := context.WithTimeout(context.Background(), 300*time.Millisecond)
	defer cancel()
	done := make(chan struct{})
	go func() { e.conn.Close(ctx); close(done) }()
	select {
	case <-done:
	case <-time.After(2 * time.Second):
	}
}

// timed runs f and reports how long it took, or "stuck" after limit
func timed(limit time.Duration, f func() error) (time.Duration, error, bool) {
	done := make(chan error, 1)
	t0 := time.Now()
	go func() {
		defer func() {
			if r := recover(); r != nil {
				done <- fmt.Errorf("panic: %v", r)
			}
		}()
		done <- f()
	}()
	select {
	case err := <-done:
		return time.Since(t0), err, true
	case <-time.After(limit):
		return limit, nil, false
	}
}

type scenario struct {
	name string
	// which automatic answers of the broker are switched off (silent broker)
	silent []string
	policy func(e *env) func(inc *broker.Inc, m message.Message) bool
	before func(e *env)
	call   func(e *env, ctx context.Context) error
	bound  time.Duration // governing bound (default: the call's context = bound)
	wantOK bool          // the call must succeed (adversary: disconnect, retried within the context)
	ctx    time.Duration
}

func misaddress(kindOf func(message.Message) (uint32, bool), mk func(id uint32) message.Message) func(e *env) func(inc *broker.Inc, m message.Message) bool {
	return func(e *env) func(inc *broker.Inc, m message.Message) bool {
		return func(inc *broker.Inc, m message.Message) bool {
			if id, ok := kindOf(m); ok {
				inc.Send(mk(id + 2000)) // a well-formed response bearing an id nobody waits for
				return true
			}
			return false
		}
	}
}

func killOnce(match func(message.Message) bool) func(e *env) func(inc *broker.Inc, m message.Message) bool {
	return func(e *env) func(inc *broker.Inc, m message.Message) bool {
		done := false
		return func(inc *broker.Inc, m message.Message) bool {
			if !done && match(m) {
				done = true
				inc.Kill() // dies mid-exchange: the request arrived, no response
				return true
			}
			return false
		}
	}
}

func main() {
	h := lp.New()
	defer h.Finish()
	ok := message.ResultCodeSucceeded
	filters := []*message.DownstreamFilter{{SourceNodeID: "n", DataFilters: []*message.DataFilter{{Name: "#", Type: "#"}}}}
	isMeta := func(m message.Message) (uint32, bool) {
		r, ok := m.(*message.UpstreamMetadata)
		if !ok {
			return 0, false
		}
		return uint32(r.RequestID), true
	}
	scenarios := []scenario{
		{name: "OpenUpstream / silent broker", silent: []string{"upopen"}, call: func(e *env, ctx context.Context) error {
			_, err := e.conn.OpenUpstream(ctx, "x")
			return err
		}},
		{name: "OpenDownstream / silent broker", silent: []string{"downopen"}, call: func(e *env, ctx context.Context) error {
			_, err := e.conn.OpenDownstream(ctx, filters)
			return err
		}},
		{name: "SendMetadata / silent broker", silent: []string{"meta"}, call: func(e *env, ctx context.Context) error {
			return e.conn.SendBaseTime(ctx, &message.BaseTime{Name: "b"})
		}},
		{name: "SendMetadata / response for another request id", policy: misaddress(isMeta, func(id uint32) message.Message {
			return &message.UpstreamMetadataAck{RequestID: message.RequestID(id), ResultCode: ok}
		}), call: func(e *env, ctx context.Context) error {
			return e.conn.SendBaseTime(ctx, &message.BaseTime{Name: "b"})
		}},
		{name: "SendMetadata / broker disconnects mid-exchange (must be retried after recovery)", wantOK: true, ctx: 3 * time.Second,
			policy: killOnce(func(m message.Message) bool { _, ok := m.(*message.UpstreamMetadata); return ok }),
			call: func(e *env, ctx context.Context) error {
				return e.conn.SendBaseTime(ctx, &message.BaseTime{Name: "b"})
			}},
		{name: "OpenUpstream / broker disconnects mid-exchange (must be retried after recovery)", wantOK: true, ctx: 3 * time.Second,
			policy: killOnce(func(m message.Message) bool { _, ok := m.(*message.UpstreamOpenRequest); return ok }),
			call: func(e *env, ctx context.Context) error {
				_, err := e.conn.OpenUpstream(ctx, "x")
				return err
			}},
		{name: "SendCall / broker disconnects mid-exchange (must be retried after recovery)", wantOK: true, ctx: 3 * time.Second,
			policy: killOnce(func(m message.Message) bool { _, ok := m.(*message.UpstreamCall); return ok }),
			call: func(e *env, ctx context.Context) error {
				_, err := e.conn.SendCall(ctx, &iscp.UpstreamCall{DestinationNodeID: "d", Name: "n"})
				return err
			}},
		{name: "SendCall / silent broker (no ack)", silent: []string{"call"}, call: func(e *env, ctx context.Context) error {
			_, err := e.conn.SendCall(ctx, &iscp.UpstreamCall{DestinationNodeID: "d", Name: "n"})
			return err
		}},
		{name: "SendCallAndWaitReplayCall / ack but no reply", call: func(e *env, ctx context.Context) error {
			_, err := e.conn.SendCallAndWaitReplayCall(ctx, &iscp.UpstreamCall{DestinationNodeID: "d", Name: "n"})
			return err
		}},
		{name: "ReceiveCall / nothing arrives", call: func(e *env, ctx context.Context) error {
			_, err := e.conn.ReceiveCall(ctx)
			return err
		}},
		{name: "ReadDataPoints / nothing arrives", call: func(e *env, ctx context.Context) error {
			_, err := e.down.ReadDataPoints(ctx)
			return err
		}},
		{name: "ReadMetadata / nothing arrives", call: func(e *env, ctx context.Context) error {
			_, err := e.down.ReadMetadata(ctx)
			return err
		}},
		{name: "Flush / chunk never acknowledged", silent: []string{"chunk"}, wantOK: true, before: func(e *env) {
			e.up.WriteDataPoints(context.Background(), &message.DataID{Name: "a", Type: "t"}, &message.DataPoint{Payload: []byte{1}})
		}, call: func(e *env, ctx context.Context) error { return e.up.Flush(ctx) }},
		{name: "Upstream.Close / ack withheld (bound: close timeout)", silent: []string{"chunk"}, before: func(e *env) {
			e.up.WriteDataPoints(context.Background(), &message.DataID{Name: "a", Type: "t"}, &message.DataPoint{Payload: []byte{1}})
		}, ctx: 5 * time.Second, bound: bound, wantOK: true, call: func(e *env, ctx context.Context) error { return e.up.Close(ctx) }},
		{name: "Upstream.Close / ack withheld and close response withheld (bound: context)", silent: []string{"chunk", "upclose"}, before: func(e *env) {
			e.up.WriteDataPoints(context.Background(), &message.DataID{Name: "a", Type: "t"}, &message.DataPoint{Payload: []byte{1}})
		}, call: func(e *env, ctx context.Context) error { return e.up.Close(ctx) }},
		{name: "Downstream.Close / silent broker", silent: []string{"downclose"}, call: func(e *env, ctx context.Context) error { return e.down.Close(ctx) }},
		{name: "metadata for an unsubscribed source node, then OpenDownstream", wantOK: true, before: func(e *env) {
			e.b.Cur().Send(&message.DownstreamMetadata{StreamIDAlias: 1, SourceNodeID: "nobody", Metadata: &message.BaseTime{Name: "x"}, RequestID: 77})
			time.Sleep(20 * time.Millisecond)
		}, call: func(e *env, ctx context.Context) error {
			_, err := e.conn.OpenDownstream(ctx, filters)
			return err
		}},
		{name: "a call with a short context behind another call stuck on a silent broker", silent: []string{"meta"}, before: func(e *env) {
			go func() {
				ctx, cancel := context.WithTimeout(context.Background(), 4*time.Second)
				defer cancel()
				e.conn.SendBaseTime(ctx, &message.BaseTime{Name: "long"})
			}()
			time.Sleep(50 * time.Millisecond)
		}, call: func(e *env, ctx context.Context) error {
			return e.conn.SendBaseTime(ctx, &message.BaseTime{Name: "short"})
		}},
		{name: "SendCall after the ack of an earlier, timed-out call arrived late", silent: []string{"call"}, wantOK: true, before: func(e *env) {
			c1, cancel := context.WithTimeout(context.Background(), 100*time.Millisecond)
			e.conn.SendCall(c1, &iscp.UpstreamCall{DestinationNodeID: "d", Name: "early"})
			cancel()
			// the broker answers now, after the caller has given up - several times, as a slow broker retransmitting would
			for _, r := range e.b.LogFrom(0) {
				if c, ok := r.Msg.(*message.UpstreamCall); ok && c.Name == "early" {
					for k := 0; k < 12; k++ {
						e.b.Cur().Send(&message.UpstreamCallAck{CallID: c.CallID, ResultCode: message.ResultCodeSucceeded, ExtensionFields: &message.UpstreamCallAckExtensionFields{}})
					}
				}
			}
			time.Sleep(30 * time.Millisecond)
			e.b.Lock()
			e.b.Auto["call"] = true
			e.b.Unlock()
		}, call: func(e *env, ctx context.Context) error {
			_, err := e.conn.SendCall(ctx, &iscp.UpstreamCall{DestinationNodeID: "d", Name: "later"})
			return err
		}},
		{name: "Conn.Close / while a redial hangs in the network", before: func(e *env) {
			e.b.Lock()
			e.gate = make(chan struct{})
			e.b.DialGate = e.gate
			e.b.Unlock()
			e.b.Cur().Kill()
			// the client notices through its keepalive and starts to redial; the dial hangs at the gate
			e.b.WaitFor(func() bool { return e.b.Dials >= 2 }, 3*time.Second)
			time.Sleep(20 * time.Millisecond)
		}, call: func(e *env, ctx context.Context) error {
			err := e.conn.Close(ctx)
			close(e.gate)
			if err != nil {
				return nil // any error is fine: what counts is that Close returns within its context
			}
			return nil
		}, wantOK: true},
		{name: "SendMetadata after Conn.Close", before: func(e *env) {
			ctx, cancel := context.WithTimeout(context.Background(), time.Second)
			defer cancel()
			e.conn.Close(ctx)
		}, ctx: 3 * time.Second, bound: 0, call: func(e *env, ctx context.Context) error {
			return e.conn.SendBaseTime(ctx, &message.BaseTime{Name: "b"})
		}},
		{name: "Conn.Close / silent broker", call: func(e *env, ctx context.Context) error { return e.conn.Close(ctx) }, wantOK: true},
	}
	reps := h.N
	if reps < 1 {
		reps = 1
	}
	for r := 0; r < reps; r++ {
		for _, sc := range scenarios {
			h.Case(sc.name)
			e, err := setup()
			if err != nil {
				h.Op("setup", "err "+err.Error())
				h.Violate("cannot set up a connection with two streams: " + err.Error())
				continue
			}
			e.b.Lock()
			for _, k := range sc.silent {
				e.b.Auto[k] = false
			}
			if sc.policy != nil {
				e.b.Policy = sc.policy(e)
			}
			e.b.Unlock()
			if sc.before != nil {
				sc.before(e)
			}
			cd := sc.ctx
			if cd == 0 {
				cd = bound
			}
			gb := sc.bound
			if sc.bound == 0 && sc.ctx == 0 {
				gb = bound
			} else if sc.bound == 0 && !sc.wantOK && sc.name != "SendMetadata after Conn.Close" {
				gb = cd
			}
			if sc.wantOK && sc.bound == 0 {
				gb = cd
			}
			ctx, cancel := context.WithTimeout(context.Background(), cd)
			took, cerr, returned := timed(gb+slack+2*time.Second, func() error { return sc.call(e, ctx) })
			cancel()
			res := "returned"
			switch {
			case !returned:
				res = "STUCK"
				h.Violate(fmt.Sprintf("%s: the call had not returned %v after the bound that governs it (%v)", sc.name, slack+2*time.Second, gb))
			case took > gb+slack:
				res = "LATE"
				h.Violate(fmt.Sprintf("%s: the call returned after %v, its bound is %v (+%v slack)", sc.name, took.Round(time.Millisecond), gb, slack))
			case cerr != nil && strings.HasPrefix(cerr.Error(), "panic"):
				res = "PANIC"
				h.Violate(fmt.Sprintf("%s: %v", sc.name, cerr))
			case sc.wantOK && cerr != nil:
				res = "FAILED"
				h.Violate(fmt.Sprintf("%s: the call failed although it should succeed within its context: %v", sc.name, cerr))
			}
			h.Op("call "+strings.ReplaceAll(sc.name, " ", "_"), res)
			// the connection's dispatching must still work (unless the scenario closed it)
			if !strings.Contains(sc.name, "Conn.Close") {
				e.b.Lock()
				for _, k := range sc.silent {
					e.b.Auto[k] = true
				}
				e.b.Policy = nil
				e.b.Unlock()
				ctx2, cancel2 := context.WithTimeout(context.Background(), 2*time.Second)
				_, ferr, fret := timed(4*time.Second, func() error { return e.conn.SendBaseTime(ctx2, &message.BaseTime{Name: "after"}) })
				cancel2()
				if !fret || ferr != nil {
					h.Violate(fmt.Sprintf("%s: afterwards a fresh SendMetadata does not work any more (returned=%v err=%v)", sc.name, fret, ferr))
					h.Op("fresh-call", "FAILED")
				} else {
					h.Op("fresh-call", "ok")
				}
			}
			e.teardown()
			if h.Distinct(sc.name) {
				h.Sample()
			}
		}
	}
}
