package main

import (
	"fmt"
	"sort"
	"strings"

	"verif.local/harness/lp"
)

func gen(h *lp.H, do func(string) string, im *impl) {
	rng := h.Rng
	policies := []string{"none", "interval", "size:8", "ios:8", "immediate", "size:0", "size:3", "ios:20"}
	qoss := []string{"r", "u", "p"}
	for c := 0; c < h.N && !h.TooMany(); c++ {
		pol := policies[c%len(policies)]
		qos := qoss[rng.Intn(3)]
		pre := "_"
		nextAlias := 1
		aliased := map[int]int{}
		if rng.Intn(3) == 0 {
			pre = "1,2"
			aliased[1], aliased[2] = 1, 2
			nextAlias = 3
		}
		h.Case(fmt.Sprintf("up %d policy=%s qos=%s pre=%s", c, pol, qos, pre))
		def := ""
		if rng.Intn(3) == 0 {
			def = " def" // the sent storage the library picks by default
		}
		if out := do(fmt.Sprintf("open %s %s %s%s", pol, qos, pre, def)); !strings.HasPrefix(out, "ok") {
			continue
		}
		outstanding := map[int]bool{}
		seen := map[int]bool{}
		lastSeq := 0
		sig := ""
		track := func(out string) {
			// learn new sequence numbers from the implementation's report (for ack generation only)
			if k := strings.Index(out, "state="); k >= 0 {
				var total, last int
				fmt.Sscanf(out[k:], "state=%d/%d/", &total, &last)
				for s := lastSeq + 1; s <= last; s++ {
					outstanding[s] = true
				}
				if last > lastSeq {
					lastSeq = last
				}
			}
		}
		nops := 6 + rng.Intn(24)
		for s := 0; s < nops && !h.TooMany(); s++ {
			switch k := rng.Intn(16); {
			case k < 8:
				id := 1 + rng.Intn(4)
				np := []int{0, 1, 1, 2, 3}[rng.Intn(5)]
				var pts []string
				for j := 0; j < np; j++ {
					sz := []int{0, 1, 2, 3, 4, 5, 8, 9}[rng.Intn(8)]
					b := make([]byte, sz)
					rng.Read(b)
					pts = append(pts, fmt.Sprintf("%d/%s", rng.Intn(100000), lp.Hex(b)))
				}
				p := "-"
				if len(pts) > 0 {
					p = strings.Join(pts, ";")
				}
				seen[id] = true
				track(do(fmt.Sprintf("write %d %s", id, p)))
				sig += "w"
			case k == 8:
				track(do("tick"))
				sig += "t"
			case k < 11:
				track(do("flush"))
				sig += "f"
			case k < 15:
				// ack: a subset of the outstanding chunks (any order), sometimes an already acknowledged or unknown one, success or failure codes
				var seqs []int
				for q := range outstanding {
					if rng.Intn(2) == 0 {
						seqs = append(seqs, q)
					}
				}
				sort.Ints(seqs)
				rng.Shuffle(len(seqs), func(a, b int) { seqs[a], seqs[b] = seqs[b], seqs[a] })
				var rs []string
				for _, q := range seqs {
					code := []int{1, 1, 1, 7, 20}[rng.Intn(5)]
					rs = append(rs, fmt.Sprintf("%d:%d", q, code))
					delete(outstanding, q)
				}
				if rng.Intn(5) == 0 && lastSeq > 0 {
					rs = append(rs, fmt.Sprintf("%d:1", 1+rng.Intn(lastSeq))) // duplicate / already acknowledged
				}
				if rng.Intn(8) == 0 {
					rs = append(rs, fmt.Sprintf("%d:1", lastSeq+5+rng.Intn(3))) // unknown sequence number
				}
				var as []string
				for id := range seen {
					if _, ok := aliased[id]; !ok && rng.Intn(2) == 0 {
						aliased[id] = nextAlias
						nextAlias++
						as = append(as, fmt.Sprintf("%d=%d", aliased[id], id))
					} else if ok && rng.Intn(6) == 0 {
						as = append(as, fmt.Sprintf("%d=%d", aliased[id], id)) // announced again
					}
				}
				sort.Strings(as)
				r, a := "_", "_"
				if len(rs) > 0 {
					r = strings.Join(rs, ",")
				}
				if len(as) > 0 {
					a = strings.Join(as, ",")
				}
				track(do(fmt.Sprintf("ack %s %s", r, a)))
				sig += "a"
			case k == 15 && rng.Intn(2) == 0 && qos == "r":
				// transport failure at this position: between ops / right after a chunk arrived, before its ack / with a chunk in flight
				op := []string{"kill", "killafter", "killdrop"}[rng.Intn(3)]
				track(do(op))
				for q := range outstanding {
					delete(outstanding, q) // retransmitted and acknowledged during the resume (reliable) or dropped with the store
				}
				sig += "K"
			default:
				track(do("state"))
				sig += "s"
			}
		}
		// acknowledge everything outstanding, then Close
		if len(outstanding) > 0 {
			var rs []string
			for q := range outstanding {
				rs = append(rs, fmt.Sprintf("%d:1", q))
			}
			sort.Strings(rs)
			track(do(fmt.Sprintf("ack %s _", strings.Join(rs, ","))))
		}
		out := do("close")
		if !strings.HasPrefix(out, "err") && out != "hang" {
			im.oracle(h)
		}
		if h.Distinct(fmt.Sprintf("%s/%s/%s/%s", pol, qos, pre, sig)) && strings.Count(sig, "a") >= 2 {
			h.Sample()
		}
	}
	// ---- concurrent mode (oracle only): several writer goroutines, real tickers, Flush from other goroutines, the broker
	// acknowledging on its own (immediately, with alias assignment); then Close and the conservation oracle on the ledger.
	for c := 0; c < h.N/8+2 && !h.TooMany(); c++ {
		k := 2 + rng.Intn(7)
		pol := []string{"realinterval", "size:16", "ios:16", "immediate", "none"}[rng.Intn(5)]
		h.Case(fmt.Sprintf("conc %d writers=%d policy=%s", c, k, pol))
		out := im.concurrent(h, k, 20+rng.Intn(60), pol, rng.Int63())
		h.Op(fmt.Sprintf("concurrent %d %s", k, pol), out)
		h.Distinct(fmt.Sprintf("conc/%d/%s/%d", k, pol, c))
	}
	// ---- state snapshots while chunks are being cut (oracle only): many cuts, pollers on other cores
	for c := 0; c < 2 && !h.TooMany(); c++ {
		pol := []string{"immediate", "size:16"}[c%2]
		h.Case(fmt.Sprintf("statehammer %d policy=%s", c, pol))
		out := im.concurrent(h, 4, 1200, pol, rng.Int63())
		h.Op(fmt.Sprintf("concurrent 4 %s", pol), out)
		h.Distinct(fmt.Sprintf("statehammer/%s", pol))
	}
	// ---- Flush as a barrier right after abandoned Flush calls (oracle only)
	if !h.TooMany() {
		h.Case("flushstorm")
		out := im.flushStorm(h, 150)
		h.Op("concurrent 0 flushstorm", out)
		h.Distinct("flushstorm")
	}
	// ---- a chunk with many points of one data id, then flush triggers with nothing new: no chunk is cut empty (lock-step)
	for c, pol := range []string{"none", "interval"} {
		h.Case(fmt.Sprintf("bigchunk %d policy=%s", c, pol))
		var pts []string
		for k := 0; k < 600; k++ {
			pts = append(pts, fmt.Sprintf("%d/%02x", k, k%251))
		}
		do("open " + pol + " r _")
		do("write 1 " + strings.Join(pts, ";"))
		do("write 2 1/aa;2/bb")
		do("flush")
		do("flush")
		do("tick")
		do("ack 1:1 _")
		do("write 2 3/cc")
		do("tick")
		do("flush")
		do("flush")
		do("ack 2:1 _")
		if out := do("close"); !strings.HasPrefix(out, "err") && out != "hang" {
			im.oracle(h)
		}
		h.Distinct("bigchunk/" + pol)
	}
	// ---- writers racing with Close (oracle only)
	for c := 0; c < h.N/40+3 && !h.TooMany(); c++ {
		k := 6 + rng.Intn(11)
		pol := []string{"interval300", "none", "size:16"}[c%3]
		h.Case(fmt.Sprintf("raceclose %d writers=%d policy=%s", c, k, pol))
		out := im.concurrentX(h, k, 400, pol, rng.Int63(), true)
		h.Op(fmt.Sprintf("concurrent %d %s", k, pol), out)
		h.Distinct(fmt.Sprintf("raceclose/%d/%s/%d", k, pol, c))
	}
}
