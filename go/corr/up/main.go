// Correspondence harness for C01 / C20 (and the connection-stays-up part of C02): a real iscp.Conn + Upstream
// against the scripted in-memory broker, driven in lock step, compared op by op with the Lean model (topic `up`),
// plus the property's own oracle evaluated on the broker's ledger.
package main

import (
	"context"
	"fmt"
	"math"
	"sort"
	"strconv"
	"strings"
	"sync"
	"sync/atomic"
	"time"

	"github.com/aptpod/iscp-go/iscp"
	"github.com/aptpod/iscp-go/message"
	uuid "github.com/google/uuid"
	"verif.local/harness/broker"
	"verif.local/harness/dp"
	"verif.local/harness/lp"
)

const watchdog = 3 * time.Second

// policy wrapper: delegates IsFlush to the library's own policy object, reports every decision, and owns the ticker
type policy struct {
	real     iscp.FlushPolicy
	ticks    bool
	tickCh   chan time.Time
	decision chan bool
	asked    chan uint32 // the buffered payload size the library asked the policy about
}

func (p *policy) Ticker() (<-chan time.Time, func()) {
	if p.ticks {
		return p.tickCh, func() {}
	}
	return p.real.Ticker()
}
func (p *policy) IsFlush(size uint32) bool {
	d := p.real.IsFlush(size)
	select {
	case p.asked <- size:
	default:
	}
	p.decision <- d
	return d
}

type storage struct {
	iscp.VerifSentStorage
	mu      sync.Mutex
	removed map[uint32]bool
	stored  map[uint32]bool
}

func (s *storage) Store(ctx context.Context, id uuid.UUID, seq uint32, g iscp.DataPointGroups) error {
	s.mu.Lock()
	s.stored[seq] = true
	s.mu.Unlock()
	return s.VerifSentStorage.Store(ctx, id, seq, g)
}
func (s *storage) Remove(ctx context.Context, id uuid.UUID, seq uint32) (iscp.DataPointGroups, error) {
	g, err := s.VerifSentStorage.Remove(ctx, id, seq)
	s.mu.Lock()
	s.removed[seq] = true
	s.mu.Unlock()
	return g, err
}

type impl struct {
	diag             string // diagnostics of the last incomplete resume (goes into the evidence)
	b                *broker.Broker
	conn             *iscp.Conn
	up               *iscp.Upstream
	pol              *policy
	st               *storage
	mu               sync.Mutex
	sendHook         []string
	ackHook          []string
	logPos           int
	nSend            int
	nAck             int
	results          int             // results sent by the broker so far
	waiting          map[uint32]bool // seqs cut and not yet acked (a waiter is registered)
	sentinel         int
	accepted         map[int][]string // oracle: points written per data id token, in order
	closed           bool
	unsettled        string
	reliable         bool
	resumedEv        int
	onlyInc          int
	lostInFlight     int
	sortAck          bool
	dupTransmissions int
	seenOnInc        map[string]string // incarnation/sequence -> chunk as reported
	dupSeqs          map[uint32]int    // sequence numbers transmitted twice on one transport (copies still to be matched by an extra ack)
	ackedOnce        map[string]bool
	autoAcked        bool // the broker acknowledged by itself during this op (kill*, close): every copy of a chunk got its own ack
	bufBytes         int  // oracle: payload bytes written since the last chunk was cut
	sizeViolation    string
}

func waitUntil(f func() bool) bool {
	for t := time.Now(); time.Since(t) < watchdog; time.Sleep(100 * time.Microsecond) {
		if f() {
			return true
		}
	}
	return f()
}

func realPolicy(spec string) (iscp.FlushPolicy, bool) {
	var c iscp.UpstreamConfig
	ticks := false
	switch {
	case spec == "none":
		iscp.WithUpstreamFlushPolicyNone()(&c)
	case spec == "interval":
		iscp.WithUpstreamFlushPolicyIntervalOnly(time.Hour)(&c)
		ticks = true
	case strings.HasPrefix(spec, "size:"):
		n, _ := strconv.Atoi(spec[5:])
		iscp.WithUpstreamFlushPolicyBufferSizeOnly(uint32(n))(&c)
	case strings.HasPrefix(spec, "ios:"):
		n, _ := strconv.Atoi(spec[4:])
		iscp.WithUpstreamFlushPolicyIntervalOrBufferSize(time.Hour, uint32(n))(&c)
		ticks = true
	case spec == "immediate":
		iscp.WithUpstreamFlushPolicyImmediately()(&c)
	default:
		panic("policy " + spec)
	}
	return c.FlushPolicy, ticks
}

func showWire(gs []*message.DataPointGroup) string {
	parts := make([]string, len(gs))
	for i, g := range gs {
		ref := ""
		switch t := g.DataIDOrAlias.(type) {
		case *message.DataID:
			ref = "I" + strconv.Itoa(dp.Tok(t))
		case message.DataIDAlias:
			ref = "A" + strconv.Itoa(int(t))
		}
		parts[i] = ref + ":" + dp.ShowPoints(g.DataPoints)
	}
	sort.Strings(parts)
	return strings.Join(parts, "|")
}

func showIDs(ids []*message.DataID) string {
	t := make([]int, len(ids))
	for i, d := range ids {
		t[i] = dp.Tok(d)
	}
	sort.Ints(t)
	s := make([]string, len(t))
	for i, v := range t {
		s[i] = strconv.Itoa(v)
	}
	return strings.Join(s, ",")
}

func (i *impl) open(pol, qos, pre string, defaultStore bool) string {
	i.b = broker.New()
	i.b.HoldAcks = true
	i.b.Register()
	i.st = &storage{VerifSentStorage: iscp.VerifNewInmemSentStorage(), removed: map[uint32]bool{}, stored: map[uint32]bool{}}
	opts := []iscp.ConnOption{iscp.WithConnPingInterval(20 * time.Millisecond), iscp.WithConnPingTimeout(400 * time.Millisecond)}
	if defaultStore {
		i.st = nil // whatever sent storage the library chooses by itself
	} else {
		opts = append(opts, iscp.VerifWithSentStorage(i.st))
	}
	conn, err := iscp.Connect("mem", broker.TransportName, opts...)
	if err != nil {
		return "err connect " + err.Error()
	}
	i.conn = conn
	rp, ticks := realPolicy(pol)
	i.pol = &policy{real: rp, ticks: ticks, tickCh: make(chan time.Time), decision: make(chan bool, 16), asked: make(chan uint32, 64)}
	q := map[string]message.QoS{"r": message.QoSReliable, "u": message.QoSUnreliable, "p": message.QoSPartial}[qos]
	var ids []*message.DataID
	if pre != "_" {
		for _, t := range strings.Split(pre, ",") {
			n, _ := strconv.Atoi(t)
			ids = append(ids, dp.ID(n))
		}
	}
	ctx, cancel := context.WithTimeout(context.Background(), watchdog)
	defer cancel()
	up, err := conn.OpenUpstream(ctx, "sess", iscp.WithUpstreamFlushPolicy(i.pol), iscp.WithUpstreamQoS(q), iscp.WithUpstreamDataIDs(ids),
		iscp.WithUpstreamCloseTimeout(watchdog),
		iscp.WithUpstreamResumedEventHandler(iscp.UpstreamResumedEventHandlerFunc(func(*iscp.UpstreamResumedEvent) {
			i.mu.Lock()
			i.resumedEv++
			i.mu.Unlock()
		})),
		iscp.WithUpstreamSendDataPointsHooker(iscp.SendDataPointsHookerFunc(func(_ uuid.UUID, c iscp.UpstreamChunk) {
			i.mu.Lock()
			i.sendHook = append(i.sendHook, fmt.Sprintf("%d{%s}", c.SequenceNumber, dp.ShowGroupsSorted(c.DataPointGroups)))
			i.mu.Unlock()
		})),
		iscp.WithUpstreamReceiveAckHooker(iscp.ReceiveAckHookerFunc(func(_ uuid.UUID, r iscp.UpstreamChunkResult) {
			i.mu.Lock()
			i.ackHook = append(i.ackHook, fmt.Sprintf("%d:%d", r.SequenceNumber, int(r.ResultCode)))
			i.mu.Unlock()
		})))
	if err != nil {
		return "err open " + err.Error()
	}
	i.up = up
	i.reliable = qos == "r"
	i.onlyInc = -1
	i.logPos = i.b.LogLen()
	i.waiting = map[uint32]bool{}
	i.accepted = map[int][]string{}
	return "ok " + i.aliases()
}

func (i *impl) aliases() string {
	st := i.up.State()
	var parts []string
	for a, d := range st.DataIDAliases {
		if a >= 100000 {
			continue
		}
		parts = append(parts, fmt.Sprintf("%06d=%d", a, dp.Tok(d)))
	}
	sort.Strings(parts)
	for k, p := range parts {
		parts[k] = strings.TrimLeft(p[:6], "0") + p[6:]
	}
	return "aliases=" + strings.Join(parts, ",")
}

// settle: every cut chunk has reached the broker and its send hook ran; every result's ack hook ran
func (i *impl) settle() {
	last := i.up.State().LastIssuedSequenceNumber
	ok := waitUntil(func() bool {
		seen := map[uint32]bool{}
		for _, r := range i.b.LogFrom(0) {
			if c, ok := r.Msg.(*message.UpstreamChunk); ok {
				seen[c.StreamChunk.SequenceNumber] = true
			}
		}
		n := len(seen)
		i.mu.Lock()
		defer i.mu.Unlock()
		return n >= int(last)-i.lostInFlight && len(i.sendHook) >= int(last) && len(i.ackHook) >= i.results
	})
	if !ok {
		i.mu.Lock()
		i.unsettled = fmt.Sprintf(" UNSETTLED(last=%d sendhook=%d ackhook=%d results=%d)", last, len(i.sendHook), len(i.ackHook), i.results)
		i.mu.Unlock()
	}
}

// reportOld: report restricted to chunks that arrived on incarnations up to n (the rest are retransmissions listed separately)
func (i *impl) reportOld(n int) string {
	i.onlyInc = n
	defer func() { i.onlyInc = -1 }()
	return i.report()
}

func (i *impl) noteDup(seq uint32) {
	if i.dupSeqs == nil {
		i.dupSeqs = map[uint32]int{}
	}
	i.dupSeqs[seq]++
}

// report: everything observable that is new since the previous op
func (i *impl) report() string {
	i.settle()
	var chunks []string
	closeReq := ""
	recs := i.b.LogFrom(i.logPos)
	i.logPos += len(recs)
	type ch struct {
		seq uint32
		s   string
	}
	var cs []ch
	if i.seenOnInc == nil {
		i.seenOnInc = map[string]string{}
	}
	for _, r := range recs {
		switch m := r.Msg.(type) {
		case *message.UpstreamChunk:
			if i.onlyInc >= 0 && r.Inc > i.onlyInc {
				continue
			}
			sig := fmt.Sprintf("%d{%s}{%s}", m.StreamChunk.SequenceNumber, showWire(m.StreamChunk.DataPointGroups), showIDs(m.DataIDs))
			// the second copy of a doubly transmitted chunk (see below) may arrive while a later op is running: a copy identical to
			// one this transport has delivered already is counted, not reported (different content under one number is judged by
			// the oracle on the whole ledger)
			key := fmt.Sprintf("%d/%d", r.Inc, m.StreamChunk.SequenceNumber)
			if prev, ok := i.seenOnInc[key]; ok && prev == sig {
				i.dupTransmissions++
				i.noteDup(m.StreamChunk.SequenceNumber)
				continue
			}
			i.seenOnInc[key] = sig
			cs = append(cs, ch{m.StreamChunk.SequenceNumber, sig})
			i.waiting[m.StreamChunk.SequenceNumber] = true
		case *message.UpstreamCloseRequest:
			closeReq = fmt.Sprintf(" close=%d/%d", m.TotalDataPoints, m.FinalSequenceNumber)
		}
	}
	sort.Slice(cs, func(a, b int) bool { return cs[a].seq < cs[b].seq })
	for k, c := range cs {
		// a chunk cut right after a resume can be transmitted twice (by its own sender and by the retransmission pass that
		// lists the store concurrently): identical copies are reported once
		if k > 0 && cs[k-1].s == c.s {
			i.dupTransmissions++
			i.noteDup(c.seq)
			continue
		}
		chunks = append(chunks, c.s)
	}
	st := i.up.State()
	i.mu.Lock()
	sh := append([]string{}, i.sendHook[i.nSend:]...)
	ah := append([]string{}, i.ackHook[i.nAck:]...)
	i.nSend, i.nAck = len(i.sendHook), len(i.ackHook)
	i.mu.Unlock()
	sort.Strings(sh)
	// a chunk that went out twice (see above) is acknowledged twice by a broker that acknowledges what it receives: the second,
	// identical result of such a chunk is counted, not reported
	if len(i.dupSeqs) > 0 && i.autoAcked {
		var dd []string
		seenAck := map[string]bool{}
		for _, a := range ah {
			var q uint32
			fmt.Sscanf(a, "%d:", &q)
			if i.dupSeqs[q] > 0 && (seenAck[a] || i.ackedOnce[a]) {
				i.dupSeqs[q]--
				i.dupTransmissions++
				continue
			}
			seenAck[a] = true
			if i.dupSeqs[q] > 0 {
				if i.ackedOnce == nil {
					i.ackedOnce = map[string]bool{}
				}
				i.ackedOnce[a] = true
			}
			dd = append(dd, a)
		}
		ah = dd
	}
	if i.sortAck {
		sort.Slice(ah, func(a, b int) bool {
			var x, y int
			fmt.Sscanf(ah[a], "%d:", &x)
			fmt.Sscanf(ah[b], "%d:", &y)
			return x < y
		})
		// across an outage a chunk can be transmitted (and then acknowledged) twice - see above; identical results are
		// reported once, the duplicates counted
		var dd []string
		for k, a := range ah {
			if k > 0 && ah[k-1] == a {
				i.dupTransmissions++
				continue
			}
			dd = append(dd, a)
		}
		ah = dd
	}
	if i.unsettled != "" {
		closeReq += i.unsettled
		i.unsettled = ""
	}
	return fmt.Sprintf("chunks=[%s] state=%d/%d/%s/%s sendhook=[%s] ackhook=[%s]%s", strings.Join(chunks, ";"), st.TotalDataPoints, st.LastIssuedSequenceNumber,
		dp.ShowGroupsSorted(st.DataPointsBuffer), i.aliases()[8:], strings.Join(sh, ";"), strings.Join(ah, ","), closeReq)
}

func (i *impl) exec(op string) string {
	w := strings.Fields(op)
	if w[0] == "open" {
		if i.conn != nil {
			c, cancel := context.WithTimeout(context.Background(), 200*time.Millisecond)
			i.conn.Close(c)
			cancel()
		}
		*i = impl{}
		return i.open(w[1], w[2], w[3], len(w) > 4 && w[4] == "def")
	}
	if i.up == nil {
		return "nostream"
	}
	ctx, cancel := context.WithTimeout(context.Background(), watchdog)
	defer cancel()
	switch w[0] {
	case "write":
		tok, _ := strconv.Atoi(w[1])
		pts := ""
		if w[2] != "-" {
			pts = w[2]
		}
		st0 := i.up.State()
		before := st0.LastIssuedSequenceNumber
		appSlice := dp.ParsePoints(pts)
		if len(st0.DataPointsBuffer) == 0 {
			i.bufBytes = 0 // whatever cut the last chunk (size, tick, Flush, outage) emptied the buffer
		}
		for _, p := range appSlice {
			i.bufBytes += len(p.Payload)
		}
		if err := i.up.WriteDataPoints(ctx, dp.ID(tok), appSlice...); err != nil {
			return "err " + err.Error()
		}
		// the application owns its slice again once WriteDataPoints has returned and reuses it for something else
		defer func() {
			for k := range appSlice {
				appSlice[k] = &message.DataPoint{ElapsedTime: 424242, Payload: []byte("reused by the application")}
			}
		}()
		if pts != "" {
			i.accepted[tok] = append(i.accepted[tok], strings.Split(pts, ";")...)
		}
		select {
		case d := <-i.pol.decision:
			// the size the policy is asked about is the payload buffered since the last cut - nothing that was cut already
			select {
			case asked := <-i.pol.asked:
				if int(asked) != i.bufBytes && i.sizeViolation == "" {
					i.sizeViolation = fmt.Sprintf("after `%s` the flush policy was asked whether %d buffered payload bytes exceed its threshold; %d bytes have been written since the last chunk was cut", op, asked, i.bufBytes)
				}
			default:
			}
			if d {
				waitUntil(func() bool { return i.up.State().LastIssuedSequenceNumber > before })
				i.bufBytes = 0
			}
		case <-time.After(watchdog):
			return "hang"
		}
		return i.report()
	case "tick":
		if !i.pol.ticks {
			return i.report()
		}
		st := i.up.State()
		select {
		case i.pol.tickCh <- time.Now():
		case <-time.After(watchdog):
			return "hang"
		}
		if len(st.DataPointsBuffer) > 0 {
			// an interval policy holds accepted points (whatever their payload size, zero included) for one interval at most
			if !waitUntil(func() bool { return i.up.State().LastIssuedSequenceNumber > st.LastIssuedSequenceNumber }) && i.sizeViolation == "" {
				n := 0
				for _, g := range st.DataPointsBuffer {
					n += len(g.DataPoints)
				}
				if n > 0 {
					i.sizeViolation = fmt.Sprintf("the interval elapsed (`tick`) with %d accepted point(s) in the buffer and no chunk was cut within the watchdog: accepted data is held longer than one interval", n)
				}
			}
		} else {
			// the loop is back at its select once it accepts a second, harmless interaction: an explicit flush of the empty buffer
			i.up.Flush(ctx)
		}
		return i.report()
	case "flush":
		if err := i.up.Flush(ctx); err != nil {
			return "err " + err.Error()
		}
		return i.report()
	case "ack":
		// ack <seq:code,...|_> <alias=id,...|_>
		inc := i.b.Cur()
		var res []*message.UpstreamChunkResult
		var mustRemove []uint32
		if w[1] != "_" {
			for _, sc := range strings.Split(w[1], ",") {
				p := strings.Split(sc, ":")
				s, _ := strconv.Atoi(p[0])
				c, _ := strconv.Atoi(p[1])
				res = append(res, &message.UpstreamChunkResult{SequenceNumber: uint32(s), ResultCode: message.ResultCode(c), ResultString: "r", ExtensionFields: &message.UpstreamChunkResultExtensionFields{}})
				if i.waiting[uint32(s)] {
					mustRemove = append(mustRemove, uint32(s))
					delete(i.waiting, uint32(s))
				}
			}
		}
		als := map[uint32]*message.DataID{}
		if w[2] != "_" {
			for _, ai := range strings.Split(w[2], ",") {
				p := strings.Split(ai, "=")
				a, _ := strconv.Atoi(p[0])
				d, _ := strconv.Atoi(p[1])
				als[uint32(a)] = dp.ID(d)
				if st := inc.UpByAlias(0); st != nil {
					i.b.Lock()
					if _, dup := st.Aliases[uint32(a)]; !dup {
						st.Aliases[uint32(a)] = dp.ID(d)
					}
					i.b.Unlock()
				}
			}
		}
		// FIFO sentinel through readAliasLoop: a fresh alias for an id nobody uses
		i.sentinel++
		sa := uint32(100000 + i.sentinel)
		alias := uint32(0) // the first upstream of an incarnation
		inc.Send(&message.UpstreamChunkAck{StreamIDAlias: alias, Results: res, DataIDAliases: als, ExtensionFields: &message.UpstreamChunkAckExtensionFields{}})
		inc.Send(&message.UpstreamChunkAck{StreamIDAlias: alias, DataIDAliases: map[uint32]*message.DataID{sa: dp.ID(900000 + i.sentinel)}, ExtensionFields: &message.UpstreamChunkAckExtensionFields{}})
		i.results += len(res)
		if !waitUntil(func() bool { _, ok := i.up.State().DataIDAliases[sa]; return ok }) {
			return "hang"
		}
		waitUntil(func() bool {
			if i.st == nil {
				time.Sleep(2 * time.Millisecond)
				return true
			}
			i.st.mu.Lock()
			defer i.st.mu.Unlock()
			for _, s := range mustRemove {
				if !i.st.removed[s] {
					return false
				}
			}
			return true
		})
		return i.report()
	case "close":
		// the final flush's chunk is acknowledged automatically
		i.b.Lock()
		i.b.HoldAcks = false
		i.b.Unlock()
		before := i.up.State()
		err := i.up.Close(ctx)
		if len(before.DataPointsBuffer) > 0 {
			i.results++
		}
		i.closed = true
		i.autoAcked = true
		out := i.report()
		i.autoAcked = false
		if err != nil {
			return "err " + err.Error() + " " + out
		}
		return out
	case "kill", "killafter", "killdrop":
		// sever the transport (between ops / right after a chunk arrived, before its ack / while a chunk is in flight),
		// let the library reconnect and resume, and report what the stream retransmits
		st := i.up.State()
		willCut := len(st.DataPointsBuffer) > 0
		oldInc := i.b.Cur()
		switch w[0] {
		case "kill":
			oldInc.Kill()
		case "killafter":
			if err := i.up.Flush(ctx); err != nil {
				return "err " + err.Error()
			}
			if willCut {
				seq := st.LastIssuedSequenceNumber + 1
				i.b.WaitFor(func() bool {
					for _, r := range i.b.Log {
						if c, ok := r.Msg.(*message.UpstreamChunk); ok && c.StreamChunk.SequenceNumber == seq {
							return true
						}
					}
					return false
				}, watchdog)
				i.waiting[seq] = true
			}
			willCut = false
			oldInc.Kill()
		case "killdrop":
			i.b.Lock()
			i.b.PreLog = func(inc *broker.Inc, m message.Message) bool {
				if _, ok := m.(*message.UpstreamChunk); ok {
					inc.Kill()
					return true
				}
				return false
			}
			i.b.Unlock()
			if err := i.up.Flush(ctx); err != nil {
				return "err " + err.Error()
			}
			if willCut {
				i.waiting[st.LastIssuedSequenceNumber+1] = true
				waitUntil(func() bool { return oldInc.Dead() })
			} else {
				oldInc.Kill()
			}
			i.b.Lock()
			i.b.PreLog = nil
			i.b.Unlock()
			willCut = false
		}
		if willCut {
			i.waiting[st.LastIssuedSequenceNumber+1] = true // cut by the dying flush loop
		}
		// the broker acknowledges every retransmitted chunk as it arrives (the stream retransmits one chunk at a time)
		i.b.Lock()
		i.b.HoldAcks = false
		i.b.Unlock()
		defer func() {
			i.b.Lock()
			i.b.HoldAcks = true
			i.b.Unlock()
		}()
		want := 0
		if i.reliable {
			want = len(i.waiting)
		}
		i.mu.Lock()
		ev0 := i.resumedEv
		i.mu.Unlock()
		ok := waitUntil(func() bool {
			cur := i.b.Cur()
			if cur == oldInc {
				return false
			}
			n, resumed := 0, false
			for _, r := range i.b.LogFrom(0) {
				if r.Inc != cur.N {
					continue
				}
				switch r.Msg.(type) {
				case *message.UpstreamResumeRequest:
					resumed = true
				case *message.UpstreamChunk:
					n++
				}
			}
			i.mu.Lock()
			defer i.mu.Unlock()
			return resumed && n >= want && i.resumedEv > ev0
		})
		// the acknowledgements of the retransmitted chunks are processed asynchronously (hook dispatch, removal from the store):
		// the op is over when they have been, not merely when the chunks arrived
		if ok && i.reliable && len(i.waiting) > 0 {
			var seqs []uint32
			for q := range i.waiting {
				seqs = append(seqs, q)
			}
			i.mu.Lock()
			nAck0 := i.nAck
			i.mu.Unlock()
			waitUntil(func() bool {
				i.mu.Lock()
				hooks := len(i.ackHook) - nAck0
				i.mu.Unlock()
				if hooks < len(seqs) {
					return false
				}
				if i.st == nil {
					return true
				}
				i.st.mu.Lock()
				defer i.st.mu.Unlock()
				for _, q := range seqs {
					if !i.st.removed[q] {
						return false
					}
				}
				return true
			})
		}
		// what arrived on the new incarnation
		cur := i.b.Cur()
		var resent []string
		var sameID = "same"
		for _, r := range i.b.LogFrom(0) {
			if r.Inc != cur.N {
				continue
			}
			switch m := r.Msg.(type) {
			case *message.UpstreamResumeRequest:
				if up := cur.UpByAlias(0); up == nil || up.ID != m.StreamID {
					sameID = "other"
				}
			case *message.UpstreamChunk:
				resent = append(resent, fmt.Sprintf("%06d{%s}{%s}", m.StreamChunk.SequenceNumber, showWire(m.StreamChunk.DataPointGroups), showIDs(m.DataIDs)))
			}
		}
		sort.Strings(resent)
		var uniq []string
		for k := range resent {
			if k > 0 && resent[k] == resent[k-1] {
				i.dupTransmissions++ // the same chunk sent twice on the new transport (identical content): reported once
				continue
			}
			uniq = append(uniq, resent[k])
		}
		resent = uniq
		for k := range resent {
			resent[k] = strings.TrimLeft(resent[k][:6], "0") + resent[k][6:]
		}
		if i.reliable {
			i.results += len(i.waiting) // each retransmission was acknowledged
			i.waiting = map[uint32]bool{}
		}
		if !i.reliable {
			i.waiting = map[uint32]bool{}
			seen := map[uint32]bool{}
			for _, r := range i.b.LogFrom(0) {
				if c, ok := r.Msg.(*message.UpstreamChunk); ok {
					seen[c.StreamChunk.SequenceNumber] = true
				}
			}
			i.lostInFlight = int(i.up.State().LastIssuedSequenceNumber) - len(seen)
		}
		// chunks of the new incarnation are reported here, not as "new chunks" of the next op
		i.sortAck = true
		rep := i.reportOld(oldInc.N)
		i.sortAck = false
		i.waiting = map[uint32]bool{} // everything outstanding was retransmitted and acknowledged (or dropped with the store for non-reliable QoS)
		if !ok {
			rep += " RESUME-INCOMPLETE"
			i.b.Lock()
			nInc, dials := len(i.b.Incs), i.b.Dials
			i.b.Unlock()
			var last []string
			lg := i.b.LogFrom(0)
			for k := len(lg) - 1; k >= 0 && len(last) < 8; k-- {
				last = append(last, fmt.Sprintf("%d:%T", lg[k].Inc, lg[k].Msg))
			}
			i.diag = fmt.Sprintf("op=%s status=%d incs=%d dials=%d last=%v", op, i.conn.VerifConnStatus(), nInc, dials, last)
		}
		return rep + fmt.Sprintf(" resumed=%s resent=[%s]", sameID, strings.Join(resent, ";"))
	case "state":
		return i.report()
	}
	return "bad-op"
}

// flushStorm: Flush is a barrier also right after Flush calls that were abandoned. Per round: four goroutines call Flush with a
// context that is already cancelled or ends at once; then one point is written and Flush is called with a live context: when it
// returns nil the buffer must be empty and everything accepted must have been cut. (Policy none: nothing else cuts.)
func (i *impl) flushStorm(h *lp.H, rounds int) string {
	if i.conn != nil {
		c, cancel := context.WithTimeout(context.Background(), 200*time.Millisecond)
		i.conn.Close(c)
		cancel()
	}
	*i = impl{}
	i.b = broker.New()
	i.b.Register()
	conn, err := iscp.Connect("mem", broker.TransportName, iscp.WithConnPingInterval(time.Hour), iscp.WithConnPingTimeout(time.Hour))
	if err != nil {
		return "err connect"
	}
	i.conn = conn
	rp, _ := realPolicy("none")
	ctx, cancel := context.WithTimeout(context.Background(), 20*time.Second)
	defer cancel()
	up, err := conn.OpenUpstream(ctx, "s", iscp.WithUpstreamFlushPolicy(rp), iscp.WithUpstreamQoS(message.QoSReliable), iscp.WithUpstreamCloseTimeout(watchdog))
	if err != nil {
		return "err open"
	}
	i.up = up
	accepted := 0
	for r := 0; r < rounds; r++ {
		var wg sync.WaitGroup
		for g := 0; g < 4; g++ {
			wg.Add(1)
			go func(g int) {
				defer wg.Done()
				c, cc := context.WithCancel(context.Background())
				if g%2 == 0 {
					cc()
				} else {
					time.AfterFunc(time.Duration(g)*20*time.Microsecond, cc)
				}
				up.Flush(c)
				cc()
			}(g)
		}
		wg.Wait()
		if err := up.WriteDataPoints(ctx, dp.ID(1), dp.ParsePoints(fmt.Sprintf("%d/01", r))...); err != nil {
			return "err write"
		}
		accepted++
		fctx, fc := context.WithTimeout(ctx, watchdog)
		err := up.Flush(fctx)
		fc()
		if err != nil {
			h.Violate(fmt.Sprintf("flushstorm round %d: Flush with a live context failed after abandoned Flush calls: %v", r, err))
			return "ok"
		}
		st := up.State()
		buffered := 0
		for _, g := range st.DataPointsBuffer {
			buffered += len(g.DataPoints)
		}
		if buffered != 0 || int(st.TotalDataPoints) != accepted {
			h.Violate(fmt.Sprintf("flushstorm round %d: Flush returned nil after abandoned (cancelled) Flush calls, and the state shows %d point(s) still buffered, %d of %d accepted points cut: Flush returned before its own flush ran", r, buffered, st.TotalDataPoints, accepted))
			return "ok"
		}
	}
	if err := up.Close(ctx); err != nil {
		h.Violate("flushstorm: Close failed: " + err.Error())
	}
	h.Count("conc:flushstorm-rounds-" + strconv.Itoa(rounds))
	return "ok"
}

// concurrent: k goroutines write their own data id, others call Flush; the broker acknowledges by itself
func (i *impl) concurrent(h *lp.H, k, n int, pol string, seed int64) string {
	return i.concurrentX(h, k, n, pol, seed, false)
}

// concurrentX with raceClose: Close is called while the writers are still writing; acks are delayed by 15 ms. A write that
// returned nil must be on the broker's ledger before the close request and counted in its total; a write refused because the
// stream is closing is not a failure.
func (i *impl) concurrentX(h *lp.H, k, n int, pol string, seed int64, raceClose bool) string {
	if i.conn != nil {
		c, cancel := context.WithTimeout(context.Background(), 200*time.Millisecond)
		i.conn.Close(c)
		cancel()
	}
	*i = impl{}
	i.b = broker.New()
	i.b.AssignAliases = true
	i.b.Register()
	conn, err := iscp.Connect("mem", broker.TransportName, iscp.WithConnPingInterval(time.Hour), iscp.WithConnPingTimeout(time.Hour))
	if err != nil {
		return "err connect"
	}
	i.conn = conn
	var opt iscp.UpstreamOption
	if raceClose {
		i.b.Policy = func(inc *broker.Inc, m message.Message) bool {
			if c, ok := m.(*message.UpstreamChunk); ok {
				go func() {
					time.Sleep(15 * time.Millisecond)
					inc.AckChunks([]uint32{c.StreamChunk.SequenceNumber}, c.StreamIDAlias, message.ResultCodeSucceeded, true, c.DataIDs)
				}()
				return true
			}
			return false
		}
	}
	if pol == "interval300" {
		opt = iscp.WithUpstreamFlushPolicyIntervalOnly(300 * time.Millisecond)
	} else if pol == "realinterval" {
		opt = iscp.WithUpstreamFlushPolicyIntervalOnly(time.Millisecond)
	} else {
		rp, _ := realPolicy(strings.Replace(pol, "ios:", "size:", 1))
		if strings.HasPrefix(pol, "ios:") {
			n, _ := strconv.Atoi(pol[4:])
			opt = iscp.WithUpstreamFlushPolicyIntervalOrBufferSize(time.Millisecond, uint32(n))
		} else {
			opt = iscp.WithUpstreamFlushPolicy(rp)
		}
	}
	ctx, cancel := context.WithTimeout(context.Background(), 5*watchdog)
	defer cancel()
	up, err := conn.OpenUpstream(ctx, "s", opt, iscp.WithUpstreamQoS(message.QoSReliable), iscp.WithUpstreamCloseTimeout(watchdog),
		iscp.WithUpstreamSendDataPointsHooker(iscp.SendDataPointsHookerFunc(func(_ uuid.UUID, c iscp.UpstreamChunk) {
			i.mu.Lock()
			i.sendHook = append(i.sendHook, "x")
			i.mu.Unlock()
		})))
	if err != nil {
		return "err open"
	}
	i.up = up
	i.accepted = map[int][]string{}
	var wg sync.WaitGroup
	var amu sync.Mutex
	failed := ""
	// State() pollers: a snapshot taken at any moment - in particular while the flush loop is cutting a chunk - never counts a
	// point twice: points reported sent plus points reported buffered never exceed the points whose write has been started
	// (read after the snapshot), and the sent total and the last issued sequence number never go back.
	var started int64
	stopPoll := make(chan struct{})
	var pollWg sync.WaitGroup
	var snapshots int64
	snapViolation := ""
	if !raceClose {
		for p := 0; p < 3; p++ {
			pollWg.Add(1)
			go func() {
				defer pollWg.Done()
				var lastTot uint64
				var lastSeq uint32
				for {
					select {
					case <-stopPoll:
						return
					default:
					}
					st := up.State()
					lim := atomic.LoadInt64(&started)
					buffered := 0
					for _, g := range st.DataPointsBuffer {
						buffered += len(g.DataPoints)
					}
					atomic.AddInt64(&snapshots, 1)
					what := ""
					switch {
					case int64(st.TotalDataPoints)+int64(buffered) > lim:
						what = fmt.Sprintf("a state snapshot reports %d points sent plus %d buffered while only %d points had been handed to the stream: data is counted twice", st.TotalDataPoints, buffered, lim)
					case st.TotalDataPoints < lastTot:
						what = fmt.Sprintf("the sent total of the state snapshot went back from %d to %d", lastTot, st.TotalDataPoints)
					case st.LastIssuedSequenceNumber < lastSeq:
						what = fmt.Sprintf("the last issued sequence number of the state snapshot went back from %d to %d", lastSeq, st.LastIssuedSequenceNumber)
					}
					lastTot, lastSeq = st.TotalDataPoints, st.LastIssuedSequenceNumber
					if what != "" {
						amu.Lock()
						if snapViolation == "" {
							snapViolation = what
						}
						amu.Unlock()
						return
					}
				}
			}()
		}
	}
	defer func() {
		select {
		case <-stopPoll:
		default:
			close(stopPoll)
		}
		pollWg.Wait()
	}()
	for g := 0; g < k; g++ {
		wg.Add(1)
		go func(g int) {
			defer wg.Done()
			for j := 0; j < n; j++ {
				pts := fmt.Sprintf("%d/%s", j, lp.Hex([]byte{byte(g), byte(j), byte(j >> 8)}[:1+(j%3)]))
				atomic.AddInt64(&started, 1)
				if err := up.WriteDataPoints(ctx, dp.ID(g+1), dp.ParsePoints(pts)...); err != nil {
					if raceClose {
						return // refused: the stream is closing
					}
					amu.Lock()
					failed = "write failed: " + err.Error()
					amu.Unlock()
					return
				}
				amu.Lock()
				i.accepted[g+1] = append(i.accepted[g+1], pts)
				amu.Unlock()
				if j%17 == g%17 && !raceClose {
					up.Flush(ctx)
				}
			}
		}(g)
	}
	if raceClose {
		time.Sleep(time.Duration(1+seed%4) * time.Millisecond)
		if err := up.Close(ctx); err != nil {
			h.Violate("Close failed on a live connection with an acknowledging broker: " + err.Error())
			wg.Wait()
			return "ok"
		}
		wg.Wait()
		i.oracle(h)
		return "ok"
	}
	wg.Wait()
	close(stopPoll)
	pollWg.Wait()
	h.Count("conc:state-snapshots-" + strconv.Itoa(int(math.Log10(float64(atomic.LoadInt64(&snapshots)+1)))) + "digits")
	if snapViolation != "" {
		h.Violate(snapViolation)
	}
	if failed != "" {
		h.Violate("concurrent writers on a live connection: " + failed)
		return "ok"
	}
	if err := up.Close(ctx); err != nil {
		h.Violate("Close failed on a live connection with an acknowledging broker: " + err.Error())
		return "ok"
	}
	i.b.WaitFor(func() bool { return true }, time.Millisecond)
	i.oracle(h)
	// state snapshot after Close never double counts
	st := up.State()
	tot := 0
	for _, v := range i.accepted {
		tot += len(v)
	}
	if int(st.TotalDataPoints) != tot || len(st.DataPointsBuffer) != 0 {
		h.Violate(fmt.Sprintf("after Close the state reports %d points sent and %d buffered groups, %d were written", st.TotalDataPoints, len(st.DataPointsBuffer), tot))
	}
	h.Count("conc:points-" + strconv.Itoa(tot/100*100))
	return "ok"
}

// oracle: conservation on the broker's ledger after a successful Close
func (i *impl) oracle(h *lp.H) {
	got := map[int][]string{}
	seqs := map[uint32]int{}
	var closeReq *message.UpstreamCloseRequest
	afterClose := 0
	total := 0
	inc := i.b.Cur()
	st := inc.UpByAlias(0)
	// chunks are read in sequence-number order (they travel in one goroutine each and may overtake one another on the way)
	recs := i.b.LogFrom(0)
	var chunkRecs, rest []broker.Rec
	closeSeen := false
	for _, r := range recs {
		if c, ok := r.Msg.(*message.UpstreamChunk); ok {
			if closeSeen {
				afterClose++
			}
			_ = c
			chunkRecs = append(chunkRecs, r)
		} else {
			if _, ok := r.Msg.(*message.UpstreamCloseRequest); ok {
				closeSeen = true
			}
			rest = append(rest, r)
		}
	}
	sort.SliceStable(chunkRecs, func(a, b int) bool {
		return chunkRecs[a].Msg.(*message.UpstreamChunk).StreamChunk.SequenceNumber < chunkRecs[b].Msg.(*message.UpstreamChunk).StreamChunk.SequenceNumber
	})
	// a retransmitted chunk shows up once per transmission: all copies of one sequence number must be identical
	first := map[uint32]string{}
	var uniq []broker.Rec
	for _, r := range chunkRecs {
		m := r.Msg.(*message.UpstreamChunk)
		sig := showWire(m.StreamChunk.DataPointGroups)
		// compare resolved content, not the alias form (an id may have got its alias between two transmissions)
		rs := ""
		for _, g := range m.StreamChunk.DataPointGroups {
			switch t := g.DataIDOrAlias.(type) {
			case *message.DataID:
				rs += fmt.Sprintf("%d:%s|", dp.Tok(t), dp.ShowPoints(g.DataPoints))
			case message.DataIDAlias:
				i.b.Lock()
				id := st.Aliases[uint32(t)]
				i.b.Unlock()
				if id != nil {
					rs += fmt.Sprintf("%d:%s|", dp.Tok(id), dp.ShowPoints(g.DataPoints))
				} else {
					rs += sig
				}
			}
		}
		parts := strings.Split(strings.TrimSuffix(rs, "|"), "|")
		sort.Strings(parts)
		rs = strings.Join(parts, "|")
		if prev, ok := first[m.StreamChunk.SequenceNumber]; ok {
			if prev != rs {
				h.Violate(fmt.Sprintf("sequence number %d was used for different content: %s vs %s", m.StreamChunk.SequenceNumber, prev, rs))
			}
			continue
		}
		first[m.StreamChunk.SequenceNumber] = rs
		uniq = append(uniq, r)
	}
	chunkRecs = uniq
	for _, r := range append(chunkRecs, rest...) {
		switch m := r.Msg.(type) {
		case *message.UpstreamChunk:
			seqs[m.StreamChunk.SequenceNumber]++
			if len(m.StreamChunk.DataPointGroups) == 0 {
				h.Violate(fmt.Sprintf("chunk %d was cut empty", m.StreamChunk.SequenceNumber))
			}
			for _, g := range m.StreamChunk.DataPointGroups {
				var id *message.DataID
				switch t := g.DataIDOrAlias.(type) {
				case *message.DataID:
					id = t
				case message.DataIDAlias:
					i.b.Lock()
					id = st.Aliases[uint32(t)]
					i.b.Unlock()
					if id == nil {
						h.Violate(fmt.Sprintf("chunk %d uses data id alias %d that the broker never handed out", m.StreamChunk.SequenceNumber, t))
						continue
					}
				}
				for _, p := range g.DataPoints {
					got[dp.Tok(id)] = append(got[dp.Tok(id)], fmt.Sprintf("%d/%s", int64(p.ElapsedTime), lp.Hex(p.Payload)))
					total++
				}
			}
		case *message.UpstreamCloseRequest:
			closeReq = m
		}
	}
	if closeReq == nil {
		h.Violate("Close returned nil but the broker saw no close request")
		return
	}
	if afterClose > 0 {
		h.Violate(fmt.Sprintf("%d chunk(s) reached the broker after the close request", afterClose))
	}
	n := len(seqs)
	for s := 1; s <= n; s++ {
		if seqs[uint32(s)] != 1 {
			h.Violate(fmt.Sprintf("chunks are not numbered 1..%d without gaps or reuse: sequence %d seen %d times", n, s, seqs[uint32(s)]))
		}
	}
	if int(closeReq.FinalSequenceNumber) != n || int(closeReq.TotalDataPoints) != total {
		h.Violate(fmt.Sprintf("close request reports %d points / final sequence %d, the broker received %d points in %d chunks", closeReq.TotalDataPoints, closeReq.FinalSequenceNumber, total, n))
	}
	for tok, want := range i.accepted {
		if strings.Join(got[tok], ";") != strings.Join(want, ";") {
			h.Violate(fmt.Sprintf("data id %d: written %v, broker received %v", tok, want, got[tok]))
		}
	}
	for tok, g := range got {
		if _, ok := i.accepted[tok]; !ok && len(g) > 0 {
			h.Violate(fmt.Sprintf("broker received points for data id %d that were never written", tok))
		}
	}
	// hooks are dispatched asynchronously (eventDispatcher): on a loaded machine the last ones can trail Close's return by a
	// few milliseconds. Wait for them (and count that it was necessary); what is judged is that each chunk is announced once.
	trailing := false
	for t := time.Now(); time.Since(t) < 2*time.Second; time.Sleep(200 * time.Microsecond) {
		i.mu.Lock()
		k := len(i.sendHook)
		i.mu.Unlock()
		if k >= n {
			break
		}
		trailing = time.Since(t) > 2*time.Millisecond
	}
	if trailing {
		h.Count("hooks-trailing-close")
	}
	i.mu.Lock()
	defer i.mu.Unlock()
	if len(i.sendHook) != n {
		h.Violate(fmt.Sprintf("send hook called %d times for %d chunks", len(i.sendHook), n))
	}
}

func main() {
	h := lp.New()
	defer h.Finish()
	im := &impl{}
	do := func(op string) string {
		out := im.exec(op)
		if im.diag != "" {
			h.Extra["resume-incomplete"] = im.diag
		}
		h.Op(op, out)
		if im.sizeViolation != "" {
			h.Violate(im.sizeViolation)
			im.sizeViolation = ""
		}
		if out == "hang" || strings.HasPrefix(out, "err") {
			h.Violate("upstream call failed or blocked on a connection that stays up: " + op + " -> " + out)
		}
		if strings.Contains(out, "UNSETTLED") || strings.Contains(out, "RESUME-INCOMPLETE") {
			h.Violate("the effects of `" + op + "` did not show up within the watchdog (chunk not cut / not transmitted / hook not called / resume incomplete): " + out)
		}
		return out
	}
	if h.Replay != "" {
		for _, l := range lp.ReadOps(h.Replay) {
			if strings.HasPrefix(l, "#") {
				h.Case(strings.TrimPrefix(l, "# case "))
				continue
			}
			do(l)
		}
		return
	}
	gen(h, do, im)
}
