// Correspondence harness for C07 (storage part): the real inmemSentStorage / inmemSentStorageNoPayload
// (verif hook H2) against the Lean model (topic `store`), plus the isolation oracle: an operation on one
// stream id never changes what another stream id lists.
package main

import (
	"context"
	"fmt"
	"sort"
	"strconv"
	"strings"

	"github.com/aptpod/iscp-go/iscp"
	uuid "github.com/google/uuid"
	"verif.local/harness/dp"
	"verif.local/harness/lp"
)

func sid(n int) uuid.UUID {
	var u uuid.UUID
	u[0] = byte(n >> 8)
	u[1] = byte(n)
	u[15] = 0x42
	return u
}

type impl struct {
	st iscp.VerifSentStorage
}

func showMap(m map[uint32]iscp.DataPointGroups) string {
	if len(m) == 0 {
		return "{}"
	}
	keys := make([]int, 0, len(m))
	for k := range m {
		keys = append(keys, int(k))
	}
	sort.Ints(keys)
	parts := make([]string, len(keys))
	for i, k := range keys {
		parts[i] = fmt.Sprintf("%d=%s", k, dp.ShowGroups(m[uint32(k)]))
	}
	return "{" + strings.Join(parts, ",") + "}"
}

func (i *impl) exec(op string) (out string) {
	defer func() {
		if r := recover(); r != nil {
			out = fmt.Sprintf("crash %v", r)
		}
	}()
	ctx := context.Background()
	w := strings.Fields(op)
	n := func(k int) int { v, _ := strconv.Atoi(w[k]); return v }
	switch w[0] {
	case "reset":
		if w[1] == "1" {
			i.st = iscp.VerifNewInmemSentStorageNoPayload()
		} else {
			i.st = iscp.VerifNewInmemSentStorage()
		}
		return "ok"
	case "store":
		if err := i.st.Store(ctx, sid(n(1)), uint32(n(2)), dp.ParseGroups(w[3])); err != nil {
			return "err " + err.Error()
		}
		return "ok"
	case "remove":
		v, err := i.st.Remove(ctx, sid(n(1)), uint32(n(2)))
		if err != nil {
			if strings.Contains(err.Error(), "not found stream") {
				return "err not-found-stream"
			}
			return "err not-found-seq"
		}
		return "removed " + dp.ShowGroups(v)
	case "list":
		m, err := i.st.List(ctx, sid(n(1)))
		if err != nil {
			return "err not-found-stream"
		}
		return "listed " + showMap(m)
	case "clear":
		if err := i.st.Clear(ctx, sid(n(1))); err != nil {
			return "err " + err.Error()
		}
		return "ok"
	}
	return "bad-op"
}

func main() {
	h := lp.New()
	defer h.Finish()
	im := &impl{}
	do := func(op string) string {
		out := im.exec(op)
		h.Op(op, out)
		if strings.HasPrefix(out, "crash") {
			h.Violate("panic in sent storage on: " + op)
		}
		return out
	}
	if h.Replay != "" {
		for _, l := range lp.ReadOps(h.Replay) {
			if strings.HasPrefix(l, "#") {
				h.Case(strings.TrimPrefix(l, "# case "))
				continue
			}
			do(l)
		}
		return
	}
	rng := h.Rng
	randGroups := func() string {
		ng := rng.Intn(3)
		if ng == 0 && rng.Intn(2) == 0 {
			return "_"
		}
		var gs []string
		for g := 0; g <= ng; g++ {
			var ps []string
			for p := rng.Intn(3); p >= 0; p-- {
				b := make([]byte, rng.Intn(4))
				rng.Read(b)
				ps = append(ps, fmt.Sprintf("%d/%s", rng.Intn(1000), lp.Hex(b)))
			}
			if rng.Intn(5) == 0 {
				ps = nil
			}
			gs = append(gs, fmt.Sprintf("%d:%s", rng.Intn(5), strings.Join(ps, ";")))
		}
		return strings.Join(gs, "|")
	}
	for c := 0; c < h.N; c++ {
		np := rng.Intn(2)
		nstreams := 2 + rng.Intn(3)
		h.Case(fmt.Sprintf("rnd %d nopayload=%d streams=%d", c, np, nstreams))
		do(fmt.Sprintf("reset %d", np))
		// at least two streams hold data before anything is cleared
		for s := 0; s < nstreams; s++ {
			do(fmt.Sprintf("store %d %d %s", s, 1+rng.Intn(3), randGroups()))
		}
		nops := 5 + rng.Intn(25)
		sig := ""
		for k := 0; k < nops; k++ {
			s := rng.Intn(nstreams + 1) // sometimes an unknown stream
			// snapshot of every other stream before the op (isolation oracle on the implementation)
			before := map[int]string{}
			for o := 0; o <= nstreams; o++ {
				if o != s {
					before[o] = im.exec(fmt.Sprintf("list %d", o))
				}
			}
			var op string
			switch r := rng.Intn(10); {
			case r < 4:
				op = fmt.Sprintf("store %d %d %s", s, 1+rng.Intn(4), randGroups())
			case r < 6:
				op = fmt.Sprintf("remove %d %d", s, 1+rng.Intn(4))
			case r < 8:
				op = fmt.Sprintf("list %d", s)
			default:
				op = fmt.Sprintf("clear %d", s)
			}
			do(op)
			sig += op[:2]
			for o, b := range before {
				if a := im.exec(fmt.Sprintf("list %d", o)); a != b {
					h.Violate(fmt.Sprintf("`%s` on stream %d changed what stream %d lists: %s -> %s", op, s, o, b, a))
				}
			}
		}
		for s := 0; s <= nstreams; s++ {
			do(fmt.Sprintf("list %d", s))
		}
		if h.Distinct(fmt.Sprintf("%d/%d/%s", np, nstreams, sig)) {
			h.Sample()
		}
	}
}
