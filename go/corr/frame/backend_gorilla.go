//go:build gorilla

package main

import (
	"net/http"
	"net/http/httptest"
	"strings"

	"github.com/aptpod/iscp-go/transport/websocket"
	wsgorilla "github.com/aptpod/iscp-go/transport/websocket/gorilla"
	gws "github.com/gorilla/websocket"
)

func serve(handler func(w http.ResponseWriter, r *http.Request)) (*httptest.Server, string) {
	s := httptest.NewServer(http.HandlerFunc(handler))
	return s, "ws" + strings.TrimPrefix(s.URL, "http")
}

func backends() []backend {
	return []backend{
		{"gorilla", func(c cfg) (websocket.Conn, websocket.Conn, func(), error) {
			ch := make(chan *gws.Conn, 1)
			up := gws.Upgrader{}
			hold := make(chan struct{})
			s, url := serve(func(w http.ResponseWriter, r *http.Request) {
				conn, err := up.Upgrade(w, r, nil)
				if err != nil {
					return
				}
				ch <- conn
				<-hold
			})
			cl, _, err := gws.DefaultDialer.Dial(url, nil)
			if err != nil {
				s.Close()
				return nil, nil, nil, err
			}
			sv := <-ch
			return wsgorilla.New(cl), wsgorilla.New(sv), func() { close(hold); cl.Close(); sv.Close(); s.Close() }, nil
		}},
	}
}
