//go:build !gorilla && !nhooyr

package main

import (
	"context"
	"net/http"
	"net/http/httptest"
	"strings"

	"github.com/aptpod/iscp-go/transport/websocket"
	wscoder "github.com/aptpod/iscp-go/transport/websocket/coder"
	cws "github.com/coder/websocket"
)

func serve(handler func(w http.ResponseWriter, r *http.Request)) (*httptest.Server, string) {
	s := httptest.NewServer(http.HandlerFunc(handler))
	return s, "ws" + strings.TrimPrefix(s.URL, "http")
}

func backends() []backend {
	return []backend{
		{"coder", func(c cfg) (websocket.Conn, websocket.Conn, func(), error) {
			ch := make(chan *cws.Conn, 1)
			s, url := serve(func(w http.ResponseWriter, r *http.Request) {
				conn, err := cws.Accept(w, r, nil)
				if err != nil {
					return
				}
				conn.SetReadLimit(-1)
				ch <- conn
				<-r.Context().Done()
			})
			cl, _, err := cws.Dial(context.Background(), url, nil)
			if err != nil {
				s.Close()
				return nil, nil, nil, err
			}
			cl.SetReadLimit(-1)
			sv := <-ch
			return wscoder.New(cl), wscoder.New(sv), func() { cl.CloseNow(); sv.CloseNow(); s.Close() }, nil
		}},
	}
}
