// Harness for C13: the real transports on message sequences.
//
//	(A) websocket.Transport pairs over an in-memory websocket.Conn, every compression mode / level / window size: delivered
//	    message, both dictionaries (hook) after every message and the selected mode are compared with the Lean model (topic
//	    `frame`); oracles: byte for byte, one message per Read, counters equal the framed bytes on both sides, every captured
//	    wire message decodes with an independent DEFLATE reader whose dictionary is computed from scratch.
//	(B) the stream framing of transport/quic and transport/webtransport (hook: writeTo / decodeFrom / per-message compression)
//	    against the model's frame / deframeAll, on streams cut at arbitrary read sizes, truncated and with garbage tails.
//	(C) oracle only: multi-megabyte messages, concurrent writers (no interleaving, no loss) on the in-memory pair, on the
//	    three real WebSocket backends over loopback TCP and on a real QUIC connection over loopback UDP.
package main

import (
	"bytes"
	"compress/flate"
	"context"
	"crypto/ecdsa"
	"crypto/elliptic"
	"crypto/rand"
	"crypto/tls"
	"crypto/x509"
	"crypto/x509/pkix"
	"encoding/binary"
	"encoding/hex"
	"fmt"
	"io"
	"math/big"
	mrand "math/rand"
	"os"
	"runtime"
	"net"
	"strings"
	"sync"
	"sync/atomic"
	"time"

	"github.com/aptpod/iscp-go/transport"
	"github.com/aptpod/iscp-go/transport/compress"
	tquic "github.com/aptpod/iscp-go/transport/quic"
	"github.com/aptpod/iscp-go/transport/websocket"
	twt "github.com/aptpod/iscp-go/transport/webtransport"
	quicgo "github.com/quic-go/quic-go"
	"verif.local/harness/lp"
)

// ---------- in-memory websocket.Conn ----------

type memConn struct {
	failAfter int32      // > 0: the next message writer accepts this many bytes and then fails (a connection that breaks in mid-message)
	wmu    sync.Mutex // one message writer at a time (the contract the coder / nhooyr connections give)
	out    chan []byte
	in     chan []byte
	closed chan struct{}
	once   *sync.Once
	capMu  sync.Mutex
	frames [][]byte
}

func memPair() (*memConn, *memConn) {
	ab, ba := make(chan []byte, 4096), make(chan []byte, 4096)
	closed := make(chan struct{})
	once := &sync.Once{}
	return &memConn{out: ab, in: ba, closed: closed, once: once}, &memConn{out: ba, in: ab, closed: closed, once: once}
}

func (c *memConn) Close() error                                  { c.once.Do(func() { close(c.closed) }); return nil }
func (c *memConn) CloseWithStatus(transport.CloseStatus) error   { return c.Close() }
func (c *memConn) Ping(context.Context) error                    { return nil }
func (c *memConn) Reader(ctx context.Context) (websocket.MessageType, io.Reader, error) {
	select {
	case b := <-c.in:
		return websocket.MessageBinary, bytes.NewReader(b), nil
	default:
	}
	select {
	case b := <-c.in:
		return websocket.MessageBinary, bytes.NewReader(b), nil
	case <-c.closed:
		return 0, nil, transport.ErrAlreadyClosed
	case <-ctx.Done():
		return 0, nil, ctx.Err()
	}
}

type memWriter struct {
	c      *memConn
	buf    bytes.Buffer
	failed bool
}

func (c *memConn) Writer(ctx context.Context, _ websocket.MessageType) (io.WriteCloser, error) {
	c.wmu.Lock()
	return &memWriter{c: c}, nil
}
func (w *memWriter) Write(b []byte) (int, error) {
	if fa := atomic.LoadInt32(&w.c.failAfter); fa > 0 {
		n := int(fa) - 1
		if n > len(b) {
			n = len(b)
		}
		w.failed = true
		return n, fmt.Errorf("connection broke in mid-message")
	}
	return w.buf.Write(b)
}
func (w *memWriter) Close() error {
	if w.failed {
		w.c.wmu.Unlock()
		return nil
	}
	b := append([]byte(nil), w.buf.Bytes()...)
	w.c.capMu.Lock()
	w.c.frames = append(w.c.frames, b)
	w.c.capMu.Unlock()
	w.c.out <- b
	w.c.wmu.Unlock()
	return nil
}
func (c *memConn) lastFrame() []byte {
	c.capMu.Lock()
	defer c.capMu.Unlock()
	if len(c.frames) == 0 {
		return nil
	}
	return c.frames[len(c.frames)-1]
}

// ---------- content ----------

func fnv(b []byte) uint32 {
	h := uint32(2166136261)
	for _, x := range b {
		h = (h ^ uint32(x)) * 16777619
	}
	return h
}
func sig(b []byte) string { return fmt.Sprintf("%d:%d", len(b), fnv(b)) }

func content(desc string) []byte {
	p := strings.Split(desc, ":")
	switch p[0] {
	case "hex":
		if p[1] == "-" {
			return []byte{}
		}
		b, _ := hex.DecodeString(p[1])
		return b
	case "rep":
		var v, n int
		fmt.Sscan(p[1], &v)
		fmt.Sscan(p[2], &n)
		return bytes.Repeat([]byte{byte(v)}, n)
	case "lcg":
		var seed, n int
		fmt.Sscan(p[1], &seed)
		fmt.Sscan(p[2], &n)
		b := make([]byte, n)
		x := uint64(seed)
		for i := range b {
			x = (x*1103515245 + 12345) % 2147483648
			b[i] = byte(x / 65536 % 256)
		}
		return b
	}
	panic("bad content " + desc)
}

func genDesc(rng *mrand.Rand, window int) string {
	sizes := []int{0, 1, 2, 7, 100, 1000, 4096, 32767, 32768, 32769, 65535, 65536, 65537}
	if window > 0 && window < 70000 {
		sizes = append(sizes, window-1, window, window+1, 2*window+3, window/2)
	}
	n := sizes[rng.Intn(len(sizes))]
	if n < 0 {
		n = 0
	}
	switch rng.Intn(4) {
	case 0:
		if n > 24 {
			n = rng.Intn(24)
		}
		b := make([]byte, n)
		rng.Read(b)
		if n == 0 {
			return "hex:-"
		}
		return "hex:" + hex.EncodeToString(b)
	case 1:
		return fmt.Sprintf("rep:%d:%d", rng.Intn(256), n)
	default:
		return fmt.Sprintf("lcg:%d:%d", rng.Intn(1000), n)
	}
}

// ---------- configuration ----------

type cfg struct {
	enable, perMessage bool
	bits, level        int
}

func (c cfg) params() websocket.NegotiationParams {
	var np websocket.NegotiationParams
	if c.enable {
		l, b := c.level, c.bits
		np.CompressLevel = &l
		np.CompressWindowBits = &b
		if c.perMessage {
			np.Compress = compress.TypePerMessage
		} else {
			np.Compress = compress.TypeContextTakeOver
		}
	}
	return np
}
func (c cfg) window() int {
	if c.enable && !c.perMessage {
		return 1 << uint(c.bits)
	}
	return 0
}
func b2i(b bool) int {
	if b {
		return 1
	}
	return 0
}
func modeString(c compress.Config) string {
	switch {
	case !c.Enable:
		return "mode=off"
	case c.DisableContextTakeover:
		return "mode=permsg"
	}
	return fmt.Sprintf("mode=takeover:%d", c.WindowSize())
}

func genCfg(rng *mrand.Rand, i int) cfg {
	bitsPool := []int{0, 1, 3, 8, 10, 12, 15, 16, 17, 20, 32}
	c := cfg{enable: i%4 != 0, perMessage: i%4 == 1, bits: bitsPool[rng.Intn(len(bitsPool))], level: 1 + (i/4)%9}
	return c
}

// independent decoder of one wire message: dictionary = last `window` bytes of the history, computed from scratch
func independentDecode(c cfg, history []byte, frame []byte) ([]byte, error) {
	if !c.enable {
		return frame, nil
	}
	var dict []byte
	if w := c.window(); w > 0 {
		dict = history
		if len(dict) > w {
			dict = dict[len(dict)-w:]
		}
	}
	rd := flate.NewReaderDict(bytes.NewReader(frame), dict)
	defer rd.Close()
	return io.ReadAll(rd)
}

func readT(tr interface{ Read() ([]byte, error) }, d time.Duration) ([]byte, error) {
	type r struct {
		b   []byte
		err error
	}
	ch := make(chan r, 1)
	go func() { b, err := tr.Read(); ch <- r{b, err} }()
	select {
	case x := <-ch:
		return x.b, x.err
	case <-time.After(d):
		return nil, fmt.Errorf("read timed out after %v", d)
	}
}

// ---------- (A) websocket pair against the model ----------

func wsCase(h *lp.H, c cfg, descs []string) {
	ca, cb := memPair()
	// the local (pre-negotiation) configuration differs between the two ends and from what was negotiated: only the negotiated
	// parameters may decide the mode and the window
	baseA, baseB := compress.Config{}, compress.Config{Enable: true, Level: 3, WindowBits: 15}
	if len(descs)%2 == 1 {
		baseA, baseB = compress.Config{Enable: true, Level: 9, WindowBits: 12, DisableContextTakeover: true}, compress.Config{}
	}
	A := websocket.New(websocket.Config{Conn: ca, CompressConfig: baseA, NegotiationParams: c.params()})
	B := websocket.New(websocket.Config{Conn: cb, CompressConfig: baseB, NegotiationParams: c.params()})
	defer A.Close()
	defer B.Close()
	h.Op(fmt.Sprintf("cfg %d %d %d", b2i(c.enable), b2i(c.perMessage), c.bits), modeString(A.VerifCompressConfig()))
	if modeString(A.VerifCompressConfig()) != modeString(B.VerifCompressConfig()) {
		h.Violate("the two ends selected different modes from the same negotiated parameters")
	}
	var history []byte
	for _, d := range descs {
		m := content(d)
		tx0, rx0 := A.TxBytesCounterValue(), B.RxBytesCounterValue()
		if err := A.Write(m); err != nil {
			h.Violate(fmt.Sprintf("cfg %+v: Write failed: %v", c, err))
			h.Op("w "+d, "write-error")
			return
		}
		fr := ca.lastFrame()
		got, err := readT(B, 5*time.Second)
		if err != nil {
			h.Violate(fmt.Sprintf("cfg %+v message %s: the peer's Read failed: %v", c, d, err))
			h.Op("w "+d, "decode-error")
			return
		}
		st := "ok"
		if !bytes.Equal(got, m) {
			st = "mismatch"
			h.Violate(fmt.Sprintf("cfg %+v message %s: the peer read %d bytes (fnv %d), written were %d bytes (fnv %d)", c, d, len(got), fnv(got), len(m), fnv(m)))
		}
		if dtx, drx := A.TxBytesCounterValue()-tx0, B.RxBytesCounterValue()-rx0; dtx != uint64(len(fr)) || drx != uint64(len(fr)) {
			h.Violate(fmt.Sprintf("cfg %+v message %s: %d bytes were framed, the sender counted %d, the receiver counted %d", c, d, len(fr), dtx, drx))
		}
		if ind, err := independentDecode(c, history, fr); err != nil || !bytes.Equal(ind, m) {
			h.Violate(fmt.Sprintf("cfg %+v message %s: the wire message is not decodable by an independent DEFLATE reader with the documented dictionary (err=%v, %d bytes)", c, d, err, len(ind)))
		}
		history = append(history, m...)
		ww, _ := A.VerifWindows()
		_, rw := B.VerifWindows()
		h.Op("w "+d, fmt.Sprintf("%s n=%d wwin=%s rwin=%s", st, len(m), sig(ww), sig(rw)))
		if h.TooMany() {
			return
		}
	}
}

// ---------- (B) stream framing ----------

type chunkReader struct {
	r   *bytes.Reader
	rng *mrand.Rand
}

func (c *chunkReader) Read(p []byte) (int, error) {
	if len(p) > 1 {
		p = p[:1+c.rng.Intn(len(p))]
	}
	return c.r.Read(p)
}

type framer struct {
	name   string
	write  func(io.Writer, []byte) (int, error)
	decode func(io.Reader, bool) ([]byte, uint64, error)
	enc    func([]byte, int) ([]byte, error)
	dec    func([]byte) ([]byte, error)
}

var framers = []framer{
	{"quic", tquic.VerifWriteTo, tquic.VerifDecodeFrom, tquic.VerifEncode, tquic.VerifDecode},
	{"webtransport", twt.VerifWriteTo, twt.VerifDecodeFrom, twt.VerifEncode, twt.VerifDecode},
}

func deframeImpl(h *lp.H, f framer, stream []byte, rng *mrand.Rand) string {
	rd := bytes.NewReader(stream)
	cr := &chunkReader{r: rd, rng: rng}
	var sigs []string
	rest := 0
	for {
		before := rd.Len()
		m, n, err := f.decode(cr, false)
		if err != nil {
			rest = before
			break
		}
		if n != uint64(4+len(m)) {
			h.Violate(fmt.Sprintf("%s: a frame of %d payload bytes was counted as %d received bytes", f.name, len(m), n))
		}
		sigs = append(sigs, sig(m))
	}
	return fmt.Sprintf("n=%d [%s] rest=%d", len(sigs), strings.Join(sigs, " "), rest)
}

func framingCase(h *lp.H, rng *mrand.Rand) {
	var stream []byte
	k := rng.Intn(5)
	for i := 0; i < k; i++ {
		d := genDesc(rng, 0)
		m := content(d)
		if len(m) > 300 {
			m = m[:rng.Intn(300)]
			d = "hex:" + hex.EncodeToString(m)
			if len(m) == 0 {
				d = "hex:-"
			}
		}
		var outs []string
		for _, f := range framers {
			var buf bytes.Buffer
			n, err := f.write(&buf, m)
			if err != nil || n != buf.Len() {
				h.Violate(fmt.Sprintf("%s writeTo: reported %d bytes, wrote %d (err=%v)", f.name, n, buf.Len(), err))
			}
			o := hex.EncodeToString(buf.Bytes())
			h.Op("frame "+d, o)
			outs = append(outs, o)
			if f.name == "quic" {
				stream = append(stream, buf.Bytes()...)
			}
			// per-message compression round trip at every level
			for lvl := 1; lvl <= 9; lvl += 4 {
				e, err := f.enc(m, lvl)
				if err != nil {
					h.Violate(fmt.Sprintf("%s: compression at level %d failed: %v", f.name, lvl, err))
					continue
				}
				var cb bytes.Buffer
				f.write(&cb, e)
				back, _, err := f.decode(&chunkReader{r: bytes.NewReader(cb.Bytes()), rng: rng}, true)
				if err != nil || !bytes.Equal(back, m) {
					h.Violate(fmt.Sprintf("%s: a compressed frame (level %d, %d bytes) does not decode to the message (err=%v)", f.name, lvl, len(m), err))
				}
			}
		}
	}
	// tail: nothing, a truncated frame, or garbage
	switch rng.Intn(4) {
	case 1:
		var buf bytes.Buffer
		framers[0].write(&buf, content(fmt.Sprintf("lcg:%d:%d", rng.Intn(99), 1+rng.Intn(40))))
		stream = append(stream, buf.Bytes()[:rng.Intn(buf.Len())]...)
	case 2:
		g := make([]byte, rng.Intn(6))
		rng.Read(g)
		if len(g) >= 4 { // keep the announced length below 1 MiB: decodeFrom allocates what the prefix announces before reading
			g[0], g[1] = 0, g[1]&0x0f
		}
		stream = append(stream, g...)
	case 3:
		l := make([]byte, 4)
		binary.BigEndian.PutUint32(l, uint32(1000+rng.Intn(100000)))
		stream = append(stream, l...)
		stream = append(stream, make([]byte, rng.Intn(50))...)
	}
	hx := hex.EncodeToString(stream)
	if len(stream) == 0 {
		hx = "-"
	}
	for _, f := range framers {
		h.Op("deframe "+hx, deframeImpl(h, f, stream, rng))
	}
}

// ---------- (C) oracle-only parts ----------

// tagged message: 8-byte header (writer, index) + deterministic body; verify() recomputes it
func tagged(w, i, n int) []byte {
	b := make([]byte, 8+n)
	binary.BigEndian.PutUint32(b, uint32(w))
	binary.BigEndian.PutUint32(b[4:], uint32(i))
	x := uint64(w*7919 + i*104729 + 1)
	for k := 0; k < n; k++ {
		x = (x*1103515245 + 12345) % 2147483648
		if k%3 == 0 {
			b[8+k] = byte(w) // compressible stretches so that dictionaries matter
		} else {
			b[8+k] = byte(x / 65536 % 256)
		}
	}
	return b
}

// concurrent writers on tr, reader on peer: every message arrives intact, exactly once, per-writer order preserved
func concurrent(h *lp.H, what string, A, B transport.Transport, writers, per int, sizes []int) {
	var wg sync.WaitGroup
	errs := make(chan string, writers*per+8)
	for w := 0; w < writers; w++ {
		wg.Add(1)
		go func(w int) {
			defer wg.Done()
			defer func() {
				if r := recover(); r != nil {
					errs <- fmt.Sprintf("%s: Write panicked with concurrent writers: %v", what, r)
				}
			}()
			for i := 0; i < per; i++ {
				if err := A.Write(tagged(w, i, sizes[(w+i)%len(sizes)])); err != nil {
					errs <- fmt.Sprintf("%s: Write of writer %d message %d failed: %v", what, w, i, err)
					return
				}
			}
		}(w)
	}
	next := make([]int, writers)
	total := writers * per
	bad := 0
	for k := 0; k < total; k++ {
		got, err := readT(B, 5*time.Second)
		if err != nil {
			select {
			case e := <-errs:
				h.Violate(e)
			default:
			}
			h.Violate(fmt.Sprintf("%s: with %d concurrent writers only %d of %d messages arrived: %v", what, writers, k, total, err))
			bad++
			break
		}
		if len(got) < 8 {
			h.Violate(fmt.Sprintf("%s: a %d-byte fragment arrived as a message with concurrent writers", what, len(got)))
			bad++
			continue
		}
		w, i := int(binary.BigEndian.Uint32(got)), int(binary.BigEndian.Uint32(got[4:]))
		if w >= writers || i >= per || !bytes.Equal(got, tagged(w, i, sizes[(w+i)%len(sizes)])) {
			h.Violate(fmt.Sprintf("%s: with concurrent writers a message arrived that no writer wrote (header writer=%d index=%d, %d bytes): interleaved or corrupted", what, w, i, len(got)))
			bad++
			if bad > 3 {
				break
			}
			continue
		}
		if i != next[w] {
			h.Violate(fmt.Sprintf("%s: messages of writer %d arrived out of order (%d before %d)", what, w, i, next[w]))
			bad++
		}
		next[w] = i + 1
	}
	done := make(chan struct{})
	go func() { wg.Wait(); close(done) }()
	select {
	case <-done:
	case <-time.After(5 * time.Second):
		h.Violate(what + ": concurrent writers did not finish")
	}
	for {
		select {
		case e := <-errs:
			h.Violate(e)
			continue
		default:
		}
		break
	}
}

func sequential(h *lp.H, what string, A, B transport.Transport, sizes []int) {
	for i, n := range sizes {
		var m []byte
		if n == -1 {
			m = []byte{}
		} else {
			m = tagged(99, i, n)
		}
		if err := A.Write(m); err != nil {
			h.Violate(fmt.Sprintf("%s: Write of %d bytes failed: %v", what, len(m), err))
			return
		}
		got, err := readT(B, 10*time.Second)
		if err != nil {
			h.Violate(fmt.Sprintf("%s: Read of a %d-byte message failed: %v", what, len(m), err))
			return
		}
		if !bytes.Equal(got, m) {
			h.Violate(fmt.Sprintf("%s: a %d-byte message arrived as %d bytes (fnv %d vs %d)", what, len(m), len(got), fnv(m), fnv(got)))
		}
	}
}

// real WebSocket backends over loopback TCP
type backend struct {
	name string
	mk   func(c cfg) (client, server websocket.Conn, cleanup func(), err error)
}

func realWS(h *lp.H, b backend, c cfg, rng *mrand.Rand, thorough bool) {
	cl, sv, cleanup, err := b.mk(c)
	if err != nil {
		h.Extra["backend-"+b.name] = "unavailable: " + err.Error()
		h.Count("real:" + b.name + ":unavailable")
		return
	}
	defer cleanup()
	A := websocket.New(websocket.Config{Conn: cl, NegotiationParams: c.params()})
	B := websocket.New(websocket.Config{Conn: sv, NegotiationParams: c.params()})
	what := fmt.Sprintf("websocket/%s %s", b.name, modeString(A.VerifCompressConfig()))
	w := c.window()
	sizes := []int{-1, 0, 1, 100, 65535, 65536, 70000}
	if os.Getenv("VERIF_NOEMPTY") != "" {
		sizes = sizes[1:]
	}
	if w > 0 && w < 1<<20 {
		sizes = append(sizes, w-9, w-8, w, 2*w)
	}
	if thorough {
		sizes = append(sizes, 3<<20)
	}
	var pos []int
	for _, s := range sizes {
		if s >= -1 {
			pos = append(pos, s)
		}
	}
	sequential(h, what, A, B, pos)
	sequential(h, what+" (server to client)", B, A, []int{0, 5000, 1})
	concurrent(h, what, A, B, 4, 12, []int{0, 10, 3000, 40000})
	h.Count("real:" + b.name)
}

func selfSigned() *tls.Config {
	key, _ := ecdsa.GenerateKey(elliptic.P256(), rand.Reader)
	tmpl := &x509.Certificate{SerialNumber: big.NewInt(1), Subject: pkix.Name{CommonName: "localhost"}, NotBefore: time.Now().Add(-time.Hour), NotAfter: time.Now().Add(time.Hour),
		DNSNames: []string{"localhost"}, IPAddresses: []net.IP{net.ParseIP("127.0.0.1")}, KeyUsage: x509.KeyUsageDigitalSignature, ExtKeyUsage: []x509.ExtKeyUsage{x509.ExtKeyUsageServerAuth}}
	der, _ := x509.CreateCertificate(rand.Reader, tmpl, tmpl, &key.PublicKey, key)
	return &tls.Config{Certificates: []tls.Certificate{{Certificate: [][]byte{der}, PrivateKey: key}}, NextProtos: []string{"iscp"}}
}

func realQUIC(h *lp.H, c cfg, thorough bool) {
	lis, err := quicgo.ListenAddr("127.0.0.1:0", selfSigned(), &quicgo.Config{EnableDatagrams: true})
	if err != nil {
		h.Extra["quic"] = "unavailable: " + err.Error()
		h.Count("real:quic:unavailable")
		return
	}
	defer lis.Close()
	ctx, cancel := context.WithTimeout(context.Background(), 10*time.Second)
	defer cancel()
	type sres struct {
		s   quicgo.Connection
		err error
	}
	sch := make(chan sres, 1)
	go func() { s, err := lis.Accept(ctx); sch <- sres{s, err} }()
	cs, err := quicgo.DialAddr(ctx, lis.Addr().String(), &tls.Config{InsecureSkipVerify: true, NextProtos: []string{"iscp"}}, &quicgo.Config{EnableDatagrams: true})
	if err != nil {
		h.Extra["quic"] = "dial: " + err.Error()
		h.Count("real:quic:unavailable")
		return
	}
	sr := <-sch
	if sr.err != nil {
		h.Extra["quic"] = "accept: " + sr.err.Error()
		h.Count("real:quic:unavailable")
		return
	}
	np := tquic.NegotiationParams{NegotiationParams: c.params().NegotiationParams}
	type tres struct {
		t   *tquic.Transport
		err error
	}
	ach, bch := make(chan tres, 1), make(chan tres, 1)
	go func() { t, err := tquic.New(tquic.Config{Connection: cs, NegotiationParams: np}); ach <- tres{t, err} }()
	go func() { t, err := tquic.New(tquic.Config{Connection: sr.s, NegotiationParams: np}); bch <- tres{t, err} }()
	ar, br := <-ach, <-bch
	if ar.err != nil || br.err != nil {
		h.Violate(fmt.Sprintf("quic.New failed: %v / %v", ar.err, br.err))
		return
	}
	A, B := ar.t, br.t
	defer A.Close()
	defer B.Close()
	what := fmt.Sprintf("quic compress=%v level=%d", c.enable, c.level)
	sizes := []int{-1, 0, 1, 100, 65535, 65536, 70000}
	if thorough {
		sizes = append(sizes, 3<<20)
	}
	tx0, rx0 := A.TxBytesCounterValue(), B.RxBytesCounterValue()
	sequential(h, what, A, B, sizes)
	if !c.enable {
		want := uint64(0)
		for i, n := range sizes {
			var m []byte
			if n != -1 {
				m = tagged(99, i, n)
			}
			want += uint64(4 + len(m))
		}
		if dtx, drx := A.TxBytesCounterValue()-tx0, B.RxBytesCounterValue()-rx0; dtx != want || drx != want {
			h.Violate(fmt.Sprintf("%s: %d bytes were framed, the sender counted %d, the receiver %d", what, want, dtx, drx))
		}
	} else if dtx, drx := A.TxBytesCounterValue()-tx0, B.RxBytesCounterValue()-rx0; dtx != drx {
		h.Violate(fmt.Sprintf("%s: the sender counted %d bytes, the receiver %d", what, dtx, drx))
	}
	sequential(h, what+" (server to client)", B, A, []int{0, 5000, 1})
	concurrent(h, what, A, B, 4, 12, []int{0, 10, 3000, 40000})
	// the unreliable path: compression, segmentation into datagrams, reassembly, decompression. Datagrams may be lost (then
	// nothing arrives for that message); whatever arrives is a message that was sent, whole, at most once
	ua, okA := A.AsUnreliable()
	ub, okB := B.AsUnreliable()
	if okA && okB {
		sentU := map[string]int{}
		usizes := []int{1, 100, 1000, 1150, 1300, 5000, 20000, 60000}
		for i, n := range usizes {
			m := tagged(77, i, n)
			sentU[string(m)] = 0
			if err := ua.Write(m); err != nil {
				h.Violate(fmt.Sprintf("%s: WriteUnreliable of %d bytes failed: %v", what, len(m), err))
			}
		}
		got := 0
		for k := 0; k < len(usizes); k++ {
			m, err := readT(ub, 700*time.Millisecond)
			if err != nil {
				break // lost datagrams: allowed
			}
			n, known := sentU[string(m)]
			switch {
			case !known:
				h.Violate(fmt.Sprintf("%s: the unreliable reader returned %d bytes that are no message that was sent (partial, mixed or corrupted)", what, len(m)))
			case n > 0:
				h.Violate(fmt.Sprintf("%s: an unreliable message of %d bytes was delivered twice", what, len(m)))
			}
			sentU[string(m)] = n + 1
			got++
		}
		h.Count(fmt.Sprintf("real:quic:unreliable-delivered-%d-of-%d", got, len(usizes)))
		if got == 0 {
			h.Violate(what + ": none of 8 unreliable messages arrived over loopback")
		}
	}
	h.Count("real:quic")
}

func main() {
	h := lp.New()
	defer h.Finish()
	rng := h.Rng
	thorough := h.Tier == "thorough"
	if h.Replay != "" {
		// replay: ops of part (A)/(B) in order; cfg starts a new pair
		var c cfg
		var descs []string
		flush := func() {
			if descs != nil {
				wsCase(h, c, descs)
			}
			descs = nil
		}
		for _, l := range lp.ReadOps(h.Replay) {
			if strings.HasPrefix(l, "#") {
				flush()
				h.Case(strings.TrimPrefix(l, "# case "))
				continue
			}
			w := strings.Fields(l)
			switch w[0] {
			case "cfg":
				flush()
				var e, d int
				fmt.Sscan(w[1], &e)
				fmt.Sscan(w[2], &d)
				fmt.Sscan(w[3], &c.bits)
				c.enable, c.perMessage, c.level = e == 1, d == 1, 6
				descs = []string{}
			case "w":
				descs = append(descs, w[1])
			}
		}
		flush()
		return
	}
	onlyReal := os.Getenv("VERIF_PART") == "real" // the gorilla / nhooyr builds repeat only the backend-specific part
	// (A)
	for i := 0; i < h.N && !h.TooMany() && !onlyReal; i++ {
		c := genCfg(rng, i)
		h.Case(fmt.Sprintf("ws %d enable=%v permsg=%v bits=%d level=%d", i, c.enable, c.perMessage, c.bits, c.level))
		k := 3 + rng.Intn(8)
		var descs []string
		for j := 0; j < k; j++ {
			descs = append(descs, genDesc(rng, c.window()))
		}
		// repeat an earlier message so that the dictionary matters
		if k > 3 {
			descs = append(descs, descs[rng.Intn(k)])
		}
		wsCase(h, c, descs)
		if h.Distinct(fmt.Sprintf("ws/%v/%v/%d/%d", c.enable, c.perMessage, c.bits, c.level)) && i%9 == 1 {
			h.Sample()
		}
	}
	// (B)
	for i := 0; i < h.N/2+10 && !h.TooMany() && !onlyReal; i++ {
		h.Case(fmt.Sprintf("framing %d", i))
		framingCase(h, rng)
		h.Distinct(fmt.Sprintf("framing/%d", i))
	}
	// (B') every payload size of a stretch, and sizes around every power of two, through writeTo / decodeFrom (model: frame)
	if !onlyReal {
		h.Case("framing sizes")
		var sizes []int
		for n := 0; n <= 1100; n++ {
			sizes = append(sizes, n)
		}
		for k := 11; k <= 17; k++ {
			for d := -3; d <= 3; d++ {
				sizes = append(sizes, 1<<uint(k)+d)
			}
		}
		for _, n := range sizes {
			d := fmt.Sprintf("lcg:%d:%d", n%997, n)
			m := content(d)
			for _, f := range framers {
				var buf bytes.Buffer
				cnt, err := f.write(&buf, m)
				if err != nil || cnt != buf.Len() || buf.Len() != 4+len(m) {
					h.Violate(fmt.Sprintf("%s writeTo of %d bytes: reported %d, wrote %d (err=%v)", f.name, len(m), cnt, buf.Len(), err))
				}
				if n <= 1100 || f.name == "quic" {
					if n <= 64 || n%7 == 0 || (n >= 1016 && n <= 1030) {
						h.Op("frame "+d, hex.EncodeToString(buf.Bytes()))
					}
				}
				// two frames back to back must come out as two messages
				buf.Write(buf.Bytes())
				rd := &chunkReader{r: bytes.NewReader(buf.Bytes()), rng: rng}
				for k := 0; k < 2; k++ {
					got, _, err := f.decode(rd, false)
					if err != nil || !bytes.Equal(got, m) {
						h.Violate(fmt.Sprintf("%s: frame %d of two %d-byte messages written back to back decodes to %d bytes (err=%v)", f.name, k, len(m), len(got), err))
						break
					}
				}
			}
		}
		h.Distinct("framing-sizes")
	}
	// (C) in-memory pair: concurrent writers and big messages in every mode
	for i, c := range []cfg{{}, {enable: true, perMessage: true, level: 6}, {enable: true, bits: 15, level: 6}, {enable: true, bits: 8, level: 1}, {enable: true, bits: 32, level: 9}, {enable: true, bits: 0, level: 3}} {
		if onlyReal {
			break
		}
		h.Case(fmt.Sprintf("conc mem %d", i))
		ca, cb := memPair()
		A := websocket.New(websocket.Config{Conn: ca, NegotiationParams: c.params()})
		B := websocket.New(websocket.Config{Conn: cb, NegotiationParams: c.params()})
		what := "websocket/in-memory " + modeString(A.VerifCompressConfig())
		concurrent(h, what, A, B, 6, 20, []int{0, 10, 3000, 40000})
		big := []int{1 << 20}
		if thorough {
			big = append(big, 5<<20)
		}
		sequential(h, what, A, B, big)
		sequential(h, what+" (reverse direction)", B, A, []int{-1, 300, 70000})
		A.Close()
		B.Close()
		h.Op(fmt.Sprintf("conc mem %d", i), "-")
		h.Distinct(fmt.Sprintf("conc/%d", i))
	}
	// (C) a connection that breaks in mid-message must not leak its bytes into another connection's messages
	for mi, c := range []cfg{{enable: true, perMessage: true, level: 6}, {enable: true, bits: 15, level: 6}} {
		if onlyReal {
			break
		}
		h.Case(fmt.Sprintf("fault %d", mi))
		for round := 0; round < 30; round++ {
			fa, _ := memPair()
			atomic.StoreInt32(&fa.failAfter, int32(2+round%7))
			A := websocket.New(websocket.Config{Conn: fa, NegotiationParams: c.params()})
			if err := A.Write(tagged(500+round, 0, 600)); err == nil {
				h.Violate("a Write into a connection that breaks in mid-message reported success")
			}
			cb1, cb2 := memPair()
			B1 := websocket.New(websocket.Config{Conn: cb1, NegotiationParams: c.params()})
			B2 := websocket.New(websocket.Config{Conn: cb2, NegotiationParams: c.params()})
			want := tagged(700+round, 1, 300)
			if err := B1.Write(want); err != nil {
				h.Violate(fmt.Sprintf("Write on a healthy connection failed after another connection broke: %v", err))
			}
			got, err := readT(B2, 2*time.Second)
			if err != nil || !bytes.Equal(got, want) {
				h.Violate(fmt.Sprintf("%s: after another connection broke in mid-message, the peer of a healthy connection read %d bytes (err=%v) that are not the %d bytes written to it", modeString(B1.VerifCompressConfig()), len(got), err, len(want)))
				break
			}
			A.Close()
			B1.Close()
			B2.Close()
		}
		h.Op(fmt.Sprintf("conc fault %d", mi), "-")
		h.Distinct(fmt.Sprintf("fault/%d", mi))
	}
	// (C) the per-message compression functions of quic / webtransport used from several transports at once
	if !onlyReal {
		h.Case("conc encode")
		for _, f := range framers {
			var wg sync.WaitGroup
			bad := int32(0)
			for g := 0; g < 8; g++ {
				wg.Add(1)
				go func(g int) {
					defer wg.Done()
					for k := 0; k < 300; k++ {
						m := tagged(g, k, 200+37*((g+k)%9))
						e, err := f.enc(m, 1+(g+k)%9)
						if err != nil {
							atomic.AddInt32(&bad, 1)
							continue
						}
						snap := append([]byte(nil), e...)
						runtime.Gosched()
						d, err := f.dec(e)
						if err != nil || !bytes.Equal(d, m) || !bytes.Equal(snap, e) {
							atomic.AddInt32(&bad, 1)
						}
					}
				}(g)
			}
			wg.Wait()
			if bad > 0 {
				h.Violate(fmt.Sprintf("%s: with 8 goroutines compressing at once, %d of 2400 compressed payloads changed under the caller or no longer decode to their message", f.name, bad))
			}
		}
		h.Op("conc encode", "-")
		h.Distinct("concencode")
	}
	// (C) real backends
	nreal := 2
	if thorough {
		nreal = 6
	}
	for _, b := range backends() {
		for i := 0; i < nreal; i++ {
			c := []cfg{{}, {enable: true, bits: 10, level: 6}, {enable: true, perMessage: true, level: 2}, {enable: true, bits: 15, level: 9}, {enable: true, bits: 3, level: 1}, {enable: true, bits: 20, level: 5}}[i]
			h.Case(fmt.Sprintf("real %s %d", b.name, i))
			realWS(h, b, c, rng, thorough)
			h.Op(fmt.Sprintf("real %s %d", b.name, i), "-")
			h.Distinct(fmt.Sprintf("real/%s/%d", b.name, i))
		}
	}
	for i := 0; i < nreal && !onlyReal; i++ {
		c := []cfg{{}, {enable: true, level: 6}, {enable: true, level: 1}, {enable: true, level: 9}, {}, {enable: true, level: 3}}[i]
		h.Case(fmt.Sprintf("real quic %d", i))
		realQUIC(h, c, thorough)
		h.Op(fmt.Sprintf("real quic %d", i), "-")
		h.Distinct(fmt.Sprintf("real/quic/%d", i))
	}
}
