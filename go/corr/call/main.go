// Correspondence harness for C16: end-to-end calls of a real iscp.Conn against the scripted broker, compared with the Lean
// model (topic `call`), plus the property's oracle: every call a fresh call id, every caller gets the ack / reply that bears
// its own id, incoming calls and replies handed up once each, unmodified, in arrival order.
package main

import (
	"context"
	"fmt"
	"strconv"
	"strings"
	"sync"
	"time"

	"github.com/aptpod/iscp-go/iscp"
	"github.com/aptpod/iscp-go/message"
	"verif.local/harness/broker"
	"verif.local/harness/lp"
)

const watchdog = 3 * time.Second

type res struct {
	caller int
	out    string
}

type waiter struct {
	caller int
	k      int
	cancel context.CancelFunc
	done   bool
}

type impl struct {
	b       *broker.Broker
	conn    *iscp.Conn
	results chan res
	byK     map[int]*waiter
	byC     map[int]*waiter
	callID  map[int]string // k -> call id seen at the broker
	ids     map[string]bool
	logPos  int
}

func (i *impl) reset() string {
	if i.conn != nil {
		c, cancel := context.WithTimeout(context.Background(), 200*time.Millisecond)
		i.conn.Close(c)
		cancel()
	}
	*i = impl{results: make(chan res, 256), byK: map[int]*waiter{}, byC: map[int]*waiter{}, callID: map[int]string{}, ids: map[string]bool{}}
	i.b = broker.New()
	i.b.Auto["call"] = false
	i.b.Register()
	conn, err := iscp.Connect("mem", broker.TransportName, iscp.WithConnPingInterval(20*time.Millisecond), iscp.WithConnPingTimeout(400*time.Millisecond))
	if err != nil {
		return "err"
	}
	i.conn = conn
	i.logPos = i.b.LogLen()
	return "ok"
}

func (i *impl) startCall(h *lp.H, c, k int, wait bool) string {
	ctx, cancel := context.WithCancel(context.Background())
	results, conn := i.results, i.conn // callers left over from an earlier case must not report into this one
	go func() {
		req := &iscp.UpstreamCall{DestinationNodeID: "dst", Name: "n" + strconv.Itoa(k), Type: "t", Payload: []byte{byte(k)}}
		if wait {
			r, err := conn.SendCallAndWaitReplayCall(ctx, req)
			switch {
			case err == context.Canceled:
				results <- res{c, "cancelled"}
			case err != nil:
				results <- res{c, "err"}
			default:
				results <- res{c, "reply " + strings.TrimPrefix(r.CallID, "r") + " req=" + r.RequestCallID}
			}
			return
		}
		id, err := conn.SendCall(ctx, req)
		switch {
		case err == context.Canceled:
			results <- res{c, "cancelled"}
		case err != nil:
			results <- res{c, "err"}
		default:
			results <- res{c, "ok id=" + id}
		}
	}()
	// the call appears at the broker
	var seen *message.UpstreamCall
	i.b.WaitFor(func() bool {
		for ; i.logPos < len(i.b.Log); i.logPos++ {
			if m, ok := i.b.Log[i.logPos].Msg.(*message.UpstreamCall); ok {
				if i.ids[m.CallID] && m.Name != "n"+strconv.Itoa(k) {
					continue // a pending call sent again after a reconnect (same call id, same content): not a new call
				}
				seen = m
				i.logPos++
				return true
			}
		}
		return false
	}, watchdog)
	if seen == nil {
		cancel()
		return "hang"
	}
	if seen.CallID == "" || i.ids[seen.CallID] {
		h.Violate(fmt.Sprintf("call id %q is empty or was used before", seen.CallID))
	}
	if seen.Name != "n"+strconv.Itoa(k) || len(seen.Payload) != 1 || seen.Payload[0] != byte(k) {
		h.Violate("the call reached the broker modified")
	}
	i.ids[seen.CallID] = true
	i.callID[k] = seen.CallID
	w := &waiter{caller: c, k: k, cancel: cancel}
	i.byK[k], i.byC[c] = w, w
	return "sent"
}

func (i *impl) waitResult(c int, d time.Duration) *res {
	deadline := time.After(d)
	var stash []res
	defer func() {
		for _, r := range stash {
			i.results <- r
		}
	}()
	for {
		select {
		case r := <-i.results:
			if r.caller == c {
				if w := i.byC[c]; w != nil {
					w.done = true
				}
				return &r
			}
			stash = append(stash, r)
		case <-deadline:
			return nil
		}
	}
}

// ackBarrier: the sentinel call (caller 99) is acknowledged behind the message under test; readUpstreamCallAckLoop is FIFO
func (i *impl) ackBarrier() bool {
	w := i.byC[99]
	if w == nil || w.done {
		return true
	}
	i.b.Cur().Send(&message.UpstreamCallAck{CallID: i.callID[w.k], ResultCode: message.ResultCodeSucceeded, ExtensionFields: &message.UpstreamCallAckExtensionFields{}})
	return i.waitResult(99, watchdog) != nil
}

// callBarrier: an incoming call travels through readDownstreamCallLoop behind the message under test and is received again
func (i *impl) callBarrier() bool {
	i.b.Cur().Send(&message.DownstreamCall{CallID: "barrier", SourceNodeID: "src", ExtensionFields: &message.DownstreamCallExtensionFields{}})
	ctx, cancel := context.WithTimeout(context.Background(), watchdog)
	defer cancel()
	c, err := i.conn.ReceiveCall(ctx)
	return err == nil && c.CallID == "barrier"
}

func (i *impl) classify(h *lp.H, w *waiter, r *res) string {
	c := strconv.Itoa(r.caller)
	switch {
	case strings.HasPrefix(r.out, "ok id="):
		if r.out[6:] != i.callID[w.k] {
			h.Violate(fmt.Sprintf("caller %d was told call id %s, its call carried %s", r.caller, r.out[6:], i.callID[w.k]))
		}
		return "ok " + c
	case r.out == "err":
		return "err " + c
	case strings.HasPrefix(r.out, "reply "):
		f := strings.Fields(r.out)
		if strings.TrimPrefix(f[2], "req=") != i.callID[w.k] {
			h.Violate(fmt.Sprintf("caller %d received a reply whose request-call id is not its own call id", r.caller))
		}
		return "reply " + c + " " + f[1]
	}
	return r.out + " " + c
}

func (i *impl) outcomeFor(h *lp.H, w *waiter) string {
	if w != nil && !w.done {
		if r := i.waitResult(w.caller, 300*time.Millisecond); r != nil {
			return i.classify(h, w, r)
		}
		return "nobody"
	}
	select {
	case r := <-i.results:
		return fmt.Sprintf("unexpected return of caller %d: %s", r.caller, r.out)
	case <-time.After(2 * time.Millisecond):
	}
	return "nobody"
}

func (i *impl) exec(h *lp.H, op string) string {
	w := strings.Fields(op)
	n := func(k int) int { v, _ := strconv.Atoi(w[k]); return v }
	if w[0] == "reset" {
		return i.reset()
	}
	if i.conn == nil {
		return "noconn"
	}
	switch w[0] {
	case "storm", "stormcut":
		// n callers enter SendCall at the same instant on a connection of their own. storm: the broker acknowledges every call at
		// once. stormcut: the broker holds the acks, the transport dies with all n calls in flight, the redial succeeds, the
		// application's reconnected handler takes 250 ms, and the new broker connection acknowledges every re-sent call at once.
		// Every caller must be told the ack of exactly its own call id.
		total := n(1)
		cut := w[0] == "stormcut"
		b := broker.New()
		b.Auto["call"] = false
		var pmu sync.Mutex
		seen := map[string]bool{}
		b.Policy = func(inc *broker.Inc, m message.Message) bool {
			if c, ok := m.(*message.UpstreamCall); ok {
				pmu.Lock()
				seen[c.CallID] = true
				pmu.Unlock()
				if !cut || inc.N > 0 {
					inc.Send(&message.UpstreamCallAck{CallID: c.CallID, ResultCode: message.ResultCodeSucceeded, ExtensionFields: &message.UpstreamCallAckExtensionFields{}})
				}
				return true
			}
			return false
		}
		b.Register()
		defer i.b.Register()
		conn, err := iscp.Connect("mem", broker.TransportName, iscp.WithConnPingInterval(20*time.Millisecond), iscp.WithConnPingTimeout(400*time.Millisecond),
			iscp.WithConnReconnectedEventHandler(iscp.ReconnectedEventHandlerFunc(func(*iscp.ReconnectedEvent) { time.Sleep(250 * time.Millisecond) })))
		if err != nil {
			return "err connect"
		}
		defer func() {
			c, cancel := context.WithTimeout(context.Background(), 300*time.Millisecond)
			conn.Close(c)
			cancel()
		}()
		type sres struct {
			k   int
			id  string
			err error
		}
		done := make(chan sres, total)
		start := make(chan struct{})
		for k := 0; k < total; k++ {
			go func(k int) {
				<-start
				ctx, cancel := context.WithTimeout(context.Background(), 4*time.Second)
				defer cancel()
				id, err := conn.SendCall(ctx, &iscp.UpstreamCall{DestinationNodeID: "dst", Name: "storm", Type: "t", Payload: []byte{byte(k)}})
				done <- sres{k, id, err}
			}(k)
		}
		close(start)
		if cut {
			pmu.Lock()
			for t := time.Now(); len(seen) < total && time.Since(t) < 2*time.Second; {
				pmu.Unlock()
				time.Sleep(time.Millisecond)
				pmu.Lock()
			}
			pmu.Unlock()
			b.Cur().Kill()
		}
		okN, bad := 0, ""
		ids := map[string]bool{}
		for j := 0; j < total; j++ {
			r := <-done
			switch {
			case r.err != nil:
				if bad == "" {
					bad = fmt.Sprintf("caller %d: the broker acknowledged its call, SendCall returned: %v", r.k, r.err)
				}
			case ids[r.id]:
				bad = fmt.Sprintf("two callers were told the same call id %s", r.id)
			default:
				ids[r.id] = true
				okN++
			}
		}
		if bad != "" {
			h.Violate(fmt.Sprintf("%s %d: %d of %d callers got their ack; %s", w[0], total, okN, total, bad))
		}
		return fmt.Sprintf("%s ok %d", w[0], okN)
	case "rt":
		// n sequential call-and-wait round trips; the broker acknowledges and replies at once; nobody drains the shared reply queue
		total := n(1)
		i.b.Lock()
		prev := i.b.Policy
		i.b.Unlock()
		pol := func(inc *broker.Inc, m message.Message) bool {
			if c, ok := m.(*message.UpstreamCall); ok {
				inc.Send(&message.UpstreamCallAck{CallID: c.CallID, ResultCode: message.ResultCodeSucceeded, ExtensionFields: &message.UpstreamCallAckExtensionFields{}})
				inc.Send(&message.DownstreamCall{CallID: "r" + c.CallID, RequestCallID: c.CallID, SourceNodeID: "src", Name: c.Name, Type: c.Type, Payload: c.Payload, ExtensionFields: &message.DownstreamCallExtensionFields{}})
				return true
			}
			return false
		}
		i.b.Lock()
		i.b.Policy = pol
		i.b.Unlock()
		okN := 0
		for j := 0; j < total; j++ {
			ctx, cancel := context.WithTimeout(context.Background(), 2*time.Second)
			r, err := i.conn.SendCallAndWaitReplayCall(ctx, &iscp.UpstreamCall{DestinationNodeID: "dst", Name: "rt", Type: "t", Payload: []byte{byte(j)}})
			cancel()
			if err != nil {
				h.Violate(fmt.Sprintf("round trip %d of %d: the broker acknowledged and replied, the caller got: %v", j+1, total, err))
				break
			}
			if len(r.Payload) != 1 || r.Payload[0] != byte(j) {
				h.Violate(fmt.Sprintf("round trip %d returned the reply of another call", j+1))
			}
			okN++
		}
		i.b.Lock()
		i.b.Policy = prev
		i.b.Unlock()
		popped := 0
		for {
			ctx, cancel := context.WithTimeout(context.Background(), 30*time.Millisecond)
			_, err := i.conn.ReceiveReplyCall(ctx)
			cancel()
			if err != nil {
				break
			}
			popped++
		}
		i.logPos = len(i.b.Log)
		return fmt.Sprintf("ok %d inbox=%d", okN, popped)
	case "call":
		return i.startCall(h, n(1), n(2), len(w) > 3 && w[3] == "wait")
	case "sync":
		return i.startCall(h, 99, n(1), false)
	case "ack":
		wt := i.byK[n(1)]
		code := message.ResultCodeSucceeded
		if w[2] != "ok" {
			code = message.ResultCodeUnspecifiedError
		}
		i.b.Cur().Send(&message.UpstreamCallAck{CallID: i.callID[n(1)], ResultCode: code, ResultString: "r", ExtensionFields: &message.UpstreamCallAckExtensionFields{}})
		if !i.ackBarrier() {
			return "hang"
		}
		return i.outcomeFor(h, wt)
	case "ackunknown":
		i.b.Cur().Send(&message.UpstreamCallAck{CallID: "no-such-call", ResultCode: message.ResultCodeSucceeded, ExtensionFields: &message.UpstreamCallAckExtensionFields{}})
		if !i.ackBarrier() {
			return "hang"
		}
		return i.outcomeFor(h, nil)
	case "reply", "replyunknown":
		req := "no-such-call"
		var wt *waiter
		if w[0] == "reply" {
			req = i.callID[n(2)]
			wt = i.byK[n(2)]
		}
		i.b.Cur().Send(&message.DownstreamCall{CallID: "r" + w[1], RequestCallID: req, SourceNodeID: "src", Name: "rn", Type: "rt", Payload: []byte{byte(n(1))}, ExtensionFields: &message.DownstreamCallExtensionFields{}})
		if !i.callBarrier() {
			return "hang"
		}
		out := i.outcomeFor(h, wt)
		// every reply is also queued for ReceiveReplyCall
		ctx, cancel := context.WithTimeout(context.Background(), 300*time.Millisecond)
		defer cancel()
		rc, err := i.conn.ReceiveReplyCall(ctx)
		popped := "empty"
		if err == nil {
			q := "unknown"
			if w[0] == "reply" && rc.RequestCallID == req {
				q = w[2]
			}
			popped = "gotreply " + strings.TrimPrefix(rc.CallID, "r") + "/" + q
			if len(rc.Payload) != 1 || rc.Payload[0] != byte(n(1)) || rc.Name != "rn" {
				h.Violate("a reply was handed up modified")
			}
		}
		return out + " popped=" + popped
	case "incomingn":
		toks := strings.Split(w[1], ",")
		for _, t := range toks {
			tv, _ := strconv.Atoi(t)
			i.b.Cur().Send(&message.DownstreamCall{CallID: "c" + t, SourceNodeID: "src", Name: "in", Type: "it", Payload: []byte{byte(tv)}, ExtensionFields: &message.DownstreamCallExtensionFields{}})
		}
		var got []string
		for range toks {
			ctx, cancel := context.WithTimeout(context.Background(), watchdog)
			c, err := i.conn.ReceiveCall(ctx)
			cancel()
			if err != nil {
				got = append(got, "empty")
				continue
			}
			got = append(got, strings.TrimPrefix(c.CallID, "c"))
			tv, _ := strconv.Atoi(strings.TrimPrefix(c.CallID, "c"))
			if len(c.Payload) != 1 || c.Payload[0] != byte(tv) || c.Name != "in" {
				h.Violate("an incoming call was handed up modified")
			}
		}
		return "got " + strings.Join(got, ",")
	case "cancel":
		wt := i.byC[n(1)]
		if wt == nil || wt.done {
			return "nobody"
		}
		wt.cancel()
		r := i.waitResult(n(1), watchdog)
		if r == nil {
			return "hang"
		}
		return r.out + " " + w[1]
	case "kill":
		old := i.b.Cur()
		old.Kill()
		ok := i.b.WaitFor(func() bool {
			if len(i.b.Incs) == 0 || i.b.Incs[len(i.b.Incs)-1] == old {
				return false
			}
			for _, r := range i.b.Log {
				if _, is := r.Msg.(*message.ConnectRequest); is && r.Inc == i.b.Incs[len(i.b.Incs)-1].N {
					return true
				}
			}
			return false
		}, watchdog)
		time.Sleep(30 * time.Millisecond) // the run loop and dispatchers of the new connection start
		if !ok {
			return "no-reconnect"
		}
		return "reconnected"
	}
	return "bad-op"
}

func main() {
	h := lp.New()
	defer h.Finish()
	im := &impl{}
	do := func(op string) string {
		out := im.exec(h, op)
		h.Op(op, out)
		if out == "hang" || strings.HasPrefix(out, "unexpected return") {
			h.Violate("e2e call machinery stuck or disturbed another caller: " + op + " -> " + out)
		}
		return out
	}
	if h.Replay != "" {
		for _, l := range lp.ReadOps(h.Replay) {
			if strings.HasPrefix(l, "#") {
				h.Case(strings.TrimPrefix(l, "# case "))
				continue
			}
			do(l)
		}
		return
	}
	rng := h.Rng
	for c := 0; c < h.N && !h.TooMany(); c++ {
		m := 1 + rng.Intn(5)
		h.Case(fmt.Sprintf("calls %d callers=%d", c, m))
		if do("reset") != "ok" {
			continue
		}
		k := 0
		nextK := func() int { k++; return k }
		do(fmt.Sprintf("sync %d", 9000+nextK()))
		type pend struct {
			c, k  int
			wait  bool
			acked bool
		}
		var pending []pend
		sig := ""
		tok := 0
		for s := 0; s < 5+rng.Intn(14); s++ {
			tok++
			switch r := rng.Intn(12); {
			case r < 4 || len(pending) == 0:
				caller := 1 + rng.Intn(m)
				busy := false
				for _, p := range pending {
					if p.c == caller {
						busy = true
					}
				}
				if busy {
					continue
				}
				p := pend{c: caller, k: nextK(), wait: rng.Intn(2) == 0}
				op := fmt.Sprintf("call %d %d", p.c, p.k)
				if p.wait {
					op += " wait"
				}
				if do(op) == "sent" {
					pending = append(pending, p)
				}
				sig += "c"
			case r < 7: // ack (any order), positive or negative
				j := rng.Intn(len(pending))
				p := pending[j]
				if p.acked {
					continue
				}
				okk := rng.Intn(5) != 0
				out := do(fmt.Sprintf("ack %d %s", p.k, map[bool]string{true: "ok", false: "no"}[okk]))
				do(fmt.Sprintf("sync %d", 9000+nextK()))
				switch {
				case !okk:
					if out != fmt.Sprintf("err %d", p.c) {
						h.Violate(fmt.Sprintf("a negative ack for caller %d's call surfaced as: %s", p.c, out))
					}
					pending = append(pending[:j], pending[j+1:]...)
				case !p.wait:
					if out != fmt.Sprintf("ok %d", p.c) {
						h.Violate(fmt.Sprintf("caller %d did not get the ack of its own call: %s", p.c, out))
					}
					pending = append(pending[:j], pending[j+1:]...)
				default:
					if strings.HasPrefix(out, "reply") {
						pending = append(pending[:j], pending[j+1:]...) // the reply had arrived before the ack
					} else {
						pending[j].acked = true
					}
				}
				sig += "a"
			case r == 7: // reply (possibly before the ack)
				var cands []int
				for j, p := range pending {
					if p.wait {
						cands = append(cands, j)
					}
				}
				if len(cands) == 0 {
					do(fmt.Sprintf("replyunknown %d", tok))
					sig += "u"
					continue
				}
				j := cands[rng.Intn(len(cands))]
				p := pending[j]
				out := do(fmt.Sprintf("reply %d %d", tok, p.k))
				if p.acked {
					if !strings.HasPrefix(out, fmt.Sprintf("reply %d %d ", p.c, tok)) {
						h.Violate(fmt.Sprintf("caller %d did not get the reply to its own call: %s", p.c, out))
					}
					pending = append(pending[:j], pending[j+1:]...)
				}
				sig += "r"
			case r == 8:
				if rng.Intn(2) == 0 {
					do("ackunknown")
					do(fmt.Sprintf("sync %d", 9000+nextK()))
				} else {
					do(fmt.Sprintf("replyunknown %d", tok))
				}
				sig += "x"
			case r == 9:
				var ts []string
				for q := 0; q <= rng.Intn(4); q++ {
					ts = append(ts, strconv.Itoa(tok*10+q))
				}
				out := do("incomingn " + strings.Join(ts, ","))
				if out != "got "+strings.Join(ts, ",") {
					h.Violate("incoming calls were not handed up once each in arrival order: " + out)
				}
				sig += "i"
			case r == 10:
				j := rng.Intn(len(pending))
				do(fmt.Sprintf("cancel %d", pending[j].c))
				pending = append(pending[:j], pending[j+1:]...)
				sig += "C"
			default:
				if rng.Intn(3) == 0 {
					do("kill") // a reconnect between call and ack
					sig += "K"
				}
			}
		}
		if h.Distinct(fmt.Sprintf("%d/%s", m, sig)) && len(sig) > 6 {
			h.Sample()
		}
	}
	// storms: many callers at the same instant; the same with an outage while all their calls are in flight
	for _, op := range []string{"storm 64", "stormcut 20"} {
		h.Case(op)
		if do("reset") == "ok" {
			do(op)
			h.Distinct(op)
		}
	}
	// volume: more call-and-wait round trips than the shared reply queue holds, while nobody calls ReceiveReplyCall
	h.Case("volume")
	if do("reset") == "ok" {
		out := do("rt 1030")
		if !strings.HasPrefix(out, "ok 1030 ") {
			h.Violate("1030 sequential call-and-wait round trips, each acknowledged and replied to by the broker: " + out)
		}
		h.Distinct("volume")
	}
}
