// Harness for C11 / C12: the real protobuf and JSON codecs on reflection-generated messages of every kind (round trip,
// canonical form, both encodings agree, byte counts), the converter tables and scalar conversions against the Lean model
// (topic `conv`), the size gate, and hostile input for the decoders (mutated encodings, structure-aware corruption, random
// bytes) under a watchdog: never a panic, never a hang, and whatever decodes re-encodes to itself.
package main

import (
	"bytes"
	"context"
	"fmt"
	"math/rand"
	"reflect"
	"strconv"
	"strings"
	"sync"
	"time"

	"github.com/aptpod/iscp-go/encoding"
	"github.com/aptpod/iscp-go/encoding/convert"
	ejson "github.com/aptpod/iscp-go/encoding/json"
	eproto "github.com/aptpod/iscp-go/encoding/protobuf"
	"github.com/aptpod/iscp-go/errors"
	"github.com/aptpod/iscp-go/message"
	"github.com/aptpod/iscp-go/transport"
	"github.com/aptpod/iscp-go/wire"
	autogen "github.com/aptpod/iscp-proto/gen/gogofast/iscp2/v1"
	"github.com/gogo/protobuf/jsonpb"
	uuid "github.com/google/uuid"
	"verif.local/harness/lp"
)

var kinds = []func() message.Message{
	func() message.Message { return &message.ConnectRequest{} }, func() message.Message { return &message.ConnectResponse{} },
	func() message.Message { return &message.Disconnect{} },
	func() message.Message { return &message.UpstreamOpenRequest{} }, func() message.Message { return &message.UpstreamOpenResponse{} },
	func() message.Message { return &message.UpstreamResumeRequest{} }, func() message.Message { return &message.UpstreamResumeResponse{} },
	func() message.Message { return &message.UpstreamCloseRequest{} }, func() message.Message { return &message.UpstreamCloseResponse{} },
	func() message.Message { return &message.DownstreamOpenRequest{} }, func() message.Message { return &message.DownstreamOpenResponse{} },
	func() message.Message { return &message.DownstreamResumeRequest{} }, func() message.Message { return &message.DownstreamResumeResponse{} },
	func() message.Message { return &message.DownstreamCloseRequest{} }, func() message.Message { return &message.DownstreamCloseResponse{} },
	func() message.Message { return &message.UpstreamCall{} }, func() message.Message { return &message.UpstreamCallAck{} },
	func() message.Message { return &message.DownstreamCall{} },
	func() message.Message { return &message.Ping{} }, func() message.Message { return &message.Pong{} },
	func() message.Message { return &message.UpstreamChunk{} }, func() message.Message { return &message.UpstreamChunkAck{} },
	func() message.Message { return &message.DownstreamChunk{} }, func() message.Message { return &message.DownstreamChunkAck{} },
	func() message.Message { return &message.DownstreamChunkAckComplete{} },
	func() message.Message { return &message.UpstreamMetadata{} }, func() message.Message { return &message.UpstreamMetadataAck{} },
	func() message.Message { return &message.DownstreamMetadata{} }, func() message.Message { return &message.DownstreamMetadataAck{} },
}

var metas = []func() message.Metadata{
	func() message.Metadata { return &message.BaseTime{} }, func() message.Metadata { return &message.UpstreamOpen{} },
	func() message.Metadata { return &message.UpstreamAbnormalClose{} }, func() message.Metadata { return &message.UpstreamResume{} },
	func() message.Metadata { return &message.UpstreamNormalClose{} }, func() message.Metadata { return &message.DownstreamOpen{} },
	func() message.Metadata { return &message.DownstreamAbnormalClose{} }, func() message.Metadata { return &message.DownstreamResume{} },
	func() message.Metadata { return &message.DownstreamNormalClose{} },
}

var strPool = []string{"", "a", "node-1", "日本語のテキスト", "emoji 😀 ok", "tab\tnewline\n", "\"quoted\" <&>", strings.Repeat("x", 300), "1e3", "null"}

type gen struct {
	rng       *rand.Rand
	canonical bool
	variant   int // drives exhaustive choices (enum values, oneof variants)
	nilExt    bool
}

var (
	tDuration = reflect.TypeOf(time.Duration(0))
	tTime     = reflect.TypeOf(time.Time{})
	tUUID     = reflect.TypeOf(uuid.UUID{})
	tRC       = reflect.TypeOf(message.ResultCode(0))
	tQoS      = reflect.TypeOf(message.QoS(0))
	tMeta     = reflect.TypeOf((*message.Metadata)(nil)).Elem()
	tSendable = reflect.TypeOf((*message.SendableMetadata)(nil)).Elem()
	tDIDOrA   = reflect.TypeOf((*message.DataIDOrAlias)(nil)).Elem()
	tUpOrA    = reflect.TypeOf((*message.UpstreamOrAlias)(nil)).Elem()
)

func (g *gen) fill(v reflect.Value, depth int) {
	t := v.Type()
	switch {
	case t == tDuration:
		if g.canonical {
			v.SetInt(int64(time.Second) * []int64{0, 1, 10, 3600, 86400, 4000000}[g.rng.Intn(6)])
		} else {
			v.SetInt([]int64{0, 1, 999999, 1000000, 1500000000, 123456789012, int64(time.Millisecond) * 4294967295}[g.rng.Intn(7)])
		}
		return
	case t == tTime:
		if g.rng.Intn(6) == 0 {
			if g.canonical {
				v.Set(reflect.ValueOf(time.Unix(0, 0).UTC())) // the unset time travels as the Unix epoch (ServerTimeOrUnixZero)
			}
			return
		}
		v.Set(reflect.ValueOf(time.Unix(int64(g.rng.Intn(2000000000)), int64(g.rng.Intn(1000000000))).UTC()))
		return
	case t == tUUID:
		var u uuid.UUID
		g.rng.Read(u[:])
		v.Set(reflect.ValueOf(u))
		return
	case t == tRC:
		c := int64(1 + g.variant%36)
		if g.canonical && c == 2 {
			c = 1 // the wire aliases NORMAL_CLOSURE and SUCCEEDED (model: canonRC); code 2 is covered by the rc2w/w2rc ops
		}
		v.SetInt(c)
		return
	case t == tQoS:
		v.SetUint(uint64(g.variant % 3))
		return
	}
	switch t.Kind() {
	case reflect.String:
		v.SetString(strPool[g.rng.Intn(len(strPool))])
	case reflect.Bool:
		v.SetBool(g.rng.Intn(2) == 0)
	case reflect.Uint8, reflect.Uint16, reflect.Uint32, reflect.Uint64, reflect.Uint:
		max := uint64(1)<<uint(t.Bits()) - 1
		if t.Bits() == 64 {
			max = ^uint64(0)
		}
		v.SetUint([]uint64{0, 1, 2, 255, 65535, max, uint64(g.rng.Int63()) & max}[g.rng.Intn(7)])
	case reflect.Int, reflect.Int8, reflect.Int16, reflect.Int32, reflect.Int64:
		v.SetInt([]int64{0, 1, -1, 1 << 30, g.rng.Int63n(1 << 31)}[g.rng.Intn(5)])
	case reflect.Slice:
		if t.Elem().Kind() == reflect.Uint8 {
			b := make([]byte, []int{0, 1, 3, 64, 2000}[g.rng.Intn(5)])
			g.rng.Read(b)
			v.SetBytes(b)
			return
		}
		n := g.rng.Intn(4)
		if depth > 4 {
			n = g.rng.Intn(2)
		}
		s := reflect.MakeSlice(t, n, n)
		for i := 0; i < n; i++ {
			g.fill(s.Index(i), depth+1)
		}
		v.Set(s)
	case reflect.Map:
		m := reflect.MakeMap(t)
		for i := g.rng.Intn(4); i > 0; i-- {
			k := reflect.New(t.Key()).Elem()
			g.fill(k, depth+1)
			e := reflect.New(t.Elem()).Elem()
			g.fill(e, depth+1)
			m.SetMapIndex(k, e)
		}
		v.Set(m)
	case reflect.Ptr:
		if strings.HasSuffix(t.Elem().Name(), "ExtensionFields") && g.nilExt {
			return // absent extension record
		}
		p := reflect.New(t.Elem())
		g.fill(p.Elem(), depth+1)
		v.Set(p)
	case reflect.Struct:
		for i := 0; i < t.NumField(); i++ {
			if v.Field(i).CanSet() {
				if t.Field(i).Name == "ElapsedTime" && t.Field(i).Type == tDuration {
					// a data point's elapsed time is a signed 64-bit nanosecond count on the wire: every value, negative ones
					// included, is canonical and must survive unchanged
					v.Field(i).SetInt([]int64{0, 1, -1, -5, 999, 1500000000, -1500000000, 1 << 40, -(1 << 40), 1<<63 - 1, -1 << 63, g.rng.Int63(), -g.rng.Int63()}[g.rng.Intn(13)])
					continue
				}
				g.fill(v.Field(i), depth+1)
			}
		}
	case reflect.Interface:
		switch t {
		case tMeta:
			m := metas[g.variant%len(metas)]()
			g.fill(reflect.ValueOf(m).Elem(), depth+1)
			v.Set(reflect.ValueOf(m))
		case tSendable:
			m := &message.BaseTime{}
			g.fill(reflect.ValueOf(m).Elem(), depth+1)
			v.Set(reflect.ValueOf(m))
		case tDIDOrA:
			if (g.variant+g.rng.Intn(2))%2 == 0 {
				v.Set(reflect.ValueOf(message.DataIDAlias(g.alias())))
			} else {
				v.Set(reflect.ValueOf(&message.DataID{Name: strPool[g.rng.Intn(len(strPool))], Type: strPool[g.rng.Intn(len(strPool))]}))
			}
		case tUpOrA:
			if (g.variant+g.rng.Intn(2))%2 == 0 {
				v.Set(reflect.ValueOf(message.UpstreamAlias(g.alias())))
			} else {
				u := &message.UpstreamInfo{}
				g.fill(reflect.ValueOf(u).Elem(), depth+1)
				v.Set(reflect.ValueOf(u))
			}
		}
	}
}

// alias: the boundary values of an alias member first (0 is a legitimate alias: the oneof member is present and zero).
func (g *gen) alias() uint32 {
	return []uint32{0, 0, 1, 1<<32 - 1, g.rng.Uint32()}[g.rng.Intn(5)]
}

// norm: the documented canonical form used for comparison: absent collections are empty, absent extension records are empty
// records, times are compared as instants in UTC, durations at the resolution the wire field has (only when !exactDur).
func norm(v reflect.Value) interface{} {
	t := v.Type()
	if t == tTime {
		tm := v.Interface().(time.Time)
		if tm.IsZero() {
			return "time:zero"
		}
		return fmt.Sprintf("time:%d", tm.UnixNano())
	}
	if t == tUUID {
		return v.Interface().(uuid.UUID).String()
	}
	switch t.Kind() {
	case reflect.Ptr:
		if v.IsNil() {
			if t.Elem().Kind() == reflect.Struct && strings.HasSuffix(t.Elem().Name(), "ExtensionFields") {
				return norm(reflect.New(t.Elem()).Elem())
			}
			return nil
		}
		return norm(v.Elem())
	case reflect.Interface:
		if v.IsNil() {
			return nil
		}
		return map[string]interface{}{"@" + v.Elem().Type().String(): norm(v.Elem())}
	case reflect.Struct:
		m := map[string]interface{}{}
		for i := 0; i < t.NumField(); i++ {
			m[t.Field(i).Name] = norm(v.Field(i))
		}
		return m
	case reflect.Slice:
		if t.Elem().Kind() == reflect.Uint8 {
			return fmt.Sprintf("bytes:%x", v.Bytes())
		}
		l := make([]interface{}, v.Len())
		for i := range l {
			l[i] = norm(v.Index(i))
		}
		return l
	case reflect.Map:
		m := map[string]interface{}{}
		for _, k := range v.MapKeys() {
			m[fmt.Sprint(k.Interface())] = norm(v.MapIndex(k))
		}
		return m
	case reflect.String:
		return "s:" + v.String()
	case reflect.Bool:
		return v.Bool()
	case reflect.Uint8, reflect.Uint16, reflect.Uint32, reflect.Uint64, reflect.Uint:
		return fmt.Sprintf("u:%d", v.Uint())
	case reflect.Int, reflect.Int8, reflect.Int16, reflect.Int32, reflect.Int64:
		return fmt.Sprintf("i:%d", v.Int())
	}
	return fmt.Sprint(v.Interface())
}

func normMsg(m message.Message) string { return fmt.Sprintf("%T%v", m, norm(reflect.ValueOf(m))) }

type codec struct {
	name string
	enc  encoding.Encoding
}

func roundtrip(c codec, m message.Message) (message.Message, int, int, int, error) {
	var buf bytes.Buffer
	n1, err := c.enc.EncodeTo(&buf, m)
	if err != nil {
		return nil, 0, 0, 0, fmt.Errorf("encode: %w", err)
	}
	l := buf.Len()
	n2, m1, err := c.enc.DecodeFrom(bytes.NewReader(buf.Bytes()))
	if err != nil {
		return nil, n1, l, 0, fmt.Errorf("decode: %w", err)
	}
	return m1, n1, l, n2, nil
}

func firstDiff(a, b string) string {
	i := 0
	for i < len(a) && i < len(b) && a[i] == b[i] {
		i++
	}
	lo := i - 60
	if lo < 0 {
		lo = 0
	}
	ha, hb := i+80, i+80
	if ha > len(a) {
		ha = len(a)
	}
	if hb > len(b) {
		hb = len(b)
	}
	return fmt.Sprintf("…%s… vs …%s…", a[lo:ha], b[lo:hb])
}

type pipeRW struct{ msgs chan []byte }

func (p *pipeRW) Read() ([]byte, error) { return <-p.msgs, nil }
func (p *pipeRW) Write(b []byte) error  { p.msgs <- b; return nil }
func (p *pipeRW) Close() error          { return nil }

// framePipe: the broker side of a reliable transport at frame level: `in` carries raw frames to the client, `out` what it writes
type framePipe struct {
	in, out chan []byte
	closed  chan struct{}
	once    sync.Once
}

func newFramePipe() *framePipe {
	return &framePipe{in: make(chan []byte, 64), out: make(chan []byte, 1024), closed: make(chan struct{})}
}
func (p *framePipe) Read() ([]byte, error) {
	select {
	case b := <-p.in:
		return b, nil
	case <-p.closed:
		return nil, transport.ErrAlreadyClosed
	}
}
func (p *framePipe) Write(b []byte) error {
	select {
	case <-p.closed:
		return transport.ErrAlreadyClosed
	default:
	}
	select {
	case p.out <- append([]byte(nil), b...):
	default: // the probe only looks for pongs; drop when nobody drains
	}
	return nil
}
func (p *framePipe) Close() error                { p.once.Do(func() { close(p.closed) }); return nil }
func (p *framePipe) RxBytesCounterValue() uint64 { return 0 }
func (p *framePipe) TxBytesCounterValue() uint64 { return 0 }
func (p *pipeRW) RxBytesCounterValue() uint64    { return 0 }
func (p *pipeRW) TxBytesCounterValue() uint64    { return 0 }

var _ transport.ReadWriter = (*pipeRW)(nil)

func main() {
	h := lp.New()
	defer h.Finish()
	codecs := []codec{{"proto", eproto.NewEncoding()}, {"json", ejson.NewEncoding()}}
	rng := h.Rng
	var corpus [][2]interface{} // (codec index, bytes)

	// ---- 1. converter tables and scalar conversions against the model
	h.Case("tables")
	for v := -1; v <= 40; v++ {
		out := "err"
		if pb, err := convert.WireToProto(&message.Disconnect{ResultCode: message.ResultCode(v), ResultString: "r"}); err == nil {
			out = strconv.Itoa(int(pb.GetDisconnect().ResultCode))
		}
		h.Op(fmt.Sprintf("rc2w %d", v), out)
	}
	for _, v := range []int{-1, 0, 1, 2, 3, 4, 63, 64, 70, 87, 88, 89, 90, 91, 127, 128, 129, 130, 131, 132, 1000} {
		out := "err"
		if m, err := convert.ProtoToWire(&autogen.Message{Message: &autogen.Message_Disconnect{Disconnect: &autogen.Disconnect{ResultCode: autogen.ResultCode(v)}}}); err == nil {
			out = strconv.Itoa(int(m.(*message.Disconnect).ResultCode))
		}
		h.Op(fmt.Sprintf("w2rc %d", v), out)
		if _, known := autogen.ResultCode_name[int32(v)]; !known && out != "err" {
			h.Violate(fmt.Sprintf("a result code number the wire enumeration does not have (%d) is accepted by the decoder as %s", v, out))
		}
	}
	for v := -1; v <= 4; v++ {
		out := "err"
		if pb, err := convert.WireToProto(&message.UpstreamOpenRequest{QoS: message.QoS(v)}); err == nil {
			out = strconv.Itoa(int(pb.GetUpstreamOpenRequest().Qos))
		}
		h.Op(fmt.Sprintf("qos2w %d", v), out)
		out = "err"
		if m, err := convert.ProtoToWire(&autogen.Message{Message: &autogen.Message_UpstreamOpenRequest{UpstreamOpenRequest: &autogen.UpstreamOpenRequest{Qos: autogen.QoS(v)}}}); err == nil {
			out = strconv.Itoa(int(m.(*message.UpstreamOpenRequest).QoS))
		}
		h.Op(fmt.Sprintf("w2qos %d", v), out)
		if _, known := autogen.QoS_name[int32(v)]; !known && out != "err" {
			h.Violate(fmt.Sprintf("a QoS number the wire enumeration does not have (%d) is accepted by the decoder as %s", v, out))
		}
	}
	for _, ns := range []int64{0, 1, 999999999, 1000000000, 1500000000, 3600000000000, 123456789012345, 4294967295000000000} {
		for _, c := range codecs {
			m1, _, _, _, err := roundtrip(c, &message.ConnectRequest{PingInterval: time.Duration(ns)})
			out := "err"
			if err == nil {
				out = strconv.FormatInt(int64(m1.(*message.ConnectRequest).PingInterval), 10)
			}
			h.Op(fmt.Sprintf("durs %d", ns), out)
			for _, msNs := range []int64{ns % 4294967295000000, ns%4294967295000000 + 4294967296000000} { // in range, and wrapped
				m1, _, _, _, err = roundtrip(c, &message.UpstreamOpenRequest{AckInterval: time.Duration(msNs)})
				out = "err"
				if err == nil {
					out = strconv.FormatInt(int64(m1.(*message.UpstreamOpenRequest).AckInterval), 10)
				}
				h.Op(fmt.Sprintf("durms %d", msNs), out)
			}
		}
	}
	// a data point's elapsed time: signed 64-bit nanoseconds at both ends, every value survives unchanged
	for k, ns := range []int64{0, 1, -1, -5, 999999, -999999, 1500000000, -1500000000, 1 << 40, -(1 << 40), 1<<63 - 1, -1 << 63, rng.Int63(), -rng.Int63(), rng.Int63n(1 << 32), -rng.Int63n(1 << 32)} {
		for ci, c := range codecs {
			var in message.Message
			if (k+ci)%2 == 0 {
				in = &message.UpstreamChunk{StreamChunk: &message.StreamChunk{DataPointGroups: []*message.DataPointGroup{{DataIDOrAlias: message.DataIDAlias(1), DataPoints: []*message.DataPoint{{ElapsedTime: time.Duration(ns), Payload: []byte{1}}}}}}}
			} else {
				in = &message.DownstreamChunk{UpstreamOrAlias: message.UpstreamAlias(1), StreamChunk: &message.StreamChunk{DataPointGroups: []*message.DataPointGroup{{DataIDOrAlias: message.DataIDAlias(1), DataPoints: []*message.DataPoint{{ElapsedTime: time.Duration(ns), Payload: []byte{1}}}}}}}
			}
			m1, _, _, _, err := roundtrip(c, in)
			out := "err"
			if err == nil {
				var sc *message.StreamChunk
				switch x := m1.(type) {
				case *message.UpstreamChunk:
					sc = x.StreamChunk
				case *message.DownstreamChunk:
					sc = x.StreamChunk
				}
				if sc != nil && len(sc.DataPointGroups) == 1 && len(sc.DataPointGroups[0].DataPoints) == 1 {
					out = strconv.FormatInt(int64(sc.DataPointGroups[0].DataPoints[0].ElapsedTime), 10)
				} else {
					out = "shape"
				}
			}
			h.Op(fmt.Sprintf("elapsed %d", ns), out)
			if out != strconv.FormatInt(ns, 10) {
				h.Violate(fmt.Sprintf("a data point's elapsed time of %d ns decodes as %s", ns, out))
			}
		}
	}
	// sweeps at wire resolution: every whole millisecond / second of a stretch, and random whole units of the full range
	var sweep []int64
	for ms := int64(980); ms <= 1130; ms++ {
		sweep = append(sweep, ms)
	}
	for k := 0; k < 150; k++ {
		sweep = append(sweep, rng.Int63n(4294967296))
	}
	for _, u := range sweep {
		m1, _, _, _, err := roundtrip(codecs[int(u)%2], &message.UpstreamOpenRequest{AckInterval: time.Duration(u) * time.Millisecond})
		out := "err"
		if err == nil {
			out = strconv.FormatInt(int64(m1.(*message.UpstreamOpenRequest).AckInterval), 10)
		}
		h.Op(fmt.Sprintf("durms %d", u*1000000), out)
		if err == nil && m1.(*message.UpstreamOpenRequest).AckInterval != time.Duration(u)*time.Millisecond {
			h.Violate(fmt.Sprintf("AckInterval of %d whole milliseconds decodes as %v", u, m1.(*message.UpstreamOpenRequest).AckInterval))
		}
		if u*1000000000/1000000000 == u && u < 4294967296 && u*1000000000 > 0 {
			m2, _, _, _, err := roundtrip(codecs[int(u)%2], &message.UpstreamOpenRequest{ExpiryInterval: time.Duration(u) * time.Second})
			out = "err"
			if err == nil {
				out = strconv.FormatInt(int64(m2.(*message.UpstreamOpenRequest).ExpiryInterval), 10)
			}
			h.Op(fmt.Sprintf("durs %d", u*1000000000), out)
			if err == nil && m2.(*message.UpstreamOpenRequest).ExpiryInterval != time.Duration(u)*time.Second {
				h.Violate(fmt.Sprintf("ExpiryInterval of %d whole seconds decodes as %v", u, m2.(*message.UpstreamOpenRequest).ExpiryInterval))
			}
		}
	}
	// size gate
	for _, max := range []int{0, 1, 10, 100} {
		for _, n := range []int{0, 1, 9, 10, 11, 99, 100, 101, 5000} {
			p := &pipeRW{msgs: make(chan []byte, 1)}
			tr := encoding.NewTransport(&encoding.TransportConfig{Transport: p, Encoding: codecs[0].enc, MaxMessageSize: encoding.Size(max)})
			p.msgs <- bytes.Repeat([]byte{0xff}, n)
			_, err := tr.Read()
			out := "pass"
			if err != nil && errors.Is(err, errors.ErrMessageTooLarge) {
				out = "too-large"
			}
			h.Op(fmt.Sprintf("gate %d %d", max, n), out)
			if max > 0 && n > max && out != "too-large" {
				h.Violate(fmt.Sprintf("a frame of %d bytes is not rejected as too large under a maximum message size of %d (error: %v)", n, max, err))
			}
		}
	}
	// ... and with well-formed frames around the limit (for JSON also padded with trailing white space)
	for ci, c := range codecs {
		var buf bytes.Buffer
		c.enc.EncodeTo(&buf, &message.UpstreamMetadata{RequestID: 6, Metadata: &message.BaseTime{Name: "edge", Priority: 3}})
		frame := buf.Bytes()
		for _, d := range []int{-1, 0, 1, 40} {
			for _, pad := range []int{0, 64} {
				if pad > 0 && ci == 0 {
					continue
				}
				b := append(append([]byte(nil), frame...), bytes.Repeat([]byte{' '}, pad)...)
				max := len(frame) + d
				p := &pipeRW{msgs: make(chan []byte, 1)}
				tr := encoding.NewTransport(&encoding.TransportConfig{Transport: p, Encoding: c.enc, MaxMessageSize: encoding.Size(max)})
				p.msgs <- b
				m, err := tr.Read()
				out := "pass"
				if err != nil && errors.Is(err, errors.ErrMessageTooLarge) {
					out = "too-large"
				}
				h.Op(fmt.Sprintf("gate %d %d", max, len(b)), out)
				if len(b) > max && out != "too-large" {
					h.Violate(fmt.Sprintf("%s: a well-formed frame of %d bytes is not rejected as too large under a maximum of %d (message %v, error %v)", c.name, len(b), max, m != nil, err))
				}
				if len(b) <= max && (err != nil || m == nil) {
					h.Violate(fmt.Sprintf("%s: a well-formed frame of %d bytes is refused under a maximum of %d: %v", c.name, len(b), max, err))
				}
			}
		}
	}
	h.Distinct("tables")

	// ---- 2. every message kind, exhaustively over variants, randomly over contents
	reps := 80 + h.N/4
	for ki, mk := range kinds {
		for variant := 0; variant < reps; variant++ {
			// the first 36 variants walk through every result code (and QoS, oneof variant) in canonical form: equality is demanded
			g := &gen{rng: rng, canonical: variant < 36 || variant%3 != 2, variant: variant, nilExt: variant%5 == 4}
			m := mk()
			g.fill(reflect.ValueOf(m).Elem(), 0)
			name := fmt.Sprintf("%T/%d canonical=%v nilext=%v", m, variant, g.canonical, g.nilExt)
			h.Case(name)
			var decoded []message.Message
			okAll := true
			for ci, c := range codecs {
				m1, n1, l, n2, err := roundtrip(c, m)
				if err != nil {
					h.Violate(fmt.Sprintf("%s %s: %v", c.name, name, err))
					okAll = false
					continue
				}
				if n1 != l || n2 != l {
					h.Violate(fmt.Sprintf("%s %s: the codec reports %d bytes written / %d bytes read, %d bytes were produced", c.name, name, n1, n2, l))
				}
				var buf bytes.Buffer
				c.enc.EncodeTo(&buf, m)
				corpus = append(corpus, [2]interface{}{ci, append([]byte(nil), buf.Bytes()...)})
				if g.canonical && normMsg(m1) != normMsg(m) {
					h.Violate(fmt.Sprintf("%s %s: decoding the encoding does not give the message back: %s", c.name, name, firstDiff(normMsg(m), normMsg(m1))))
					okAll = false
				}
				// the decoded message is in canonical form: a fixed point of encode/decode
				m2, _, _, _, err := roundtrip(c, m1)
				if err != nil || normMsg(m2) != normMsg(m1) {
					h.Violate(fmt.Sprintf("%s %s: a decoded message does not survive a second round trip (%v)", c.name, name, err))
					okAll = false
				}
				decoded = append(decoded, m1)
			}
			if len(decoded) == 2 && normMsg(decoded[0]) != normMsg(decoded[1]) {
				h.Violate(fmt.Sprintf("%s: the protobuf and the JSON encoding decode to different messages: %s", name, firstDiff(normMsg(decoded[0]), normMsg(decoded[1]))))
				okAll = false
			}
			h.Op(fmt.Sprintf("msg %d %d", ki, variant), "-")
			if h.Distinct(name) && variant == 7 && okAll && ki%7 == 0 {
				h.Sample()
			}
			if h.TooMany() {
				return
			}
		}
	}

	// ---- 2b. encoding.Transport counters: messages and bytes per kind on both sides equal what was framed
	for ci, c := range codecs {
		h.Case("counters " + c.name)
		a2b := &pipeRW{msgs: make(chan []byte, 4096)}
		A := encoding.NewTransport(&encoding.TransportConfig{Transport: a2b, Encoding: c.enc})
		B := encoding.NewTransport(&encoding.TransportConfig{Transport: a2b, Encoding: c.enc})
		wantBytes, wantMsgs := map[reflect.Type]uint64{}, map[reflect.Type]uint64{}
		total := 0
		for k := 0; k < 120; k++ {
			g := &gen{rng: rng, canonical: true, variant: k}
			m := kinds[(k*7+ci)%len(kinds)]()
			g.fill(reflect.ValueOf(m).Elem(), 0)
			var buf bytes.Buffer
			if _, err := c.enc.EncodeTo(&buf, m); err != nil {
				continue
			}
			if err := A.Write(m); err != nil {
				h.Violate(fmt.Sprintf("%s: Transport.Write of a %T failed: %v", c.name, m, err))
				continue
			}
			if _, err := B.Read(); err != nil {
				h.Violate(fmt.Sprintf("%s: Transport.Read of a %T failed: %v", c.name, m, err))
				continue
			}
			wantBytes[reflect.TypeOf(m)] += uint64(buf.Len())
			wantMsgs[reflect.TypeOf(m)]++
			total++
		}
		tx, rx := A.TxCount(), B.RxCount()
		for typ, n := range wantMsgs {
			if tx.MessageCount[typ] != n || rx.MessageCount[typ] != n || tx.ByteCount[typ] != wantBytes[typ] || rx.ByteCount[typ] != wantBytes[typ] {
				h.Violate(fmt.Sprintf("%s counters for %v: %d messages / %d bytes were framed; sender counted %d / %d, receiver %d / %d", c.name, typ, n, wantBytes[typ],
					tx.MessageCount[typ], tx.ByteCount[typ], rx.MessageCount[typ], rx.ByteCount[typ]))
			}
		}
		if A.TxMessageCounterValue() != uint64(total) || B.RxMessageCounterValue() != uint64(total) {
			h.Violate(fmt.Sprintf("%s: %d messages went through; message counters say tx=%d rx=%d", c.name, total, A.TxMessageCounterValue(), B.RxMessageCounterValue()))
		}
		h.Op("msg counters "+c.name, "-")
		h.Distinct("counters/" + c.name)
	}

	// ---- 3. hostile input for the decoders
	try := func(ci int, b []byte, what string) {
		c := codecs[ci]
		type res struct {
			m   message.Message
			err error
			pan interface{}
		}
		done := make(chan res, 1)
		go func() {
			defer func() {
				if r := recover(); r != nil {
					done <- res{pan: r}
				}
			}()
			_, m, err := c.enc.DecodeFrom(bytes.NewReader(b))
			done <- res{m: m, err: err}
		}()
		select {
		case r := <-done:
			switch {
			case r.pan != nil:
				h.Violate(fmt.Sprintf("%s decoder panicked on %s input %x: %v", c.name, what, b, r.pan))
			case r.err == nil && r.m != nil:
				h.Count("fuzz:" + c.name + ":decoded")
				m2, _, _, _, err := roundtrip(c, r.m)
				if err != nil {
					h.Violate(fmt.Sprintf("%s decoder produced a message from %s input %x that cannot be encoded and decoded again: %v", c.name, what, b, err))
				} else if normMsg(m2) != normMsg(r.m) {
					h.Violate(fmt.Sprintf("%s decoder produced a message from %s input that does not decode back to itself: %s", c.name, what, firstDiff(normMsg(r.m), normMsg(m2))))
				}
			case r.err == nil && r.m == nil:
				h.Violate(fmt.Sprintf("%s decoder returned neither an error nor a message for %s input %x", c.name, what, b))
			default:
				h.Count("fuzz:" + c.name + ":error")
			}
		case <-time.After(2 * time.Second):
			h.Violate(fmt.Sprintf("%s decoder hangs on %s input %x", c.name, what, b))
		}
	}
	h.Case("fuzz")
	nf := 400 + h.N*10
	for k := 0; k < nf && !h.TooMany(); k++ {
		e := corpus[rng.Intn(len(corpus))]
		ci, b := e[0].(int), append([]byte(nil), e[1].([]byte)...)
		what := ""
		switch rng.Intn(7) {
		case 0:
			what = "truncated"
			if len(b) > 0 {
				b = b[:rng.Intn(len(b))]
			}
		case 1:
			what = "bit-flipped"
			for j := 1 + rng.Intn(3); j > 0 && len(b) > 0; j-- {
				b[rng.Intn(len(b))] ^= byte(1 << uint(rng.Intn(8)))
			}
		case 2:
			what = "byte-overwritten"
			for j := 1 + rng.Intn(4); j > 0 && len(b) > 0; j-- {
				b[rng.Intn(len(b))] = byte(rng.Intn(256))
			}
		case 3:
			what = "spliced"
			o := corpus[rng.Intn(len(corpus))][1].([]byte)
			if len(b) > 0 && len(o) > 0 {
				b = append(b[:rng.Intn(len(b))], o[rng.Intn(len(o)):]...)
			}
		case 4:
			what = "random"
			b = make([]byte, rng.Intn(64))
			rng.Read(b)
		case 5:
			what = "huge-count"
			if len(b) > 2 {
				i := rng.Intn(len(b) - 1)
				b[i], b[i+1] = 0xff, 0x7f
			}
		default:
			what = "cross-encoding"
			ci = 1 - ci
		}
		try(ci, b, what)
	}
	// structure-aware corruption at the protobuf level
	bad := []*autogen.Message{
		{}, // absent oneof
		{Message: &autogen.Message_ConnectRequest{}},
		{Message: &autogen.Message_UpstreamOpenResponse{UpstreamOpenResponse: &autogen.UpstreamOpenResponse{AssignedStreamId: []byte{1, 2, 3}}}},
		{Message: &autogen.Message_UpstreamResumeRequest{UpstreamResumeRequest: &autogen.UpstreamResumeRequest{StreamId: bytes.Repeat([]byte{9}, 17)}}},
		{Message: &autogen.Message_Disconnect{Disconnect: &autogen.Disconnect{ResultCode: 9999}}},
		{Message: &autogen.Message_UpstreamOpenRequest{UpstreamOpenRequest: &autogen.UpstreamOpenRequest{Qos: 77}}},
		{Message: &autogen.Message_UpstreamChunk{UpstreamChunk: &autogen.UpstreamChunk{}}},
		{Message: &autogen.Message_UpstreamChunk{UpstreamChunk: &autogen.UpstreamChunk{StreamChunk: &autogen.StreamChunk{DataPointGroups: []*autogen.DataPointGroup{{}, nil}}}}},
		{Message: &autogen.Message_DownstreamChunk{DownstreamChunk: &autogen.DownstreamChunk{StreamChunk: &autogen.StreamChunk{}}}},
		{Message: &autogen.Message_DownstreamChunk{DownstreamChunk: &autogen.DownstreamChunk{}}},
		{Message: &autogen.Message_DownstreamChunkAck{DownstreamChunkAck: &autogen.DownstreamChunkAck{Results: []*autogen.DownstreamChunkResult{{StreamIdOfUpstream: []byte{1}}}}}},
		{Message: &autogen.Message_DownstreamChunkAck{DownstreamChunkAck: &autogen.DownstreamChunkAck{UpstreamAliases: map[uint32]*autogen.UpstreamInfo{1: nil, 2: {StreamId: []byte{5}}}}}},
		{Message: &autogen.Message_DownstreamMetadata{DownstreamMetadata: &autogen.DownstreamMetadata{}}},
		{Message: &autogen.Message_UpstreamMetadata{UpstreamMetadata: &autogen.UpstreamMetadata{}}},
		{Message: &autogen.Message_DownstreamMetadata{DownstreamMetadata: &autogen.DownstreamMetadata{Metadata: &autogen.DownstreamMetadata_UpstreamOpen{}}}},
		{Message: &autogen.Message_DownstreamMetadata{DownstreamMetadata: &autogen.DownstreamMetadata{Metadata: &autogen.DownstreamMetadata_DownstreamOpen{DownstreamOpen: &autogen.DownstreamOpen{StreamId: []byte{1, 2}}}}}},
		{Message: &autogen.Message_UpstreamChunkAck{UpstreamChunkAck: &autogen.UpstreamChunkAck{Results: []*autogen.UpstreamChunkResult{nil}, DataIdAliases: map[uint32]*autogen.DataID{3: nil}}}},
		{Message: &autogen.Message_DownstreamOpenRequest{DownstreamOpenRequest: &autogen.DownstreamOpenRequest{DownstreamFilters: []*autogen.DownstreamFilter{nil, {DataFilters: []*autogen.DataFilter{nil}}}}}},
	}
	// unknown enumeration numbers must be refused outright, in both encodings
	for _, q := range []int32{-1, 3, 4, 77} {
		for k, pb := range []*autogen.Message{
			{Message: &autogen.Message_UpstreamOpenRequest{UpstreamOpenRequest: &autogen.UpstreamOpenRequest{SessionId: "s", Qos: autogen.QoS(q)}}},
			{Message: &autogen.Message_DownstreamOpenRequest{DownstreamOpenRequest: &autogen.DownstreamOpenRequest{Qos: autogen.QoS(q)}}},
		} {
			pbb, _ := pb.Marshal()
			var jb bytes.Buffer
			(&jsonpb.Marshaler{EmitDefaults: true, OrigName: true, EnumsAsInts: true}).Marshal(&jb, pb)
			for ci, b := range [][]byte{pbb, jb.Bytes()} {
				if len(b) == 0 {
					continue
				}
				h.Count("fuzz:unknown-enum")
				if _, m, err := codecs[ci].enc.DecodeFrom(bytes.NewReader(b)); err == nil {
					h.Violate(fmt.Sprintf("%s decoder accepts QoS number %d, which the wire enumeration does not have, in message %d: %v", codecs[ci].name, q, k, m))
				}
			}
		}
	}
	for k, pb := range bad {
		b, err := func() (b []byte, err error) {
			defer func() {
				if recover() != nil { // nil elements cannot be marshalled (and so cannot arrive): skip
					err = fmt.Errorf("unmarshallable")
				}
			}()
			return pb.Marshal()
		}()
		if err != nil {
			h.Count("fuzz:structure:unmarshallable")
			continue
		}
		try(0, b, fmt.Sprintf("structure-corrupted(%d)", k))
	}
	h.Op("fuzz", "-")
	h.Distinct("fuzz")

	// ---- 4. hostile frames on the read path of a real wire connection
	enc := func(m message.Message) []byte {
		var buf bytes.Buffer
		codecs[0].enc.EncodeTo(&buf, m)
		return buf.Bytes()
	}
	nframes := 24 + h.N/2
	for fc := 0; fc < nframes && !h.TooMany(); fc++ {
		h.Case(fmt.Sprintf("frames %d", fc))
		p := newFramePipe()
		tr := encoding.NewTransport(&encoding.TransportConfig{Transport: p, Encoding: codecs[0].enc, MaxMessageSize: 1 << 16})
		p.in <- enc(&message.ConnectResponse{RequestID: 0, ResultCode: message.ResultCodeSucceeded})
		// a healthy broker answers pings
		stop := make(chan struct{})
		pongs := make(chan uint32, 1024)
		go func() {
			for {
				select {
				case b := <-p.out:
					_, m, err := codecs[0].enc.DecodeFrom(bytes.NewReader(b))
					if err != nil {
						continue
					}
					switch v := m.(type) {
					case *message.Ping:
						select {
						case p.in <- enc(&message.Pong{RequestID: v.RequestID}):
						case <-stop:
							return
						}
					case *message.Pong:
						pongs <- uint32(v.RequestID)
					}
				case <-stop:
					return
				}
			}
		}()
		type cres struct {
			c   *wire.ClientConn
			err error
		}
		cch := make(chan cres, 1)
		go func() {
			c, err := wire.Connect(&wire.ClientConnConfig{Transport: tr, PingInterval: 60 * time.Millisecond, PingTimeout: 120 * time.Millisecond})
			cch <- cres{c, err}
		}()
		var conn *wire.ClientConn
		select {
		case r := <-cch:
			if r.err != nil {
				h.Violate("wire.Connect failed on a valid connect response: " + r.err.Error())
				close(stop)
				continue
			}
			conn = r.c
		case <-time.After(2 * time.Second):
			h.Violate("wire.Connect hangs")
			close(stop)
			continue
		}
		// an application that listens: subscriptions on a few aliases (dispatch tables the read path consults)
		sctx, scancel := context.WithTimeout(context.Background(), time.Second)
		conn.SubscribeDownstreamChunk(sctx, 2, message.QoSReliable)
		conn.SubscribeDownstreamChunkAckComplete(sctx, 2)
		conn.SubscribeDownstreamMeta(sctx, 2, "nodeA")
		conn.SubscribeUpstreamChunkAck(sctx, 3)
		scancel()
		outcome := "alive"
		k := 1 + rng.Intn(5)
		for j := 0; j < k && outcome == "alive"; j++ {
			e := corpus[rng.Intn(len(corpus))]
			for e[0].(int) != 0 {
				e = corpus[rng.Intn(len(corpus))]
			}
			b := append([]byte(nil), e[1].([]byte)...)
			what := "valid"
			kindOf := rng.Intn(8)
			if fc%2 == 0 { // every other connection sees well-formed frames only (valid or misaddressed): it must stay fully usable
				kindOf = 4 + rng.Intn(3)
			}
			switch kindOf {
			case 0:
				what = "truncated"
				if len(b) > 0 {
					b = b[:rng.Intn(len(b))]
				}
			case 1:
				what = "bit-flipped"
				if len(b) > 0 {
					b[rng.Intn(len(b))] ^= byte(1 << uint(rng.Intn(8)))
				}
			case 2:
				what = "random"
				b = make([]byte, rng.Intn(40))
				rng.Read(b)
			case 3:
				what = "oversized"
				b = bytes.Repeat([]byte{0x0a}, 1<<16+1+rng.Intn(100))
			case 4:
				what = "misaddressed"
				mis := []message.Message{
					&message.DownstreamMetadata{StreamIDAlias: 2, SourceNodeID: "unknown-node", Metadata: &message.BaseTime{Name: "x"}, ExtensionFields: &message.DownstreamMetadataExtensionFields{}},
					&message.DownstreamMetadata{StreamIDAlias: 77, SourceNodeID: "nodeA", Metadata: &message.BaseTime{Name: "x"}, ExtensionFields: &message.DownstreamMetadataExtensionFields{}},
					&message.DownstreamChunk{StreamIDAlias: 78, UpstreamOrAlias: message.UpstreamAlias(9), StreamChunk: &message.StreamChunk{}, ExtensionFields: &message.DownstreamChunkExtensionFields{}},
					&message.DownstreamChunkAckComplete{StreamIDAlias: 79, AckID: 5, ExtensionFields: &message.DownstreamChunkAckCompleteExtensionFields{}},
					&message.UpstreamChunkAck{StreamIDAlias: 80, ExtensionFields: &message.UpstreamChunkAckExtensionFields{}},
					&message.UpstreamCallAck{CallID: "nobody", ExtensionFields: &message.UpstreamCallAckExtensionFields{}},
					&message.UpstreamOpenResponse{RequestID: 4242, ExtensionFields: &message.UpstreamOpenResponseExtensionFields{}},
				}
				b = enc(mis[rng.Intn(len(mis))])
			}
			h.Count("frames:" + what)
			select {
			case p.in <- b:
			case <-time.After(2 * time.Second):
				h.Violate(fmt.Sprintf("the read path stopped consuming frames while the connection is open (frame %d, %s)", j, what))
				outcome = "stuck"
				continue
			}
			// liveness probe: a ping from the broker is answered, or the connection is given up within interval+timeout
			id := uint32(1000000 + j)
			p.in <- enc(&message.Ping{RequestID: message.RequestID(id)})
			deadline := time.After(2 * time.Second)
		probe:
			for {
				select {
				case got := <-pongs:
					if got == id {
						break probe
					}
				case <-conn.Closed():
					outcome = "closed"
					break probe
				case <-deadline:
					h.Violate(fmt.Sprintf("after a %s frame (%x) the connection neither answers a ping nor is given up within 2 s (interval 60 ms, timeout 120 ms)", what, b[:min(len(b), 48)]))
					outcome = "stuck"
					break probe
				}
			}
		}
		h.Count("frames:outcome:" + outcome)
		if outcome == "alive" {
			// the dispatch tables are still usable: a call that needs them exclusively returns
			lk := make(chan struct{})
			go func() {
				c2, cancel2 := context.WithTimeout(context.Background(), time.Second)
				conn.SubscribeDownstreamMeta(c2, 5, "nodeB")
				conn.SubscribeDownstreamChunk(c2, 5, message.QoSReliable)
				cancel2()
				close(lk)
			}()
			select {
			case <-lk:
			case <-time.After(2 * time.Second):
				h.Violate("after the frames the connection still answers pings but a subscription call blocks for more than 2 s: the read path kept a lock")
			}
		}
		done := make(chan struct{})
		go func() { conn.Close(); close(done) }()
		select {
		case <-done:
		case <-time.After(2 * time.Second):
			h.Violate("Close of the wire connection hangs after hostile frames")
		}
		close(stop)
		h.Op("frames", "-")
		h.Distinct(fmt.Sprintf("frames/%s/%d", outcome, k))
	}
}
