// Package lp: shared plumbing for correspondence harnesses (ops/impl files, PRNG, stats, oracle violations).
package lp

import (
	"bufio"
	"encoding/hex"
	"encoding/json"
	"flag"
	"fmt"
	"math/rand"
	"os"
	"path/filepath"
	"sort"
	"strings"
)

type H struct {
	Seed    int64
	N       int
	Tier    string
	OutDir  string
	Replay  string
	Rng     *rand.Rand
	ops     *bufio.Writer
	impl    *bufio.Writer
	opsF    *os.File
	implF   *os.File
	Hist    map[string]int
	Viol    []Violation
	Cases   int
	Ops     int
	Samples []string
	curCase []string
	curName string
	distinct map[string]struct{}
	Extra   map[string]any
}

type Violation struct {
	What string   `json:"what"`
	Case string   `json:"case"`
	Ops  []string `json:"ops"`
}

func New() *H {
	h := &H{Hist: map[string]int{}, distinct: map[string]struct{}{}, Extra: map[string]any{}}
	flag.Int64Var(&h.Seed, "seed", 1, "PRNG seed")
	flag.IntVar(&h.N, "n", 200, "number of generated cases")
	flag.StringVar(&h.Tier, "tier", "quick", "quick|thorough")
	flag.StringVar(&h.OutDir, "out", ".", "output directory")
	flag.StringVar(&h.Replay, "replay", "", "ops file to replay instead of generating")
	flag.Parse()
	h.Rng = rand.New(rand.NewSource(h.Seed))
	var err error
	if h.opsF, err = os.Create(filepath.Join(h.OutDir, "ops.txt")); err != nil {
		panic(err)
	}
	if h.implF, err = os.Create(filepath.Join(h.OutDir, "impl.out")); err != nil {
		panic(err)
	}
	h.ops = bufio.NewWriterSize(h.opsF, 1<<20)
	h.impl = bufio.NewWriterSize(h.implF, 1<<20)
	return h
}

// Case starts a new case: emits a comment line to both streams (the driver echoes comment lines).
func (h *H) Case(name string) {
	h.Cases++
	h.curCase = h.curCase[:0]
	h.curName = name
	line := "# case " + name
	fmt.Fprintln(h.ops, line)
	fmt.Fprintln(h.impl, line)
}

// Op records one operation and the implementation's canonical output.
func (h *H) Op(op, out string) {
	h.Ops++
	fmt.Fprintln(h.ops, op)
	fmt.Fprintln(h.impl, out)
	h.curCase = append(h.curCase, op+" => "+out)
	if i := strings.IndexByte(op, ' '); i > 0 {
		h.Hist["op:"+op[:i]]++
	} else {
		h.Hist["op:"+op]++
	}
}

func (h *H) Count(key string) { h.Hist[key]++ }

// Distinct marks a non-trivial case signature; returns true when new.
func (h *H) Distinct(sig string) bool {
	if _, ok := h.distinct[sig]; ok {
		return false
	}
	h.distinct[sig] = struct{}{}
	return true
}

func (h *H) Sample() {
	if len(h.Samples) < 3 {
		c := h.curCase
		if len(c) > 12 {
			c = append(append([]string{}, c[:12]...), fmt.Sprintf("... (%d more ops)", len(h.curCase)-12))
		}
		s := h.curName + ": " + strings.Join(c, " | ")
		if len(s) > 1500 {
			s = s[:1500] + "..."
		}
		h.Samples = append(h.Samples, s)
	}
}

// TooMany reports that enough violations were collected: generators stop early (the run is a failure anyway).
func (h *H) TooMany() bool { return h.Hist["oracle-violation"] >= 8 }

// Violate records a violation of the property's own oracle on the implementation.
func (h *H) Violate(what string) {
	ops := make([]string, 0, len(h.curCase))
	for _, l := range h.curCase {
		ops = append(ops, l)
	}
	if len(h.Viol) < 20 {
		h.Viol = append(h.Viol, Violation{What: what, Case: h.curName, Ops: ops})
	}
	h.Hist["oracle-violation"]++
}

func (h *H) Finish() {
	h.ops.Flush()
	h.impl.Flush()
	h.opsF.Close()
	h.implF.Close()
	keys := make([]string, 0, len(h.Hist))
	for k := range h.Hist {
		keys = append(keys, k)
	}
	sort.Strings(keys)
	st := map[string]any{
		"seed": h.Seed, "tier": h.Tier, "cases": h.Cases, "ops": h.Ops,
		"distinct_nontrivial": len(h.distinct), "histogram": h.Hist,
		"violations": h.Viol, "samples": h.Samples, "extra": h.Extra,
	}
	b, _ := json.MarshalIndent(st, "", " ")
	os.WriteFile(filepath.Join(h.OutDir, "stats.json"), b, 0o644)
}

func Hex(b []byte) string {
	if len(b) == 0 {
		return "-"
	}
	return hex.EncodeToString(b)
}

func UnHex(s string) []byte {
	if s == "-" {
		return nil
	}
	b, err := hex.DecodeString(s)
	if err != nil {
		panic(err)
	}
	return b
}

// ReadOps reads an ops file for replay (comment lines included).
func ReadOps(path string) []string {
	f, err := os.Open(path)
	if err != nil {
		panic(err)
	}
	defer f.Close()
	var res []string
	sc := bufio.NewScanner(f)
	sc.Buffer(make([]byte, 1<<20), 1<<28)
	for sc.Scan() {
		res = append(res, sc.Text())
	}
	return res
}
