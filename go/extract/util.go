package main

import (
	"bytes"
	"go/ast"
	"go/printer"
	"go/token"
)

func nodeString(fset *token.FileSet, n ast.Node) string {
	var buf bytes.Buffer
	printer.Fprint(&buf, fset, n)
	return buf.String()
}

// callName returns "pkg.Func" / "recv.Method" / "Func" for a call expression's function.
func callName(fset *token.FileSet, c *ast.CallExpr) string {
	return nodeString(fset, c.Fun)
}

// selName returns the final selector name of a call ("RemoveExpired" for x.y.RemoveExpired()).
func selName(c *ast.CallExpr) string {
	switch f := c.Fun.(type) {
	case *ast.SelectorExpr:
		return f.Sel.Name
	case *ast.Ident:
		return f.Name
	}
	return ""
}
