package main

import (
	"encoding/json"
	"fmt"
	"go/ast"
	"go/token"
	"go/types"
	"os"
	"sort"
	"strings"

	"golang.org/x/tools/go/cfg"
	"golang.org/x/tools/go/packages"
)

// ---- abstract lock programs (mirrors lean/Iscp/Model/Lock.lean)

type lkMode int

const (
	modeW lkMode = iota
	modeR
)

type lkOp struct {
	kind  string // lock unlock defer wait acc call other
	lock  int
	mode  lkMode
	loc   int  // acc: location token
	write bool // acc
	req   []heldE
	pos   string
	text  string
}

type heldE struct {
	lock int
	mode lkMode
}

type lkBlock struct {
	ops   []lkOp
	succs []int
	exit  string // none ret panic
}

type lkState struct{ held, deferred []heldE }

type lkFn struct {
	name   string
	pos    string
	entry  []heldE
	blocks []lkBlock
	cert   []lkState
	nLock  int // number of lock-related ops (for the source cross-check)
	inline bool
}

func leKM(a, b heldE) bool {
	if a.lock != b.lock {
		return a.lock < b.lock
	}
	return a.mode == modeW || b.mode == modeR
}

func insertH(e heldE, h []heldE) []heldE {
	for i, x := range h {
		if leKM(e, x) {
			r := append([]heldE{}, h[:i]...)
			r = append(r, e)
			return append(r, h[i:]...)
		}
	}
	return append(append([]heldE{}, h...), e)
}

func eraseH(e heldE, h []heldE) ([]heldE, bool) {
	for i, x := range h {
		if x == e {
			r := append([]heldE{}, h[:i]...)
			return append(r, h[i+1:]...), true
		}
	}
	return h, false
}

// execOp: permissive version used only to *compute* the certificate (the Lean checker is the judge)
func execOp(s lkState, o lkOp) lkState {
	switch o.kind {
	case "lock":
		s.held = insertH(heldE{o.lock, o.mode}, s.held)
	case "unlock":
		if h, ok := eraseH(heldE{o.lock, o.mode}, s.held); ok {
			s.held = h
		}
	case "defer":
		s.deferred = insertH(heldE{o.lock, o.mode}, s.deferred)
	}
	return s
}

// ---- extraction

type lockCtx struct {
	fset      *token.FileSet
	info      *types.Info
	pkg       *packages.Package
	lockTok   map[string]int
	lockNames []string
	locTok    map[string]int
	locNames  []string
	guards    map[string]guardSpec // field key -> guard
	helpers   map[string][]heldE   // function key -> required entry locks
	inlined   map[*ast.FuncLit]bool
	curFn     string
	exempted  []string
}

type guardSpec struct {
	lockKey string
}

func (c *lockCtx) tok(key string) int {
	if t, ok := c.lockTok[key]; ok {
		return t
	}
	t := len(c.lockNames)
	c.lockTok[key] = t
	c.lockNames = append(c.lockNames, key)
	return t
}

func (c *lockCtx) ltok(key string) int {
	if t, ok := c.locTok[key]; ok {
		return t
	}
	t := len(c.locNames)
	c.locTok[key] = t
	c.locNames = append(c.locNames, key)
	return t
}

func typeName(t types.Type) string {
	for {
		if p, ok := t.(*types.Pointer); ok {
			t = p.Elem()
			continue
		}
		break
	}
	if n, ok := t.(*types.Named); ok {
		if n.Obj().Pkg() != nil {
			return n.Obj().Pkg().Name() + "." + n.Obj().Name()
		}
		return n.Obj().Name()
	}
	return t.String()
}

// exprKey names the object an expression denotes, instance-insensitively: "<pkg.Type>.<field>[.<field>…]" or "local:<name>"
func (c *lockCtx) exprKey(e ast.Expr) string {
	switch x := e.(type) {
	case *ast.ParenExpr:
		return c.exprKey(x.X)
	case *ast.StarExpr:
		return c.exprKey(x.X)
	case *ast.UnaryExpr:
		return c.exprKey(x.X)
	case *ast.Ident:
		if obj := c.info.ObjectOf(x); obj != nil {
			if v, ok := obj.(*types.Var); ok && !v.IsField() {
				// a variable: name it by its type when it is a named struct (receiver, parameter), else by its own name
				if _, isNamed := derefType(v.Type()).(*types.Named); isNamed {
					return typeName(v.Type())
				}
				return "local:" + x.Name
			}
		}
		return "ident:" + x.Name
	case *ast.SelectorExpr:
		if sel, ok := c.info.Selections[x]; ok && sel.Kind() == types.FieldVal {
			// path through embedded fields
			recv := sel.Recv()
			key := typeName(recv)
			t := derefType(recv)
			idx := sel.Index()
			for k, i := range idx {
				st, ok := t.Underlying().(*types.Struct)
				if !ok {
					break
				}
				f := st.Field(i)
				if k == len(idx)-1 {
					key = typeName(t) + "." + f.Name()
				}
				t = derefType(f.Type())
			}
			// prefer the declaring struct of the final field; fields of foreign structs (sync.Cond.L) are named through their owner
			if strings.HasPrefix(key, "sync.") {
				return c.exprKey(x.X) + "." + x.Sel.Name
			}
			return key
		}
		// package-qualified identifier or method value
		return c.exprKey(x.X) + "." + x.Sel.Name
	case *ast.IndexExpr:
		return c.exprKey(x.X) + "[]"
	case *ast.CallExpr:
		return "call:" + nodeString(c.fset, x.Fun)
	}
	return "expr:" + nodeString(c.fset, e)
}

func derefType(t types.Type) types.Type {
	for {
		if p, ok := t.(*types.Pointer); ok {
			t = p.Elem()
			continue
		}
		return t
	}
}

// lockCall classifies X.Lock()/RLock()/Unlock()/RUnlock()/Wait() on sync types; returns kind, lock key, mode
func (c *lockCtx) lockCall(call *ast.CallExpr) (string, string, lkMode, bool) {
	sel, ok := call.Fun.(*ast.SelectorExpr)
	if !ok || len(call.Args) != 0 {
		return "", "", 0, false
	}
	name := sel.Sel.Name
	switch name {
	case "Lock", "RLock", "Unlock", "RUnlock", "Wait":
	default:
		return "", "", 0, false
	}
	s, ok := c.info.Selections[sel]
	if !ok || s.Kind() != types.MethodVal {
		return "", "", 0, false
	}
	fn, _ := s.Obj().(*types.Func)
	if fn == nil || fn.Pkg() == nil || fn.Pkg().Path() != "sync" {
		return "", "", 0, false
	}
	recvT := fn.Type().(*types.Signature).Recv().Type()
	rn := typeName(recvT)
	if name == "Wait" {
		if rn != "sync.Cond" {
			return "", "", 0, false // WaitGroup.Wait etc.
		}
		return "wait", c.normLock(c.exprKey(sel.X) + ".L"), modeW, true
	}
	if rn != "sync.Mutex" && rn != "sync.RWMutex" && rn != "sync.Locker" {
		return "", "", 0, false
	}
	// receiver key: the expression before the method, extended by the embedded mutex field if promoted
	key := c.exprKey(sel.X)
	if idx := s.Index(); len(idx) > 1 {
		t := derefType(s.Recv())
		for _, i := range idx[:len(idx)-1] {
			st, ok := t.Underlying().(*types.Struct)
			if !ok {
				break
			}
			f := st.Field(i)
			key = typeName(t) + "." + f.Name()
			t = derefType(f.Type())
		}
	}
	key = c.normLock(key)
	mode := modeW
	if name == "RLock" || name == "RUnlock" {
		mode = modeR
	}
	kind := "lock"
	if name == "Unlock" || name == "RUnlock" {
		kind = "unlock"
	}
	return kind, key, mode, true
}

// normLock: the Locker of a Cond built over the struct's own embedded RWMutex is that mutex (connStatus, streamState)
func (c *lockCtx) normLock(key string) string {
	for _, t := range []string{"iscp.connStatus", "iscp.streamState"} {
		if key == t+".cond.L" {
			return t + ".RWMutex"
		}
	}
	return key
}

func isPanicCall(info *types.Info, call *ast.CallExpr) bool {
	if id, ok := call.Fun.(*ast.Ident); ok && id.Name == "panic" {
		if _, isBuiltin := info.ObjectOf(id).(*types.Builtin); isBuiltin {
			return true
		}
	}
	return false
}

// collectOps lists, in source order, the lock-relevant operations inside one CFG node (not descending into func literals)
func (c *lockCtx) collectOps(n ast.Node) []lkOp {
	var ops []lkOp
	pos := func(p token.Pos) string {
		pp := c.fset.Position(p)
		return fmt.Sprintf("%s:%d", strings.TrimPrefix(pp.Filename, *repo+"/"), pp.Line)
	}
	switch d := n.(type) {
	case *ast.DeferStmt:
		if kind, key, mode, ok := c.lockCall(d.Call); ok && kind == "unlock" {
			return []lkOp{{kind: "defer", lock: c.tok(key), mode: mode, pos: pos(d.Pos()), text: nodeString(c.fset, d.Call)}}
		}
		if fl, ok := d.Call.Fun.(*ast.FuncLit); ok {
			// defer func() { …; X.Unlock(); … }(): top-level unlock statements of the closure are deferred unlocks of the parent
			inl := false
			for _, st := range fl.Body.List {
				if es, ok := st.(*ast.ExprStmt); ok {
					if call, ok := es.X.(*ast.CallExpr); ok {
						if kind, key, mode, ok := c.lockCall(call); ok && kind == "unlock" && !c.closureLocks(fl, key) {
							ops = append(ops, lkOp{kind: "defer", lock: c.tok(key), mode: mode, pos: pos(call.Pos()), text: "defer func(){" + nodeString(c.fset, call) + "}"})
							inl = true
						}
					}
				}
			}
			if inl {
				c.inlined[fl] = true
			}
			return ops
		}
		return nil
	case *ast.GoStmt:
		return nil
	}
	ast.Inspect(n, func(x ast.Node) bool {
		switch y := x.(type) {
		case *ast.FuncLit:
			return false
		case *ast.CallExpr:
			if kind, key, mode, ok := c.lockCall(y); ok {
				ops = append(ops, lkOp{kind: kind, lock: c.tok(key), mode: mode, pos: pos(y.Pos()), text: nodeString(c.fset, y)})
				return true
			}
			if req, ok := c.helpers[c.calleeKey(y)]; ok {
				ops = append(ops, lkOp{kind: "call", req: req, pos: pos(y.Pos()), text: nodeString(c.fset, y.Fun)})
			}
		}
		return true
	})
	ops = append(ops, c.accessOps(n)...)
	return ops
}

// closureLocks: does the closure itself lock `key` (then its unlock is its own business)
func (c *lockCtx) closureLocks(fl *ast.FuncLit, key string) bool {
	found := false
	ast.Inspect(fl.Body, func(x ast.Node) bool {
		if call, ok := x.(*ast.CallExpr); ok {
			if kind, k, _, ok := c.lockCall(call); ok && kind == "lock" && k == key {
				found = true
			}
		}
		return true
	})
	return found
}

func (c *lockCtx) calleeKey(call *ast.CallExpr) string {
	switch f := call.Fun.(type) {
	case *ast.SelectorExpr:
		if s, ok := c.info.Selections[f]; ok && s.Kind() == types.MethodVal {
			if fn, ok := s.Obj().(*types.Func); ok {
				return funcKey(fn)
			}
		}
	case *ast.Ident:
		if fn, ok := c.info.ObjectOf(f).(*types.Func); ok {
			return funcKey(fn)
		}
	}
	return ""
}

func funcKey(fn *types.Func) string {
	sig := fn.Type().(*types.Signature)
	if r := sig.Recv(); r != nil {
		return typeName(r.Type()) + "." + fn.Name()
	}
	if fn.Pkg() != nil {
		return fn.Pkg().Name() + "." + fn.Name()
	}
	return fn.Name()
}

func (c *lockCtx) buildFn(name string, body *ast.BlockStmt, p token.Pos, entry []heldE) *lkFn {
	c.curFn = name
	g := cfg.New(body, func(call *ast.CallExpr) bool { return !isPanicCall(c.info, call) })
	// live blocks, renumbered
	idx := map[*cfg.Block]int{}
	var live []*cfg.Block
	for _, b := range g.Blocks {
		if b.Live {
			idx[b] = len(live)
			live = append(live, b)
		}
	}
	pp := c.fset.Position(p)
	fn := &lkFn{name: name, pos: fmt.Sprintf("%s:%d", strings.TrimPrefix(pp.Filename, *repo+"/"), pp.Line), entry: entry}
	for _, b := range live {
		lb := lkBlock{exit: "none"}
		for _, n := range b.Nodes {
			lb.ops = append(lb.ops, c.collectOps(n)...)
		}
		for _, s := range b.Succs {
			if j, ok := idx[s]; ok {
				lb.succs = append(lb.succs, j)
			}
		}
		if len(b.Succs) == 0 {
			lb.exit = "ret"
			if len(b.Nodes) > 0 {
				if es, ok := b.Nodes[len(b.Nodes)-1].(*ast.ExprStmt); ok {
					if call, ok := es.X.(*ast.CallExpr); ok && isPanicCall(c.info, call) {
						lb.exit = "panic"
					}
				}
			}
		}
		for _, o := range lb.ops {
			if o.kind != "acc" && o.kind != "call" {
				fn.nLock++
			}
		}
		fn.blocks = append(fn.blocks, lb)
	}
	// certificate by forward propagation (first state wins; the Lean checker rejects inconsistencies)
	fn.cert = make([]lkState, len(fn.blocks))
	seen := make([]bool, len(fn.blocks))
	init := lkState{}
	for i := len(entry) - 1; i >= 0; i-- {
		init.held = insertH(entry[i], init.held)
	}
	if len(fn.blocks) > 0 {
		fn.cert[0], seen[0] = init, true
		work := []int{0}
		for len(work) > 0 {
			i := work[0]
			work = work[1:]
			s := fn.cert[i]
			for _, o := range fn.blocks[i].ops {
				s = execOp(s, o)
			}
			for _, j := range fn.blocks[i].succs {
				if !seen[j] {
					seen[j], fn.cert[j] = true, s
					work = append(work, j)
				}
			}
		}
	}
	return fn
}

func leanHeld(h []heldE) string {
	parts := make([]string, len(h))
	for i, e := range h {
		m := ".w"
		if e.mode == modeR {
			m = ".r"
		}
		parts[i] = fmt.Sprintf("(%d, %s)", e.lock, m)
	}
	return "[" + strings.Join(parts, ", ") + "]"
}

func leanOp(o lkOp) string {
	m := ".w"
	if o.mode == modeR {
		m = ".r"
	}
	switch o.kind {
	case "lock":
		return fmt.Sprintf(".lock %d %s", o.lock, m)
	case "unlock":
		return fmt.Sprintf(".unlock %d %s", o.lock, m)
	case "defer":
		return fmt.Sprintf(".deferUnlock %d %s", o.lock, m)
	case "wait":
		return fmt.Sprintf(".wait %d", o.lock)
	case "acc":
		return fmt.Sprintf(".acc %d %s %d", o.loc, leanBool(o.write), o.lock)
	case "call":
		return ".call " + leanHeld(o.req)
	}
	return ".other"
}

func lockCFG(e *emitter, ns string) {
	pkgs, err := packages.Load(&packages.Config{
		Mode: packages.NeedName | packages.NeedFiles | packages.NeedSyntax | packages.NeedTypes | packages.NeedTypesInfo | packages.NeedImports,
		Dir:  *repo,
		Env:  append(os.Environ(), "GOFLAGS=-mod=mod", "GOPROXY=off"),
	}, "./iscp", "./wire", "./transport/...", "./encoding/...", "./internal/...")
	if err != nil {
		fmt.Fprintln(os.Stderr, "load:", err)
		os.Exit(1)
	}
	for _, p := range pkgs {
		for _, er := range p.Errors {
			fmt.Fprintln(os.Stderr, "package error:", er)
			os.Exit(1)
		}
	}
	sort.Slice(pkgs, func(i, j int) bool { return pkgs[i].PkgPath < pkgs[j].PkgPath })
	ctx := &lockCtx{lockTok: map[string]int{}, locTok: map[string]int{}, inlined: map[*ast.FuncLit]bool{}}
	ctx.guards, ctx.helpers = guardTables(ctx)
	var fns []*lkFn
	totalSites := 0
	for _, p := range pkgs {
		ctx.fset, ctx.info, ctx.pkg = p.Fset, p.TypesInfo, p
		for _, f := range p.Syntax {
			fname := p.Fset.Position(f.Pos()).Filename
			if strings.HasSuffix(fname, "_test.go") || strings.Contains(fname, "mock") {
				continue
			}
			// function declarations first (so that inlined deferred closures are known), then literals
			type unit struct {
				name string
				body *ast.BlockStmt
				pos  token.Pos
				lit  *ast.FuncLit
				key  string
			}
			var units []unit
			for _, d := range f.Decls {
				fd, ok := d.(*ast.FuncDecl)
				if !ok || fd.Body == nil {
					continue
				}
				name := fd.Name.Name
				key := p.Name + "." + name
				if fd.Recv != nil && len(fd.Recv.List) == 1 {
					rt := nodeString(p.Fset, fd.Recv.List[0].Type)
					rt = strings.TrimPrefix(rt, "*")
					name = "(" + rt + ")." + name
					key = p.Name + "." + rt + "." + fd.Name.Name
				}
				units = append(units, unit{p.Name + "." + name, fd.Body, fd.Pos(), nil, key})
				litNo := 0
				ast.Inspect(fd.Body, func(x ast.Node) bool {
					if fl, ok := x.(*ast.FuncLit); ok {
						litNo++
						units = append(units, unit{fmt.Sprintf("%s.%s$lit%d", p.Name, name, litNo), fl.Body, fl.Pos(), fl, ""})
					}
					return true
				})
			}
			for _, u := range units {
				fn := ctx.buildFn(u.name, u.body, u.pos, ctx.helpers[u.key])
				if u.lit != nil && ctx.inlined[u.lit] {
					// its unlocks were accounted as deferred unlocks of the parent: remove them here
					fn = ctx.stripInlined(fn)
				}
				relevant := false
				for _, b := range fn.blocks {
					for _, o := range b.ops {
						if o.kind != "other" {
							relevant = true
						}
					}
				}
				if withAccesses {
					relevant = false
					for _, b := range fn.blocks {
						for _, o := range b.ops {
							if o.kind == "acc" || o.kind == "call" {
								relevant = true
							}
						}
					}
				}
				if relevant || len(fn.entry) > 0 {
					fns = append(fns, fn)
					totalSites += fn.nLock
				}
			}
		}
	}
	if *report != "" {
		writeReport(ctx, fns)
	}
	e.f("import Iscp.Model.Lock\nnamespace Iscp.Gen.%s\nopen Iscp.Lock\n\n", ns)
	e.f("/-- lock tokens -/\ndef lockNames : List String := [%s]\n", joinQuoted(ctx.lockNames))
	e.f("/-- guarded location tokens -/\ndef locNames : List String := [%s]\n\n", joinQuoted(ctx.locNames))
	e.f("/-- number of Lock/RLock/Unlock/RUnlock/Wait call sites abstracted into the programs below -/\ndef lockSites : Nat := %d\n\n", totalSites)
	sort.Strings(ctx.exempted)
	e.f("/-- access sites exempted because they are ordered by happens-before, not by a lock (justified one by one in go/extract/guards.go) -/\ndef exemptedSites : List String := [%s]\n\n", joinQuoted(ctx.exempted))
	var names []string
	for k, fn := range fns {
		id := fmt.Sprintf("fn_%d", k)
		names = append(names, id)
		e.f("/-- %s  (%s) -/\ndef %s : Fn := {\n  name := %s,\n  entry := %s,\n  blocks := [\n", fn.name, fn.pos, id, leanStr(fn.name+" @ "+fn.pos), leanHeld(fn.entry))
		for i, b := range fn.blocks {
			ops := make([]string, len(b.ops))
			for j, o := range b.ops {
				ops[j] = leanOp(o)
			}
			succ := make([]string, len(b.succs))
			for j, s := range b.succs {
				succ[j] = fmt.Sprint(s)
			}
			sep := ","
			if i == len(fn.blocks)-1 {
				sep = ""
			}
			e.f("    { ops := [%s], succs := [%s], exit := .%s }%s\n", strings.Join(ops, ", "), strings.Join(succ, ", "), b.exit, sep)
		}
		e.f("  ],\n  cert := [\n")
		for i, s := range fn.cert {
			sep := ","
			if i == len(fn.cert)-1 {
				sep = ""
			}
			e.f("    ⟨%s, %s⟩%s\n", leanHeld(s.held), leanHeld(s.deferred), sep)
		}
		e.f("  ] }\n")
		e.f("theorem %s_ok : checkFn %s = true := by decide\n\n", id, id)
	}
	e.f("def fns : List Fn := [%s]\n\n", strings.Join(names, ", "))
	// assembled: every function passes
	e.f("theorem all_ok : fns.all checkFn = true := by\n  simp only [fns, List.all_cons, List.all_nil, Bool.and_true")
	for _, n := range names {
		e.f(", %s_ok", n)
	}
	e.f("]\n")
	if len(names) > 0 {
		e.f("  all_goals trivial\n")
	}
	e.f("\nend Iscp.Gen.%s\n", ns)
}

func (c *lockCtx) stripInlined(fn *lkFn) *lkFn {
	// drop top-level unlock ops without a matching lock inside this closure
	locked := map[heldE]int{}
	for _, b := range fn.blocks {
		for _, o := range b.ops {
			if o.kind == "lock" {
				locked[heldE{o.lock, o.mode}]++
			}
		}
	}
	for bi := range fn.blocks {
		var ops []lkOp
		for _, o := range fn.blocks[bi].ops {
			if o.kind == "unlock" && locked[heldE{o.lock, o.mode}] == 0 {
				continue
			}
			ops = append(ops, o)
		}
		fn.blocks[bi].ops = ops
	}
	return fn
}

func joinQuoted(l []string) string {
	q := make([]string, len(l))
	for i, s := range l {
		q[i] = leanStr(s)
	}
	return strings.Join(q, ", ")
}

// writeReport lists every abstracted site with the lockset the extractor's own dataflow computed there (diagnostics
// for humans and for the failing-input search; the Lean checker, not this report, is the judge).
func writeReport(c *lockCtx, fns []*lkFn) {
	type site struct {
		Fn, Pos, Kind, Text, Loc, Need string
		Write                          bool
		Held                           []string
		OK                             bool
	}
	var sites []site
	for _, fn := range fns {
		for bi, b := range fn.blocks {
			s := fn.cert[bi]
			for _, o := range b.ops {
				held := []string{}
				for _, h := range s.held {
					m := "w"
					if h.mode == modeR {
						m = "r"
					}
					held = append(held, c.lockNames[h.lock]+":"+m)
				}
				st := site{Fn: fn.name, Pos: o.pos, Kind: o.kind, Text: o.text, Held: held, OK: true}
				switch o.kind {
				case "acc":
					st.Loc, st.Write, st.Need = c.locNames[o.loc], o.write, c.lockNames[o.lock]
					st.OK = false
					for _, h := range s.held {
						if h.lock == o.lock && (!o.write || h.mode == modeW) {
							st.OK = true
						}
					}
				case "call":
					for _, r := range o.req {
						ok := false
						for _, h := range s.held {
							if h.lock == r.lock && (r.mode == modeR || h.mode == modeW) {
								ok = true
							}
						}
						if !ok {
							st.OK = false
							st.Need = c.lockNames[r.lock]
						}
					}
				}
				sites = append(sites, st)
				s = execOp(s, o)
			}
		}
	}
	b, _ := json.MarshalIndent(sites, "", " ")
	os.WriteFile(*report, b, 0o644)
}
