package main

import (
	"go/ast"
	"go/token"
	"strconv"
	"strings"
)

// segGlue extracts the facts the C14 model takes as parameters / assumptions about the datagram glue:
// payload size constants, initial sequence number and freshness of the sequence argument at every SendTo call,
// the periodic purge loop (ticker-driven for-loop around RemoveExpired) and the receive loop feeding every
// datagram to the reassembly buffer, in transport/quic and transport/webtransport.
func segGlue(e *emitter) {
	fset := token.NewFileSet()
	e.f("namespace Iscp.Gen.SegGlue\n\n")
	// constants of internal/segment/package.go
	pk := parseFile(fset, "internal/segment/package.go")
	frame, hdr := -1, -1
	ast.Inspect(pk, func(n ast.Node) bool {
		vs, ok := n.(*ast.ValueSpec)
		if !ok {
			return true
		}
		for i, name := range vs.Names {
			if i >= len(vs.Values) {
				continue
			}
			switch name.Name {
			case "maxDatagramFrameSize":
				if bl, ok := vs.Values[i].(*ast.BasicLit); ok {
					frame, _ = strconv.Atoi(bl.Value)
				}
			case "maxPayloadSize":
				if be, ok := vs.Values[i].(*ast.BinaryExpr); ok && be.Op == token.SUB {
					if id, ok := be.X.(*ast.Ident); ok && id.Name == "maxDatagramFrameSize" {
						if bl, ok := be.Y.(*ast.BasicLit); ok {
							hdr, _ = strconv.Atoi(bl.Value)
						}
					}
				}
			}
		}
		return true
	})
	e.f("/-- internal/segment/package.go: maxDatagramFrameSize (-1 = not found in the expected shape) -/\ndef maxDatagramFrameSize : Int := %d\n", frame)
	e.f("/-- header bytes subtracted in `maxPayloadSize = maxDatagramFrameSize - h` -/\ndef headerSize : Int := %d\n\n", hdr)

	e.f("structure Glue where\n  file : String\n  seqInitMaxUint32 : Bool      -- sequenceNumber initialised to math.MaxUint32\n  sendToCalls : Nat            -- calls of segment.SendTo\n  sendToFreshSeq : Nat         -- … whose sequence argument is atomic.AddUint32(&….sequenceNumber, 1)\n  purgeLoops : Nat             -- goroutines calling RemoveExpired\n  purgePeriodic : Nat          -- … inside an unconditional for-loop whose select waits on <-X.C with X := time.NewTicker(…) and returns only on ctx.Done()\n  recvLoops : Nat              -- loops reading ReceiveDatagram\n  recvFeedsAll : Nat           -- … that pass every datagram to receiveMessage and skip only unfinished ones\n  receiveCallsBuffer : Bool    -- receiveMessage hands the datagram to ReadBuffers.Receive unchanged\nderiving Repr, DecidableEq\n\n")
	var names []string
	for _, pkg := range []struct{ name string; files []string }{
		{"quic", []string{"transport/quic/transport.go", "transport/quic/datagram.go"}},
		{"webtransport", []string{"transport/webtransport/transport.go", "transport/webtransport/datagram.go"}},
	} {
		seqInit := false
		sendTo, fresh, purge, periodic, recv, feeds := 0, 0, 0, 0, 0, 0
		recvBuf := false
		for _, rel := range pkg.files {
			f := parseFile(fset, rel)
			ast.Inspect(f, func(n ast.Node) bool {
				switch x := n.(type) {
				case *ast.KeyValueExpr:
					if k, ok := x.Key.(*ast.Ident); ok && k.Name == "sequenceNumber" && nodeString(fset, x.Value) == "math.MaxUint32" {
						seqInit = true
					}
				case *ast.CallExpr:
					if callName(fset, x) == "segment.SendTo" && len(x.Args) == 3 {
						sendTo++
						a := nodeString(fset, x.Args[1])
						if strings.HasPrefix(a, "atomic.AddUint32(&") && strings.HasSuffix(a, ".sequenceNumber, 1)") {
							fresh++
						}
					}
				case *ast.FuncDecl:
					if x.Name.Name == "receiveMessage" && x.Body != nil {
						src := nodeString(fset, x.Body)
						if len(x.Type.Params.List) == 1 && len(x.Type.Params.List[0].Names) == 1 {
							p := x.Type.Params.List[0].Names[0].Name
							if strings.Contains(src, ".Receive("+p+")") {
								recvBuf = true
							}
						}
					}
				case *ast.FuncLit:
					src := nodeString(fset, x.Body)
					if strings.Contains(src, ".RemoveExpired()") && !strings.Contains(src, "ReceiveDatagram") {
						purge++
						if purgeIsPeriodic(fset, x) {
							periodic++
						}
					}
					if strings.Contains(src, ".ReceiveDatagram(") {
						recv++
						if recvFeedsAll(fset, x) {
							feeds++
						}
					}
				}
				return true
			})
		}
		e.f("def %s : Glue := { file := %s, seqInitMaxUint32 := %s, sendToCalls := %d, sendToFreshSeq := %d, purgeLoops := %d, purgePeriodic := %d, recvLoops := %d, recvFeedsAll := %d, receiveCallsBuffer := %s }\n",
			pkg.name, leanStr(pkg.files[0]), leanBool(seqInit), sendTo, fresh, purge, periodic, recv, feeds, leanBool(recvBuf))
		names = append(names, pkg.name)
	}
	e.f("\ndef all : List Glue := [%s]\n\nend Iscp.Gen.SegGlue\n", strings.Join(names, ", "))
}

// purgeIsPeriodic: body = `X := time.NewTicker(..)`, [defer X.Stop()], `for { select { case <-ctx.Done(): return; case <-X.C: } ; ….RemoveExpired() }`
func purgeIsPeriodic(fset *token.FileSet, fl *ast.FuncLit) bool {
	ticker := ""
	var loop *ast.ForStmt
	for _, st := range fl.Body.List {
		switch s := st.(type) {
		case *ast.AssignStmt:
			if len(s.Lhs) == 1 && len(s.Rhs) == 1 {
				if c, ok := s.Rhs[0].(*ast.CallExpr); ok && callName(fset, c) == "time.NewTicker" {
					ticker = nodeString(fset, s.Lhs[0])
				}
			}
		case *ast.ForStmt:
			loop = s
		case *ast.DeferStmt:
		default:
			return false
		}
	}
	if ticker == "" || loop == nil || loop.Cond != nil || loop.Init != nil || loop.Post != nil {
		return false
	}
	sawSelect, sawPurge := false, false
	for _, st := range loop.Body.List {
		switch s := st.(type) {
		case *ast.SelectStmt:
			if sawPurge {
				return false
			}
			hasTick, ok := false, true
			for _, cc := range s.Body.List {
				c := cc.(*ast.CommClause)
				if c.Comm == nil {
					return false // default: busy loop / skips waiting
				}
				comm := nodeString(fset, c.Comm)
				switch {
				case comm == "<-"+ticker+".C":
					hasTick = true
					if len(c.Body) != 0 {
						ok = false
					}
				case strings.HasSuffix(comm, ".Done()") && strings.HasPrefix(comm, "<-"):
					if len(c.Body) != 1 {
						ok = false
					} else if _, isRet := c.Body[0].(*ast.ReturnStmt); !isRet {
						ok = false
					}
				default:
					ok = false
				}
			}
			if !hasTick || !ok {
				return false
			}
			sawSelect = true
		case *ast.ExprStmt:
			if c, ok := s.X.(*ast.CallExpr); ok && selName(c) == "RemoveExpired" && sawSelect {
				sawPurge = true
			} else {
				return false
			}
		default:
			return false
		}
	}
	return sawSelect && sawPurge
}

// recvFeedsAll: inside the for-loop every received datagram `bs` reaches receiveMessage(bs); the only `continue` is `if !finished { continue }`.
func recvFeedsAll(fset *token.FileSet, fl *ast.FuncLit) bool {
	var loop *ast.ForStmt
	for _, st := range fl.Body.List {
		if f, ok := st.(*ast.ForStmt); ok {
			loop = f
		}
	}
	if loop == nil || loop.Cond != nil {
		return false
	}
	dg := ""
	passed := false
	okShape := true
	for _, st := range loop.Body.List {
		switch s := st.(type) {
		case *ast.AssignStmt:
			if len(s.Rhs) == 1 {
				if c, ok := s.Rhs[0].(*ast.CallExpr); ok {
					switch selName(c) {
					case "ReceiveDatagram":
						dg = nodeString(fset, s.Lhs[0])
					case "receiveMessage":
						if len(c.Args) == 1 && nodeString(fset, c.Args[0]) == dg && dg != "" {
							passed = true
						}
					}
				}
			}
		case *ast.IfStmt:
			cond := nodeString(fset, s.Cond)
			hasContinue := false
			ast.Inspect(s.Body, func(n ast.Node) bool {
				if b, ok := n.(*ast.BranchStmt); ok && b.Tok == token.CONTINUE {
					hasContinue = true
				}
				return true
			})
			if hasContinue && !(passed && strings.HasPrefix(cond, "!")) {
				okShape = false
			}
		}
	}
	return dg != "" && passed && okShape
}
