package main

import (
	"fmt"
	"go/ast"
	"go/token"
	"go/types"
	"strings"
)

// ---- curated tables for C09 (reviewed against the struct definitions and their comments) -------------------------------

// guardedFields: shared field  ->  the lock that must be held to touch it (exclusively for writes, at least shared for reads)
var guardedFields = map[string]string{
	"wire.clientUpstreams.acks":              "wire.clientUpstreams.mu",
	"wire.clientUpstreams.aliases":           "wire.clientUpstreams.mu",
	"wire.clientUpstreams.messageWriters":    "wire.clientUpstreams.mu",
	"wire.clientDownstreams.dps":             "wire.clientDownstreams.mu",
	"wire.clientDownstreams.dpsUnreliable":   "wire.clientDownstreams.mu",
	"wire.clientDownstreams.ackCompletes":    "wire.clientDownstreams.mu",
	"wire.clientDownstreams.metadata":        "wire.clientDownstreams.mu",
	"wire.clientDownstreams.aliases":         "wire.clientDownstreams.mu",
	"wire.ClientConn.replyCh":                "wire.ClientConn.mu",
	"iscp.inmemSentStorage.buf":              "iscp.inmemSentStorage.RWMutex",
	"iscp.inmemStreamRepository.upstream":    "iscp.inmemStreamRepository.RWMutex",
	"iscp.inmemStreamRepository.downstream":  "iscp.inmemStreamRepository.RWMutex",
	"iscp.Upstream.sendBuffer":               "iscp.Upstream.mu",
	"iscp.Upstream.sendBufferPayloadSize":    "iscp.Upstream.mu",
	"iscp.Upstream.sendBufferDataPointsCount": "iscp.Upstream.mu",
	"iscp.Upstream.revDataIDAliases":         "iscp.Upstream.mu",
	"iscp.Upstream.dataIDAliases":            "iscp.Upstream.mu",
	"iscp.Upstream.upstreamChunkResultChs":   "iscp.Upstream.mu",
	"iscp.Upstream.aliasCh":                  "iscp.Upstream.mu",
	"iscp.Upstream.resCh":                    "iscp.Upstream.mu",
	"iscp.Upstream.ackCh":                    "iscp.Upstream.mu",
	"iscp.Upstream.idAlias":                  "iscp.Upstream.mu",
	"iscp.Upstream.wireConn":                 "iscp.Upstream.mu",
	"iscp.Downstream.dataIDAliases":          "iscp.Downstream.mu",
	"iscp.Downstream.revDataIDAliases":       "iscp.Downstream.mu",
	"iscp.Downstream.upstreamInfos":          "iscp.Downstream.mu",
	"iscp.Downstream.upstreamInfoAckBuffer":  "iscp.Downstream.mu",
	"iscp.Downstream.dataIDAckBuffer":        "iscp.Downstream.mu",
	"iscp.Downstream.resultAckBuffer":        "iscp.Downstream.mu",
	"iscp.Conn.upstreams":                    "iscp.Conn.upstreamMu",
	"iscp.Conn.downstreams":                  "iscp.Conn.downstreamMu",
	"iscp.Conn.replyCallChs":                 "iscp.Conn.replyCallsChsMu",
	"iscp.Conn.upstreamCallAckCh":            "iscp.Conn.upstreamCallAckMu",
	"iscp.connStatus.current":                "iscp.connStatus.RWMutex",
	"iscp.streamState.current":               "iscp.streamState.RWMutex",
	"iscp.eventDispatcher.handler":           "iscp.eventDispatcher.cond.L",
	"reconnect.Transport.transport":          "reconnect.Transport.mu",
	"reconnect.Transport.writeResCh":         "reconnect.Transport.writeResMu",
	"quic.Transport.sendStream":              "quic.Transport.sendMu",
	"webtransport.Transport.sendStream":      "webtransport.Transport.sendMu",
	"multi.Transport.currentTransportID":     "multi.Transport.mu",
	"multi.Transport.lastReadTransportID":    "multi.Transport.lastReadTransportIDmu",
	"multi.RoundRobinPoller.current":         "multi.RoundRobinPoller.mu",
	"segment.ReadBuffers.ReadBuffer":         "segment.ReadBuffers.Mutex",
	"websocket.Transport.writeWindowBuf":     "websocket.Transport.writeWindowBufMu",
	"websocket.Transport.readWindowBuf":      "websocket.Transport.readWindowBufMu",
	"nic.Manager.subscribers":                "nic.Manager.subscribersMu",
}

// helperEntry: functions that are documented (by name or comment) to be entered with a lock already held.
// Every call site is checked to hold it (Op.call), and the body is checked under that assumption.
var helperEntry = map[string][]helperReq{
	"iscp.Upstream.stateWithoutLock":    {{"iscp.Upstream.mu", modeR}},
	"iscp.Upstream.toUpstreamChunk":     {{"iscp.Upstream.mu", modeW}},
	"iscp.Upstream.clearBuffer":         {{"iscp.Upstream.mu", modeW}},
	"iscp.Upstream.validateState":       {{"iscp.Upstream.mu", modeR}},
	"iscp.connStatus.CurrentWithoutLock": {{"iscp.connStatus.RWMutex", modeR}},
	"iscp.connStatus.IsWithoutLock":     {{"iscp.connStatus.RWMutex", modeR}},
	"iscp.connStatus.SwapWithoutLock":   {{"iscp.connStatus.RWMutex", modeW}},
	"iscp.streamState.CurrentWithoutLock": {{"iscp.streamState.RWMutex", modeR}},
	"iscp.streamState.IsWithoutLock":    {{"iscp.streamState.RWMutex", modeR}},
	"iscp.streamState.SwapWithoutLock":  {{"iscp.streamState.RWMutex", modeW}},
	"reconnect.Transport.reconnect":     {{"reconnect.Transport.mu", modeW}},
}

// hbExempt: access sites that are ordered by happens-before rather than by a lock; each entry is justified.
// key: function-name prefix + "|" + field
var hbExempt = map[string]string{
	"iscp.(Upstream).run$|iscp.Upstream.idAlias":              "idAlias is written only by resume(), which the supervisor goroutine runs strictly between two run() calls; this reader is an errgroup goroutine of run(), joined by eg.Wait() before resume can start",
	"iscp.(Upstream).ackOrDone$|iscp.Upstream.ackCh":          "ackCh is written only by resume() between two run() calls; this goroutine is started by readAckLoop (inside run) and readAckLoop returns only after it closed its output channel",
	"iscp.(Upstream).readAckLoop|iscp.Upstream.aliasCh":       "aliasCh/resCh are replaced only by resume() between two run() calls; readAckLoop is an errgroup goroutine of run()",
	"iscp.(Upstream).readAckLoop|iscp.Upstream.resCh":         "see aliasCh",
	"iscp.(Upstream).readResultLoop|iscp.Upstream.resCh":      "evaluated once when the goroutine starts (inside run, after resume wrote it); the loop then ranges over that channel value",
	"websocket.New|websocket.Transport.writeWindowBuf":        "constructor: the transport is not yet shared",
	"websocket.New|websocket.Transport.readWindowBuf":         "constructor: the transport is not yet shared",
	"quic.New|quic.Transport.sendStream":                      "constructor: the transport is not yet shared",
	"webtransport.New|webtransport.Transport.sendStream":      "constructor: the transport is not yet shared",
	"multi.(LastUsedPoller).Get|multi.Transport.currentTransportID": "the only configuration that calls Get is polling mode with this poller; transportIDLoop then only ever receives the current id or the empty id and never writes currentTransportID, so there is no concurrent writer (race workload `multi` confirms)",
}

func exemptReason(fn, field string) (string, bool) {
	for k, v := range hbExempt {
		parts := strings.SplitN(k, "|", 2)
		if parts[1] == field && strings.HasPrefix(fn, parts[0]) {
			return v, true
		}
	}
	return "", false
}

type helperReq struct {
	lock string
	mode lkMode
}

var withAccesses = false // set for topic Guarded

func guardTables(c *lockCtx) (map[string]guardSpec, map[string][]heldE) {
	g := map[string]guardSpec{}
	h := map[string][]heldE{}
	if !withAccesses {
		return g, h
	}
	for field, lock := range guardedFields {
		g[field] = guardSpec{lockKey: lock}
	}
	for fn, reqs := range helperEntry {
		var l []heldE
		for _, r := range reqs {
			l = append(l, heldE{c.tok(r.lock), r.mode})
		}
		h[fn] = l
	}
	return g, h
}

// fieldKey of a selector that denotes a struct field: "<pkg.DeclaringType>.<field>"
func (c *lockCtx) fieldKey(x *ast.SelectorExpr) (string, bool) {
	sel, ok := c.info.Selections[x]
	if !ok || sel.Kind() != types.FieldVal {
		return "", false
	}
	t := derefType(sel.Recv())
	key := ""
	for _, i := range sel.Index() {
		st, ok := t.Underlying().(*types.Struct)
		if !ok {
			return "", false
		}
		f := st.Field(i)
		key = typeName(t) + "." + f.Name()
		t = derefType(f.Type())
	}
	return key, key != ""
}

func baseSelector(e ast.Expr) *ast.SelectorExpr {
	for {
		switch x := e.(type) {
		case *ast.ParenExpr:
			e = x.X
		case *ast.IndexExpr:
			e = x.X
		case *ast.StarExpr:
			e = x.X
		case *ast.SliceExpr:
			e = x.X
		case *ast.SelectorExpr:
			return x
		default:
			return nil
		}
	}
}

// accessOps: accesses to guarded fields inside one CFG node, in source order (not descending into function literals)
func (c *lockCtx) accessOps(n ast.Node) []lkOp {
	if !withAccesses {
		return nil
	}
	written := map[*ast.SelectorExpr]bool{}
	ast.Inspect(n, func(x ast.Node) bool {
		switch y := x.(type) {
		case *ast.FuncLit:
			return false
		case *ast.AssignStmt:
			for _, l := range y.Lhs {
				if s := baseSelector(l); s != nil {
					written[s] = true
				}
			}
		case *ast.IncDecStmt:
			if s := baseSelector(y.X); s != nil {
				written[s] = true
			}
		case *ast.CallExpr:
			if id, ok := y.Fun.(*ast.Ident); ok && (id.Name == "delete" || id.Name == "clear") && len(y.Args) >= 1 {
				if _, isB := c.info.ObjectOf(id).(*types.Builtin); isB {
					if s := baseSelector(y.Args[0]); s != nil {
						written[s] = true
					}
				}
			}
		}
		return true
	})
	var ops []lkOp
	ast.Inspect(n, func(x ast.Node) bool {
		switch y := x.(type) {
		case *ast.FuncLit:
			return false
		case *ast.SelectorExpr:
			if key, ok := c.fieldKey(y); ok {
				if g, ok := c.guards[key]; ok {
					if _, ex := exemptReason(c.curFn, key); ex {
						c.exempted = append(c.exempted, c.curFn+" | "+key)
						return true
					}
					pp := c.fset.Position(y.Pos())
					ops = append(ops, lkOp{kind: "acc", loc: c.ltok(key), write: written[y], lock: c.tok(g.lockKey),
						pos: fmt.Sprintf("%s:%d", strings.TrimPrefix(pp.Filename, *repo+"/"), pp.Line), text: nodeString(c.fset, y)})
				}
			}
		}
		return true
	})
	return ops
}

var _ = token.NoPos
