package main

import (
	"fmt"
	"go/ast"
	"go/constant"
	"go/types"
	"os"
	"sort"
	"strings"

	"golang.org/x/tools/go/packages"
)

// enums regenerates, from source: the library's result codes and QoS values (message/), the wire enumerations of the vendored
// protobuf package, and the four switch tables of encoding/convert that map between them; plus the shape facts about the codec
// wrappers that C12 relies on (deferred recover as the first statement of EncodeTo / DecodeFrom).
func enums(e *emitter) {
	pkgs, err := packages.Load(&packages.Config{
		Mode: packages.NeedName | packages.NeedFiles | packages.NeedSyntax | packages.NeedTypes | packages.NeedTypesInfo | packages.NeedImports | packages.NeedDeps,
		Dir:  *repo, Env: append(os.Environ(), "GOFLAGS=-mod=mod", "GOPROXY=off"),
	}, "./message", "./encoding/convert", "./encoding/protobuf", "./encoding/json", "./encoding")
	if err != nil {
		fmt.Fprintln(os.Stderr, "load:", err)
		os.Exit(1)
	}
	byName := map[string]*packages.Package{}
	for _, p := range pkgs {
		byName[p.PkgPath] = p
		for _, er := range p.Errors {
			fmt.Fprintln(os.Stderr, "package error:", er)
			os.Exit(1)
		}
	}
	msg := byName["github.com/aptpod/iscp-go/message"]
	conv := byName["github.com/aptpod/iscp-go/encoding/convert"]
	// constants of a named integer type in a package scope
	consts := func(scope *types.Scope, typeName string) [][2]string {
		var res [][2]string
		for _, n := range scope.Names() {
			c, ok := scope.Lookup(n).(*types.Const)
			if !ok {
				continue
			}
			if nt, ok := c.Type().(*types.Named); ok && nt.Obj().Name() == typeName {
				v, _ := constant.Int64Val(c.Val())
				res = append(res, [2]string{n, fmt.Sprint(v)})
			}
		}
		sort.Slice(res, func(i, j int) bool {
			var a, b int
			fmt.Sscan(res[i][1], &a)
			fmt.Sscan(res[j][1], &b)
			if a != b {
				return a < b
			}
			return res[i][0] < res[j][0]
		})
		return res
	}
	var autogen *types.Package
	for path, imp := range conv.Imports {
		if strings.Contains(path, "iscp-proto") && strings.HasSuffix(path, "v1") && !strings.Contains(path, "extensions") {
			autogen = imp.Types
		}
	}
	if autogen == nil {
		fmt.Fprintln(os.Stderr, "cannot find the generated protobuf package among the imports of encoding/convert")
		os.Exit(1)
	}
	emitList := func(name, doc string, l [][2]string) {
		parts := make([]string, len(l))
		for i, x := range l {
			parts[i] = fmt.Sprintf("(%s, %s)", leanStr(x[0]), x[1])
		}
		e.f("/-- %s -/\ndef %s : List (String × Int) := [%s]\n", doc, name, strings.Join(parts, ", "))
	}
	e.f("namespace Iscp.Gen.Enums\n\n")
	emitList("libResultCodes", "message.ResultCode constants (message/result_code.go)", consts(msg.Types.Scope(), "ResultCode"))
	emitList("libQoS", "message.QoS constants (message/qos.go)", consts(msg.Types.Scope(), "QoS"))
	emitList("wireResultCodes", "ResultCode values of the generated protobuf package", consts(autogen.Scope(), "ResultCode"))
	emitList("wireQoS", "QoS values of the generated protobuf package", consts(autogen.Scope(), "QoS"))
	// switch tables
	table := func(fn string) [][2]string {
		var res [][2]string
		found := false
		for _, f := range conv.Syntax {
			for _, d := range f.Decls {
				fd, ok := d.(*ast.FuncDecl)
				if !ok || fd.Name.Name != fn || fd.Body == nil {
					continue
				}
				found = true
				ast.Inspect(fd.Body, func(n ast.Node) bool {
					cc, ok := n.(*ast.CaseClause)
					if !ok || len(cc.Body) == 0 {
						return true
					}
					ret, ok := cc.Body[0].(*ast.ReturnStmt)
					if !ok || len(ret.Results) == 0 {
						return true
					}
					ov := conv.TypesInfo.Types[ret.Results[0]].Value
					if ov == nil {
						return true
					}
					o, _ := constant.Int64Val(ov)
					for _, x := range cc.List {
						iv := conv.TypesInfo.Types[x].Value
						if iv == nil {
							continue
						}
						i, _ := constant.Int64Val(iv)
						res = append(res, [2]string{fmt.Sprint(i), fmt.Sprint(o)})
					}
					return true
				})
			}
		}
		if !found {
			fmt.Fprintln(os.Stderr, "function not found:", fn)
			os.Exit(1)
		}
		return res
	}
	emitPairs := func(name, doc string, l [][2]string) {
		parts := make([]string, len(l))
		for i, x := range l {
			parts[i] = fmt.Sprintf("(%s, %s)", x[0], x[1])
		}
		e.f("/-- %s -/\ndef %s : List (Int × Int) := [%s]\n", doc, name, strings.Join(parts, ", "))
	}
	emitPairs("rcToWire", "toResultCodeProto: library value ↦ wire value", table("toResultCodeProto"))
	emitPairs("rcToLib", "toResultCode: wire value ↦ library value", table("toResultCode"))
	emitPairs("qosToWire", "toQoSProto", table("toQoSProto"))
	emitPairs("qosToLib", "toQoS", table("toQoS"))
	// codec wrappers: first statement is a deferred recover that assigns the named error result; no go statement inside
	e.f("\nstructure Wrapper where\n  name : String\n  firstIsDeferredRecover : Bool\n  assignsNamedError : Bool\n  hasGoStmt : Bool\nderiving Repr, DecidableEq\n\n")
	var ws []string
	for _, path := range []string{"github.com/aptpod/iscp-go/encoding/protobuf", "github.com/aptpod/iscp-go/encoding/json"} {
		p := byName[path]
		for _, f := range p.Syntax {
			for _, d := range f.Decls {
				fd, ok := d.(*ast.FuncDecl)
				if !ok || fd.Body == nil || (fd.Name.Name != "EncodeTo" && fd.Name.Name != "DecodeFrom") {
					continue
				}
				first, assigns, hasGo := false, false, false
				errName := ""
				if fd.Type.Results != nil {
					for _, r := range fd.Type.Results.List {
						if id, ok := r.Type.(*ast.Ident); ok && id.Name == "error" && len(r.Names) == 1 {
							errName = r.Names[0].Name
						}
					}
				}
				if len(fd.Body.List) > 0 {
					if ds, ok := fd.Body.List[0].(*ast.DeferStmt); ok {
						if fl, ok := ds.Call.Fun.(*ast.FuncLit); ok {
							src := nodeString(p.Fset, fl.Body)
							first = strings.Contains(src, "recover()")
							assigns = errName != "" && strings.Contains(src, errName+" =")
						}
					}
				}
				ast.Inspect(fd.Body, func(n ast.Node) bool {
					if _, ok := n.(*ast.GoStmt); ok {
						hasGo = true
					}
					return true
				})
				ws = append(ws, fmt.Sprintf("{ name := %s, firstIsDeferredRecover := %s, assignsNamedError := %s, hasGoStmt := %s }",
					leanStr(p.Name+"."+fd.Name.Name), leanBool(first), leanBool(assigns), leanBool(hasGo)))
			}
		}
	}
	sort.Strings(ws)
	e.f("def wrappers : List Wrapper := [%s]\n\n", strings.Join(ws, ",\n  "))

	// termination shape of the converters and codec packages: loops are range loops over finite collections, no goroutines,
	// no channel operations, no recursion among the package's own functions
	e.f("structure ConvFn where\n  name : String\n  nonRangeLoops : Nat\n  goStmts : Nat\n  chanOps : Nat\n  inCycle : Bool\nderiving Repr, DecidableEq\n\n")
	var cfs []string
	for _, path := range []string{"github.com/aptpod/iscp-go/encoding/convert", "github.com/aptpod/iscp-go/encoding/protobuf", "github.com/aptpod/iscp-go/encoding/json"} {
		p := byName[path]
		type fn struct {
			name                  string
			loops, gos, chans     int
			calls                 map[string]bool
		}
		fns := map[string]*fn{}
		var order []string
		for _, f := range p.Syntax {
			for _, d := range f.Decls {
				fd, ok := d.(*ast.FuncDecl)
				if !ok || fd.Body == nil {
					continue
				}
				name := fd.Name.Name
				if fd.Recv != nil && len(fd.Recv.List) == 1 {
					name = nodeString(p.Fset, fd.Recv.List[0].Type) + "." + name
				}
				x := &fn{name: name, calls: map[string]bool{}}
				ast.Inspect(fd.Body, func(n ast.Node) bool {
					switch v := n.(type) {
					case *ast.ForStmt:
						x.loops++
					case *ast.GoStmt:
						x.gos++
					case *ast.SendStmt, *ast.SelectStmt:
						x.chans++
					case *ast.UnaryExpr:
						if v.Op.String() == "<-" {
							x.chans++
						}
					case *ast.CallExpr:
						var id *ast.Ident
						switch c := v.Fun.(type) {
						case *ast.Ident:
							id = c
						case *ast.SelectorExpr:
							id = c.Sel
						}
						if id != nil {
							if o, ok := p.TypesInfo.Uses[id].(*types.Func); ok && o.Pkg() == p.Types {
								cn := o.Name()
								if sig, ok := o.Type().(*types.Signature); ok && sig.Recv() != nil {
									cn = types.TypeString(sig.Recv().Type(), func(*types.Package) string { return "" }) + "." + cn
								}
								x.calls[cn] = true
							}
						}
					}
					return true
				})
				fns[name] = x
				order = append(order, name)
			}
		}
		sort.Strings(order)
		// cycle membership: f reaches f
		reaches := func(start string) bool {
			seen := map[string]bool{}
			var stack []string
			for c := range fns[start].calls {
				stack = append(stack, c)
			}
			for len(stack) > 0 {
				c := stack[len(stack)-1]
				stack = stack[:len(stack)-1]
				if c == start {
					return true
				}
				if seen[c] || fns[c] == nil {
					continue
				}
				seen[c] = true
				for d := range fns[c].calls {
					stack = append(stack, d)
				}
			}
			return false
		}
		for _, n := range order {
			x := fns[n]
			cfs = append(cfs, fmt.Sprintf("{ name := %s, nonRangeLoops := %d, goStmts := %d, chanOps := %d, inCycle := %s }", leanStr(p.Name+"."+n), x.loops, x.gos, x.chans, leanBool(reaches(n))))
		}
	}
	e.f("def convFns : List ConvFn := [%s]\n\n", strings.Join(cfs, ",\n  "))

	// size gate of encoding.Transport.Read: validateMessageSize is applied to the raw frame, its error returned, before DecodeFrom
	enc := byName["github.com/aptpod/iscp-go/encoding"]
	gateIdx, decIdx, gateReturns := -1, -1, false
	for _, f := range enc.Syntax {
		for _, d := range f.Decls {
			fd, ok := d.(*ast.FuncDecl)
			if !ok || fd.Body == nil || fd.Name.Name != "Read" || fd.Recv == nil || !strings.Contains(nodeString(enc.Fset, fd.Recv.List[0].Type), "Transport") {
				continue
			}
			for i, st := range fd.Body.List {
				src := nodeString(enc.Fset, st)
				if strings.Contains(src, "validateMessageSize(") && gateIdx < 0 {
					gateIdx = i
					if is, ok := st.(*ast.IfStmt); ok {
						gateReturns = strings.Contains(nodeString(enc.Fset, is.Body), "return nil, err")
					}
				}
				if strings.Contains(src, ".DecodeFrom(") && decIdx < 0 {
					decIdx = i
				}
			}
		}
	}
	e.f("/-- encoding.Transport.Read: statement index of the size gate, of the decoder call, and whether the gate's error is returned -/\ndef readGate : Int × Int × Bool := (%d, %d, %s)\n\nend Iscp.Gen.Enums\n", gateIdx, decIdx, leanBool(gateReturns))
}
