package main


func enums(e *emitter)   { panic("not built yet") }
