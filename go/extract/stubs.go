package main



