package main

func lockCFG(e *emitter) { panic("not built yet") }
func enums(e *emitter)   { panic("not built yet") }
