module verif.local/harness

go 1.23.6

require (
	github.com/aptpod/iscp-go v0.0.0
	golang.org/x/tools v0.30.0
)

require github.com/google/uuid v1.3.0 // indirect

replace github.com/aptpod/iscp-go => /repo
