// Package dp converts between the line-protocol syntax of data point groups and the library's types.
//   groups: `id:elapsed/hex;elapsed/hex|id:...`  (`_` = no groups); data id token n <-> DataID{Name:"n<n>", Type:"t<n%3>"}
package dp

import (
	"fmt"
	"sort"
	"strconv"
	"strings"
	"time"

	"github.com/aptpod/iscp-go/iscp"
	"github.com/aptpod/iscp-go/message"
	"verif.local/harness/lp"
)

func ID(tok int) *message.DataID {
	return &message.DataID{Name: "n" + strconv.Itoa(tok), Type: "t" + strconv.Itoa(tok%3)}
}

func Tok(id *message.DataID) int {
	n, err := strconv.Atoi(strings.TrimPrefix(id.Name, "n"))
	if err != nil || id.Type != "t"+strconv.Itoa(n%3) {
		return -1
	}
	return n
}

func ParsePoints(s string) []*message.DataPoint {
	res := []*message.DataPoint{}
	if s == "" {
		return res
	}
	for _, p := range strings.Split(s, ";") {
		ep := strings.SplitN(p, "/", 2)
		e, err := strconv.ParseInt(ep[0], 10, 64)
		if err != nil {
			panic(err)
		}
		res = append(res, &message.DataPoint{ElapsedTime: time.Duration(e), Payload: lp.UnHex(ep[1])})
	}
	return res
}

func ParseGroups(s string) iscp.DataPointGroups {
	res := iscp.DataPointGroups{}
	if s == "_" {
		return res
	}
	for _, g := range strings.Split(s, "|") {
		ip := strings.SplitN(g, ":", 2)
		tok, err := strconv.Atoi(ip[0])
		if err != nil {
			panic(err)
		}
		res = append(res, &iscp.DataPointGroup{DataID: ID(tok), DataPoints: ParsePoints(ip[1])})
	}
	return res
}

func ShowPoints(ps []*message.DataPoint) string {
	parts := make([]string, len(ps))
	for i, p := range ps {
		parts[i] = fmt.Sprintf("%d/%s", int64(p.ElapsedTime), lp.Hex(p.Payload))
	}
	return strings.Join(parts, ";")
}

func ShowGroups(gs iscp.DataPointGroups) string {
	if len(gs) == 0 {
		return "_"
	}
	parts := make([]string, len(gs))
	for i, g := range gs {
		parts[i] = fmt.Sprintf("%d:%s", Tok(g.DataID), ShowPoints(g.DataPoints))
	}
	return strings.Join(parts, "|")
}

// ShowGroupsSorted sorts groups by data id token (Go map iteration order is not defined).
func ShowGroupsSorted(gs iscp.DataPointGroups) string {
	c := append(iscp.DataPointGroups{}, gs...)
	sort.SliceStable(c, func(i, j int) bool { return Tok(c[i].DataID) < Tok(c[j].DataID) })
	return ShowGroups(c)
}
