// Race workloads for C09 (search / validation only: the race detector can find, not exclude).
// Built with `go build -race -tags verif`; each workload hammers one pair of code paths that the lock-discipline
// obligations (Gen.Guarded) talk about.  A detected race makes the process exit with status 66 and print the
// report on stderr; the check turns that into a violation with the report as replay.
package main

import (
	"context"
	"errors"
	"flag"
	"fmt"
	"sync"
	"time"

	"github.com/aptpod/iscp-go/encoding"
	"github.com/aptpod/iscp-go/iscp"
	"verif.local/harness/broker"
	"github.com/aptpod/iscp-go/message"
	"github.com/aptpod/iscp-go/transport"
	"github.com/aptpod/iscp-go/transport/multi"
	"github.com/aptpod/iscp-go/transport/reconnect"
	"github.com/aptpod/iscp-go/wire"
	uuid "github.com/google/uuid"
)

// ---------- scripted wire transport with an auto-responding broker
type fakeTr struct {
	onOpen func()
	in     chan message.Message
	closed chan struct{}
	once   sync.Once
	mu     sync.Mutex
	nextSt int
}

func newFake() *fakeTr { return &fakeTr{in: make(chan message.Message, 65536), closed: make(chan struct{})} }
func (f *fakeTr) Read() (message.Message, error) {
	select {
	case m := <-f.in:
		return m, nil
	case <-f.closed:
		return nil, transport.ErrAlreadyClosed
	}
}
func (f *fakeTr) push(m message.Message) {
	select {
	case f.in <- m:
	case <-f.closed:
	}
}
func (f *fakeTr) Write(m message.Message) error {
	select {
	case <-f.closed:
		return transport.ErrAlreadyClosed
	default:
	}
	switch r := m.(type) {
	case *message.Ping:
		f.push(&message.Pong{RequestID: r.RequestID})
	case *message.UpstreamOpenRequest:
		f.mu.Lock()
		f.nextSt++
		n := f.nextSt
		f.mu.Unlock()
		var id uuid.UUID
		id[0], id[1] = byte(n>>8), byte(n)
		f.push(&message.UpstreamOpenResponse{RequestID: r.RequestID, AssignedStreamID: id, AssignedStreamIDAlias: uint32(n), ResultCode: message.ResultCodeSucceeded})
		if f.onOpen != nil {
			f.onOpen()
		}
	case *message.UpstreamCloseRequest:
		f.push(&message.UpstreamCloseResponse{RequestID: r.RequestID, ResultCode: message.ResultCodeSucceeded})
	case *message.UpstreamChunk:
		f.push(&message.UpstreamChunkAck{StreamIDAlias: r.StreamIDAlias, Results: []*message.UpstreamChunkResult{{SequenceNumber: r.StreamChunk.SequenceNumber}}})
	}
	return nil
}
func (f *fakeTr) Close() error                  { f.once.Do(func() { close(f.closed) }); return nil }
func (f *fakeTr) RxCount() *encoding.Count      { return &encoding.Count{} }
func (f *fakeTr) TxCount() *encoding.Count      { return &encoding.Count{} }
func (f *fakeTr) RxMessageCounterValue() uint64 { return 0 }
func (f *fakeTr) TxMessageCounterValue() uint64 { return 0 }

// W-wire: streams being opened and closed while another stream carries chunks; then the connection closes under load.
func wWire(d time.Duration) {
	deadline := time.Now().Add(d)
	for time.Now().Before(deadline) {
		tr := newFake()
		tr.in <- &message.ConnectResponse{ResultCode: message.ResultCodeSucceeded}
		c, err := wire.Connect(&wire.ClientConnConfig{Transport: tr, PingInterval: time.Hour, PingTimeout: time.Hour})
		if err != nil {
			panic(err)
		}
		ctx, cancel := context.WithTimeout(context.Background(), 2*time.Second)
		res, err := c.SendUpstreamOpenRequest(ctx, &message.UpstreamOpenRequest{QoS: message.QoSReliable})
		if err != nil {
			panic(err)
		}
		var wg sync.WaitGroup
		stop := make(chan struct{})
		wg.Add(3)
		go func() { // traffic on the stable stream
			defer wg.Done()
			for i := 0; ; i++ {
				select {
				case <-stop:
					return
				default:
				}
				c.SendUpstreamChunk(ctx, &message.UpstreamChunk{StreamIDAlias: res.AssignedStreamIDAlias, StreamChunk: &message.StreamChunk{SequenceNumber: uint32(i)}})
			}
		}()
		go func() { // lifecycle of other streams
			defer wg.Done()
			for {
				select {
				case <-stop:
					return
				default:
				}
				r, err := c.SendUpstreamOpenRequest(ctx, &message.UpstreamOpenRequest{QoS: message.QoSUnreliable})
				if err != nil {
					return
				}
				c.SubscribeUpstreamChunkAck(ctx, r.AssignedStreamIDAlias)
				c.SendUpstreamCloseRequest(ctx, &message.UpstreamCloseRequest{StreamID: r.AssignedStreamID})
			}
		}()
		go func() { // downstream side tables
			defer wg.Done()
			for i := uint32(1); ; i++ {
				select {
				case <-stop:
					return
				default:
				}
				c.SubscribeDownstreamChunk(ctx, i, message.QoSReliable)
				c.SubscribeDownstreamMeta(ctx, i, "n")
				tr.push(&message.DownstreamChunk{StreamIDAlias: i, UpstreamOrAlias: message.UpstreamAlias(1), StreamChunk: &message.StreamChunk{}})
				tr.push(&message.DownstreamMetadata{StreamIDAlias: i, SourceNodeID: "n", Metadata: &message.BaseTime{}})
			}
		}()
		time.Sleep(30 * time.Millisecond)
		c.Close() // dispatch loops wind down while the lifecycle goroutine may still be opening a stream
		time.Sleep(5 * time.Millisecond)
		close(stop)
		cancel()
		wg.Wait()
	}
}

// W-wireclose: the connection is closed exactly while an open response is being dispatched
func wWireClose(d time.Duration) {
	deadline := time.Now().Add(d)
	for time.Now().Before(deadline) {
		tr := newFake()
		tr.in <- &message.ConnectResponse{ResultCode: message.ResultCodeSucceeded}
		c, err := wire.Connect(&wire.ClientConnConfig{Transport: tr, PingInterval: time.Hour, PingTimeout: time.Hour})
		if err != nil {
			panic(err)
		}
		ctx, cancel := context.WithTimeout(context.Background(), time.Second)
		c.SendUpstreamOpenRequest(ctx, &message.UpstreamOpenRequest{QoS: message.QoSReliable})
		tr.onOpen = func() { go c.Close() }
		var wg sync.WaitGroup
		for k := 0; k < 4; k++ {
			wg.Add(1)
			go func() {
				defer wg.Done()
				c.SendUpstreamOpenRequest(ctx, &message.UpstreamOpenRequest{QoS: message.QoSReliable})
			}()
		}
		wg.Wait()
		cancel()
		c.Close()
	}
}

// ---------- reconnect transport: budget exhaustion while other writers register
type utr struct {
	fail   bool
	done   chan struct{}
	once   sync.Once
	params transport.NegotiationParams
}

func (u *utr) Write(b []byte) error {
	if u.fail {
		return errors.New("broken")
	}
	return nil
}
func (u *utr) Read() ([]byte, error)                              { <-u.done; return nil, transport.ErrAlreadyClosed }
func (u *utr) Close() error                                       { u.once.Do(func() { close(u.done) }); return nil }
func (u *utr) CloseWithStatus(transport.CloseStatus) error        { return u.Close() }
func (u *utr) RxBytesCounterValue() uint64                        { return 0 }
func (u *utr) TxBytesCounterValue() uint64                        { return 0 }
func (u *utr) AsUnreliable() (transport.UnreliableTransport, bool) { return nil, false }
func (u *utr) NegotiationParams() transport.NegotiationParams     { return u.params }
func (u *utr) Name() transport.Name                               { return "scripted" }

type dialer struct {
	mu sync.Mutex
	n  int
}

func (d *dialer) Dial(c transport.DialConfig) (transport.Transport, error) {
	d.mu.Lock()
	defer d.mu.Unlock()
	d.n++
	if c.Reconnect {
		return nil, errors.New("no route")
	}
	return &utr{fail: true, done: make(chan struct{})}, nil
}

func wRec(d time.Duration) {
	deadline := time.Now().Add(d)
	for time.Now().Before(deadline) {
		tr, err := reconnect.Dial(reconnect.DialConfig{Dialer: &dialer{}, DialConfig: transport.DialConfig{TransportID: "x"}, MaxReconnectAttempts: 1, ReconnectInterval: time.Millisecond})
		if err != nil {
			panic(err)
		}
		var wg sync.WaitGroup
		for k := 0; k < 8; k++ {
			wg.Add(1)
			go func(k int) {
				defer wg.Done()
				for j := 0; j < 20; j++ {
					done := make(chan struct{})
					go func() { tr.Write([]byte{byte(k), byte(j)}); close(done) }()
					select {
					case <-done:
					case <-time.After(200 * time.Millisecond):
						return
					}
				}
			}(k)
		}
		wg.Wait()
		tr.Close()
	}
}

// ---------- multi transport: pollers and selections against writes
type mem struct {
	in   chan []byte
	done chan struct{}
	once sync.Once
	n    int
}

func (m *mem) Read() ([]byte, error) {
	select {
	case b := <-m.in:
		return b, nil
	case <-m.done:
		return nil, transport.ErrAlreadyClosed
	}
}
func (m *mem) Write(b []byte) error                                { return nil }
func (m *mem) Close() error                                        { m.once.Do(func() { close(m.done) }); return nil }
func (m *mem) RxBytesCounterValue() uint64                         { return 0 }
func (m *mem) TxBytesCounterValue() uint64                         { return 0 }
func (m *mem) AsUnreliable() (transport.UnreliableTransport, bool) { return nil, false }
func (m *mem) NegotiationParams() transport.NegotiationParams {
	return transport.NegotiationParams{TransportGroupID: "g", TransportGroupTotalCount: m.n}
}
func (m *mem) Name() transport.Name { return "m" }

func wMulti(d time.Duration) {
	deadline := time.Now().Add(d)
	for time.Now().Before(deadline) {
		a, b := &mem{in: make(chan []byte, 1024), done: make(chan struct{}), n: 2}, &mem{in: make(chan []byte, 1024), done: make(chan struct{}), n: 2}
		lu := multi.NewLastReadPoller()
		t, err := multi.NewTransport(multi.TransportConfig{TransportMap: multi.TransportMap{"a": a, "b": b}, InitialTransportID: "a",
			SchedulerMode: multi.SchedulerModePolling, PollingScheduler: &multi.PollingScheduler{Poller: lu, Interval: 200 * time.Microsecond}})
		if err != nil {
			panic(err)
		}
		stop := make(chan struct{})
		var wg sync.WaitGroup
		wg.Add(2)
		go func() {
			defer wg.Done()
			for {
				select {
				case <-stop:
					return
				default:
				}
				t.Write([]byte("x"))
				t.NegotiationParams()
				a.in <- []byte("1")
				b.in <- []byte("2")
				t.Read()
				t.Read()
			}
		}()
		go func() {
			defer wg.Done()
			for {
				select {
				case <-stop:
					return
				default:
				}
				lu.Get()
			}
		}()
		time.Sleep(20 * time.Millisecond)
		close(stop)
		wg.Wait()
		t.Close()
	}
}

// W-conn: a real Conn with upstreams and a downstream carrying traffic from several goroutines while the transport is killed
// repeatedly (reconnect + resume of every stream), metadata and calls in flight, then Close.
func wConn(d time.Duration) {
	deadline := time.Now().Add(d)
	var curMu sync.Mutex
	var cur *broker.Broker
	broker.RegisterIndirect(func() *broker.Broker { curMu.Lock(); defer curMu.Unlock(); return cur })
	for time.Now().Before(deadline) {
		b := broker.New()
		b.AssignAliases = true
		curMu.Lock()
		cur = b
		curMu.Unlock()
		conn, err := iscp.Connect("mem", broker.TransportName, iscp.WithConnPingInterval(5*time.Millisecond), iscp.WithConnPingTimeout(time.Second))
		if err != nil {
			panic(err)
		}
		ctx, cancel := context.WithTimeout(context.Background(), 3*time.Second)
		var ups []*iscp.Upstream
		for k := 0; k < 2; k++ {
			q := message.QoSReliable
			if k == 1 {
				q = message.QoSUnreliable
			}
			up, err := conn.OpenUpstream(ctx, "s", iscp.WithUpstreamFlushPolicyImmediately(), iscp.WithUpstreamQoS(q), iscp.WithUpstreamCloseTimeout(200*time.Millisecond))
			if err != nil {
				panic(err)
			}
			ups = append(ups, up)
		}
		down, err := conn.OpenDownstream(ctx, []*message.DownstreamFilter{{SourceNodeID: "n", DataFilters: []*message.DataFilter{{Name: "#", Type: "#"}}}})
		if err != nil {
			panic(err)
		}
		stop := make(chan struct{})
		var wg sync.WaitGroup
		for _, up := range ups {
			up := up
			for g := 0; g < 2; g++ {
				wg.Add(1)
				go func(g int) {
					defer wg.Done()
					for j := 0; ; j++ {
						select {
						case <-stop:
							return
						default:
						}
						c, cc := context.WithTimeout(ctx, 50*time.Millisecond)
						up.WriteDataPoints(c, &message.DataID{Name: fmt.Sprint("n", g), Type: "t"}, &message.DataPoint{ElapsedTime: time.Duration(j), Payload: []byte{1}})
						up.State()
						cc()
					}
				}(g)
			}
		}
		wg.Add(3)
		go func() { // reads
			defer wg.Done()
			for {
				select {
				case <-stop:
					return
				default:
				}
				c, cc := context.WithTimeout(ctx, 20*time.Millisecond)
				down.ReadDataPoints(c)
				down.State()
				cc()
			}
		}()
		go func() { // metadata + calls
			defer wg.Done()
			for {
				select {
				case <-stop:
					return
				default:
				}
				c, cc := context.WithTimeout(ctx, 30*time.Millisecond)
				conn.SendBaseTime(c, &message.BaseTime{Name: "b"})
				conn.SendCall(c, &iscp.UpstreamCall{DestinationNodeID: "x", Name: "n"})
				cc()
			}
		}()
		go func() { // broker pushes downstream chunks on whatever incarnation is current
			defer wg.Done()
			for j := uint32(1); ; j++ {
				select {
				case <-stop:
					return
				default:
				}
				if inc := b.Cur(); inc != nil {
					inc.Send(&message.DownstreamChunk{StreamIDAlias: 1, UpstreamOrAlias: &message.UpstreamInfo{SessionID: "s", SourceNodeID: "n", StreamID: uuid.UUID{1}},
						StreamChunk: &message.StreamChunk{SequenceNumber: j, DataPointGroups: []*message.DataPointGroup{{DataIDOrAlias: &message.DataID{Name: "a", Type: "t"}, DataPoints: []*message.DataPoint{{Payload: []byte{2}}}}}}})
				}
				time.Sleep(200 * time.Microsecond)
			}
		}()
		for k := 0; k < 3; k++ {
			time.Sleep(25 * time.Millisecond)
			if inc := b.Cur(); inc != nil {
				inc.Kill()
			}
		}
		time.Sleep(40 * time.Millisecond)
		c2, cc2 := context.WithTimeout(context.Background(), 300*time.Millisecond)
		ups[0].Close(c2)
		down.Close(c2)
		conn.Close(c2)
		cc2()
		close(stop)
		wg.Wait()
		cancel()
	}
}

func main() {
	w := flag.String("w", "wire", "workload")
	ms := flag.Int("ms", 1500, "duration in ms")
	flag.Parse()
	d := time.Duration(*ms) * time.Millisecond
	switch *w {
	case "wire":
		wWire(d)
	case "conn":
		wConn(d)
	case "wireclose":
		wWireClose(d)
	case "rec":
		wRec(d)
	case "multi":
		wMulti(d)
	default:
		panic("unknown workload")
	}
	fmt.Println("workload", *w, "done")
}
