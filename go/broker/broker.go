// Package broker is a scripted in-memory iSCP broker for the correspondence harnesses: every Dial of the
// library yields a new in-memory transport (transport.Pipe) whose server side is decoded with the real protobuf
// encoding; all messages are logged per transport incarnation; the behaviour is an auto-responder that the harness
// can switch off per message kind, override with a policy, or bypass by sending messages itself; an incarnation
// can be severed at any message boundary.
package broker

import (
	"fmt"
	"os"
	"sync"
	"sync/atomic"
	"time"

	"github.com/aptpod/iscp-go/encoding"
	"github.com/aptpod/iscp-go/encoding/protobuf"
	"github.com/aptpod/iscp-go/iscp"
	"github.com/aptpod/iscp-go/message"
	"github.com/aptpod/iscp-go/transport"
	"github.com/aptpod/iscp-go/wire"
	uuid "github.com/google/uuid"
)

const TransportName iscp.TransportName = "verif"

type Rec struct {
	Inc int
	Msg message.Message
	At  time.Time
}

type UpStream struct {
	ID      uuid.UUID
	N       int // 1-based creation index
	QoS     message.QoS
	Aliases map[uint32]*message.DataID // data id aliases handed out so far
	nextDID uint32
	Closed  bool
	Close   *message.UpstreamCloseRequest
}

type DownStream struct {
	ID     uuid.UUID
	N      int
	Alias  uint32
	Closed bool
}

type Inc struct {
	N      int
	b      *Broker
	srv    wire.EncodingTransport
	srvRaw transport.ReadWriter
	out    chan message.Message
	dead   chan struct{}
	once   sync.Once
	Dgram  wire.EncodingTransport // datagram channel towards the client (Broker.Datagrams)
	// per-incarnation alias tables
	upByAlias map[uint32]*UpStream
	nextUpAl  uint32
}

type Broker struct {
	mu   sync.Mutex
	cond *sync.Cond

	Incs []*Inc
	Log  []Rec

	// auto-responder switches (all on by default)
	Auto map[string]bool
	// Policy runs first for every received message (in the incarnation's reader goroutine); return true = handled
	Policy func(inc *Inc, m message.Message) bool
	// PreLog runs before a received message is logged; returning true means the message was lost in flight (not logged, not handled)
	PreLog func(inc *Inc, m message.Message) bool
	// DialGate, when non-nil, makes every dial wait until the channel is closed (an outage the harness controls)
	DialGate chan struct{}
	// DialScript: outcomes of the next dials ("ok", "fail", "cut" = accept and sever before the connect response, "deadlink" =
	// the link is dead by the time the client uses it, no incarnation); then ok
	DialScript []string
	DialDelay  time.Duration
	Dials      int
	Tokens     []string

	Ups   map[uuid.UUID]*UpStream
	Downs map[uuid.UUID]*DownStream
	nUp   int
	nDown int

	// HoldAcks: chunks are recorded but not acknowledged automatically
	HoldAcks bool
	// AssignAliases: the automatic chunk ack assigns data id aliases for the ids listed in the chunk
	AssignAliases bool
	// Datagrams: client transports also offer a datagram channel; the broker side of it (Inc.Dgram) takes what the harness sends
	Datagrams bool
	// HoldWrites: while non-nil, every write of a client transport waits until the channel is closed
	HoldWrites chan struct{}
	// FirstCloseErr: what Close of a client transport returns the first time (the transport is closed all the same)
	FirstCloseErr error
	// ResumeCodes: result codes for the next resume requests (then success)
	ResumeCodes []message.ResultCode
}

func New() *Broker {
	b := &Broker{Auto: map[string]bool{}, Ups: map[uuid.UUID]*UpStream{}, Downs: map[uuid.UUID]*DownStream{}}
	b.cond = sync.NewCond(&b.mu)
	for _, k := range []string{"connect", "ping", "upopen", "upresume", "upclose", "downopen", "downresume", "downclose", "meta", "call", "chunk", "downack", "disconnect"} {
		b.Auto[k] = true
	}
	return b
}

// ---- client side transport handed to the library

type cliTransport struct {
	transport.ReadWriter
	params transport.NegotiationParams
	closed atomic.Bool
	b      *Broker
	firstCloseErr error
	dgram transport.ReadWriter // non-nil: the transport also has a datagram channel (AsUnreliable)
}

type dgramSide struct{ transport.ReadWriter }

func (dgramSide) IsUnreliable() {}

// Write: while Broker.HoldWrites is set, writes of the client wait for it to be closed (a slow link)
func (c *cliTransport) Write(bs []byte) error {
	if c.b != nil {
		c.b.mu.Lock()
		g := c.b.HoldWrites
		c.b.mu.Unlock()
		if g != nil {
			<-g
		}
	}
	return c.ReadWriter.Write(bs)
}

// Close: like the QUIC and WebSocket transports, a second Close reports that the transport was closed already.
func (c *cliTransport) Close() error {
	if c.closed.Swap(true) {
		c.ReadWriter.Close()
		return transport.ErrAlreadyClosed
	}
	if err := c.ReadWriter.Close(); err != nil {
		return err
	}
	return c.firstCloseErr // e.g. a WebSocket whose dead peer never answers the close handshake: closed, and an error
}

func (c *cliTransport) AsUnreliable() (transport.UnreliableTransport, bool) {
	if c.dgram != nil {
		return dgramSide{c.dgram}, true
	}
	return nil, false
}
func (c *cliTransport) NegotiationParams() transport.NegotiationParams     { return c.params }
func (c *cliTransport) Name() transport.Name                               { return transport.Name(TransportName) }
func (c *cliTransport) CloseWithStatus(transport.CloseStatus) error        { return c.Close() }

type dialer struct{ b *Broker }

func (d dialer) Dial(c transport.DialConfig) (transport.Transport, error) { return d.b.dial(c) }

// Register makes iscp.Connect(addr, broker.TransportName) reach this broker. The library's dialer registry (a plain map that
// production code writes at init time only) is written once per process; later calls only swap the broker the registered
// dialer forwards to, so that connections of an earlier case that are still winding down never race with a registration.
func (b *Broker) Register() {
	currentBroker.Store(b)
	registerOnce.Do(func() {
		iscp.VerifRegisterDialer(TransportName, func() transport.Dialer {
			return indirectDialer{func() *Broker { return currentBroker.Load() }}
		})
	})
}

var (
	currentBroker atomic.Pointer[Broker]
	registerOnce  sync.Once
)

// RegisterIndirect registers a dialer that asks `current` for the broker at dial time (for workloads that manage the current
// broker themselves).
func RegisterIndirect(current func() *Broker) {
	registerOnce.Do(func() {})
	iscp.VerifRegisterDialer(TransportName, func() transport.Dialer { return indirectDialer{current} })
}

type indirectDialer struct{ current func() *Broker }

func (d indirectDialer) Dial(c transport.DialConfig) (transport.Transport, error) { return d.current().dial(c) }

func (b *Broker) dial(c transport.DialConfig) (transport.Transport, error) {
	b.mu.Lock()
	b.Dials++
	delay := b.DialDelay
	gate := b.DialGate
	b.mu.Unlock()
	if gate != nil {
		<-gate
	}
	// the outcome is decided when the attempt is released, so that a harness can script the attempt that is waiting at the gate
	b.mu.Lock()
	outcome := "ok"
	if len(b.DialScript) > 0 {
		outcome = b.DialScript[0]
		b.DialScript = b.DialScript[1:]
	}
	b.mu.Unlock()
	if delay > 0 {
		time.Sleep(delay)
	}
	if outcome == "fail" {
		b.mu.Lock()
		b.cond.Broadcast()
		b.mu.Unlock()
		return nil, fmt.Errorf("scripted dial failure")
	}
	if outcome == "deadlink" {
		// the dial succeeds and the link drops during the connect handshake: the client's first write or read on the fresh
		// transport reports a closed connection. No incarnation comes into being.
		srv, cli := transport.Pipe()
		srv.Close()
		b.mu.Lock()
		b.cond.Broadcast()
		b.mu.Unlock()
		return &cliTransport{ReadWriter: cli, params: c.NegotiationParams()}, nil
	}
	srvRaw, cliRaw := transport.Pipe()
	p := c.NegotiationParams()
	p.Encoding = transport.EncodingNameProtobuf
	inc := &Inc{b: b, srvRaw: srvRaw, out: make(chan message.Message, 65536), dead: make(chan struct{}), upByAlias: map[uint32]*UpStream{}}
	inc.srv = encoding.NewTransport(&encoding.TransportConfig{Transport: srvRaw, Encoding: protobuf.NewEncoding()})
	b.mu.Lock()
	inc.N = len(b.Incs)
	b.Incs = append(b.Incs, inc)
	b.cond.Broadcast()
	b.mu.Unlock()
	go inc.writer()
	go inc.reader(outcome == "cut")
	b.mu.Lock()
	fce := b.FirstCloseErr
	dg := b.Datagrams
	b.mu.Unlock()
	ct := &cliTransport{ReadWriter: cliRaw, params: p, firstCloseErr: fce, b: b}
	if dg {
		srvD, cliD := transport.Pipe()
		ct.dgram = cliD
		inc.Dgram = encoding.NewTransport(&encoding.TransportConfig{Transport: srvD, Encoding: protobuf.NewEncoding()})
		go func() { // what the client sends as datagrams is of no interest here
			for {
				if _, err := srvD.Read(); err != nil {
					return
				}
			}
		}()
		go func() { <-inc.dead; srvD.Close() }()
	}
	return ct, nil
}

func (i *Inc) writer() {
	for {
		select {
		case m := <-i.out:
			if err := i.srv.Write(m); err != nil {
				if !i.Dead() {
					fmt.Fprintf(os.Stderr, "broker: cannot send %T: %v\n", m, err)
				}
				return
			}
		case <-i.dead:
			return
		}
	}
}

// Send queues a message for the client on this incarnation (order preserved).
func (i *Inc) Send(m message.Message) {
	select {
	case i.out <- m:
	case <-i.dead:
	}
}

// Kill severs the transport: the client sees EOF / closed.
func (i *Inc) Kill() {
	i.once.Do(func() {
		close(i.dead)
		i.srvRaw.Close()
	})
}

func (i *Inc) Dead() bool {
	select {
	case <-i.dead:
		return true
	default:
		return false
	}
}

func (i *Inc) reader(cutBeforeConnectResponse bool) {
	for {
		m, err := i.srv.Read()
		if err != nil {
			i.Kill()
			i.b.mu.Lock()
			i.b.cond.Broadcast()
			i.b.mu.Unlock()
			return
		}
		b := i.b
		b.mu.Lock()
		pre := b.PreLog
		b.mu.Unlock()
		if pre != nil && pre(i, m) {
			continue
		}
		b.mu.Lock()
		b.Log = append(b.Log, Rec{Inc: i.N, Msg: m, At: time.Now()})
		if cr, ok := m.(*message.ConnectRequest); ok {
			tok := ""
			if cr.ExtensionFields != nil {
				tok = cr.ExtensionFields.AccessToken
			}
			b.Tokens = append(b.Tokens, tok)
		}
		policy := b.Policy
		b.cond.Broadcast()
		b.mu.Unlock()
		if _, ok := m.(*message.ConnectRequest); ok && cutBeforeConnectResponse {
			i.Kill()
			return
		}
		if policy != nil && policy(i, m) {
			continue
		}
		i.auto(m)
	}
}

func (b *Broker) on(k string) bool {
	b.mu.Lock()
	defer b.mu.Unlock()
	return b.Auto[k]
}

func mkID(kind byte, n int) uuid.UUID {
	var u uuid.UUID
	u[0], u[1], u[2], u[15] = kind, byte(n>>8), byte(n), 0x5a
	return u
}

// Respond answers a message the way the automatic responder would (for harnesses that hold a request back with Policy and
// release it later).
func (i *Inc) Respond(m message.Message) { i.auto(m) }

// auto: the default broker behaviour
func (i *Inc) auto(m message.Message) {
	b := i.b
	ok := message.ResultCodeSucceeded
	switch r := m.(type) {
	case *message.ConnectRequest:
		if b.on("connect") {
			i.Send(&message.ConnectResponse{RequestID: r.RequestID, ProtocolVersion: r.ProtocolVersion, ResultCode: ok, ExtensionFields: &message.ConnectResponseExtensionFields{}})
		}
	case *message.Ping:
		if b.on("ping") {
			i.Send(&message.Pong{RequestID: r.RequestID, ExtensionFields: &message.PongExtensionFields{}})
		}
	case *message.Disconnect:
		if b.on("disconnect") {
			// the client closes its side right after its Disconnect; the broker keeps reading for a moment, so that anything
			// the client still sends (a second Disconnect, traffic after the Disconnect) is on the record
			go func() {
				time.Sleep(30 * time.Millisecond)
				i.Kill()
			}()
		}
	case *message.UpstreamOpenRequest:
		if !b.on("upopen") {
			return
		}
		b.mu.Lock()
		b.nUp++
		st := &UpStream{ID: mkID(0xa0, b.nUp), N: b.nUp, QoS: r.QoS, Aliases: map[uint32]*message.DataID{}}
		b.Ups[st.ID] = st
		al := i.nextUpAl // aliases are assigned from 0: 0 is an alias like any other (and what a refusal's alias field holds)
		i.nextUpAl++
		i.upByAlias[al] = st
		// pre-registered data ids get aliases right away
		pre := map[uint32]*message.DataID{}
		for _, d := range r.DataIDs {
			st.nextDID++
			st.Aliases[st.nextDID] = d
			pre[st.nextDID] = d
		}
		b.mu.Unlock()
		i.Send(&message.UpstreamOpenResponse{RequestID: r.RequestID, AssignedStreamID: st.ID, AssignedStreamIDAlias: al, ResultCode: ok,
			ServerTime: time.Unix(1700000000, 0).UTC(), DataIDAliases: pre, ExtensionFields: &message.UpstreamOpenResponseExtensionFields{}})
	case *message.UpstreamResumeRequest:
		if !b.on("upresume") {
			return
		}
		b.mu.Lock()
		code := ok
		if len(b.ResumeCodes) > 0 {
			code = b.ResumeCodes[0]
			b.ResumeCodes = b.ResumeCodes[1:]
		}
		st := b.Ups[r.StreamID]
		var al uint32
		if st == nil && code == ok {
			code = message.ResultCodeStreamNotFound
		}
		if code == ok {
			al = i.nextUpAl
			i.nextUpAl++
			i.upByAlias[al] = st
		}
		b.mu.Unlock()
		i.Send(&message.UpstreamResumeResponse{RequestID: r.RequestID, AssignedStreamIDAlias: al, ResultCode: code, ResultString: "scripted", ExtensionFields: &message.UpstreamResumeResponseExtensionFields{}})
	case *message.UpstreamCloseRequest:
		b.mu.Lock()
		if st := b.Ups[r.StreamID]; st != nil {
			st.Closed, st.Close = true, r
		}
		b.mu.Unlock()
		if b.on("upclose") {
			i.Send(&message.UpstreamCloseResponse{RequestID: r.RequestID, ResultCode: ok, ExtensionFields: &message.UpstreamCloseResponseExtensionFields{}})
		}
	case *message.UpstreamChunk:
		b.mu.Lock()
		hold, assign := b.HoldAcks, b.AssignAliases
		b.mu.Unlock()
		if !b.on("chunk") || hold {
			return
		}
		i.AckChunks([]uint32{r.StreamChunk.SequenceNumber}, r.StreamIDAlias, ok, assign, r.DataIDs)
	case *message.DownstreamOpenRequest:
		if !b.on("downopen") {
			return
		}
		b.mu.Lock()
		b.nDown++
		d := &DownStream{ID: mkID(0xd0, b.nDown), N: b.nDown, Alias: r.DesiredStreamIDAlias}
		b.Downs[d.ID] = d
		b.mu.Unlock()
		i.Send(&message.DownstreamOpenResponse{RequestID: r.RequestID, AssignedStreamID: d.ID, ResultCode: ok, ServerTime: time.Unix(1700000000, 0).UTC(), ExtensionFields: &message.DownstreamOpenResponseExtensionFields{}})
	case *message.DownstreamResumeRequest:
		if !b.on("downresume") {
			return
		}
		b.mu.Lock()
		code := ok
		if len(b.ResumeCodes) > 0 {
			code = b.ResumeCodes[0]
			b.ResumeCodes = b.ResumeCodes[1:]
		}
		if b.Downs[r.StreamID] == nil && code == ok {
			code = message.ResultCodeStreamNotFound
		}
		b.mu.Unlock()
		i.Send(&message.DownstreamResumeResponse{RequestID: r.RequestID, ResultCode: code, ResultString: "scripted", ExtensionFields: &message.DownstreamResumeResponseExtensionFields{}})
	case *message.DownstreamCloseRequest:
		b.mu.Lock()
		if d := b.Downs[r.StreamID]; d != nil {
			d.Closed = true
		}
		b.mu.Unlock()
		if b.on("downclose") {
			i.Send(&message.DownstreamCloseResponse{RequestID: r.RequestID, ResultCode: ok, ExtensionFields: &message.DownstreamCloseResponseExtensionFields{}})
		}
	case *message.DownstreamChunkAck:
		if b.on("downack") {
			i.Send(&message.DownstreamChunkAckComplete{StreamIDAlias: r.StreamIDAlias, AckID: r.AckID, ResultCode: ok, ExtensionFields: &message.DownstreamChunkAckCompleteExtensionFields{}})
		}
	case *message.UpstreamMetadata:
		if b.on("meta") {
			i.Send(&message.UpstreamMetadataAck{RequestID: r.RequestID, ResultCode: ok, ExtensionFields: &message.UpstreamMetadataAckExtensionFields{}})
		}
	case *message.UpstreamCall:
		if b.on("call") {
			i.Send(&message.UpstreamCallAck{CallID: r.CallID, ResultCode: ok, ExtensionFields: &message.UpstreamCallAckExtensionFields{}})
		}
	}
}

// AckChunks sends one UpstreamChunkAck for the given sequence numbers of the stream known under `alias` on this incarnation;
// with assign, every id of `ids` not yet aliased gets a fresh data id alias, announced in the same ack.
func (i *Inc) AckChunks(seqs []uint32, alias uint32, code message.ResultCode, assign bool, ids []*message.DataID) {
	b := i.b
	b.mu.Lock()
	st := i.upByAlias[alias]
	als := map[uint32]*message.DataID{}
	if assign && st != nil {
		for _, d := range ids {
			known := false
			for _, v := range st.Aliases {
				if *v == *d {
					known = true
				}
			}
			if !known {
				st.nextDID++
				st.Aliases[st.nextDID] = d
				als[st.nextDID] = d
			}
		}
	}
	b.mu.Unlock()
	res := make([]*message.UpstreamChunkResult, len(seqs))
	for k, s := range seqs {
		res[k] = &message.UpstreamChunkResult{SequenceNumber: s, ResultCode: code, ResultString: "r", ExtensionFields: &message.UpstreamChunkResultExtensionFields{}}
	}
	i.Send(&message.UpstreamChunkAck{StreamIDAlias: alias, Results: res, DataIDAliases: als, ExtensionFields: &message.UpstreamChunkAckExtensionFields{}})
}

// UpByAlias resolves an upstream alias of this incarnation.
func (i *Inc) UpByAlias(alias uint32) *UpStream {
	i.b.mu.Lock()
	defer i.b.mu.Unlock()
	return i.upByAlias[alias]
}

// ---- observation helpers

func (b *Broker) Lock()   { b.mu.Lock() }
func (b *Broker) Unlock() { b.mu.Unlock() }

// WaitFor blocks until pred holds on the log (called with the broker locked) or the timeout expires.
func (b *Broker) WaitFor(pred func() bool, timeout time.Duration) bool {
	deadline := time.Now().Add(timeout)
	stop := make(chan struct{})
	defer close(stop)
	go func() { // wake the cond periodically so the deadline is noticed
		t := time.NewTicker(5 * time.Millisecond)
		defer t.Stop()
		for {
			select {
			case <-t.C:
				b.mu.Lock()
				b.cond.Broadcast()
				b.mu.Unlock()
			case <-stop:
				return
			}
		}
	}()
	b.mu.Lock()
	defer b.mu.Unlock()
	for !pred() {
		if time.Now().After(deadline) {
			return false
		}
		b.cond.Wait()
	}
	return true
}

// Cur returns the newest incarnation (nil if none).
func (b *Broker) Cur() *Inc {
	b.mu.Lock()
	defer b.mu.Unlock()
	if len(b.Incs) == 0 {
		return nil
	}
	return b.Incs[len(b.Incs)-1]
}

// LogLen / LogFrom give race-free access to the log.
func (b *Broker) LogLen() int {
	b.mu.Lock()
	defer b.mu.Unlock()
	return len(b.Log)
}

func (b *Broker) LogFrom(n int) []Rec {
	b.mu.Lock()
	defer b.mu.Unlock()
	return append([]Rec(nil), b.Log[n:]...)
}
