import Iscp.Props.C01
#print axioms Iscp.Up.written_eq
#print axioms Iscp.Up.C01.conservation
#print axioms Iscp.Up.C01.seq_contiguous
#print axioms Iscp.Up.announced_eq
#print axioms Iscp.Up.C01.wire_matches_hook
#print axioms Iscp.Up.C01.data_ids_listed
#print axioms Iscp.Up.C01.close_totals
#print axioms Iscp.Up.results_eq
#print axioms Iscp.Up.C01.ack_hook
#print axioms Iscp.Up.acksKnown_eq
#print axioms Iscp.Up.C01.store_tracks_acks
#print axioms Iscp.Up.C01.no_chunk_after_close
