#!/bin/sh
# Build the framework from files on disk only (offline).
set -e
cd "$(dirname "$0")"
export GOFLAGS=-mod=mod GOPROXY=off
unset GOTOOLCHAIN GOSUMDB || true
mkdir -p lean/Iscp/Gen go/bin evidence replays .scratch
python3 tools/gen_all.py || true
(cd lean && lake build Iscp driver)
(cd go && go build -tags verif ./... )
