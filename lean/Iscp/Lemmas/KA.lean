import Iscp.Model.KA
/- helper lemmas for Props/C15.lean (may import Mathlib.Tactic single modules if needed for Nat division facts) -/
namespace Iscp.KA

/-- the next ping is sent no earlier than the completion of the previous one and at most one interval later
    (whatever the last consumed tick) -/
theorem nextPing_window (c : Cfg) (hI : 0 < c.I) (done L : Nat) :
    done ≤ nextPing c done L ∧ nextPing c done L ≤ done + c.I := by
  unfold nextPing
  split
  · exact ⟨Nat.le_refl _, Nat.le_add_right _ _⟩
  · have h1 : done / c.I * c.I ≤ done := Nat.div_mul_le_self done c.I
    have h2 : done < done / c.I * c.I + c.I := Nat.lt_div_mul_add hI
    have h3 : (done / c.I + 1) * c.I = done / c.I * c.I + c.I := by
      rw [Nat.add_mul, Nat.one_mul]
    rw [h3]
    generalize done / c.I * c.I = m at h1 h2
    omega

/-- while every pong arrives within the timeout, `sim` consumes the whole script and stays alive -/
theorem sim_alive (c : Cfg) (delays : List (Option Nat))
    (h : ∀ d ∈ delays, ∃ x, d = some x ∧ x < c.T) (t L n lp : Nat) :
    ∃ lp', sim c delays t L n lp = .alive (n + delays.length) lp' := by
  induction delays generalizing t L n lp with
  | nil => exact ⟨lp, by simp [sim]⟩
  | cons d r ih =>
    obtain ⟨x, rfl, hx⟩ := h d (List.mem_cons_self)
    have hr : ∀ d ∈ r, ∃ x, d = some x ∧ x < c.T := fun d hd => h d (List.mem_cons_of_mem _ hd)
    obtain ⟨lp', h'⟩ := ih hr (nextPing c (t + x) L) (nextPing c (t + x) L / c.I * c.I) (n + 1) (t + x)
    refine ⟨lp', ?_⟩
    simp only [sim, hx, if_true, List.length_cons]
    rw [h']
    congr 1
    omega

/-- answered pings followed by one that is not answered in time: closed exactly `T` after that ping was sent, which is within
    `I` of the last accepted pong.  Invariant: `lp ≤ t ≤ lp + I`. -/
theorem sim_closed (c : Cfg) (hI : 0 < c.I) (answered : List (Option Nat)) (late : Option Nat) (rest : List (Option Nat))
    (ha : ∀ d ∈ answered, ∃ x, d = some x ∧ x < c.T) (hl : ∀ x, late = some x → c.T ≤ x)
    (t L n lp : Nat) (h1 : lp ≤ t) (h2 : t ≤ lp + c.I) :
    ∃ tc lp', sim c (answered ++ late :: rest) t L n lp = .closed tc (n + answered.length + 1) lp' ∧
      tc ≤ lp' + c.I + c.T ∧ lp' + c.T ≤ tc := by
  induction answered generalizing t L n lp with
  | nil =>
    refine ⟨t + c.T, lp, ?_, by omega, by omega⟩
    cases late with
    | none => simp [sim]
    | some x =>
      have : ¬ x < c.T := Nat.not_lt.mpr (hl x rfl)
      simp [sim, this]
  | cons d r ih =>
    obtain ⟨x, rfl, hx⟩ := ha d (List.mem_cons_self)
    have hr : ∀ d ∈ r, ∃ x, d = some x ∧ x < c.T := fun d hd => ha d (List.mem_cons_of_mem _ hd)
    obtain ⟨w1, w2⟩ := nextPing_window c hI (t + x) L
    obtain ⟨tc, lp', h', b1, b2⟩ :=
      ih hr (nextPing c (t + x) L) (nextPing c (t + x) L / c.I * c.I) (n + 1) (t + x) w1 w2
    refine ⟨tc, lp', ?_, b1, b2⟩
    simp only [List.cons_append, sim, hx, if_true, List.length_cons]
    rw [h']
    congr 1
    omega

end Iscp.KA
