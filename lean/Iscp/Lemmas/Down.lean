import Iscp.Model.Down
import Iscp.Lemmas.C07
/- helper lemmas for Props/C03.lean and Props/C04.lean -/
