import Iscp.Model.Down
import Iscp.Lemmas.C07
/- helper lemmas for Props/C03.lean and Props/C04.lean -/

namespace Iscp

/-! ### association lists that grow at the end: the first binding wins -/

theorem alGet_append_some {α} {k : Nat} {x : α} {l : List (Nat × α)} (m : List (Nat × α)) (h : alGet k l = some x) :
    alGet k (l ++ m) = some x := by
  induction l with
  | nil => simp [alGet] at h
  | cons e r ih =>
    obtain ⟨k', v⟩ := e
    rw [List.cons_append, alGet_cons]
    rw [alGet_cons] at h
    split
    · next hk => rw [if_pos hk] at h; exact h
    · next hk => rw [if_neg hk] at h; exact ih h

theorem alGet_append_none {α} {k : Nat} {l : List (Nat × α)} (m : List (Nat × α)) (h : alGet k l = none) :
    alGet k (l ++ m) = alGet k m := by
  induction l with
  | nil => rfl
  | cons e r ih =>
    obtain ⟨k', v⟩ := e
    rw [List.cons_append, alGet_cons]
    rw [alGet_cons] at h
    split
    · next hk => rw [if_pos hk] at h; cases h
    · next hk => rw [if_neg hk] at h; exact ih h

end Iscp

namespace Iscp.Down
open Iscp

/-! ### frame lemmas: which fields each operation touches -/

theorem initWith_shape (ids : List DataID) : ∃ g t, initWith ids = { idGen := g, idFwd := t } := by
  have h : ∀ (s : St), ∃ g t,
      ids.foldl (fun s d => let a := aliasNext s.idGen; { s with idGen := a, idFwd := s.idFwd ++ [(a, d)] }) s
        = { s with idGen := g, idFwd := t } := by
    induction ids with
    | nil => intro s; exact ⟨s.idGen, s.idFwd, rfl⟩
    | cons d r ih =>
      intro s
      obtain ⟨g, t, h⟩ := ih { s with idGen := aliasNext s.idGen, idFwd := s.idFwd ++ [(aliasNext s.idGen, d)] }
      exact ⟨g, t, by rw [List.foldl_cons]; exact h⟩
  obtain ⟨g, t, h⟩ := h {}
  exact ⟨g, t, h⟩

@[simp] theorem initWith_inbox (ids : List DataID) : (initWith ids).inbox = [] := by
  obtain ⟨g, t, h⟩ := initWith_shape ids; rw [h]
@[simp] theorem initWith_acks (ids : List DataID) : (initWith ids).acks = [] := by
  obtain ⟨g, t, h⟩ := initWith_shape ids; rw [h]
@[simp] theorem initWith_results (ids : List DataID) : (initWith ids).results = [] := by
  obtain ⟨g, t, h⟩ := initWith_shape ids; rw [h]
@[simp] theorem initWith_ackId (ids : List DataID) : (initWith ids).ackId = 0 := by
  obtain ⟨g, t, h⟩ := initWith_shape ids; rw [h]
@[simp] theorem initWith_metaBox (ids : List DataID) : (initWith ids).metaBox = [] := by
  obtain ⟨g, t, h⟩ := initWith_shape ids; rw [h]
@[simp] theorem initWith_metaAcks (ids : List DataID) : (initWith ids).metaAcks = [] := by
  obtain ⟨g, t, h⟩ := initWith_shape ids; rw [h]
@[simp] theorem initWith_upFwd (ids : List DataID) : (initWith ids).upFwd = [] := by
  obtain ⟨g, t, h⟩ := initWith_shape ids; rw [h]
@[simp] theorem initWith_upGen (ids : List DataID) : (initWith ids).upGen = 0 := by
  obtain ⟨g, t, h⟩ := initWith_shape ids; rw [h]
@[simp] theorem initWith_upAnn (ids : List DataID) : (initWith ids).upAnn = [] := by
  obtain ⟨g, t, h⟩ := initWith_shape ids; rw [h]
@[simp] theorem initWith_idAnn (ids : List DataID) : (initWith ids).idAnn = [] := by
  obtain ⟨g, t, h⟩ := initWith_shape ids; rw [h]

/-- assignUp only touches the upstream alias table, its generator and its announcement buffer -/
theorem assignUp_shape (s : St) (r : UpRef) : ∃ g t a, assignUp s r = { s with upGen := g, upFwd := t, upAnn := a } := by
  unfold assignUp
  split
  · exact ⟨_, _, _, rfl⟩
  · split
    · exact ⟨_, _, _, rfl⟩
    · exact ⟨_, _, _, rfl⟩

/-- assignIds only touches the data-id alias table, its generator and its announcement buffer -/
theorem assignIds_shape (gs : List Up.WGroup) : ∀ (s : St), ∃ g t a, assignIds s gs = { s with idGen := g, idFwd := t, idAnn := a } := by
  induction gs with
  | nil => intro s; exact ⟨_, _, _, rfl⟩
  | cons g r ih =>
    intro s
    unfold assignIds
    split
    · exact ih s
    · split
      · exact ih s
      · obtain ⟨g', t, a, h⟩ := ih { s with idGen := aliasNext s.idGen, idFwd := s.idFwd ++ [(aliasNext s.idGen, _)],
                                            idAnn := s.idAnn ++ [(aliasNext s.idGen, _)] }
        exact ⟨g', t, a, h⟩

/-- the state in which a read resolves the head chunk: both assignment passes done -/
def readPre (s : St) (c : WChunk) (rest : List WChunk) : St :=
  assignIds (assignUp { s with inbox := rest } c.up) c.groups

theorem readPre_shape (s : St) (c : WChunk) (rest : List WChunk) : ∃ g t a g' t' a',
    readPre s c rest = { s with inbox := rest, upGen := g, upFwd := t, upAnn := a, idGen := g', idFwd := t', idAnn := a' } := by
  unfold readPre
  obtain ⟨g, t, a, h⟩ := assignUp_shape { s with inbox := rest } c.up
  obtain ⟨g', t', a', h'⟩ := assignIds_shape c.groups (assignUp { s with inbox := rest } c.up)
  exact ⟨g, t, a, g', t', a', by rw [h', h]⟩

theorem read_nil {s : St} (h : s.inbox = []) : read s = (s, .empty) := by
  simp only [read, h]

theorem read_cons {s : St} {c : WChunk} {rest : List WChunk} (h : s.inbox = c :: rest) :
    read s = match resolveUp (readPre s c rest) c.up, resolveGroups (readPre s c rest) c.groups with
      | some u, some gs => ({ readPre s c rest with results := (readPre s c rest).results ++ [(u, c.seq)] }, .chunk ⟨u, c.seq, gs⟩)
      | _, _ => (readPre s c rest, .errAlias) := by
  unfold read
  split
  · next h0 => rw [h] at h0; cases h0
  · next c' rest' h0 => rw [h] at h0; cases h0; rfl

theorem read_cons_some {s : St} {c : WChunk} {rest : List WChunk} (h : s.inbox = c :: rest) {u : Nat} {gs : Groups}
    (hu : resolveUp (readPre s c rest) c.up = some u) (hg : resolveGroups (readPre s c rest) c.groups = some gs) :
    read s = ({ readPre s c rest with results := (readPre s c rest).results ++ [(u, c.seq)] }, .chunk ⟨u, c.seq, gs⟩) := by
  rw [read_cons h, hu, hg]

theorem read_cons_none {s : St} {c : WChunk} {rest : List WChunk} (h : s.inbox = c :: rest)
    (hn : resolveUp (readPre s c rest) c.up = none ∨ resolveGroups (readPre s c rest) c.groups = none) :
    read s = (readPre s c rest, .errAlias) := by
  rw [read_cons h]
  split
  · next hu hg => rw [hu, hg] at hn; simp at hn
  · rfl

/-- a read on a non-empty inbox: the two possible outcomes -/
theorem read_cases {s : St} {c : WChunk} {rest : List WChunk} (h : s.inbox = c :: rest) :
    (∃ u gs, resolveUp (readPre s c rest) c.up = some u ∧ resolveGroups (readPre s c rest) c.groups = some gs ∧
        read s = ({ readPre s c rest with results := (readPre s c rest).results ++ [(u, c.seq)] }, .chunk ⟨u, c.seq, gs⟩)) ∨
    ((resolveUp (readPre s c rest) c.up = none ∨ resolveGroups (readPre s c rest) c.groups = none) ∧
        read s = (readPre s c rest, .errAlias)) := by
  cases hu : resolveUp (readPre s c rest) c.up with
  | none => exact .inr ⟨.inl rfl, read_cons_none h (.inl hu)⟩
  | some u =>
    cases hg : resolveGroups (readPre s c rest) c.groups with
    | none => exact .inr ⟨.inr rfl, read_cons_none h (.inr hg)⟩
    | some gs => exact .inl ⟨u, gs, rfl, rfl, read_cons_some h hu hg⟩

/-! ### resolution -/

theorem resolveGroups_congr {s s' : St} (h : s.idFwd = s'.idFwd) (gs : List Up.WGroup) :
    resolveGroups s gs = resolveGroups s' gs := by
  induction gs with
  | nil => rfl
  | cons g r ih => simp only [resolveGroups, h, ih]

theorem resolveUp_congr {s s' : St} (h : s.upFwd = s'.upFwd) (r : UpRef) : resolveUp s r = resolveUp s' r := by
  cases r <;> simp only [resolveUp, h]

theorem resolveGroups_cons_some {s : St} {g : Up.WGroup} {r : List Up.WGroup} {rs : Groups}
    (h : resolveGroups s (g :: r) = some rs) :
    ∃ d rs', rs = ⟨d, g.points⟩ :: rs' ∧ resolveGroups s r = some rs' ∧
      (match g.ref with | .id d' => d = d' | .alias a => alGet a s.idFwd = some d) := by
  unfold resolveGroups at h
  cases hg : g.ref with
  | id d' =>
    rw [hg] at h
    dsimp only at h
    cases hr : resolveGroups s r with
    | none => rw [hr] at h; simp at h
    | some rs' =>
      rw [hr] at h
      simp only [Option.some.injEq] at h
      exact ⟨d', rs', h.symm, rfl, rfl⟩
  | «alias» a =>
    rw [hg] at h
    dsimp only at h
    cases ha : alGet a s.idFwd with
    | none => rw [ha] at h; simp at h
    | some d =>
      cases hr : resolveGroups s r with
      | none => rw [ha, hr] at h; simp at h
      | some rs' =>
        rw [ha, hr] at h
        simp only [Option.some.injEq] at h
        exact ⟨d, rs', h.symm, rfl, ha⟩

theorem resolveGroups_points {s : St} : ∀ {gs : List Up.WGroup} {rs : Groups}, resolveGroups s gs = some rs →
    rs.map (·.points) = gs.map (·.points)
  | [], rs, h => by simp only [resolveGroups, Option.some.injEq] at h; subst h; rfl
  | g :: r, rs, h => by
    obtain ⟨d, rs', rfl, hr, _⟩ := resolveGroups_cons_some h
    simp only [List.map_cons, resolveGroups_points hr]

theorem resolveGroups_get {s : St} : ∀ {gs : List Up.WGroup} {rs : Groups}, resolveGroups s gs = some rs →
    ∀ i (hi : i < gs.length) (hj : i < rs.length),
      match gs[i].ref with
      | .id d => rs[i].id = d
      | .alias a => alGet a s.idFwd = some rs[i].id
  | [], _, _, i, hi, _ => by simp at hi
  | g :: r, rs, h, i, hi, hj => by
    obtain ⟨d, rs', rfl, hr, hd⟩ := resolveGroups_cons_some h
    cases i with
    | zero => exact hd
    | succ i =>
      simp only [List.getElem_cons_succ]
      exact resolveGroups_get hr i (by simpa using hi) (by simpa using hj)

theorem resolveGroups_none {s : St} : ∀ {gs : List Up.WGroup},
    resolveGroups s gs = none ↔ ∃ g ∈ gs, ∃ a, g.ref = .alias a ∧ alGet a s.idFwd = none
  | [] => by simp [resolveGroups]
  | g :: r => by
    have ih := @resolveGroups_none s r
    unfold resolveGroups
    cases hg : g.ref with
    | id d =>
      dsimp only
      cases hr : resolveGroups s r with
      | none =>
        simp only [true_iff]
        obtain ⟨g', hm, a, h1, h2⟩ := ih.mp hr
        exact ⟨g', List.mem_cons_of_mem _ hm, a, h1, h2⟩
      | some rs' =>
        simp only [reduceCtorEq, false_iff]
        rintro ⟨g', hm, a, h1, h2⟩
        rcases List.mem_cons.mp hm with rfl | hm
        · rw [hg] at h1; cases h1
        · have := ih.mpr ⟨g', hm, a, h1, h2⟩
          rw [hr] at this; cases this
    | «alias» a =>
      dsimp only
      cases ha : alGet a s.idFwd with
      | none =>
        simp only [true_iff]
        exact ⟨g, List.mem_cons_self, a, hg, ha⟩
      | some d =>
        cases hr : resolveGroups s r with
        | none =>
          simp only [true_iff]
          obtain ⟨g', hm, a', h1, h2⟩ := ih.mp hr
          exact ⟨g', List.mem_cons_of_mem _ hm, a', h1, h2⟩
        | some rs' =>
          simp only [reduceCtorEq, false_iff]
          rintro ⟨g', hm, a', h1, h2⟩
          rcases List.mem_cons.mp hm with rfl | hm
          · rw [hg] at h1; cases h1; rw [ha] at h2; cases h2
          · have := ih.mpr ⟨g', hm, a', h1, h2⟩
            rw [hr] at this; cases this

theorem resolveUp_none {s : St} {r : UpRef} : resolveUp s r = none ↔ ∃ a, r = .alias a ∧ alGet a s.upFwd = none := by
  cases r with
  | info u => simp [resolveUp]
  | «alias» a => simp [resolveUp]

/-! ### shapes of the remaining operations -/

theorem arrive_shape (s : St) (c : WChunk) : ∃ i, arrive s c = { s with inbox := i } := by
  unfold arrive; split
  · exact ⟨_, rfl⟩
  · exact ⟨s.inbox, rfl⟩

theorem arrive_of_lt {s : St} (c : WChunk) (h : s.inbox.length < cap) : arrive s c = { s with inbox := s.inbox ++ [c] } := by
  unfold arrive; rw [if_pos h]

theorem arriveMeta_shape (s : St) (n r : Nat) : ∃ b, arriveMeta s n r = { s with metaBox := b } := by
  unfold arriveMeta; split
  · exact ⟨_, rfl⟩
  · exact ⟨s.metaBox, rfl⟩

theorem arriveMeta_of_lt {s : St} (n r : Nat) (h : s.metaBox.length < cap) :
    arriveMeta s n r = { s with metaBox := s.metaBox ++ [(n, r)] } := by
  unfold arriveMeta; rw [if_pos h]

theorem readMeta_shape (s : St) : ∃ b a, (readMeta s).1 = { s with metaBox := b, metaAcks := a } := by
  unfold readMeta; split
  · exact ⟨s.metaBox, s.metaAcks, rfl⟩
  · exact ⟨_, _, rfl⟩

theorem flushAck_cases (s : St) :
    (s.upAnn = [] ∧ s.idAnn = [] ∧ s.results = [] ∧ flushAck s = s) ∨
    ((s.upAnn ≠ [] ∨ s.idAnn ≠ [] ∨ s.results ≠ []) ∧
      flushAck s = { s with ackId := s.ackId + 1, acks := s.acks ++ [⟨s.ackId + 1, s.upAnn, s.idAnn, s.results⟩],
                            upAnn := [], idAnn := [], results := [], out := s.out ++ [0] }) := by
  unfold flushAck
  split
  · next h =>
    simp only [List.isEmpty_iff] at h
    exact .inl ⟨h.1, h.2.1, h.2.2, rfl⟩
  · next h =>
    simp only [List.isEmpty_iff] at h
    refine .inr ⟨?_, rfl⟩
    by_cases h1 : s.upAnn = []
    · by_cases h2 : s.idAnn = []
      · by_cases h3 : s.results = []
        · exact absurd ⟨h1, h2, h3⟩ h
        · exact .inr (.inr h3)
      · exact .inr (.inl h2)
    · exact .inl h1

theorem close_eq (s : St) : close s = { flushAck s with closeReq := true, out := (flushAck s).out ++ [1] } := rfl

/-- every event only appends to the alias tables -/
theorem assignUp_upFwd_grows (s : St) (r : UpRef) : ∃ m, (assignUp s r).upFwd = s.upFwd ++ m := by
  unfold assignUp
  split
  · exact ⟨[], by simp⟩
  · split
    · exact ⟨[], by simp⟩
    · exact ⟨_, rfl⟩

theorem assignUp_idFwd (s : St) (r : UpRef) : (assignUp s r).idFwd = s.idFwd := by
  obtain ⟨g, t, a, h⟩ := assignUp_shape s r; rw [h]

theorem assignIds_upFwd (s : St) (gs : List Up.WGroup) : (assignIds s gs).upFwd = s.upFwd := by
  obtain ⟨g, t, a, h⟩ := assignIds_shape gs s; rw [h]

theorem assignIds_idFwd_grows (gs : List Up.WGroup) : ∀ (s : St), ∃ m, (assignIds s gs).idFwd = s.idFwd ++ m := by
  induction gs with
  | nil => intro s; exact ⟨[], by simp [assignIds]⟩
  | cons g r ih =>
    intro s
    unfold assignIds
    split
    · exact ih s
    · split
      · exact ih s
      · next d _ _ =>
        obtain ⟨m, h⟩ := ih { s with idGen := aliasNext s.idGen, idFwd := s.idFwd ++ [(aliasNext s.idGen, d)],
                                      idAnn := s.idAnn ++ [(aliasNext s.idGen, d)] }
        exact ⟨(aliasNext s.idGen, d) :: m, by rw [h]; simp⟩

theorem readPre_grows (s : St) (c : WChunk) (rest : List WChunk) :
    (∃ m, (readPre s c rest).upFwd = s.upFwd ++ m) ∧ (∃ m, (readPre s c rest).idFwd = s.idFwd ++ m) := by
  unfold readPre
  constructor
  · rw [assignIds_upFwd]; exact assignUp_upFwd_grows _ _
  · obtain ⟨m, h⟩ := assignIds_idFwd_grows c.groups (assignUp { s with inbox := rest } c.up)
    exact ⟨m, by rw [h, assignUp_idFwd]⟩

theorem read_grows (s : St) :
    (∃ m, (read s).1.upFwd = s.upFwd ++ m) ∧ (∃ m, (read s).1.idFwd = s.idFwd ++ m) := by
  cases hi : s.inbox with
  | nil => rw [read_nil hi]; exact ⟨⟨[], by simp⟩, ⟨[], by simp⟩⟩
  | cons c rest =>
    rcases read_cases hi with ⟨u, gs, _, _, h⟩ | ⟨_, h⟩
    · rw [h]; exact readPre_grows s c rest
    · rw [h]; exact readPre_grows s c rest

theorem flushAck_upFwd (s : St) : (flushAck s).upFwd = s.upFwd := by
  rcases flushAck_cases s with ⟨_, _, _, h⟩ | ⟨_, h⟩ <;> rw [h]
theorem flushAck_idFwd (s : St) : (flushAck s).idFwd = s.idFwd := by
  rcases flushAck_cases s with ⟨_, _, _, h⟩ | ⟨_, h⟩ <;> rw [h]

theorem step_grows (s : St) (e : Ev) :
    (∃ m, (step s e).upFwd = s.upFwd ++ m) ∧ (∃ m, (step s e).idFwd = s.idFwd ++ m) := by
  cases e with
  | arrive c => obtain ⟨i, h⟩ := arrive_shape s c; simp only [step, h]; exact ⟨⟨[], by simp⟩, ⟨[], by simp⟩⟩
  | read => exact read_grows s
  | flushAck => simp only [step, flushAck_upFwd, flushAck_idFwd]; exact ⟨⟨[], by simp⟩, ⟨[], by simp⟩⟩
  | close => simp only [step, close_eq, flushAck_upFwd, flushAck_idFwd]; exact ⟨⟨[], by simp⟩, ⟨[], by simp⟩⟩
  | arriveMeta n r => obtain ⟨i, h⟩ := arriveMeta_shape s n r; simp only [step, h]; exact ⟨⟨[], by simp⟩, ⟨[], by simp⟩⟩
  | readMeta => obtain ⟨b, a, h⟩ := readMeta_shape s; simp only [step, h]; exact ⟨⟨[], by simp⟩, ⟨[], by simp⟩⟩
  | resume => exact ⟨⟨[], by simp [step]⟩, ⟨[], by simp [step]⟩⟩

theorem run_cons (s : St) (e : Ev) (r : List Ev) : run s (e :: r) = run (step s e) r := rfl
theorem run_nil (s : St) : run s [] = s := rfl

/-- a read only touches the inbox, the alias tables / generators / announcement buffers and the result buffer -/
theorem read_shape (s : St) : ∃ i g t a g' t' a' r,
    (read s).1 = { s with inbox := i, upGen := g, upFwd := t, upAnn := a, idGen := g', idFwd := t', idAnn := a', results := r } := by
  cases hi : s.inbox with
  | nil => rw [read_nil hi]; exact ⟨s.inbox, s.upGen, s.upFwd, s.upAnn, s.idGen, s.idFwd, s.idAnn, s.results, rfl⟩
  | cons c rest =>
    obtain ⟨g, t, a, g', t', a', hp⟩ := readPre_shape s c rest
    rcases read_cases hi with ⟨u, gs, _, _, h⟩ | ⟨_, h⟩
    · rw [h]; exact ⟨rest, g, t, a, g', t', a', s.results ++ [(u, c.seq)], by rw [hp]⟩
    · rw [h]; exact ⟨rest, g, t, a, g', t', a', s.results, by rw [hp]⟩

theorem flushAck_shape (s : St) : ∃ i k ua ia r o,
    flushAck s = { s with ackId := i, acks := k, upAnn := ua, idAnn := ia, results := r, out := o } := by
  rcases flushAck_cases s with ⟨_, _, _, h⟩ | ⟨_, h⟩
  · exact ⟨s.ackId, s.acks, s.upAnn, s.idAnn, s.results, s.out, by rw [h]⟩
  · exact ⟨_, _, _, _, _, _, h⟩

theorem close_shape (s : St) : ∃ i k ua ia r o,
    close s = { s with ackId := i, acks := k, upAnn := ua, idAnn := ia, results := r, out := o, closeReq := true } := by
  obtain ⟨i, k, ua, ia, r, o, h⟩ := flushAck_shape s
  exact ⟨i, k, ua, ia, r, o ++ [1], by rw [close_eq, h]⟩

/-! ### metadata -/

/-- the request id carried by a metadata arrival -/
def metaReq : Ev → Option Nat
  | .arriveMeta _ r => some r
  | _ => none

def metaView (s : St) : List Nat := s.metaAcks ++ s.metaBox.map (·.2)

theorem step_metaView (s : St) (e : Ev) (h : s.metaBox.length < cap) :
    metaView (step s e) = metaView s ++ (metaReq e).toList := by
  cases e with
  | arrive c => obtain ⟨i, h⟩ := arrive_shape s c; simp [step, h, metaView, metaReq]
  | read => obtain ⟨i, g, t, a, g', t', a', r, h⟩ := read_shape s; simp [step, h, metaView, metaReq]
  | flushAck => obtain ⟨i, k, ua, ia, r, o, h⟩ := flushAck_shape s; simp [step, h, metaView, metaReq]
  | close => obtain ⟨i, k, ua, ia, r, o, h⟩ := close_shape s; simp [step, h, metaView, metaReq]
  | arriveMeta n r => simp [step, arriveMeta_of_lt n r h, metaView, metaReq]
  | readMeta =>
    simp only [step, readMeta, metaView, metaReq]
    cases hb : s.metaBox with
    | nil => simp [hb]
    | cons m r => simp
  | resume => simp [step, metaView, metaReq]

theorem run_metaView (evs : List Ev) : ∀ (s : St), (∀ k, (run s (evs.take k)).metaBox.length < cap) →
    metaView (run s evs) = metaView s ++ evs.filterMap metaReq := by
  induction evs with
  | nil => intro s _; simp [run]
  | cons e r ih =>
    intro s hc
    have h0 : s.metaBox.length < cap := hc 0
    have hr : ∀ k, (run (step s e) (r.take k)).metaBox.length < cap := fun k => hc (k + 1)
    rw [run_cons, ih _ hr, step_metaView s e h0]
    cases hm : metaReq e <;> simp [hm]

/-! ### acknowledgements -/

/-- the results of every ack sent so far followed by the results still buffered -/
def ackedResults (s : St) : List (Nat × Nat) := s.acks.flatMap (·.results) ++ s.results

/-- what a read outcome contributes to the acknowledged results -/
def outResult : ReadOut → List (Nat × Nat)
  | .chunk c => [(c.up, c.seq)]
  | _ => []

theorem read_acked (s : St) : ackedResults (read s).1 = ackedResults s ++ outResult (read s).2 := by
  cases hi : s.inbox with
  | nil => rw [read_nil hi]; simp [outResult]
  | cons c rest =>
    obtain ⟨g, t, a, g', t', a', hp⟩ := readPre_shape s c rest
    rcases read_cases hi with ⟨u, gs, _, _, h⟩ | ⟨_, h⟩
    · rw [h, hp]; simp [ackedResults, outResult]
    · rw [h, hp]; simp [ackedResults, outResult]

theorem flushAck_acked (s : St) : ackedResults (flushAck s) = ackedResults s := by
  rcases flushAck_cases s with ⟨_, _, _, h⟩ | ⟨_, h⟩
  · rw [h]
  · rw [h]; simp [ackedResults, List.flatMap_append]

theorem step_acked (s : St) (e : Ev) :
    ackedResults (step s e) = ackedResults s ++ (match e with | .read => outResult (read s).2 | _ => []) := by
  cases e with
  | arrive c => obtain ⟨i, h⟩ := arrive_shape s c; simp [step, h, ackedResults]
  | read => exact read_acked s
  | flushAck => simp [step, flushAck_acked]
  | close =>
    have : ackedResults (close s) = ackedResults (flushAck s) := rfl
    simp [step, this, flushAck_acked]
  | arriveMeta n r => obtain ⟨i, h⟩ := arriveMeta_shape s n r; simp [step, h, ackedResults]
  | readMeta => obtain ⟨b, a, h⟩ := readMeta_shape s; simp [step, h, ackedResults]
  | resume => simp [step]

/-- ack ids count the acks -/
def AckInv (s : St) : Prop := s.acks.map (·.id) = List.range' 1 s.acks.length ∧ s.ackId = s.acks.length

theorem flushAck_AckInv {s : St} (h : AckInv s) : AckInv (flushAck s) := by
  rcases flushAck_cases s with ⟨_, _, _, hf⟩ | ⟨_, hf⟩
  · rw [hf]; exact h
  · rw [hf]
    obtain ⟨h1, h2⟩ := h
    refine ⟨?_, ?_⟩
    · simp only [List.map_append, List.map_cons, List.map_nil, List.length_append, List.length_cons, List.length_nil,
        h1, h2, List.range'_concat]
      simp [Nat.add_comm]
    · simp [h2]

theorem step_AckInv {s : St} (e : Ev) (h : AckInv s) : AckInv (step s e) := by
  cases e with
  | arrive c => obtain ⟨i, hs⟩ := arrive_shape s c; simp only [step, hs]; exact h
  | read => obtain ⟨i, g, t, a, g', t', a', r, hs⟩ := read_shape s; simp only [step, hs]; exact h
  | flushAck => exact flushAck_AckInv h
  | close => exact flushAck_AckInv h
  | arriveMeta n r => obtain ⟨i, hs⟩ := arriveMeta_shape s n r; simp only [step, hs]; exact h
  | readMeta => obtain ⟨b, a, hs⟩ := readMeta_shape s; simp only [step, hs]; exact h
  | resume => exact h

theorem run_AckInv (evs : List Ev) : ∀ {s : St}, AckInv s → AckInv (run s evs) := by
  induction evs with
  | nil => intro s h; exact h
  | cons e r ih => intro s h; rw [run_cons]; exact ih (step_AckInv e h)

theorem initWith_AckInv (ids : List DataID) : AckInv (initWith ids) := by
  simp [AckInv]

/-! ### alias tables -/

theorem aliasNext_of_lt {n : Nat} (h : n < 4294967295) : aliasNext n = n + 1 := by
  unfold aliasNext
  have h1 : (n + 1) % 4294967296 = n + 1 := Nat.mod_eq_of_lt (by omega)
  simp only [h1]
  rw [if_neg (by omega)]

/-- a table and its generator: the bound things are pairwise distinct, and as long as the table holds fewer than 2^32 - 1
    entries (the generator has not wrapped) the aliases are 1, 2, …, in order, the generator standing at the last one -/
structure TInv {α : Type} (t : List (Nat × α)) (g : Nat) : Prop where
  vals : (t.map (·.2)).Nodup
  keys : t.length < 4294967295 → t.map (·.1) = List.range' 1 t.length ∧ g = t.length

theorem TInv.nil {α : Type} : TInv ([] : List (Nat × α)) 0 := ⟨by simp, fun _ => by simp⟩

theorem TInv.mint {α : Type} {t : List (Nat × α)} {g : Nat} (h : TInv t g) (x : α) (hx : ∀ e ∈ t, e.2 ≠ x) :
    TInv (t ++ [(aliasNext g, x)]) (aliasNext g) := by
  constructor
  · simp only [List.map_append, List.map_cons, List.map_nil]
    rw [List.nodup_append]
    refine ⟨h.vals, by simp, ?_⟩
    intro a ha b hb
    simp only [List.mem_singleton] at hb
    subst hb
    obtain ⟨e, he, rfl⟩ := List.mem_map.mp ha
    exact hx e he
  · intro hl
    simp only [List.length_append, List.length_cons, List.length_nil] at hl
    obtain ⟨hk, hg⟩ := h.keys (by omega)
    subst hg
    rw [aliasNext_of_lt (by omega)]
    refine ⟨?_, by simp⟩
    simp only [List.map_append, List.map_cons, List.map_nil, List.length_append, List.length_cons, List.length_nil, hk,
      List.range'_concat]
    simp [Nat.add_comm]

theorem idRev_none {s : St} {d : DataID} (h : ¬ (idRev s d).isSome = true) : ∀ e ∈ s.idFwd, e.2 ≠ d := by
  intro e he hd
  apply h
  unfold idRev
  rw [Option.isSome_map, List.find?_isSome]
  exact ⟨e, he, by simpa using hd⟩

theorem upRev_none {s : St} {u : Nat} (h : ¬ (upRev s u).isSome = true) : ∀ e ∈ s.upFwd, e.2 ≠ u := by
  intro e he hd
  apply h
  unfold upRev
  rw [Option.isSome_map, List.find?_isSome]
  exact ⟨e, he, by simpa using hd⟩

/-- the alias invariant of reachable states; `init` is the pre-registered part of the data-id table -/
structure AInv (init : List (Nat × DataID)) (s : St) : Prop where
  upEq : s.upFwd = s.acks.flatMap (·.upAnn) ++ s.upAnn
  idEq : s.idFwd = init ++ (s.acks.flatMap (·.idAnn) ++ s.idAnn)
  upT : TInv s.upFwd s.upGen
  idT : TInv s.idFwd s.idGen

theorem AInv.congr {init : List (Nat × DataID)} {s s' : St} (h : AInv init s)
    (h1 : s'.upFwd = s.upFwd) (h2 : s'.upGen = s.upGen) (h3 : s'.upAnn = s.upAnn)
    (h4 : s'.idFwd = s.idFwd) (h5 : s'.idGen = s.idGen) (h6 : s'.idAnn = s.idAnn) (h7 : s'.acks = s.acks) : AInv init s' := by
  constructor
  · rw [h1, h3, h7]; exact h.upEq
  · rw [h4, h6, h7]; exact h.idEq
  · rw [h1, h2]; exact h.upT
  · rw [h4, h5]; exact h.idT

theorem assignUp_AInv {init : List (Nat × DataID)} {s : St} (h : AInv init s) (r : UpRef) : AInv init (assignUp s r) := by
  unfold assignUp
  split
  · exact h
  · next u =>
    split
    · exact h
    · next hn =>
      constructor
      · show s.upFwd ++ [(aliasNext s.upGen, u)] = s.acks.flatMap (·.upAnn) ++ (s.upAnn ++ [(aliasNext s.upGen, u)])
        rw [h.upEq, List.append_assoc]
      · exact h.idEq
      · exact h.upT.mint u (upRev_none hn)
      · exact h.idT

theorem assignIds_AInv {init : List (Nat × DataID)} (gs : List Up.WGroup) :
    ∀ {s : St}, AInv init s → AInv init (assignIds s gs) := by
  induction gs with
  | nil => intro s h; exact h
  | cons g r ih =>
    intro s h
    unfold assignIds
    split
    · exact ih h
    · next d _ =>
      split
      · exact ih h
      · next hn =>
        apply ih
        constructor
        · exact h.upEq
        · show s.idFwd ++ [(aliasNext s.idGen, d)] = init ++ (s.acks.flatMap (·.idAnn) ++ (s.idAnn ++ [(aliasNext s.idGen, d)]))
          rw [h.idEq]; simp only [List.append_assoc]
        · exact h.upT
        · exact h.idT.mint d (idRev_none hn)

theorem flushAck_AInv {init : List (Nat × DataID)} {s : St} (h : AInv init s) : AInv init (flushAck s) := by
  rcases flushAck_cases s with ⟨_, _, _, hf⟩ | ⟨_, hf⟩
  · rw [hf]; exact h
  · rw [hf]
    constructor
    · show s.upFwd = (s.acks ++ [(⟨s.ackId + 1, s.upAnn, s.idAnn, s.results⟩ : Ack)]).flatMap (·.upAnn) ++ []
      rw [h.upEq]; simp [List.flatMap_append]
    · show s.idFwd = init ++ ((s.acks ++ [(⟨s.ackId + 1, s.upAnn, s.idAnn, s.results⟩ : Ack)]).flatMap (·.idAnn) ++ [])
      rw [h.idEq]; simp [List.flatMap_append]
    · exact h.upT
    · exact h.idT

theorem read_AInv {init : List (Nat × DataID)} {s : St} (h : AInv init s) : AInv init (read s).1 := by
  cases hi : s.inbox with
  | nil => rw [read_nil hi]; exact h
  | cons c rest =>
    have h0 : AInv init { s with inbox := rest } := h.congr rfl rfl rfl rfl rfl rfl rfl
    have h1 : AInv init (readPre s c rest) := assignIds_AInv c.groups (assignUp_AInv h0 c.up)
    rcases read_cases hi with ⟨u, gs, _, _, hr⟩ | ⟨_, hr⟩
    · rw [hr]; exact h1.congr rfl rfl rfl rfl rfl rfl rfl
    · rw [hr]; exact h1

theorem step_AInv {init : List (Nat × DataID)} {s : St} (e : Ev) (h : AInv init s) : AInv init (step s e) := by
  cases e with
  | arrive c => obtain ⟨i, hs⟩ := arrive_shape s c; simp only [step, hs]; exact h.congr rfl rfl rfl rfl rfl rfl rfl
  | read => exact read_AInv h
  | flushAck => exact flushAck_AInv h
  | close => exact (flushAck_AInv h).congr rfl rfl rfl rfl rfl rfl rfl
  | arriveMeta n r => obtain ⟨i, hs⟩ := arriveMeta_shape s n r; simp only [step, hs]; exact h.congr rfl rfl rfl rfl rfl rfl rfl
  | readMeta => obtain ⟨b, a, hs⟩ := readMeta_shape s; simp only [step, hs]; exact h.congr rfl rfl rfl rfl rfl rfl rfl
  | resume => exact h

theorem run_AInv {init : List (Nat × DataID)} (evs : List Ev) : ∀ {s : St}, AInv init s → AInv init (run s evs) := by
  induction evs with
  | nil => intro s h; exact h
  | cons e r ih => intro s h; rw [run_cons]; exact ih (step_AInv e h)

theorem initWith_TInv (ids : List DataID) (hid : ids.Nodup) : TInv (initWith ids).idFwd (initWith ids).idGen := by
  have h : ∀ (s : St), TInv s.idFwd s.idGen → (s.idFwd.map (·.2) ++ ids).Nodup →
      TInv (ids.foldl (fun s d => let a := aliasNext s.idGen; { s with idGen := a, idFwd := s.idFwd ++ [(a, d)] }) s).idFwd
           (ids.foldl (fun s d => let a := aliasNext s.idGen; { s with idGen := a, idFwd := s.idFwd ++ [(a, d)] }) s).idGen := by
    induction ids with
    | nil => intro s h _; exact h
    | cons d r ih =>
      intro s h hn
      rw [List.foldl_cons]
      have hd : ∀ e ∈ s.idFwd, e.2 ≠ d := by
        intro e he hed
        rw [List.nodup_append] at hn
        exact hn.2.2 e.2 (List.mem_map.mpr ⟨e, he, rfl⟩) d List.mem_cons_self hed
      apply ih (List.nodup_cons.mp hid).2
      · exact h.mint d hd
      · show ((s.idFwd ++ [(aliasNext s.idGen, d)]).map (·.2) ++ r).Nodup
        simpa using hn
  exact h {} TInv.nil (by simpa using hid)

theorem initWith_AInv (ids : List DataID) (hid : ids.Nodup) : AInv (initWith ids).idFwd (initWith ids) := by
  constructor
  · simp
  · simp
  · rw [initWith_upFwd, initWith_upGen]; exact TInv.nil
  · exact initWith_TInv ids hid

/-! ### the generator wraps around: 2^32 fresh data ids in one chunk bind alias 1 twice

Used only to show that C04.alias_injective needs a bound on the table size (a bound on the final generator value is not enough). -/

/-- groups with the full-form data ids k, k+1, …, k+n-1 -/
def freshGroups (k n : Nat) : List Up.WGroup := (List.range' k n).map (fun d => ⟨.id d, []⟩)

/-- the table alias i+1 ↦ id i for i < k -/
def seqTable (k : Nat) : List (Nat × DataID) := (List.range k).map (fun i => (i + 1, i))

theorem freshGroups_succ (k n : Nat) : freshGroups k (n + 1) = ⟨.id k, []⟩ :: freshGroups (k + 1) n := by
  simp [freshGroups, List.range'_succ]

theorem freshGroups_concat (k n : Nat) : freshGroups k (n + 1) = freshGroups k n ++ [⟨.id (k + n), []⟩] := by
  simp [freshGroups, List.range'_concat]

theorem seqTable_succ (k : Nat) : seqTable (k + 1) = seqTable k ++ [(k + 1, k)] := by
  simp [seqTable, List.range_succ]

theorem assignIds_append (l1 l2 : List Up.WGroup) : ∀ (s : St), assignIds s (l1 ++ l2) = assignIds (assignIds s l1) l2 := by
  induction l1 with
  | nil => intro s; rfl
  | cons g r ih =>
    intro s
    rw [List.cons_append]
    cases hg : g.ref with
    | «alias» a => simp only [assignIds, hg]; exact ih s
    | id d =>
      simp only [assignIds, hg]
      split
      · exact ih s
      · exact ih _

theorem idRev_seqTable {s : St} {k d : Nat} (h : s.idFwd = seqTable k) (hd : k ≤ d) : ¬ (idRev s d).isSome = true := by
  unfold idRev
  rw [h, Option.isSome_map, List.find?_isSome]
  rintro ⟨e, he, hed⟩
  obtain ⟨i, hi, rfl⟩ := List.mem_map.mp he
  simp only [List.mem_range, decide_eq_true_eq] at hi hed
  have : i = d := hed
  omega

theorem assignIds_one_fresh {s : St} {k : Nat} (h : s.idFwd = seqTable k) :
    assignIds s [⟨.id k, []⟩] =
      { s with idGen := aliasNext s.idGen, idFwd := s.idFwd ++ [(aliasNext s.idGen, k)], idAnn := s.idAnn ++ [(aliasNext s.idGen, k)] } := by
  simp only [assignIds]
  rw [if_neg (idRev_seqTable h (Nat.le_refl k))]

theorem assignIds_fresh (n : Nat) : ∀ (k : Nat) (s : St), s.idFwd = seqTable k → s.idGen = k → k + n ≤ 4294967295 →
    (assignIds s (freshGroups k n)).idFwd = seqTable (k + n) ∧ (assignIds s (freshGroups k n)).idGen = k + n := by
  induction n with
  | zero => intro k s h1 h2 _; exact ⟨h1, h2⟩
  | succ n ih =>
    intro k s h1 h2 hb
    have hc : freshGroups k (n + 1) = [⟨.id k, []⟩] ++ freshGroups (k + 1) n := freshGroups_succ k n
    rw [hc, assignIds_append, assignIds_one_fresh h1]
    have ha : aliasNext s.idGen = k + 1 := by rw [h2]; exact aliasNext_of_lt (by omega)
    have := ih (k + 1) { s with idGen := aliasNext s.idGen, idFwd := s.idFwd ++ [(aliasNext s.idGen, k)],
                                idAnn := s.idAnn ++ [(aliasNext s.idGen, k)] }
      (by show s.idFwd ++ [(aliasNext s.idGen, k)] = seqTable (k + 1); rw [ha, h1, seqTable_succ])
      ha (by omega)
    have e : k + 1 + n = k + (n + 1) := by omega
    rw [e] at this
    exact this

/-- M + 1 fresh ids where the generator wraps at M: the last one gets alias 1 again -/
theorem assignIds_wrap (M : Nat) (hM1 : M ≤ 4294967295) (hM2 : aliasNext M = 1) :
    (assignIds {} (freshGroups 0 (M + 1))).idFwd = seqTable M ++ [(1, M)] ∧ (assignIds {} (freshGroups 0 (M + 1))).idGen = 1 := by
  obtain ⟨h1, h2⟩ := assignIds_fresh M 0 {} rfl rfl (by omega)
  rw [Nat.zero_add] at h1 h2
  rw [freshGroups_concat, assignIds_append, Nat.zero_add, assignIds_one_fresh h1, h1, h2, hM2]
  exact ⟨rfl, rfl⟩

/-- one chunk with an unknown upstream alias (its data ids are registered all the same), read from the initial state -/
theorem run_one_chunk (gs : List Up.WGroup) :
    (run (initWith []) [.arrive ⟨.alias 0, 0, gs⟩, .read]).idFwd = (assignIds {} gs).idFwd ∧
    (run (initWith []) [.arrive ⟨.alias 0, 0, gs⟩, .read]).idGen = (assignIds {} gs).idGen ∧
    (run (initWith []) [.arrive ⟨.alias 0, 0, gs⟩, .read]).upGen = 0 := by
  have h0 : initWith [] = {} := rfl
  have h1 : step {} (.arrive ⟨.alias 0, 0, gs⟩) = { inbox := [⟨.alias 0, 0, gs⟩] } :=
    arrive_of_lt (s := {}) _ (by decide)
  have hp : readPre { inbox := [⟨.alias 0, 0, gs⟩] } ⟨.alias 0, 0, gs⟩ [] = assignIds {} gs := rfl
  have h2 : read { inbox := [⟨.alias 0, 0, gs⟩] } = (assignIds {} gs, .errAlias) := by
    rw [← hp]
    refine read_cons_none rfl (.inl ?_)
    rw [hp]
    show alGet 0 (assignIds {} gs).upFwd = none
    rw [assignIds_upFwd]; rfl
  rw [run_cons, run_cons, run_nil, h0, h1]
  show (read _).1.idFwd = _ ∧ (read _).1.idGen = _ ∧ (read _).1.upGen = 0
  rw [h2]
  refine ⟨rfl, rfl, ?_⟩
  obtain ⟨g, t, a, h⟩ := assignIds_shape gs {}
  rw [h]

end Iscp.Down
