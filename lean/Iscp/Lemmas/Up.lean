import Iscp.Model.Up
import Iscp.Lemmas.C07
/- helper lemmas for Props/C01.lean and Props/C20.lean -/

namespace Iscp.Up
open Iscp

/-! ### run -/

theorem run_nil (s : St) : run s [] = s := rfl
theorem run_cons (s : St) (e : Ev) (r : List Ev) : run s (e :: r) = run (step s e) r := rfl
theorem run_append (s : St) (a b : List Ev) : run s (a ++ b) = run (run s a) b := List.foldl_append ..

/-! ### the send buffer -/

/-- number of points in a list of groups (Props/C01 `pointCount`) -/
def pcount (gs : Groups) : Nat := (gs.map (·.points.length)).sum

/-- buffered points of data id `d` (Props/C01 `bufPoints` on the buffer) -/
def bufPts (d : DataID) (buf : List (DataID × List Point)) : List Point := (buf.filter (·.1 = d)).flatMap (·.2)

/-- points of `d` in a list of send-hook calls (Props/C01 `cutPoints`) -/
def hookPts (d : DataID) (h : List (Nat × Groups)) : List Point := h.flatMap fun e => pointsOf d e.2

theorem bufAdd_nil (d : DataID) (ps : List Point) : bufAdd [] d ps = [(d, ps)] := rfl

theorem bufAdd_cons (d' : DataID) (ps' : List Point) (r : List (DataID × List Point)) (d : DataID) (ps : List Point) :
    bufAdd ((d', ps') :: r) d ps = if d' = d then (d', ps' ++ ps) :: r else (d', ps') :: bufAdd r d ps := rfl

theorem bufAdd_ne_nil (buf : List (DataID × List Point)) (d : DataID) (ps : List Point) : bufAdd buf d ps ≠ [] := by
  cases buf with
  | nil => simp [bufAdd_nil]
  | cons e r =>
    obtain ⟨d', ps'⟩ := e
    rw [bufAdd_cons]
    split <;> simp

theorem mem_keys_bufAdd (buf : List (DataID × List Point)) (d : DataID) (ps : List Point) (x : DataID) :
    x ∈ (bufAdd buf d ps).map (·.1) ↔ x = d ∨ x ∈ buf.map (·.1) := by
  induction buf with
  | nil => simp [bufAdd_nil]
  | cons e r ih =>
    obtain ⟨d', ps'⟩ := e
    rw [bufAdd_cons]
    split
    · next h => subst h; simp
    · simp [ih, or_left_comm]

theorem nodup_keys_bufAdd (buf : List (DataID × List Point)) (d : DataID) (ps : List Point)
    (h : (buf.map (·.1)).Nodup) : ((bufAdd buf d ps).map (·.1)).Nodup := by
  induction buf with
  | nil => simp [bufAdd_nil]
  | cons e r ih =>
    obtain ⟨d', ps'⟩ := e
    simp only [List.map_cons, List.nodup_cons] at h
    rw [bufAdd_cons]
    split
    · simp only [List.map_cons, List.nodup_cons]; exact h
    · next hne =>
      simp only [List.map_cons, List.nodup_cons]
      refine ⟨?_, ih h.2⟩
      rw [mem_keys_bufAdd]
      intro hc
      rcases hc with hc | hc
      · exact hne hc
      · exact h.1 hc

theorem pcount_nil : pcount [] = 0 := rfl

theorem pcount_toGroups_cons (e : DataID × List Point) (r : List (DataID × List Point)) :
    pcount (toGroups (e :: r)) = e.2.length + pcount (toGroups r) := by
  simp [pcount, toGroups]

theorem pcount_bufAdd (buf : List (DataID × List Point)) (d : DataID) (ps : List Point) :
    pcount (toGroups (bufAdd buf d ps)) = pcount (toGroups buf) + ps.length := by
  induction buf with
  | nil => simp [bufAdd_nil, pcount, toGroups]
  | cons e r ih =>
    obtain ⟨d', ps'⟩ := e
    rw [bufAdd_cons]
    split
    · simp only [pcount_toGroups_cons, List.length_append]; omega
    · simp only [pcount_toGroups_cons, ih]; omega

theorem bufPts_nil (d : DataID) : bufPts d [] = [] := rfl

theorem bufPts_cons (d : DataID) (e : DataID × List Point) (r : List (DataID × List Point)) :
    bufPts d (e :: r) = (if e.1 = d then e.2 else []) ++ bufPts d r := by
  unfold bufPts
  by_cases h : e.1 = d <;> simp [h]

theorem bufPts_of_not_mem (d : DataID) (buf : List (DataID × List Point)) (h : d ∉ buf.map (·.1)) :
    bufPts d buf = [] := by
  induction buf with
  | nil => rfl
  | cons e r ih =>
    simp only [List.map_cons, List.mem_cons, not_or] at h
    rw [bufPts_cons, if_neg (fun hc => h.1 hc.symm), ih h.2]
    rfl

theorem bufPts_bufAdd_ne (buf : List (DataID × List Point)) (d d' : DataID) (ps : List Point) (hne : d' ≠ d) :
    bufPts d (bufAdd buf d' ps) = bufPts d buf := by
  induction buf with
  | nil => rw [bufAdd_nil, bufPts_cons, if_neg hne]; rfl
  | cons e r ih =>
    obtain ⟨d'', ps''⟩ := e
    rw [bufAdd_cons]
    split
    · next h => subst h; rw [bufPts_cons, bufPts_cons, if_neg hne, if_neg hne]
    · rw [bufPts_cons, bufPts_cons, ih]

theorem bufPts_bufAdd_self (buf : List (DataID × List Point)) (d : DataID) (ps : List Point)
    (h : (buf.map (·.1)).Nodup) : bufPts d (bufAdd buf d ps) = bufPts d buf ++ ps := by
  induction buf with
  | nil => rw [bufAdd_nil, bufPts_cons, if_pos rfl]; simp [bufPts_nil]
  | cons e r ih =>
    obtain ⟨d', ps'⟩ := e
    simp only [List.map_cons, List.nodup_cons] at h
    rw [bufAdd_cons]
    split
    · next heq =>
      subst heq
      rw [bufPts_cons, bufPts_cons, if_pos rfl, if_pos rfl, bufPts_of_not_mem _ _ h.1]
      simp
    · next hne =>
      rw [bufPts_cons, bufPts_cons, if_neg hne, ih h.2]
      simp

theorem pointsOf_toGroups (d : DataID) (buf : List (DataID × List Point)) :
    pointsOf d (toGroups buf) = bufPts d buf := by
  induction buf with
  | nil => rfl
  | cons e r ih =>
    rw [bufPts_cons, ← ih]
    unfold pointsOf toGroups
    by_cases h : e.1 = d <;> simp [h]

theorem hookPts_append (d : DataID) (a b : List (Nat × Groups)) : hookPts d (a ++ b) = hookPts d a ++ hookPts d b := by
  simp [hookPts]

theorem hookPts_single (d : DataID) (q : Nat) (gs : Groups) : hookPts d [(q, gs)] = pointsOf d gs := by
  simp [hookPts]

theorem toGroups_ne_nil (buf : List (DataID × List Point)) (h : buf ≠ []) : toGroups buf ≠ [] := by
  cases buf with
  | nil => exact absurd rfl h
  | cons e r => simp [toGroups]

theorem toGroups_ids (buf : List (DataID × List Point)) : (toGroups buf).map (·.id) = buf.map (·.1) := by
  simp [toGroups]

/-! ### cut, accept -/

theorem cut_nil (s : St) (h : s.buf = []) : cut s = s := by
  simp [cut, h]

theorem cut_cons (s : St) (h : s.buf ≠ []) :
    cut s = { s with buf := [], bufPayload := 0, bufCount := 0, seq := s.seq + 1, total := s.total + s.bufCount,
                     sent := s.sent ++ [⟨s.seq + 1, (toWire s.rev s.buf).1, (toWire s.rev s.buf).2⟩],
                     sendHook := s.sendHook ++ [(s.seq + 1, toGroups s.buf)],
                     store := alPut (s.seq + 1) (toGroups s.buf) s.store, waiters := s.waiters ++ [s.seq + 1] } := by
  simp [cut, h]

/-- the buffer part of an accept (before the policy decides whether to cut) -/
def addBuf (s : St) (d : DataID) (ps : List Point) : St :=
  { s with buf := bufAdd s.buf d ps, bufPayload := s.bufPayload + payloadLen ps, bufCount := s.bufCount + ps.length }

theorem accept_eq (s : St) (d : DataID) (ps : List Point) :
    accept s d ps = if s.policy.isFlush (s.bufPayload + payloadLen ps) then cut (addBuf s d ps) else addBuf s d ps := rfl

theorem cut_buf (s : St) : (cut s).buf = [] := by
  by_cases h : s.buf = []
  · rw [cut_nil s h, h]
  · rw [cut_cons s h]

theorem cut_policy (s : St) : (cut s).policy = s.policy := by
  by_cases h : s.buf = []
  · rw [cut_nil s h]
  · rw [cut_cons s h]

theorem cut_rev (s : St) : (cut s).rev = s.rev := by
  by_cases h : s.buf = []
  · rw [cut_nil s h]
  · rw [cut_cons s h]

theorem cut_ackHook (s : St) : (cut s).ackHook = s.ackHook := by
  by_cases h : s.buf = []
  · rw [cut_nil s h]
  · rw [cut_cons s h]

/-! ### ack: the frame -/

theorem result_frame (s : St) (q c : Nat) :
    ∃ st wa, result s q c = { s with store := st, waiters := wa, ackHook := s.ackHook ++ [(q, c)] } := by
  simp only [result]
  split
  · exact ⟨_, _, rfl⟩
  · exact ⟨_, _, rfl⟩

theorem results_frame (rs : List (Nat × Nat)) : ∀ s : St,
    ∃ st wa, rs.foldl (fun st r => result st r.1 r.2) s = { s with store := st, waiters := wa, ackHook := s.ackHook ++ rs } := by
  induction rs with
  | nil => intro s; exact ⟨s.store, s.waiters, by simp⟩
  | cons r rs ih =>
    intro s
    rw [List.foldl_cons]
    obtain ⟨st, wa, h⟩ := result_frame s r.1 r.2
    obtain ⟨st', wa', h'⟩ := ih (result s r.1 r.2)
    rw [h', h]
    exact ⟨st', wa', by simp⟩

theorem ack_frame (s : St) (rs : List (Nat × Nat)) (als : List (Nat × DataID)) :
    ∃ st wa, ack s rs als = { s with rev := learn s.rev als, store := st, waiters := wa, ackHook := s.ackHook ++ rs } := by
  unfold ack
  obtain ⟨st, wa, h⟩ := results_frame rs { s with rev := learn s.rev als }
  exact ⟨st, wa, h⟩

/-! ### induction principles over steps and runs -/

theorem step_ind {P : St → Prop} (hadd : ∀ s d ps, P s → P (addBuf s d ps)) (hcut : ∀ s, P s → P (cut s))
    (hack : ∀ s rs als, P s → P (ack s rs als)) (hclose : ∀ s, P s → P (closeRequest s))
    (s : St) (e : Ev) (h : P s) : P (step s e) := by
  cases e with
  | accept d ps =>
    show P (accept s d ps)
    rw [accept_eq]
    split
    · exact hcut _ (hadd _ _ _ h)
    · exact hadd _ _ _ h
  | tick =>
    show P (tick s)
    unfold tick
    split
    · exact hcut _ h
    · exact h
  | flush => exact hcut _ h
  | ack rs als => exact hack _ _ _ h
  | closeFlush => exact hcut _ h
  | closeRequest => exact hclose _ h

theorem run_ind {P : St → Prop} (hadd : ∀ s d ps, P s → P (addBuf s d ps)) (hcut : ∀ s, P s → P (cut s))
    (hack : ∀ s rs als, P s → P (ack s rs als)) (hclose : ∀ s, P s → P (closeRequest s)) :
    ∀ (evs : List Ev) (s : St), P s → P (run s evs) := by
  intro evs
  induction evs with
  | nil => intro s h; exact h
  | cons e r ih => intro s h; rw [run_cons]; exact ih _ (step_ind hadd hcut hack hclose s e h)

/-! ### alias substitution -/

def wireOf (rev : List (DataID × Nat)) (e : DataID × List Point) : WGroup :=
  match revGet rev e.1 with
  | some a => ⟨.alias a, e.2⟩
  | none => ⟨.id e.1, e.2⟩

theorem toWire_fst (rev : List (DataID × Nat)) (buf : List (DataID × List Point)) :
    (toWire rev buf).1 = buf.map (wireOf rev) := rfl

theorem toWire_snd (rev : List (DataID × Nat)) (buf : List (DataID × List Point)) :
    (toWire rev buf).2 = (buf.filter fun e => (revGet rev e.1).isNone).map (·.1) := rfl

theorem toWire_ids_nodup (rev : List (DataID × Nat)) (buf : List (DataID × List Point))
    (h : (buf.map (·.1)).Nodup) : (toWire rev buf).2.Nodup := by
  rw [toWire_snd]
  exact List.Nodup.sublist (List.Sublist.map _ List.filter_sublist) h

theorem toWire_ids_mem (rev : List (DataID × Nat)) (buf : List (DataID × List Point)) (d : DataID) :
    d ∈ (toWire rev buf).2 ↔ ∃ g ∈ (toWire rev buf).1, g.ref = .id d := by
  rw [toWire_fst, toWire_snd]
  simp only [List.mem_map, List.mem_filter]
  constructor
  · rintro ⟨e, ⟨he, hn⟩, rfl⟩
    refine ⟨wireOf rev e, ⟨e, he, rfl⟩, ?_⟩
    unfold wireOf
    cases h : revGet rev e.1 with
    | none => rfl
    | some a => rw [h] at hn; cases hn
  · rintro ⟨g, ⟨e, he, rfl⟩, hg⟩
    unfold wireOf at hg
    cases h : revGet rev e.1 with
    | none =>
      rw [h] at hg
      simp only [IdOrAlias.id.injEq] at hg
      exact ⟨e, ⟨he, by rw [h]; rfl⟩, hg⟩
    | some a => rw [h] at hg; cases hg

/-! ### the global invariant -/

structure Inv (s : St) : Prop where
  nodup : (s.buf.map (·.1)).Nodup
  cnt : s.bufCount = pcount (toGroups s.buf)
  len : s.sent.length = s.seq
  seqs : s.sent.map (·.seq) = List.range' 1 s.seq
  hook : s.sendHook.map (·.1) = s.sent.map (·.seq)
  total : s.total = (s.sendHook.map (fun e => pcount e.2)).sum
  ids : ∀ c ∈ s.sent, c.dataIDs.Nodup ∧ ∀ d, d ∈ c.dataIDs ↔ ∃ g ∈ c.groups, g.ref = .id d
  groups : ∀ e ∈ s.sendHook, e.2 ≠ [] ∧ (e.2.map (·.id)).Nodup

theorem Inv_init (p : Policy) (rev : List (DataID × Nat)) : Inv { policy := p, rev := rev } := by
  constructor <;> simp [pcount, toGroups]

theorem Inv_addBuf (s : St) (d : DataID) (ps : List Point) (h : Inv s) : Inv (addBuf s d ps) := by
  refine ⟨nodup_keys_bufAdd _ _ _ h.nodup, ?_, h.len, h.seqs, h.hook, h.total, h.ids, h.groups⟩
  show s.bufCount + ps.length = pcount (toGroups (bufAdd s.buf d ps))
  rw [pcount_bufAdd, h.cnt]

theorem Inv_cut (s : St) (h : Inv s) : Inv (cut s) := by
  by_cases hb : s.buf = []
  · rw [cut_nil s hb]; exact h
  · rw [cut_cons s hb]
    constructor
    · exact List.nodup_nil
    · rfl
    · simp [h.len]
    · simp only [List.map_append, List.map_cons, List.map_nil, h.seqs, List.range'_concat]
      simp [Nat.add_comm]
    · simp only [List.map_append, List.map_cons, List.map_nil, h.hook]
    · simp only [List.map_append, List.map_cons, List.map_nil, List.sum_append, List.sum_cons, List.sum_nil, h.total, h.cnt]
      omega
    · intro c hc
      simp only [List.mem_append, List.mem_singleton] at hc
      rcases hc with hc | hc
      · exact h.ids c hc
      · subst hc
        exact ⟨toWire_ids_nodup _ _ h.nodup, toWire_ids_mem _ _⟩
    · intro e he
      simp only [List.mem_append, List.mem_singleton] at he
      rcases he with he | he
      · exact h.groups e he
      · subst he
        refine ⟨toGroups_ne_nil _ hb, ?_⟩
        show ((toGroups s.buf).map (·.id)).Nodup
        rw [toGroups_ids]; exact h.nodup

theorem Inv_ack (s : St) (rs : List (Nat × Nat)) (als : List (Nat × DataID)) (h : Inv s) : Inv (ack s rs als) := by
  obtain ⟨st, wa, h'⟩ := ack_frame s rs als
  rw [h']
  exact ⟨h.nodup, h.cnt, h.len, h.seqs, h.hook, h.total, h.ids, h.groups⟩

theorem Inv_closeRequest (s : St) (h : Inv s) : Inv (closeRequest s) :=
  ⟨h.nodup, h.cnt, h.len, h.seqs, h.hook, h.total, h.ids, h.groups⟩

theorem Inv_step (s : St) (e : Ev) (h : Inv s) : Inv (step s e) :=
  step_ind Inv_addBuf Inv_cut Inv_ack Inv_closeRequest s e h

theorem Inv_run (evs : List Ev) (s : St) (h : Inv s) : Inv (run s evs) :=
  run_ind Inv_addBuf Inv_cut Inv_ack Inv_closeRequest evs s h

theorem Inv_run_init (p : Policy) (rev : List (DataID × Nat)) (evs : List Ev) :
    Inv (run { policy := p, rev := rev } evs) := Inv_run evs _ (Inv_init p rev)

/-! ### conservation, per step -/

/-- points written under `d` by one event -/
def wr (d : DataID) : Ev → List Point
  | .accept d' ps => if d' = d then ps else []
  | _ => []

/-- `cutPoints d s ++ bufPoints d s` -/
def held (d : DataID) (s : St) : List Point := hookPts d s.sendHook ++ bufPts d s.buf

theorem held_cut (d : DataID) (s : St) : held d (cut s) = held d s := by
  by_cases hb : s.buf = []
  · rw [cut_nil s hb]
  · rw [cut_cons s hb]
    show hookPts d (s.sendHook ++ [(s.seq + 1, toGroups s.buf)]) ++ bufPts d [] = hookPts d s.sendHook ++ bufPts d s.buf
    rw [hookPts_append, hookPts_single, pointsOf_toGroups, bufPts_nil, List.append_nil]

theorem held_addBuf (d : DataID) (s : St) (d' : DataID) (ps : List Point) (h : (s.buf.map (·.1)).Nodup) :
    held d (addBuf s d' ps) = held d s ++ (if d' = d then ps else []) := by
  show hookPts d s.sendHook ++ bufPts d (bufAdd s.buf d' ps) = hookPts d s.sendHook ++ bufPts d s.buf ++ _
  by_cases hd : d' = d
  · subst hd; rw [bufPts_bufAdd_self _ _ _ h, if_pos rfl, List.append_assoc]
  · rw [bufPts_bufAdd_ne _ _ _ _ hd, if_neg hd, List.append_nil]

theorem held_ack (d : DataID) (s : St) (rs : List (Nat × Nat)) (als : List (Nat × DataID)) :
    held d (ack s rs als) = held d s := by
  obtain ⟨st, wa, h'⟩ := ack_frame s rs als
  rw [h']; rfl

theorem held_step (d : DataID) (s : St) (e : Ev) (h : (s.buf.map (·.1)).Nodup) :
    held d (step s e) = held d s ++ wr d e := by
  cases e with
  | accept d' ps =>
    show held d (accept s d' ps) = held d s ++ (if d' = d then ps else [])
    rw [accept_eq]
    split
    · rw [held_cut, held_addBuf _ _ _ _ h]
    · rw [held_addBuf _ _ _ _ h]
  | tick =>
    show held d (tick s) = held d s ++ []
    unfold tick
    split
    · rw [held_cut, List.append_nil]
    · rw [List.append_nil]
  | flush => show held d (cut s) = held d s ++ []; rw [held_cut, List.append_nil]
  | ack rs als => show held d (ack s rs als) = held d s ++ []; rw [held_ack, List.append_nil]
  | closeFlush => show held d (cut s) = held d s ++ []; rw [held_cut, List.append_nil]
  | closeRequest => show held d s = held d s ++ []; rw [List.append_nil]

theorem held_run (d : DataID) : ∀ (evs : List Ev) (s : St), Inv s →
    held d (run s evs) = held d s ++ evs.flatMap (wr d) := by
  intro evs
  induction evs with
  | nil => intro s _; simp [run_nil]
  | cons e r ih =>
    intro s h
    rw [run_cons, ih _ (Inv_step s e h), held_step d s e h.nodup, List.flatMap_cons, List.append_assoc]

/-! ### counters, per step -/

def acc : Ev → Nat
  | .accept _ ps => ps.length
  | _ => 0

theorem count_cut (s : St) : (cut s).total + (cut s).bufCount = s.total + s.bufCount := by
  by_cases hb : s.buf = []
  · rw [cut_nil s hb]
  · rw [cut_cons s hb]; rfl

theorem count_step (s : St) (e : Ev) : (step s e).total + (step s e).bufCount = s.total + s.bufCount + acc e := by
  cases e with
  | accept d ps =>
    show (accept s d ps).total + (accept s d ps).bufCount = s.total + s.bufCount + ps.length
    rw [accept_eq]
    split
    · rw [count_cut]; show s.total + (s.bufCount + ps.length) = _; omega
    · show s.total + (s.bufCount + ps.length) = _; omega
  | tick =>
    show (tick s).total + (tick s).bufCount = s.total + s.bufCount + 0
    unfold tick
    split
    · rw [count_cut]; rfl
    · rfl
  | flush => exact count_cut s
  | ack rs als =>
    show (ack s rs als).total + (ack s rs als).bufCount = s.total + s.bufCount + 0
    obtain ⟨st, wa, h'⟩ := ack_frame s rs als
    rw [h']; rfl
  | closeFlush => exact count_cut s
  | closeRequest => rfl

theorem count_run : ∀ (evs : List Ev) (s : St),
    (run s evs).total + (run s evs).bufCount = s.total + s.bufCount + (evs.map acc).sum := by
  intro evs
  induction evs with
  | nil => intro s; simp [run_nil]
  | cons e r ih =>
    intro s
    rw [run_cons, ih, count_step, List.map_cons, List.sum_cons]; omega

/-! ### the ack hook -/

def res : Ev → List (Nat × Nat)
  | .ack rs _ => rs
  | _ => []

theorem ackHook_step (s : St) (e : Ev) : (step s e).ackHook = s.ackHook ++ res e := by
  cases e with
  | accept d ps =>
    show (accept s d ps).ackHook = s.ackHook ++ []
    rw [accept_eq, List.append_nil]
    split
    · rw [cut_ackHook]; rfl
    · rfl
  | tick =>
    show (tick s).ackHook = s.ackHook ++ []
    unfold tick
    rw [List.append_nil]
    split
    · rw [cut_ackHook]
    · rfl
  | flush => show (cut s).ackHook = s.ackHook ++ []; rw [cut_ackHook, List.append_nil]
  | ack rs als =>
    show (ack s rs als).ackHook = s.ackHook ++ rs
    obtain ⟨st, wa, h'⟩ := ack_frame s rs als
    rw [h']
  | closeFlush => show (cut s).ackHook = s.ackHook ++ []; rw [cut_ackHook, List.append_nil]
  | closeRequest => show s.ackHook = s.ackHook ++ []; rw [List.append_nil]

theorem ackHook_run : ∀ (evs : List Ev) (s : St), (run s evs).ackHook = s.ackHook ++ evs.flatMap res := by
  intro evs
  induction evs with
  | nil => intro s; simp [run_nil]
  | cons e r ih => intro s; rw [run_cons, ih, ackHook_step, List.flatMap_cons, List.append_assoc]

/-! ### the store and the waiters -/

structure SInv (s : St) : Prop where
  w : ∀ q, q ∈ s.waiters ↔ (alGet q s.store).isSome
  st : ∀ q, (alGet q s.store).isSome ↔ (q ∈ s.sent.map (·.seq) ∧ q ∉ s.ackHook.map (·.1))
  ak : ∀ x ∈ s.ackHook, x.1 ≤ s.seq

theorem SInv_init (p : Policy) (rev : List (DataID × Nat)) : SInv { policy := p, rev := rev } := by
  constructor <;> simp [alGet]

theorem SInv_addBuf (s : St) (d : DataID) (ps : List Point) (h : SInv s) : SInv (addBuf s d ps) :=
  ⟨h.w, h.st, h.ak⟩

theorem SInv_closeRequest (s : St) (h : SInv s) : SInv (closeRequest s) :=
  ⟨h.w, h.st, h.ak⟩

theorem SInv_cut (s : St) (h : SInv s) : SInv (cut s) := by
  by_cases hb : s.buf = []
  · rw [cut_nil s hb]; exact h
  · rw [cut_cons s hb]
    constructor
    · intro q
      show q ∈ s.waiters ++ [s.seq + 1] ↔ (alGet q (alPut (s.seq + 1) (toGroups s.buf) s.store)).isSome
      by_cases hq : q = s.seq + 1
      · subst hq; simp [alGet_alPut_self]
      · rw [alGet_alPut_ne hq, ← h.w]; simp [hq]
    · intro q
      show (alGet q (alPut (s.seq + 1) (toGroups s.buf) s.store)).isSome ↔
        (q ∈ (s.sent ++ [(⟨s.seq + 1, (toWire s.rev s.buf).1, (toWire s.rev s.buf).2⟩ : Chunk)]).map (·.seq) ∧ q ∉ s.ackHook.map (·.1))
      by_cases hq : q = s.seq + 1
      · subst hq
        have hn : s.seq + 1 ∉ s.ackHook.map (·.1) := by
          intro hm
          obtain ⟨x, hx, hx'⟩ := List.mem_map.1 hm
          have := h.ak x hx
          omega
        simp [alGet_alPut_self, hn]
      · rw [alGet_alPut_ne hq, h.st]; simp [hq]
    · intro x hx
      exact Nat.le_succ_of_le (h.ak x hx)

theorem SInv_result (s : St) (q c : Nat) (hq : q ≤ s.seq) (h : SInv s) : SInv (result s q c) := by
  simp only [result]
  split
  · constructor
    · intro q'
      show q' ∈ s.waiters.filter (· ≠ q) ↔ (alGet q' (alDel q s.store)).isSome
      by_cases hq' : q' = q
      · subst hq'; simp [alGet_alDel_self]
      · rw [alGet_alDel_ne hq', ← h.w]; simp [hq']
    · intro q'
      show (alGet q' (alDel q s.store)).isSome ↔ (q' ∈ s.sent.map (·.seq) ∧ q' ∉ (s.ackHook ++ [(q, c)]).map (·.1))
      by_cases hq' : q' = q
      · subst hq'; simp [alGet_alDel_self]
      · rw [alGet_alDel_ne hq', h.st]; simp [hq']
    · intro x hx
      show x.1 ≤ s.seq
      rcases List.mem_append.1 hx with hx | hx
      · exact h.ak x hx
      · rw [List.mem_singleton.1 hx]; exact hq
  · next hc =>
    have hc' : q ∉ s.waiters := by simpa using hc
    constructor
    · exact h.w
    · intro q'
      show (alGet q' s.store).isSome ↔ (q' ∈ s.sent.map (·.seq) ∧ q' ∉ (s.ackHook ++ [(q, c)]).map (·.1))
      by_cases hq' : q' = q
      · subst hq'
        rw [← h.w]; simp [hc']
      · rw [h.st]; simp [hq']
    · intro x hx
      show x.1 ≤ s.seq
      rcases List.mem_append.1 hx with hx | hx
      · exact h.ak x hx
      · rw [List.mem_singleton.1 hx]; exact hq

theorem result_seq (s : St) (q c : Nat) : (result s q c).seq = s.seq := by
  obtain ⟨st, wa, h⟩ := result_frame s q c
  rw [h]

theorem SInv_results (rs : List (Nat × Nat)) : ∀ (s : St), (∀ x ∈ rs, x.1 ≤ s.seq) → SInv s →
    SInv (rs.foldl (fun st r => result st r.1 r.2) s) := by
  induction rs with
  | nil => intro s _ h; exact h
  | cons r rs ih =>
    intro s hk h
    rw [List.foldl_cons]
    refine ih _ ?_ (SInv_result s r.1 r.2 (hk r List.mem_cons_self) h)
    intro x hx
    rw [result_seq]
    exact hk x (List.mem_cons_of_mem _ hx)

theorem SInv_ack (s : St) (rs : List (Nat × Nat)) (als : List (Nat × DataID)) (hk : ∀ x ∈ rs, x.1 ≤ s.seq)
    (h : SInv s) : SInv (ack s rs als) := by
  unfold ack
  exact SInv_results rs _ hk ⟨h.w, h.st, h.ak⟩

theorem SInv_step (s : St) (e : Ev) (hk : ∀ x ∈ res e, x.1 ≤ s.seq) (h : SInv s) : SInv (step s e) := by
  cases e with
  | accept d ps =>
    show SInv (accept s d ps)
    rw [accept_eq]
    split
    · exact SInv_cut _ (SInv_addBuf _ _ _ h)
    · exact SInv_addBuf _ _ _ h
  | tick =>
    show SInv (tick s)
    unfold tick
    split
    · exact SInv_cut _ h
    · exact h
  | flush => exact SInv_cut _ h
  | ack rs als => exact SInv_ack s rs als hk h
  | closeFlush => exact SInv_cut _ h
  | closeRequest => exact SInv_closeRequest _ h

/-- every result of every ack refers to a sequence number already issued when the ack arrives -/
def known (s : St) : List Ev → Bool
  | [] => true
  | e :: r => (res e).all (fun x => decide (x.1 ≤ s.seq)) && known (step s e) r

theorem SInv_run : ∀ (evs : List Ev) (s : St), known s evs = true → SInv s → SInv (run s evs) := by
  intro evs
  induction evs with
  | nil => intro s _ h; exact h
  | cons e r ih =>
    intro s hk h
    simp only [known, Bool.and_eq_true, List.all_eq_true, decide_eq_true_eq] at hk
    rw [run_cons]
    exact ih _ hk.2 (SInv_step s e hk.1 h)

/-! ### alias round trip -/

def RevSane (rev : List (DataID × Nat)) : Prop := ∀ e ∈ rev, ∀ e' ∈ rev, e.2 = e'.2 → e.1 = e'.1

def Matches (rev : List (DataID × Nat)) (c : Chunk) (h : Nat × Groups) : Prop :=
  ∀ rev', (∀ e ∈ rev, e ∈ rev') → RevSane rev' → c.groups.map (resolve rev') = h.2.map some

theorem revGet_some (rev : List (DataID × Nat)) (d : DataID) (a : Nat) (h : revGet rev d = some a) : (d, a) ∈ rev := by
  unfold revGet at h
  cases hf : rev.find? (·.1 = d) with
  | none => rw [hf] at h; cases h
  | some x =>
    rw [hf] at h
    simp only [Option.map_some, Option.some.injEq] at h
    have h1 := List.find?_some hf
    have h2 := List.mem_of_find?_eq_some hf
    simp only [decide_eq_true_eq] at h1
    obtain ⟨x1, x2⟩ := x
    simp only at h h1
    subst h h1
    exact h2

theorem resolve_wireOf (rev rev' : List (DataID × Nat)) (e : DataID × List Point)
    (hsub : ∀ x ∈ rev, x ∈ rev') (hs : RevSane rev') : resolve rev' (wireOf rev e) = some ⟨e.1, e.2⟩ := by
  unfold wireOf
  cases h : revGet rev e.1 with
  | none => rfl
  | some a =>
    have hm := hsub _ (revGet_some rev e.1 a h)
    show (rev'.find? (·.2 = a)).map (fun x => (⟨x.1, e.2⟩ : Group)) = some ⟨e.1, e.2⟩
    cases hf : rev'.find? (·.2 = a) with
    | none =>
      have := List.find?_eq_none.1 hf _ hm
      simp at this
    | some y =>
      have h1 := List.find?_some hf
      have h2 := List.mem_of_find?_eq_some hf
      simp only [decide_eq_true_eq] at h1
      have := hs y h2 (e.1, a) hm h1
      simp only at this
      simp [this]

theorem Matches_cut (rev : List (DataID × Nat)) (buf : List (DataID × List Point)) (q : Nat) :
    Matches rev ⟨q, (toWire rev buf).1, (toWire rev buf).2⟩ (q, toGroups buf) := by
  intro rev' hsub hs
  show ((toWire rev buf).1).map (resolve rev') = (toGroups buf).map some
  rw [toWire_fst]
  unfold toGroups
  rw [List.map_map, List.map_map]
  apply List.map_congr_left
  intro e _
  exact resolve_wireOf rev rev' e hsub hs

theorem Matches_mono (rev rev2 : List (DataID × Nat)) (c : Chunk) (h : Nat × Groups) (hsub : ∀ e ∈ rev, e ∈ rev2)
    (hm : Matches rev c h) : Matches rev2 c h :=
  fun rev' hsub' hs => hm rev' (fun e he => hsub' e (hsub e he)) hs

theorem learn_nil (rev : List (DataID × Nat)) : learn rev [] = rev := rfl
theorem learn_cons (rev : List (DataID × Nat)) (a : Nat) (d : DataID) (r : List (Nat × DataID)) :
    learn rev ((a, d) :: r) = if (revGet rev d).isSome then learn rev r else learn (rev ++ [(d, a)]) r := rfl

theorem learn_subset (als : List (Nat × DataID)) : ∀ (rev : List (DataID × Nat)), ∀ e ∈ rev, e ∈ learn rev als := by
  induction als with
  | nil => intro rev e he; exact he
  | cons x r ih =>
    obtain ⟨a, d⟩ := x
    intro rev e he
    rw [learn_cons]
    split
    · exact ih rev e he
    · exact ih _ e (List.mem_append_left _ he)

theorem learn_prov (als : List (Nat × DataID)) : ∀ (rev : List (DataID × Nat)),
    ∀ e ∈ learn rev als, e ∈ rev ∨ (e.2, e.1) ∈ als := by
  induction als with
  | nil => intro rev e he; exact Or.inl he
  | cons x r ih =>
    obtain ⟨a, d⟩ := x
    intro rev e he
    rw [learn_cons] at he
    split at he
    · rcases ih rev e he with h | h
      · exact Or.inl h
      · exact Or.inr (List.mem_cons_of_mem _ h)
    · rcases ih _ e he with h | h
      · rcases List.mem_append.1 h with h | h
        · exact Or.inl h
        · rw [List.mem_singleton.1 h]; exact Or.inr List.mem_cons_self
      · exact Or.inr (List.mem_cons_of_mem _ h)

structure WInv (s : St) : Prop where
  len : s.sent.length = s.sendHook.length
  m : ∀ x ∈ s.sent.zip s.sendHook, Matches s.rev x.1 x.2

theorem WInv_init (p : Policy) (rev : List (DataID × Nat)) : WInv { policy := p, rev := rev } := by
  constructor <;> simp

theorem WInv_addBuf (s : St) (d : DataID) (ps : List Point) (h : WInv s) : WInv (addBuf s d ps) := ⟨h.len, h.m⟩

theorem WInv_closeRequest (s : St) (h : WInv s) : WInv (closeRequest s) := ⟨h.len, h.m⟩

theorem WInv_cut (s : St) (h : WInv s) : WInv (cut s) := by
  by_cases hb : s.buf = []
  · rw [cut_nil s hb]; exact h
  · rw [cut_cons s hb]
    constructor
    · simp [h.len]
    · intro x hx
      simp only [List.zip_append h.len, List.mem_append, List.zip_cons_cons, List.zip_nil_right, List.mem_singleton] at hx
      rcases hx with hx | hx
      · exact h.m x hx
      · subst hx; exact Matches_cut _ _ _

theorem WInv_ack (s : St) (rs : List (Nat × Nat)) (als : List (Nat × DataID)) (h : WInv s) : WInv (ack s rs als) := by
  obtain ⟨st, wa, h'⟩ := ack_frame s rs als
  rw [h']
  exact ⟨h.len, fun x hx => Matches_mono _ _ _ _ (learn_subset als s.rev) (h.m x hx)⟩

theorem WInv_run (evs : List Ev) (s : St) (h : WInv s) : WInv (run s evs) :=
  run_ind WInv_addBuf WInv_cut WInv_ack WInv_closeRequest evs s h

theorem WInv_get (s : St) (h : WInv s) (hs : RevSane s.rev) (i : Nat) (hi : i < s.sent.length) (hj : i < s.sendHook.length) :
    s.sent[i].groups.map (resolve s.rev) = s.sendHook[i].2.map some := by
  have hl : i < (s.sent.zip s.sendHook).length := by rw [List.length_zip]; omega
  have hm : (s.sent[i], s.sendHook[i]) ∈ s.sent.zip s.sendHook := by
    rw [← List.getElem_zip (h := hl)]; exact List.getElem_mem hl
  exact h.m _ hm s.rev (fun e he => he) hs

/-- alias announcements of one event -/
def ann : Ev → List (Nat × DataID)
  | .ack _ als => als
  | _ => []

theorem rev_step (s : St) (e : Ev) : ∀ x ∈ (step s e).rev, x ∈ s.rev ∨ (x.2, x.1) ∈ ann e := by
  cases e with
  | accept d ps =>
    intro x hx
    have : (accept s d ps).rev = s.rev := by
      rw [accept_eq]; split
      · rw [cut_rev]; rfl
      · rfl
    exact Or.inl (this ▸ hx)
  | tick =>
    intro x hx
    have : (tick s).rev = s.rev := by
      unfold tick; split
      · rw [cut_rev]
      · rfl
    exact Or.inl (this ▸ hx)
  | flush => intro x hx; exact Or.inl (cut_rev s ▸ hx)
  | ack rs als =>
    intro x hx
    obtain ⟨st, wa, h'⟩ := ack_frame s rs als
    have : (ack s rs als).rev = learn s.rev als := by rw [h']
    exact learn_prov als s.rev x (this ▸ hx)
  | closeFlush => intro x hx; exact Or.inl (cut_rev s ▸ hx)
  | closeRequest => intro x hx; exact Or.inl hx

theorem rev_run : ∀ (evs : List Ev) (s : St), ∀ x ∈ (run s evs).rev, x ∈ s.rev ∨ (x.2, x.1) ∈ evs.flatMap ann := by
  intro evs
  induction evs with
  | nil => intro s x hx; exact Or.inl hx
  | cons e r ih =>
    intro s x hx
    rw [run_cons] at hx
    rw [List.flatMap_cons, List.mem_append]
    rcases ih _ x hx with h | h
    · rcases rev_step s e x h with h | h
      · exact Or.inl h
      · exact Or.inr (Or.inl h)
    · exact Or.inr (Or.inr h)

/-! ### flush policies -/

theorem accept_cut (s : St) (d : DataID) (ps : List Point) (h : s.policy.isFlush (s.bufPayload + payloadLen ps) = true) :
    (accept s d ps).buf = [] ∧ (accept s d ps).sent.length = s.sent.length + 1 ∧
    (accept s d ps).sendHook.getLast? = some (s.seq + 1, toGroups (bufAdd s.buf d ps)) := by
  rw [accept_eq, if_pos h]
  have hb : (addBuf s d ps).buf ≠ [] := bufAdd_ne_nil _ _ _
  rw [cut_cons _ hb]
  refine ⟨rfl, ?_, ?_⟩
  · show (s.sent ++ [_]).length = _; simp
  · show (s.sendHook ++ [(s.seq + 1, toGroups (bufAdd s.buf d ps))]).getLast? = _; simp

theorem accept_nocut (s : St) (d : DataID) (ps : List Point) (h : s.policy.isFlush (s.bufPayload + payloadLen ps) = false) :
    (accept s d ps).sent = s.sent ∧ (accept s d ps).buf = bufAdd s.buf d ps := by
  rw [accept_eq, h]
  exact ⟨rfl, rfl⟩

theorem accept_policy (s : St) (d : DataID) (ps : List Point) : (accept s d ps).policy = s.policy := by
  rw [accept_eq]; split
  · rw [cut_policy]; rfl
  · rfl

/-- the event is neither Flush nor the final flush of Close -/
def nfc : Ev → Bool
  | .flush => false
  | .closeFlush => false
  | _ => true

theorem none_step (s : St) (e : Ev) (hp : s.policy = .none) (he : nfc e = true) :
    (step s e).policy = .none ∧ (step s e).sent = s.sent := by
  cases e with
  | accept d ps =>
    refine ⟨(accept_policy s d ps).trans hp, ?_⟩
    have : s.policy.isFlush (s.bufPayload + payloadLen ps) = false := by rw [hp]; rfl
    exact (accept_nocut s d ps this).1
  | tick =>
    have : tick s = s := by unfold tick; rw [hp]; rfl
    show (tick s).policy = .none ∧ (tick s).sent = s.sent
    rw [this]; exact ⟨hp, rfl⟩
  | flush => cases he
  | ack rs als =>
    obtain ⟨st, wa, h'⟩ := ack_frame s rs als
    show (ack s rs als).policy = .none ∧ (ack s rs als).sent = s.sent
    rw [h']; exact ⟨hp, rfl⟩
  | closeFlush => cases he
  | closeRequest => exact ⟨hp, rfl⟩

theorem none_run : ∀ (evs : List Ev) (s : St), s.policy = .none → evs.all nfc = true → (run s evs).sent = s.sent := by
  intro evs
  induction evs with
  | nil => intro s _ _; rfl
  | cons e r ih =>
    intro s hp he
    simp only [List.all_cons, Bool.and_eq_true] at he
    obtain ⟨h1, h2⟩ := none_step s e hp he.1
    rw [run_cons, ih _ h1 he.2, h2]

theorem imm_step (s : St) (e : Ev) (hp : s.policy = .immediate) (hb : s.buf = []) :
    (step s e).policy = .immediate ∧ (step s e).buf = [] := by
  cases e with
  | accept d ps =>
    refine ⟨(accept_policy s d ps).trans hp, ?_⟩
    have : s.policy.isFlush (s.bufPayload + payloadLen ps) = true := by rw [hp]; rfl
    exact (accept_cut s d ps this).1
  | tick =>
    have : tick s = s := by unfold tick; rw [hp]; rfl
    show (tick s).policy = .immediate ∧ (tick s).buf = []
    rw [this]; exact ⟨hp, hb⟩
  | flush => exact ⟨(cut_policy s).trans hp, cut_buf s⟩
  | ack rs als =>
    obtain ⟨st, wa, h'⟩ := ack_frame s rs als
    show (ack s rs als).policy = .immediate ∧ (ack s rs als).buf = []
    rw [h']; exact ⟨hp, hb⟩
  | closeFlush => exact ⟨(cut_policy s).trans hp, cut_buf s⟩
  | closeRequest => exact ⟨hp, hb⟩

theorem imm_run : ∀ (evs : List Ev) (s : St), s.policy = .immediate → s.buf = [] →
    (run s evs).policy = .immediate ∧ (run s evs).buf = [] := by
  intro evs
  induction evs with
  | nil => intro s hp hb; exact ⟨hp, hb⟩
  | cons e r ih =>
    intro s hp hb
    obtain ⟨h1, h2⟩ := imm_step s e hp hb
    rw [run_cons]; exact ih _ h1 h2

end Iscp.Up
