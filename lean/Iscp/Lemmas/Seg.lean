import Iscp.Model.Seg
import Iscp.Model.SegSpec
/- helper lemmas for Props/C14.lean -/
namespace Iscp.Seg

/-! ### header -/

theorem rd32_be32 (n : Nat) (h : n < 4294967296) :
    rd32 (n / 16777216 % 256) (n / 65536 % 256) (n / 256 % 256) (n % 256) = n := by
  unfold rd32; omega

theorem rd16_be16 (n : Nat) (h : n < 65536) : rd16 (n / 256 % 256) (n % 256) = n := by
  unfold rd16; omega

theorem header_roundtrip_lem (d : Dg) (hs : d.seq < 4294967296) (hm : d.maxIdx < 65536) (hi : d.idx < 65536) :
    decodeDg d.encode = some d := by
  cases d with
  | mk s mx i p =>
    simp only [Dg.encode, be32, be16, List.cons_append, List.nil_append, decodeDg] at *
    rw [rd32_be32 s hs, rd16_be16 mx hm, rd16_be16 i hi]

theorem header_bytes_lem (d : Dg) : ∀ b ∈ (d.encode.take 8), b < 256 := by
  intro b hb
  simp only [Dg.encode, be32, be16, List.cons_append, List.nil_append, List.take_succ_cons,
    List.take_zero, List.mem_cons, List.not_mem_nil, or_false] at hb
  omega

theorem short_is_malformed_lem (bs : Bytes) (h : bs.length < 8) : decodeDg bs = none := by
  match bs, h with
  | [], _ => rfl
  | [_], _ => rfl
  | [_, _], _ => rfl
  | [_, _, _], _ => rfl
  | [_, _, _, _], _ => rfl
  | [_, _, _, _, _], _ => rfl
  | [_, _, _, _, _, _], _ => rfl
  | [_, _, _, _, _, _, _], _ => rfl
  | _ :: _ :: _ :: _ :: _ :: _ :: _ :: _ :: _, h => simp at h; omega

/-! ### split -/

theorem flatten_segPayload (P : Nat) (m : Bytes) (k : Nat) :
    ∀ n j, j + n = k →
      (((List.range' j (n + 1)).map (segPayload P m k)).flatten) = m.drop (j * P) := by
  intro n
  induction n with
  | zero =>
    intro j hj
    have : j = k := by omega
    subst this
    simp [segPayload]
  | succ n ih =>
    intro j hj
    have hne : j ≠ k := by omega
    rw [List.range'_succ, List.map_cons, List.flatten_cons, ih (j + 1) (by omega)]
    simp only [segPayload, hne, if_false]
    have : (j + 1) * P = j * P + P := by rw [Nat.add_mul, Nat.one_mul]
    rw [this, ← List.drop_drop, List.take_append_drop]

theorem segments_some (P seq : Nat) (m : Bytes) (ds : List Dg) (h : segments P seq m = some ds) :
    (m.length ≤ P ∧ ds = [⟨seq, 0, 0, m⟩]) ∨
    (P < m.length ∧ m.length / P ≤ 65535 ∧
      ds = (List.range (m.length / P + 1)).map fun i => ⟨seq, m.length / P, i, segPayload P m (m.length / P) i⟩) := by
  unfold segments at h
  split at h
  · left; simp_all
  · right
    simp only at h
    split at h
    · simp at h
    · simp at h
      refine ⟨by omega, by omega, h.symm⟩

theorem split_concat_lem (P seq : Nat) (m : Bytes) (ds : List Dg)
    (h : segments P seq m = some ds) :
    (ds.map (·.payload)).flatten = m ∧
    ds.length = (if m.length ≤ P then 1 else m.length / P + 1) ∧
    (∀ i, (hi : i < ds.length) → ds[i].idx = i ∧ ds[i].maxIdx = ds.length - 1 ∧ ds[i].seq = seq) := by
  rcases segments_some P seq m ds h with ⟨hle, rfl⟩ | ⟨hlt, hk, rfl⟩
  · simp [hle]
  · have hnle : ¬ m.length ≤ P := by omega
    refine ⟨?_, by simp [hnle], ?_⟩
    · rw [List.map_map]
      have := flatten_segPayload P m (m.length / P) (m.length / P) 0 (by omega)
      simpa [List.range_eq_range', Function.comp_def] using this
    · intro i hi
      simp

theorem oversize_refused_lem (P seq : Nat) (m : Bytes) :
    segments P seq m = none ↔ (P < m.length ∧ 65535 < m.length / P) := by
  unfold segments
  split
  · simp; omega
  · simp only
    split
    · simp; omega
    · simp; omega

theorem sent_headers_fit_lem (P seq : Nat) (m : Bytes) (ds : List Dg)
    (h : segments P seq m = some ds) : ∀ d ∈ ds, d.maxIdx < 65536 ∧ d.idx < 65536 ∧ d.idx ≤ d.maxIdx := by
  rcases segments_some P seq m ds h with ⟨hle, rfl⟩ | ⟨hlt, hk, rfl⟩
  · simp
  · intro d hd
    simp only [List.mem_map, List.mem_range] at hd
    obtain ⟨i, hi, rfl⟩ := hd
    simp only
    omega

/-! ### sequence numbers -/

theorem seqAt_eq (i : Nat) : seqAt i = i % 4294967296 := by
  induction i with
  | zero => simp [seqAt, seqNext, seqInit]
  | succ i ih => simp only [seqAt, seqNext, ih]; omega

theorem seq_fresh_lem : seqAt 0 = 0 ∧
    ∀ i j, i < j → j < i + 4294967296 → seqAt i ≠ seqAt j := by
  refine ⟨by simp [seqAt_eq], ?_⟩
  intro i j h1 h2
  rw [seqAt_eq, seqAt_eq]
  omega

/-! ### association lists -/

theorem alErase_cons_self {α} (k : Nat) (v : α) (r : List (Nat × α)) :
    alErase k ((k, v) :: r) = alErase k r := by
  simp [alErase]

theorem alErase_cons_ne {α} (k k₀ : Nat) (v : α) (r : List (Nat × α)) (h : k₀ ≠ k) :
    alErase k ((k₀, v) :: r) = (k₀, v) :: alErase k r := by
  simp [alErase, h]

theorem alLookup_cons_self {α} (k : Nat) (v : α) (r : List (Nat × α)) :
    alLookup k ((k, v) :: r) = some v := by
  simp [alLookup]

theorem alLookup_cons_ne {α} (k k₀ : Nat) (v : α) (r : List (Nat × α)) (h : k₀ ≠ k) :
    alLookup k ((k₀, v) :: r) = alLookup k r := by
  simp [alLookup, h]

theorem alLookup_erase_self {α} (k : Nat) (l : List (Nat × α)) : alLookup k (alErase k l) = none := by
  induction l with
  | nil => rfl
  | cons e r ih =>
    obtain ⟨k', v⟩ := e
    by_cases h : k' = k
    · subst h; rw [alErase_cons_self]; exact ih
    · rw [alErase_cons_ne _ _ _ _ h, alLookup_cons_ne _ _ _ _ h]; exact ih

theorem alLookup_erase_ne {α} (k k' : Nat) (l : List (Nat × α)) (hne : k' ≠ k) :
    alLookup k' (alErase k l) = alLookup k' l := by
  induction l with
  | nil => rfl
  | cons e r ih =>
    obtain ⟨k₀, v⟩ := e
    by_cases h : k₀ = k
    · subst h
      rw [alErase_cons_self, alLookup_cons_ne _ _ _ _ (Ne.symm hne)]; exact ih
    · rw [alErase_cons_ne _ _ _ _ h]
      by_cases h' : k₀ = k'
      · subst h'; rw [alLookup_cons_self, alLookup_cons_self]
      · rw [alLookup_cons_ne _ _ _ _ h', alLookup_cons_ne _ _ _ _ h']; exact ih

theorem alLookup_insert_self {α} (k : Nat) (v : α) (l : List (Nat × α)) :
    alLookup k (alInsert k v l) = some v := by
  simp [alInsert, alLookup]

theorem alLookup_insert_ne {α} (k k' : Nat) (v : α) (l : List (Nat × α)) (hne : k' ≠ k) :
    alLookup k' (alInsert k v l) = alLookup k' l := by
  have : k ≠ k' := fun h => hne h.symm
  simp [alInsert, alLookup, this, alLookup_erase_ne k k' l hne]

theorem alLookup_mem {α} (k : Nat) (v : α) (l : List (Nat × α)) (h : alLookup k l = some v) :
    (k, v) ∈ l := by
  induction l with
  | nil => simp [alLookup] at h
  | cons e r ih =>
    obtain ⟨k₀, v₀⟩ := e
    by_cases hk : k₀ = k
    · simp [alLookup, hk] at h
      simp [hk, h]
    · simp [alLookup, hk] at h
      exact List.mem_cons_of_mem _ (ih h)

/-! ### reassembly_lem -/

/-- slot content for segment `x` given the datagrams seen so far -/
def fSeen (seen : List Dg) (x : Dg) : Option Bytes := if x ∈ seen then some x.payload else none

/-- what `split_concat_lem` gives about the segments of sequence number `s` -/
structure WF (msgOf : Nat → Bytes) (segsOf : Nat → List Dg) (s : Nat) : Prop where
  pos : 0 < (segsOf s).length
  fields : ∀ i, (hi : i < (segsOf s).length) →
    (segsOf s)[i].idx = i ∧ (segsOf s)[i].maxIdx = (segsOf s).length - 1 ∧ (segsOf s)[i].seq = s
  cat : ((segsOf s).map (·.payload)).flatten = msgOf s

theorem WF.seq_of_mem {msgOf segsOf s} (h : WF msgOf segsOf s) {x : Dg} (hx : x ∈ segsOf s) : x.seq = s := by
  obtain ⟨i, hi, rfl⟩ := List.getElem_of_mem hx
  exact (h.fields i hi).2.2

/-- receiver-state invariant for one sequence number whose segments are `l` -/
def SlotInv (l seen : List Dg) (o : Option Slot) : Prop :=
  (((∀ x ∈ l, x ∉ seen) ∨ (∀ x ∈ l, x ∈ seen)) → o = none) ∧
  (¬ ((∀ x ∈ l, x ∉ seen) ∨ (∀ x ∈ l, x ∈ seen)) →
    ∃ sl, o = some sl ∧ sl.msgs = l.map (fSeen seen) ∧ sl.segCount = sl.msgs.countP Option.isSome)

theorem map_fSeen_congr (l seen seen' : List Dg) (h : ∀ x ∈ l, (x ∈ seen ↔ x ∈ seen')) :
    l.map (fSeen seen) = l.map (fSeen seen') := by
  apply List.map_congr_left
  intro x hx
  simp [fSeen, h x hx]

theorem slotInv_congr (l seen seen' : List Dg) (o : Option Slot) (h : ∀ x ∈ l, (x ∈ seen ↔ x ∈ seen'))
    (hi : SlotInv l seen o) : SlotInv l seen' o := by
  have h1 : (∀ x ∈ l, x ∉ seen) ↔ (∀ x ∈ l, x ∉ seen') :=
    ⟨fun a x hx hs => a x hx ((h x hx).2 hs), fun a x hx hs => a x hx ((h x hx).1 hs)⟩
  have h2 : (∀ x ∈ l, x ∈ seen) ↔ (∀ x ∈ l, x ∈ seen') :=
    ⟨fun a x hx => (h x hx).1 (a x hx), fun a x hx => (h x hx).2 (a x hx)⟩
  unfold SlotInv at hi ⊢
  rw [← h1, ← h2, ← map_fSeen_congr l seen seen' h]
  exact hi

theorem countP_set_none (l : List (Option Bytes)) (i : Nat) (p : Bytes) (h : l[i]? = some none) :
    (l.set i (some p)).countP Option.isSome = l.countP Option.isSome + 1 := by
  induction l generalizing i with
  | nil => simp at h
  | cons x r ih =>
    cases i with
    | zero =>
      simp at h
      subst h
      simp
    | succ i =>
      simp at h
      simp [List.countP_cons, ih i h]
      omega

theorem map_fSeen_set (l seen : List Dg) (d : Dg) (hidx : ∀ j, (hj : j < l.length) → l[j].idx = j)
    (hd : d ∈ l) : (l.map (fSeen seen)).set d.idx (some d.payload) = l.map (fSeen (d :: seen)) := by
  obtain ⟨i, hi, rfl⟩ := List.getElem_of_mem hd
  rw [hidx i hi]
  apply List.ext_getElem (by simp)
  intro j h1 h2
  have hj : j < l.length := by simpa using h2
  by_cases hij : i = j
  · subst hij
    simp [fSeen]
  · have hne : l[j] ≠ l[i] := by
      intro he
      have := hidx j hj
      rw [he, hidx i hi] at this
      exact hij this
    simp [hij, fSeen, hne]

theorem build_all (l seen : List Dg) (h : ∀ x ∈ l, x ∈ seen) :
    build (l.map (fSeen seen)) = (l.map (·.payload)).flatten := by
  unfold build
  rw [List.map_map]
  congr 1
  apply List.map_congr_left
  intro x hx
  simp [fSeen, h x hx]

theorem countP_fSeen_eq_length (l seen : List Dg) :
    (l.map (fSeen seen)).countP Option.isSome = l.length ↔ ∀ x ∈ l, x ∈ seen := by
  have : (l.map (fSeen seen)).length = l.length := by simp
  rw [← this, List.countP_eq_length]
  simp only [List.mem_map, forall_exists_index, and_imp, forall_apply_eq_imp_iff₂]
  constructor
  · intro h x hx
    have := h x hx
    unfold fSeen at this
    split at this
    · assumption
    · simp at this
  · intro h x hx
    simp [fSeen, h x hx]

theorem map_fSeen_none (l seen : List Dg) (h : ∀ x ∈ l, x ∉ seen) :
    l.map (fSeen seen) = List.replicate l.length none := by
  rw [List.eq_replicate_iff]
  refine ⟨by simp, ?_⟩
  intro b hb
  simp only [List.mem_map] at hb
  obtain ⟨x, hx, rfl⟩ := hb
  simp [fSeen, h x hx]

theorem add_step (l seen : List Dg) (d : Dg) (slot0 : Slot) (e : Nat)
    (hidx : ∀ j, (hj : j < l.length) → l[j].idx = j) (hd : d ∈ l) (hns : d ∉ seen)
    (hm : slot0.msgs = l.map (fSeen seen)) (hc : slot0.segCount = slot0.msgs.countP Option.isSome) :
    (slot0.segCount + 1 = (l.map (fSeen (d :: seen))).countP Option.isSome) ∧
    (({ slot0 with expiredAt := e } : Slot).add d.idx d.payload) =
      (⟨slot0.segCount + 1, l.map (fSeen (d :: seen)), e⟩,
        if ∀ x ∈ l, x ∈ d :: seen then some ((l.map (·.payload)).flatten) else none) := by
  have hlt : d.idx < l.length := by
    obtain ⟨i, hi, rfl⟩ := List.getElem_of_mem hd
    rw [hidx i hi]; exact hi
  have hget : slot0.msgs[d.idx]? = some none := by
    obtain ⟨i, hi, rfl⟩ := List.getElem_of_mem hd
    rw [hm, hidx i hi]
    simp [hi, fSeen, hns]
  have hset := map_fSeen_set l seen d hidx hd
  have hcnt : slot0.segCount + 1 = (l.map (fSeen (d :: seen))).countP Option.isSome := by
    rw [← hset, ← hm, countP_set_none _ _ _ hget, ← hc]
  refine ⟨hcnt, ?_⟩
  unfold Slot.add
  have h1 : ¬ (slot0.msgs.length ≤ d.idx) := by rw [hm]; simp; exact hlt
  rw [if_neg h1]
  simp only [hm, hset]
  have hlen : (l.map (fSeen (d :: seen))).length = l.length := by simp
  by_cases hall : ∀ x ∈ l, x ∈ d :: seen
  · have := (countP_fSeen_eq_length l (d :: seen)).2 hall
    rw [if_pos (by omega), build_all _ _ hall, if_pos hall]
  · have : ¬ (l.map (fSeen (d :: seen))).countP Option.isSome = l.length :=
      fun h => hall ((countP_fSeen_eq_length l (d :: seen)).1 h)
    rw [if_neg (by omega), if_neg hall]

theorem receiveDg_of_slot0 (rb : RB) (now : Nat) (d : Dg) (slot0 : Slot)
    (h : alLookup d.seq rb.bufs = some slot0 ∨
      (alLookup d.seq rb.bufs = none ∧ d.idx ≤ d.maxIdx ∧
        slot0 = ⟨0, List.replicate (slotCount d.maxIdx) none, 0⟩)) :
    rb.receiveDg now d =
      match ({ slot0 with expiredAt := now + rb.expiry } : Slot).add d.idx d.payload with
      | (_, some m) => ({ rb with bufs := alErase d.seq rb.bufs }, .msg d.seq m)
      | (s', none) => ({ rb with bufs := alInsert d.seq s' rb.bufs }, .none) := by
  rcases h with h | ⟨h, hle, rfl⟩
  · simp only [RB.receiveDg, h]
    rfl
  · have : ¬ d.idx > d.maxIdx := by omega
    simp only [RB.receiveDg, h, this, if_false]
    rfl

theorem receiveDg_step (msgOf : Nat → Bytes) (segsOf : Nat → List Dg) (rb : RB) (now : Nat) (d : Dg)
    (seen : List Dg) (hwf : WF msgOf segsOf d.seq) (hd : d ∈ segsOf d.seq) (hns : d ∉ seen)
    (inv : ∀ s, WF msgOf segsOf s → SlotInv (segsOf s) seen (alLookup s rb.bufs)) :
    (rb.receiveDg now d).2 =
      (if (segsOf d.seq).all (fun x => decide (x ∈ d :: seen)) then RecvOut.msg d.seq (msgOf d.seq)
       else RecvOut.none) ∧
    ∀ s, WF msgOf segsOf s → SlotInv (segsOf s) (d :: seen) (alLookup s (rb.receiveDg now d).1.bufs) := by
  have hidx : ∀ j, (hj : j < (segsOf d.seq).length) → (segsOf d.seq)[j].idx = j :=
    fun j hj => (hwf.fields j hj).1
  have hdi : d.idx < (segsOf d.seq).length ∧ d.maxIdx = (segsOf d.seq).length - 1 := by
    obtain ⟨i, hi, he⟩ := List.getElem_of_mem hd
    have := hwf.fields i hi
    rw [he] at this
    exact ⟨by omega, this.2.1⟩
  -- the slot the receiver starts from
  have hslot : ∃ slot0 : Slot,
      (alLookup d.seq rb.bufs = some slot0 ∨
        (alLookup d.seq rb.bufs = none ∧ d.idx ≤ d.maxIdx ∧
          slot0 = ⟨0, List.replicate (slotCount d.maxIdx) none, 0⟩)) ∧
      slot0.msgs = (segsOf d.seq).map (fSeen seen) ∧
      slot0.segCount = slot0.msgs.countP Option.isSome := by
    by_cases hc : (∀ x ∈ segsOf d.seq, x ∉ seen) ∨ (∀ x ∈ segsOf d.seq, x ∈ seen)
    · have hnone := (inv _ hwf).1 hc
      have hc' : ∀ x ∈ segsOf d.seq, x ∉ seen := by
        rcases hc with hc | hc
        · exact hc
        · exact absurd (hc d hd) hns
      refine ⟨⟨0, List.replicate (slotCount d.maxIdx) none, 0⟩, Or.inr ⟨hnone, by omega, rfl⟩, ?_, ?_⟩
      · rw [map_fSeen_none _ _ hc']
        have : slotCount d.maxIdx = (segsOf d.seq).length := by
          unfold slotCount; have := hwf.pos; omega
        simp only [this]
      · symm
        rw [List.countP_eq_zero]
        intro a ha
        rw [List.eq_of_mem_replicate ha]
        simp
    · obtain ⟨sl, h1, h2, h3⟩ := (inv _ hwf).2 hc
      exact ⟨sl, Or.inl h1, h2, h3⟩
  obtain ⟨slot0, hlk, hm, hcnt⟩ := hslot
  obtain ⟨hcnt', hadd⟩ := add_step (segsOf d.seq) seen d slot0 (now + rb.expiry) hidx hd hns hm hcnt
  have hrecv := receiveDg_of_slot0 rb now d slot0 hlk
  rw [hadd] at hrecv
  -- frame: other sequence numbers are not affected
  have hframe : ∀ s, WF msgOf segsOf s → s ≠ d.seq → ∀ o, SlotInv (segsOf s) seen o →
      SlotInv (segsOf s) (d :: seen) o := by
    intro s hs hne o ho
    apply slotInv_congr _ _ _ _ _ ho
    intro x hx
    have : x ≠ d := by
      intro he; subst he; exact hne (hs.seq_of_mem hx).symm
    simp [this]
  by_cases hall : ∀ x ∈ segsOf d.seq, x ∈ d :: seen
  · rw [if_pos hall] at hrecv
    simp only at hrecv
    rw [hrecv]
    refine ⟨?_, ?_⟩
    · have : (segsOf d.seq).all (fun x => decide (x ∈ d :: seen)) = true := by
        simpa using hall
      rw [if_pos this, hwf.cat]
    · intro s hs
      by_cases hne : s = d.seq
      · subst hne
        simp only [alLookup_erase_self]
        exact ⟨fun _ => rfl, fun h => absurd (Or.inr hall) h⟩
      · simp only [alLookup_erase_ne _ _ _ hne]
        exact hframe s hs hne _ (inv s hs)
  · rw [if_neg hall] at hrecv
    simp only at hrecv
    rw [hrecv]
    refine ⟨?_, ?_⟩
    · have : ¬ (segsOf d.seq).all (fun x => decide (x ∈ d :: seen)) = true := by
        simpa using hall
      rw [if_neg this]
    · intro s hs
      by_cases hne : s = d.seq
      · subst hne
        simp only [alLookup_insert_self]
        refine ⟨fun h => ?_, fun _ => ⟨_, rfl, rfl, hcnt'⟩⟩
        rcases h with h | h
        · exact absurd (List.mem_cons_self) (h d hd)
        · exact absurd h hall
      · simp only [alLookup_insert_ne _ _ _ _ hne]
        exact hframe s hs hne _ (inv s hs)

theorem run_eq_spec_gen (msgOf : Nat → Bytes) (segsOf : Nat → List Dg) :
    ∀ (tr : List (Nat × Dg)) (seen : List Dg) (rb : RB),
      (∀ d ∈ tr.map (·.2), WF msgOf segsOf d.seq) →
      (∀ d ∈ tr.map (·.2), d ∈ segsOf d.seq) →
      (tr.map (·.2)).Nodup →
      (∀ d ∈ tr.map (·.2), d ∉ seen) →
      (∀ s, WF msgOf segsOf s → SlotInv (segsOf s) seen (alLookup s rb.bufs)) →
      runDg rb tr = spec msgOf segsOf seen (tr.map (·.2)) := by
  intro tr
  induction tr with
  | nil => intros; rfl
  | cons e rest ih =>
    intro seen rb hwf hmem hnd hdis inv
    obtain ⟨now, d⟩ := e
    simp only [List.map_cons, List.mem_cons, forall_eq_or_imp, List.nodup_cons] at hwf hmem hnd hdis
    obtain ⟨h1, h2⟩ := receiveDg_step msgOf segsOf rb now d seen hwf.1 hmem.1 hdis.1 inv
    simp only [runDg, List.map_cons, spec]
    rw [h1]
    congr 1
    apply ih (d :: seen) _ hwf.2 hmem.2 hnd.2 _ h2
    intro x hx
    simp only [List.mem_cons, not_or]
    exact ⟨fun he => hnd.1 (he ▸ hx), hdis.2 x hx⟩

theorem wf_of_genuine (P : Nat) (msgOf : Nat → Bytes) (segsOf : Nat → List Dg) (tr : List Dg)
    (g : Genuine P msgOf segsOf tr) : ∀ d ∈ tr, WF msgOf segsOf d.seq := by
  intro d hd
  have hs := g.segs d.seq (List.mem_map.2 ⟨d, hd, rfl⟩)
  obtain ⟨h1, h2, h3⟩ := split_concat_lem P d.seq (msgOf d.seq) (segsOf d.seq) hs
  refine ⟨?_, h3, h1⟩
  rw [h2]; split
  · exact Nat.one_pos
  · exact Nat.succ_pos _

theorem slotInv_init (l : List Dg) : SlotInv l [] none :=
  ⟨fun _ => rfl, fun h => absurd (Or.inl (fun _ _ => List.not_mem_nil)) h⟩

theorem reassembly_lem (P : Nat) (msgOf : Nat → Bytes) (segsOf : Nat → List Dg)
    (tr : List (Nat × Dg)) (expiry : Nat) (g : Genuine P msgOf segsOf (tr.map (·.2))) :
    runDg ⟨[], expiry⟩ tr = spec msgOf segsOf [] (tr.map (·.2)) := by
  apply run_eq_spec_gen msgOf segsOf tr [] ⟨[], expiry⟩ (wf_of_genuine P msgOf segsOf _ g) g.mem g.nodup
  · intro d _; exact List.not_mem_nil
  · intro s _; exact slotInv_init _

/-- payload sizes of the sender's segments: none exceeds `P`, every segment but the last is exactly `P` -/
theorem sent_payloads_fit_lem (P seq : Nat) (m : Bytes) (hP : 0 < P) (ds : List Dg)
    (h : segments P seq m = some ds) :
    ∀ d ∈ ds, d.payload.length ≤ P ∧ d.encode.length ≤ P + 8 ∧ (d.idx ≠ d.maxIdx → d.payload.length = P) := by
  intro d hd
  have key : d.payload.length ≤ P ∧ (d.idx ≠ d.maxIdx → d.payload.length = P) := by
    unfold segments at h
    split at h
    · cases h; simp at hd; subst hd; simpa
    · simp only at h
      split at h
      · cases h
      · cases h
        simp only [List.mem_map, List.mem_range] at hd
        obtain ⟨i, hi, rfl⟩ := hd
        simp only [segPayload]
        have hdm := Nat.div_add_mod m.length P
        have hml := Nat.mod_lt m.length hP
        rw [Nat.mul_comm] at hdm
        split
        · rename_i hik
          subst hik
          simp only [List.length_drop]
          refine ⟨by omega, fun hne => absurd rfl hne⟩
        · rename_i hik
          simp only [List.length_take, List.length_drop]
          have hlt : i < m.length / P := by omega
          have h1 : (i + 1) * P ≤ m.length / P * P := Nat.mul_le_mul_right P hlt
          rw [Nat.add_mul, Nat.one_mul] at h1
          refine ⟨by omega, fun _ => by omega⟩
  refine ⟨key.1, ?_, key.2⟩
  have := key.1
  simp [Dg.encode, be32, be16]; omega

/-! ### byte level: header codec composed with reassembly -/

theorem runBytes_encode_lem (rb : RB) (tr : List (Nat × Dg))
    (hfit : ∀ x ∈ tr, x.2.seq < 4294967296 ∧ x.2.maxIdx < 65536 ∧ x.2.idx < 65536) :
    runBytes rb (tr.map fun x => (x.1, x.2.encode)) = runDg rb tr := by
  induction tr generalizing rb with
  | nil => rfl
  | cons x r ih =>
    obtain ⟨now, d⟩ := x
    have hx := hfit (now, d) (List.mem_cons_self ..)
    simp only [List.map_cons, runBytes, runDg, RB.receive, header_roundtrip_lem d hx.1 hx.2.1 hx.2.2]
    rw [ih _ (fun y hy => hfit y (List.mem_cons_of_mem _ hy))]

theorem wire_reassembly_lem (P : Nat) (msgOf : Nat → Bytes) (segsOf : Nat → List Dg)
    (tr : List (Nat × Dg)) (expiry : Nat) (g : Genuine P msgOf segsOf (tr.map (·.2)))
    (hseq : ∀ x ∈ tr, x.2.seq < 4294967296) :
    runBytes ⟨[], expiry⟩ (tr.map fun x => (x.1, x.2.encode)) = spec msgOf segsOf [] (tr.map (·.2)) := by
  rw [runBytes_encode_lem, reassembly_lem P msgOf segsOf tr expiry g]
  intro x hx
  have hm : x.2 ∈ tr.map (·.2) := List.mem_map.2 ⟨x, hx, rfl⟩
  have hs := g.segs x.2.seq (List.mem_map.2 ⟨x.2, hm, rfl⟩)
  have := sent_headers_fit_lem P x.2.seq (msgOf x.2.seq) (segsOf x.2.seq) hs x.2 (g.mem x.2 hm)
  exact ⟨hseq x hx, this.1, this.2.1⟩

/-! ### spec-only facts -/

/-- the outputs of `spec` that are messages of sequence number `s` -/
def isMsgOf (s : Nat) (o : RecvOut) : Bool :=
  match o with | .msg s' _ => s' = s | .none => false

theorem spec_count_zero (msgOf : Nat → Bytes) (segsOf : Nat → List Dg) (s : Nat) :
    ∀ (tr seen : List Dg), (∀ d ∈ tr, d.seq ≠ s) →
      ((spec msgOf segsOf seen tr).filter (isMsgOf s)).length = 0 := by
  intro tr
  induction tr with
  | nil => intros; rfl
  | cons d rest ih =>
    intro seen h
    simp only [List.mem_cons, forall_eq_or_imp] at h
    have hd : d.seq ≠ s := h.1
    simp only [spec]
    split
    · simp only [List.filter_cons, isMsgOf, hd, decide_false]
      exact ih _ h.2
    · simp only [List.filter_cons, isMsgOf]
      exact ih _ h.2

theorem spec_count_one (msgOf : Nat → Bytes) (segsOf : Nat → List Dg) (s : Nat)
    (hseq : ∀ d ∈ segsOf s, d.seq = s) :
    ∀ (tr seen : List Dg), (∀ d ∈ tr, d ∈ segsOf d.seq) → tr.Nodup → (∀ d ∈ tr, d ∉ seen) →
      (∀ d ∈ segsOf s, d ∈ seen ∨ d ∈ tr) → ¬ (∀ d ∈ segsOf s, d ∈ seen) →
      ((spec msgOf segsOf seen tr).filter (isMsgOf s)).length = 1 := by
  intro tr
  induction tr with
  | nil =>
    intro seen _ _ _ hall hnot
    exact absurd (fun d hd => (hall d hd).resolve_right List.not_mem_nil) hnot
  | cons d rest ih =>
    intro seen hmem hnd hdis hall hnot
    simp only [List.mem_cons, forall_eq_or_imp, List.nodup_cons] at hmem hnd hdis
    have hdis' : ∀ x ∈ rest, x ∉ d :: seen := by
      intro x hx
      simp only [List.mem_cons, not_or]
      exact ⟨fun he => hnd.1 (he ▸ hx), hdis.2 x hx⟩
    have hall' : ∀ x ∈ segsOf s, x ∈ d :: seen ∨ x ∈ rest := by
      intro x hx
      rcases hall x hx with h | h
      · exact Or.inl (List.mem_cons_of_mem _ h)
      · rcases List.mem_cons.1 h with h | h
        · exact Or.inl (h ▸ List.mem_cons_self)
        · exact Or.inr h
    simp only [spec]
    by_cases hds : d.seq = s
    · by_cases hfull : ∀ x ∈ segsOf s, x ∈ d :: seen
      · have hc : (segsOf d.seq).all (fun x => decide (x ∈ d :: seen)) = true := by
          rw [hds]; simpa using hfull
        rw [if_pos hc]
        have hrest : ∀ x ∈ rest, x.seq ≠ s := by
          intro x hx he
          have := hmem.2 x hx
          rw [he] at this
          exact hdis' x hx (hfull x this)
        simp only [List.filter_cons, isMsgOf, hds, decide_true, if_true, List.length_cons]
        rw [spec_count_zero msgOf segsOf s rest _ hrest]
      · have hc : ¬ (segsOf d.seq).all (fun x => decide (x ∈ d :: seen)) = true := by
          rw [hds]; simpa using hfull
        rw [if_neg hc]
        simp only [List.filter_cons, isMsgOf]
        exact ih _ hmem.2 hnd.2 hdis' hall' hfull
    · have hfull : ¬ ∀ x ∈ segsOf s, x ∈ d :: seen := by
        intro h
        apply hnot
        intro x hx
        rcases List.mem_cons.1 (h x hx) with he | he
        · exact absurd (he ▸ hseq x hx) hds
        · exact he
      have : ((if (segsOf d.seq).all (fun x => decide (x ∈ d :: seen)) then
          RecvOut.msg d.seq (msgOf d.seq) else RecvOut.none) :: spec msgOf segsOf (d :: seen) rest).filter
            (isMsgOf s) = (spec msgOf segsOf (d :: seen) rest).filter (isMsgOf s) := by
        split <;> simp [isMsgOf, hds]
      rw [this]
      exact ih _ hmem.2 hnd.2 hdis' hall' hfull

theorem complete_once_lem (msgOf : Nat → Bytes) (segsOf : Nat → List Dg) (tr : List Dg) (s : Nat)
    (hmem : ∀ d ∈ tr, d ∈ segsOf d.seq) (hseq : ∀ d ∈ segsOf s, d.seq = s) (hne : segsOf s ≠ [])
    (hnd : tr.Nodup) (hall : ∀ d ∈ segsOf s, d ∈ tr) :
    ((spec msgOf segsOf [] tr).filter (isMsgOf s)).length = 1 := by
  apply spec_count_one msgOf segsOf s hseq tr [] hmem hnd (fun _ _ => List.not_mem_nil)
    (fun d hd => Or.inr (hall d hd))
  intro h
  cases hl : segsOf s with
  | nil => exact hne hl
  | cons x r => exact absurd (h x (hl ▸ List.mem_cons_self)) List.not_mem_nil

theorem incomplete_nothing_gen (msgOf : Nat → Bytes) (segsOf : Nat → List Dg) (s : Nat)
    (d0 : Dg) (h0 : d0 ∈ segsOf s) :
    ∀ (tr seen : List Dg), d0 ∉ tr → d0 ∉ seen →
      ∀ o ∈ spec msgOf segsOf seen tr, ∀ bs, o ≠ .msg s bs := by
  intro tr
  induction tr with
  | nil => intro seen _ _ o ho; simp [spec] at ho
  | cons d rest ih =>
    intro seen hmiss hseen o ho bs
    simp only [List.mem_cons, not_or] at hmiss
    simp only [spec, List.mem_cons] at ho
    rcases ho with ho | ho
    · subst ho
      split
      · rename_i hc
        intro he
        injection he with he1 he2
        rw [he1] at hc
        simp only [List.all_eq_true, decide_eq_true_eq] at hc
        rcases hc d0 h0 with h | h
        · exact hmiss.1 h
        · exact hseen h
      · intro he; cases he
    · apply ih (d :: seen) hmiss.2 _ o ho bs
      simp only [List.mem_cons, not_or]
      exact ⟨hmiss.1, hseen⟩

/-! ### small facts about the receiver -/

theorem malformed_discarded_lem (rb : RB) (now : Nat) :
    (∀ bs, bs.length < 8 → rb.receive now bs = (rb, .none)) ∧
    (∀ d : Dg, d.maxIdx < d.idx → alLookup d.seq rb.bufs = none → rb.receiveDg now d = (rb, .none)) := by
  constructor
  · intro bs h
    simp only [RB.receive, short_is_malformed_lem bs h]
  · intro d h1 h2
    have : d.idx > d.maxIdx := h1
    simp only [RB.receiveDg, h2, this, if_true]

theorem out_of_range_no_output_lem (rb : RB) (now : Nat) (d : Dg) (s : Slot)
    (h : alLookup d.seq rb.bufs = some s) (hi : s.msgs.length ≤ d.idx) :
    (rb.receiveDg now d).2 = .none ∧
    ∃ s', alLookup d.seq (rb.receiveDg now d).1.bufs = some s' ∧ s'.msgs = s.msgs ∧ s'.segCount = s.segCount := by
  have hr := receiveDg_of_slot0 rb now d s (Or.inl h)
  have hadd : ({ s with expiredAt := now + rb.expiry } : Slot).add d.idx d.payload =
      ({ s with expiredAt := now + rb.expiry }, none) := by
    unfold Slot.add
    rw [if_pos hi]
  rw [hadd] at hr
  simp only at hr
  rw [hr]
  exact ⟨rfl, _, alLookup_insert_self _ _ _, rfl, rfl⟩

theorem expiry_lem (rb : RB) (now : Nat) :
    (∀ s sl, alLookup s (rb.removeExpired now).bufs = some sl → ¬ (now > sl.expiredAt)) ∧
    (∀ e ∈ rb.bufs, ¬ (now > e.2.expiredAt) → e ∈ (rb.removeExpired now).bufs) := by
  constructor
  · intro s sl h
    have := alLookup_mem _ _ _ h
    simp only [RB.removeExpired, List.mem_filter, decide_eq_true_eq] at this
    exact this.2
  · intro e he h
    simp only [RB.removeExpired, List.mem_filter, decide_eq_true_eq]
    exact ⟨he, h⟩

theorem add_expiredAt (s : Slot) (i : Nat) (p : Bytes) : (s.add i p).1.expiredAt = s.expiredAt := by
  unfold Slot.add
  split
  · rfl
  · simp only
    split <;> rfl

theorem touch_sets_deadline_lem (rb : RB) (now : Nat) (d : Dg) (sl : Slot)
    (h : alLookup d.seq (rb.receiveDg now d).1.bufs = some sl) :
    sl.expiredAt = now + rb.expiry := by
  have key : ∀ slot0 : Slot,
      (alLookup d.seq rb.bufs = some slot0 ∨
        (alLookup d.seq rb.bufs = none ∧ d.idx ≤ d.maxIdx ∧
          slot0 = ⟨0, List.replicate (slotCount d.maxIdx) none, 0⟩)) →
      sl.expiredAt = now + rb.expiry := by
    intro slot0 hs
    have hr := receiveDg_of_slot0 rb now d slot0 hs
    have he := add_expiredAt { slot0 with expiredAt := now + rb.expiry } d.idx d.payload
    generalize ({ slot0 with expiredAt := now + rb.expiry } : Slot).add d.idx d.payload = r at hr he
    obtain ⟨s', o⟩ := r
    cases o with
    | some m =>
      simp only at hr
      rw [hr] at h
      simp only [alLookup_erase_self] at h
      cases h
    | none =>
      simp only at hr
      rw [hr] at h
      simp only [alLookup_insert_self, Option.some.injEq] at h
      subst h
      exact he
  cases hl : alLookup d.seq rb.bufs with
  | some s0 => exact key s0 (Or.inl hl)
  | none =>
    by_cases hm : d.idx ≤ d.maxIdx
    · exact key _ (Or.inr ⟨hl, hm, rfl⟩)
    · have := (malformed_discarded_lem rb now).2 d (by omega) hl
      rw [this, hl] at h
      cases h

end Iscp.Seg
