import Iscp.Model.Seg
import Iscp.Model.SegSpec
/- helper lemmas for Props/C14.lean -/
namespace Iscp.Seg

end Iscp.Seg
