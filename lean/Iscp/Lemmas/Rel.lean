import Iscp.Model.Rel
import Iscp.Lemmas.Up
/- helper lemmas for Props/C02.lean -/
