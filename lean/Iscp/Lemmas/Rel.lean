import Iscp.Model.Rel
import Iscp.Lemmas.Up
/- helper lemmas for Props/C02.lean -/

namespace Iscp.Up
open Iscp

/-! ### states that agree on everything except the sent storage and the waiters -/

/-- field-equivalence: all fields equal except `store` and `waiters` -/
structure Eqv (s t : St) : Prop where
  policy : s.policy = t.policy
  buf : s.buf = t.buf
  bufPayload : s.bufPayload = t.bufPayload
  bufCount : s.bufCount = t.bufCount
  seq : s.seq = t.seq
  total : s.total = t.total
  rev : s.rev = t.rev
  sent : s.sent = t.sent
  sendHook : s.sendHook = t.sendHook
  ackHook : s.ackHook = t.ackHook
  closeReq : s.closeReq = t.closeReq

theorem Eqv.refl (s : St) : Eqv s s := ⟨rfl, rfl, rfl, rfl, rfl, rfl, rfl, rfl, rfl, rfl, rfl⟩

theorem Eqv.trans {s t u : St} (h : Eqv s t) (h' : Eqv t u) : Eqv s u :=
  ⟨h.policy.trans h'.policy, h.buf.trans h'.buf, h.bufPayload.trans h'.bufPayload, h.bufCount.trans h'.bufCount,
   h.seq.trans h'.seq, h.total.trans h'.total, h.rev.trans h'.rev, h.sent.trans h'.sent, h.sendHook.trans h'.sendHook,
   h.ackHook.trans h'.ackHook, h.closeReq.trans h'.closeReq⟩

/-- replacing the storage and the waiters stays in the class -/
theorem Eqv_frame (s : St) (st : List (Nat × Groups)) (wa : List Nat) : Eqv { s with store := st, waiters := wa } s :=
  ⟨rfl, rfl, rfl, rfl, rfl, rfl, rfl, rfl, rfl, rfl, rfl⟩

theorem Eqv_addBuf (s t : St) (d : DataID) (ps : List Point) (h : Eqv s t) : Eqv (addBuf s d ps) (addBuf t d ps) := by
  refine ⟨h.policy, ?_, ?_, ?_, h.seq, h.total, h.rev, h.sent, h.sendHook, h.ackHook, h.closeReq⟩
  · show bufAdd s.buf d ps = bufAdd t.buf d ps
    rw [h.buf]
  · show s.bufPayload + payloadLen ps = t.bufPayload + payloadLen ps
    rw [h.bufPayload]
  · show s.bufCount + ps.length = t.bufCount + ps.length
    rw [h.bufCount]

theorem Eqv_cut (s t : St) (h : Eqv s t) : Eqv (cut s) (cut t) := by
  by_cases hb : s.buf = []
  · rw [cut_nil s hb, cut_nil t (h.buf ▸ hb)]; exact h
  · have hb' : t.buf ≠ [] := h.buf ▸ hb
    rw [cut_cons s hb, cut_cons t hb']
    refine ⟨h.policy, rfl, rfl, rfl, ?_, ?_, h.rev, ?_, ?_, h.ackHook, h.closeReq⟩
    · show s.seq + 1 = t.seq + 1
      rw [h.seq]
    · show s.total + s.bufCount = t.total + t.bufCount
      rw [h.total, h.bufCount]
    · show s.sent ++ [(⟨s.seq + 1, (toWire s.rev s.buf).1, (toWire s.rev s.buf).2⟩ : Chunk)] =
        t.sent ++ [(⟨t.seq + 1, (toWire t.rev t.buf).1, (toWire t.rev t.buf).2⟩ : Chunk)]
      rw [h.sent, h.seq, h.rev, h.buf]
    · show s.sendHook ++ [(s.seq + 1, toGroups s.buf)] = t.sendHook ++ [(t.seq + 1, toGroups t.buf)]
      rw [h.sendHook, h.seq, h.buf]

theorem Eqv_ack (s t : St) (rs : List (Nat × Nat)) (als : List (Nat × DataID)) (h : Eqv s t) :
    Eqv (ack s rs als) (ack t rs als) := by
  obtain ⟨st, wa, h1⟩ := ack_frame s rs als
  obtain ⟨st', wa', h2⟩ := ack_frame t rs als
  rw [h1, h2]
  refine ⟨h.policy, h.buf, h.bufPayload, h.bufCount, h.seq, h.total, ?_, h.sent, h.sendHook, ?_, h.closeReq⟩
  · show learn s.rev als = learn t.rev als
    rw [h.rev]
  · show s.ackHook ++ rs = t.ackHook ++ rs
    rw [h.ackHook]

theorem Eqv_closeRequest (s t : St) (h : Eqv s t) : Eqv (closeRequest s) (closeRequest t) := by
  refine ⟨h.policy, h.buf, h.bufPayload, h.bufCount, h.seq, h.total, h.rev, h.sent, h.sendHook, h.ackHook, ?_⟩
  show some (s.total, s.seq) = some (t.total, t.seq)
  rw [h.total, h.seq]

theorem Eqv_step (s t : St) (e : Ev) (h : Eqv s t) : Eqv (step s e) (step t e) := by
  cases e with
  | accept d ps =>
    show Eqv (accept s d ps) (accept t d ps)
    rw [accept_eq, accept_eq, h.policy, h.bufPayload]
    split
    · exact Eqv_cut _ _ (Eqv_addBuf _ _ _ _ h)
    · exact Eqv_addBuf _ _ _ _ h
  | tick =>
    show Eqv (tick s) (tick t)
    unfold tick
    rw [h.policy]
    split
    · exact Eqv_cut _ _ h
    · exact h
  | flush => exact Eqv_cut _ _ h
  | ack rs als => exact Eqv_ack _ _ _ _ h
  | closeFlush => exact Eqv_cut _ _ h
  | closeRequest => exact Eqv_closeRequest _ _ h

/-! ### per-step facts used by the store invariant -/

theorem cut_seq_le (s : St) : s.seq ≤ (cut s).seq := by
  by_cases hb : s.buf = []
  · rw [cut_nil s hb]; exact Nat.le_refl _
  · rw [cut_cons s hb]; exact Nat.le_succ _

/-- every send-hook call carries an issued sequence number -/
theorem hook_le (s : St) (h : Inv s) : ∀ e ∈ s.sendHook, e.1 ≤ s.seq := by
  intro e he
  have h1 : e.1 ∈ s.sendHook.map (·.1) := List.mem_map_of_mem he
  rw [h.hook, h.seqs, List.mem_range'_1] at h1
  omega

/-- the unacknowledged-is-stored invariant: every send-hook call whose number was never the target of a result is stored
    with its content -/
def Kept (s : St) : Prop := ∀ e ∈ s.sendHook, e.1 ∉ s.ackHook.map (·.1) → alGet e.1 s.store = some e.2

theorem Kept_init (p : Policy) (rev : List (DataID × Nat)) : Kept { policy := p, rev := rev } := by
  intro e he
  cases he

theorem Kept_addBuf (s : St) (d : DataID) (ps : List Point) (h : Kept s) : Kept (addBuf s d ps) := h

theorem Kept_closeRequest (s : St) (h : Kept s) : Kept (closeRequest s) := h

theorem Kept_cut (s : St) (hi : Inv s) (h : Kept s) : Kept (cut s) := by
  by_cases hb : s.buf = []
  · rw [cut_nil s hb]; exact h
  · rw [cut_cons s hb]
    intro e he hn
    show alGet e.1 (alPut (s.seq + 1) (toGroups s.buf) s.store) = some e.2
    have he' : e ∈ s.sendHook ++ [(s.seq + 1, toGroups s.buf)] := he
    rcases List.mem_append.1 he' with he' | he'
    · have hle := hook_le s hi e he'
      have hne : e.1 ≠ s.seq + 1 := by omega
      rw [alGet_alPut_ne hne]
      exact h e he' hn
    · rw [List.mem_singleton.1 he']
      exact alGet_alPut_self _ _ _

theorem Kept_result (s : St) (q c : Nat) (h : Kept s) : Kept (result s q c) := by
  simp only [result]
  split
  · intro e he hn
    have hn' : e.1 ∉ (s.ackHook ++ [(q, c)]).map (·.1) := hn
    simp only [List.map_append, List.map_cons, List.map_nil, List.mem_append, List.mem_singleton, not_or] at hn'
    show alGet e.1 (alDel q s.store) = some e.2
    rw [alGet_alDel_ne hn'.2]
    exact h e he hn'.1
  · intro e he hn
    have hn' : e.1 ∉ (s.ackHook ++ [(q, c)]).map (·.1) := hn
    simp only [List.map_append, List.map_cons, List.map_nil, List.mem_append, List.mem_singleton, not_or] at hn'
    exact h e he hn'.1

theorem Kept_results (rs : List (Nat × Nat)) : ∀ s : St, Kept s → Kept (rs.foldl (fun st r => result st r.1 r.2) s) := by
  induction rs with
  | nil => intro s h; exact h
  | cons r rs ih => intro s h; rw [List.foldl_cons]; exact ih _ (Kept_result s r.1 r.2 h)

theorem Kept_ack (s : St) (rs : List (Nat × Nat)) (als : List (Nat × DataID)) (h : Kept s) : Kept (ack s rs als) := by
  unfold ack
  exact Kept_results rs _ h

theorem Kept_step (s : St) (e : Ev) (hi : Inv s) (h : Kept s) : Kept (step s e) := by
  cases e with
  | accept d ps =>
    show Kept (accept s d ps)
    rw [accept_eq]
    split
    · exact Kept_cut _ (Inv_addBuf _ _ _ hi) (Kept_addBuf _ _ _ h)
    · exact Kept_addBuf _ _ _ h
  | tick =>
    show Kept (tick s)
    unfold tick
    split
    · exact Kept_cut _ hi h
    · exact h
  | flush => exact Kept_cut _ hi h
  | ack rs als => exact Kept_ack _ _ _ h
  | closeFlush => exact Kept_cut _ hi h
  | closeRequest => exact Kept_closeRequest _ h

/-- stored chunks carry issued sequence numbers -/
def KeysLe (s : St) : Prop := ∀ x ∈ s.store, x.1 ≤ s.seq

theorem mem_alDel {α} (k : Nat) (l : List (Nat × α)) (x : Nat × α) (h : x ∈ alDel k l) : x ∈ l :=
  (List.mem_filter.1 h).1

theorem KeysLe_cut (s : St) (h : KeysLe s) : KeysLe (cut s) := by
  by_cases hb : s.buf = []
  · rw [cut_nil s hb]; exact h
  · rw [cut_cons s hb]
    intro x hx
    show x.1 ≤ s.seq + 1
    have hx' : x ∈ alPut (s.seq + 1) (toGroups s.buf) s.store := hx
    rcases List.mem_cons.1 hx' with hx' | hx'
    · rw [hx']; exact Nat.le_refl _
    · exact Nat.le_succ_of_le (h x (mem_alDel _ _ _ hx'))

theorem KeysLe_result (s : St) (q c : Nat) (h : KeysLe s) : KeysLe (result s q c) := by
  simp only [result]
  split
  · intro x hx
    exact h x (mem_alDel q s.store x hx)
  · exact h

theorem KeysLe_results (rs : List (Nat × Nat)) : ∀ s : St, KeysLe s → KeysLe (rs.foldl (fun st r => result st r.1 r.2) s) := by
  induction rs with
  | nil => intro s h; exact h
  | cons r rs ih => intro s h; rw [List.foldl_cons]; exact ih _ (KeysLe_result s r.1 r.2 h)

theorem KeysLe_ack (s : St) (rs : List (Nat × Nat)) (als : List (Nat × DataID)) (h : KeysLe s) : KeysLe (ack s rs als) := by
  unfold ack
  exact KeysLe_results rs _ h

theorem KeysLe_step (s : St) (e : Ev) (h : KeysLe s) : KeysLe (step s e) :=
  step_ind (P := KeysLe) (fun _ _ _ h => h) KeysLe_cut KeysLe_ack (fun _ h => h) s e h

/-! ### association lists: membership -/

theorem alGet_mem {α} (k : Nat) (v : α) (l : List (Nat × α)) (h : alGet k l = some v) : (k, v) ∈ l := by
  induction l with
  | nil => cases h
  | cons e r ih =>
    obtain ⟨k', v'⟩ := e
    rw [alGet_cons] at h
    split at h
    · next hk =>
      subst hk
      cases h
      exact List.mem_cons_self
    · exact List.mem_cons_of_mem _ (ih h)

theorem alGet_isSome_of_mem {α} (x : Nat × α) (l : List (Nat × α)) (h : x ∈ l) : (alGet x.1 l).isSome = true := by
  induction l with
  | nil => cases h
  | cons e r ih =>
    obtain ⟨k', v'⟩ := e
    rw [alGet_cons]
    split
    · rfl
    · next hk =>
      rcases List.mem_cons.1 h with h | h
      · subst h; exact absurd rfl hk
      · exact ih h

theorem alGet_le_of_KeysLe (s : St) (h : KeysLe s) (q : Nat) (v : Groups) (hq : alGet q s.store = some v) : q ≤ s.seq :=
  h _ (alGet_mem q v s.store hq)

end Iscp.Up

namespace Iscp.Rel
open Iscp Iscp.Up

/-! ### run -/

theorem run_nil (s : St) : run s [] = s := rfl
theorem run_cons (s : St) (e : Ev) (r : List Ev) : run s (e :: r) = run (step s e) r := rfl
theorem run_append (s : St) (a b : List Ev) : run s (a ++ b) = run (run s a) b := List.foldl_append ..

theorem step_up (s : St) (e : Up.Ev) : step s (.up e) = { s with up := Up.step s.up e } := rfl
theorem step_disconnect (s : St) : step s .disconnect = disconnect s := rfl
theorem step_resume (s : St) : step s .resume = resume s := rfl

/-! ### sortBySeq keeps the elements -/

theorem mem_sortStep (acc : List (Nat × Groups)) (x y : Nat × Groups) :
    y ∈ (acc.filter (·.1 ≤ x.1)) ++ [x] ++ (acc.filter (·.1 > x.1)) ↔ y ∈ acc ∨ y = x := by
  simp only [List.mem_append, List.mem_filter, List.mem_singleton, decide_eq_true_eq]
  constructor
  · rintro ((⟨h, _⟩ | h) | ⟨h, _⟩)
    · exact Or.inl h
    · exact Or.inr h
    · exact Or.inl h
  · rintro (h | h)
    · by_cases hle : y.1 ≤ x.1
      · exact Or.inl (Or.inl ⟨h, hle⟩)
      · exact Or.inr ⟨h, by omega⟩
    · exact Or.inl (Or.inr h)

theorem mem_sortFold (m : List (Nat × Groups)) : ∀ (acc : List (Nat × Groups)) (y : Nat × Groups),
    y ∈ m.foldl (fun acc x => (acc.filter (·.1 ≤ x.1)) ++ [x] ++ (acc.filter (·.1 > x.1))) acc ↔ y ∈ acc ∨ y ∈ m := by
  induction m with
  | nil => intro acc y; simp
  | cons x r ih =>
    intro acc y
    rw [List.foldl_cons, ih, mem_sortStep, List.mem_cons, or_assoc]

theorem mem_sortBySeq (m : List (Nat × Groups)) (y : Nat × Groups) : y ∈ sortBySeq m ↔ y ∈ m := by
  unfold sortBySeq
  rw [mem_sortFold]
  simp

/-! ### disconnect and resume, field by field -/

theorem disconnect_up (s : St) : (disconnect s).up = { cut s.up with waiters := [] } := rfl
theorem disconnect_reliable (s : St) : (disconnect s).reliable = s.reliable := rfl
theorem disconnect_resent (s : St) : (disconnect s).resent = s.resent := rfl

theorem resume_reliable (s : St) (hr : s.reliable = true) :
    resume s = { s with resent := s.resent ++ (sortBySeq s.up.store).map (resendOf s.up.rev),
                        up := { s.up with waiters := (sortBySeq s.up.store).map (·.1) }, resumes := s.resumes + 1 } := by
  simp [resume, hr]

theorem resume_unreliable (s : St) (hr : s.reliable = false) :
    resume s = { s with up := { s.up with store := [], waiters := [] }, resumes := s.resumes + 1 } := by
  simp [resume, hr]

theorem resume_rel (s : St) : (resume s).reliable = s.reliable := by
  unfold resume
  split <;> rfl

theorem step_reliable (s : St) (e : Ev) : (step s e).reliable = s.reliable := by
  cases e with
  | up e => rfl
  | disconnect => rfl
  | resume => exact resume_rel s

theorem run_reliable : ∀ (evs : List Ev) (s : St), (run s evs).reliable = s.reliable := by
  intro evs
  induction evs with
  | nil => intro s; rfl
  | cons e r ih => intro s; rw [run_cons, ih, step_reliable]

theorem Eqv_disconnect (s : St) : Eqv (disconnect s).up (cut s.up) := by
  rw [disconnect_up]
  exact ⟨rfl, rfl, rfl, rfl, rfl, rfl, rfl, rfl, rfl, rfl, rfl⟩

theorem Eqv_resume (s : St) : Eqv (resume s).up s.up := by
  unfold resume
  split <;> exact ⟨rfl, rfl, rfl, rfl, rfl, rfl, rfl, rfl, rfl, rfl, rfl⟩

/-- the upstream invariant only speaks about fields outside storage and waiters -/
theorem Inv_of_Eqv (s t : Up.St) (h : Eqv s t) (hi : Inv t) : Inv s := by
  obtain ⟨h1, h2, h3, h4, h5, h6, h7, h8, h9, h10, h11⟩ := h
  exact ⟨h2 ▸ hi.nodup, by rw [h4, h2]; exact hi.cnt, by rw [h8, h5]; exact hi.len, by rw [h8, h5]; exact hi.seqs,
    by rw [h9, h8]; exact hi.hook, by rw [h6, h9]; exact hi.total, by rw [h8]; exact hi.ids, by rw [h9]; exact hi.groups⟩

theorem Inv_step (s : St) (e : Ev) (h : Inv s.up) : Inv (step s e).up := by
  cases e with
  | up e => exact Up.Inv_step s.up e h
  | disconnect => exact Inv_of_Eqv _ _ (Eqv_disconnect s) (Inv_cut _ h)
  | resume => exact Inv_of_Eqv _ _ (Eqv_resume s) h

/-! ### the store invariant along histories with failures -/

theorem Kept_disconnect (s : St) (hi : Inv s.up) (h : Kept s.up) : Kept (disconnect s).up := by
  rw [disconnect_up]
  exact Kept_cut _ hi h

theorem Kept_resume (s : St) (hr : s.reliable = true) (h : Kept s.up) : Kept (resume s).up := by
  rw [resume_reliable s hr]
  exact h

theorem Kept_step (s : St) (e : Ev) (hr : s.reliable = true) (hi : Inv s.up) (h : Kept s.up) : Kept (step s e).up := by
  cases e with
  | up e => exact Up.Kept_step s.up e hi h
  | disconnect => exact Kept_disconnect s hi h
  | resume => exact Kept_resume s hr h

theorem Kept_run : ∀ (evs : List Ev) (s : St), s.reliable = true → Inv s.up → Kept s.up → Kept (run s evs).up := by
  intro evs
  induction evs with
  | nil => intro s _ _ h; exact h
  | cons e r ih =>
    intro s hr hi h
    rw [run_cons]
    exact ih _ ((step_reliable s e).trans hr) (Inv_step s e hi) (Kept_step s e hr hi h)

theorem KeysLe_disconnect (s : St) (h : KeysLe s.up) : KeysLe (disconnect s).up := by
  rw [disconnect_up]
  exact KeysLe_cut _ h

theorem KeysLe_resume (s : St) (h : KeysLe s.up) : KeysLe (resume s).up := by
  unfold resume
  split
  · exact h
  · intro x hx; cases hx

theorem KeysLe_step (s : St) (e : Ev) (h : KeysLe s.up) : KeysLe (step s e).up := by
  cases e with
  | up e => exact Up.KeysLe_step s.up e h
  | disconnect => exact KeysLe_disconnect s h
  | resume => exact KeysLe_resume s h

theorem KeysLe_run : ∀ (evs : List Ev) (s : St), KeysLe s.up → KeysLe (run s evs).up := by
  intro evs
  induction evs with
  | nil => intro s h; exact h
  | cons e r ih => intro s h; rw [run_cons]; exact ih _ (KeysLe_step s e h)

/-- results of one event of a history with failures -/
def res : Ev → List (Nat × Nat)
  | .up e => Up.res e
  | _ => []

theorem ackHook_step (s : St) (e : Ev) : (step s e).up.ackHook = s.up.ackHook ++ res e := by
  cases e with
  | up e => exact Up.ackHook_step s.up e
  | disconnect =>
    show (disconnect s).up.ackHook = s.up.ackHook ++ []
    rw [(Eqv_disconnect s).ackHook, cut_ackHook, List.append_nil]
  | resume =>
    show (resume s).up.ackHook = s.up.ackHook ++ []
    rw [(Eqv_resume s).ackHook, List.append_nil]

theorem ackHook_run : ∀ (evs : List Ev) (s : St), (run s evs).up.ackHook = s.up.ackHook ++ evs.flatMap res := by
  intro evs
  induction evs with
  | nil => intro s; simp [run_nil]
  | cons e r ih => intro s; rw [run_cons, ih, ackHook_step, List.flatMap_cons, List.append_assoc]

/-! ### resume retransmits the store -/

theorem resendOf_seq (rev : List (DataID × Nat)) (e : Nat × Groups) : (resendOf rev e).seq = e.1 := rfl

theorem resendOf_groups (rev : List (DataID × Nat)) (e : Nat × Groups) :
    (resendOf rev e).groups = (groupsToBuf e.2).map (wireOf rev) := rfl

theorem resendOf_resolve (rev : List (DataID × Nat)) (hs : RevSane rev) (e : Nat × Groups) :
    (resendOf rev e).groups.map (resolve rev) = e.2.map some := by
  rw [resendOf_groups]
  unfold groupsToBuf
  rw [List.map_map, List.map_map]
  apply List.map_congr_left
  intro g _
  exact resolve_wireOf rev rev (g.id, g.points) (fun _ hx => hx) hs

theorem resume_resent_mem (s : St) (hr : s.reliable = true) (x : Nat × Groups) (hx : x ∈ s.up.store) :
    resendOf s.up.rev x ∈ (resume s).resent := by
  rw [resume_reliable s hr]
  show resendOf s.up.rev x ∈ s.resent ++ (sortBySeq s.up.store).map (resendOf s.up.rev)
  exact List.mem_append_right _ (List.mem_map_of_mem ((mem_sortBySeq _ _).2 hx))

theorem resume_store (s : St) (hr : s.reliable = true) : (resume s).up.store = s.up.store := by
  rw [resume_reliable s hr]

theorem disconnect_buf (s : St) : (disconnect s).up.buf = [] := by
  rw [disconnect_up]
  exact cut_buf s.up

end Iscp.Rel
