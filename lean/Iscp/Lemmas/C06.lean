import Iscp.Model.Store
import Iscp.Model.Corr
import Iscp.Lemmas.C07
/- helper lemmas for Props/C06.lean -/

namespace Iscp.Corr
open Iscp

theorem run_nil (s : St) : run s [] = (s, []) := rfl

theorem run_cons (s : St) (e : Ev) (r : List Ev) :
    run s (e :: r) = ((run (step s e).1 r).1, (step s e).2 :: (run (step s e).1 r).2) := rfl

/-! ### list helpers -/

theorem nodup_map_filter {α β} (f : α → β) (p : α → Bool) (l : List α) (h : (l.map f).Nodup) :
    ((l.filter p).map f).Nodup :=
  List.Nodup.sublist ((List.filter_sublist (p := p) (l := l)).map f) h

theorem inj_of_nodup_map {α β} (f : α → β) : ∀ (l : List α), (l.map f).Nodup →
    ∀ a ∈ l, ∀ b ∈ l, f a = f b → a = b := by
  intro l
  induction l with
  | nil => intro _ a ha; cases ha
  | cons x r ih =>
    intro h a ha b hb hab
    rw [List.map_cons, List.nodup_cons] at h
    rcases List.mem_cons.mp ha with rfl | ha'
    · rcases List.mem_cons.mp hb with rfl | hb'
      · rfl
      · exact absurd (hab ▸ List.mem_map_of_mem hb') h.1
    · rcases List.mem_cons.mp hb with rfl | hb'
      · exact absurd (hab ▸ List.mem_map_of_mem ha') h.1
      · exact ih h.2 a ha' b hb' hab

/-! ### step equations -/

theorem step_req (s : St) (c : Nat) (k : Kind) :
    step s (.req c k) =
      ({ cur := (s.cur + 2) % 4294967296, pending := alPut s.cur c s.pending,
         waiting := ⟨c, s.cur, k⟩ :: s.waiting.filter (·.caller ≠ c) }, .issued s.cur) := rfl

theorem step_resp_none (s : St) (id : Nat) (rk : RKind) (h : alGet id s.pending = none) :
    step s (.resp id rk) = (s, .ignored) := by
  simp only [step, h]

theorem step_resp_stale (s : St) (id : Nat) (rk : RKind) (c : Nat) (h : alGet id s.pending = some c)
    (hf : s.waiting.find? (fun w => w.caller = c ∧ w.id = id) = none) :
    step s (.resp id rk) = ({ s with pending := alDel id s.pending }, .stale) := by
  simp only [step, h, hf]

theorem step_resp_found (s : St) (id : Nat) (rk : RKind) (c : Nat) (w : Waiter) (h : alGet id s.pending = some c)
    (hf : s.waiting.find? (fun w => w.caller = c ∧ w.id = id) = some w) :
    step s (.resp id rk) =
      ({ s with pending := alDel id s.pending, waiting := s.waiting.filter (·.caller ≠ c) },
       if expected w.kind = rk then .delivered c rk else .mismatch c rk) := by
  simp only [step, h, hf]
  split <;> rfl

theorem step_cancel_none (s : St) (c : Nat) (hf : s.waiting.find? (·.caller = c) = none) :
    step s (.cancel c) = (s, .noop) := by
  simp only [step, hf]

theorem step_cancel_some (s : St) (c : Nat) (w : Waiter) (hf : s.waiting.find? (·.caller = c) = some w) :
    step s (.cancel c) = ({ s with waiting := s.waiting.filter (·.caller ≠ c) }, .cancelled c) := by
  simp only [step, hf]

/-- all the ways a `resp` step can go -/
theorem step_resp_cases (s : St) (id : Nat) (rk : RKind) :
    (alGet id s.pending = none ∧ step s (.resp id rk) = (s, .ignored)) ∨
    (∃ c, alGet id s.pending = some c ∧ s.waiting.find? (fun w => w.caller = c ∧ w.id = id) = none ∧
      step s (.resp id rk) = ({ s with pending := alDel id s.pending }, .stale)) ∨
    (∃ c w, alGet id s.pending = some c ∧ s.waiting.find? (fun w => w.caller = c ∧ w.id = id) = some w ∧
      w ∈ s.waiting ∧ w.caller = c ∧ w.id = id ∧
      step s (.resp id rk) =
        ({ s with pending := alDel id s.pending, waiting := s.waiting.filter (·.caller ≠ c) },
         if expected w.kind = rk then .delivered c rk else .mismatch c rk)) := by
  cases h : alGet id s.pending with
  | none => exact .inl ⟨rfl, step_resp_none s id rk h⟩
  | some c =>
    cases hf : s.waiting.find? (fun w => w.caller = c ∧ w.id = id) with
    | none => exact .inr (.inl ⟨c, rfl, hf, step_resp_stale s id rk c h hf⟩)
    | some w =>
      have hm := List.mem_of_find?_eq_some hf
      have hp := List.find?_some hf
      simp only [decide_eq_true_eq] at hp
      exact .inr (.inr ⟨c, w, rfl, hf, hm, hp.1, hp.2, step_resp_found s id rk c w h hf⟩)

theorem step_resp_cur (s : St) (id : Nat) (rk : RKind) : (step s (.resp id rk)).1.cur = s.cur := by
  rcases step_resp_cases s id rk with ⟨_, h⟩ | ⟨c, _, _, h⟩ | ⟨c, w, _, _, _, _, _, h⟩ <;> rw [h]

theorem step_resp_not_issued (s : St) (id : Nat) (rk : RKind) (i : Nat) : (step s (.resp id rk)).2 ≠ .issued i := by
  rcases step_resp_cases s id rk with ⟨_, h⟩ | ⟨c, _, _, h⟩ | ⟨c, w, _, _, _, _, _, h⟩ <;> rw [h]
  · simp
  · simp
  · dsimp only; split <;> simp

theorem step_cancel_cases (s : St) (c : Nat) :
    (s.waiting.find? (·.caller = c) = none ∧ step s (.cancel c) = (s, .noop)) ∨
    (∃ w, s.waiting.find? (·.caller = c) = some w ∧
      step s (.cancel c) = ({ s with waiting := s.waiting.filter (·.caller ≠ c) }, .cancelled c)) := by
  cases hf : s.waiting.find? (·.caller = c) with
  | none => exact .inl ⟨rfl, step_cancel_none s c hf⟩
  | some w => exact .inr ⟨w, rfl, step_cancel_some s c w hf⟩

theorem step_cancel_cur (s : St) (c : Nat) : (step s (.cancel c)).1.cur = s.cur := by
  rcases step_cancel_cases s c with ⟨_, h⟩ | ⟨w, _, h⟩ <;> rw [h]

theorem step_cancel_not_issued (s : St) (c : Nat) (i : Nat) : (step s (.cancel c)).2 ≠ .issued i := by
  rcases step_cancel_cases s c with ⟨_, h⟩ | ⟨w, _, h⟩ <;> rw [h] <;> simp

/-! ### ids: copies of `issuedIds` / `numReqs` of Props/C06.lean (defined there, after this file) -/

def ids : List Out → List Nat
  | [] => []
  | .issued id :: r => id :: ids r
  | _ :: r => ids r

def nreq : List Ev → Nat
  | [] => 0
  | .req _ _ :: r => nreq r + 1
  | _ :: r => nreq r

theorem ids_cons_not_issued (o : Out) (l : List Out) (h : ∀ i, o ≠ .issued i) : ids (o :: l) = ids l := by
  cases o <;> first | rfl | exact absurd rfl (h _)

theorem ids_main (evs : List Ev) : ∀ (s : St), s.cur % 2 = 0 → s.cur + 2 * nreq evs < 4294967296 →
    (∀ id ∈ ids (run s evs).2, id % 2 = 0 ∧ s.cur ≤ id ∧ id < 4294967296) ∧ (ids (run s evs).2).Nodup := by
  induction evs with
  | nil => intro s _ _; exact ⟨fun _ h => (by cases h), List.nodup_nil⟩
  | cons e r ih =>
    intro s hev hb
    rw [run_cons]
    cases e with
    | req c k =>
      simp only [nreq] at hb
      have hcur : (step s (.req c k)).1.cur = s.cur + 2 := by
        rw [step_req]; dsimp only; omega
      have := ih (step s (.req c k)).1 (by rw [hcur]; omega) (by rw [hcur]; omega)
      rw [hcur] at this
      obtain ⟨h1, h2⟩ := this
      have ho : (step s (.req c k)).2 = .issued s.cur := rfl
      rw [ho]
      simp only [ids]
      refine ⟨?_, ?_⟩
      · intro id hid
        rcases List.mem_cons.mp hid with rfl | hid
        · exact ⟨hev, Nat.le_refl _, by omega⟩
        · have := h1 id hid; omega
      · refine List.nodup_cons.mpr ⟨fun hm => ?_, h2⟩
        have := h1 _ hm; omega
    | resp id rk =>
      simp only [nreq] at hb
      rw [ids_cons_not_issued _ _ (step_resp_not_issued s id rk)]
      have := ih (step s (.resp id rk)).1 (by rw [step_resp_cur]; exact hev) (by rw [step_resp_cur]; exact hb)
      rw [step_resp_cur] at this
      exact this
    | cancel c =>
      simp only [nreq] at hb
      rw [ids_cons_not_issued _ _ (step_cancel_not_issued s c)]
      have := ih (step s (.cancel c)).1 (by rw [step_cancel_cur]; exact hev) (by rw [step_cancel_cur]; exact hb)
      rw [step_cancel_cur] at this
      exact this

/-! ### strengthened invariant -/

structure SInv (s : St) : Prop where
  registered : ∀ w ∈ s.waiting, alGet w.id s.pending = some w.caller
  oneEach : (s.waiting.map (·.caller)).Nodup
  idsDistinct : (s.waiting.map (·.id)).Nodup
  fresh : ∀ w ∈ s.waiting, w.id < s.cur

theorem sinv_init : SInv {} :=
  ⟨fun _ h => (by cases h), List.nodup_nil, List.nodup_nil, fun _ h => (by cases h)⟩

theorem sinv_filter (s : St) (h : SInv s) (p : Waiter → Bool) : SInv { s with waiting := s.waiting.filter p } :=
  ⟨fun w hw => h.registered w (List.mem_filter.mp hw).1,
   nodup_map_filter _ p _ h.oneEach,
   nodup_map_filter _ p _ h.idsDistinct,
   fun w hw => h.fresh w (List.mem_filter.mp hw).1⟩

theorem sinv_req (s : St) (h : SInv s) (c : Nat) (k : Kind) (hb : s.cur + 2 < 4294967296) :
    SInv (step s (.req c k)).1 := by
  rw [step_req]
  have hcur : (s.cur + 2) % 4294967296 = s.cur + 2 := by omega
  have hf := sinv_filter s h (fun w => decide (w.caller ≠ c))
  constructor
  · intro w hw
    rcases List.mem_cons.mp hw with rfl | hw
    · exact alGet_alPut_self _ _ _
    · have hlt := hf.fresh w hw
      have hne : w.id ≠ s.cur := by dsimp only at hlt; omega
      dsimp only
      rw [alGet_alPut_ne hne]
      exact hf.registered w hw
  · dsimp only
    rw [List.map_cons, List.nodup_cons]
    refine ⟨fun hm => ?_, hf.oneEach⟩
    obtain ⟨w, hw, hwc⟩ := List.mem_map.mp hm
    have := (List.mem_filter.mp hw).2
    simp only [decide_eq_true_eq] at this
    exact this hwc
  · dsimp only
    rw [List.map_cons, List.nodup_cons]
    refine ⟨fun hm => ?_, hf.idsDistinct⟩
    obtain ⟨w, hw, hwc⟩ := List.mem_map.mp hm
    have := hf.fresh w hw
    dsimp only at this hwc
    omega
  · intro w hw
    dsimp only
    rw [hcur]
    rcases List.mem_cons.mp hw with rfl | hw
    · dsimp only; omega
    · have := hf.fresh w hw
      dsimp only at this; omega

theorem sinv_resp (s : St) (h : SInv s) (id : Nat) (rk : RKind) : SInv (step s (.resp id rk)).1 := by
  rcases step_resp_cases s id rk with ⟨_, e⟩ | ⟨c, hp, hf, e⟩ | ⟨c, w0, hp, _, _, _, _, e⟩ <;> rw [e]
  · exact h
  · refine ⟨fun w hw => ?_, h.oneEach, h.idsDistinct, h.fresh⟩
    dsimp only at hw ⊢
    have hne : w.id ≠ id := by
      intro hid
      have hr := h.registered w hw
      rw [hid, hp] at hr
      have := List.find?_eq_none.mp hf w hw
      simp only [decide_eq_true_eq, not_and] at this
      exact this (Option.some.inj hr).symm hid
    rw [alGet_alDel_ne hne]
    exact h.registered w hw
  · have hf := sinv_filter s h (fun w => decide (w.caller ≠ c))
    refine ⟨fun w hw => ?_, hf.oneEach, hf.idsDistinct, hf.fresh⟩
    dsimp only at hw ⊢
    have hmem := List.mem_filter.mp hw
    have hc : w.caller ≠ c := by simpa only [decide_eq_true_eq] using hmem.2
    have hne : w.id ≠ id := by
      intro hid
      have hr := h.registered w hmem.1
      rw [hid, hp] at hr
      exact hc (Option.some.inj hr).symm
    rw [alGet_alDel_ne hne]
    exact h.registered w hmem.1

theorem sinv_cancel (s : St) (h : SInv s) (c : Nat) : SInv (step s (.cancel c)).1 := by
  rcases step_cancel_cases s c with ⟨_, e⟩ | ⟨w, _, e⟩ <;> rw [e]
  · exact h
  · exact sinv_filter s h _

theorem sinv_run (evs : List Ev) : ∀ (s : St), SInv s → s.cur + 2 * nreq evs < 4294967296 → SInv (run s evs).1 := by
  induction evs with
  | nil => intro s h _; exact h
  | cons e r ih =>
    intro s h hb
    rw [run_cons]
    cases e with
    | req c k =>
      simp only [nreq] at hb
      have hcur : (step s (.req c k)).1.cur = s.cur + 2 := by
        rw [step_req]; dsimp only; omega
      exact ih _ (sinv_req s h c k (by omega)) (by rw [hcur]; omega)
    | resp id rk =>
      simp only [nreq] at hb
      exact ih _ (sinv_resp s h id rk) (by rw [step_resp_cur]; exact hb)
    | cancel c =>
      simp only [nreq] at hb
      exact ih _ (sinv_cancel s h c) (by rw [step_cancel_cur]; exact hb)

/-! ### single-step facts -/

theorem own_response_aux (s : St) (id : Nat) (rk : RKind) (c : Nat) (s' : St)
    (h : step s (.resp id rk) = (s', .delivered c rk)) :
    ∃ w ∈ s.waiting, w.caller = c ∧ w.id = id ∧ expected w.kind = rk ∧ alGet id s.pending = some c := by
  rcases step_resp_cases s id rk with ⟨_, e⟩ | ⟨c', _, _, e⟩ | ⟨c', w, hp, _, hm, hc, hi, e⟩ <;> rw [e] at h
  · simp at h
  · simp at h
  · by_cases hk : expected w.kind = rk
    · rw [if_pos hk] at h
      simp only [Prod.mk.injEq, Out.delivered.injEq, and_true] at h
      obtain ⟨_, rfl⟩ := h
      exact ⟨w, hm, hc, hi, hk, hp⟩
    · rw [if_neg hk] at h
      simp at h

theorem typed_aux (s : St) (id : Nat) (rk : RKind) (c : Nat) (s' : St)
    (h : step s (.resp id rk) = (s', .mismatch c rk)) :
    ∃ w ∈ s.waiting, w.caller = c ∧ w.id = id ∧ expected w.kind ≠ rk := by
  rcases step_resp_cases s id rk with ⟨_, e⟩ | ⟨c', _, _, e⟩ | ⟨c', w, hp, _, hm, hc, hi, e⟩ <;> rw [e] at h
  · simp at h
  · simp at h
  · by_cases hk : expected w.kind = rk
    · rw [if_pos hk] at h
      simp at h
    · rw [if_neg hk] at h
      simp only [Prod.mk.injEq, Out.mismatch.injEq, and_true] at h
      obtain ⟨_, rfl⟩ := h
      exact ⟨w, hm, hc, hi, hk⟩

theorem others_undisturbed_aux (s : St)
    (hreg : ∀ w ∈ s.waiting, alGet w.id s.pending = some w.caller)
    (hone : (s.waiting.map (·.caller)).Nodup)
    (id : Nat) (rk : RKind) (w : Waiter) (hw : w ∈ s.waiting) (hne : w.id ≠ id) :
    w ∈ (step s (.resp id rk)).1.waiting ∧ alGet w.id (step s (.resp id rk)).1.pending = some w.caller := by
  rcases step_resp_cases s id rk with ⟨_, e⟩ | ⟨c, _, _, e⟩ | ⟨c, w0, hp, _, hm, hc, hi, e⟩ <;> rw [e]
  · exact ⟨hw, hreg w hw⟩
  · dsimp only
    rw [alGet_alDel_ne hne]
    exact ⟨hw, hreg w hw⟩
  · dsimp only
    rw [alGet_alDel_ne hne]
    refine ⟨List.mem_filter.mpr ⟨hw, ?_⟩, hreg w hw⟩
    simp only [decide_eq_true_eq]
    intro hcw
    have := inj_of_nodup_map (·.caller) s.waiting hone w hw w0 hm (hcw.trans hc.symm)
    exact hne (this ▸ hi)

theorem duplicate_ignored_aux (s : St) (id : Nat) (rk rk' : RKind) :
    (step (step s (.resp id rk)).1 (.resp id rk')).2 = .ignored := by
  have key : alGet id (step s (.resp id rk)).1.pending = none := by
    rcases step_resp_cases s id rk with ⟨hn, e⟩ | ⟨c, _, _, e⟩ | ⟨c, w0, _, _, _, _, _, e⟩ <;> rw [e]
    · exact hn
    · exact alGet_alDel_self _ _
    · exact alGet_alDel_self _ _
  rw [step_resp_none _ id rk' key]

theorem cancel_isolated_aux (s : St) (c : Nat) :
    (step s (.cancel c)).1.pending = s.pending ∧
    (step s (.cancel c)).1.waiting = s.waiting.filter (·.caller ≠ c) := by
  rcases step_cancel_cases s c with ⟨hf, e⟩ | ⟨w, _, e⟩ <;> rw [e]
  · refine ⟨rfl, (List.filter_eq_self.mpr ?_).symm⟩
    intro w hw
    have := List.find?_eq_none.mp hf w hw
    simpa only [decide_eq_true_eq, decide_not, Bool.not_eq_true', decide_eq_false_iff_not] using this
  · exact ⟨rfl, rfl⟩

theorem cancelled_stale_aux (s : St)
    (hreg : ∀ w ∈ s.waiting, alGet w.id s.pending = some w.caller)
    (w : Waiter) (hw : w ∈ s.waiting) (rk : RKind) :
    (step (step s (.cancel w.caller)).1 (.resp w.id rk)).2 = .stale := by
  obtain ⟨h1, h2⟩ := cancel_isolated_aux s w.caller
  have hp : alGet w.id (step s (.cancel w.caller)).1.pending = some w.caller := by rw [h1]; exact hreg w hw
  have hf : (step s (.cancel w.caller)).1.waiting.find? (fun w' => w'.caller = w.caller ∧ w'.id = w.id) = none := by
    rw [h2, List.find?_eq_none]
    intro w' hw'
    have := (List.mem_filter.mp hw').2
    simp only [decide_eq_true_eq] at this
    simp only [decide_eq_true_eq, not_and]
    intro hc; exact absurd hc this
  rw [step_resp_stale _ _ _ _ hp hf]

end Iscp.Corr
