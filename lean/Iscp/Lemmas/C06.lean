import Iscp.Model.Store
import Iscp.Model.Corr
/- helper lemmas for Props/C06.lean -/
