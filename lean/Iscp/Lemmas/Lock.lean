import Iscp.Model.Lock
/- helper lemmas for Props/C08Lock.lean and Props/C09.lean -/
namespace Iscp.Lock

/-! ### `leKM` is a total order on `Nat × Mode` -/

theorem leKM_total (a b : Nat × Mode) : leKM a b = true ∨ leKM b a = true := by
  obtain ⟨a1, a2⟩ := a
  obtain ⟨b1, b2⟩ := b
  cases a2 <;> cases b2 <;> simp [leKM] <;> omega

theorem leKM_trans {a b c : Nat × Mode} (h1 : leKM a b = true) (h2 : leKM b c = true) : leKM a c = true := by
  obtain ⟨a1, a2⟩ := a
  obtain ⟨b1, b2⟩ := b
  obtain ⟨c1, c2⟩ := c
  cases a2 <;> cases b2 <;> cases c2 <;> simp [leKM] at h1 h2 ⊢ <;> omega

theorem leKM_antisymm {a b : Nat × Mode} (h1 : leKM a b = true) (h2 : leKM b a = true) : a = b := by
  obtain ⟨a1, a2⟩ := a
  obtain ⟨b1, b2⟩ := b
  cases a2 <;> cases b2 <;> simp [leKM] at h1 h2 ⊢ <;> omega

theorem leKM_refl (a : Nat × Mode) : leKM a a = true := by
  cases leKM_total a a <;> assumption

/-- sortedness of a `Held` list w.r.t. `leKM` -/
abbrev SortedH (h : Held) : Prop := h.Pairwise (fun a b => leKM a b = true)

/-! ### `insertH` -/

theorem insertH_cons (e x : Nat × Mode) (r : Held) :
    insertH e (x :: r) = if leKM e x = true then e :: x :: r else x :: insertH e r := rfl

theorem mem_insertH {e x : Nat × Mode} : ∀ {l : Held}, x ∈ insertH e l → x = e ∨ x ∈ l
  | [], h => by simp [insertH] at h; exact Or.inl h
  | y :: r, h => by
    unfold insertH at h
    split at h
    · simpa using h
    · rcases List.mem_cons.mp h with h | h
      · exact Or.inr (by simp [h])
      · rcases mem_insertH h with h | h
        · exact Or.inl h
        · exact Or.inr (List.mem_cons_of_mem _ h)

theorem sorted_insertH (e : Nat × Mode) : ∀ (l : Held), SortedH l → SortedH (insertH e l)
  | [], _ => by simp [SortedH, insertH]
  | x :: r, hs => by
    have hs' := List.pairwise_cons.mp hs
    unfold insertH
    split
    · rename_i hle
      refine List.pairwise_cons.mpr ⟨?_, hs⟩
      intro y hy
      rcases List.mem_cons.mp hy with rfl | hy
      · exact hle
      · exact leKM_trans hle (hs'.1 y hy)
    · rename_i hle
      have hxe : leKM x e = true := by
        rcases leKM_total e x with h | h
        · exact absurd h hle
        · exact h
      refine List.pairwise_cons.mpr ⟨?_, sorted_insertH e r hs'.2⟩
      intro y hy
      rcases mem_insertH hy with rfl | hy
      · exact hxe
      · exact hs'.1 y hy

theorem sorted_foldr_insertH (entry : Held) {d : Held} (hd : SortedH d) : SortedH (entry.foldr insertH d) := by
  induction entry with
  | nil => exact hd
  | cons e r ih => exact sorted_insertH e _ ih

/-- inserting below a lower bound of the list is `cons` -/
theorem insertH_of_le {e : Nat × Mode} : ∀ {l : Held}, (∀ y ∈ l, leKM e y = true) → insertH e l = e :: l
  | [], _ => rfl
  | x :: r, h => by
    unfold insertH
    rw [if_pos (h x (List.mem_cons_self ..))]

/-! ### `eraseH` -/

theorem mem_of_eraseH {d : Nat × Mode} : ∀ {l l' : Held}, eraseH d l = some l' → d ∈ l
  | [], _, h => by simp [eraseH] at h
  | x :: r, l', h => by
    unfold eraseH at h
    split at h
    · rename_i hx; simp [hx]
    · cases hr : eraseH d r with
      | none => simp [hr] at h
      | some r' => exact List.mem_cons_of_mem _ (mem_of_eraseH hr)

/-- erasing commutes with inserting another (or the same) element into a sorted list -/
theorem eraseH_insertH_comm (d e : Nat × Mode) :
    ∀ {l l' : Held}, SortedH l → eraseH d l = some l' → eraseH d (insertH e l) = some (insertH e l')
  | [], _, _, h => by simp [eraseH] at h
  | x :: r, l', hs, h => by
    have hs' := List.pairwise_cons.mp hs
    unfold eraseH at h
    split at h
    · -- x = d, l' = r
      rename_i hx
      subst hx
      have hl : l' = r := by simpa using h.symm
      subst hl
      rw [insertH_cons]
      split
      · rename_i hle
        by_cases hed : e = x
        · subst hed
          rw [insertH_of_le hs'.1]
          simp [eraseH]
        · have : insertH e l' = e :: l' := insertH_of_le (fun y hy => leKM_trans hle (hs'.1 y hy))
          rw [this]
          simp [eraseH, hed]
      · simp [eraseH]
    · rename_i hx
      cases hr : eraseH d r with
      | none => simp [hr] at h
      | some r' =>
        have hl : l' = x :: r' := by simpa [hr] using h.symm
        subst hl
        have ih := eraseH_insertH_comm d e hs'.2 hr
        rw [insertH_cons]
        split
        · rename_i hle
          have hed : e ≠ d := by
            intro hed
            subst hed
            exact hx (leKM_antisymm (hs'.1 e (mem_of_eraseH hr)) hle)
          simp [eraseH, hed, hx, hr, insertH_cons, hle]
        · rename_i hle
          simp [eraseH, hx, ih, insertH_cons, hle]

/-- the head of a sorted deferred list is found (and removed) in the exit state -/
theorem eraseH_foldr_insertH (d : Nat × Mode) (D : Held) (hs : SortedH (d :: D)) :
    ∀ (entry : Held), eraseH d (entry.foldr insertH (d :: D)) = some (entry.foldr insertH D)
  | [] => by simp [eraseH]
  | e :: r => by
    simp only [List.foldr_cons]
    exact eraseH_insertH_comm d e (sorted_foldr_insertH r hs) (eraseH_foldr_insertH d D hs r)

/-! ### sortedness of the deferred list is an invariant of execution -/

theorem execOp_sorted_deferred {s s' : St} {o : Op} (h : execOp s o = some s') (hs : SortedH s.deferred) :
    SortedH s'.deferred := by
  cases o with
  | lock m k =>
    cases k <;> simp only [execOp] at h <;> split at h <;> simp at h <;> subst h <;> exact hs
  | unlock m k =>
    simp only [execOp] at h
    cases he : eraseH (m, k) s.held with
    | none => simp [he] at h
    | some h' => simp [he] at h; subst h; exact hs
  | deferUnlock m k =>
    simp only [execOp] at h
    simp at h; subst h
    exact sorted_insertH _ _ hs
  | wait m =>
    simp only [execOp] at h
    split at h <;> simp at h
    subst h; exact hs
  | acc x w g =>
    cases w <;> simp only [execOp] at h <;> split at h <;> simp at h <;> subst h <;> exact hs
  | call req =>
    simp only [execOp] at h
    split at h <;> simp at h
    subst h; exact hs
  | other =>
    simp only [execOp] at h
    simp at h; subst h; exact hs

theorem execOps_sorted_deferred : ∀ {ops : List Op} {s s' : St}, execOps s ops = some s' → SortedH s.deferred →
    SortedH s'.deferred
  | [], s, s', h, hs => by simp [execOps] at h; subst h; exact hs
  | o :: r, s, s', h, hs => by
    unfold execOps at h
    split at h
    · rename_i s1 h1
      exact execOps_sorted_deferred h (execOp_sorted_deferred h1 hs)
    · simp at h

theorem runPath_sorted_deferred (f : Fn) : ∀ {p : List Nat} {s s' : St}, runPath f s p = some s' → SortedH s.deferred →
    SortedH s'.deferred
  | [], s, s', h, hs => by simp [runPath] at h; subst h; exact hs
  | i :: r, s, s', h, hs => by
    unfold runPath at h
    split at h
    · simp at h
    · split at h
      · rename_i b _ s1 h1
        exact runPath_sorted_deferred f h (execOps_sorted_deferred h1 hs)
      · simp at h

/-! ### what `checkFn` gives -/

theorem checkFn_cert0 {f : Fn} (h : checkFn f = true) : f.cert[0]? = some ⟨f.entry.foldr insertH [], []⟩ := by
  unfold checkFn at h
  simp only [Bool.and_eq_true] at h
  simpa using h.1.2

theorem checkFn_block {f : Fn} (h : checkFn f = true) {i : Nat} {b : Block} (hb : f.blocks[i]? = some b) :
    checkBlock f i b = true := by
  unfold checkFn at h
  simp only [Bool.and_eq_true] at h
  have hi : i < f.blocks.length := (List.getElem?_eq_some_iff.mp hb).1
  have := List.all_eq_true.mp h.2 i (List.mem_range.mpr hi)
  simpa [hb] using this

theorem checkBlock_spec {f : Fn} {i : Nat} {b : Block} (h : checkBlock f i b = true) :
    ∃ s0 s1, f.cert[i]? = some s0 ∧ execOps s0 b.ops = some s1 ∧ (∀ j ∈ b.succs, f.cert[j]? = some s1) ∧
      (b.exit ≠ .none → exitOk f.entry s1 = true) := by
  unfold checkBlock at h
  split at h
  · simp at h
  · rename_i s0 h0
    split at h
    · simp at h
    · rename_i s1 h1
      simp only [Bool.and_eq_true] at h
      refine ⟨s0, s1, h0, h1, ?_, ?_⟩
      · intro j hj
        have := List.all_eq_true.mp h.1 j hj
        simpa using this
      · intro hne
        have h2 := h.2
        split at h2
        · rename_i he; exact absurd he hne
        · exact h2
        · exact h2

/-- the inductive core of soundness: from any block whose certificate entry is the current state -/
theorem path_sound {f : Fn} (h : checkFn f = true) :
    ∀ (p : List Nat) (i : Nat) (s0 : St), f.cert[i]? = some s0 → isPath f (i :: p) = true →
      ∃ s, runPath f s0 (i :: p) = some s ∧
        (∀ k b, (i :: p).getLast? = some k → f.blocks[k]? = some b → b.exit ≠ .none → exitOk f.entry s = true)
  | [], i, s0, hc, hp => by
    have hi : i < f.blocks.length := by simpa [isPath] using hp
    have hb : f.blocks[i]? = some f.blocks[i] := List.getElem?_eq_getElem hi
    obtain ⟨t0, s1, h0, h1, _, hex⟩ := checkBlock_spec (checkFn_block h hb)
    have : t0 = s0 := by rw [h0] at hc; simpa using hc
    subst this
    refine ⟨s1, ?_, ?_⟩
    · simp [runPath, hb, h1]
    · intro k b hk hkb hne
      have : k = i := by simpa using hk.symm
      subst this
      rw [hb] at hkb
      have : b = f.blocks[k] := by simpa using hkb.symm
      subst this
      exact hex hne
  | j :: r, i, s0, hc, hp => by
    unfold isPath at hp
    simp only [Bool.and_eq_true] at hp
    obtain ⟨hp1, hp2⟩ := hp
    split at hp1
    · rename_i b hb
      obtain ⟨t0, s1, h0, h1, hsucc, _⟩ := checkBlock_spec (checkFn_block h hb)
      have : t0 = s0 := by rw [h0] at hc; simpa using hc
      subst this
      have hj : j ∈ b.succs := by simpa using hp1
      obtain ⟨s, hrun, hex⟩ := path_sound h r j s1 (hsucc j hj) hp2
      refine ⟨s, ?_, ?_⟩
      · rw [runPath, hb]
        simp only [h1]
        exact hrun
      · intro k b' hk
        rw [List.getLast?_cons_cons] at hk
        exact hex k b' hk
    · simp at hp1

end Iscp.Lock
