import Iscp.Model.Rec
import Iscp.Lemmas.C07
/- helper lemmas for Props/C18.lean -/

namespace Iscp.Rec
open Iscp

/-! ### redial -/

theorem redial_zero (s : St) : redial 0 s = { s with dead := true } := rfl

theorem redial_succ (n : Nat) (s : St) : redial (n+1) s =
    match s.script with
    | [] => { s with script := [], dials := s.dials ++ [true], inc := s.inc + 1,
                     failW := decide (0 < s.bornFailing), bornFailing := s.bornFailing - 1 }
    | .ok :: r => { s with script := r, dials := s.dials ++ [true], inc := s.inc + 1,
                           failW := decide (0 < s.bornFailing), bornFailing := s.bornFailing - 1 }
    | _ :: r => redial n { s with script := r, dials := s.dials ++ [true] } := by
  rcases h : s.script with _ | ⟨o, r⟩
  · simp [redial, h]
  · cases o <;> simp [redial, h]

/-- the fields `redial` never touches, and monotonicity of `inc` -/
theorem redial_frame (n : Nat) : ∀ s : St,
    (redial n s).logs = s.logs ∧ (redial n s).rq = s.rq ∧ (redial n s).closed = s.closed ∧
    (redial n s).budget = s.budget ∧ s.inc ≤ (redial n s).inc ∧
    (s.dead = true → (redial n s).dead = true) := by
  induction n with
  | zero => intro s; simp [redial_zero]
  | succ n ih =>
    intro s
    rw [redial_succ]
    split
    · simp
    · simp
    · have := ih { s with script := ‹List Dial›, dials := s.dials ++ [true] }
      simpa using this

theorem redial_logs (n : Nat) (s : St) : (redial n s).logs = s.logs := (redial_frame n s).1
theorem redial_rq (n : Nat) (s : St) : (redial n s).rq = s.rq := (redial_frame n s).2.1
theorem redial_closed (n : Nat) (s : St) : (redial n s).closed = s.closed := (redial_frame n s).2.2.1
theorem redial_inc_le (n : Nat) (s : St) : s.inc ≤ (redial n s).inc := (redial_frame n s).2.2.2.2.1

/-- a redial that does not exhaust the budget opens exactly one new incarnation; it is born with failing writes iff the
    adversary still had spoilt incarnations in stock, and one of them is used up -/
theorem redial_alive (n : Nat) : ∀ s : St, ¬ (redial n s).dead = true →
    (redial n s).inc = s.inc + 1 ∧ (redial n s).failW = decide (0 < s.bornFailing) ∧
    (redial n s).bornFailing = s.bornFailing - 1 := by
  induction n with
  | zero => intro s h; simp [redial_zero] at h
  | succ n ih =>
    intro s
    rw [redial_succ]
    split
    · intro _; exact ⟨rfl, rfl, rfl⟩
    · intro _; exact ⟨rfl, rfl, rfl⟩
    · intro h
      have := ih { s with script := ‹List Dial›, dials := s.dials ++ [true] } h
      simpa using this

/-- with an empty script and a positive budget the first attempt succeeds -/
theorem reconnect_nil (s : St) (hs : s.script = []) (hb : 0 < s.budget) :
    reconnect s = { s with script := [], dials := s.dials ++ [true], inc := s.inc + 1,
                           failW := decide (0 < s.bornFailing), bornFailing := s.bornFailing - 1 } := by
  obtain ⟨n, hn⟩ : ∃ n, s.budget = n + 1 := ⟨s.budget - 1, by omega⟩
  have h := redial_succ n s
  rw [hs] at h
  rw [show reconnect s = redial (n + 1) s from by rw [reconnect, hn]]
  exact h

theorem reconnect_rq (s : St) : (reconnect s).rq = s.rq := redial_rq _ _

theorem redial_dials (n : Nat) : ∀ s : St, ∃ k, (redial n s).dials = s.dials ++ List.replicate k true := by
  induction n with
  | zero => intro s; exact ⟨0, by simp [redial_zero]⟩
  | succ n ih =>
    intro s
    rw [redial_succ]
    split
    · exact ⟨1, rfl⟩
    · exact ⟨1, rfl⟩
    · obtain ⟨k, hk⟩ := ih { s with script := ‹List Dial›, dials := s.dials ++ [true] }
      refine ⟨k + 1, ?_⟩
      rw [hk]
      simp [List.replicate_succ]

/-- BUDGET, for an arbitrary fuel -/
theorem redial_dead_iff (n : Nat) : ∀ s : St,
    (redial n s).dead = true ↔
      (s.dead = true ∨ (n ≤ s.script.length ∧ ∀ o ∈ s.script.take n, o ≠ Dial.ok)) := by
  induction n with
  | zero => intro s; simp [redial_zero]
  | succ n ih =>
    intro s
    rw [redial_succ]
    rcases h : s.script with _ | ⟨o, r⟩
    · simp
    · cases o
      · simp
      · simp only [ih]
        simp
      · simp only [ih]
        simp

theorem redial_dead_dials (n : Nat) : ∀ s : St, (redial n s).dead = true → s.dead = false →
    (redial n s).dials.length = s.dials.length + n := by
  induction n with
  | zero => intro s _ _; simp [redial_zero]
  | succ n ih =>
    intro s
    rw [redial_succ]
    rcases h : s.script with _ | ⟨o, r⟩
    · simp; intro h1 h2; simp [h1] at h2
    · cases o
      · simp; intro h1 h2; simp [h1] at h2
      · intro h1 h2
        have := ih _ h1 h2
        simp at this ⊢
        omega
      · intro h1 h2
        have := ih _ h1 h2
        simp at this ⊢
        omega

/-! ### the logged sequence -/

/-- no incarnation beyond the current one has a log -/
def LogsInv (s : St) : Prop := ∀ k, s.inc < k → alGet k s.logs = none

def logged (logs : List (Nat × List Bytes)) (m : Nat) : List Bytes :=
  ((List.range m).map fun i => (alGet i logs).getD []).flatten

theorem allLogged_eq (s : St) : allLogged s = logged s.logs (s.inc + 1) := rfl

theorem logged_succ (logs : List (Nat × List Bytes)) (m : Nat) :
    logged logs (m + 1) = logged logs m ++ (alGet m logs).getD [] := by
  simp [logged, List.range_succ]

theorem logged_add_of_none (logs : List (Nat × List Bytes)) (m d : Nat)
    (h : ∀ k, m ≤ k → alGet k logs = none) : logged logs (m + d) = logged logs m := by
  induction d with
  | zero => rfl
  | succ d ih =>
    rw [← Nat.add_assoc, logged_succ, ih, h (m + d) (Nat.le_add_right _ _)]
    simp

theorem logged_alPut_lt (logs : List (Nat × List Bytes)) (i m : Nat) (v : List Bytes) (h : m ≤ i) :
    logged (alPut i v logs) m = logged logs m := by
  unfold logged
  congr 1
  apply List.map_congr_left
  intro k hk
  have hk' : k < m := List.mem_range.mp hk
  rw [alGet_alPut_ne (by omega)]

theorem allLogged_of_logs_eq (s s' : St) (hl : s'.logs = s.logs) (hi : s.inc ≤ s'.inc) (hinv : LogsInv s) :
    allLogged s' = allLogged s ∧ LogsInv s' := by
  refine ⟨?_, ?_⟩
  · rw [allLogged_eq, allLogged_eq, hl]
    obtain ⟨d, hd⟩ := Nat.exists_eq_add_of_le hi
    rw [hd, Nat.add_right_comm]
    exact logged_add_of_none _ _ _ (fun k hk => hinv k (by omega))
  · intro k hk
    rw [hl]
    exact hinv k (by omega)

theorem allLogged_redial (n : Nat) (s : St) (hinv : LogsInv s) :
    allLogged (redial n s) = allLogged s ∧ LogsInv (redial n s) :=
  allLogged_of_logs_eq s _ (redial_logs n s) (redial_inc_le n s) hinv

theorem allLogged_logTo (s : St) (bs : Bytes) (hinv : LogsInv s) :
    allLogged (logTo s bs) = allLogged s ++ [bs] ∧ LogsInv (logTo s bs) := by
  refine ⟨?_, ?_⟩
  · rw [allLogged_eq, allLogged_eq]
    show logged (alPut s.inc _ s.logs) (s.inc + 1) = _
    rw [logged_succ, logged_succ, logged_alPut_lt _ _ _ _ (Nat.le_refl _), alGet_alPut_self]
    simp
  · intro k hk
    show alGet k (alPut s.inc _ s.logs) = none
    have hk' : s.inc < k := hk
    rw [alGet_alPut_ne (by omega)]
    exact hinv k hk'

/-! ### single steps -/

theorem write_dead (s : St) (h : s.closed = true ∨ s.dead = true) (bs : Bytes) : write s bs = (s, .err) := by
  simp [write, h]

theorem writeLoop_zero (s : St) (bs : Bytes) : writeLoop 0 s bs = (s, .err) := rfl

theorem writeLoop_succ (n : Nat) (s : St) (bs : Bytes) : writeLoop (n + 1) s bs =
    if s.failW = true then
      (if (reconnect s).dead = true then (reconnect s, .err) else writeLoop n (reconnect s) bs)
    else (logTo s bs, .wrote s.inc) := rfl

theorem write_alive (s : St) (bs : Bytes) (h1 : ¬ (s.closed = true ∨ s.dead = true)) :
    write s bs = writeLoop (s.bornFailing + 2) s bs := by
  unfold write; rw [if_neg h1]

theorem write_live (s : St) (bs : Bytes) (h1 : ¬ (s.closed = true ∨ s.dead = true)) (h2 : ¬ s.failW = true) :
    write s bs = (logTo s bs, .wrote s.inc) := by
  rw [write_alive s bs h1, writeLoop_succ, if_neg h2]

/-- WRITE LOOP: with enough fuel (`bornFailing + 2` if the current incarnation's writes fail, 1 otherwise) the loop ends in
    a state `s'` reached from `s` by redials only (logs, read queue, Close flag untouched; only reconnect dials added), and
    either `s'` is dead and the request fails, or `s'` accepts writes and the request is logged — once — on `s'.inc` -/
theorem writeLoop_spec (bs : Bytes) (n : Nat) : ∀ s : St, 0 < n → (s.failW = true → s.bornFailing + 2 ≤ n) →
    ∃ s' : St, s'.logs = s.logs ∧ s.inc ≤ s'.inc ∧ s'.rq = s.rq ∧ s'.closed = s.closed ∧
      (∃ k, s'.dials = s.dials ++ List.replicate k true) ∧
      ((writeLoop n s bs = (s', .err) ∧ s'.dead = true) ∨
       (writeLoop n s bs = (logTo s' bs, .wrote s'.inc) ∧ s'.failW = false)) := by
  induction n with
  | zero => intro s h; omega
  | succ n ih =>
    intro s _ hf
    rw [writeLoop_succ]
    by_cases h : s.failW = true
    · rw [if_pos h]
      have hfr := redial_frame s.budget s
      have hdl := redial_dials s.budget s
      by_cases hd : (reconnect s).dead = true
      · rw [if_pos hd]
        exact ⟨reconnect s, hfr.1, hfr.2.2.2.2.1, hfr.2.1, hfr.2.2.1, hdl, .inl ⟨rfl, hd⟩⟩
      · rw [if_neg hd]
        obtain ⟨_, ha2, ha3⟩ := redial_alive s.budget s hd
        have hf0 := hf h
        have hf' : (reconnect s).failW = true → (reconnect s).bornFailing + 2 ≤ n := by
          intro hw
          have hw' : decide (0 < s.bornFailing) = true := ha2 ▸ hw
          have hpos : 0 < s.bornFailing := of_decide_eq_true hw'
          have hb : (reconnect s).bornFailing = s.bornFailing - 1 := ha3
          omega
        obtain ⟨s', g1, g2, g3, g4, ⟨k, g5⟩, g6⟩ := ih (reconnect s) (by omega) hf'
        obtain ⟨j, hj⟩ := hdl
        refine ⟨s', g1.trans hfr.1, Nat.le_trans hfr.2.2.2.2.1 g2, g3.trans hfr.2.1, g4.trans hfr.2.2.1,
          ⟨j + k, ?_⟩, g6⟩
        rw [g5]
        show (reconnect s).dials ++ _ = _
        rw [show (reconnect s).dials = _ from hj, List.append_assoc, List.replicate_append_replicate]
    · rw [if_neg h]
      exact ⟨s, rfl, Nat.le_refl _, rfl, rfl, ⟨0, by simp⟩, .inr ⟨rfl, by simpa using h⟩⟩

/-- REPEATED FAILURES: if every redial attempt succeeds (empty script, positive budget) and the adversary spoils the next
    `k` incarnations, the loop redials `k + 1` times and serves the request on incarnation `inc + k + 1` -/
theorem writeLoop_repeated (bs : Bytes) (k : Nat) : ∀ (n : Nat) (s : St), s.failW = true → s.bornFailing = k →
    s.script = [] → 0 < s.budget → ¬ s.dead = true → k + 2 ≤ n →
    ∃ s' : St, writeLoop n s bs = (logTo s' bs, .wrote s'.inc) ∧ s'.inc = s.inc + k + 1 ∧ s'.bornFailing = 0 ∧
      s'.failW = false ∧ s'.logs = s.logs ∧ s'.dials = s.dials ++ List.replicate (k + 1) true := by
  induction k with
  | zero =>
    intro n s hf hk hs hb hd hn
    obtain ⟨m, rfl⟩ : ∃ m, n = m + 2 := ⟨n - 2, by omega⟩
    have hR := reconnect_nil s hs hb
    have hRd : ¬ (reconnect s).dead = true := by rw [hR]; exact hd
    have hRf : ¬ (reconnect s).failW = true := by rw [hR]; simp [hk]
    rw [writeLoop_succ, if_pos hf, if_neg hRd, writeLoop_succ, if_neg hRf]
    refine ⟨reconnect s, rfl, ?_, ?_, ?_, ?_, ?_⟩ <;> rw [hR] <;> simp [hk]
  | succ k ih =>
    intro n s hf hk hs hb hd hn
    obtain ⟨m, rfl⟩ : ∃ m, n = m + 1 := ⟨n - 1, by omega⟩
    have hR := reconnect_nil s hs hb
    have hRd : ¬ (reconnect s).dead = true := by rw [hR]; exact hd
    rw [writeLoop_succ, if_pos hf, if_neg hRd]
    obtain ⟨s', g1, g2, g3, g4, g5, g6⟩ := ih m (reconnect s) (by rw [hR]; simp [hk]) (by rw [hR]; simp [hk])
      (by rw [hR]) (by rw [hR]; exact hb) hRd (by omega)
    refine ⟨s', g1, ?_, g3, g4, ?_, ?_⟩
    · rw [g2, hR]; simp only []; omega
    · rw [g5, hR]
    · rw [g6, hR]; simp [List.replicate_succ]

/-- WRITE: the state `s'` in which the request is finally served or given up -/
theorem write_cases (s : St) (bs : Bytes) :
    ∃ s' : St, s'.logs = s.logs ∧ s.inc ≤ s'.inc ∧ s'.rq = s.rq ∧ s'.closed = s.closed ∧
      (∃ k, s'.dials = s.dials ++ List.replicate k true) ∧
      ((write s bs = (s', .err) ∧ (s.closed = true ∨ s.dead = true ∨ s'.dead = true)) ∨
       (write s bs = (logTo s' bs, .wrote s'.inc) ∧ s'.failW = false)) := by
  by_cases h1 : s.closed = true ∨ s.dead = true
  · refine ⟨s, rfl, Nat.le_refl _, rfl, rfl, ⟨0, by simp⟩, .inl ⟨write_dead s h1 bs, ?_⟩⟩
    rcases h1 with h | h
    · exact .inl h
    · exact .inr (.inl h)
  · rw [write_alive s bs h1]
    obtain ⟨s', g1, g2, g3, g4, g5, g6⟩ := writeLoop_spec bs (s.bornFailing + 2) s (by omega) (fun _ => Nat.le_refl _)
    refine ⟨s', g1, g2, g3, g4, g5, ?_⟩
    rcases g6 with ⟨h, hd⟩ | h
    · exact .inl ⟨h, .inr (.inr hd)⟩
    · exact .inr h

theorem deliver_ping (s : St) (h1 : ¬ (s.closed = true ∨ s.dead = true)) : deliver s pingMsg = write s pongMsg := by
  unfold deliver; rw [if_neg h1, if_pos rfl]

/-- a write either is accepted (logged once, at the end) or returns an error (nothing logged) -/
theorem write_spec (s : St) (bs : Bytes) (hinv : LogsInv s) :
    LogsInv (write s bs).1 ∧
    ((∃ i, (write s bs).2 = .wrote i ∧ allLogged (write s bs).1 = allLogged s ++ [bs]) ∨
     ((write s bs).2 = .err ∧ allLogged (write s bs).1 = allLogged s)) := by
  obtain ⟨s', g1, g2, _, _, _, g6⟩ := write_cases s bs
  have hr : allLogged s' = allLogged s ∧ LogsInv s' := allLogged_of_logs_eq s s' g1 g2 hinv
  rcases g6 with ⟨h, _⟩ | ⟨h, _⟩
  · rw [h]; exact ⟨hr.2, .inr ⟨rfl, hr.1⟩⟩
  · rw [h]
    have hl := allLogged_logTo s' bs hr.2
    exact ⟨hl.2, .inl ⟨_, rfl, by rw [hl.1, hr.1]⟩⟩

/-- one step of `accepted` -/
def acc1 : Ev → Out → List Bytes
  | .write bs, .wrote _ => [bs]
  | .deliver bs, .wrote _ => if bs = pingMsg then [pongMsg] else []
  | _, _ => []

theorem step_logged (s : St) (e : Ev) (hinv : LogsInv s) :
    LogsInv (step s e).1 ∧ allLogged (step s e).1 = allLogged s ++ acc1 e (step s e).2 := by
  cases e with
  | write bs =>
    obtain ⟨h1, h2⟩ := write_spec s bs hinv
    refine ⟨h1, ?_⟩
    simp only [step]
    rcases h2 with ⟨i, ho, hl⟩ | ⟨ho, hl⟩
    · rw [hl, ho]; rfl
    · rw [hl, ho]; simp [acc1]
  | failW => exact ⟨hinv, by simp [step, acc1, allLogged]⟩
  | failR =>
    have hr : allLogged (reconnect s) = allLogged s ∧ LogsInv (reconnect s) := allLogged_redial s.budget s hinv
    simp only [step, failRead]
    split
    · exact ⟨hinv, by simp [acc1]⟩
    · by_cases hdd : (reconnect s).dead = true
      · rw [if_pos hdd]; exact ⟨hr.2, by simp [acc1, hr.1]⟩
      · rw [if_neg hdd]; exact ⟨hr.2, by simp [acc1, hr.1]⟩
  | script l => exact ⟨hinv, by simp [step, acc1, allLogged]⟩
  | deliver bs =>
    simp only [step, deliver]
    split
    · exact ⟨hinv, by simp [acc1]⟩
    · split
      · next hb =>
        obtain ⟨h1, h2⟩ := write_spec s pongMsg hinv
        refine ⟨h1, ?_⟩
        rcases h2 with ⟨i, ho, hl⟩ | ⟨ho, hl⟩
        · rw [hl, ho]; simp [acc1, hb]
        · rw [hl, ho]; simp [acc1]
      · exact ⟨hinv, by simp [acc1, allLogged]⟩
  | read =>
    simp only [step, read]
    split
    · exact ⟨hinv, by simp [acc1]⟩
    · split
      · exact ⟨hinv, by simp [acc1]⟩
      · exact ⟨hinv, by simp [acc1, allLogged]⟩
  | close => exact ⟨hinv, by simp [step, acc1, allLogged, close]⟩
  | bornFailing k => exact ⟨hinv, by simp [step, acc1, allLogged]⟩

theorem run_nil (s : St) : run s [] = (s, []) := rfl

theorem run_cons (s : St) (e : Ev) (r : List Ev) :
    run s (e :: r) = ((run (step s e).1 r).1, (step s e).2 :: (run (step s e).1 r).2) := rfl

/-! ### closed / dead are absorbing -/

theorem step_absorb (s : St) (e : Ev) (h : s.closed = true ∨ s.dead = true) :
    ((step s e).1.closed = true ∨ (step s e).1.dead = true) ∧
    (step s e).1.logs = s.logs ∧ (step s e).1.inc = s.inc := by
  cases e <;> simp [step, write, failRead, deliver, read, close, h]
  all_goals (try (rcases h with h | h <;> simp [h]))

theorem run_absorb (evs : List Ev) : ∀ s : St, (s.closed = true ∨ s.dead = true) →
    ((run s evs).1.closed = true ∨ (run s evs).1.dead = true) ∧
    (run s evs).1.logs = s.logs ∧ (run s evs).1.inc = s.inc := by
  induction evs with
  | nil => intro s h; exact ⟨h, rfl, rfl⟩
  | cons e r ih =>
    intro s h
    rw [run_cons]
    obtain ⟨h1, h2, h3⟩ := step_absorb s e h
    obtain ⟨g1, g2, g3⟩ := ih _ h1
    exact ⟨g1, g2.trans h2, g3.trans h3⟩

/-! ### dials -/

theorem step_dials (s : St) (e : Ev) : ∃ k, (step s e).1.dials = s.dials ++ List.replicate k true := by
  have hr : ∃ k, (reconnect s).dials = s.dials ++ List.replicate k true := redial_dials s.budget s
  have h0 : ∃ k, s.dials = s.dials ++ List.replicate k true := ⟨0, by simp⟩
  have hw : ∀ bs, ∃ k, (write s bs).1.dials = s.dials ++ List.replicate k true := by
    intro bs
    obtain ⟨s', _, _, _, _, g5, g6⟩ := write_cases s bs
    rcases g6 with ⟨h, _⟩ | ⟨h, _⟩ <;> (rw [h]; exact g5)
  cases e with
  | write bs => exact hw bs
  | failW => exact h0
  | failR =>
    simp only [step, failRead]
    split
    · exact h0
    · by_cases hdd : (reconnect s).dead = true
      · rw [if_pos hdd]; exact hr
      · rw [if_neg hdd]; exact hr
  | script l => exact h0
  | deliver bs =>
    simp only [step, deliver]
    split
    · exact h0
    · split
      · exact hw _
      · exact h0
  | read =>
    simp only [step, read]
    split
    · exact h0
    · split <;> exact h0
  | close => exact h0
  | bornFailing k => exact h0

theorem run_dials (evs : List Ev) : ∀ s : St, ∃ k, (run s evs).1.dials = s.dials ++ List.replicate k true := by
  induction evs with
  | nil => intro s; exact ⟨0, by simp [run_nil]⟩
  | cons e r ih =>
    intro s
    rw [run_cons]
    obtain ⟨k, hk⟩ := step_dials s e
    obtain ⟨j, hj⟩ := ih (step s e).1
    refine ⟨k + j, ?_⟩
    rw [hj, hk, List.append_assoc, List.replicate_append_replicate]

/-! ### reads -/

def rd1 : Out → List Bytes
  | .msg b => [b]
  | _ => []

def del1 : Ev → Out → List Bytes
  | .deliver bs, o => if bs ≠ pingMsg ∧ o = .ok then [bs] else []
  | _, _ => []

theorem write_rq (s : St) (bs : Bytes) : (write s bs).1.rq = s.rq ∧ rd1 (write s bs).2 = [] := by
  obtain ⟨s', _, _, g3, _, _, g6⟩ := write_cases s bs
  rcases g6 with ⟨h, _⟩ | ⟨h, _⟩ <;> (rw [h]; exact ⟨g3, rfl⟩)

theorem step_reads (s : St) (e : Ev) (hc : ¬ s.closed = true) (hd : ¬ s.dead = true) :
    rd1 (step s e).2 ++ (step s e).1.rq = s.rq ++ del1 e (step s e).2 := by
  cases e with
  | write bs =>
    obtain ⟨h1, h2⟩ := write_rq s bs
    simp only [step]
    rw [h1, h2]; simp [del1]
  | failW => simp [step, rd1, del1]
  | failR =>
    simp only [step, failRead]
    split
    · simp [rd1, del1]
    · by_cases hdd : (reconnect s).dead = true
      · rw [if_pos hdd]; simp [rd1, del1, reconnect_rq]
      · rw [if_neg hdd]; simp [rd1, del1, reconnect_rq]
  | script l => simp [step, rd1, del1]
  | deliver bs =>
    simp only [step, deliver]
    split
    · next h => rcases h with h | h <;> contradiction
    · split
      · next hb =>
        obtain ⟨h1, h2⟩ := write_rq s pongMsg
        rw [h1, h2]; simp [del1, hb]
      · next hb => simp [rd1, del1, hb]
  | read =>
    simp only [step, read]
    split
    · simp [rd1, del1]
    · split
      · next h => simp [rd1, del1, h]
      · next h => simp [rd1, del1, h]
  | close => simp [step, rd1, del1, close]
  | bornFailing k => simp [step, rd1, del1]

end Iscp.Rec
