import Iscp.Model.ConnM
/-! helper lemmas for C05 / C10 (proofs only; the property statements live in Iscp/Props/C05.lean and C10.lean) -/
namespace Iscp.ConnM

end Iscp.ConnM
