import Iscp.Model.ConnM
/-! helper lemmas for C05 / C10 (proofs only; the property statements live in Iscp/Props/C05.lean and C10.lean) -/
namespace Iscp.ConnM

theorem run_nil (s : St) : run s [] = s := rfl
theorem run_cons (s : St) (e : Ev) (es : List Ev) : run s (e :: es) = run (step s e) es := rfl
theorem run_append (s : St) (a b : List Ev) : run s (a ++ b) = run (run s a) b := by
  simp [run, List.foldl_append]

macro "ev_cases " e:ident : tactic =>
  `(tactic| rcases $e:ident with _ | _ | _ | _ | (_|_) | _ | ⟨_, (_|_)⟩ | _ | _)

theorem step_disc (s : St) (e : Ev) :
    (step s e).disc = s.disc + (if s.status = .connected ∧ (step s e).status = .reconnecting then 1 else 0)
      + (if s.status = .connected ∧ e = .close then 1 else 0) := by
  ev_cases e <;> cases h : s.status <;> simp [step, loseTransport, h] <;> split <;> simp_all

theorem step_reconn (s : St) (e : Ev) :
    (step s e).reconn = s.reconn + (if s.status = .reconnecting ∧ (step s e).status = .connected then 1 else 0) := by
  ev_cases e <;> cases h : s.status <;> simp [step, loseTransport, h] <;> split <;> simp_all

theorem attempts_cons (s : St) (e : Ev) (es : List Ev) :
    attempts s (e :: es) = attempts s [e] + attempts (step s e) es := by
  simp [attempts]

theorem step_dials (s : St) (e : Ev) :
    (step s e).dials = s.dials + attempts s [e] := by
  ev_cases e <;> cases h : s.status <;> simp [attempts, step, loseTransport, h] <;> split <;> simp_all

theorem run_disc (s : St) (evs : List Ev) :
    (run s evs).disc = s.disc + outages s evs + liveCloses s evs := by
  induction evs generalizing s with
  | nil => simp [run_nil, outages, liveCloses]
  | cons e es ih => rw [run_cons, ih, step_disc]; simp only [outages, liveCloses]; omega

theorem run_reconn (s : St) (evs : List Ev) :
    (run s evs).reconn = s.reconn + recoveries s evs := by
  induction evs generalizing s with
  | nil => simp [run_nil, recoveries]
  | cons e es ih => rw [run_cons, ih, step_reconn]; simp only [recoveries]; omega

theorem run_dials (s : St) (evs : List Ev) :
    (run s evs).dials = s.dials + attempts s evs := by
  induction evs generalizing s with
  | nil => simp [run_nil, attempts]
  | cons e es ih => rw [run_cons, ih, step_dials, attempts_cons s e es]; omega


/-! scalar invariant -/
structure Inv1 (s : St) : Prop where
  tok : s.tokens = s.dials
  conn : s.status = .connected → s.disc = s.reconn
  nconn : s.status ≠ .connected → s.disc = s.reconn + 1
  inc : s.inc = s.reconn + 1
  failed : s.status ≠ .closed → s.failed = []
  pend : s.status ≠ .reconnecting → s.pending = []
  dsc : s.status = .closed → s.disconnectSent = 1
  dsn : s.status ≠ .closed → s.disconnectSent = 0
  wac : s.wireAfterClose = 0

theorem inv1_init : Inv1 {} := by constructor <;> simp

theorem inv1_step (s : St) (e : Ev) (h : Inv1 s) : Inv1 (step s e) := by
  obtain ⟨h1, h2, h3, h4, h5, h6, h7, h8, h9⟩ := h
  ev_cases e <;> cases hst : s.status <;> simp only [step, loseTransport, hst, ↓reduceIte, Bool.false_eq_true, reduceCtorEq] <;> (try split) <;>
    simp only [hst, ne_eq, reduceCtorEq, not_false_eq_true, not_true_eq_false, forall_const, false_implies] at h2 h3 h5 h6 h7 h8 <;>
    constructor <;> simp [*]

theorem inv1_run (s : St) (evs : List Ev) (h : Inv1 s) : Inv1 (run s evs) := by
  induction evs generalizing s with
  | nil => exact h
  | cons e es ih => exact ih _ (inv1_step s e h)


/-! stream-level lemmas -/
def IdPres (f : Stream → Stream) : Prop :=
  ∀ x, (f x).sid = x.sid ∧ (f x).dir = x.dir ∧ (f x).streamAlias = x.streamAlias

theorem closeOne_id (b : Bool) : IdPres (closeOne b) := by
  intro x; unfold closeOne; split <;> simp

theorem endWithConn_id : IdPres endWithConn := by
  intro x; unfold endWithConn; split <;> simp

theorem detach_id : IdPres detach := by
  intro x; unfold detach; split <;> simp [closeOne_id true x]

theorem reopen_id : IdPres (fun x => { x with st := .opened, resumedEv := x.resumedEv + 1 }) := by
  intro x; simp

theorem cond_id (sid : Nat) (f : Stream → Stream) (hf : IdPres f) :
    IdPres (fun x => if x.sid = sid then f x else x) := by
  intro x; dsimp only; split
  · exact hf x
  · simp

theorem map_sid (f : Stream → Stream) (hf : IdPres f) (l : List Stream) :
    (l.map f).map (·.sid) = l.map (·.sid) := by
  simp [List.map_map, Function.comp_def, (hf _).1]

theorem closeOne_not_live (b : Bool) (x : Stream) (h : live x = false) : closeOne b x = x := by
  simp [closeOne, h]

theorem endWithConn_not_live (x : Stream) (h : live x = false) : endWithConn x = x := by
  simp [endWithConn, h]

theorem detach_not_live (x : Stream) (h : live x = false) : detach x = x := by
  rcases x with ⟨sid, dir, al, st, re, ce⟩
  cases st <;> simp_all [detach, live]

theorem openPending_sids (next : Nat) (ds : List Dir) :
    (openPending next ds).map (·.sid) = List.range' next ds.length := by
  induction ds generalizing next with
  | nil => simp [openPending]
  | cons d ds ih => simp [openPending, ih, List.range'_succ]

theorem openPending_mem (next : Nat) (ds : List Dir) :
    ∀ x ∈ openPending next ds, x.st = .opened ∧ x.closedEv = 0 ∧ next ≤ x.sid ∧ x.sid < next + ds.length := by
  induction ds generalizing next with
  | nil => simp [openPending]
  | cons d ds ih =>
    intro x hx
    simp only [openPending, List.mem_cons] at hx
    rcases hx with rfl | hx
    · simp
    · have := ih (next + 1) x hx
      simp only [List.length_cons]
      refine ⟨this.1, this.2.1, ?_, ?_⟩ <;> omega

theorem nodup_sid_eq (l : List Stream) (h : (l.map (·.sid)).Nodup) (x y : Stream) (hx : x ∈ l) (hy : y ∈ l)
    (hxy : x.sid = y.sid) : x = y := by
  induction l with
  | nil => cases hx
  | cons a l ih =>
    simp only [List.map_cons, List.nodup_cons, List.mem_map, not_exists, not_and] at h
    rcases List.mem_cons.1 hx with rfl | hx' <;> rcases List.mem_cons.1 hy with rfl | hy'
    · rfl
    · exact absurd hxy.symm (h.1 y hy')
    · exact absurd hxy (h.1 x hx')
    · exact ih h.2 hx' hy'

def StreamOK (st : Status) (d : Nat) (x : Stream) : Prop :=
  (x.st = .opened ∨ x.st = .resuming ∨ x.st = .closedConn → x.closedEv = 0) ∧
  (x.st = .closedOk ∨ x.st = .closedErr → x.closedEv = 1) ∧
  (x.st = .opened → st = .connected) ∧
  (x.st = .resuming → st ≠ .closed) ∧
  (x.st = .closedErr → 1 ≤ d) ∧
  (x.st = .closedConn → st = .closed) ∧
  (x.st = .resuming → 1 ≤ d)

theorem sok_detach (d : Nat) (x : Stream) (h : StreamOK .connected d x) : StreamOK .reconnecting (d + 1) (detach x) := by
  rcases x with ⟨sid, dir, al, st, re, ce⟩
  cases st <;> simp_all [StreamOK, detach, closeOne, live]

theorem sok_closeOk (st : Status) (d : Nat) (x : Stream) (h : StreamOK st d x) (hst : st ≠ .closed) :
    StreamOK st d (closeOne false x) := by
  rcases x with ⟨sid, dir, al, s, re, ce⟩
  cases s <;> simp_all [StreamOK, closeOne, live]

theorem sok_closeErr (st : Status) (d : Nat) (x : Stream) (h : StreamOK st d x) (hd : 1 ≤ d) :
    StreamOK st d (closeOne true x) := by
  rcases x with ⟨sid, dir, al, s, re, ce⟩
  cases s <;> simp_all [StreamOK, closeOne, live]

theorem sok_endWithConn (st : Status) (d d' : Nat) (x : Stream) (h : StreamOK st d x) (hd : d ≤ d') :
    StreamOK .closed d' (endWithConn x) := by
  rcases x with ⟨sid, dir, al, s, re, ce⟩
  cases s <;> simp_all [StreamOK, endWithConn, live] <;> omega

theorem sok_recover (d : Nat) (x : Stream) (h : StreamOK .reconnecting d x) : StreamOK .connected d x := by
  rcases x with ⟨sid, dir, al, s, re, ce⟩
  cases s <;> simp_all [StreamOK]

theorem sok_reopen (d : Nat) (x : Stream) (h : StreamOK .connected d x) (hr : x.st = .resuming) :
    StreamOK .connected d { x with st := .opened, resumedEv := x.resumedEv + 1 } := by
  rcases x with ⟨sid, dir, al, s, re, ce⟩
  cases s <;> simp_all [StreamOK]


/-! stream invariant -/
def SInv (st : Status) (d n : Nat) (l : List Stream) : Prop :=
  (l.map (·.sid)).Nodup ∧ (∀ x ∈ l, x.sid < n) ∧ ∀ x ∈ l, StreamOK st d x

def Inv2 (s : St) : Prop := SInv s.status s.disc s.nextSid s.streams

theorem sinv_map (st st' : Status) (d d' n : Nat) (l : List Stream) (f : Stream → Stream) (hf : IdPres f)
    (hok : ∀ x ∈ l, StreamOK st d x → StreamOK st' d' (f x)) (h : SInv st d n l) : SInv st' d' n (l.map f) := by
  obtain ⟨h1, h2, h3⟩ := h
  refine ⟨by rw [map_sid f hf]; exact h1, ?_, ?_⟩
  · intro y hy
    obtain ⟨x, hx, rfl⟩ := List.mem_map.1 hy
    rw [(hf x).1]; exact h2 x hx
  · intro y hy
    obtain ⟨x, hx, rfl⟩ := List.mem_map.1 hy
    exact hok x hx (h3 x hx)

theorem sinv_upd (st : Status) (d n : Nat) (l : List Stream) (sid : Nat) (f : Stream → Stream) (hf : IdPres f)
    (hok : ∀ x ∈ l, x.sid = sid → StreamOK st d x → StreamOK st d (f x)) (h : SInv st d n l) :
    SInv st d n (updStream sid f l) := by
  unfold updStream
  refine sinv_map st st d d n l _ (cond_id sid f hf) ?_ h
  intro x hx hk
  show StreamOK st d (if x.sid = sid then f x else x)
  split
  · next hs => exact hok x hx hs hk
  · exact hk

theorem sinv_append (st st' : Status) (d n n' : Nat) (l ex : List Stream)
    (hold : ∀ x ∈ l, StreamOK st d x → StreamOK st' d x)
    (hsid : ex.map (·.sid) = List.range' n (n' - n)) (hn : n ≤ n')
    (hex : ∀ x ∈ ex, x.st = .opened ∧ x.closedEv = 0) (hst : st' = .connected)
    (h : SInv st d n l) : SInv st' d n' (l ++ ex) := by
  obtain ⟨h1, h2, h3⟩ := h
  have hexs : ∀ x ∈ ex, n ≤ x.sid ∧ x.sid < n' := by
    intro x hx
    have : x.sid ∈ ex.map (·.sid) := List.mem_map_of_mem hx
    rw [hsid, List.mem_range'_1] at this
    omega
  refine ⟨?_, ?_, ?_⟩
  · rw [List.map_append, List.nodup_append]
    refine ⟨h1, by rw [hsid]; exact List.nodup_range', ?_⟩
    intro a ha b hb
    obtain ⟨x, hx, rfl⟩ := List.mem_map.1 ha
    obtain ⟨y, hy, rfl⟩ := List.mem_map.1 hb
    have := h2 x hx; have := hexs y hy; omega
  · intro x hx
    rcases List.mem_append.1 hx with hx | hx
    · have := h2 x hx; omega
    · exact (hexs x hx).2
  · intro x hx
    rcases List.mem_append.1 hx with hx | hx
    · exact hold x hx (h3 x hx)
    · obtain ⟨ho, hc⟩ := hex x hx
      subst hst
      simp [StreamOK, ho, hc]

theorem inv2_init : Inv2 {} := by simp [Inv2, SInv]

theorem inv2_step (s : St) (e : Ev) (h : Inv2 s) : Inv2 (step s e) := by
  rcases e with d | r | r | _ | (_|_) | _ | ⟨sid, (_|_)⟩ | sid | _ <;> cases hst : s.status <;>
    simp only [Inv2, step, loseTransport, hst, ↓reduceIte, Bool.false_eq_true, reduceCtorEq] at h ⊢ <;>
    (try exact h)
  case openStream.connected =>
    refine sinv_append _ _ _ _ _ _ [_] (fun _ _ hk => hk) ?_ (by omega) ?_ rfl h
    · simp [List.range'_one]
    · simp
  case requestCut.connected =>
    exact sinv_map _ _ _ _ _ _ _ detach_id (fun x _ hk => sok_detach _ x hk) h
  case kill.connected =>
    exact sinv_map _ _ _ _ _ _ _ detach_id (fun x _ hk => sok_detach _ x hk) h
  case dial.true.reconnecting =>
    split
    · dsimp only
      refine sinv_append _ _ _ _ _ _ _ (fun x _ hk => sok_recover _ x hk) ?_ (by omega) ?_ rfl h
      · rw [openPending_sids]; congr 1; omega
      · intro x hx; have := openPending_mem _ _ x hx; exact ⟨this.1, this.2.1⟩
    · rw [hst]; exact h
  case dial.false.reconnecting =>
    split
    · exact h
    · rw [hst]; exact h
  case backoff.reconnecting =>
    split
    · rw [hst]; exact h
    · exact h
  case resume.ok.connected =>
    split
    · next hany =>
      simp only [List.any_eq_true, Bool.and_eq_true, decide_eq_true_eq] at hany
      obtain ⟨y, hy, hys, hyr⟩ := hany
      refine sinv_upd _ _ _ _ _ _ reopen_id ?_ h
      intro x hx hxs hk
      have : x = y := nodup_sid_eq _ h.1 x y hx hy (by omega)
      subst this
      exact sok_reopen _ x hk hyr
    · rw [hst]; exact h
  case resume.refused.connected =>
    split
    · next hany =>
      simp only [List.any_eq_true, Bool.and_eq_true, decide_eq_true_eq] at hany
      obtain ⟨y, hy, hys, hyr⟩ := hany
      have hd : 1 ≤ s.disc := (h.2.2 y hy).2.2.2.2.2.2 hyr
      exact sinv_upd _ _ _ _ _ _ (closeOne_id true) (fun x _ _ hk => sok_closeErr _ _ x hk hd) h
    · rw [hst]; exact h
  case closeStream.connected =>
    exact sinv_upd _ _ _ _ _ _ (closeOne_id false) (fun x _ _ hk => sok_closeOk _ _ x hk (by simp)) h
  case closeStream.reconnecting =>
    exact sinv_upd _ _ _ _ _ _ (closeOne_id false) (fun x _ _ hk => sok_closeOk _ _ x hk (by simp)) h
  case close.connected =>
    exact sinv_map _ _ _ _ _ _ _ endWithConn_id (fun x _ hk => sok_endWithConn _ _ _ x hk (by omega)) h
  case close.reconnecting =>
    exact sinv_map _ _ _ _ _ _ _ endWithConn_id (fun x _ hk => sok_endWithConn _ _ _ x hk (by omega)) h

theorem inv2_run (s : St) (evs : List Ev) (h : Inv2 s) : Inv2 (run s evs) := by
  induction evs generalizing s with
  | nil => exact h
  | cons e es ih => exact ih _ (inv2_step s e h)


/-! identity of streams through a step -/
theorem step_streams_shape (s : St) (e : Ev) :
    (∃ ex, (step s e).streams = s.streams ++ ex) ∨ (∃ f, IdPres f ∧ (step s e).streams = s.streams.map f) := by
  rcases e with d | r | r | _ | (_|_) | _ | ⟨sid, (_|_)⟩ | sid | _ <;> cases hst : s.status <;>
    simp only [step, loseTransport, hst, ↓reduceIte, Bool.false_eq_true, reduceCtorEq] <;>
    (try (first | split | skip)) <;>
    first
    | exact Or.inl ⟨[], (List.append_nil _).symm⟩
    | exact Or.inl ⟨_, rfl⟩
    | exact Or.inr ⟨_, detach_id, rfl⟩
    | exact Or.inr ⟨_, endWithConn_id, rfl⟩
    | exact Or.inr ⟨_, cond_id _ _ reopen_id, rfl⟩
    | exact Or.inr ⟨_, cond_id _ _ (closeOne_id _), rfl⟩

theorem step_streams_pres (s : St) (e : Ev) :
    ∀ x ∈ s.streams, ∃ y ∈ (step s e).streams, y.sid = x.sid ∧ y.dir = x.dir ∧ y.streamAlias = x.streamAlias := by
  intro x hx
  rcases step_streams_shape s e with ⟨ex, h⟩ | ⟨f, hf, h⟩
  · exact ⟨x, by rw [h]; exact List.mem_append_left _ hx, rfl, rfl, rfl⟩
  · exact ⟨f x, by rw [h]; exact List.mem_map_of_mem hx, hf x⟩

theorem step_inc_mono (s : St) (e : Ev) : s.inc ≤ (step s e).inc := by
  ev_cases e <;> cases hst : s.status <;>
    simp only [step, loseTransport, hst, ↓reduceIte, Bool.false_eq_true, reduceCtorEq] <;>
    (try (first | split | skip)) <;> simp

theorem step_resumes (s : St) (e : Ev) :
    ∀ r ∈ (step s e).resumes, r ∈ s.resumes ∨
      (s.status = .connected ∧ r.1 = s.inc ∧ (∃ x ∈ s.streams, x.sid = r.2.1 ∧ x.streamAlias = r.2.2) ∧
        ∃ y ∈ s.streams, y.st = .resuming) := by
  rcases e with d | r | r | _ | (_|_) | _ | ⟨sid, (_|_)⟩ | sid | _ <;> cases hst : s.status <;>
    simp only [step, loseTransport, hst, ↓reduceIte, Bool.false_eq_true, reduceCtorEq] <;>
    (try (first | split | skip)) <;> (try (intro r hr; exact Or.inl hr))
  next hany =>
    simp only [List.any_eq_true, Bool.and_eq_true, decide_eq_true_eq] at hany
    obtain ⟨y, hy, hys, hyr⟩ := hany
    intro r hr
    rcases List.mem_append.1 hr with hr | hr
    · exact Or.inl hr
    · obtain ⟨x, hx, rfl⟩ := List.mem_map.1 hr
      have hx' := (List.mem_filter.1 hx).1
      exact Or.inr ⟨trivial, rfl, ⟨x, hx', rfl, rfl⟩, y, hy, hyr⟩

def Inv3 (s : St) : Prop :=
  ∀ r ∈ s.resumes, ∃ x ∈ s.streams, x.sid = r.2.1 ∧ x.streamAlias = r.2.2 ∧ 2 ≤ r.1 ∧ r.1 ≤ s.inc

theorem inv3_init : Inv3 {} := by simp [Inv3]

theorem inv3_step (s : St) (e : Ev) (h1 : Inv1 s) (h2 : Inv2 s) (h : Inv3 s) : Inv3 (step s e) := by
  intro r hr
  have hm := step_inc_mono s e
  rcases step_resumes s e r hr with hr | ⟨hc, hri, ⟨x, hx, hxs, hxa⟩, y, hy, hyr⟩
  · obtain ⟨x, hx, hxs, hxa, h2r, hri⟩ := h r hr
    obtain ⟨z, hz, hzs, _, hza⟩ := step_streams_pres s e x hx
    exact ⟨z, hz, by omega, by omega, h2r, by omega⟩
  · obtain ⟨z, hz, hzs, _, hza⟩ := step_streams_pres s e x hx
    have hd : 1 ≤ s.disc := (h2.2.2 y hy).2.2.2.2.2.2 hyr
    have := h1.conn hc
    have := h1.inc
    exact ⟨z, hz, by omega, by omega, by omega, by omega⟩

structure Inv (s : St) : Prop where
  i1 : Inv1 s
  i2 : Inv2 s
  i3 : Inv3 s

theorem inv_init : Inv {} := ⟨inv1_init, inv2_init, inv3_init⟩

theorem inv_step (s : St) (e : Ev) (h : Inv s) : Inv (step s e) :=
  ⟨inv1_step s e h.i1, inv2_step s e h.i2, inv3_step s e h.i1 h.i2 h.i3⟩

theorem inv_run (s : St) (evs : List Ev) (h : Inv s) : Inv (run s evs) := by
  induction evs generalizing s with
  | nil => exact h
  | cons e es ih => exact ih _ (inv_step s e h)

theorem inv_reach (evs : List Ev) : Inv (run {} evs) := inv_run _ _ inv_init

/-! a closed stream stays -/
theorem step_keeps_closed_stream (s : St) (e : Ev) (x : Stream) (hx : x ∈ s.streams) (hc : live x = false)
    (hnd : (s.streams.map (·.sid)).Nodup) : x ∈ (step s e).streams := by
  have hupd : ∀ (sid : Nat) (f : Stream → Stream), (x.sid = sid → f x = x) → x ∈ updStream sid f s.streams := by
    intro sid f hf
    refine List.mem_map.2 ⟨x, hx, ?_⟩
    show (if x.sid = sid then f x else x) = x
    split
    · next hs => exact hf hs
    · rfl
  rcases e with d | r | r | _ | (_|_) | _ | ⟨sid, (_|_)⟩ | sid | _ <;> cases hst : s.status <;>
    simp only [step, loseTransport, hst, ↓reduceIte, Bool.false_eq_true, reduceCtorEq] <;>
    (try (first | split | skip)) <;>
    first
    | exact hx
    | exact List.mem_append_left _ hx
    | exact List.mem_map.2 ⟨x, hx, detach_not_live x hc⟩
    | exact List.mem_map.2 ⟨x, hx, endWithConn_not_live x hc⟩
    | exact hupd _ _ (fun _ => closeOne_not_live _ x hc)
    | skip
  next hany =>
    simp only [List.any_eq_true, Bool.and_eq_true, decide_eq_true_eq] at hany
    obtain ⟨y, hy, hys, hyr⟩ := hany
    apply hupd
    intro hs
    have : x = y := nodup_sid_eq _ hnd x y hx hy (by omega)
    subst this
    simp [live, hyr] at hc

/-! closed is absorbing -/
theorem step_closed (s : St) (e : Ev) (h : s.status = .closed) :
    (step s e).status = .closed ∧ (step s e).inc = s.inc ∧ (step s e).dials = s.dials ∧ (step s e).tokens = s.tokens ∧
    (step s e).sent = s.sent ∧ (step s e).resumes = s.resumes ∧ (step s e).disc = s.disc ∧ (step s e).reconn = s.reconn ∧
    (step s e).streams = s.streams ∧ (step s e).disconnectSent = s.disconnectSent ∧
    (step s e).wireAfterClose = s.wireAfterClose ∧ (step s e).pending = s.pending := by
  ev_cases e <;> simp [step, loseTransport, h]

theorem run_closed (s : St) (evs : List Ev) (h : s.status = .closed) :
    (run s evs).status = .closed ∧ (run s evs).inc = s.inc ∧ (run s evs).dials = s.dials ∧ (run s evs).tokens = s.tokens ∧
    (run s evs).sent = s.sent ∧ (run s evs).resumes = s.resumes ∧ (run s evs).disc = s.disc ∧ (run s evs).reconn = s.reconn ∧
    (run s evs).streams = s.streams ∧ (run s evs).disconnectSent = s.disconnectSent ∧
    (run s evs).wireAfterClose = s.wireAfterClose ∧ (run s evs).pending = s.pending := by
  induction evs generalizing s with
  | nil => simp [run_nil, h]
  | cons e es ih =>
    have hs := step_closed s e h
    have := ih (step s e) hs.1
    rw [run_cons]
    simp only [hs] at this
    exact this

theorem step_close_status (s : St) : (step s .close).status = .closed := by
  cases hst : s.status <;> simp [step, hst]

/-! requests -/
def reqOf : Ev → List Nat
  | .request r => [r]
  | .requestCut r => [r]
  | _ => []

theorem step_perm (s : St) (e : Ev) :
    ((step s e).sent.map (·.2) ++ (step s e).pending ++ (step s e).failed).Perm
      (s.sent.map (·.2) ++ s.pending ++ s.failed ++ reqOf e) := by
  ev_cases e <;> cases hst : s.status <;>
    simp only [step, loseTransport, hst, reqOf, ↓reduceIte, Bool.false_eq_true, reduceCtorEq] <;>
    (try (first | split | skip)) <;>
    (rw [List.perm_iff_count]; intro a; simp [List.count_append, List.count_cons, List.map_map, Function.comp_def] <;> omega)

theorem run_perm (s : St) (evs : List Ev) :
    ((run s evs).sent.map (·.2) ++ (run s evs).pending ++ (run s evs).failed).Perm
      (s.sent.map (·.2) ++ s.pending ++ s.failed ++ evs.flatMap reqOf) := by
  induction evs generalizing s with
  | nil => simp [run_nil]
  | cons e es ih =>
    rw [run_cons, List.flatMap_cons, ← List.append_assoc]
    exact (ih (step s e)).trans ((step_perm s e).append_right _)

end Iscp.ConnM
