import Iscp.Model.Store
import Iscp.Model.Corr
/- helper lemmas for Props/C07.lean -/

namespace Iscp

/-! ### association-list frame lemmas -/

theorem alDel_cons {α} (k k' : Nat) (v : α) (r : List (Nat × α)) :
    alDel k ((k', v) :: r) = if k' = k then alDel k r else (k', v) :: alDel k r := by
  by_cases hk : k' = k <;> simp [alDel, hk]

theorem alGet_cons {α} (k k' : Nat) (v : α) (r : List (Nat × α)) :
    alGet k ((k', v) :: r) = if k' = k then some v else alGet k r := rfl

theorem alGet_alDel_self {α} (k : Nat) (l : List (Nat × α)) : alGet k (alDel k l) = none := by
  induction l with
  | nil => rfl
  | cons e r ih =>
    obtain ⟨k', v⟩ := e
    rw [alDel_cons]
    split
    · exact ih
    · next hk => rw [alGet_cons, if_neg hk]; exact ih

theorem alGet_alDel_ne {α} {k k' : Nat} (h : k' ≠ k) (l : List (Nat × α)) :
    alGet k' (alDel k l) = alGet k' l := by
  induction l with
  | nil => rfl
  | cons e r ih =>
    obtain ⟨k'', v⟩ := e
    rw [alDel_cons, alGet_cons]
    split
    · next hk =>
      have : k'' ≠ k' := fun h' => h (h' ▸ hk)
      rw [if_neg this]; exact ih
    · rw [alGet_cons, ih]

theorem alGet_alPut_self {α} (k : Nat) (v : α) (l : List (Nat × α)) : alGet k (alPut k v l) = some v := by
  simp [alPut, alGet]

theorem alGet_alPut_ne {α} {k k' : Nat} (h : k' ≠ k) (v : α) (l : List (Nat × α)) :
    alGet k' (alPut k v l) = alGet k' l := by
  have h' : k ≠ k' := fun e => h e.symm
  simp [alPut, alGet, h', alGet_alDel_ne h]

end Iscp

namespace Iscp.Store
open Iscp

theorem store_frame_aux (np : Bool) (s : St) (op : Op) (b : Nat) (h : op.sid ≠ b) :
    view (step np s op).1 b = view s b := by
  have hb : b ≠ op.sid := fun e => h e.symm
  cases op with
  | store sid seq v => simp only [step, view]; exact alGet_alPut_ne hb _ _
  | remove sid seq =>
    simp only [step, view]
    split
    · rfl
    · split
      · rfl
      · exact alGet_alPut_ne hb _ _
  | list sid =>
    simp only [step, view]
    split <;> rfl
  | clear sid => simp only [step, view]; exact alGet_alDel_ne hb _

theorem store_local_aux (np : Bool) (s s' : St) (op : Op) (h : view s op.sid = view s' op.sid) :
    (step np s op).2 = (step np s' op).2 ∧ view (step np s op).1 op.sid = view (step np s' op).1 op.sid := by
  cases op with
  | store sid seq v =>
    simp only [Op.sid, view] at h
    simp only [step, view, Op.sid, alGet_alPut_self, h, and_self]
  | remove sid seq =>
    simp only [Op.sid, view] at h
    simp only [step, view, Op.sid, ← h]
    cases h1 : alGet sid s with
    | none => simp [h]
    | some m =>
      cases h2 : alGet seq m with
      | none => simp [h2, h]
      | some v => simp [h2, alGet_alPut_self]
  | list sid =>
    simp only [Op.sid, view] at h
    simp only [step, view, Op.sid, ← h]
    cases h1 : alGet sid s with
    | none => simp [h]
    | some m => simp [h]
  | clear sid =>
    simp only [step, view, Op.sid, alGet_alDel_self, and_self]

theorem run_cons (np : Bool) (s : St) (op : Op) (r : List Op) :
    run np s (op :: r) = run np (step np s op).1 r := rfl

/-! ### refinement of the storage to an abstract map (specification side: `absGet`, `specStep`, `specRun`) -/

/-- the abstract content of the storage: (stream id, sequence number) ↦ stored chunk -/
def absGet (s : St) (sid seq : Nat) : Option Groups := (alGet sid s).bind (alGet seq)

/-- the abstract map after one operation (the specification the storage must refine) -/
def specStep (np : Bool) (f : Nat → Nat → Option Groups) : Op → Nat → Nat → Option Groups
  | .store sid seq v => fun a q => if a = sid ∧ q = seq then some (if np then v.withoutPayload else v) else f a q
  | .remove sid seq => fun a q => if a = sid ∧ q = seq then none else f a q
  | .list _ => f
  | .clear sid => fun a q => if a = sid then none else f a q

theorem store_refines_map_lem (np : Bool) (s : St) (op : Op) (a q : Nat) :
    absGet (step np s op).1 a q = specStep np (absGet s) op a q := by
  cases op with
  | store sid seq v =>
    simp only [step, specStep, absGet]
    by_cases ha : a = sid
    · subst ha
      rw [alGet_alPut_self]
      by_cases hq : q = seq
      · subst hq; simp [alGet_alPut_self]
      · simp only [Option.bind_some, alGet_alPut_ne hq, hq, and_false, if_false]
        cases h : alGet a s <;> simp [alGet]
    · simp [alGet_alPut_ne ha, ha]
  | remove sid seq =>
    simp only [step, specStep, absGet]
    cases hm : alGet sid s with
    | none =>
      simp only
      by_cases ha : a = sid
      · subst ha; simp [hm]
      · simp [ha]
    | some m =>
      simp only
      cases hv : alGet seq m with
      | none =>
        simp only
        by_cases ha : a = sid
        · subst ha
          by_cases hq : q = seq
          · subst hq; simp [hm, hv]
          · simp [hq]
        · simp [ha]
      | some v =>
        simp only
        by_cases ha : a = sid
        · subst ha
          rw [alGet_alPut_self]
          by_cases hq : q = seq
          · subst hq; simp [alGet_alDel_self]
          · simp [alGet_alDel_ne hq, hq, hm]
        · simp [alGet_alPut_ne ha, ha]
  | list sid =>
    simp only [step, specStep]
    cases hm : alGet sid s <;> rfl
  | clear sid =>
    simp only [step, specStep, absGet]
    by_cases ha : a = sid
    · subst ha; simp [alGet_alDel_self]
    · simp [alGet_alDel_ne ha, ha]

/-- the abstract map after a whole history -/
def specRun (np : Bool) (f : Nat → Nat → Option Groups) : List Op → Nat → Nat → Option Groups
  | [] => f
  | op :: r => specRun np (specStep np f op) r

theorem store_refines_map_run_lem (np : Bool) (s : St) (ops : List Op) :
    absGet (run np s ops) = specRun np (absGet s) ops := by
  induction ops generalizing s with
  | nil => rfl
  | cons op r ih =>
    simp only [run, specRun]
    rw [ih]
    congr 1
    funext a q
    exact store_refines_map_lem np s op a q

theorem remove_output_lem (np : Bool) (s : St) (sid seq : Nat) (v : Groups) :
    (step np s (.remove sid seq)).2 = .removed v ↔ absGet s sid seq = some v := by
  simp only [step, absGet]
  cases hm : alGet sid s with
  | none => simp
  | some m =>
    cases hv : alGet seq m with
    | none => simp [hv]
    | some w => simp [hv]
theorem list_output_lem (np : Bool) (s : St) (sid : Nat) (m : List (Nat × Groups))
    (h : (step np s (.list sid)).2 = .listed m) : ∀ q, alGet q m = absGet s sid q := by
  simp only [step, absGet] at *
  cases hm : alGet sid s with
  | none => rw [hm] at h; simp at h
  | some m' => rw [hm] at h; simp at h; subst h; intro q; rfl

end Iscp.Store

namespace Iscp.Corr
open Iscp

theorem enqueue_frame (tabs : List (Nat × List Nat)) (a tok b : Nat) (hb : b ≠ a) :
    alGet b (enqueue tabs a tok).1 = alGet b tabs := by
  unfold enqueue
  split
  · rfl
  · split
    · exact alGet_alPut_ne hb _ _
    · rfl

theorem drain_frame (tabs : List (Nat × List Nat)) (a b : Nat) (hb : b ≠ a) :
    alGet b (drain tabs a).1 = alGet b tabs := by
  unfold drain
  split
  · rfl
  · exact alGet_alPut_ne hb _ _

theorem route_frame_aux (t : Tables) (e : REv) (a b : Nat) (h : e.target t = some a) (hb : b ≠ a) :
    rview (rstep t e).1 b = rview t b := by
  cases e with
  | openUp sid a' =>
    simp only [REv.target, Option.some.injEq] at h; subst h
    simp only [rstep, rview, alGet_alPut_ne hb]
  | closeUp sid =>
    simp only [REv.target] at h
    simp only [rstep, h, rview, alGet_alDel_ne hb]
  | subDps a' =>
    simp only [REv.target, Option.some.injEq] at h; subst h
    simp only [rstep]; split
    · rfl
    · simp only [rview, alGet_alPut_ne hb]
  | subDpsU a' =>
    simp only [REv.target, Option.some.injEq] at h; subst h
    simp only [rstep]; split
    · rfl
    · simp only [rview, alGet_alPut_ne hb]
  | subAckc a' =>
    simp only [REv.target, Option.some.injEq] at h; subst h
    simp only [rstep]; split
    · rfl
    · simp only [rview, alGet_alPut_ne hb]
  | subMeta a' n =>
    simp only [REv.target, Option.some.injEq] at h; subst h
    simp only [rstep, rview, alGet_alPut_ne hb]
  | openDown sid a' => rfl
  | closeDown sid =>
    simp only [REv.target] at h
    simp only [rstep, h, rview, alGet_alDel_ne hb]
  | ack a' tok =>
    simp only [REv.target, Option.some.injEq] at h; subst h
    simp only [rstep, rview, enqueue_frame _ _ _ _ hb]
  | chunk a' tok =>
    simp only [REv.target, Option.some.injEq] at h; subst h
    simp only [rstep, rview, enqueue_frame _ _ _ _ hb]
  | chunkU a' tok =>
    simp only [REv.target, Option.some.injEq] at h; subst h
    simp only [rstep, rview, enqueue_frame _ _ _ _ hb]
  | ackComplete a' tok =>
    simp only [REv.target, Option.some.injEq] at h; subst h
    simp only [rstep, rview, enqueue_frame _ _ _ _ hb]
  | metadata a' n tok =>
    simp only [REv.target, Option.some.injEq] at h; subst h
    simp only [rstep]; split
    · rfl
    · simp only [rview, alGet_alPut_ne hb]
  | drainAck a' =>
    simp only [REv.target, Option.some.injEq] at h; subst h
    simp only [rstep, rview, drain_frame _ _ _ hb]
  | drainDps a' =>
    simp only [REv.target, Option.some.injEq] at h; subst h
    simp only [rstep, rview, drain_frame _ _ _ hb]
  | drainDpsU a' =>
    simp only [REv.target, Option.some.injEq] at h; subst h
    simp only [rstep, rview, drain_frame _ _ _ hb]
  | drainAckc a' =>
    simp only [REv.target, Option.some.injEq] at h; subst h
    simp only [rstep, rview, drain_frame _ _ _ hb]
  | drainMeta a' n =>
    simp only [REv.target, Option.some.injEq] at h; subst h
    simp only [rstep]; split
    · rfl
    · simp only [rview, alGet_alPut_ne hb]

theorem ack_step (t : Tables) (a tok : Nat) (q : List Nat) (h : alGet a t.acks = some q) (hq : q.length < qcap) :
    alGet a (rstep t (.ack a tok)).1.acks = some (q ++ [tok]) := by
  simp only [rstep, enqueue, h, hq, if_true, alGet_alPut_self]

theorem route_fifo_aux (toks : List Nat) : ∀ (t : Tables) (a : Nat) (q : List Nat),
    alGet a t.acks = some q → q.length + toks.length ≤ qcap →
    (rstep (toks.foldl (fun t tok => (rstep t (.ack a tok)).1) t) (.drainAck a)).2 = .items (q ++ toks) := by
  induction toks with
  | nil =>
    intro t a q h _
    simp only [List.foldl_nil, rstep, drain, h, List.append_nil]
  | cons tok r ih =>
    intro t a q h hc
    simp only [List.length_cons] at hc
    have hq : q.length < qcap := by omega
    rw [List.foldl_cons, ih _ a (q ++ [tok]) (ack_step t a tok q h hq) (by simp only [List.length_append, List.length_cons, List.length_nil]; omega)]
    simp only [List.append_assoc, List.cons_append, List.nil_append]

end Iscp.Corr
