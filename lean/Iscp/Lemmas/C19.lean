import Iscp.Model.Multi
import Iscp.Lemmas.C07
/- helper lemmas for Props/C19.lean -/

namespace Iscp.Multi
open Iscp

/-! ### association lists with distinct keys: totals -/

def keys (l : List (Nat × Nat)) : List Nat := l.map (·.1)

theorem total_cons (k v : Nat) (r : List (Nat × Nat)) : total ((k, v) :: r) = v + total r := by
  simp [total]

theorem alDel_of_not_mem (k : Nat) (l : List (Nat × Nat)) (h : k ∉ keys l) : alDel k l = l := by
  induction l with
  | nil => rfl
  | cons e r ih =>
    obtain ⟨k', v⟩ := e
    simp only [keys, List.map_cons, List.mem_cons, not_or] at h
    have hk : k' ≠ k := fun e => h.1 e.symm
    rw [alDel_cons, if_neg hk, ih h.2]

theorem alGet_of_not_mem (k : Nat) (l : List (Nat × Nat)) (h : k ∉ keys l) : alGet k l = none := by
  induction l with
  | nil => rfl
  | cons e r ih =>
    obtain ⟨k', v⟩ := e
    simp only [keys, List.map_cons, List.mem_cons, not_or] at h
    have hk : k' ≠ k := fun e => h.1 e.symm
    rw [alGet_cons, if_neg hk, ih h.2]

theorem total_split (k : Nat) (l : List (Nat × Nat)) (h : (keys l).Nodup) :
    total l = total (alDel k l) + (alGet k l).getD 0 := by
  induction l with
  | nil => rfl
  | cons e r ih =>
    obtain ⟨k', v⟩ := e
    simp only [keys, List.map_cons, List.nodup_cons] at h
    rw [alDel_cons, alGet_cons]
    by_cases hk : k' = k
    · subst hk
      rw [if_pos rfl, if_pos rfl, alDel_of_not_mem _ _ h.1, total_cons, Option.getD_some, Nat.add_comm]
    · rw [if_neg hk, if_neg hk, total_cons, total_cons, ih h.2, Nat.add_assoc]

theorem keys_alDel_not_mem (k : Nat) (l : List (Nat × Nat)) : k ∉ keys (alDel k l) := by
  simp [keys, alDel]

theorem keys_alDel_nodup (k : Nat) (l : List (Nat × Nat)) (h : (keys l).Nodup) : (keys (alDel k l)).Nodup := by
  unfold keys alDel
  exact List.Nodup.sublist (List.Sublist.map _ List.filter_sublist) h

theorem keys_bump_nodup (l : List (Nat × Nat)) (k n : Nat) (h : (keys l).Nodup) : (keys (bump l k n)).Nodup := by
  simp only [bump, alPut, keys, List.map_cons, List.nodup_cons]
  exact ⟨keys_alDel_not_mem k l, keys_alDel_nodup k l h⟩

theorem total_bump (l : List (Nat × Nat)) (k n : Nat) (h : (keys l).Nodup) : total (bump l k n) = total l + n := by
  rw [bump, alPut, total_cons, total_split k l h]
  omega

/-! ### run -/

theorem run_nil (s : St) : run s [] = (s, []) := rfl

theorem run_cons (s : St) (e : Ev) (r : List Ev) :
    run s (e :: r) = ((run (step s e).1 r).1, (step s e).2 :: (run (step s e).1 r).2) := rfl

theorem contains_iff (l : List Nat) (a : Nat) : l.contains a = true ↔ a ∈ l := by simp

theorem select_members (s : St) (id : Nat) : (select s id).members = s.members := by
  unfold select; split <;> rfl

theorem step_members (s : St) (e : Ev) : (step s e).1.members = s.members := by
  cases e with
  | select id => exact select_members s id
  | write bs => simp only [step, write]; split <;> rfl
  | memberRead m bs => simp only [step, memberRead]; split <;> rfl
  | read => simp only [step, read]; split <;> rfl
  | close => rfl

theorem run_members (evs : List Ev) : ∀ s : St, (run s evs).1.members = s.members := by
  induction evs with
  | nil => intro s; rfl
  | cons e r ih => intro s; rw [run_cons]; simp only [ih, step_members]

theorem select_current_mem (s : St) (id : Nat) (h : s.current ∈ s.members) :
    (select s id).current ∈ s.members := by
  unfold select; split
  · next hc => exact (contains_iff _ _).1 hc
  · exact h

theorem step_current_mem (s : St) (e : Ev) (h : s.current ∈ s.members) : (step s e).1.current ∈ s.members := by
  cases e with
  | select id => exact select_current_mem s id h
  | write bs => simp only [step, write]; split <;> exact h
  | memberRead m bs => simp only [step, memberRead]; split <;> exact h
  | read => simp only [step, read]; split <;> exact h
  | close => exact h

theorem run_current_mem (evs : List Ev) : ∀ s : St, s.current ∈ s.members →
    (run s evs).1.current ∈ s.members := by
  induction evs with
  | nil => intro s h; exact h
  | cons e r ih =>
    intro s h; rw [run_cons]
    have := ih (step s e).1 (by rw [step_members]; exact step_current_mem s e h)
    rw [step_members] at this; exact this

theorem step_no_crash (s : St) (e : Ev) (h : s.current ∈ s.members) : (step s e).2 ≠ .crash := by
  cases e with
  | select id => simp [step]
  | write bs => simp [step, write, h]
  | memberRead m bs => simp [step]
  | read => simp only [step, read]; split <;> simp
  | close => simp [step, close]

theorem run_no_crash (evs : List Ev) : ∀ s : St, s.current ∈ s.members → Out.crash ∉ (run s evs).2 := by
  induction evs with
  | nil => intro s _; simp [run_nil]
  | cons e r ih =>
    intro s h; rw [run_cons]
    simp only [List.mem_cons, not_or]
    exact ⟨fun e' => step_no_crash s e h e'.symm, ih _ (by rw [step_members]; exact step_current_mem s e h)⟩

theorem new_some (members : List Nat) (initial : Nat) (s0 : St) (h : new members initial = some s0) :
    s0 = { members := members, current := initial } ∧ initial ∈ members := by
  unfold new at h
  split at h
  · cases h
  · split at h
    · cases h
    · next hc =>
      simp only [Option.some.injEq] at h
      exact ⟨h.symm, by simpa using hc⟩

/-! ### per-step effect on the merged queue and on the counters -/

/-- what one event adds to the merged queue -/
def arr1 (members : List Nat) : Ev → List (Nat × Bytes)
  | .memberRead m bs => if m ∈ members then [(m, bs)] else []
  | _ => []

/-- what one output delivers -/
def del1 : Out → List (Nat × Bytes)
  | .msg m bs => [(m, bs)]
  | _ => []

/-- bytes written by one event -/
def wr1 : Ev → Nat
  | .write bs => bs.length
  | _ => 0

theorem step_queue (s : St) (e : Ev) :
    del1 (step s e).2 ++ (step s e).1.queue = s.queue ++ arr1 s.members e := by
  cases e with
  | select id => simp only [step, select, del1, arr1]; split <;> simp
  | write bs => simp only [step, write, arr1]; split <;> simp [del1]
  | memberRead m bs =>
    simp only [step, memberRead, arr1, del1, contains_iff]
    split <;> simp
  | read =>
    simp only [step, read, arr1]
    split
    · next h => simp [del1, h]
    · next h => simp [del1, h]
  | close => simp [step, close, del1, arr1]

structure Inv (s : St) : Prop where
  cur : s.current ∈ s.members
  tx : (keys s.tx).Nodup
  rx : (keys s.rx).Nodup

theorem step_inv (s : St) (e : Ev) (h : Inv s) : Inv (step s e).1 := by
  refine ⟨by rw [step_members]; exact step_current_mem s e h.cur, ?_, ?_⟩
  · cases e with
    | select id => simp only [step, select]; split <;> exact h.tx
    | write bs =>
      simp only [step, write]; split
      · exact keys_bump_nodup _ _ _ h.tx
      · exact h.tx
    | memberRead m bs => simp only [step, memberRead]; split <;> exact h.tx
    | read => simp only [step, read]; split <;> exact h.tx
    | close => exact h.tx
  · cases e with
    | select id => simp only [step, select]; split <;> exact h.rx
    | write bs => simp only [step, write]; split <;> exact h.rx
    | memberRead m bs =>
      simp only [step, memberRead]; split
      · exact keys_bump_nodup _ _ _ h.rx
      · exact h.rx
    | read => simp only [step, read]; split <;> exact h.rx
    | close => exact h.rx

theorem step_tx (s : St) (e : Ev) (h : Inv s) : total (step s e).1.tx = total s.tx + wr1 e := by
  cases e with
  | select id => simp only [step, select, wr1]; split <;> rfl
  | write bs =>
    have hc : s.members.contains s.current = true := (contains_iff _ _).2 h.cur
    simp only [step, write, hc, if_true, wr1]
    exact total_bump _ _ _ h.tx
  | memberRead m bs => simp only [step, memberRead, wr1]; split <;> rfl
  | read => simp only [step, read, wr1]; split <;> rfl
  | close => rfl

theorem step_rx (s : St) (e : Ev) (h : Inv s) :
    total (step s e).1.rx = total s.rx + ((arr1 s.members e).map (·.2.length)).sum := by
  cases e with
  | select id => simp only [step, select, arr1]; split <;> rfl
  | write bs => simp only [step, write, arr1]; split <;> rfl
  | memberRead m bs =>
    simp only [step, memberRead, arr1, contains_iff]
    split
    · simp only [List.map_cons, List.map_nil, List.sum_cons, List.sum_nil, Nat.add_zero]
      exact total_bump _ _ _ h.rx
    · rfl
  | read => simp only [step, read, arr1]; split <;> rfl
  | close => rfl

theorem inv_new (members : List Nat) (initial : Nat) (s0 : St) (h : new members initial = some s0) :
    Inv s0 ∧ s0.members = members ∧ s0.queue = [] ∧ s0.tx = [] ∧ s0.rx = [] := by
  obtain ⟨rfl, hm⟩ := new_some members initial s0 h
  exact ⟨⟨hm, List.nodup_nil, List.nodup_nil⟩, rfl, rfl, rfl, rfl⟩

end Iscp.Multi
