import Iscp.Model.Neg
/- helper lemmas for Props/C17.lean -/
namespace Iscp.Neg
open Iscp.Seg (Bytes be16 rd16)

/-! ### UTF-8 -/

theorem utf8Step_bounds {bs : Bytes} {n : Nat} (h : utf8Step bs = some n) : 1 ≤ n ∧ n ≤ bs.length := by
  unfold utf8Step at h
  split at h
  · simp at h
  · split at h
    · simp at h; subst h; simp
    · split at h
      · split at h
        · split at h <;> simp at h
          subst h; simp
        · simp at h
      · split at h
        · split at h
          · split at h <;> simp at h <;> obtain ⟨_, rfl⟩ := h <;> simp
          · simp at h
        · split at h
          · split at h
            · split at h <;> simp at h <;> obtain ⟨_, rfl⟩ := h <;> simp
            · simp at h
          · simp at h

theorem utf8Step_take {bs : Bytes} {n : Nat} (rest : Bytes) (h : utf8Step bs = some n) :
    utf8Step (bs.take n ++ rest) = some n := by
  unfold utf8Step at h
  split at h
  · simp at h
  · rename_i b0 r
    split at h
    · simp at h; subst h; simp [utf8Step, *]
    · split at h
      · split at h
        · split at h <;> simp at h
          subst h; simp [utf8Step, *]
        · simp at h
      · split at h
        · split at h
          · split at h <;> simp at h <;> obtain ⟨h1, rfl⟩ := h <;> (try subst b0) <;> (try simp at h1) <;> simp [utf8Step, *]
          · simp at h
        · split at h
          · split at h
            · split at h <;> simp at h <;> obtain ⟨h1, rfl⟩ := h <;> (try subst b0) <;> (try simp at h1) <;> simp [utf8Step, *]
            · simp at h
          · simp at h

theorem utf8ValidF_nil (f : Nat) : utf8ValidF f [] = true := by cases f <;> rfl
theorem sanitizeF_nil (f : Nat) : sanitizeF f [] = [] := by cases f <;> rfl

theorem utf8ValidF_fuel : ∀ (f g : Nat) (bs : Bytes), bs.length ≤ f → bs.length ≤ g →
    utf8ValidF f bs = utf8ValidF g bs := by
  intro f
  induction f with
  | zero =>
    intro g bs h1 _
    have : bs = [] := List.eq_nil_of_length_eq_zero (by omega)
    subst this; simp [utf8ValidF_nil]
  | succ f ih =>
    intro g bs h1 h2
    cases bs with
    | nil => simp [utf8ValidF_nil]
    | cons b r =>
      cases g with
      | zero => simp at h2
      | succ g =>
        simp only [utf8ValidF]
        cases hs : utf8Step (b :: r) with
        | none => rfl
        | some n =>
          have hb := utf8Step_bounds hs
          simp only
          apply ih <;> simp only [List.length_drop, List.length_cons] at * <;> omega

theorem sanitizeF_of_valid : ∀ (f : Nat) (bs : Bytes), utf8ValidF f bs = true → sanitizeF f bs = bs := by
  intro f
  induction f with
  | zero => intro bs h; cases bs with
    | nil => rfl
    | cons b r => simp [utf8ValidF] at h
  | succ f ih =>
    intro bs h
    cases bs with
    | nil => rfl
    | cons b r =>
      simp only [utf8ValidF, sanitizeF] at h ⊢
      cases hs : utf8Step (b :: r) with
      | none => simp [hs] at h
      | some n =>
        simp only [hs] at h ⊢
        rw [ih _ h, List.take_append_drop]

theorem sanitize_of_valid (b : Bytes) (h : utf8Valid b = true) : sanitize b = b :=
  sanitizeF_of_valid _ _ h

/-- one valid step in front -/
theorem utf8Valid_step_append {pre rest : Bytes} (h : utf8Step (pre ++ rest) = some pre.length) :
    utf8Valid (pre ++ rest) = utf8Valid rest := by
  have hb := utf8Step_bounds h
  unfold utf8Valid
  cases hl : (pre ++ rest).length with
  | zero => rw [hl] at hb; omega
  | succ m =>
    cases hp : pre ++ rest with
    | nil => simp [hp] at hl
    | cons x y =>
      rw [← hp]
      have : utf8ValidF (m + 1) (pre ++ rest) = utf8ValidF m ((pre ++ rest).drop pre.length) := by
        rw [hp] at h ⊢
        simp only [utf8ValidF, h]
      rw [this, List.drop_left]
      apply utf8ValidF_fuel <;> simp at hl ⊢ <;> omega

theorem utf8Valid_sanitizeF : ∀ (f : Nat) (bs : Bytes), utf8Valid (sanitizeF f bs) = true := by
  intro f
  induction f with
  | zero => intro bs; cases bs <;> rfl
  | succ f ih =>
    intro bs
    cases bs with
    | nil => rfl
    | cons b r =>
      simp only [sanitizeF]
      cases hs : utf8Step (b :: r) with
      | none =>
        simp only
        rw [utf8Valid_step_append (pre := [239, 191, 189]) (by simp [utf8Step, isCont])]
        exact ih _
      | some n =>
        simp only
        have hb := utf8Step_bounds hs
        have h2 := utf8Step_take (sanitizeF f (List.drop n (b :: r))) hs
        have hl : (List.take n (b :: r)).length = n := by rw [List.length_take]; omega
        rw [utf8Valid_step_append (by rw [hl]; exact h2)]
        exact ih _

theorem utf8Valid_sanitize (b : Bytes) : utf8Valid (sanitize b) = true := utf8Valid_sanitizeF _ _

theorem utf8Valid_of_ascii : ∀ (bs : Bytes), (∀ b ∈ bs, b < 128) → utf8Valid bs = true := by
  intro bs
  induction bs with
  | nil => intro _; rfl
  | cons b r ih =>
    intro h
    have hb : b < 128 := h b (by simp)
    have := utf8Valid_step_append (pre := [b]) (rest := r) (by simp [utf8Step, hb])
    simp only [List.singleton_append] at this
    rw [this]
    exact ih (fun x hx => h x (by simp [hx]))


/-! ### decimal integers -/

theorem natDigits_digits : ∀ (f n : Nat), ∀ c ∈ natDigits f n, 48 ≤ c ∧ c ≤ 57 := by
  intro f
  induction f with
  | zero => intro n c hc; simp [natDigits] at hc; omega
  | succ f ih =>
    intro n c hc
    simp only [natDigits] at hc
    split at hc
    · simp at hc; omega
    · simp only [List.mem_append, List.mem_singleton] at hc
      rcases hc with hc | hc
      · exact ih _ _ hc
      · omega

theorem natDigits_ne_nil : ∀ (f n : Nat), natDigits f n ≠ [] := by
  intro f n
  cases f with
  | zero => simp [natDigits]
  | succ f => simp only [natDigits]; split <;> simp

theorem natDigits_length : ∀ (f n k : Nat), 1 ≤ k → n < 10 ^ k → (natDigits f n).length ≤ k := by
  intro f
  induction f with
  | zero => intro n k hk _; simp [natDigits]; omega
  | succ f ih =>
    intro n k hk hn
    simp only [natDigits]
    split
    · simpa using hk
    · rename_i h10
      cases k with
      | zero => omega
      | succ k =>
        cases k with
        | zero => simp at hn; omega
        | succ k =>
          have : n / 10 < 10 ^ (k + 1) := by
            rw [Nat.div_lt_iff_lt_mul (by omega)]
            rw [Nat.pow_succ] at hn; exact hn
          have := ih (n / 10) (k + 1) (by omega) this
          simp only [List.length_append, List.length_singleton]; omega

theorem parseDigits_append_single (l : Bytes) (c acc : Nat) (h1 : 48 ≤ c) (h2 : c ≤ 57) :
    parseDigits (l ++ [c]) acc = (parseDigits l acc).map (fun a => a * 10 + (c - 48)) := by
  induction l generalizing acc with
  | nil => simp [parseDigits, h1, h2]
  | cons d r ih =>
    simp only [List.cons_append, parseDigits]
    split
    · exact ih _
    · rfl

theorem parseDigits_natDigits : ∀ (f n : Nat), n ≤ f → parseDigits (natDigits f n) 0 = some n := by
  intro f
  induction f with
  | zero => intro n h; have : n = 0 := by omega
            subst this; simp [natDigits, parseDigits]
  | succ f ih =>
    intro n h
    simp only [natDigits]
    split
    · simp [parseDigits]; omega
    · rw [parseDigits_append_single _ _ _ (by omega) (by omega), ih (n / 10) (by omega)]
      simp; omega

theorem parseInt_digit (d : Nat) (tl : Bytes) (h1 : 48 ≤ d) (h2 : d ≤ 57) :
    parseInt (d :: tl) = match parseDigits (d :: tl) 0 with
      | some n => if (n : Int) ≤ int64Max then some n else none
      | none => none := by
  unfold parseInt
  split
  · rename_i h; simp at h
  · rename_i h; simp at h; omega
  · rfl

theorem parseQuoted_showInt (i : Int) (hlo : int64Min ≤ i) (hhi : i ≤ int64Max) :
    parseQuoted (showInt i) = .int i := by
  have hne := natDigits_ne_nil i.natAbs i.natAbs
  have hpd := parseDigits_natDigits i.natAbs i.natAbs (Nat.le_refl _)
  have hdg := natDigits_digits i.natAbs i.natAbs
  cases hd : natDigits i.natAbs i.natAbs with
  | nil => exact absurd hd hne
  | cons d tl =>
    have hd1 := hdg d (by simp [hd])
    unfold showInt
    by_cases hneg : i < 0
    · simp only [hneg, if_true, hd]
      have hpi : parseInt (45 :: d :: tl) = some i := by
        simp only [parseInt, List.isEmpty_cons, Bool.false_eq_true, if_false]
        rw [← hd, hpd]
        have : -(i.natAbs : Int) = i := by omega
        simp only [this]
        simp [hlo]
      simp [parseQuoted, hpi]
    · simp only [hneg, if_false, hd]
      have hpi : parseInt (d :: tl) = some i := by
        rw [parseInt_digit _ _ hd1.1 hd1.2, ← hd, hpd]
        have : (i.natAbs : Int) = i := by omega
        simp only [this]
        simp [hhi]
      simp only [parseQuoted, hpi]
      have : d ≠ 110 ∧ d ≠ 116 ∧ d ≠ 102 ∧ d ≠ 34 := by omega
      simp [this, hd1]
/-! ### key/value map -/

theorem tEnc_eq : tEnc = [101, 110, 99] := by decide
theorem tComp_eq : tComp = [99, 111, 109, 112] := by decide
theorem tClevel_eq : tClevel = [99, 108, 101, 118, 101, 108] := by decide
theorem tCwinbits_eq : tCwinbits = [99, 119, 105, 110, 98, 105, 116, 115] := by decide
theorem tTid_eq : tTid = [116, 105, 100] := by decide
theorem tReconnect_eq : tReconnect = [114, 101, 99, 111, 110, 110, 101, 99, 116] := by decide
theorem tTgid_eq : tTgid = [116, 103, 105, 100] := by decide
theorem tTgcount_eq : tTgcount = [116, 103, 99, 111, 117, 110, 116] := by decide
theorem tTgidx_eq : tTgidx = [116, 103, 105, 100, 120] := by decide
theorem ascii_true_eq : ascii "true" = [116, 114, 117, 101] := by decide
theorem ascii_false_eq : ascii "false" = [102, 97, 108, 115, 101] := by decide

theorem applyKV_enc (q : Params) (v : Bytes) : applyKV q tEnc v = some { q with enc := sanitize v } := by
  unfold applyKV; rw [if_neg (by decide)]; rfl
theorem applyKV_comp (q : Params) (v : Bytes) : applyKV q tComp v = some { q with comp := sanitize v } := by
  unfold applyKV; rw [if_neg (by decide)]; rfl
theorem applyKV_tid (q : Params) (v : Bytes) : applyKV q tTid v = some { q with tid := sanitize v } := by
  unfold applyKV; rw [if_neg (by decide)]; rfl
theorem applyKV_tgid (q : Params) (v : Bytes) : applyKV q tTgid v = some { q with tgid := sanitize v } := by
  unfold applyKV; rw [if_neg (by decide)]; rfl
theorem applyKV_clevel (q : Params) (v : Bytes) : applyKV q tClevel v = match parseQuoted v with
      | .null => some { q with clevel := none }
      | .int i => some { q with clevel := some i }
      | .err => none := by
  unfold applyKV; rw [if_neg (by decide)]; rfl
theorem applyKV_cwinbits (q : Params) (v : Bytes) : applyKV q tCwinbits v = match parseQuoted v with
      | .null => some { q with cwinbits := none }
      | .int i => some { q with cwinbits := some i }
      | .err => none := by
  unfold applyKV; rw [if_neg (by decide)]; rfl
theorem applyKV_tgcount (q : Params) (v : Bytes) : applyKV q tTgcount v = match parseQuoted v with
      | .null => some q
      | .int i => some { q with tgcount := i }
      | .err => none := by
  unfold applyKV; rw [if_neg (by decide)]; rfl
theorem applyKV_tgidx (q : Params) (v : Bytes) : applyKV q tTgidx v = match parseQuoted v with
      | .null => some q
      | .int i => some { q with tgidx := i }
      | .err => none := by
  unfold applyKV; rw [if_neg (by decide)]; rfl
theorem applyKV_reconnect (q : Params) (v : Bytes) : applyKV q tReconnect v =
    if v = ascii "true" then some { q with reconnect := true }
    else if v = ascii "false" then some { q with reconnect := false }
    else none := by
  unfold applyKV; rw [if_pos rfl]


/-- fields whose tag satisfies `S` are taken from `p`, the others from `q` -/
def merge (S : Bytes → Bool) (p q : Params) : Params :=
  { enc := if S tEnc then p.enc else q.enc
    comp := if S tComp then p.comp else q.comp
    clevel := if S tClevel then p.clevel else q.clevel
    cwinbits := if S tCwinbits then p.cwinbits else q.cwinbits
    tid := if S tTid then p.tid else q.tid
    reconnect := if S tReconnect then p.reconnect else q.reconnect
    tgid := if S tTgid then p.tgid else q.tgid
    tgcount := if S tTgcount then p.tgcount else q.tgcount
    tgidx := if S tTgidx then p.tgidx else q.tgidx }

theorem merge_merge (k : Bytes) (S : Bytes → Bool) (p q : Params) :
    merge S p (merge (fun a => decide (a = k)) p q) = merge (fun a => decide (a = k) || S a) p q := by
  simp only [merge]
  congr 1 <;> (split <;> split <;> simp_all)

theorem mem_marshalKV (p : Params) (e : Bytes × Bytes) : e ∈ marshalKV p ↔
    (p.enc ≠ [] ∧ e = (tEnc, sanitize p.enc)) ∨ (p.comp ≠ [] ∧ e = (tComp, sanitize p.comp)) ∨
    (∃ i, p.clevel = some i ∧ e = (tClevel, showInt i)) ∨ (∃ i, p.cwinbits = some i ∧ e = (tCwinbits, showInt i)) ∨
    (p.tid ≠ [] ∧ e = (tTid, sanitize p.tid)) ∨ (p.reconnect = true ∧ e = (tReconnect, ascii "true")) ∨
    (p.tgid ≠ [] ∧ e = (tTgid, sanitize p.tgid)) ∨ (p.tgcount ≠ 0 ∧ e = (tTgcount, showInt p.tgcount)) ∨
    (p.tgidx ≠ 0 ∧ e = (tTgidx, showInt p.tgidx)) := by
  rcases p with ⟨enc, comp, cl, cw, tid, rc, tgid, tgc, tgi⟩
  simp only [marshalKV, List.mem_append]
  have ite_mem : ∀ (c : Prop) [Decidable c] (x : Bytes × Bytes), (e ∈ if c then [] else [x]) ↔ (¬ c ∧ e = x) := by
    intro c _ x; split <;> simp [*]
  have ite_mem' : ∀ (c : Prop) [Decidable c] (x : Bytes × Bytes), (e ∈ if c then [x] else []) ↔ (c ∧ e = x) := by
    intro c _ x; split <;> simp [*]
  simp only [ite_mem, ite_mem', or_assoc, ne_eq]
  cases cl <;> cases cw <;> simp


/-- the guard of the round-trip theorems (`WF` of Props/C17.lean, unbundled) -/
structure PWF (p : Params) : Prop where
  enc : utf8Valid p.enc = true
  comp : utf8Valid p.comp = true
  tid : utf8Valid p.tid = true
  tgid : utf8Valid p.tgid = true
  clevel : ∀ i, p.clevel = some i → int64Min ≤ i ∧ i ≤ int64Max
  cwinbits : ∀ i, p.cwinbits = some i → int64Min ≤ i ∧ i ≤ int64Max
  tgcount : int64Min ≤ p.tgcount ∧ p.tgcount ≤ int64Max
  tgidx : int64Min ≤ p.tgidx ∧ p.tgidx ≤ int64Max

theorem applyKV_of_mem (p q : Params) (h : PWF p) (e : Bytes × Bytes) (he : e ∈ marshalKV p) :
    applyKV q e.1 e.2 = some (merge (fun a => decide (a = e.1)) p q) := by
  rw [mem_marshalKV] at he
  rcases p with ⟨enc, comp, cl, cw, tid, rc, tgid, tgc, tgi⟩
  rcases h with ⟨h1, h2, h3, h4, h5, h6, h7, h8⟩
  simp only at h1 h2 h3 h4 h5 h6 h7 h8 he
  rcases he with ⟨_, rfl⟩ | ⟨_, rfl⟩ | ⟨i, hi, rfl⟩ | ⟨i, hi, rfl⟩ | ⟨_, rfl⟩ | ⟨hr, rfl⟩ | ⟨_, rfl⟩ | ⟨_, rfl⟩ | ⟨_, rfl⟩
  · rw [applyKV_enc, sanitize_of_valid _ (utf8Valid_sanitize _), sanitize_of_valid _ h1]
    simp [merge, tEnc_eq, tComp_eq, tClevel_eq, tCwinbits_eq, tTid_eq, tReconnect_eq, tTgid_eq, tTgcount_eq, tTgidx_eq]
  · rw [applyKV_comp, sanitize_of_valid _ (utf8Valid_sanitize _), sanitize_of_valid _ h2]
    simp [merge, tEnc_eq, tComp_eq, tClevel_eq, tCwinbits_eq, tTid_eq, tReconnect_eq, tTgid_eq, tTgcount_eq, tTgidx_eq]
  · rw [applyKV_clevel, parseQuoted_showInt i (h5 i hi).1 (h5 i hi).2]
    simp [merge, hi, tEnc_eq, tComp_eq, tClevel_eq, tCwinbits_eq, tTid_eq, tReconnect_eq, tTgid_eq, tTgcount_eq, tTgidx_eq]
  · rw [applyKV_cwinbits, parseQuoted_showInt i (h6 i hi).1 (h6 i hi).2]
    simp [merge, hi, tEnc_eq, tComp_eq, tClevel_eq, tCwinbits_eq, tTid_eq, tReconnect_eq, tTgid_eq, tTgcount_eq, tTgidx_eq]
  · rw [applyKV_tid, sanitize_of_valid _ (utf8Valid_sanitize _), sanitize_of_valid _ h3]
    simp [merge, tEnc_eq, tComp_eq, tClevel_eq, tCwinbits_eq, tTid_eq, tReconnect_eq, tTgid_eq, tTgcount_eq, tTgidx_eq]
  · rw [applyKV_reconnect, if_pos rfl]
    simp [merge, hr, tEnc_eq, tComp_eq, tClevel_eq, tCwinbits_eq, tTid_eq, tReconnect_eq, tTgid_eq, tTgcount_eq, tTgidx_eq]
  · rw [applyKV_tgid, sanitize_of_valid _ (utf8Valid_sanitize _), sanitize_of_valid _ h4]
    simp [merge, tEnc_eq, tComp_eq, tClevel_eq, tCwinbits_eq, tTid_eq, tReconnect_eq, tTgid_eq, tTgcount_eq, tTgidx_eq]
  · rw [applyKV_tgcount, parseQuoted_showInt _ h7.1 h7.2]
    simp [merge, tEnc_eq, tComp_eq, tClevel_eq, tCwinbits_eq, tTid_eq, tReconnect_eq, tTgid_eq, tTgcount_eq, tTgidx_eq]
  · rw [applyKV_tgidx, parseQuoted_showInt _ h8.1 h8.2]
    simp [merge, tEnc_eq, tComp_eq, tClevel_eq, tCwinbits_eq, tTid_eq, tReconnect_eq, tTgid_eq, tTgcount_eq, tTgidx_eq]


theorem applyAll_of_mem (p : Params) (h : PWF p) : ∀ (l : List (Bytes × Bytes)) (q : Params),
    (∀ e ∈ l, e ∈ marshalKV p) → applyAll q l = some (merge (fun a => l.any (fun e => decide (a = e.1))) p q) := by
  intro l
  induction l with
  | nil => intro q _; simp [applyAll, merge]
  | cons e r ih =>
    intro q hm
    obtain ⟨k, v⟩ := e
    have h1 := applyKV_of_mem p q h (k, v) (hm _ (by simp))
    simp only at h1
    simp only [applyAll, h1]
    rw [ih _ (fun e he => hm e (by simp [he])), merge_merge]
    simp [List.any_cons]

theorem mem_insertKV (e x : Bytes × Bytes) (l : List (Bytes × Bytes)) : x ∈ insertKV e l ↔ x = e ∨ x ∈ l := by
  induction l with
  | nil => simp [insertKV]
  | cons y r ih =>
    simp only [insertKV]
    split
    · simp
    · simp only [List.mem_cons, ih]
      constructor
      · rintro (h | h | h) <;> simp [h]
      · rintro (h | h | h) <;> simp [h]

theorem mem_sortKV (x : Bytes × Bytes) (l : List (Bytes × Bytes)) : x ∈ sortKV l ↔ x ∈ l := by
  induction l with
  | nil => simp [sortKV]
  | cons y r ih =>
    have : sortKV (y :: r) = insertKV y (sortKV r) := rfl
    rw [this, mem_insertKV, ih]; simp

theorem any_key_iff (l : List (Bytes × Bytes)) (a : Bytes) :
    l.any (fun e => decide (a = e.1)) = true ↔ ∃ v, (a, v) ∈ l := by
  simp only [List.any_eq_true, decide_eq_true_eq]
  constructor
  · rintro ⟨⟨k, v⟩, hm, rfl⟩; exact ⟨v, hm⟩
  · rintro ⟨v, hm⟩; exact ⟨(a, v), hm, rfl⟩

theorem any_sortKV (l : List (Bytes × Bytes)) (f : Bytes × Bytes → Bool) : (sortKV l).any f = l.any f := by
  rw [Bool.eq_iff_iff]; simp only [List.any_eq_true, mem_sortKV]

theorem any_ite_nil (c : Prop) [Decidable c] (a t v : Bytes) :
    (if c then [] else [(t, v)]).any (fun e => decide (a = e.1)) = (!decide c && decide (a = t)) := by
  split <;> simp [*]
theorem any_ite_nil' (c : Prop) [Decidable c] (a t v : Bytes) :
    (if c then [(t, v)] else []).any (fun e => decide (a = e.1)) = (decide c && decide (a = t)) := by
  split <;> simp [*]

theorem unmarshalKV_marshalKV (p : Params) (h : PWF p) : unmarshalKV Params.zero (marshalKV p) = some p := by
  unfold unmarshalKV
  rw [applyAll_of_mem p h _ _ (fun e he => (mem_sortKV e _).1 he)]
  congr 1
  rcases p with ⟨enc, comp, cl, cw, tid, rc, tgid, tgc, tgi⟩
  simp only [merge, any_sortKV, marshalKV, List.any_append, any_ite_nil, any_ite_nil', Params.zero]
  cases cl <;> cases cw <;>
    simp [tEnc_eq, tComp_eq, tClevel_eq, tCwinbits_eq, tTid_eq, tReconnect_eq, tTgid_eq, tTgcount_eq, tTgidx_eq] <;>
    exact ⟨fun h => h.symm, fun h => h.symm⟩

/-! ### rejections -/

theorem applyAll_none_of_mem (k v : Bytes) (hnone : ∀ q, applyKV q k v = none) :
    ∀ (l : List (Bytes × Bytes)) (p : Params), (k, v) ∈ l → applyAll p l = none := by
  intro l
  induction l with
  | nil => intro p h; simp at h
  | cons e r ih =>
    intro p h
    obtain ⟨k', v'⟩ := e
    simp only [applyAll]
    rcases List.mem_cons.1 h with h | h
    · obtain ⟨rfl, rfl⟩ := Prod.mk.inj h
      rw [hnone]
    · cases applyKV p k' v' with
      | none => rfl
      | some p' => exact ih p' h

theorem unmarshalKV_none_of_mem (p0 : Params) (kvs : List (Bytes × Bytes)) (k v : Bytes)
    (hnone : ∀ q, applyKV q k v = none) (hmem : (k, v) ∈ kvs) : unmarshalKV p0 kvs = none :=
  applyAll_none_of_mem k v hnone _ _ ((mem_sortKV _ _).2 hmem)

theorem applyKV_numeric_err (k v : Bytes) (hk : k = tClevel ∨ k = tCwinbits ∨ k = tTgcount ∨ k = tTgidx)
    (hv : parseQuoted v = .err) (q : Params) : applyKV q k v = none := by
  rcases hk with rfl | rfl | rfl | rfl
  · rw [applyKV_clevel, hv]
  · rw [applyKV_cwinbits, hv]
  · rw [applyKV_tgcount, hv]
  · rw [applyKV_tgidx, hv]

theorem applyKV_bad_bool (v : Bytes) (h1 : v ≠ ascii "true") (h2 : v ≠ ascii "false") (q : Params) :
    applyKV q tReconnect v = none := by
  rw [applyKV_reconnect, if_neg h1, if_neg h2]

/-! ### URL values -/

theorem urlToKV_map (l : List (Bytes × Bytes)) (h : ∀ e ∈ l, e.1 ≠ []) :
    urlToKV (l.map fun e => (e.1, [e.2])) = some l := by
  induction l with
  | nil => rfl
  | cons e r ih =>
    simp only [List.map_cons, urlToKV]
    rw [if_neg (h e (by simp)), ih (fun x hx => h x (by simp [hx]))]

theorem marshalKV_key_ne_nil (p : Params) : ∀ e ∈ marshalKV p, e.1 ≠ [] := by
  intro e he
  rw [mem_marshalKV] at he
  rcases he with ⟨_, rfl⟩ | ⟨_, rfl⟩ | ⟨i, hi, rfl⟩ | ⟨i, hi, rfl⟩ | ⟨_, rfl⟩ | ⟨hr, rfl⟩ | ⟨_, rfl⟩ | ⟨_, rfl⟩ | ⟨_, rfl⟩ <;> simp only <;> decide

theorem unmarshalURL_marshalURL (p : Params) (h : PWF p) : unmarshalURL Params.zero (marshalURL p) = some p := by
  unfold unmarshalURL marshalURL
  rw [urlToKV_map _ (marshalKV_key_ne_nil p)]
  exact unmarshalKV_marshalKV p h

theorem urlToKV_none (vals : List (Bytes × List Bytes))
    (h : ∃ e ∈ vals, e.1 = [] ∨ e.2.length ≠ 1) : urlToKV vals = none := by
  induction vals with
  | nil => simp at h
  | cons e r ih =>
    obtain ⟨k, vs⟩ := e
    simp only [urlToKV]
    split
    · rfl
    · rename_i hk
      obtain ⟨x, hx, hx2⟩ := h
      rcases List.mem_cons.1 hx with rfl | hx
      · simp only [hk, false_or] at hx2
        match vs, hx2 with
        | [], _ => rfl
        | [_], h => simp at h
        | _ :: _ :: _, _ => rfl
      · rw [ih ⟨x, hx, hx2⟩]
        split <;> rfl

theorem unmarshalURL_none (p0 : Params) (vals : List (Bytes × List Bytes))
    (h : ∃ e ∈ vals, e.1 = [] ∨ e.2.length ≠ 1) : unmarshalURL p0 vals = none := by
  unfold unmarshalURL; rw [urlToKV_none vals h]

/-! ### QUIC binary form -/

/-- per-entry well-formedness for the binary form -/
def EntryOK (e : Bytes × Bytes) : Prop :=
  e.1 ≠ [] ∧ e.1.length < 65536 ∧ e.2.length < 65536 ∧ utf8Valid e.1 = true ∧ utf8Valid e.2 = true

theorem readKVF_nil (f : Nat) (acc : List (Bytes × Bytes)) : readKVF f [] acc = some acc.reverse := by
  cases f <;> rfl

theorem readKVF_cons2 (f : Nat) (a b : Nat) (r : Bytes) (acc : List (Bytes × Bytes)) :
    readKVF (f + 1) (a :: b :: r) acc =
      (let kl := rd16 a b
      if kl = 0 then none
      else if r.length < kl then none
      else
        let k := r.take kl
        let r2 := r.drop kl
        if !utf8Valid k then none else
        match r2 with
        | c :: d :: r3 =>
          let vl := rd16 c d
          if r3.length < vl then none
          else
            let v := r3.take vl
            if !utf8Valid v then none
            else if acc.any (fun e => e.1 = k) then none
            else readKVF f (r3.drop vl) ((k, v) :: acc)
        | _ => none) := by
  rfl

theorem readKVF_step (f : Nat) (k v rest : Bytes) (acc : List (Bytes × Bytes)) (he : EntryOK (k, v))
    (hacc : acc.any (fun e => decide (e.1 = k)) = false) :
    readKVF (f + 1) (be16 k.length ++ k ++ be16 v.length ++ v ++ rest) acc = readKVF f rest ((k, v) :: acc) := by
  obtain ⟨h0, hkl, hvl, hku, hvu⟩ := he
  simp only at h0 hkl hvl hku hvu
  have hk0 : k.length ≠ 0 := by intro h; exact h0 (List.eq_nil_of_length_eq_zero h)
  have e1 : rd16 (k.length / 256 % 256) (k.length % 256) = k.length := by unfold rd16; omega
  have e2 : rd16 (v.length / 256 % 256) (v.length % 256) = v.length := by unfold rd16; omega
  simp only [be16, List.cons_append, List.nil_append, List.append_assoc, readKVF_cons2, e1]
  simp only [hk0, if_false, List.length_append, List.take_left, List.drop_left, hku, Bool.not_true, Bool.false_eq_true,
    List.length_cons, e2, hvu, hacc]
  rw [if_neg (by omega), if_neg (by omega)]


theorem marshalBinKV_cons (k v : Bytes) (r : List (Bytes × Bytes)) :
    marshalBinKV ((k, v) :: r) = be16 k.length ++ k ++ be16 v.length ++ v ++ marshalBinKV r := rfl

theorem readKVF_marshal : ∀ (kvs acc : List (Bytes × Bytes)) (f : Nat), (∀ e ∈ kvs, EntryOK e) →
    (∀ e ∈ kvs, acc.any (fun x => decide (x.1 = e.1)) = false) → (kvs.map (·.1)).Nodup →
    (marshalBinKV kvs).length ≤ f → readKVF f (marshalBinKV kvs) acc = some (acc.reverse ++ kvs) := by
  intro kvs
  induction kvs with
  | nil => intro acc f _ _ _ _; simp [marshalBinKV, readKVF_nil]
  | cons e r ih =>
    intro acc f hok hdis hnd hf
    obtain ⟨k, v⟩ := e
    rw [marshalBinKV_cons] at hf ⊢
    cases f with
    | zero => simp [be16] at hf
    | succ f =>
      rw [readKVF_step f k v _ acc (hok (k, v) (by simp)) (hdis (k, v) (by simp))]
      simp only [List.map_cons, List.nodup_cons] at hnd
      rw [ih ((k, v) :: acc) f (fun e he => hok e (by simp [he])) ?_ hnd.2 ?_]
      · simp
      · intro e he
        simp only [List.any_cons, Bool.or_eq_false_iff, decide_eq_false_iff_not]
        refine ⟨?_, hdis e (by simp [he])⟩
        intro hke
        exact hnd.1 (List.mem_map.2 ⟨e, he, hke.symm⟩)
      · simp only [List.length_append, be16, List.length_cons, List.length_nil] at hf; omega

theorem be16_rd16 (a b : Nat) (ha : a < 256) (hb : b < 256) : be16 (rd16 a b) = [a, b] := by
  have h1 : (a * 256 + b) / 256 % 256 = a := by omega
  have h2 : (a * 256 + b) % 256 = b := by omega
  simp only [be16, rd16, h1, h2]

theorem readKVF_sound : ∀ (f : Nat) (bs : Bytes) (acc res : List (Bytes × Bytes)), (∀ b ∈ bs, b < 256) →
    readKVF f bs acc = some res →
    ∃ kvs, res = acc.reverse ++ kvs ∧ bs = marshalBinKV kvs ∧ (∀ e ∈ kvs, EntryOK e) ∧
      (∀ e ∈ kvs, acc.any (fun x => decide (x.1 = e.1)) = false) ∧ (kvs.map (·.1)).Nodup := by
  intro f
  induction f with
  | zero =>
    intro bs acc res _ h
    cases bs with
    | nil => rw [readKVF_nil] at h; exact ⟨[], by simpa using (Option.some.inj h).symm, rfl, by simp, by simp, by simp⟩
    | cons a r => simp [readKVF] at h
  | succ f ih =>
    intro bs acc res hb h
    match bs, hb, h with
    | [], _, h => rw [readKVF_nil] at h; exact ⟨[], by simpa using (Option.some.inj h).symm, rfl, by simp, by simp, by simp⟩
    | [a], _, h => simp [readKVF] at h
    | a :: b :: r, hb, h =>
      rw [readKVF_cons2] at h
      simp only at h
      split at h; · simp at h
      split at h; · simp at h
      split at h; · simp at h
      split at h
      · rename_i hk0 hkl hku r2 c d r3 hr2
        split at h; · simp at h
        split at h; · simp at h
        split at h; · simp at h
        rename_i hvl hvu hacc
        have ha : a < 256 := hb a (by simp)
        have hb' : b < 256 := hb b (by simp)
        have hr : ∀ x ∈ r, x < 256 := fun x hx => hb x (by simp [hx])
        have hr2' : ∀ x ∈ c :: d :: r3, x < 256 := fun x hx => hr x (List.mem_of_mem_drop (hr2 ▸ hx))
        have hc : c < 256 := hr2' c (by simp)
        have hd : d < 256 := hr2' d (by simp)
        have hr3 : ∀ x ∈ r3, x < 256 := fun x hx => hr2' x (by simp [hx])
        obtain ⟨kvs, h1, h2, h3, h4, h5⟩ := ih _ _ _ (fun x hx => hr3 x (List.mem_of_mem_drop hx)) h
        have lk : (List.take (rd16 a b) r).length = rd16 a b := by rw [List.length_take]; omega
        have lv : (List.take (rd16 c d) r3).length = rd16 c d := by rw [List.length_take]; omega
        refine ⟨(List.take (rd16 a b) r, List.take (rd16 c d) r3) :: kvs, ?_, ?_, ?_, ?_, ?_⟩
        · rw [h1]; simp
        · rw [marshalBinKV_cons, lk, lv, ← h2]
          rw [be16_rd16 a b ha hb', be16_rd16 c d hc hd]
          simp only [List.cons_append, List.nil_append, List.append_assoc, List.take_append_drop]
          rw [← hr2, List.take_append_drop]
        · intro e he
          rcases List.mem_cons.1 he with rfl | he
          · refine ⟨?_, ?_, ?_, ?_, ?_⟩
            · intro hnil; simp only at hnil; rw [hnil] at lk; simp at lk; omega
            · show (List.take (rd16 a b) r).length < 65536
              rw [lk]; unfold rd16; omega
            · show (List.take (rd16 c d) r3).length < 65536
              rw [lv]; unfold rd16; omega
            · simpa using hku
            · simpa using hvu
          · exact h3 e he
        · intro e he
          rcases List.mem_cons.1 he with rfl | he
          · exact Bool.eq_false_iff.2 hacc
          · have := h4 e he
            simp only [List.any_cons, Bool.or_eq_false_iff] at this
            exact this.2
        · simp only [List.map_cons, List.nodup_cons]
          refine ⟨?_, h5⟩
          intro hmem
          obtain ⟨e, he, hke⟩ := List.mem_map.1 hmem
          have := h4 e he
          simp only [List.any_cons, Bool.or_eq_false_iff, decide_eq_false_iff_not] at this
          exact this.1 hke.symm
      · simp at h

theorem readKV_iff (bs : Bytes) (hb : ∀ b ∈ bs, b < 256) (kvs : List (Bytes × Bytes)) :
    readKV bs = some kvs ↔ (bs = marshalBinKV kvs ∧ (∀ e ∈ kvs, EntryOK e) ∧ (kvs.map (·.1)).Nodup) := by
  constructor
  · intro h
    obtain ⟨kvs', h1, h2, h3, _, h5⟩ := readKVF_sound _ _ _ _ hb h
    simp only [List.reverse_nil, List.nil_append] at h1
    subst h1
    exact ⟨h2, h3, h5⟩
  · rintro ⟨rfl, h3, h5⟩
    unfold readKV
    rw [readKVF_marshal kvs [] _ h3 (by simp) h5 (Nat.le_refl _)]
    simp


/-- `Short` of Props/C17.lean, unbundled -/
structure PShort (p : Params) : Prop where
  enc : p.enc.length < 65536
  comp : p.comp.length < 65536
  tid : p.tid.length < 65536
  tgid : p.tgid.length < 65536

theorem showInt_length (i : Int) (hlo : int64Min ≤ i) (hhi : i ≤ int64Max) : (showInt i).length < 65536 := by
  have h10 : (10 : Nat) ^ 19 = 10000000000000000000 := by decide
  have hn : i.natAbs < 10 ^ 19 := by
    rw [h10]; simp only [int64Min, int64Max] at hlo hhi; omega
  have := natDigits_length i.natAbs i.natAbs 19 (by omega) hn
  unfold showInt
  split <;> (try simp only [List.length_cons]) <;> omega

theorem utf8Valid_showInt (i : Int) : utf8Valid (showInt i) = true := by
  apply utf8Valid_of_ascii
  intro b hb
  have hd := natDigits_digits i.natAbs i.natAbs
  unfold showInt at hb
  split at hb
  · rcases List.mem_cons.1 hb with rfl | hb
    · omega
    · have := hd b hb; omega
  · have := hd b hb; omega

theorem entryOK_marshalKV (p : Params) (h : PWF p) (hs : PShort p) : ∀ e ∈ marshalKV p, EntryOK e := by
  intro e he
  rw [mem_marshalKV] at he
  have strOK : ∀ (t s : Bytes), t ≠ [] → t.length < 65536 → utf8Valid t = true → utf8Valid s = true → s.length < 65536 →
      EntryOK (t, sanitize s) := by
    intro t s h1 h2 h3 h4 h5
    refine ⟨h1, h2, ?_, h3, utf8Valid_sanitize s⟩
    rw [sanitize_of_valid s h4]; exact h5
  have intOK : ∀ (t : Bytes) (i : Int), t ≠ [] → t.length < 65536 → utf8Valid t = true → int64Min ≤ i ∧ i ≤ int64Max →
      EntryOK (t, showInt i) := by
    intro t i h1 h2 h3 h4
    exact ⟨h1, h2, showInt_length i h4.1 h4.2, h3, utf8Valid_showInt i⟩
  rcases he with ⟨_, rfl⟩ | ⟨_, rfl⟩ | ⟨i, hi, rfl⟩ | ⟨i, hi, rfl⟩ | ⟨_, rfl⟩ | ⟨hr, rfl⟩ | ⟨_, rfl⟩ | ⟨_, rfl⟩ | ⟨_, rfl⟩
  · exact strOK _ _ (by decide) (by decide) (by decide) h.enc hs.enc
  · exact strOK _ _ (by decide) (by decide) (by decide) h.comp hs.comp
  · exact intOK _ _ (by decide) (by decide) (by decide) (h.clevel i hi)
  · exact intOK _ _ (by decide) (by decide) (by decide) (h.cwinbits i hi)
  · exact strOK _ _ (by decide) (by decide) (by decide) h.tid hs.tid
  · exact ⟨by decide, by decide, by decide, by decide, by decide⟩
  · exact strOK _ _ (by decide) (by decide) (by decide) h.tgid hs.tgid
  · exact intOK _ _ (by decide) (by decide) (by decide) h.tgcount
  · exact intOK _ _ (by decide) (by decide) (by decide) h.tgidx

theorem marshalKV_keys_nodup (p : Params) : ((marshalKV p).map (·.1)).Nodup := by
  have p1 : ∀ (c : Prop) [Decidable c] (t v : Bytes), List.Sublist ((if c then [] else [(t, v)]).map (·.1)) [t] := by
    intro c _ t v; split <;> simp
  have p2 : ∀ (c : Prop) [Decidable c] (t v : Bytes), List.Sublist ((if c then [(t, v)] else []).map (·.1)) [t] := by
    intro c _ t v; split <;> simp
  have hsub : List.Sublist ((marshalKV p).map (·.1))
      ([tEnc] ++ [tComp] ++ [tClevel] ++ [tCwinbits] ++ [tTid] ++ [tReconnect] ++ [tTgid] ++ [tTgcount] ++ [tTgidx]) := by
    rcases p with ⟨enc, comp, cl, cw, tid, rc, tgid, tgc, tgi⟩
    simp only [marshalKV, List.map_append]
    refine List.Sublist.append (List.Sublist.append (List.Sublist.append (List.Sublist.append (List.Sublist.append
      (List.Sublist.append (List.Sublist.append (List.Sublist.append (p1 _ _ _) (p1 _ _ _)) ?_) ?_) (p1 _ _ _)) (p2 _ _ _))
      (p1 _ _ _)) (p1 _ _ _)) (p1 _ _ _)
    · cases cl <;> simp
    · cases cw <;> simp
  exact List.Nodup.sublist hsub (by decide)

theorem unmarshalBin_marshalBin (p : Params) (h : PWF p) (hs : PShort p) :
    unmarshalBin Params.zero (marshalBin p) = some p := by
  unfold unmarshalBin marshalBin readKV
  rw [readKVF_marshal (marshalKV p) [] _ (entryOK_marshalKV p h hs) (by simp) (marshalKV_keys_nodup p) (Nat.le_refl _)]
  exact unmarshalKV_marshalKV p h

end Iscp.Neg
