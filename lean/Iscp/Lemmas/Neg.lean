import Iscp.Model.Neg
/- helper lemmas for Props/C17.lean -/
namespace Iscp.Neg

end Iscp.Neg
