import Iscp.Model.Call
import Iscp.Lemmas.C07
/- helper lemmas for Props/C16.lean -/

namespace Iscp.Call
open Iscp

/-! ### lists with a duplicate-free key -/

theorem eq_of_key_eq {α} (f : α → Nat) : ∀ {l : List α}, (l.map f).Nodup → ∀ {a b : α}, a ∈ l → b ∈ l → f a = f b → a = b
  | [], _, _, _, ha, _, _ => by cases ha
  | x :: r, h, a, b, ha, hb, hc => by
    rw [List.map_cons, List.nodup_cons] at h
    rcases List.mem_cons.1 ha with rfl | ha' <;> rcases List.mem_cons.1 hb with rfl | hb'
    · rfl
    · exact absurd (List.mem_map.2 ⟨b, hb', hc.symm⟩) h.1
    · exact absurd (List.mem_map.2 ⟨a, ha', hc⟩) h.1
    · exact eq_of_key_eq f h.2 ha' hb' hc

theorem nodup_map_filter {α} (f : α → Nat) (p : α → Bool) {l : List α} (h : (l.map f).Nodup) :
    ((l.filter p).map f).Nodup :=
  List.Pairwise.sublist (List.Sublist.map f List.filter_sublist) h

theorem map_map_key {α} (f : α → Nat) (g : α → α) (hg : ∀ x, f (g x) = f x) (l : List α) :
    (l.map g).map f = l.map f := by
  rw [List.map_map]
  exact List.map_congr_left fun x _ => hg x

/-! ### the reply step, split into "queue for ReceiveReplyCall" and "hand to the waiter" -/

def enq (s : St) (tok req : Nat) : St :=
  if s.replyInbox.length < cap then { s with replyInbox := s.replyInbox ++ [(tok, req)] } else s

def replyCore (s0 : St) (tok req : Nat) : St × Out :=
  match alGet req s0.replyReg with
  | none => (s0, .nobody)
  | some c =>
    let s1 := { s0 with replyReg := alDel req s0.replyReg }
    match s0.callers.find? (fun k => k.c = c ∧ k.id = req) with
    | none => ({ s1 with staleReply := s1.staleReply ++ [(c, tok)] }, .nobody)
    | some k =>
      match k.phase with
      | .waitReply => ({ s1 with callers := s1.callers.filter (·.c ≠ c) }, .returnedReply c tok)
      | .waitAck => ({ s1 with callers := s1.callers.map fun x => if x.c = c then { x with parkedReply := some tok } else x }, .nobody)

theorem reply_eq (s : St) (tok req : Nat) : reply s tok req = replyCore (enq s tok req) tok req := rfl

@[simp] theorem enq_callers (s : St) (tok req : Nat) : (enq s tok req).callers = s.callers := by
  unfold enq; split <;> rfl
@[simp] theorem enq_ackReg (s : St) (tok req : Nat) : (enq s tok req).ackReg = s.ackReg := by
  unfold enq; split <;> rfl
@[simp] theorem enq_replyReg (s : St) (tok req : Nat) : (enq s tok req).replyReg = s.replyReg := by
  unfold enq; split <;> rfl
@[simp] theorem enq_callInbox (s : St) (tok req : Nat) : (enq s tok req).callInbox = s.callInbox := by
  unfold enq; split <;> rfl

@[simp] theorem replyCore_callInbox (s : St) (tok req : Nat) : (replyCore s tok req).1.callInbox = s.callInbox := by
  unfold replyCore
  split
  · rfl
  · split
    · rfl
    · split <;> rfl

@[simp] theorem replyCore_replyInbox (s : St) (tok req : Nat) : (replyCore s tok req).1.replyInbox = s.replyInbox := by
  unfold replyCore
  split
  · rfl
  · split
    · rfl
    · split <;> rfl

@[simp] theorem replyCore_ackReg (s : St) (tok req : Nat) : (replyCore s tok req).1.ackReg = s.ackReg := by
  unfold replyCore
  split
  · rfl
  · split
    · rfl
    · split <;> rfl

theorem replyCore_not_got (s : St) (tok req : Nat) :
    (∀ t, (replyCore s tok req).2 ≠ .got t) ∧ (∀ t q, (replyCore s tok req).2 ≠ .gotReply t q) := by
  unfold replyCore
  split
  · exact ⟨fun _ h => (by cases h), fun _ _ h => (by cases h)⟩
  · split
    · exact ⟨fun _ h => (by cases h), fun _ _ h => (by cases h)⟩
    · split <;> exact ⟨fun _ h => (by cases h), fun _ _ h => (by cases h)⟩

@[simp] theorem ack_callInbox (s : St) (id : Nat) (ok : Bool) : (ack s id ok).1.callInbox = s.callInbox := by
  unfold ack
  split
  · rfl
  · split
    · rfl
    · split
      · rfl
      · split
        · rfl
        · split <;> rfl

@[simp] theorem ack_replyInbox (s : St) (id : Nat) (ok : Bool) : (ack s id ok).1.replyInbox = s.replyInbox := by
  unfold ack
  split
  · rfl
  · split
    · rfl
    · split
      · rfl
      · split
        · rfl
        · split <;> rfl

@[simp] theorem ack_replyReg (s : St) (id : Nat) (ok : Bool) : (ack s id ok).1.replyReg = s.replyReg := by
  unfold ack
  split
  · rfl
  · split
    · rfl
    · split
      · rfl
      · split
        · rfl
        · split <;> rfl

theorem ack_not_got (s : St) (id : Nat) (ok : Bool) :
    (∀ t, (ack s id ok).2 ≠ .got t) ∧ (∀ t q, (ack s id ok).2 ≠ .gotReply t q) := by
  unfold ack
  split
  · exact ⟨fun _ h => (by cases h), fun _ _ h => (by cases h)⟩
  · split
    · exact ⟨fun _ h => (by cases h), fun _ _ h => (by cases h)⟩
    · split
      · exact ⟨fun _ h => (by cases h), fun _ _ h => (by cases h)⟩
      · split
        · exact ⟨fun _ h => (by cases h), fun _ _ h => (by cases h)⟩
        · split <;> exact ⟨fun _ h => (by cases h), fun _ _ h => (by cases h)⟩

theorem cancel_fields (s : St) (c : Nat) :
    (cancel s c).1.ackReg = s.ackReg ∧ (cancel s c).1.replyReg = s.replyReg ∧
    (cancel s c).1.callInbox = s.callInbox ∧ (cancel s c).1.replyInbox = s.replyInbox ∧
    (cancel s c).1.callers = s.callers.filter (·.c ≠ c) ∧
    (∀ t, (cancel s c).2 ≠ .got t) ∧ (∀ t q, (cancel s c).2 ≠ .gotReply t q) := by
  unfold cancel
  split
  · next h =>
    refine ⟨rfl, rfl, rfl, rfl, ?_, fun _ h => (by cases h), fun _ _ h => (by cases h)⟩
    rw [List.find?_eq_none] at h
    symm
    rw [List.filter_eq_self]
    intro a ha
    have := h a ha
    simpa using this
  · exact ⟨rfl, rfl, rfl, rfl, rfl, fun _ h => (by cases h), fun _ _ h => (by cases h)⟩

/-! ### the invariant, relative to the set of call ids used so far -/

structure SInv (s : St) (used : List Nat) : Prop where
  ackOwn : ∀ k ∈ s.callers, k.phase = .waitAck → alGet k.id s.ackReg = some k.c
  oneEach : (s.callers.map (·.c)).Nodup
  idsDistinct : (s.callers.map (·.id)).Nodup
  idsUsed : ∀ k ∈ s.callers, k.id ∈ used

theorem SInv.same {s s' : St} {used : List Nat} (h : SInv s used) (hc : s'.callers = s.callers)
    (hr : ∀ k ∈ s.callers, k.phase = .waitAck → alGet k.id s'.ackReg = alGet k.id s.ackReg) : SInv s' used where
  ackOwn k hk hp := by rw [hc] at hk; rw [hr k hk hp]; exact h.ackOwn k hk hp
  oneEach := by rw [hc]; exact h.oneEach
  idsDistinct := by rw [hc]; exact h.idsDistinct
  idsUsed := by rw [hc]; exact h.idsUsed

theorem SInv.filter {s s' : St} {used : List Nat} (h : SInv s used) (p : Caller → Bool)
    (hc : s'.callers = s.callers.filter p)
    (hr : ∀ k ∈ s.callers, p k = true → k.phase = .waitAck → alGet k.id s'.ackReg = alGet k.id s.ackReg) : SInv s' used where
  ackOwn k hk hp := by
    rw [hc, List.mem_filter] at hk
    rw [hr k hk.1 hk.2 hp]; exact h.ackOwn k hk.1 hp
  oneEach := by rw [hc]; exact nodup_map_filter _ _ h.oneEach
  idsDistinct := by rw [hc]; exact nodup_map_filter _ _ h.idsDistinct
  idsUsed k hk := by rw [hc, List.mem_filter] at hk; exact h.idsUsed k hk.1

theorem SInv.map {s s' : St} {used : List Nat} (h : SInv s used) (g : Caller → Caller)
    (hc : s'.callers = s.callers.map g) (hgc : ∀ x, (g x).c = x.c) (hgi : ∀ x, (g x).id = x.id)
    (hr : ∀ k ∈ s.callers, (g k).phase = .waitAck → k.phase = .waitAck ∧ alGet k.id s'.ackReg = alGet k.id s.ackReg) :
    SInv s' used where
  ackOwn k hk hp := by
    rw [hc, List.mem_map] at hk
    obtain ⟨x, hx, rfl⟩ := hk
    obtain ⟨hxp, hxr⟩ := hr x hx hp
    rw [hgi, hgc, hxr]; exact h.ackOwn x hx hxp
  oneEach := by rw [hc, map_map_key (fun k : Caller => k.c) g hgc]; exact h.oneEach
  idsDistinct := by rw [hc, map_map_key (fun k : Caller => k.id) g hgi]; exact h.idsDistinct
  idsUsed k hk := by
    rw [hc, List.mem_map] at hk
    obtain ⟨x, hx, rfl⟩ := hk
    rw [hgi]; exact h.idsUsed x hx

theorem ack_key {s : St} (hown : ∀ k ∈ s.callers, k.phase = .waitAck → alGet k.id s.ackReg = some k.c)
    {id c : Nat} (hc : alGet id s.ackReg = some c) {k : Caller} (hk : k ∈ s.callers) (hp : k.phase = .waitAck)
    (hne : k.c ≠ c) : k.id ≠ id := by
  intro e
  have := hown k hk hp
  rw [e, hc] at this
  exact hne (Option.some.inj this).symm

theorem SInv.call {s : St} {used : List Nat} (h : SInv s used) (c id : Nat) (w : Bool) (hid : id ∉ used) :
    SInv (call s c id w) (id :: used) where
  ackOwn k hk hp := by
    simp only [Call.call] at hk ⊢
    rcases List.mem_cons.1 hk with rfl | hk'
    · exact alGet_alPut_self _ _ _
    · rw [List.mem_filter] at hk'
      have hne : k.id ≠ id := fun e => hid (e ▸ h.idsUsed k hk'.1)
      rw [alGet_alPut_ne hne]; exact h.ackOwn k hk'.1 hp
  oneEach := by
    simp only [Call.call, List.map_cons, List.nodup_cons]
    refine ⟨?_, nodup_map_filter _ _ h.oneEach⟩
    intro hm
    rw [List.mem_map] at hm
    obtain ⟨x, hx, hxc⟩ := hm
    rw [List.mem_filter] at hx
    simp only [ne_eq, decide_not, Bool.not_eq_eq_eq_not, Bool.not_true, decide_eq_false_iff_not] at hx
    exact hx.2 hxc
  idsDistinct := by
    simp only [Call.call, List.map_cons, List.nodup_cons]
    refine ⟨?_, nodup_map_filter _ _ h.idsDistinct⟩
    intro hm
    rw [List.mem_map] at hm
    obtain ⟨x, hx, hxc⟩ := hm
    rw [List.mem_filter] at hx
    exact hid (hxc ▸ h.idsUsed x hx.1)
  idsUsed k hk := by
    simp only [Call.call] at hk
    rcases List.mem_cons.1 hk with rfl | hk'
    · exact List.mem_cons_self
    · rw [List.mem_filter] at hk'
      exact List.mem_cons_of_mem _ (h.idsUsed k hk'.1)

theorem SInv.ack {s : St} {used : List Nat} (h : SInv s used) (id : Nat) (ok : Bool) : SInv (ack s id ok).1 used := by
  unfold Call.ack
  split
  · exact h
  · next c hc =>
    split
    · next hf =>
      refine h.same rfl ?_
      intro k hk hp
      rw [List.find?_eq_none] at hf
      have hne : k.id ≠ id := by
        intro e
        have := h.ackOwn k hk hp
        rw [e, hc] at this
        exact hf k hk (by simp [e, hp, (Option.some.inj this).symm])
      exact alGet_alDel_ne hne _
    · next k0 hk0 =>
      have key : ∀ k ∈ s.callers, k.c ≠ c → k.phase = .waitAck →
          alGet k.id (alDel id s.ackReg) = alGet k.id s.ackReg := fun k hk hkc hp =>
        alGet_alDel_ne (ack_key h.ackOwn hc hk hp hkc) _
      split
      · refine h.filter (fun x => x.c ≠ c) rfl ?_
        intro k hk hpk hp
        exact key k hk (by simpa using hpk) hp
      · split
        · refine h.filter (fun x => x.c ≠ c) rfl ?_
          intro k hk hpk hp
          exact key k hk (by simpa using hpk) hp
        · split
          · refine h.filter (fun x => x.c ≠ c) rfl ?_
            intro k hk hpk hp
            exact key k hk (by simpa using hpk) hp
          · refine h.map _ rfl (fun x => by split <;> rfl) (fun x => by split <;> rfl) ?_
            intro k hk hp
            by_cases hkc : k.c = c
            · simp [hkc] at hp
            · simp only [if_neg hkc] at hp ⊢
              exact ⟨hp, key k hk hkc hp⟩

theorem SInv.replyCore {s : St} {used : List Nat} (h : SInv s used) (tok req : Nat) :
    SInv (replyCore s tok req).1 used := by
  unfold Call.replyCore
  split
  · exact h
  · next c hc =>
    split
    · exact h.same rfl (fun _ _ _ => rfl)
    · split
      · exact h.filter (fun x => x.c ≠ c) rfl (fun _ _ _ _ => rfl)
      · refine h.map _ rfl (fun x => by split <;> rfl) (fun x => by split <;> rfl) ?_
        intro k hk hp
        refine ⟨?_, rfl⟩
        by_cases hkc : k.c = c
        · simpa [hkc] using hp
        · simpa [hkc] using hp

theorem SInv.reply {s : St} {used : List Nat} (h : SInv s used) (tok req : Nat) : SInv (reply s tok req).1 used := by
  rw [reply_eq]
  exact (h.same (enq_callers s tok req) (fun _ _ _ => by rw [enq_ackReg])).replyCore tok req

theorem SInv.cancel {s : St} {used : List Nat} (h : SInv s used) (c : Nat) : SInv (cancel s c).1 used := by
  obtain ⟨ha, _, _, _, hc, _⟩ := cancel_fields s c
  exact h.filter _ hc (fun _ _ _ _ => by rw [ha])

theorem SInv.incoming {s : St} {used : List Nat} (h : SInv s used) (t : Nat) : SInv (incoming s t) used := by
  unfold Call.incoming
  split
  · exact h.same rfl (fun _ _ _ => rfl)
  · exact h

theorem SInv.recvCall {s : St} {used : List Nat} (h : SInv s used) : SInv (recvCall s).1 used := by
  unfold Call.recvCall
  split
  · exact h
  · exact h.same rfl (fun _ _ _ => rfl)

theorem SInv.recvReply {s : St} {used : List Nat} (h : SInv s used) : SInv (recvReply s).1 used := by
  unfold Call.recvReply
  split
  · exact h
  · exact h.same rfl (fun _ _ _ => rfl)

theorem SInv.init (used : List Nat) : SInv {} used where
  ackOwn k hk := by cases hk
  oneEach := List.nodup_nil
  idsDistinct := List.nodup_nil
  idsUsed k hk := by cases hk

theorem run_nil (s : St) : run s [] = (s, []) := rfl

theorem run_cons (s : St) (e : Ev) (r : List Ev) :
    run s (e :: r) = ((run (step s e).1 r).1, (step s e).2 :: (run (step s e).1 r).2) := rfl

/-! ### locality of acks, replies parked before the ack -/

theorem find?_unique {l : List Caller} (hone : (l.map (·.c)).Nodup) {k : Caller} (hk : k ∈ l) (p : Caller → Bool)
    (hp : p k = true) (hpc : ∀ x ∈ l, p x = true → x.c = k.c) : l.find? p = some k := by
  cases hf : l.find? p with
  | none => rw [List.find?_eq_none] at hf; exact absurd hp (hf k hk)
  | some x =>
    have hx := List.mem_of_find?_eq_some hf
    have hpx := List.find?_some hf
    rw [eq_of_key_eq (fun k : Caller => k.c) hone hx hk (hpc x hx hpx)]

theorem ack_local {s : St} (hone : (s.callers.map (·.c)).Nodup) (id : Nat) (ok : Bool) {k : Caller}
    (hk : k ∈ s.callers) (hne : k.id ≠ id) :
    k ∈ (ack s id ok).1.callers ∧ alGet k.id (ack s id ok).1.ackReg = alGet k.id s.ackReg := by
  unfold Call.ack
  split
  · exact ⟨hk, rfl⟩
  · next c hc =>
    split
    · exact ⟨hk, alGet_alDel_ne hne _⟩
    · next k0 hk0 =>
      have hm0 := List.mem_of_find?_eq_some hk0
      have hp0 := List.find?_some hk0
      simp only [decide_eq_true_eq] at hp0
      have hkc : k.c ≠ c := by
        intro e
        have := eq_of_key_eq (fun k : Caller => k.c) hone hk hm0 (e.trans hp0.1.symm)
        exact hne (this ▸ hp0.2.1)
      have hfil : k ∈ s.callers.filter (fun x => x.c ≠ c) := by
        rw [List.mem_filter]; exact ⟨hk, by simpa using hkc⟩
      split
      · exact ⟨hfil, alGet_alDel_ne hne _⟩
      · split
        · exact ⟨hfil, alGet_alDel_ne hne _⟩
        · split
          · exact ⟨hfil, alGet_alDel_ne hne _⟩
          · refine ⟨?_, alGet_alDel_ne hne _⟩
            show k ∈ List.map _ s.callers
            rw [List.mem_map]
            exact ⟨k, hk, by rw [if_neg hkc]⟩

theorem reply_early {s : St} (hone : (s.callers.map (·.c)).Nodup) {k : Caller} (hk : k ∈ s.callers)
    (hp : k.phase = .waitAck) (hr : alGet k.id s.replyReg = some k.c) (tok : Nat) :
    (reply s tok k.id).2 = .nobody ∧
    (reply s tok k.id).1.callers = s.callers.map (fun x => if x.c = k.c then { x with parkedReply := some tok } else x) ∧
    (reply s tok k.id).1.ackReg = s.ackReg := by
  have hf : s.callers.find? (fun x => x.c = k.c ∧ x.id = k.id) = some k := by
    exact find?_unique hone hk _ (by simp) (fun x _ hx => by simp only [decide_eq_true_eq] at hx; exact hx.1)
  have hr' : alGet k.id (enq s tok k.id).replyReg = some k.c := by rw [enq_replyReg]; exact hr
  refine ⟨?_, ?_, by rw [reply_eq, replyCore_ackReg, enq_ackReg]⟩
  · rw [reply_eq]; unfold Call.replyCore; simp only [hr', enq_callers, hf, hp]
  · rw [reply_eq]; unfold Call.replyCore; simp only [hr', enq_callers, hf, hp]

theorem ack_parked {s : St} (hone : (s.callers.map (·.c)).Nodup) {k : Caller} (hk : k ∈ s.callers)
    (hp : k.phase = .waitAck) (hw : k.wantsReply = true) (ha : alGet k.id s.ackReg = some k.c) (tok : Nat)
    (hpr : k.parkedReply = some tok) : (ack s k.id true).2 = .returnedReply k.c tok := by
  have hf : s.callers.find? (fun x => x.c = k.c ∧ x.id = k.id ∧ x.phase = .waitAck) = some k :=
    find?_unique hone hk _ (by simp [hp]) (fun x _ hx => by simp only [decide_eq_true_eq] at hx; exact hx.1)
  unfold Call.ack
  simp only [ha, hf, hw, hpr, not_true_eq_false, if_false]

end Iscp.Call
