import Iscp.Model.Frame
/-! helper lemmas for C13 (proofs only; statements of the property live in Iscp/Props/C13.lean) -/
namespace Iscp.Frame

/-! ## framing -/

theorem fromBe32_be32 (n : Nat) (h : n < 4294967296) :
    fromBe32 (UInt8.ofNat (n / 16777216 % 256)) (UInt8.ofNat (n / 65536 % 256)) (UInt8.ofNat (n / 256 % 256))
      (UInt8.ofNat (n % 256)) = n := by
  simp only [fromBe32, UInt8.toNat_ofNat']
  omega

theorem frame_eq (p : Bytes) (h : p.length < 4294967296) :
    frame p = UInt8.ofNat (p.length / 16777216 % 256) :: UInt8.ofNat (p.length / 65536 % 256) ::
      UInt8.ofNat (p.length / 256 % 256) :: UInt8.ofNat (p.length % 256) :: p := by
  simp [frame, be32, Nat.mod_eq_of_lt h]

theorem frame_length (p : Bytes) : (frame p).length = 4 + p.length := by
  simp [frame, be32]; omega

theorem stream_cons (p : Bytes) (ps : List Bytes) : stream (p :: ps) = frame p ++ stream ps := by
  simp [stream]

theorem deframe1_frame (p rest : Bytes) (h : p.length < 4294967296) :
    deframe1 (frame p ++ rest) = some (p, rest) := by
  rw [frame_eq p h]
  simp only [List.cons_append, deframe1, fromBe32_be32 _ h]
  simp

theorem deframe1_take_frame (q : Bytes) (k : Nat) (hq : q.length < 4294967296) (hk : k < (frame q).length) :
    deframe1 ((frame q).take k) = none := by
  rw [frame_length] at hk
  rw [frame_eq q hq]
  match k, hk with
  | 0, _ => simp [deframe1]
  | 1, _ => simp [deframe1]
  | 2, _ => simp [deframe1]
  | 3, _ => simp [deframe1]
  | k + 4, hk =>
    simp only [List.take_succ_cons, deframe1, fromBe32_be32 _ hq]
    simp
    omega

theorem deframeAll_succ_some (f : Nat) (s m rest : Bytes) (h : deframe1 s = some (m, rest)) :
    deframeAll (f + 1) s = (m :: (deframeAll f rest).1, (deframeAll f rest).2) := by
  simp only [deframeAll, h]

theorem deframeAll_succ_none (f : Nat) (s : Bytes) (h : deframe1 s = none) :
    deframeAll (f + 1) s = ([], s) := by
  simp only [deframeAll, h]

theorem deframeAll_stream_append (ps : List Bytes) (tail : Bytes) (h : ∀ p ∈ ps, p.length < 4294967296)
    (ht : deframe1 tail = none) (fuel : Nat) (hf : ps.length < fuel) :
    deframeAll fuel (stream ps ++ tail) = (ps, tail) := by
  induction ps generalizing fuel with
  | nil =>
    cases fuel with
    | zero => simp at hf
    | succ f =>
      have : stream [] ++ tail = tail := by simp [stream]
      rw [this, deframeAll_succ_none _ _ ht]
  | cons p ps ih =>
    cases fuel with
    | zero => simp at hf
    | succ f =>
      have hp : p.length < 4294967296 := h p (by simp)
      have ih' := ih (fun x hx => h x (by simp [hx])) f (by simp at hf; omega)
      rw [stream_cons, List.append_assoc, deframeAll_succ_some _ _ _ _ (deframe1_frame _ _ hp), ih']

/-! ## window -/

theorem trim_length_le (w : Nat) (b : Bytes) : (trim w b).length ≤ w := by
  unfold trim
  split
  · simp; omega
  · omega

theorem trim_trim_append (w : Nat) (a m : Bytes) : trim w (trim w a ++ m) = trim w (a ++ m) := by
  by_cases ha : w < a.length
  · have h1 : trim w a = a.drop (a.length - w) := by simp [trim, ha]
    rw [h1]
    have hl : (a.drop (a.length - w)).length = w := by simp; omega
    by_cases hm : m.length = 0
    · have : m = [] := List.length_eq_zero_iff.mp hm
      subst this
      have h4 : ¬ w < (a.drop (a.length - w)).length := by omega
      simp only [List.append_nil]
      rw [← h1]
      simp only [trim, h4, ha, if_true, if_false]
    · have h2 : w < (a.drop (a.length - w) ++ m).length := by simp; omega
      have h3 : w < (a ++ m).length := by simp; omega
      simp only [trim, h2, h3, if_true]
      rw [List.drop_append, List.drop_append]
      simp only [List.length_append, List.length_drop, List.drop_drop]
      have e1 : a.length - w + (a.length - (a.length - w) + m.length - w) = a.length + m.length - w := by omega
      have e2 : a.length - (a.length - w) + m.length - w - (a.length - (a.length - w)) =
          a.length + m.length - w - a.length := by omega
      rw [e1, e2]
  · simp [trim, ha]

theorem sendAll_takeover_fst (c : Codec) (w : Nat) (a : Bytes) (ms : List Bytes) :
    (sendAll c (.takeover w) (trim w a) ms).1 = trim w (a ++ ms.flatten) := by
  induction ms generalizing a with
  | nil => simp [sendAll]
  | cons m ms ih =>
    simp only [sendAll, send, List.flatten_cons]
    rw [trim_trim_append, ih (a ++ m), List.append_assoc]

end Iscp.Frame
