import Iscp.Model.ConnM
import Iscp.Lemmas.ConnM
/-!
C10 — Close is final.

Theorems over M-Conn for every event history preceding and following the Close.  What the model cannot exhibit: goroutines
(the "no goroutine left behind" clause is decided by the harness on the real library: runtime stack dump filtered to library
frames after both sides are closed) and promptness (measured by the harness).
-/
namespace Iscp.ConnM

/-- CLOSED IS ABSORBING: after Close no event changes the status, establishes a transport, asks for a token, sends anything,
    resumes anything or delivers a notification; requests fail (they are the only thing that is recorded) -/
theorem C10.closed_absorbing (s : St) (e : Ev) (h : s.status = .closed) :
    let t := step s e
    t.status = .closed ∧ t.inc = s.inc ∧ t.dials = s.dials ∧ t.tokens = s.tokens ∧ t.sent = s.sent ∧ t.resumes = s.resumes ∧
    t.disc = s.disc ∧ t.reconn = s.reconn ∧ t.streams = s.streams ∧ t.disconnectSent = s.disconnectSent ∧
    t.wireAfterClose = s.wireAfterClose ∧ t.pending = s.pending := by
  exact step_closed s e h

/-- … for whole histories: whatever happens after a Close — including a back-off that elapses or a dial that completes — no
    connect attempt starts, and the wire and the notifications stay as they were at the Close -/
theorem C10.silence_after_close (evs after : List Ev) :
    let s := run {} (evs ++ [.close])
    let t := run s after
    t.status = .closed ∧ t.sent = s.sent ∧ t.inc = s.inc ∧ t.tokens = s.tokens ∧ t.dials = s.dials ∧ t.disc = s.disc ∧ t.reconn = s.reconn ∧
    t.streams = s.streams ∧ t.disconnectSent = 1 ∧ t.wireAfterClose = 0 := by
  intro s t
  have hs : s.status = .closed := by
    show (run {} (evs ++ [.close])).status = .closed
    rw [run_append]; exact step_close_status _
  have hi := (inv_reach (evs ++ [.close])).i1
  have hr := run_closed s after hs
  obtain ⟨r1, r2, r3, r4, r5, _, r7, r8, r9, r10, r11, _⟩ := hr
  exact ⟨r1, r5, r2, r4, r3, r7, r8, r9, by rw [r10]; exact hi.dsc hs, by rw [r11]; exact hi.wac⟩

/-- requests after (or waiting at) the Close fail, all of them, none is sent -/
theorem C10.requests_fail_after_close (evs : List Ev) (r : Nat) :
    let s := run {} (evs ++ [.close])
    s.pending = [] ∧ (step s (.request r)).failed = s.failed ++ [r] ∧ (step s (.request r)).sent = s.sent := by
  intro s
  have hs : s.status = .closed := by
    show (run {} (evs ++ [.close])).status = .closed
    rw [run_append]; exact step_close_status _
  have hi := (inv_reach (evs ++ [.close])).i1
  refine ⟨hi.pend (by rw [hs]; simp), ?_, ?_⟩ <;> simp [step, hs]

/-- ONE DISCONNECT: the Disconnect is sent exactly when the connection is closed, once, however often Close is called -/
theorem C10.one_disconnect (evs : List Ev) :
    ((run {} evs).status = .closed ↔ (run {} evs).disconnectSent = 1) ∧ (run {} evs).disconnectSent ≤ 1 ∧
    (run {} evs).wireAfterClose = 0 := by
  have h := (inv_reach evs).i1
  refine ⟨⟨h.dsc, ?_⟩, ?_, h.wac⟩
  · intro hd
    by_cases hs : (run {} evs).status = .closed
    · exact hs
    · have := h.dsn hs; omega
  · by_cases hs : (run {} evs).status = .closed
    · have := h.dsc hs; omega
    · have := h.dsn hs; omega

/-- CLOSED NOTIFICATIONS AT MOST ONCE: no stream ever gets a second closed notification, whatever the order of stream Close,
    connection Close, refusals, cut resumes and repeated Close calls; after the connection's Close no stream is live -/
theorem C10.closed_events_at_most_once (evs : List Ev) :
    (∀ x ∈ (run {} evs).streams, x.closedEv ≤ 1) ∧
    ((run {} evs).status = .closed → ∀ x ∈ (run {} evs).streams, live x = false) := by
  have h := (inv_reach evs).i2.2.2
  refine ⟨?_, ?_⟩
  · intro x hx
    obtain ⟨h1, h2, _⟩ := h x hx
    rcases x with ⟨sid, dir, al, st, re, ce⟩
    cases st <;> simp_all
  · intro hc x hx
    obtain ⟨_, _, h3, h4, _⟩ := h x hx
    rcases x with ⟨sid, dir, al, st, re, ce⟩
    cases st <;> simp_all [live]

/-- a closed stream stays closed: no event re-opens or resumes it -/
theorem C10.stream_close_final (s : St) (e : Ev) (x : Stream) (hx : x ∈ s.streams) (hc : live x = false)
    (hnd : (s.streams.map (·.sid)).Nodup) :
    x ∈ (step s e).streams := by
  exact step_keeps_closed_stream s e x hx hc hnd

example : let s := run {} [.openStream .up, .openStream .down, .closeStream 1, .kill, .close, .dial true, .request 3, .close, .resume 2 .ok]
    s.status = .closed ∧ s.inc = 1 ∧ s.tokens = 2 ∧ s.failed = [3] ∧ s.disconnectSent = 1 ∧
    s.streams.map (fun x => (x.sid, x.st, x.closedEv)) = [(1, .closedOk, 1), (2, .closedConn, 0)] := by decide

end Iscp.ConnM
