import Iscp.Model.ConnM
import Iscp.Lemmas.ConnM
/-!
C10 — Close is final.

Theorems over M-Conn for every event history preceding and following the Close.  What the model cannot exhibit: goroutines
(the "no goroutine left behind" clause is decided by the harness on the real library: runtime stack dump filtered to library
frames after both sides are closed) and promptness (measured by the harness).
-/
namespace Iscp.ConnM

/-- CLOSED IS ABSORBING: after Close no event changes the status, establishes a transport, asks for a token, sends anything,
    resumes anything or delivers a notification; requests fail (they are the only thing that is recorded) -/
theorem C10.closed_absorbing (s : St) (e : Ev) (h : s.status = .closed) :
    let t := step s e
    t.status = .closed ∧ t.inc = s.inc ∧ t.dials = s.dials ∧ t.tokens = s.tokens ∧ t.sent = s.sent ∧ t.resumes = s.resumes ∧
    t.disc = s.disc ∧ t.reconn = s.reconn ∧ t.streams = s.streams ∧ t.disconnectSent = s.disconnectSent ∧
    t.wireAfterClose = s.wireAfterClose ∧ t.pending = s.pending := by
  sorry

/-- … for whole histories: whatever happens after a Close, the wire and the notifications stay as they were at the Close -/
theorem C10.silence_after_close (evs after : List Ev) :
    let s := run {} (evs ++ [.close])
    let t := run s after
    t.status = .closed ∧ t.sent = s.sent ∧ t.inc = s.inc ∧ t.tokens = s.tokens ∧ t.disc = s.disc ∧ t.reconn = s.reconn ∧
    t.streams = s.streams ∧ t.disconnectSent = 1 ∧ t.wireAfterClose = 0 := by
  sorry

/-- requests after (or waiting at) the Close fail, all of them, none is sent -/
theorem C10.requests_fail_after_close (evs : List Ev) (r : Nat) :
    let s := run {} (evs ++ [.close])
    s.pending = [] ∧ (step s (.request r)).failed = s.failed ++ [r] ∧ (step s (.request r)).sent = s.sent := by
  sorry

/-- ONE DISCONNECT: the Disconnect is sent exactly when the connection is closed, once, however often Close is called -/
theorem C10.one_disconnect (evs : List Ev) :
    ((run {} evs).status = .closed ↔ (run {} evs).disconnectSent = 1) ∧ (run {} evs).disconnectSent ≤ 1 ∧
    (run {} evs).wireAfterClose = 0 := by
  sorry

/-- CLOSED NOTIFICATIONS AT MOST ONCE: no stream ever gets a second closed notification, whatever the order of stream Close,
    connection Close, refusals and repeated Close calls; after the connection's Close every stream is closed -/
theorem C10.closed_events_at_most_once (evs : List Ev) :
    (∀ x ∈ (run {} evs).streams, x.closedEv ≤ 1) ∧
    ((run {} evs).status = .closed → ∀ x ∈ (run {} evs).streams, (x.st = .closedOk ∨ x.st = .closedErr) ∧ x.closedEv = 1) := by
  sorry

/-- a closed stream stays closed: no event re-opens or resumes it -/
theorem C10.stream_close_final (s : St) (e : Ev) (x : Stream) (hx : x ∈ s.streams) (hc : x.st = .closedOk ∨ x.st = .closedErr)
    (hnd : (s.streams.map (·.sid)).Nodup) :
    x ∈ (step s e).streams := by
  sorry

example : let s := run {} [.openStream .up, .openStream .down, .closeStream 1, .kill, .close, .dial true, .request 3, .close, .resume 2 .ok]
    s.status = .closed ∧ s.inc = 1 ∧ s.tokens = 1 ∧ s.failed = [3] ∧ s.disconnectSent = 1 ∧
    s.streams.map (fun x => (x.sid, x.st, x.closedEv)) = [(1, .closedOk, 1), (2, .closedOk, 1)] := by decide

end Iscp.ConnM
