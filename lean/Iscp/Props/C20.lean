import Iscp.Props.C01
/-
C20 — Flush is a barrier and flush policies cut chunks exactly where they promise.
Same model and histories as C01 (Iscp/Model/Up.lean).  The wall-clock part of the interval policy ("within one interval")
is measured by the harness; here a tick is an event.
-/
namespace Iscp.Up
open Iscp

/-- FLUSH BARRIER: when Flush returns, the visible buffer is empty and every point accepted before the call lies in a chunk
    whose sequence number is at most the last issued one -/
theorem C20.flush_barrier (p : Policy) (rev : List (DataID × Nat)) (evs : List Ev) (d : DataID) :
    let s := run (init p rev) (evs ++ [.flush])
    s.buf = [] ∧ s.bufCount = 0 ∧ cutPoints d s = written d evs ∧ ∀ c ∈ s.sent, c.seq ≤ s.seq := by
  intro s
  have hs : s = cut (run (init p rev) evs) := by
    show run _ _ = _
    rw [run_append]; rfl
  have hi : Inv s := Inv_run_init p rev _
  have hb : s.buf = [] := by rw [hs]; exact cut_buf _
  refine ⟨hb, ?_, ?_, ?_⟩
  · rw [hi.cnt, hb]; rfl
  · have hc : cutPoints d s ++ bufPoints d s = written d (evs ++ [.flush]) := C01.conservation p rev (evs ++ [.flush]) d
    have hbp : bufPoints d s = [] := by
      show bufPts d s.buf = []
      rw [hb]; rfl
    rw [hbp, List.append_nil, written_eq, List.flatMap_append] at hc
    rw [hc, written_eq]
    simp [wr]
  · intro c hc
    have hm : c.seq ∈ s.sent.map (·.seq) := List.mem_map_of_mem hc
    rw [hi.seqs, List.mem_range'_1] at hm
    omega

def noFlushClose : List Ev → Bool
  | [] => true
  | .flush :: _ => false
  | .closeFlush :: _ => false
  | _ :: r => noFlushClose r

theorem noFlushClose_eq (evs : List Ev) : noFlushClose evs = evs.all nfc := by
  induction evs with
  | nil => rfl
  | cons e r ih => cases e <;> simp [noFlushClose, nfc, ih]

/-- NONE policy: nothing is cut (hence nothing transmitted) until Flush or Close -/
theorem C20.none_policy (rev : List (DataID × Nat)) (evs : List Ev) (h : noFlushClose evs = true) :
    (run (init .none rev) evs).sent = [] := by
  rw [noFlushClose_eq] at h
  exact none_run evs (init .none rev) rfl h

/-- SIZE policy: an accept cuts a chunk exactly when the buffered payload (including this write) exceeds the threshold,
    and the chunk then takes everything buffered -/
theorem C20.size_policy (s : St) (n : Nat) (d : DataID) (ps : List Point) (hp : s.policy = .size n ∨ s.policy = .intervalOrSize n) :
    (s.bufPayload + payloadLen ps > n →
        (accept s d ps).buf = [] ∧ (accept s d ps).sent.length = s.sent.length + 1 ∧
        (accept s d ps).sendHook.getLast? = some (s.seq + 1, toGroups (bufAdd s.buf d ps))) ∧
    (s.bufPayload + payloadLen ps ≤ n → (accept s d ps).sent = s.sent ∧ (accept s d ps).buf = bufAdd s.buf d ps) := by
  have hf : ∀ sz, s.policy.isFlush sz = decide (sz > n) := by
    intro sz
    rcases hp with hp | hp <;> rw [hp] <;> rfl
  constructor
  · intro h
    exact accept_cut s d ps (by rw [hf]; exact decide_eq_true h)
  · intro h
    exact accept_nocut s d ps (by rw [hf]; exact decide_eq_false (by omega))

/-- the payload actually sitting in the send buffer -/
def bufPayloadOf (buf : List (DataID × List Point)) : Nat := (buf.map (fun e => payloadLen e.2)).sum

theorem payloadLen_append (a b : List Point) : payloadLen (a ++ b) = payloadLen a + payloadLen b := by
  simp [payloadLen, List.map_append, List.sum_append]

theorem bufPayloadOf_bufAdd (buf : List (DataID × List Point)) (d : DataID) (ps : List Point) :
    bufPayloadOf (bufAdd buf d ps) = bufPayloadOf buf + payloadLen ps := by
  induction buf with
  | nil => simp [bufAdd, bufPayloadOf]
  | cons e r ih =>
    obtain ⟨d', ps'⟩ := e
    unfold bufAdd
    split
    · simp only [bufPayloadOf, List.map_cons, List.sum_cons, payloadLen_append]; omega
    · have := ih
      simp only [bufPayloadOf, List.map_cons, List.sum_cons] at this ⊢
      omega

theorem cut_payload (s : St) (h : s.bufPayload = bufPayloadOf s.buf) : (cut s).bufPayload = bufPayloadOf (cut s).buf := by
  unfold cut
  split
  · exact h
  · simp [bufPayloadOf]

theorem payload_step (s : St) (e : Ev) (h : s.bufPayload = bufPayloadOf s.buf) :
    (step s e).bufPayload = bufPayloadOf (step s e).buf := by
  have hresult : ∀ (st : St) (q c : Nat), (result st q c).bufPayload = st.bufPayload ∧ (result st q c).buf = st.buf := by
    intro st q c
    simp only [result]
    split <;> exact ⟨rfl, rfl⟩
  have hfold : ∀ (rs : List (Nat × Nat)) (st : St),
      (rs.foldl (fun st r => result st r.1 r.2) st).bufPayload = st.bufPayload ∧
      (rs.foldl (fun st r => result st r.1 r.2) st).buf = st.buf := by
    intro rs
    induction rs with
    | nil => intro st; exact ⟨rfl, rfl⟩
    | cons r rs ih =>
      intro st
      obtain ⟨h1, h2⟩ := ih (result st r.1 r.2)
      obtain ⟨h3, h4⟩ := hresult st r.1 r.2
      exact ⟨by rw [List.foldl_cons, h1, h3], by rw [List.foldl_cons, h2, h4]⟩
  cases e with
  | accept d ps =>
    show (accept s d ps).bufPayload = bufPayloadOf (accept s d ps).buf
    have h1 : (addBuf s d ps).bufPayload = bufPayloadOf (addBuf s d ps).buf := by
      show s.bufPayload + payloadLen ps = bufPayloadOf (bufAdd s.buf d ps)
      rw [bufPayloadOf_bufAdd, h]
    rw [accept_eq]
    split
    · exact cut_payload _ h1
    · exact h1
  | tick =>
    show (tick s).bufPayload = bufPayloadOf (tick s).buf
    unfold tick
    split
    · exact cut_payload s h
    · exact h
  | flush => exact cut_payload s h
  | ack rs als =>
    show (ack s rs als).bufPayload = bufPayloadOf (ack s rs als).buf
    unfold ack
    obtain ⟨h1, h2⟩ := hfold rs { s with rev := learn s.rev als }
    rw [h1, h2]; exact h
  | closeFlush => exact cut_payload s h
  | closeRequest => exact h

/-- THE SIZE COUNTER IS THE BUFFER: after any history of writes, ticks, explicit flushes, acks and closes the payload counter the
    size policy is asked about equals the payload of what is in the send buffer — nothing that was cut already (by a size
    trigger, a tick, an explicit Flush or Close) still counts -/
theorem C20.payload_counter_is_buffer (p : Policy) (rev : List (DataID × Nat)) (evs : List Ev) :
    (run (init p rev) evs).bufPayload = bufPayloadOf (run (init p rev) evs).buf := by
  have : ∀ (evs : List Ev) (s : St), s.bufPayload = bufPayloadOf s.buf → (run s evs).bufPayload = bufPayloadOf (run s evs).buf := by
    intro evs
    induction evs with
    | nil => intro s h; exact h
    | cons e r ih => intro s h; exact ih _ (payload_step s e h)
  exact this evs _ (by simp [init, bufPayloadOf])

/-- … hence, over whole histories: a write is cut exactly when the payload in the buffer plus its own exceeds the threshold -/
theorem C20.size_policy_of_buffer (p : Policy) (rev : List (DataID × Nat)) (evs : List Ev) (n : Nat) (d : DataID) (ps : List Point)
    (hp : p = .size n ∨ p = .intervalOrSize n) :
    let s := run (init p rev) evs
    (bufPayloadOf s.buf + payloadLen ps > n → (accept s d ps).buf = [] ∧ (accept s d ps).sent.length = s.sent.length + 1) ∧
    (bufPayloadOf s.buf + payloadLen ps ≤ n → (accept s d ps).sent = s.sent ∧ (accept s d ps).buf = bufAdd s.buf d ps) := by
  intro s
  have hpol : s.policy = p := by
    have : ∀ (evs : List Ev) (st : St), (run st evs).policy = st.policy := by
      intro evs
      induction evs with
      | nil => intro st; rfl
      | cons e r ih =>
        intro st
        show (run (step st e) r).policy = st.policy
        rw [ih]
        cases e with
        | accept d ps => exact accept_policy st d ps
        | tick => show (tick st).policy = st.policy; unfold tick; split <;> first | exact cut_policy st | rfl
        | flush => exact cut_policy st
        | ack rs als =>
          show (ack st rs als).policy = st.policy
          unfold ack
          have hf : ∀ (rs : List (Nat × Nat)) (x : St), (rs.foldl (fun st r => result st r.1 r.2) x).policy = x.policy := by
            intro rs
            induction rs with
            | nil => intro x; rfl
            | cons r rs ih2 =>
              intro x
              rw [List.foldl_cons, ih2]
              simp only [result]; split <;> rfl
          rw [hf]
        | closeFlush => exact cut_policy st
        | closeRequest => rfl
    exact this evs (init p rev)
  have hc := C20.payload_counter_is_buffer p rev evs
  have hs := C20.size_policy s n d ps (by rw [hpol]; exact hp)
  rw [show s.bufPayload = bufPayloadOf s.buf from hc] at hs
  exact ⟨fun h => ⟨(hs.1 h).1, (hs.1 h).2.1⟩, hs.2⟩

example : let s := run (init (.size 10) []) [.accept 1 [⟨1, [1,2,3,4,5,6]⟩], .flush, .accept 1 [⟨2, [1,2,3,4,5,6]⟩]]
    (s.sent.length, s.bufPayload, bufPayloadOf s.buf) = (1, 6, 6) := by decide

/-- IMMEDIATE policy: every write is cut on its own -/
theorem C20.immediate_policy (rev : List (DataID × Nat)) (evs : List Ev) (d : DataID) (ps : List Point) :
    let s := run (init .immediate rev) evs
    s.buf = [] ∧ (accept s d ps).sent.length = s.sent.length + 1 ∧ (accept s d ps).sendHook.getLast? = some (s.seq + 1, [⟨d, ps⟩]) := by
  intro s
  obtain ⟨hp, hb⟩ := imm_run evs (init .immediate rev) rfl rfl
  have hc := accept_cut s d ps (by rw [hp]; rfl)
  refine ⟨hb, hc.2.1, ?_⟩
  rw [hc.2.2, hb]; rfl

/-- INTERVAL policies: every tick empties the buffer (data is never held across a tick) -/
theorem C20.interval_policy (s : St) (h : s.policy.ticks = true) : (tick s).buf = [] := by
  unfold tick
  rw [if_pos h]
  exact cut_buf s

def acceptedCount : List Ev → Nat
  | [] => 0
  | .accept _ ps :: r => ps.length + acceptedCount r
  | _ :: r => acceptedCount r

theorem acceptedCount_eq (evs : List Ev) : acceptedCount evs = (evs.map acc).sum := by
  induction evs with
  | nil => rfl
  | cons e r ih => cases e <;> simp [acceptedCount, acc, ih]

/-- SNAPSHOT CONSERVATION: in every reachable state points reported sent plus points reported buffered equal the points
    accepted (never invented, never double counted), and the counters agree with the contents -/
theorem C20.snapshot_conservation (p : Policy) (rev : List (DataID × Nat)) (evs : List Ev) :
    let s := run (init p rev) evs
    s.total + s.bufCount = acceptedCount evs ∧
    s.total = (s.sendHook.map (pointCount ·.2)).sum ∧
    s.bufCount = pointCount (toGroups s.buf) := by
  intro s
  have hi : Inv s := Inv_run_init p rev evs
  refine ⟨?_, hi.total, hi.cnt⟩
  have hc := count_run evs (init p rev)
  have h0 : (init p rev).total + (init p rev).bufCount = 0 := rfl
  rw [h0, Nat.zero_add] at hc
  rw [acceptedCount_eq]
  exact hc

/-- no chunk is ever cut without a point group, and the groups of a chunk have pairwise distinct data ids -/
theorem C20.no_empty_cut (p : Policy) (rev : List (DataID × Nat)) (evs : List Ev) :
    ∀ e ∈ (run (init p rev) evs).sendHook, e.2 ≠ [] ∧ (e.2.map (·.id)).Nodup :=
  (Inv_run_init p rev evs).groups

example : (run (init .none []) [.accept 1 [⟨1, [1]⟩], .tick, .accept 2 [], .ack [] [], .flush]).sent.length = 1 := by decide

end Iscp.Up
