import Iscp.Lemmas.Call
/-
C16 — End-to-end calls and replies reach exactly the caller they belong to.

Model: Iscp/Model/Call.lean (iscp/e2e.go, dispatch loops of iscp/conn.go).  A history is any list of events: callers issuing
calls (with or without waiting for a reply), acks and replies in any order / delay / duplication (reply before ack, unknown ids),
incoming calls, receives, cancellations, reconnects.
Call ids are distinct given distinct outputs of the id source (uuid, trusted): histories are `FreshIds`.
-/
namespace Iscp.Call
open Iscp

/-- every call event uses a call id not used by an earlier call event -/
def FreshIds : List Ev → List Nat → Prop
  | [], _ => True
  | .call _ id _ :: r, used => id ∉ used ∧ FreshIds r (id :: used)
  | _ :: r, used => FreshIds r used

/-- well-formedness of reachable states -/
structure Inv (s : St) : Prop where
  ackOwn : ∀ k ∈ s.callers, k.phase = .waitAck → alGet k.id s.ackReg = some k.c
  oneEach : (s.callers.map (·.c)).Nodup
  idsDistinct : (s.callers.map (·.id)).Nodup

/-- the invariant strengthened by "every blocked caller's call id has been used" (Lemmas/Call.lean) is inductive -/
theorem inv_run : ∀ (evs : List Ev) (s : St) (used : List Nat), SInv s used → FreshIds evs used → Inv (run s evs).1
  | [], _, _, h, _ => ⟨h.ackOwn, h.oneEach, h.idsDistinct⟩
  | e :: r, s, used, h, hf => by
    rw [run_cons]
    cases e with
    | call c id w => exact inv_run r _ (id :: used) (h.call c id w hf.1) hf.2
    | ack id ok => exact inv_run r _ used (h.ack id ok) hf
    | reply t q => exact inv_run r _ used (h.reply t q) hf
    | incoming t => exact inv_run r _ used (h.incoming t) hf
    | recvCall => exact inv_run r _ used h.recvCall hf
    | recvReply => exact inv_run r _ used h.recvReply hf
    | cancel c => exact inv_run r _ used (h.cancel c) hf
    | reconnect => exact inv_run r _ used h hf

theorem C16.inv_reachable (evs : List Ev) (h : FreshIds evs []) : Inv (run {} evs).1 :=
  inv_run evs {} [] (SInv.init []) h

/-- EVERY CALLER IS ACKED: in every well-formed state (hence every reachable one), however many calls are in flight, the ack
    bearing a waiting caller's call id wakes exactly that caller: a plain call returns (ok or the broker's refusal), a
    call-and-wait-reply either returns the reply that arrived early or goes on waiting for it — nobody else returns -/
theorem C16.every_caller_acked (s : St) (hs : Inv s) (k : Caller) (hk : k ∈ s.callers) (hp : k.phase = .waitAck) (ok : Bool) :
    (ack s k.id ok).2 =
      (if ¬ ok then .returnedErr k.c
       else if ¬ k.wantsReply then .returnedOk k.c
       else match k.parkedReply with
         | some tok => .returnedReply k.c tok
         | none => .nobody) := by
  have hreg := hs.ackOwn k hk hp
  have hfind : ∀ (l : List Caller), k ∈ l → (l.map (·.c)).Nodup →
      l.find? (fun x => decide (x.c = k.c ∧ x.id = k.id ∧ x.phase = .waitAck)) = some k := by
    intro l
    induction l with
    | nil => intro h _; cases h
    | cons a l ih =>
      intro hw hnd
      simp only [List.map_cons, List.nodup_cons, List.mem_map, not_exists, not_and] at hnd
      rcases List.mem_cons.1 hw with heq | hw'
      · subst heq; simp [hp]
      · have hne : a.c ≠ k.c := fun h => hnd.1 k hw' h.symm
        rw [List.find?_cons_of_neg (by simp [hne])]
        exact ih hw' hnd.2
  have hf := hfind s.callers hk hs.oneEach
  simp only [ack, hreg, hf]
  by_cases h1 : ok = true
  · by_cases h2 : k.wantsReply = true
    · cases hpr : k.parkedReply <;> simp [h1, h2]
    · simp [h1, h2]
  · simp [h1]

/-- OWN ACK: whenever SendCall / SendReplyCall returns (success or negative ack), the ack bore that caller's own call id -/
theorem C16.own_ack (s : St) (id : Nat) (ok : Bool) (c : Nat) (s' : St)
    (h : step s (.ack id ok) = (s', .returnedOk c) ∨ step s (.ack id ok) = (s', .returnedErr c)) :
    ∃ k ∈ s.callers, k.c = c ∧ k.id = id ∧ k.phase = .waitAck ∧ alGet id s.ackReg = some c := by
  simp only [step, ack] at h
  split at h
  · simp at h
  · next c' hc' =>
    split at h
    · simp at h
    · next k hk =>
      have hmem := List.mem_of_find?_eq_some hk
      have hp := List.find?_some hk
      simp only [decide_eq_true_eq] at hp
      refine ⟨k, hmem, ?_⟩
      have hcc : c' = c := by
        split at h
        · simp at h; exact h.2
        · split at h
          · simp at h; exact h.2
          · split at h <;> simp at h
      subst hcc
      exact ⟨hp.1, hp.2.1, hp.2.2, hc'⟩

/-- OWN REPLY (reply after ack): the reply handed to a waiting caller carries, as request-call id, the id of the call it sent -/
theorem C16.own_reply (s : St) (tok req c : Nat) (s' : St) (h : step s (.reply tok req) = (s', .returnedReply c tok)) :
    ∃ k ∈ s.callers, k.c = c ∧ k.id = req ∧ k.phase = .waitReply ∧ alGet req s.replyReg = some c := by
  simp only [step, reply_eq, replyCore, enq_replyReg, enq_callers] at h
  split at h
  · simp at h
  · next c' hc' =>
    split at h
    · simp at h
    · next k hk =>
      have hmem := List.mem_of_find?_eq_some hk
      have hp := List.find?_some hk
      simp only [decide_eq_true_eq] at hp
      split at h
      · next hph =>
        have hcc : c' = c := by simp at h; exact h.2
        subst hcc
        exact ⟨k, hmem, hp.1, hp.2, hph, hc'⟩
      · simp at h

/-- OWN REPLY (reply before ack): a reply that arrives before the ack is parked for exactly the caller whose call id it names,
    and that is the reply this caller returns when its ack arrives -/
theorem C16.early_reply (s : St) (hs : Inv s) (k : Caller) (hk : k ∈ s.callers) (hw : k.wantsReply = true)
    (hp : k.phase = .waitAck) (hr : alGet k.id s.replyReg = some k.c) (hnp : k.parkedReply = none) (tok : Nat) :
    let s1 := (step s (.reply tok k.id)).1
    (step s (.reply tok k.id)).2 = .nobody ∧ (step s1 (.ack k.id true)).2 = .returnedReply k.c tok := by
  have _ := hnp   -- not needed: a second early reply would overwrite the parked one
  obtain ⟨h1, h2, h3⟩ := reply_early hs.oneEach hk hp hr tok
  refine ⟨h1, ?_⟩
  show (ack (reply s tok k.id).1 k.id true).2 = .returnedReply k.c tok
  have hone : ((reply s tok k.id).1.callers.map (·.c)).Nodup := by
    rw [h2, map_map_key (fun k : Caller => k.c) _ (fun x => by split <;> rfl)]
    exact hs.oneEach
  have hk' : ({ k with parkedReply := some tok } : Caller) ∈ (reply s tok k.id).1.callers := by
    rw [h2, List.mem_map]
    exact ⟨k, hk, by rw [if_pos rfl]⟩
  exact ack_parked hone hk' hp hw (by rw [h3]; exact hs.ackOwn k hk hp) tok rfl

/-- acks and replies for unknown (or already answered) ids reach nobody and disturb nobody (a reply is still queued for ReceiveReplyCall) -/
theorem C16.unknown_ignored (s : St) (id tok : Nat) (ok : Bool) :
    (alGet id s.ackReg = none → step s (.ack id ok) = (s, .nobody)) ∧
    (alGet id s.replyReg = none → (step s (.reply tok id)).2 = .nobody ∧ (step s (.reply tok id)).1.callers = s.callers ∧
        (step s (.reply tok id)).1.ackReg = s.ackReg ∧ (step s (.reply tok id)).1.replyReg = s.replyReg) := by
  constructor
  · intro h
    simp only [step, ack, h]
  · intro h
    simp only [step, reply_eq, replyCore, enq_replyReg, h, enq_callers, enq_ackReg, and_self]

/-- ERROR IS LOCAL: a negative ack (or any ack / reply) removes at most the caller it belongs to; every other blocked caller and
    every other registration is untouched -/
theorem C16.error_local (s : St) (hs : Inv s) (id : Nat) (ok : Bool) (k : Caller) (hk : k ∈ s.callers) (hne : k.id ≠ id) :
    k ∈ (step s (.ack id ok)).1.callers ∧ alGet k.id (step s (.ack id ok)).1.ackReg = alGet k.id s.ackReg ∧
    alGet k.id (step s (.ack id ok)).1.replyReg = alGet k.id s.replyReg := by
  obtain ⟨h1, h2⟩ := ack_local hs.oneEach id ok hk hne
  exact ⟨h1, h2, by simp only [step, ack_replyReg]⟩

def incomingToks : List Ev → List Nat
  | [] => []
  | .incoming t :: r => t :: incomingToks r
  | _ :: r => incomingToks r

def gotToks : List Out → List Nat
  | [] => []
  | .got t :: r => t :: gotToks r
  | _ :: r => gotToks r

def replyToks : List Ev → List (Nat × Nat)
  | [] => []
  | .reply t q :: r => (t, q) :: replyToks r
  | _ :: r => replyToks r

def gotReplies : List Out → List (Nat × Nat)
  | [] => []
  | .gotReply t q :: r => (t, q) :: gotReplies r
  | _ :: r => gotReplies r

theorem gotToks_cons_other (o : Out) (os : List Out) (h : ∀ t, o ≠ .got t) : gotToks (o :: os) = gotToks os := by
  cases o <;> first | rfl | exact absurd rfl (h _)

theorem gotReplies_cons_other (o : Out) (os : List Out) (h : ∀ t q, o ≠ .gotReply t q) :
    gotReplies (o :: os) = gotReplies os := by
  cases o <;> first | rfl | exact absurd rfl (h _ _)

theorem fifo_aux : ∀ (evs : List Ev) (s : St),
    (∀ n, (run s (evs.take n)).1.callInbox.length < cap ∧ (run s (evs.take n)).1.replyInbox.length < cap) →
    gotToks (run s evs).2 ++ (run s evs).1.callInbox = s.callInbox ++ incomingToks evs ∧
    gotReplies (run s evs).2 ++ (run s evs).1.replyInbox = s.replyInbox ++ replyToks evs
  | [], s, _ => by simp [run_nil, gotToks, gotReplies, incomingToks, replyToks]
  | e :: r, s, hcap => by
    have h0 : s.callInbox.length < cap ∧ s.replyInbox.length < cap := hcap 0
    have ih := fifo_aux r (step s e).1 (fun n => by
      have := hcap (n + 1)
      rwa [List.take_succ_cons, run_cons] at this)
    rw [run_cons]
    obtain ⟨ih1, ih2⟩ := ih
    cases e with
    | call c id w =>
      exact ⟨ih1, ih2⟩
    | ack id ok =>
      simp only [step] at ih1 ih2 ⊢
      rw [gotToks_cons_other _ _ (ack_not_got s id ok).1, gotReplies_cons_other _ _ (ack_not_got s id ok).2]
      rw [ack_callInbox] at ih1
      rw [ack_replyInbox] at ih2
      exact ⟨ih1, ih2⟩
    | reply t q =>
      simp only [step, reply_eq] at ih1 ih2 ⊢
      rw [gotToks_cons_other _ _ (replyCore_not_got _ t q).1, gotReplies_cons_other _ _ (replyCore_not_got _ t q).2]
      rw [replyCore_callInbox, enq_callInbox] at ih1
      rw [replyCore_replyInbox] at ih2
      refine ⟨ih1, ?_⟩
      rw [ih2]
      simp only [enq, if_pos h0.2, replyToks, List.append_assoc, List.cons_append, List.nil_append]
    | incoming t =>
      simp only [step] at ih1 ih2 ⊢
      have hri : (incoming s t).replyInbox = s.replyInbox := by unfold incoming; split <;> rfl
      rw [hri] at ih2
      refine ⟨?_, ih2⟩
      show gotToks (run (incoming s t) r).2 ++ _ = _
      rw [ih1]
      simp only [incoming, if_pos h0.1, incomingToks, List.append_assoc, List.cons_append, List.nil_append]
    | recvCall =>
      simp only [step] at ih1 ih2 ⊢
      cases he : s.callInbox with
      | nil =>
        have hs : recvCall s = (s, .empty) := by simp only [recvCall, he]
        rw [hs] at ih1 ih2 ⊢
        rw [he] at ih1
        exact ⟨ih1, ih2⟩
      | cons t q =>
        have hs : recvCall s = ({ s with callInbox := q }, .got t) := by simp only [recvCall, he]
        rw [hs] at ih1 ih2 ⊢
        exact ⟨congrArg (t :: ·) ih1, ih2⟩
    | recvReply =>
      simp only [step] at ih1 ih2 ⊢
      cases he : s.replyInbox with
      | nil =>
        have hs : recvReply s = (s, .empty) := by simp only [recvReply, he]
        rw [hs] at ih1 ih2 ⊢
        rw [he] at ih2
        exact ⟨ih1, ih2⟩
      | cons tq rr =>
        obtain ⟨t, q⟩ := tq
        have hs : recvReply s = ({ s with replyInbox := rr }, .gotReply t q) := by simp only [recvReply, he]
        rw [hs] at ih1 ih2 ⊢
        exact ⟨ih1, congrArg ((t, q) :: ·) ih2⟩
    | cancel c =>
      obtain ⟨_, _, hc1, hc2, _, hn1, hn2⟩ := cancel_fields s c
      simp only [step] at ih1 ih2 ⊢
      rw [gotToks_cons_other _ _ hn1, gotReplies_cons_other _ _ hn2]
      rw [hc1] at ih1
      rw [hc2] at ih2
      exact ⟨ih1, ih2⟩
    | reconnect =>
      exact ⟨ih1, ih2⟩

/-- INBOXES: incoming calls and replies are handed to ReceiveCall / ReceiveReplyCall once each, unmodified, in arrival order
    (while the 1024-deep inboxes do not overflow): received so far ++ still queued = arrived -/
theorem C16.inbox_fifo_once (evs : List Ev)
    (hcap : ∀ n, (run {} (evs.take n)).1.callInbox.length < cap ∧ (run {} (evs.take n)).1.replyInbox.length < cap) :
    gotToks (run {} evs).2 ++ (run {} evs).1.callInbox = incomingToks evs ∧
    gotReplies (run {} evs).2 ++ (run {} evs).1.replyInbox = replyToks evs := by
  simpa using fifo_aux evs {} hcap

/-- a reconnect keeps every waiter registration and both inboxes; a cancelled caller leaves alone, nobody else is affected -/
theorem C16.reconnect_and_cancel (s : St) (c : Nat) :
    step s .reconnect = (s, .sent) ∧
    (step s (.cancel c)).1.ackReg = s.ackReg ∧ (step s (.cancel c)).1.replyReg = s.replyReg ∧
    (step s (.cancel c)).1.callers = s.callers.filter (·.c ≠ c) := by
  obtain ⟨ha, hr, _, _, hc, _⟩ := cancel_fields s c
  exact ⟨rfl, ha, hr, hc⟩

example : (run {} [.call 1 10 true, .call 2 11 false, .reply 5 10, .ack 11 true, .ack 10 true, .ack 10 true, .reply 6 77, .recvReply, .recvReply]).2
    = [.sent, .sent, .nobody, .returnedOk 2, .returnedReply 1 5, .nobody, .nobody, .gotReply 5 10, .gotReply 6 77] := by decide

end Iscp.Call
