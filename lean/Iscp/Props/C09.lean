import Iscp.Lemmas.Lock
import Iscp.Gen.Guarded
/-
C09 — Concurrent use is free of data races: the lock-discipline part, decided by proof.

`Iscp.Gen.Guarded` is regenerated from /repo on every run: for every function of the library, its CFG with the lock
operations AND every access (read / write) to a curated list of shared fields (go/extract/guards.go: field -> guarding
mutex), plus calls of helpers that are documented to be entered with a lock held ("…WithoutLock").  `fn_k_ok` certifies,
by the same checker as C08, that on every path each access is made with its guard held (exclusively for writes) and each
helper is called with the locks it expects.  Below: (1) what a passed check means per operation, (2) the abstract
thread/lock semantics in which lock discipline excludes conflicting accesses, (3) the generated obligation.

What is NOT covered by proof (stated in DESIGN.md): fields ordered by happens-before instead of a lock (listed as
`exemptedSites` with a justification each), third-party code, and the completeness of the curated field list; for those
the race detector workloads (go/search/race) search for counterexamples.
-/
namespace Iscp.Lock

/-- what the checker demands of one operation in a state -/
def legal (s : St) : Op → Prop
  | .acc _ true g => holdsW s.held g = true
  | .acc _ false g => holdsAny s.held g = true
  | .wait m => holdsW s.held m = true
  | .unlock m k => (m, k) ∈ s.held
  | .call req => ∀ e ∈ req, (match e.2 with | .w => holdsW s.held e.1 = true | .r => holdsAny s.held e.1 = true)
  | _ => True

/-- an operation the checker lets pass is legal: every guarded access happens with its guard held (write: exclusively) -/
theorem C09.exec_legal (s s' : St) (o : Op) (h : execOp s o = some s') : legal s o := by
  cases o with
  | lock m k => exact True.intro
  | unlock m k =>
    simp only [execOp] at h
    cases he : eraseH (m, k) s.held with
    | none => simp [he] at h
    | some h' => exact mem_of_eraseH he
  | deferUnlock m k => exact True.intro
  | wait m =>
    simp only [execOp] at h
    split at h
    · rename_i hw; exact hw
    · simp at h
  | acc x w g =>
    cases w with
    | true =>
      simp only [execOp] at h
      split at h
      · rename_i hw; exact hw
      · simp at h
    | false =>
      simp only [execOp] at h
      split at h
      · rename_i hw; exact hw
      · simp at h
  | call req =>
    simp only [execOp] at h
    split at h
    · rename_i hall
      intro e he
      have := List.all_eq_true.mp hall e he
      split at this <;> split <;> simp_all
    · simp at h
  | other => exact True.intro

/-- along every path of a checked function, every operation — in particular every access to a guarded field — is legal
    in the state in which it executes -/
theorem C09.accesses_guarded (f : Fn) (hf : checkFn f = true) (p : List Nat) (hp : isPath f (0 :: p) = true) :
    ∃ s, runPath f ⟨f.entry.foldr insertH [], []⟩ (0 :: p) = some s := by
  obtain ⟨s, hrun, _⟩ := path_sound hf p 0 ⟨f.entry.foldr insertH [], []⟩ (checkFn_cert0 hf) hp
  exact ⟨s, hrun⟩

/-! ### abstract thread / lock semantics -/

/-- who holds what: (thread, lock, mode) -/
abbrev Holds := List (Nat × Nat × Mode)

/-- mutual exclusion of a reader-writer mutex -/
def MutexInv (h : Holds) : Prop :=
  ∀ t t' m k k', (t, m, k) ∈ h → (t', m, k') ∈ h → t ≠ t' → (k = .r ∧ k' = .r)

inductive TStep : Holds → Holds → Prop
  | lockW (h : Holds) (t m : Nat) (free : ∀ t' k, (t', m, k) ∉ h) : TStep h ((t, m, .w) :: h)
  | lockR (h : Holds) (t m : Nat) (noWriter : ∀ t', (t', m, Mode.w) ∉ h) : TStep h ((t, m, .r) :: h)
  | unlock (h : Holds) (e : Nat × Nat × Mode) : TStep h (h.erase e)

inductive Reach : Holds → Prop
  | init : Reach []
  | step (h h' : Holds) : Reach h → TStep h h' → Reach h'

theorem C09.mutex_inv (h : Holds) (hr : Reach h) : MutexInv h := by
  induction hr with
  | init =>
    intro t t' m k k' h1
    cases h1
  | step h h' _ hstep ih =>
    cases hstep with
    | lockW t0 m0 free =>
      intro t t' m k k' h1 h2 hne
      rcases List.mem_cons.mp h1 with e1 | g1
      · rcases List.mem_cons.mp h2 with e2 | g2
        · injection e1 with a1 _
          injection e2 with a2 _
          exact absurd (a1.trans a2.symm) hne
        · injection e1 with _ b1
          injection b1 with c1 _
          subst c1
          exact absurd g2 (free t' k')
      · rcases List.mem_cons.mp h2 with e2 | g2
        · injection e2 with _ b2
          injection b2 with c2 _
          subst c2
          exact absurd g1 (free t k)
        · exact ih t t' m k k' g1 g2 hne
    | lockR t0 m0 noWriter =>
      intro t t' m k k' h1 h2 hne
      rcases List.mem_cons.mp h1 with e1 | g1
      · rcases List.mem_cons.mp h2 with e2 | g2
        · injection e1 with a1 _
          injection e2 with a2 _
          exact absurd (a1.trans a2.symm) hne
        · injection e1 with _ b1
          injection b1 with c1 d1
          subst c1
          subst d1
          cases k' with
          | w => exact absurd g2 (noWriter t')
          | r => exact ⟨rfl, rfl⟩
      · rcases List.mem_cons.mp h2 with e2 | g2
        · injection e2 with _ b2
          injection b2 with c2 d2
          subst c2
          subst d2
          cases k with
          | w => exact absurd g1 (noWriter t)
          | r => exact ⟨rfl, rfl⟩
        · exact ih t t' m k k' g1 g2 hne
    | unlock e =>
      intro t t' m k k' h1 h2 hne
      exact ih t t' m k k' (List.mem_of_mem_erase h1) (List.mem_of_mem_erase h2) hne

/-- DISCIPLINE IS SOUND: in every reachable lock state, two different threads cannot both be at an access to a location
    guarded by `g` when at least one of them writes, if each holds `g` in the mode the discipline demands
    (write: exclusively, read: at least shared).  Hence no two conflicting accesses are ever co-enabled: no data race on
    any location whose every access site passes the check. -/
theorem C09.discipline_sound (h : Holds) (hr : Reach h) (t t' g : Nat) (ht : t ≠ t')
    (hw : (t, g, Mode.w) ∈ h) (k : Mode) (hr' : (t', g, k) ∈ h) : False := by
  have := (C09.mutex_inv h hr t t' g .w k hw hr' ht).1
  cases this

/-- the regenerated obligation: every function passes (one kernel-checked `decide` per function in the Gen file) -/
theorem C09.all_sites_guarded : Iscp.Gen.Guarded.fns.all checkFn = true := Iscp.Gen.Guarded.all_ok

theorem C09.guarded_programs_nonempty : 60 ≤ Iscp.Gen.Guarded.fns.length ∧ 30 ≤ Iscp.Gen.Guarded.locNames.length := by decide

example : checkFn { name := "unguarded write", entry := [], blocks := [⟨[.lock 0 .r, .acc 0 true 0, .unlock 0 .r], [], .ret⟩],
                    cert := [⟨[], []⟩] } = false := by decide

end Iscp.Lock
