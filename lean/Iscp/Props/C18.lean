import Iscp.Lemmas.C18
/-
C18 — Reconnectable transport redials without losing, duplicating or reordering writes.

Model: Iscp/Model/Rec.lean (transport/reconnect/transport.go).  A history is any list of events: `write`,
`failW` / `failR` (the adversary breaks the current underlying connection for writes / for reads), `script`
(the adversary fixes the outcomes of the next redial attempts: ok, dial failure, handshake failure), `deliver`
(a message — possibly the control ping — arrives), `read`, `close`.
Assumption: an underlying Write that returned an error did not deliver.
-/
namespace Iscp.Rec
open Iscp

/-- payloads of the writes that returned nil along a history (pongs answering control pings are writes too) -/
def accepted : List Ev → List Out → List Bytes
  | .write bs :: es, .wrote _ :: os => bs :: accepted es os
  | .deliver bs :: es, .wrote _ :: os => (if bs = pingMsg then [pongMsg] else []) ++ accepted es os
  | _ :: es, _ :: os => accepted es os
  | _, _ => []

/-- ACCEPTED ONCE, IN ORDER: for every history, the writes that returned nil are — each exactly once and in issue
    order — the concatenation of the successive incarnations' logs; nothing else is ever logged. -/
theorem C18.accepted_once_in_order (b : Nat) (evs : List Ev) :
    allLogged (run { budget := b } evs).1 = accepted evs (run { budget := b } evs).2 := by
  sorry

/-- a write that returns nil was accepted by the incarnation that is current when it returns -/
theorem C18.wrote_current (s : St) (bs : Bytes) (i : Nat) (h : (write s bs).2 = .wrote i) :
    i = (write s bs).1.inc ∧ ∃ l, alGet i (write s bs).1.logs = some (l ++ [bs]) := by
  sorry

/-- REDIAL IDENTITY: the first dial is a plain dial, every later dial attempt carries the reconnect flag -/
theorem C18.redial_flags (b : Nat) (evs : List Ev) :
    ∃ k, (run { budget := b } evs).1.dials = false :: List.replicate k true := by
  sorry

/-- control pings are answered with a pong on the current connection and are never returned by Read -/
theorem C18.ping_filtered (s : St) :
    (deliver s pingMsg).1.rq = s.rq ∧
    (¬ s.closed → ¬ s.dead → ¬ s.failW → (deliver s pingMsg).2 = .wrote s.inc ∧
       alGet s.inc (deliver s pingMsg).1.logs = some ((alGet s.inc s.logs).getD [] ++ [pongMsg])) := by
  sorry

def deliveredMsgs : List Ev → List Out → List Bytes
  | .deliver bs :: es, o :: os => (if bs ≠ pingMsg ∧ o = .ok then [bs] else []) ++ deliveredMsgs es os
  | _ :: es, _ :: os => deliveredMsgs es os
  | _, _ => []

def readMsgs : List Out → List Bytes
  | [] => []
  | .msg b :: r => b :: readMsgs r
  | _ :: r => readMsgs r

/-- reads continue across redials: while the transport is neither closed nor dead, what Read returned so far followed by
    what is still queued is exactly the sequence of (non-ping) messages that arrived, in order, each once -/
theorem C18.reads_continue (b : Nat) (evs : List Ev)
    (halive : ¬ (run { budget := b } evs).1.closed ∧ ¬ (run { budget := b } evs).1.dead) :
    readMsgs (run { budget := b } evs).2 ++ (run { budget := b } evs).1.rq = deliveredMsgs evs (run { budget := b } evs).2 := by
  sorry

/-- BUDGET: a redial succeeds iff one of the next `budget` scripted outcomes is `ok` (an exhausted script means ok);
    otherwise the transport is dead, having made exactly `budget` attempts -/
theorem C18.budget (s : St) (hb : 0 < s.budget) :
    ((reconnect s).dead = true ↔ (s.dead = true ∨ (s.budget ≤ s.script.length ∧ ∀ o ∈ s.script.take s.budget, o ≠ Dial.ok))) ∧
    ((reconnect s).dead = true → s.dead = false → (reconnect s).dials.length = s.dials.length + s.budget) := by
  sorry

/-- DEAD MEANS ERROR: once the budget is exhausted or Close was called, every pending and later Read and Write returns an
    error (nothing blocks, nothing is logged, nothing is delivered), forever -/
theorem C18.dead_means_error (s : St) (h : s.closed = true ∨ s.dead = true) (bs : Bytes) :
    write s bs = (s, .err) ∧ read s = (s, .err) ∧ (failRead s).1 = s ∧
    (∀ evs, ((run s evs).1.closed = true ∨ (run s evs).1.dead = true) ∧ allLogged (run s evs).1 = allLogged s) := by
  sorry

example : (run { budget := 2 } [.write [1], .failW, .script [.fail, .ok], .write [2], .deliver pingMsg, .deliver [7], .read]).2
    = [.wrote 0, .ok, .ok, .wrote 1, .wrote 1, .ok, .msg [7]] := by decide
example : (run { budget := 2 } [.failW, .script [.fail, .badHandshake, .ok], .write [2], .write [3]]).2
    = [.ok, .ok, .err, .err] := by decide

end Iscp.Rec
