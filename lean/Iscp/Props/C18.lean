import Iscp.Lemmas.C18
/-
C18 — Reconnectable transport redials without losing, duplicating or reordering writes.

Model: Iscp/Model/Rec.lean (transport/reconnect/transport.go).  A history is any list of events: `write`,
`failW` / `failR` (the adversary breaks the current underlying connection for writes / for reads), `script`
(the adversary fixes the outcomes of the next redial attempts: ok, dial failure, handshake failure), `deliver`
(a message — possibly the control ping — arrives), `read`, `close`.
Assumption: an underlying Write that returned an error did not deliver.
-/
namespace Iscp.Rec
open Iscp

/-- payloads of the writes that returned nil along a history (pongs answering control pings are writes too) -/
def accepted : List Ev → List Out → List Bytes
  | .write bs :: es, .wrote _ :: os => bs :: accepted es os
  | .deliver bs :: es, .wrote _ :: os => (if bs = pingMsg then [pongMsg] else []) ++ accepted es os
  | _ :: es, _ :: os => accepted es os
  | _, _ => []

theorem accepted_cons (e : Ev) (o : Out) (es : List Ev) (os : List Out) :
    accepted (e :: es) (o :: os) = acc1 e o ++ accepted es os := by
  cases e <;> cases o <;> simp [accepted, acc1]

/-- generalisation of `C18.accepted_once_in_order` to any start state satisfying the log invariant -/
theorem allLogged_run (evs : List Ev) : ∀ s : St, LogsInv s →
    allLogged (run s evs).1 = allLogged s ++ accepted evs (run s evs).2 := by
  induction evs with
  | nil => intro s _; simp [run_nil, accepted]
  | cons e r ih =>
    intro s hinv
    obtain ⟨h1, h2⟩ := step_logged s e hinv
    rw [run_cons, accepted_cons, ih _ h1, h2, List.append_assoc]

/-- ACCEPTED ONCE, IN ORDER: for every history, the writes that returned nil are — each exactly once and in issue
    order — the concatenation of the successive incarnations' logs; nothing else is ever logged. -/
theorem C18.accepted_once_in_order (b : Nat) (evs : List Ev) :
    allLogged (run { budget := b } evs).1 = accepted evs (run { budget := b } evs).2 := by
  have h := allLogged_run evs { budget := b } (fun k _ => rfl)
  rw [h]; rfl

/-- a write that returns nil was accepted by the incarnation that is current when it returns -/
theorem C18.wrote_current (s : St) (bs : Bytes) (i : Nat) (h : (write s bs).2 = .wrote i) :
    i = (write s bs).1.inc ∧ ∃ l, alGet i (write s bs).1.logs = some (l ++ [bs]) := by
  have hl : ∀ s' : St, (logTo s' bs).inc = s'.inc ∧
      ∃ l, alGet s'.inc (logTo s' bs).logs = some (l ++ [bs]) :=
    fun s' => ⟨rfl, _, alGet_alPut_self _ _ _⟩
  by_cases h1 : s.closed = true ∨ s.dead = true
  · rw [write_dead s h1] at h; simp at h
  · by_cases h2 : s.failW = true
    · by_cases h3 : (reconnect s).dead = true
      · rw [write_redial_dead s bs h1 h2 h3] at h; simp at h
      · rw [write_redial_ok s bs h1 h2 h3] at h ⊢
        simp only [Out.wrote.injEq] at h
        subst h; exact hl _
    · rw [write_live s bs h1 h2] at h ⊢
      simp only [Out.wrote.injEq] at h
      subst h; exact hl _

/-- REDIAL IDENTITY: the first dial is a plain dial, every later dial attempt carries the reconnect flag -/
theorem C18.redial_flags (b : Nat) (evs : List Ev) :
    ∃ k, (run { budget := b } evs).1.dials = false :: List.replicate k true := by
  obtain ⟨k, hk⟩ := run_dials evs { budget := b }
  exact ⟨k, by rw [hk]; rfl⟩

/-- control pings are answered with a pong on the current connection and are never returned by Read -/
theorem C18.ping_filtered (s : St) :
    (deliver s pingMsg).1.rq = s.rq ∧
    (¬ s.closed → ¬ s.dead → ¬ s.failW → (deliver s pingMsg).2 = .wrote s.inc ∧
       alGet s.inc (deliver s pingMsg).1.logs = some ((alGet s.inc s.logs).getD [] ++ [pongMsg])) := by
  refine ⟨?_, ?_⟩
  · unfold deliver
    split
    · rfl
    · rw [if_pos rfl]; exact (write_rq s pongMsg).1
  · intro hc hd hf
    have h1 : ¬ (s.closed = true ∨ s.dead = true) := fun h => h.elim hc hd
    rw [deliver_ping s h1, write_live s _ h1 hf]
    exact ⟨rfl, alGet_alPut_self _ _ _⟩

def deliveredMsgs : List Ev → List Out → List Bytes
  | .deliver bs :: es, o :: os => (if bs ≠ pingMsg ∧ o = .ok then [bs] else []) ++ deliveredMsgs es os
  | _ :: es, _ :: os => deliveredMsgs es os
  | _, _ => []

def readMsgs : List Out → List Bytes
  | [] => []
  | .msg b :: r => b :: readMsgs r
  | _ :: r => readMsgs r

theorem readMsgs_cons (o : Out) (os : List Out) : readMsgs (o :: os) = rd1 o ++ readMsgs os := by
  cases o <;> rfl

theorem deliveredMsgs_cons (e : Ev) (o : Out) (es : List Ev) (os : List Out) :
    deliveredMsgs (e :: es) (o :: os) = del1 e o ++ deliveredMsgs es os := by
  cases e <;> simp [deliveredMsgs, del1]

/-- generalisation of `C18.reads_continue` to any start state -/
theorem reads_run (evs : List Ev) : ∀ s : St,
    ¬ (run s evs).1.closed = true → ¬ (run s evs).1.dead = true →
    readMsgs (run s evs).2 ++ (run s evs).1.rq = s.rq ++ deliveredMsgs evs (run s evs).2 := by
  induction evs with
  | nil => intro s _ _; simp [run_nil, readMsgs, deliveredMsgs]
  | cons e r ih =>
    intro s hc hd
    rw [run_cons] at hc hd
    have h1 : ¬ ((step s e).1.closed = true ∨ (step s e).1.dead = true) :=
      fun h => (run_absorb r _ h).1.elim hc hd
    have h0 : ¬ (s.closed = true ∨ s.dead = true) := fun h => h1 (step_absorb s e h).1
    have hs := step_reads s e (fun h => h0 (.inl h)) (fun h => h0 (.inr h))
    rw [run_cons, readMsgs_cons, deliveredMsgs_cons, List.append_assoc, ih _ hc hd,
      ← List.append_assoc, hs, List.append_assoc]

/-- reads continue across redials: while the transport is neither closed nor dead, what Read returned so far followed by
    what is still queued is exactly the sequence of (non-ping) messages that arrived, in order, each once -/
theorem C18.reads_continue (b : Nat) (evs : List Ev)
    (halive : ¬ (run { budget := b } evs).1.closed ∧ ¬ (run { budget := b } evs).1.dead) :
    readMsgs (run { budget := b } evs).2 ++ (run { budget := b } evs).1.rq = deliveredMsgs evs (run { budget := b } evs).2 := by
  rw [reads_run evs _ halive.1 halive.2]; rfl

/-- BUDGET: a redial succeeds iff one of the next `budget` scripted outcomes is `ok` (an exhausted script means ok);
    otherwise the transport is dead, having made exactly `budget` attempts -/
theorem C18.budget (s : St) (hb : 0 < s.budget) :
    ((reconnect s).dead = true ↔ (s.dead = true ∨ (s.budget ≤ s.script.length ∧ ∀ o ∈ s.script.take s.budget, o ≠ Dial.ok))) ∧
    ((reconnect s).dead = true → s.dead = false → (reconnect s).dials.length = s.dials.length + s.budget) :=
  have _ := hb  -- (not needed: both parts hold for budget 0 as well)
  ⟨redial_dead_iff s.budget s, redial_dead_dials s.budget s⟩

/-- DEAD MEANS ERROR: once the budget is exhausted or Close was called, every pending and later Read and Write returns an
    error (nothing blocks, nothing is logged, nothing is delivered), forever -/
theorem C18.dead_means_error (s : St) (h : s.closed = true ∨ s.dead = true) (bs : Bytes) :
    write s bs = (s, .err) ∧ read s = (s, .err) ∧ (failRead s).1 = s ∧
    (∀ evs, ((run s evs).1.closed = true ∨ (run s evs).1.dead = true) ∧ allLogged (run s evs).1 = allLogged s) := by
  refine ⟨write_dead s h bs, by simp [read, h], by simp [failRead, h], fun evs => ?_⟩
  obtain ⟨h1, h2, h3⟩ := run_absorb evs s h
  exact ⟨h1, by rw [allLogged_eq, allLogged_eq, h2, h3]⟩

example : (run { budget := 2 } [.write [1], .failW, .script [.fail, .ok], .write [2], .deliver pingMsg, .deliver [7], .read]).2
    = [.wrote 0, .ok, .ok, .wrote 1, .wrote 1, .ok, .msg [7]] := by decide
example : (run { budget := 2 } [.failW, .script [.fail, .badHandshake, .ok], .write [2], .write [3]]).2
    = [.ok, .ok, .err, .err] := by decide

end Iscp.Rec
