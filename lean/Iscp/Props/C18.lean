import Iscp.Lemmas.C18
/-
C18 — Reconnectable transport redials without losing, duplicating or reordering writes.

Model: Iscp/Model/Rec.lean (transport/reconnect/transport.go).  A history is any list of events: `write`,
`failW` / `failR` (the adversary breaks the current underlying connection for writes / for reads), `script`
(the adversary fixes the outcomes of the next redial attempts: ok, dial failure, handshake failure), `deliver`
(a message — possibly the control ping — arrives), `read`, `close`, `bornFailing k` (the adversary spoils the next k
incarnations: each is born with failing writes, so that the single write loop has to redial again and again for the same
request — repeated write failures).
Assumption: an underlying Write that returned an error did not deliver.
-/
namespace Iscp.Rec
open Iscp

/-- payloads of the writes that returned nil along a history (pongs answering control pings are writes too) -/
def accepted : List Ev → List Out → List Bytes
  | .write bs :: es, .wrote _ :: os => bs :: accepted es os
  | .deliver bs :: es, .wrote _ :: os => (if bs = pingMsg then [pongMsg] else []) ++ accepted es os
  | _ :: es, _ :: os => accepted es os
  | _, _ => []

theorem accepted_cons (e : Ev) (o : Out) (es : List Ev) (os : List Out) :
    accepted (e :: es) (o :: os) = acc1 e o ++ accepted es os := by
  cases e <;> cases o <;> simp [accepted, acc1]

/-- generalisation of `C18.accepted_once_in_order` to any start state satisfying the log invariant -/
theorem allLogged_run (evs : List Ev) : ∀ s : St, LogsInv s →
    allLogged (run s evs).1 = allLogged s ++ accepted evs (run s evs).2 := by
  induction evs with
  | nil => intro s _; simp [run_nil, accepted]
  | cons e r ih =>
    intro s hinv
    obtain ⟨h1, h2⟩ := step_logged s e hinv
    rw [run_cons, accepted_cons, ih _ h1, h2, List.append_assoc]

/-- ACCEPTED ONCE, IN ORDER: for every history, the writes that returned nil are — each exactly once and in issue
    order — the concatenation of the successive incarnations' logs; nothing else is ever logged. -/
theorem C18.accepted_once_in_order (b : Nat) (evs : List Ev) :
    allLogged (run { budget := b } evs).1 = accepted evs (run { budget := b } evs).2 := by
  have h := allLogged_run evs { budget := b } (fun k _ => rfl)
  rw [h]; rfl

/-- a write that returns nil was accepted by the incarnation that is current when it returns (after however many redials
    the write loop needed), and that incarnation's log ends with the payload -/
theorem C18.wrote_current (s : St) (bs : Bytes) (i : Nat) (h : (write s bs).2 = .wrote i) :
    i = (write s bs).1.inc ∧ ∃ l, alGet i (write s bs).1.logs = some (l ++ [bs]) := by
  obtain ⟨s', _, _, _, _, _, g6⟩ := write_cases s bs
  rcases g6 with ⟨hw, _⟩ | ⟨hw, _⟩
  · rw [hw] at h; simp at h
  · rw [hw] at h ⊢
    simp only [Out.wrote.injEq] at h
    subst h
    exact ⟨rfl, _, alGet_alPut_self _ _ _⟩

/-- a Write fails only after Close or when the redial budget is exhausted (before the call or during it); in particular the
    write loop's fuel never runs out, whatever the adversary does -/
theorem C18.write_err_only_dead (s : St) (bs : Bytes) (h : (write s bs).2 = .err) :
    s.closed = true ∨ s.dead = true ∨ (write s bs).1.dead = true := by
  obtain ⟨s', _, _, _, _, _, g6⟩ := write_cases s bs
  rcases g6 with ⟨hw, hd⟩ | ⟨hw, _⟩
  · rw [hw]; exact hd
  · rw [hw] at h; simp at h

/-- REPEATED WRITE FAILURES: the current connection's writes fail, the next `k` incarnations are born with failing writes,
    every redial attempt succeeds: the request is accepted exactly once, by the first incarnation whose writes work
    (`inc + k + 1`), after exactly `k + 1` redials; nothing else is logged and the adversary's stock is used up -/
theorem C18.repeated_write_failures (s : St) (bs : Bytes) (k : Nat)
    (hc : ¬ s.closed) (hd : ¬ s.dead) (hf : s.failW = true) (hk : s.bornFailing = k)
    (hs : s.script = []) (hb : 0 < s.budget) (hinv : LogsInv s) :
    (write s bs).2 = .wrote (s.inc + k + 1) ∧ (write s bs).1.inc = s.inc + k + 1 ∧
    (write s bs).1.bornFailing = 0 ∧ (write s bs).1.failW = false ∧
    allLogged (write s bs).1 = allLogged s ++ [bs] ∧
    alGet (s.inc + k + 1) (write s bs).1.logs = some [bs] ∧
    (write s bs).1.dials = s.dials ++ List.replicate (k + 1) true := by
  have h1 : ¬ (s.closed = true ∨ s.dead = true) := fun h => h.elim hc hd
  obtain ⟨s', g1, g2, g3, g4, g5, g6⟩ :=
    writeLoop_repeated bs k (s.bornFailing + 2) s hf hk hs hb hd (by omega)
  have hr : allLogged s' = allLogged s ∧ LogsInv s' := allLogged_of_logs_eq s s' g5 (by omega) hinv
  have hl := allLogged_logTo s' bs hr.2
  rw [write_alive s bs h1, g1]
  refine ⟨by rw [g2], g2, g3, g4, by rw [hl.1, hr.1], ?_, g6⟩
  show alGet (s.inc + k + 1) (alPut s'.inc _ s'.logs) = some [bs]
  rw [← g2, alGet_alPut_self, g5, hinv s'.inc (by omega)]
  rfl

/-- REDIAL IDENTITY: the first dial is a plain dial, every later dial attempt carries the reconnect flag -/
theorem C18.redial_flags (b : Nat) (evs : List Ev) :
    ∃ k, (run { budget := b } evs).1.dials = false :: List.replicate k true := by
  obtain ⟨k, hk⟩ := run_dials evs { budget := b }
  exact ⟨k, by rw [hk]; rfl⟩

/-- control pings are answered with a pong on the current connection and are never returned by Read -/
theorem C18.ping_filtered (s : St) :
    (deliver s pingMsg).1.rq = s.rq ∧
    (¬ s.closed → ¬ s.dead → ¬ s.failW → (deliver s pingMsg).2 = .wrote s.inc ∧
       alGet s.inc (deliver s pingMsg).1.logs = some ((alGet s.inc s.logs).getD [] ++ [pongMsg])) := by
  refine ⟨?_, ?_⟩
  · unfold deliver
    split
    · rfl
    · rw [if_pos rfl]; exact (write_rq s pongMsg).1
  · intro hc hd hf
    have h1 : ¬ (s.closed = true ∨ s.dead = true) := fun h => h.elim hc hd
    rw [deliver_ping s h1, write_live s _ h1 hf]
    exact ⟨rfl, alGet_alPut_self _ _ _⟩

def deliveredMsgs : List Ev → List Out → List Bytes
  | .deliver bs :: es, o :: os => (if bs ≠ pingMsg ∧ o = .ok then [bs] else []) ++ deliveredMsgs es os
  | _ :: es, _ :: os => deliveredMsgs es os
  | _, _ => []

def readMsgs : List Out → List Bytes
  | [] => []
  | .msg b :: r => b :: readMsgs r
  | _ :: r => readMsgs r

theorem readMsgs_cons (o : Out) (os : List Out) : readMsgs (o :: os) = rd1 o ++ readMsgs os := by
  cases o <;> rfl

theorem deliveredMsgs_cons (e : Ev) (o : Out) (es : List Ev) (os : List Out) :
    deliveredMsgs (e :: es) (o :: os) = del1 e o ++ deliveredMsgs es os := by
  cases e <;> simp [deliveredMsgs, del1]

/-- generalisation of `C18.reads_continue` to any start state -/
theorem reads_run (evs : List Ev) : ∀ s : St,
    ¬ (run s evs).1.closed = true → ¬ (run s evs).1.dead = true →
    readMsgs (run s evs).2 ++ (run s evs).1.rq = s.rq ++ deliveredMsgs evs (run s evs).2 := by
  induction evs with
  | nil => intro s _ _; simp [run_nil, readMsgs, deliveredMsgs]
  | cons e r ih =>
    intro s hc hd
    rw [run_cons] at hc hd
    have h1 : ¬ ((step s e).1.closed = true ∨ (step s e).1.dead = true) :=
      fun h => (run_absorb r _ h).1.elim hc hd
    have h0 : ¬ (s.closed = true ∨ s.dead = true) := fun h => h1 (step_absorb s e h).1
    have hs := step_reads s e (fun h => h0 (.inl h)) (fun h => h0 (.inr h))
    rw [run_cons, readMsgs_cons, deliveredMsgs_cons, List.append_assoc, ih _ hc hd,
      ← List.append_assoc, hs, List.append_assoc]

/-- reads continue across redials: while the transport is neither closed nor dead, what Read returned so far followed by
    what is still queued is exactly the sequence of (non-ping) messages that arrived, in order, each once -/
theorem C18.reads_continue (b : Nat) (evs : List Ev)
    (halive : ¬ (run { budget := b } evs).1.closed ∧ ¬ (run { budget := b } evs).1.dead) :
    readMsgs (run { budget := b } evs).2 ++ (run { budget := b } evs).1.rq = deliveredMsgs evs (run { budget := b } evs).2 := by
  rw [reads_run evs _ halive.1 halive.2]; rfl

/-- BUDGET: a redial succeeds iff one of the next `budget` scripted outcomes is `ok` (an exhausted script means ok);
    otherwise the transport is dead, having made exactly `budget` attempts -/
theorem C18.budget (s : St) (hb : 0 < s.budget) :
    ((reconnect s).dead = true ↔ (s.dead = true ∨ (s.budget ≤ s.script.length ∧ ∀ o ∈ s.script.take s.budget, o ≠ Dial.ok))) ∧
    ((reconnect s).dead = true → s.dead = false → (reconnect s).dials.length = s.dials.length + s.budget) :=
  have _ := hb  -- (not needed: both parts hold for budget 0 as well)
  ⟨redial_dead_iff s.budget s, redial_dead_dials s.budget s⟩

/-- DEAD MEANS ERROR: once the budget is exhausted or Close was called, every pending and later Read and Write returns an
    error (nothing blocks, nothing is logged, nothing is delivered), forever -/
theorem C18.dead_means_error (s : St) (h : s.closed = true ∨ s.dead = true) (bs : Bytes) :
    write s bs = (s, .err) ∧ read s = (s, .err) ∧ (failRead s).1 = s ∧
    (∀ evs, ((run s evs).1.closed = true ∨ (run s evs).1.dead = true) ∧ allLogged (run s evs).1 = allLogged s) := by
  refine ⟨write_dead s h bs, by simp [read, h], by simp [failRead, h], fun evs => ?_⟩
  obtain ⟨h1, h2, h3⟩ := run_absorb evs s h
  exact ⟨h1, by rw [allLogged_eq, allLogged_eq, h2, h3]⟩

example : (run { budget := 2 } [.write [1], .failW, .script [.fail, .ok], .write [2], .deliver pingMsg, .deliver [7], .read]).2
    = [.wrote 0, .ok, .ok, .wrote 1, .wrote 1, .ok, .msg [7]] := by decide
example : (run { budget := 2 } [.failW, .script [.fail, .badHandshake, .ok], .write [2], .write [3]]).2
    = [.ok, .ok, .err, .err] := by decide
/-- repeated write failures: incarnations 1 and 2 are born with failing writes, the pending write lands on incarnation 3 -/
def exLandsOn3 : List Ev := [.write [1], .bornFailing 2, .failW, .write [2], .write [3]]
example : (run { budget := 2 } exLandsOn3).2 = [.wrote 0, .ok, .ok, .wrote 3, .wrote 3] := by decide
example : (run { budget := 2 } exLandsOn3).1.inc = 3 ∧ (run { budget := 2 } exLandsOn3).1.failW = false ∧
    (run { budget := 2 } exLandsOn3).1.bornFailing = 0 ∧ (run { budget := 2 } exLandsOn3).1.dead = false ∧
    (run { budget := 2 } exLandsOn3).1.dials = [false, true, true, true] ∧
    allLogged (run { budget := 2 } exLandsOn3).1 = [[1], [2], [3]] ∧
    alGet 3 (run { budget := 2 } exLandsOn3).1.logs = some [[2], [3]] := by decide
/-- ... and the budget is exhausted in the middle of the loop: two redials succeed (incarnations 1 and 2, both spoilt), the
    third one uses up its two attempts; the request is logged nowhere and every later Write fails -/
def exDiesMidLoop : List Ev := [.bornFailing 2, .failW, .script [.ok, .fail, .ok, .fail, .fail], .write [2], .write [3]]
example : (run { budget := 2 } exDiesMidLoop).2 = [.ok, .ok, .ok, .err, .err] := by decide
example : (run { budget := 2 } exDiesMidLoop).1.inc = 2 ∧ (run { budget := 2 } exDiesMidLoop).1.dead = true ∧
    (run { budget := 2 } exDiesMidLoop).1.dials = [false, true, true, true, true, true] ∧
    allLogged (run { budget := 2 } exDiesMidLoop).1 = [] := by decide

end Iscp.Rec
