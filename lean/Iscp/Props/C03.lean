import Iscp.Lemmas.Down
/-
C03 — Downstream returns each broker chunk / metadata once, in order, correctly resolved.
C04 — Downstream acks every consumed chunk once and announces aliases consistently.     (Props/C04.lean)

Model: Iscp/Model/Down.lean.  A history is any list of events arrive / read / flushAck / close / arriveMeta / readMeta /
resume: every relative timing of reads, flushes and arrivals is such a list.
-/
namespace Iscp.Down
open Iscp

def arrivals : List Ev → List WChunk
  | [] => []
  | .arrive c :: r => c :: arrivals r
  | _ :: r => arrivals r

/-- the outcomes of the read events of a history, in order -/
def readOuts : St → List Ev → List ReadOut
  | _, [] => []
  | s, .read :: r => (read s).2 :: readOuts (step s .read) r
  | s, e :: r => readOuts (step s e) r

/-- the consumer keeps up: the inbox never overflows along the history -/
def keepsUp : St → List Ev → Bool
  | _, [] => true
  | s, e :: r => (match e with | .arrive _ => s.inbox.length < cap | _ => true) && keepsUp (step s e) r

def consumed (outs : List ReadOut) : Nat := (outs.filter (· ≠ .empty)).length

theorem consumed_cons (o : ReadOut) (outs : List ReadOut) :
    consumed (o :: outs) = (if o = .empty then 0 else 1) + consumed outs := by
  unfold consumed
  by_cases h : o = .empty
  · simp [h]
  · simp [h]; omega

/-- generalisation of C03.in_order_once to any start state -/
theorem in_order_aux (evs : List Ev) : ∀ s, keepsUp s evs = true →
    (s.inbox ++ arrivals evs).drop (consumed (readOuts s evs)) = (run s evs).inbox ∧
    consumed (readOuts s evs) ≤ s.inbox.length + (arrivals evs).length := by
  induction evs with
  | nil => intro s _; simp [readOuts, consumed, arrivals, run]
  | cons e r ih =>
    intro s hk
    simp only [keepsUp, Bool.and_eq_true] at hk
    obtain ⟨hk1, hk2⟩ := hk
    obtain ⟨ih1, ih2⟩ := ih _ hk2
    rw [run_cons]
    cases e with
    | arrive c =>
      simp only [decide_eq_true_eq] at hk1
      have hs : step s (.arrive c) = { s with inbox := s.inbox ++ [c] } := arrive_of_lt c hk1
      simp only [readOuts, arrivals]
      rw [← ih1]
      rw [hs] at ih2 ⊢
      simp only [List.append_assoc, List.cons_append, List.nil_append, List.length_append, List.length_cons,
        List.length_nil] at ih2 ⊢
      exact ⟨trivial, by omega⟩
    | read =>
      simp only [readOuts, arrivals, consumed_cons]
      rw [← ih1]
      cases hi : s.inbox with
      | nil =>
        have hs : read s = (s, .empty) := read_nil hi
        simp only [step, hs, hi, if_true, Nat.zero_add] at ih2 ⊢
        exact ⟨trivial, ih2⟩
      | cons c rest =>
        obtain ⟨i, g, t, a, g', t', a', rr, hsh⟩ := read_shape s
        have hne : (read s).2 ≠ .empty := by
          rcases read_cases hi with ⟨u, gs, _, _, h⟩ | ⟨_, h⟩ <;> rw [h] <;> simp
        have hin : (read s).1.inbox = rest := by
          obtain ⟨g, t, a, g', t', a', hp⟩ := readPre_shape s c rest
          rcases read_cases hi with ⟨u, gs, _, _, h⟩ | ⟨_, h⟩ <;> rw [h, hp]
        simp only [step, hin, if_neg hne] at ih2 ⊢
        simp only [List.cons_append, List.length_cons]
        rw [Nat.add_comm 1, List.drop_succ_cons]
        exact ⟨rfl, by omega⟩
    | flushAck =>
      obtain ⟨i, k, ua, ia, rr, o, h⟩ := flushAck_shape s
      simp only [readOuts, arrivals]
      simp only [step, h] at ih1 ih2 ⊢
      exact ⟨ih1, ih2⟩
    | close =>
      obtain ⟨i, k, ua, ia, rr, o, h⟩ := close_shape s
      simp only [readOuts, arrivals]
      simp only [step, h] at ih1 ih2 ⊢
      exact ⟨ih1, ih2⟩
    | arriveMeta n q =>
      obtain ⟨b, h⟩ := arriveMeta_shape s n q
      simp only [readOuts, arrivals]
      simp only [step, h] at ih1 ih2 ⊢
      exact ⟨ih1, ih2⟩
    | readMeta =>
      obtain ⟨b, a, h⟩ := readMeta_shape s
      simp only [readOuts, arrivals]
      simp only [step, h] at ih1 ih2 ⊢
      exact ⟨ih1, ih2⟩
    | resume =>
      simp only [readOuts, arrivals]
      simp only [step] at ih1 ih2 ⊢
      exact ⟨ih1, ih2⟩

/-- IN ORDER, ONCE: for every history in which the consumer keeps up, the non-empty read outcomes correspond one to one, in the
    broker's order, to the chunks that arrived; what has not been read yet is still queued, in order. -/
theorem C03.in_order_once (ids : List DataID) (evs : List Ev) (h : keepsUp (initWith ids) evs = true) :
    let s := run (initWith ids) evs
    let outs := readOuts (initWith ids) evs
    (arrivals evs).drop (consumed outs) = s.inbox ∧ consumed outs ≤ (arrivals evs).length := by
  have := in_order_aux evs (initWith ids) h
  simpa using this

/-- the alias tables are functional: one alias names one thing -/
def TablesOK (s : St) : Prop :=
  (s.idFwd.map (·.1)).Nodup ∧ (s.upFwd.map (·.1)).Nodup

/-- UNCHANGED and CORRECTLY RESOLVED: a successful read returns the chunk at the head of the inbox with its sequence number and
    every point (elapsed time, payload) unchanged, the upstream being the announced one for an upstream alias, each data id the
    announced (or pre-registered) one for a data-id alias, and full-form references as sent. -/
theorem C03.resolution (s : St) (c : WChunk) (rest : List WChunk) (r : RChunk) (hin : s.inbox = c :: rest)
    (hr : (read s).2 = .chunk r) :
    r.seq = c.seq ∧
    r.groups.map (·.points) = c.groups.map (·.points) ∧
    (match c.up with | .info u => r.up = u | .alias a => alGet a (read s).1.upFwd = some r.up) ∧
    (∀ i (hi : i < c.groups.length) (hj : i < r.groups.length),
        match c.groups[i].ref with
        | .id d => r.groups[i].id = d
        | .alias a => alGet a (read s).1.idFwd = some r.groups[i].id) := by
  rcases read_cases hin with ⟨u, gs, hu, hg, h⟩ | ⟨_, h⟩
  · rw [h] at hr ⊢
    simp only [ReadOut.chunk.injEq] at hr
    subst hr
    refine ⟨rfl, resolveGroups_points hg, ?_, ?_⟩
    · cases hc : c.up with
      | info u' => rw [hc] at hu; simp only [resolveUp, Option.some.injEq] at hu; exact hu.symm
      | «alias» a => rw [hc] at hu; exact hu
    · intro i hi hj
      exact resolveGroups_get hg i hi hj
  · rw [h] at hr; cases hr

/-- what the client has announced is never re-bound: tables only grow, existing aliases keep their meaning -/
theorem C03.tables_stable (s : St) (e : Ev) (a x : Nat) :
    (alGet a s.upFwd = some x → alGet a (step s e).upFwd = some x) ∧
    (∀ d, alGet a s.idFwd = some d → alGet a (step s e).idFwd = some d) := by
  obtain ⟨⟨m, h1⟩, ⟨m', h2⟩⟩ := step_grows s e
  exact ⟨fun h => by rw [h1]; exact alGet_append_some m h, fun d h => by rw [h2]; exact alGet_append_some m' h⟩

/-- a chunk that uses an alias the client never announced (not in its tables even after this read's own announcements) is
    reported as an error: it is not returned, never acknowledged, and it is consumed (it will not be delivered later either) -/
theorem C03.unknown_alias_is_error (s : St) (c : WChunk) (rest : List WChunk) (hin : s.inbox = c :: rest) :
    ((read s).2 = .errAlias ↔
        ((∃ a, c.up = .alias a ∧ alGet a (read s).1.upFwd = none) ∨
         (∃ g ∈ c.groups, ∃ a, g.ref = .alias a ∧ alGet a (read s).1.idFwd = none))) ∧
    ((read s).2 = .errAlias → (read s).1.results = s.results ∧ (read s).1.inbox = rest) := by
  rcases read_cases hin with ⟨u, gs, hu, hg, h⟩ | ⟨hn, h⟩
  · rw [h]
    refine ⟨⟨fun h' => (by cases h'), ?_⟩, fun h' => (by cases h')⟩
    rintro (⟨a, hc, ha⟩ | ⟨g, hm, a, hr, ha⟩)
    · have := (resolveUp_none (s := readPre s c rest)).mpr ⟨a, hc, ha⟩
      rw [hu] at this; cases this
    · have := (resolveGroups_none (s := readPre s c rest)).mpr ⟨g, hm, a, hr, ha⟩
      rw [hg] at this; cases this
  · rw [h]
    refine ⟨⟨fun _ => ?_, fun _ => rfl⟩, fun _ => ?_⟩
    · rcases hn with hn | hn
      · exact .inl (resolveUp_none.mp hn)
      · exact .inr (resolveGroups_none.mp hn)
    · obtain ⟨g, t, a, g', t', a', hp⟩ := readPre_shape s c rest
      rw [hp]; exact ⟨rfl, rfl⟩

def metaArrivals (node : Nat) : List Ev → List Nat
  | [] => []
  | .arriveMeta n r :: rest => (if n = node then [r] else []) ++ metaArrivals node rest
  | _ :: rest => metaArrivals node rest

/-- METADATA: per source node, metadata is returned in arrival order, each once, and each is acknowledged with the request id it
    came with: the acknowledged ids followed by the ids still queued are exactly the arrivals (below the buffer capacity). -/
theorem C03.metadata_order (ids : List DataID) (evs : List Ev)
    (hcap : ∀ k, ((run (initWith ids) (evs.take k)).metaBox.length < cap)) :
    let s := run (initWith ids) evs
    s.metaAcks ++ s.metaBox.map (·.2) = (evs.filterMap fun e => match e with | .arriveMeta _ r => some r | _ => none) := by
  have hf : (fun e : Ev => match e with | .arriveMeta _ r => some r | _ => none) = metaReq := by
    funext e; cases e <;> rfl
  have := run_metaView evs (initWith ids) hcap
  simp only [metaView, initWith_metaAcks, initWith_metaBox, List.map_nil, List.append_nil, List.nil_append] at this
  rw [hf]; exact this

example : (readOuts (initWith [7]) [.arrive ⟨.info 3, 1, [⟨.id 7, []⟩, ⟨.id 9, [⟨1, [2]⟩]⟩]⟩, .read, .arrive ⟨.alias 1, 2, [⟨.alias 2, []⟩]⟩, .read, .arrive ⟨.alias 9, 3, []⟩, .read])
    = [.chunk ⟨3, 1, [⟨7, []⟩, ⟨9, [⟨1, [2]⟩]⟩]⟩, .chunk ⟨3, 2, [⟨9, []⟩]⟩, .errAlias] := by decide

end Iscp.Down
