import Iscp.Lemmas.Down
/-
C03 — Downstream returns each broker chunk / metadata once, in order, correctly resolved.
C04 — Downstream acks every consumed chunk once and announces aliases consistently.     (Props/C04.lean)

Model: Iscp/Model/Down.lean.  A history is any list of events arrive / read / flushAck / close / arriveMeta / readMeta /
resume: every relative timing of reads, flushes and arrivals is such a list.
-/
namespace Iscp.Down
open Iscp

def arrivals : List Ev → List WChunk
  | [] => []
  | .arrive c :: r => c :: arrivals r
  | _ :: r => arrivals r

/-- the outcomes of the read events of a history, in order -/
def readOuts : St → List Ev → List ReadOut
  | _, [] => []
  | s, .read :: r => (read s).2 :: readOuts (step s .read) r
  | s, e :: r => readOuts (step s e) r

/-- the consumer keeps up: the inbox never overflows along the history -/
def keepsUp : St → List Ev → Bool
  | _, [] => true
  | s, e :: r => (match e with | .arrive _ => s.inbox.length < cap | _ => true) && keepsUp (step s e) r

def consumed (outs : List ReadOut) : Nat := (outs.filter (· ≠ .empty)).length

/-- IN ORDER, ONCE: for every history in which the consumer keeps up, the non-empty read outcomes correspond one to one, in the
    broker's order, to the chunks that arrived; what has not been read yet is still queued, in order. -/
theorem C03.in_order_once (ids : List DataID) (evs : List Ev) (h : keepsUp (initWith ids) evs = true) :
    let s := run (initWith ids) evs
    let outs := readOuts (initWith ids) evs
    (arrivals evs).drop (consumed outs) = s.inbox ∧ consumed outs ≤ (arrivals evs).length := by
  sorry

/-- the alias tables are functional: one alias names one thing -/
def TablesOK (s : St) : Prop :=
  (s.idFwd.map (·.1)).Nodup ∧ (s.upFwd.map (·.1)).Nodup

/-- UNCHANGED and CORRECTLY RESOLVED: a successful read returns the chunk at the head of the inbox with its sequence number and
    every point (elapsed time, payload) unchanged, the upstream being the announced one for an upstream alias, each data id the
    announced (or pre-registered) one for a data-id alias, and full-form references as sent. -/
theorem C03.resolution (s : St) (c : WChunk) (rest : List WChunk) (r : RChunk) (hin : s.inbox = c :: rest)
    (hr : (read s).2 = .chunk r) :
    r.seq = c.seq ∧
    r.groups.map (·.points) = c.groups.map (·.points) ∧
    (match c.up with | .info u => r.up = u | .alias a => alGet a (read s).1.upFwd = some r.up) ∧
    (∀ i (hi : i < c.groups.length) (hj : i < r.groups.length),
        match c.groups[i].ref with
        | .id d => r.groups[i].id = d
        | .alias a => alGet a (read s).1.idFwd = some r.groups[i].id) := by
  sorry

/-- what the client has announced is never re-bound: tables only grow, existing aliases keep their meaning -/
theorem C03.tables_stable (s : St) (e : Ev) (a x : Nat) :
    (alGet a s.upFwd = some x → alGet a (step s e).upFwd = some x) ∧
    (∀ d, alGet a s.idFwd = some d → alGet a (step s e).idFwd = some d) := by
  sorry

/-- a chunk that uses an alias the client never announced (not in its tables even after this read's own announcements) is
    reported as an error: it is not returned, never acknowledged, and it is consumed (it will not be delivered later either) -/
theorem C03.unknown_alias_is_error (s : St) (c : WChunk) (rest : List WChunk) (hin : s.inbox = c :: rest) :
    ((read s).2 = .errAlias ↔
        ((∃ a, c.up = .alias a ∧ alGet a (read s).1.upFwd = none) ∨
         (∃ g ∈ c.groups, ∃ a, g.ref = .alias a ∧ alGet a (read s).1.idFwd = none))) ∧
    ((read s).2 = .errAlias → (read s).1.results = s.results ∧ (read s).1.inbox = rest) := by
  sorry

def metaArrivals (node : Nat) : List Ev → List Nat
  | [] => []
  | .arriveMeta n r :: rest => (if n = node then [r] else []) ++ metaArrivals node rest
  | _ :: rest => metaArrivals node rest

/-- METADATA: per source node, metadata is returned in arrival order, each once, and each is acknowledged with the request id it
    came with: the acknowledged ids followed by the ids still queued are exactly the arrivals (below the buffer capacity). -/
theorem C03.metadata_order (ids : List DataID) (evs : List Ev)
    (hcap : ∀ k, ((run (initWith ids) (evs.take k)).metaBox.length < cap)) :
    let s := run (initWith ids) evs
    s.metaAcks ++ s.metaBox.map (·.2) = (evs.filterMap fun e => match e with | .arriveMeta _ r => some r | _ => none) := by
  sorry

example : (readOuts (initWith [7]) [.arrive ⟨.info 3, 1, [⟨.id 7, []⟩, ⟨.id 9, [⟨1, [2]⟩]⟩]⟩, .read, .arrive ⟨.alias 1, 2, [⟨.alias 2, []⟩]⟩, .read, .arrive ⟨.alias 9, 3, []⟩, .read])
    = [.chunk ⟨3, 1, [⟨7, []⟩, ⟨9, [⟨1, [2]⟩]⟩]⟩, .chunk ⟨3, 2, [⟨9, []⟩]⟩, .errAlias] := by decide

end Iscp.Down
