import Iscp.Lemmas.C19
/-
C19 — The multi-transport routes writes to the selected member and merges all reads.

Model: Iscp/Model/Multi.lean (transport/multi/transport.go, pollers).  A history is any list of events
`select id` (scheduler output, any id incl. foreign ones and the empty id 0), `write`, `memberRead`, `read`,
`close`, in any interleaving.
-/
namespace Iscp.Multi
open Iscp

/-- configuration naming a non-member (or no members) is rejected, everything else accepted -/
theorem C19.new_rejects (members : List Nat) (initial : Nat) :
    new members initial = none ↔ (members = [] ∨ initial ∉ members) := by
  unfold new
  cases members with
  | nil => simp
  | cons a r => by_cases hm : initial ∈ a :: r <;> simp [hm]

/-- INVARIANT: in every state reachable from an accepted configuration by any event history, the current id names a member -/
theorem C19.current_member (members : List Nat) (initial : Nat) (s0 : St) (h : new members initial = some s0)
    (evs : List Ev) : (run s0 evs).1.current ∈ (run s0 evs).1.members ∧ (run s0 evs).1.members = members := by
  obtain ⟨hi, hm, _⟩ := inv_new members initial s0 h
  have h1 := run_current_mem evs s0 hi.cur
  rw [run_members]
  exact ⟨h1, hm⟩

/-- hence no Write / AsUnreliable / NegotiationParams ever dereferences a missing member -/
theorem C19.never_crashes (members : List Nat) (initial : Nat) (s0 : St) (h : new members initial = some s0)
    (evs : List Ev) : Out.crash ∉ (run s0 evs).2 ∧ deref (run s0 evs).1 ≠ .crash := by
  obtain ⟨hi, _, _⟩ := inv_new members initial s0 h
  refine ⟨run_no_crash evs s0 hi.cur, ?_⟩
  have h1 := run_current_mem evs s0 hi.cur
  rw [← run_members evs s0] at h1
  simp [deref, h1]

/-- a scheduler event naming a non-member is ignored entirely; one naming a member selects it -/
theorem C19.select_semantics (s : St) (id : Nat) :
    (id ∉ s.members → select s id = s) ∧ (id ∈ s.members → (select s id).current = id ∧ (select s id).members = s.members) := by
  refine ⟨fun hn => ?_, fun hm => ?_⟩
  · simp [select, hn]
  · simp [select, hm]

/-- every write goes to the member selected at that moment -/
theorem C19.write_routed (s : St) (bs : Bytes) (h : s.current ∈ s.members) :
    (write s bs).2 = .routed s.current ∧ (write s bs).1.current = s.current := by
  simp [write, h]

/-- the member messages of a history, in arrival order -/
def arrivals (members : List Nat) : List Ev → List (Nat × Bytes)
  | [] => []
  | .memberRead m bs :: r => if m ∈ members then (m, bs) :: arrivals members r else arrivals members r
  | _ :: r => arrivals members r

def delivered : List Out → List (Nat × Bytes)
  | [] => []
  | .msg m bs :: r => (m, bs) :: delivered r
  | _ :: r => delivered r

/-- MERGE: everything read from any member is returned by Read exactly once and in arrival order (so per-member order is
    kept): what has been delivered so far followed by what is still queued is exactly the list of arrivals. -/
theorem C19.reads_merged_once (members : List Nat) (initial : Nat) (s0 : St) (h : new members initial = some s0)
    (evs : List Ev) :
    delivered (run s0 evs).2 ++ (run s0 evs).1.queue = arrivals members evs := by
  have hd : ∀ o os, delivered (o :: os) = del1 o ++ delivered os := by
    intro o os; cases o <;> rfl
  have ha : ∀ ms e r, arrivals ms (e :: r) = arr1 ms e ++ arrivals ms r := by
    intro ms e r; cases e <;> simp only [arrivals, arr1] <;> first | rfl | (split <;> rfl)
  have gen : ∀ (evs : List Ev) (s : St),
      delivered (run s evs).2 ++ (run s evs).1.queue = s.queue ++ arrivals s.members evs := by
    intro evs
    induction evs with
    | nil => intro s; simp [run_nil, delivered, arrivals]
    | cons e r ih =>
      intro s
      rw [run_cons, hd, ha, List.append_assoc, ih, step_members, ← List.append_assoc, step_queue,
        List.append_assoc]
  obtain ⟨_, hm, hq, _⟩ := inv_new members initial s0 h
  rw [gen, hm, hq, List.nil_append]

/-- Close closes every member -/
theorem C19.close_all (s : St) : (close s).2 = .closedAll s.members ∧ (close s).1.closed = s.members := by
  exact ⟨rfl, rfl⟩

def writtenBytes : List Ev → Nat
  | [] => 0
  | .write bs :: r => bs.length + writtenBytes r
  | _ :: r => writtenBytes r

def readBytes (members : List Nat) (evs : List Ev) : Nat := ((arrivals members evs).map (·.2.length)).sum

/-- counters are the sums over members: all bytes written through the transport, all bytes read from members -/
theorem C19.counters_sum (members : List Nat) (initial : Nat) (s0 : St) (h : new members initial = some s0)
    (evs : List Ev) :
    counters (run s0 evs).1 = .counters (writtenBytes evs) (readBytes members evs) := by
  have ha : ∀ ms e r, arrivals ms (e :: r) = arr1 ms e ++ arrivals ms r := by
    intro ms e r; cases e <;> simp only [arrivals, arr1] <;> first | rfl | (split <;> rfl)
  have hw : ∀ e r, writtenBytes (e :: r) = wr1 e + writtenBytes r := by
    intro e r; cases e <;> simp [writtenBytes, wr1]
  have gen : ∀ (evs : List Ev) (s : St), Inv s →
      total (run s evs).1.tx = total s.tx + writtenBytes evs ∧
      total (run s evs).1.rx = total s.rx + readBytes s.members evs := by
    intro evs
    induction evs with
    | nil => intro s _; simp [run_nil, writtenBytes, readBytes, arrivals]
    | cons e r ih =>
      intro s hs
      obtain ⟨h1, h2⟩ := ih _ (step_inv s e hs)
      rw [run_cons]
      refine ⟨?_, ?_⟩
      · rw [h1, step_tx s e hs, hw, Nat.add_assoc]
      · rw [h2, step_rx s e hs, step_members]
        simp only [readBytes, ha, List.map_append, List.sum_append, Nat.add_assoc]
  obtain ⟨hi, hm, _, ht, hr⟩ := inv_new members initial s0 h
  obtain ⟨h1, h2⟩ := gen evs s0 hi
  rw [ht] at h1
  rw [hr, hm] at h2
  rw [counters, h1, h2]
  simp [total]

/-- round-robin poller: cycles through its id list; every answer is one of its ids -/
theorem C19.rr_cycles (ids : List Nat) (cur : Nat) (h : ids ≠ []) (hc : cur < ids.length) :
    (rrGet ids cur).1 = ids.getD cur 0 ∧ (rrGet ids cur).1 ∈ ids ∧ (rrGet ids cur).2 = (cur + 1) % ids.length ∧ (rrGet ids cur).2 < ids.length := by
  have hl : 0 < ids.length := List.length_pos_iff.mpr h
  have he : ids.isEmpty = false := by cases ids with
    | nil => exact absurd rfl h
    | cons _ _ => rfl
  simp only [rrGet, he, Bool.false_eq_true, if_false]
  refine ⟨trivial, ?_, trivial, Nat.mod_lt _ hl⟩
  rw [List.getD_eq_getElem?_getD, List.getElem?_eq_getElem hc, Option.getD_some]
  exact List.getElem_mem hc

/-- last-used poller: answers the current member or the empty id — and the empty id is ignored by `select` -/
theorem C19.last_used_harmless (s : St) (h : s.current ∈ s.members) (h0 : 0 ∉ s.members) :
    select s (lastUsedGet s) = s := by
  unfold lastUsedGet
  split
  · simp [select, h]
  · next hl =>
    have : s.lastRead = 0 := Decidable.of_not_not hl
    simp [select, this, h0]

example : (run { members := [1, 2], current := 1 } [.select 7, .write [9], .select 2, .write [8, 8], .memberRead 2 [5], .select 0, .read]).2
    = [.ok, .routed 1, .ok, .routed 2, .ok, .ok, .msg 2 [5]] := by decide

end Iscp.Multi
