import Iscp.Lemmas.Lock
import Iscp.Gen.LockCFG
/-
C08 (layer 1) — no input sequence leaves the client holding a lock it never releases:
for EVERY control-flow path of EVERY function of the library that touches a mutex.

`Iscp.Gen.LockCFG` is regenerated from /repo on every run: the CFG (x/tools/go/cfg) of every function and function
literal of iscp/, wire/, transport/, encoding/, internal/ that calls Lock/RLock/Unlock/RUnlock/Cond.Wait, abstracted to
`Iscp.Lock.Fn`, with a certificate, and one kernel-checked obligation `fn_k_ok : checkFn fn_k = true` per function.
The theorems below are proved once, for all programs: a checked certificate implies the property on all paths.
-/
namespace Iscp.Lock

/-- initial state of a function: exactly the locks its caller holds for it -/
def initSt (f : Fn) : St := ⟨f.entry.foldr insertH [], []⟩

/-- exit kind of the last block of a path -/
def lastExit (f : Fn) (p : List Nat) : Exit :=
  match p.getLast? with
  | some i => (match f.blocks[i]? with | some b => b.exit | none => .none)
  | none => .none

/-- SOUNDNESS of the certificate checker: if `checkFn f` holds then along every path from the entry block every operation is
    legal (no unlock of an unheld lock, no relock of a held mutex, Cond.Wait and guarded accesses only with their lock,
    helpers only called with the locks they expect), and if the path ends in a return (or panic) the held locks are exactly
    the caller's plus those a deferred unlock will release. -/
theorem C08.lock_sound (f : Fn) (h : checkFn f = true) (p : List Nat) (hp : isPath f (0 :: p) = true) :
    ∃ s, runPath f (initSt f) (0 :: p) = some s ∧ (lastExit f (0 :: p) ≠ .none → exitOk f.entry s = true) := by
  obtain ⟨s, hrun, hex⟩ := path_sound h p 0 (initSt f) (checkFn_cert0 h) hp
  refine ⟨s, hrun, ?_⟩
  intro hne
  unfold lastExit at hne
  split at hne
  · rename_i k hk
    split at hne
    · rename_i b hb
      exact hex k b hk hb hne
    · exact absurd rfl hne
  · exact absurd rfl hne

/-- running the deferred unlocks at an exit -/
def releaseAll : Held → Held → Option Held
  | h, [] => some h
  | h, d :: r => (eraseH d h).bind fun h' => releaseAll h' r

/-- `releaseAll` on an exit state whose deferred list is sorted (generalised over the deferred list for the induction) -/
theorem releaseAll_foldr_insertH (entry : Held) :
    ∀ (D : Held), D.Pairwise (fun a b => leKM a b = true) →
      releaseAll (entry.foldr insertH D) D = some (entry.foldr insertH [])
  | [], _ => rfl
  | d :: D, hs => by
    rw [releaseAll, eraseH_foldr_insertH d D hs entry]
    exact releaseAll_foldr_insertH entry D (List.pairwise_cons.mp hs).2

/-- at an accepted exit every deferred unlock finds its lock held and afterwards exactly the caller's locks remain: nothing leaks -/
-- STATEMENT CHANGED: added the hypothesis `hs` (the deferred list is sorted w.r.t. `leKM`).  Without it the statement is
-- false: entry := [(1,.w),(3,.w)], s := ⟨[(1,.w),(3,.w),(5,.w),(1,.w)], [(5,.w),(1,.w)]⟩ satisfies `exitOk entry s`
-- (held = entry.foldr insertH deferred) but `releaseAll s.held s.deferred = some [(3,.w),(1,.w)]` whereas
-- `entry.foldr insertH [] = [(1,.w),(3,.w)]` (checked by `decide` right below).  `hs` holds in every reachable state:
-- `deferred` starts as `[]` and is only ever changed by `insertH` (`Iscp.Lock.runPath_sorted_deferred` in Lemmas/Lock.lean);
-- `C08.all_functions_release` below discharges it and keeps its original statement.
theorem C08.exit_releases (entry : Held) (s : St) (h : exitOk entry s = true)
    (hs : s.deferred.Pairwise (fun a b => leKM a b = true)) :
    releaseAll s.held s.deferred = some (entry.foldr insertH []) := by
  have hh : s.held = entry.foldr insertH s.deferred := by simpa [exitOk] using h
  rw [hh]
  exact releaseAll_foldr_insertH entry s.deferred hs

/- the counterexample to the original (hypothesis-free) statement of `C08.exit_releases` -/
example : exitOk [(1, .w), (3, .w)] ⟨[(1, .w), (3, .w), (5, .w), (1, .w)], [(5, .w), (1, .w)]⟩ = true ∧
    releaseAll [(1, .w), (3, .w), (5, .w), (1, .w)] [(5, .w), (1, .w)] = some [(3, .w), (1, .w)] ∧
    ([(1, .w), (3, .w)] : Held).foldr insertH [] = [(1, .w), (3, .w)] := by decide

/-- every function of the library that touches a mutex (regenerated list) releases what it takes on every path -/
theorem C08.all_functions_release :
    ∀ f ∈ Iscp.Gen.LockCFG.fns, ∀ p, isPath f (0 :: p) = true →
      ∃ s, runPath f (initSt f) (0 :: p) = some s ∧
        (lastExit f (0 :: p) ≠ .none → releaseAll s.held s.deferred = some (f.entry.foldr insertH [])) := by
  intro f hf p hp
  have hok : checkFn f = true := List.all_eq_true.mp Iscp.Gen.LockCFG.all_ok f hf
  obtain ⟨s, hrun, hex⟩ := C08.lock_sound f hok p hp
  have hsorted : s.deferred.Pairwise (fun a b => leKM a b = true) :=
    runPath_sorted_deferred f hrun (by simp [initSt])
  exact ⟨s, hrun, fun hne => C08.exit_releases f.entry s (hex hne) hsorted⟩

/-- the generated list is not empty and covers the lock call sites found in the source (count reported in evidence) -/
theorem C08.lock_programs_nonempty : 50 ≤ Iscp.Gen.LockCFG.fns.length ∧ 150 ≤ Iscp.Gen.LockCFG.lockSites := by decide

/- non-vacuity: a two-block program with a loop that leaks a read lock on its back edge is rejected, its fixed version accepted -/
example : checkFn { name := "leaky", entry := [], blocks := [⟨[.lock 0 .r], [0, 1], .none⟩, ⟨[.unlock 0 .r], [], .ret⟩],
                    cert := [⟨[], []⟩, ⟨[(0, .r)], []⟩] } = false := by decide
example : checkFn { name := "fine", entry := [], blocks := [⟨[.lock 0 .r, .unlock 0 .r], [0, 1], .none⟩, ⟨[], [], .ret⟩],
                    cert := [⟨[], []⟩, ⟨[], []⟩] } = true := by decide

end Iscp.Lock
