import Iscp.Lemmas.Up
/-
C01 — Upstream delivers every accepted data point exactly once, intact and accounted (connection stays up).

Model: Iscp/Model/Up.lean.  A history is any list of events (accept / tick / flush / ack / closeFlush / closeRequest):
the order of accept/tick/flush is the order in which the single flushLoop goroutine served concurrent callers, acks
arrive batched, reordered, duplicated, with or without alias assignments, with any result codes — all are lists.

Interpretation notes (kept visible): (i) "no chunk is cut empty" is "no chunk without a point group": a write of zero
points under a data id creates a group with no points, and the theorem states exactly that (C20.no_empty_cut);
(ii) hooks run on the stream's dispatcher goroutine; the model records the order in which they are enqueued.
-/
namespace Iscp.Up
open Iscp

/-- the start state of a stream: chosen policy, alias table from the open response (pre-registered data ids) -/
def init (p : Policy) (rev : List (DataID × Nat)) : St := { policy := p, rev := rev }

/-- all points written under data id `d` along a history, in order -/
def written (d : DataID) : List Ev → List Point
  | [] => []
  | .accept d' ps :: r => (if d' = d then ps else []) ++ written d r
  | _ :: r => written d r

/-- all points of `d` in the chunks cut so far (as announced to the send hook, i.e. with full ids), in sequence order -/
def cutPoints (d : DataID) (s : St) : List Point := s.sendHook.flatMap fun e => pointsOf d e.2

def bufPoints (d : DataID) (s : St) : List Point := (s.buf.filter (·.1 = d)).flatMap (·.2)

theorem written_eq (d : DataID) (evs : List Ev) : written d evs = evs.flatMap (wr d) := by
  induction evs with
  | nil => rfl
  | cons e r ih => cases e <;> simp [written, wr, ih]

/-- CONSERVATION: in every reachable state, for every data id, the points cut into chunks so far (in chunk order) followed
    by the points still buffered are exactly the points written under that id, in order: nothing lost, duplicated, altered
    or attributed to another data id. -/
theorem C01.conservation (p : Policy) (rev : List (DataID × Nat)) (evs : List Ev) (d : DataID) :
    cutPoints d (run (init p rev) evs) ++ bufPoints d (run (init p rev) evs) = written d evs := by
  rw [written_eq]
  have h := held_run d evs (init p rev) (Inv_init p rev)
  have h0 : held d (init p rev) = [] := rfl
  rw [h0, List.nil_append] at h
  exact h

/-- chunks are numbered 1..N without gaps or reuse, in the order they were cut; the send hook saw each once under its number -/
theorem C01.seq_contiguous (p : Policy) (rev : List (DataID × Nat)) (evs : List Ev) :
    let s := run (init p rev) evs
    s.sent.map (·.seq) = List.range' 1 s.sent.length ∧ s.seq = s.sent.length ∧ s.sendHook.map (·.1) = s.sent.map (·.seq) := by
  intro s
  have h : Inv s := Inv_run_init p rev evs
  refine ⟨?_, h.len.symm, h.hook⟩
  rw [h.len]; exact h.seqs

/-- the pairs (alias, id) the broker announced along a history, and the broker's sanity: one alias never names two ids -/
def announced : List Ev → List (Nat × DataID)
  | [] => []
  | .ack _ als :: r => als ++ announced r
  | _ :: r => announced r

def AliasSane (rev : List (DataID × Nat)) (evs : List Ev) : Prop :=
  ∀ a d d', ((a, d) ∈ announced evs ∨ (d, a) ∈ rev) → ((a, d') ∈ announced evs ∨ (d', a) ∈ rev) → d = d'

theorem announced_eq (evs : List Ev) : announced evs = evs.flatMap ann := by
  induction evs with
  | nil => rfl
  | cons e r ih => cases e <;> simp [announced, ann, ih]

-- note: the hypothesis `hrev` is not needed by the proof (`AliasSane` alone suffices); kept as stated
set_option linter.unusedVariables false in
/-- ALIAS ROUND TRIP / SEND HOOK: every chunk on the wire, resolved through the alias table (any later state of it), is exactly
    the content announced to the send hook under the same sequence number: alias substitution never re-attributes a point. -/
theorem C01.wire_matches_hook (p : Policy) (rev : List (DataID × Nat)) (evs : List Ev) (h : AliasSane rev evs)
    (hrev : (rev.map (·.1)).Nodup) :
    let s := run (init p rev) evs
    s.sent.length = s.sendHook.length ∧
    ∀ i (hi : i < s.sent.length) (hj : i < s.sendHook.length),
      (s.sent[i].groups.map (resolve s.rev)) = (s.sendHook[i].2.map some) := by
  intro s
  have hw : WInv s := WInv_run evs _ (WInv_init p rev)
  have hs : RevSane s.rev := by
    intro e he e' he' heq
    have h1 := rev_run evs (init p rev) e he
    have h2 := rev_run evs (init p rev) e' he'
    rw [← announced_eq] at h1 h2
    apply h e.2 e.1 e'.1
    · rcases h1 with h1 | h1
      · exact Or.inr h1
      · exact Or.inl h1
    · rw [heq]
      rcases h2 with h2 | h2
      · exact Or.inr h2
      · exact Or.inl h2
  exact ⟨hw.len, fun i hi hj => WInv_get s hw hs i hi hj⟩

/-- the full ids listed with a chunk are exactly its not-yet-aliased ids, each once -/
theorem C01.data_ids_listed (p : Policy) (rev : List (DataID × Nat)) (evs : List Ev) :
    ∀ c ∈ (run (init p rev) evs).sent,
      c.dataIDs.Nodup ∧ ∀ d, d ∈ c.dataIDs ↔ ∃ g ∈ c.groups, g.ref = .id d :=
  (Inv_run_init p rev evs).ids

def pointCount (gs : Groups) : Nat := (gs.map (·.points.length)).sum

/-- CLOSE TOTALS: the close request reports N (the number of chunks cut) and the exact point total -/
theorem C01.close_totals (p : Policy) (rev : List (DataID × Nat)) (evs : List Ev) :
    let s := run (init p rev) (evs ++ [.closeFlush, .closeRequest])
    s.closeReq = some ((s.sendHook.map (pointCount ·.2)).sum, s.sent.length) ∧ s.buf = [] := by
  intro s
  have hs : s = closeRequest (cut (run (init p rev) evs)) := by
    show run _ _ = _
    rw [run_append]; rfl
  have hi : Inv (cut (run (init p rev) evs)) := Inv_cut _ (Inv_run_init p rev evs)
  rw [hs]
  refine ⟨?_, cut_buf _⟩
  show some ((cut (run (init p rev) evs)).total, (cut (run (init p rev) evs)).seq) =
    some (((cut (run (init p rev) evs)).sendHook.map (fun e => pcount e.2)).sum, (cut (run (init p rev) evs)).sent.length)
  rw [← hi.total, hi.len]

/-- all results of all acks of a history, in arrival order -/
def results : List Ev → List (Nat × Nat)
  | [] => []
  | .ack rs _ :: r => rs ++ results r
  | _ :: r => results r

theorem results_eq (evs : List Ev) : results evs = evs.flatMap res := by
  induction evs with
  | nil => rfl
  | cons e r ih => cases e <;> simp [results, res, ih]

/-- ACK HOOK: every result the broker sent is reported to the ack hook exactly once, in order, with the broker's code
    (also duplicates and results for unknown sequence numbers: the hook sees what the broker said) -/
theorem C01.ack_hook (p : Policy) (rev : List (DataID × Nat)) (evs : List Ev) :
    (run (init p rev) evs).ackHook = results evs := by
  rw [results_eq, ackHook_run]; rfl

/-- every result of every ack of the history bears a sequence number that was already issued when that ack arrived
    (the broker never acknowledges a chunk it has not received yet) -/
def acksKnown (s : St) : List Ev → Bool
  | [] => true
  | e :: r =>
    (match e with
      | .ack rs _ => rs.all fun x => decide (x.1 ≤ s.seq)
      | _ => true) && acksKnown (step s e) r

theorem acksKnown_eq (evs : List Ev) : ∀ s : St, acksKnown s evs = known s evs := by
  induction evs with
  | nil => intro s; rfl
  | cons e r ih => intro s; cases e <;> simp [acksKnown, known, res, ih]

/-- a chunk leaves the store only through a result bearing its sequence number; acknowledged chunks are gone, the others kept -/
-- STATEMENT CHANGED: added the hypothesis `hk : acksKnown (init p rev) evs = true` (no result refers to a sequence number
-- that is still in the future when the ack arrives).  Without it the statement is false: a result for a not-yet-issued
-- number has no waiter, so it removes nothing, and the chunk cut later under that number stays in the store although its
-- number occurs in `results`.  Counterexample (see the `example` below the theorem):
--   p = .none, rev = [], evs = [.ack [(1,0)] [], .accept 1 [⟨1,[1]⟩], .flush], q = 1:
--   (alGet 1 s.store).isSome = true, 1 ∈ s.sent.map (·.seq), but 1 ∈ (results evs).map (·.1).
-- The conclusion is unchanged.
theorem C01.store_tracks_acks (p : Policy) (rev : List (DataID × Nat)) (evs : List Ev)
    (hk : acksKnown (init p rev) evs = true) :
    let s := run (init p rev) evs
    ∀ q, (alGet q s.store).isSome ↔ (q ∈ s.sent.map (·.seq) ∧ q ∉ (results evs).map (·.1)) := by
  intro s q
  have h : SInv s := SInv_run evs (init p rev) (by rw [← acksKnown_eq]; exact hk) (SInv_init p rev)
  have h' := h.st q
  rw [C01.ack_hook] at h'
  exact h'

/-- the counterexample to the unrestricted form of `store_tracks_acks` -/
example : let evs : List Ev := [.ack [(1, 0)] [], .accept 1 [⟨1, [1]⟩], .flush]
    let s := run (init .none []) evs
    (alGet 1 s.store).isSome = true ∧ 1 ∈ s.sent.map (·.seq) ∧ 1 ∈ (results evs).map (·.1) ∧
    acksKnown (init .none []) evs = false := by decide

/-- nothing is cut or transmitted by the close request itself: after Close's final flush no further chunk appears -/
theorem C01.no_chunk_after_close (s : St) : (closeRequest s).sent = s.sent ∧ (closeRequest s).sendHook = s.sendHook :=
  ⟨rfl, rfl⟩

example : (run (init (.size 3) [(1, 1)]) [.accept 1 [⟨5, [1, 2]⟩], .accept 2 [⟨6, [3, 4]⟩], .ack [(1, 1)] [(2, 2)], .accept 2 [⟨7, []⟩], .flush]).sent
    = [⟨1, [⟨.alias 1, [⟨5, [1, 2]⟩]⟩, ⟨.id 2, [⟨6, [3, 4]⟩]⟩], [2]⟩, ⟨2, [⟨.alias 2, [⟨7, []⟩]⟩], []⟩] := by decide

end Iscp.Up
