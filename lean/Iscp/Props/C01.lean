import Iscp.Lemmas.Up
/-
C01 — Upstream delivers every accepted data point exactly once, intact and accounted (connection stays up).

Model: Iscp/Model/Up.lean.  A history is any list of events (accept / tick / flush / ack / closeFlush / closeRequest):
the order of accept/tick/flush is the order in which the single flushLoop goroutine served concurrent callers, acks
arrive batched, reordered, duplicated, with or without alias assignments, with any result codes — all are lists.

Interpretation notes (kept visible): (i) "no chunk is cut empty" is "no chunk without a point group": a write of zero
points under a data id creates a group with no points, and the theorem states exactly that (C20.no_empty_cut);
(ii) hooks run on the stream's dispatcher goroutine; the model records the order in which they are enqueued.
-/
namespace Iscp.Up
open Iscp

/-- the start state of a stream: chosen policy, alias table from the open response (pre-registered data ids) -/
def init (p : Policy) (rev : List (DataID × Nat)) : St := { policy := p, rev := rev }

/-- all points written under data id `d` along a history, in order -/
def written (d : DataID) : List Ev → List Point
  | [] => []
  | .accept d' ps :: r => (if d' = d then ps else []) ++ written d r
  | _ :: r => written d r

/-- all points of `d` in the chunks cut so far (as announced to the send hook, i.e. with full ids), in sequence order -/
def cutPoints (d : DataID) (s : St) : List Point := s.sendHook.flatMap fun e => pointsOf d e.2

def bufPoints (d : DataID) (s : St) : List Point := (s.buf.filter (·.1 = d)).flatMap (·.2)

/-- CONSERVATION: in every reachable state, for every data id, the points cut into chunks so far (in chunk order) followed
    by the points still buffered are exactly the points written under that id, in order: nothing lost, duplicated, altered
    or attributed to another data id. -/
theorem C01.conservation (p : Policy) (rev : List (DataID × Nat)) (evs : List Ev) (d : DataID) :
    cutPoints d (run (init p rev) evs) ++ bufPoints d (run (init p rev) evs) = written d evs := by
  sorry

/-- chunks are numbered 1..N without gaps or reuse, in the order they were cut; the send hook saw each once under its number -/
theorem C01.seq_contiguous (p : Policy) (rev : List (DataID × Nat)) (evs : List Ev) :
    let s := run (init p rev) evs
    s.sent.map (·.seq) = List.range' 1 s.sent.length ∧ s.seq = s.sent.length ∧ s.sendHook.map (·.1) = s.sent.map (·.seq) := by
  sorry

/-- the pairs (alias, id) the broker announced along a history, and the broker's sanity: one alias never names two ids -/
def announced : List Ev → List (Nat × DataID)
  | [] => []
  | .ack _ als :: r => als ++ announced r
  | _ :: r => announced r

def AliasSane (rev : List (DataID × Nat)) (evs : List Ev) : Prop :=
  ∀ a d d', ((a, d) ∈ announced evs ∨ (d, a) ∈ rev) → ((a, d') ∈ announced evs ∨ (d', a) ∈ rev) → d = d'

/-- ALIAS ROUND TRIP / SEND HOOK: every chunk on the wire, resolved through the alias table (any later state of it), is exactly
    the content announced to the send hook under the same sequence number: alias substitution never re-attributes a point. -/
theorem C01.wire_matches_hook (p : Policy) (rev : List (DataID × Nat)) (evs : List Ev) (h : AliasSane rev evs)
    (hrev : (rev.map (·.1)).Nodup) :
    let s := run (init p rev) evs
    s.sent.length = s.sendHook.length ∧
    ∀ i (hi : i < s.sent.length) (hj : i < s.sendHook.length),
      (s.sent[i].groups.map (resolve s.rev)) = (s.sendHook[i].2.map some) := by
  sorry

/-- the full ids listed with a chunk are exactly its not-yet-aliased ids, each once -/
theorem C01.data_ids_listed (p : Policy) (rev : List (DataID × Nat)) (evs : List Ev) :
    ∀ c ∈ (run (init p rev) evs).sent,
      c.dataIDs.Nodup ∧ ∀ d, d ∈ c.dataIDs ↔ ∃ g ∈ c.groups, g.ref = .id d := by
  sorry

def pointCount (gs : Groups) : Nat := (gs.map (·.points.length)).sum

/-- CLOSE TOTALS: the close request reports N (the number of chunks cut) and the exact point total -/
theorem C01.close_totals (p : Policy) (rev : List (DataID × Nat)) (evs : List Ev) :
    let s := run (init p rev) (evs ++ [.closeFlush, .closeRequest])
    s.closeReq = some ((s.sendHook.map (pointCount ·.2)).sum, s.sent.length) ∧ s.buf = [] := by
  sorry

/-- all results of all acks of a history, in arrival order -/
def results : List Ev → List (Nat × Nat)
  | [] => []
  | .ack rs _ :: r => rs ++ results r
  | _ :: r => results r

/-- ACK HOOK: every result the broker sent is reported to the ack hook exactly once, in order, with the broker's code
    (also duplicates and results for unknown sequence numbers: the hook sees what the broker said) -/
theorem C01.ack_hook (p : Policy) (rev : List (DataID × Nat)) (evs : List Ev) :
    (run (init p rev) evs).ackHook = results evs := by
  sorry

/-- a chunk leaves the store only through a result bearing its sequence number; acknowledged chunks are gone, the others kept -/
theorem C01.store_tracks_acks (p : Policy) (rev : List (DataID × Nat)) (evs : List Ev) :
    let s := run (init p rev) evs
    ∀ q, (alGet q s.store).isSome ↔ (q ∈ s.sent.map (·.seq) ∧ q ∉ (results evs).map (·.1)) := by
  sorry

/-- nothing is cut or transmitted by the close request itself: after Close's final flush no further chunk appears -/
theorem C01.no_chunk_after_close (s : St) : (closeRequest s).sent = s.sent ∧ (closeRequest s).sendHook = s.sendHook := by
  sorry

example : (run (init (.size 3) [(1, 1)]) [.accept 1 [⟨5, [1, 2]⟩], .accept 2 [⟨6, [3, 4]⟩], .ack [(1, 1)] [(2, 2)], .accept 2 [⟨7, []⟩], .flush]).sent
    = [⟨1, [⟨.alias 1, [⟨5, [1, 2]⟩]⟩, ⟨.id 2, [⟨6, [3, 4]⟩]⟩], [2]⟩, ⟨2, [⟨.alias 2, [⟨7, []⟩]⟩], []⟩] := by decide

end Iscp.Up
