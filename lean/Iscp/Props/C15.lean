import Iscp.Lemmas.KA
/-
C15 — Keepalive detects a dead peer in bounded time and never drops a live one.

Model: Iscp/Model/KA.lean, discrete time in ms.  The adversary chooses every pong delay.  The real ticker and context timer are
the Go runtime's: the harness measures the real loop against these bounds with scheduling slack.
-/
namespace Iscp.KA

/-- NO SPURIOUS DISCONNECT: while every pong arrives within the timeout the loop never closes the connection, however many
    pings and whatever the delays -/
theorem C15.no_spurious (c : Cfg) (hI : 0 < c.I) (delays : List (Option Nat))
    (h : ∀ d ∈ delays, ∃ x, d = some x ∧ x < c.T) : ∃ lp, run c delays = .alive delays.length lp := by
  have _ := hI
  obtain ⟨lp, h'⟩ := sim_alive c delays h 0 0 0 0
  exact ⟨lp, by simpa [run] using h'⟩

/-- DETECTION BOUND: if the broker answers some pings in time and then falls silent (the next ping is never answered in time), the
    connection is declared lost no later than interval + timeout after the last pong that arrived (hence no later than
    s + I + T for any moment s at or after which the broker is silent), and exactly `timeout` after the unanswered ping was sent -/
theorem C15.detect_bound (c : Cfg) (hI : 0 < c.I) (answered : List (Option Nat)) (late : Option Nat) (rest : List (Option Nat))
    (ha : ∀ d ∈ answered, ∃ x, d = some x ∧ x < c.T) (hl : ∀ x, late = some x → c.T ≤ x) :
    ∃ tc lp, run c (answered ++ late :: rest) = .closed tc (answered.length + 1) lp ∧ tc ≤ lp + c.I + c.T ∧ lp + c.T ≤ tc := by
  obtain ⟨tc, lp, h', b1, b2⟩ :=
    sim_closed c hI answered late rest ha hl 0 0 0 0 (Nat.le_refl _) (Nat.zero_le _)
  exact ⟨tc, lp, by simpa [run] using h', b1, b2⟩

/-- successive pings are never closer than the pong that separates them and never further apart than one interval after it -/
theorem C15.next_ping_window (c : Cfg) (hI : 0 < c.I) (done L : Nat) (hL : L ≤ done) :
    done ≤ nextPing c done L ∧ nextPing c done L ≤ done + c.I := by
  have _ := hL
  exact nextPing_window c hI done L

/-- every broker ping is answered with a pong carrying the same request id -/
theorem C15.pong_echo (id : Nat) : pongFor id = id := rfl

/-- the connect request announces the configured values at whole-second resolution, the default only when nothing is configured -/
theorem C15.announced_configured (ms d : Nat) : (ms ≠ 0 → announced ms d = ms / 1000) ∧ (ms = 0 → announced ms d = d / 1000) := by
  constructor
  · intro h; simp [announced, h]
  · intro h; simp [announced, h]

example : run ⟨100, 150⟩ [some 10, some 120, some 20, none, some 5] = .closed 450 4 240 := by decide
example : run ⟨100, 50⟩ [some 10, some 20, some 30] = .alive 3 230 := by decide

end Iscp.KA
