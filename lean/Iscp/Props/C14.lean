import Iscp.Lemmas.Seg
/-
C14 — Datagram messages are reassembled exactly or not at all.

Property theorems only (helper lemmas live in Iscp/Lemmas/Seg.lean).  The model is
Iscp/Model/Seg.lean, tied to internal/segment by the correspondence harness go/corr/seg.

Hypotheses kept visible:
* `P > 0` (the payload size; the code's value is 1188),
* sequence numbers `< 2^32`, indices `< 2^16` for the header round trip,
* `Genuine`: every datagram of the arrival list is a segment of the message its sequence number
  belongs to, and the list has no duplicates (QUIC does not duplicate datagrams).
-/
namespace Iscp.Seg

/-- header encode/decode round trip (sender.go `send` vs read_buffer.go `Receive`). -/
theorem C14.header_roundtrip (d : Dg) (hs : d.seq < 4294967296) (hm : d.maxIdx < 65536) (hi : d.idx < 65536) :
    decodeDg d.encode = some d := by
  exact header_roundtrip_lem d hs hm hi

/-- every header byte produced by the encoder is a byte. -/
theorem C14.header_bytes (d : Dg) : ∀ b ∈ (d.encode.take 8), b < 256 := by
  exact header_bytes_lem d

/-- anything shorter than the header is not a datagram (it is discarded by `RB.receive`). -/
theorem C14.short_is_malformed (bs : Bytes) (h : bs.length < 8) : decodeDg bs = none := by
  exact short_is_malformed_lem bs h

/-- split: the payloads of the segments concatenate to the message; the count is 1 for `|m| ≤ P` and
    `|m|/P + 1` otherwise (exact multiples get a trailing empty segment), indices are `0..k`,
    every segment announces the same last index `k` and carries the message's sequence number. -/
theorem C14.split_concat (P seq : Nat) (m : Bytes) (hP : 0 < P) (ds : List Dg)
    (h : segments P seq m = some ds) :
    (ds.map (·.payload)).flatten = m ∧
    ds.length = (if m.length ≤ P then 1 else m.length / P + 1) ∧
    (∀ i, (hi : i < ds.length) → ds[i].idx = i ∧ ds[i].maxIdx = ds.length - 1 ∧ ds[i].seq = seq) := by
  have _ := hP
  exact split_concat_lem P seq m ds h

/-- oversize refused: more than 65536 segments are never sent; everything else is. -/
theorem C14.oversize_refused (P seq : Nat) (m : Bytes) (hP : 0 < P) :
    segments P seq m = none ↔ (P < m.length ∧ 65535 < m.length / P) := by
  have _ := hP
  exact oversize_refused_lem P seq m

/-- every datagram the sender emits has header fields within their wire width, so it survives the header round trip. -/
theorem C14.sent_headers_fit (P seq : Nat) (m : Bytes) (hP : 0 < P) (ds : List Dg)
    (h : segments P seq m = some ds) : ∀ d ∈ ds, d.maxIdx < 65536 ∧ d.idx < 65536 ∧ d.idx ≤ d.maxIdx := by
  have _ := hP
  exact sent_headers_fit_lem P seq m ds h

/-- datagram size: no emitted segment carries more than `P` payload bytes (so the encoded datagram is at most
    `P + 8` bytes, the transport's maximum datagram frame), and every segment but the last is full - the
    sender cuts at multiples of `P` only. -/
theorem C14.sent_payloads_fit (P seq : Nat) (m : Bytes) (hP : 0 < P) (ds : List Dg)
    (h : segments P seq m = some ds) :
    ∀ d ∈ ds, d.payload.length ≤ P ∧ d.encode.length ≤ P + 8 ∧ (d.idx ≠ d.maxIdx → d.payload.length = P) :=
  sent_payloads_fit_lem P seq m hP ds h

/-- REASSEMBLY: for any arrival order, any interleaving with other messages, any losses and any arrival
    times, the receiver (started empty) outputs exactly what `spec` says: the original bytes at the moment all
    segments of a message are in, and nothing otherwise. -/
theorem C14.reassembly (P : Nat) (hP : 0 < P) (msgOf : Nat → Bytes) (segsOf : Nat → List Dg)
    (tr : List (Nat × Dg)) (expiry : Nat) (g : Genuine P msgOf segsOf (tr.map (·.2))) :
    runDg ⟨[], expiry⟩ tr = spec msgOf segsOf [] (tr.map (·.2)) := by
  have _ := hP
  exact reassembly_lem P msgOf segsOf tr expiry g

/-- exactly once: a sequence number whose segments are all in the arrival list yields its message exactly once … -/
theorem C14.complete_once (msgOf : Nat → Bytes) (segsOf : Nat → List Dg) (tr : List Dg) (s : Nat)
    (hmem : ∀ d ∈ tr, d ∈ segsOf d.seq) (hseq : ∀ d ∈ segsOf s, d.seq = s) (hne : segsOf s ≠ [])
    (hnd : tr.Nodup) (hall : ∀ d ∈ segsOf s, d ∈ tr) :
    ((spec msgOf segsOf [] tr).filter (fun o => match o with | .msg s' _ => s' = s | .none => false)).length = 1 := by
  exact complete_once_lem msgOf segsOf tr s hmem hseq hne hnd hall

/-- … and one with a missing segment yields nothing at all. -/
theorem C14.incomplete_nothing (msgOf : Nat → Bytes) (segsOf : Nat → List Dg) (tr : List Dg) (s : Nat)
    (d0 : Dg) (h0 : d0 ∈ segsOf s) (hmiss : d0 ∉ tr) :
    ∀ o ∈ spec msgOf segsOf [] tr, ∀ bs, o ≠ .msg s bs := by
  exact incomplete_nothing_gen msgOf segsOf s d0 h0 tr [] hmiss List.not_mem_nil

/-- malformed datagrams (index beyond the announced count, no buffer yet; or shorter than the header)
    are discarded: no output and no state change. -/
theorem C14.malformed_discarded (rb : RB) (now : Nat) :
    (∀ bs, bs.length < 8 → rb.receive now bs = (rb, .none)) ∧
    (∀ d : Dg, d.maxIdx < d.idx → alLookup d.seq rb.bufs = none → rb.receiveDg now d = (rb, .none)) := by
  exact malformed_discarded_lem rb now

/-- a datagram whose index is beyond the slot count of an existing buffer never produces output
    and never changes the collected segments. -/
theorem C14.out_of_range_no_output (rb : RB) (now : Nat) (d : Dg) (s : Slot)
    (h : alLookup d.seq rb.bufs = some s) (hi : s.msgs.length ≤ d.idx) :
    (rb.receiveDg now d).2 = .none ∧
    ∃ s', alLookup d.seq (rb.receiveDg now d).1.bufs = some s' ∧ s'.msgs = s.msgs ∧ s'.segCount = s.segCount := by
  exact out_of_range_no_output_lem rb now d s h hi

/-- expiry: after `removeExpired now` no buffer with `expiredAt < now` is left, every other buffer is
    untouched; a buffer touched at `t` has `expiredAt = t + expiry`. -/
theorem C14.expiry (rb : RB) (now : Nat) :
    (∀ s sl, alLookup s (rb.removeExpired now).bufs = some sl → ¬ (now > sl.expiredAt)) ∧
    (∀ e ∈ rb.bufs, ¬ (now > e.2.expiredAt) → e ∈ (rb.removeExpired now).bufs) := by
  exact expiry_lem rb now

theorem C14.touch_sets_deadline (rb : RB) (now : Nat) (d : Dg) (sl : Slot)
    (h : alLookup d.seq (rb.receiveDg now d).1.bufs = some sl) :
    sl.expiredAt = now + rb.expiry := by
  exact touch_sets_deadline_lem rb now d sl h

/-- REASSEMBLY ON THE WIRE: the same at the byte level - the receiver fed the *encoded* datagrams (8-byte header + payload,
    as the transport's read loop hands them over) of genuine segments, in any order, interleaving, loss pattern and timing,
    outputs exactly what `spec` says.  Composes the header round trip with `reassembly`; sequence numbers are 32-bit. -/
theorem C14.wire_reassembly (P : Nat) (hP : 0 < P) (msgOf : Nat → Bytes) (segsOf : Nat → List Dg)
    (tr : List (Nat × Dg)) (expiry : Nat) (g : Genuine P msgOf segsOf (tr.map (·.2)))
    (hseq : ∀ x ∈ tr, x.2.seq < 4294967296) :
    runBytes ⟨[], expiry⟩ (tr.map fun x => (x.1, x.2.encode)) = spec msgOf segsOf [] (tr.map (·.2)) := by
  have _ := hP
  exact wire_reassembly_lem P msgOf segsOf tr expiry g hseq

/-- sequence numbers: the first is 0 and any 2^32 consecutive ones are pairwise distinct (wrap-around). -/
theorem C14.seq_fresh : seqAt 0 = 0 ∧
    ∀ i j, i < j → j < i + 4294967296 → seqAt i ≠ seqAt j := by
  exact seq_fresh_lem

/- non-vacuity: a concrete three-segment message satisfies the hypotheses of `reassembly`
   and is reassembled from a permuted arrival. -/
example : segments 2 7 [1, 2, 3, 4, 5] = some [⟨7, 2, 0, [1, 2]⟩, ⟨7, 2, 1, [3, 4]⟩, ⟨7, 2, 2, [5]⟩] := by decide
example : runDg ⟨[], 10⟩ [(0, ⟨7, 2, 2, [5]⟩), (1, ⟨7, 2, 0, [1, 2]⟩), (2, ⟨7, 2, 1, [3, 4]⟩)]
    = [.none, .none, .msg 7 [1, 2, 3, 4, 5]] := by decide
example : runBytes ⟨[], 10⟩ [(0, (⟨7, 2, 2, [5]⟩ : Dg).encode), (1, (⟨7, 2, 0, [1, 2]⟩ : Dg).encode), (2, (⟨7, 2, 1, [3, 4]⟩ : Dg).encode)]
    = [.none, .none, .msg 7 [1, 2, 3, 4, 5]] := by decide

end Iscp.Seg
