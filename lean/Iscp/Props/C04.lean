import Iscp.Props.C03
/-
C04 — Downstream acks every consumed chunk once and announces aliases consistently.
-/
namespace Iscp.Down
open Iscp

/-- successfully returned chunks of a history, as (upstream, sequence number), in order -/
def returned (outs : List ReadOut) : List (Nat × Nat) :=
  outs.filterMap fun o => match o with | .chunk c => some (c.up, c.seq) | _ => none

/-- ACK EXACTLY ONCE: in every reachable state, the results of all acks sent so far followed by the results still buffered are
    exactly the chunks returned by ReadDataPoints, in order, each once, with the right upstream and sequence number; after a
    flush (in particular after Close) nothing is left buffered. -/
theorem C04.ack_exactly_once (ids : List DataID) (evs : List Ev) :
    let s := run (initWith ids) evs
    (s.acks.flatMap (·.results)) ++ s.results = returned (readOuts (initWith ids) evs) := by
  sorry

/-- ack ids increase strictly by one from 1, across resumes too -/
theorem C04.ack_ids (ids : List DataID) (evs : List Ev) :
    let s := run (initWith ids) evs
    s.acks.map (·.id) = List.range' 1 s.acks.length ∧ s.ackId = s.acks.length := by
  sorry

/-- everything ever announced (in acks sent, or still buffered), as (alias, thing) -/
def upAnnounced (s : St) : List (Nat × Nat) := s.acks.flatMap (·.upAnn) ++ s.upAnn
def idAnnounced (s : St) : List (Nat × DataID) := s.acks.flatMap (·.idAnn) ++ s.idAnn

/-- ALIASES: every upstream / data id first seen in full form is announced exactly once; no alias is given to two things and
    nothing receives two aliases (for fewer than 2^32 - 1 aliases of each kind); pre-registered ids are never announced again.
    The tables are exactly the pre-registered entries followed by the announcements. -/
theorem C04.alias_injective (ids : List DataID) (hid : ids.Nodup) (evs : List Ev)
    (hb : (run (initWith ids) evs).idGen < 4294967295 ∧ (run (initWith ids) evs).upGen < 4294967295) (hl : ids.length < 4294967295) :
    let s := run (initWith ids) evs
    s.upFwd = upAnnounced s ∧
    s.idFwd = (initWith ids).idFwd ++ idAnnounced s ∧
    (s.upFwd.map (·.1)).Nodup ∧ (s.upFwd.map (·.2)).Nodup ∧
    (s.idFwd.map (·.1)).Nodup ∧ (s.idFwd.map (·.2)).Nodup := by
  sorry

/-- CLOSE FLUSHES FIRST: Close sends the pending results and announcements in an ack strictly before the close request, and
    leaves nothing buffered -/
theorem C04.close_flushes_first (s : St) :
    let s' := close s
    s'.upAnn = [] ∧ s'.idAnn = [] ∧ s'.results = [] ∧ s'.closeReq = true ∧ s'.out.getLast? = some 1 ∧
    ((s.upAnn ≠ [] ∨ s.idAnn ≠ [] ∨ s.results ≠ []) →
        s'.acks = s.acks ++ [⟨s.ackId + 1, s.upAnn, s.idAnn, s.results⟩] ∧ s'.out = s.out ++ [0, 1]) := by
  sorry

/-- RESUME keeps buffers, tables and generators: ack ids continue, nothing is announced twice -/
theorem C04.resume_keeps (s : St) : step s .resume = s := by
  sorry

example : ((run (initWith []) [.arrive ⟨.info 3, 1, [⟨.id 7, []⟩]⟩, .arrive ⟨.info 3, 2, [⟨.id 7, []⟩]⟩, .read, .read, .flushAck, .close]).acks)
    = [⟨1, [(1, 3)], [(1, 7)], [(3, 1), (3, 2)]⟩] := by decide

end Iscp.Down
