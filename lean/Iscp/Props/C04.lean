import Iscp.Props.C03
/-
C04 — Downstream acks every consumed chunk once and announces aliases consistently.
-/
namespace Iscp.Down
open Iscp

/-- successfully returned chunks of a history, as (upstream, sequence number), in order -/
def returned (outs : List ReadOut) : List (Nat × Nat) :=
  outs.filterMap fun o => match o with | .chunk c => some (c.up, c.seq) | _ => none

/-- ACK EXACTLY ONCE: in every reachable state, the results of all acks sent so far followed by the results still buffered are
    exactly the chunks returned by ReadDataPoints, in order, each once, with the right upstream and sequence number; after a
    flush (in particular after Close) nothing is left buffered. -/
theorem returned_cons (o : ReadOut) (outs : List ReadOut) : returned (o :: outs) = outResult o ++ returned outs := by
  cases o <;> simp [returned, outResult]

/-- generalisation of C04.ack_exactly_once to any start state -/
theorem ack_once_aux (evs : List Ev) : ∀ s, ackedResults (run s evs) = ackedResults s ++ returned (readOuts s evs) := by
  induction evs with
  | nil => intro s; simp [run, readOuts, returned]
  | cons e r ih =>
    intro s
    rw [run_cons, ih, step_acked]
    cases e <;> simp [readOuts, returned_cons]

theorem C04.ack_exactly_once (ids : List DataID) (evs : List Ev) :
    let s := run (initWith ids) evs
    (s.acks.flatMap (·.results)) ++ s.results = returned (readOuts (initWith ids) evs) := by
  have := ack_once_aux evs (initWith ids)
  simpa [ackedResults] using this

/-- ack ids increase strictly by one from 1, across resumes too -/
theorem C04.ack_ids (ids : List DataID) (evs : List Ev) :
    let s := run (initWith ids) evs
    s.acks.map (·.id) = List.range' 1 s.acks.length ∧ s.ackId = s.acks.length :=
  run_AckInv evs (initWith_AckInv ids)

/-- everything ever announced (in acks sent, or still buffered), as (alias, thing) -/
def upAnnounced (s : St) : List (Nat × Nat) := s.acks.flatMap (·.upAnn) ++ s.upAnn
def idAnnounced (s : St) : List (Nat × DataID) := s.acks.flatMap (·.idAnn) ++ s.idAnn

set_option linter.unusedVariables false in
/-- ALIASES: every upstream / data id first seen in full form is announced exactly once; no alias is given to two things and
    nothing receives two aliases (for fewer than 2^32 - 1 aliases of each kind); pre-registered ids are never announced again.
    The tables are exactly the pre-registered entries followed by the announcements. -/
-- STATEMENT CHANGED: added hypothesis `hn` (each table holds fewer than 2^32 - 1 aliases, as the doc comment says).  The bound
-- `hb` on the *final* generator values does not exclude that a generator wrapped around earlier (AliasGenerator.Next goes
-- 4294967295 ↦ 1, `#eval aliasNext 4294967295` = 1), even inside a single read.  Counterexample to the original statement
-- (2^32 mints, too long to `#eval`; it is proved below as C04.alias_injective_needs_table_bound): ids = [],
-- evs = [arrive ⟨.alias 0, 0, groups with the full ids 0 … 2^32-1⟩, read]: the ids get the aliases 1, 2, …, 4294967295, 1,
-- so the final idGen is 1 and upGen is 0 (hb and hl hold) but alias 1 is bound twice: the keys of idFwd are not Nodup.
-- With `hn`, `hb` and `hl` are redundant (generator = table length ≥ ids.length); they are kept as they were.
theorem C04.alias_injective (ids : List DataID) (hid : ids.Nodup) (evs : List Ev)
    (hb : (run (initWith ids) evs).idGen < 4294967295 ∧ (run (initWith ids) evs).upGen < 4294967295) (hl : ids.length < 4294967295)
    (hn : (run (initWith ids) evs).idFwd.length < 4294967295 ∧ (run (initWith ids) evs).upFwd.length < 4294967295) :
    let s := run (initWith ids) evs
    s.upFwd = upAnnounced s ∧
    s.idFwd = (initWith ids).idFwd ++ idAnnounced s ∧
    (s.upFwd.map (·.1)).Nodup ∧ (s.upFwd.map (·.2)).Nodup ∧
    (s.idFwd.map (·.1)).Nodup ∧ (s.idFwd.map (·.2)).Nodup := by
  have inv : AInv (initWith ids).idFwd (run (initWith ids) evs) := run_AInv evs (initWith_AInv ids hid)
  refine ⟨inv.upEq, inv.idEq, ?_, inv.upT.vals, ?_, inv.idT.vals⟩
  · rw [(inv.upT.keys hn.2).1]; exact List.nodup_range'
  · rw [(inv.idT.keys hn.1).1]; exact List.nodup_range'

/-- the original statement of C04.alias_injective (bounds on the final generator values only, no bound on the table sizes) is
    false: the counterexample of the STATEMENT CHANGED note above, checked -/
theorem C04.alias_injective_needs_table_bound :
    ¬ ∀ (ids : List DataID) (_ : ids.Nodup) (evs : List Ev)
        (_ : (run (initWith ids) evs).idGen < 4294967295 ∧ (run (initWith ids) evs).upGen < 4294967295)
        (_ : ids.length < 4294967295),
        let s := run (initWith ids) evs
        s.upFwd = upAnnounced s ∧
        s.idFwd = (initWith ids).idFwd ++ idAnnounced s ∧
        (s.upFwd.map (·.1)).Nodup ∧ (s.upFwd.map (·.2)).Nodup ∧
        (s.idFwd.map (·.1)).Nodup ∧ (s.idFwd.map (·.2)).Nodup := by
  intro h
  obtain ⟨h1, h2, h3⟩ := run_one_chunk (freshGroups 0 (4294967295 + 1))
  obtain ⟨w1, w2⟩ := assignIds_wrap 4294967295 (Nat.le_refl _) (by decide)
  have := h [] List.nodup_nil [.arrive ⟨.alias 0, 0, freshGroups 0 (4294967295 + 1)⟩, .read]
    ⟨by rw [h2, w2]; decide, by rw [h3]; decide⟩ (by decide)
  obtain ⟨_, _, _, _, hk, _⟩ := this
  rw [h1, w1] at hk
  simp only [List.map_append, List.map_cons, List.map_nil] at hk
  rw [List.nodup_append] at hk
  refine hk.2.2 1 ?_ 1 (List.mem_singleton.mpr rfl) rfl
  exact List.mem_map.mpr ⟨(1, 0), List.mem_map.mpr ⟨0, List.mem_range.mpr (by decide), rfl⟩, rfl⟩

/-- CLOSE FLUSHES FIRST: Close sends the pending results and announcements in an ack strictly before the close request, and
    leaves nothing buffered -/
theorem C04.close_flushes_first (s : St) :
    let s' := close s
    s'.upAnn = [] ∧ s'.idAnn = [] ∧ s'.results = [] ∧ s'.closeReq = true ∧ s'.out.getLast? = some 1 ∧
    ((s.upAnn ≠ [] ∨ s.idAnn ≠ [] ∨ s.results ≠ []) →
        s'.acks = s.acks ++ [⟨s.ackId + 1, s.upAnn, s.idAnn, s.results⟩] ∧ s'.out = s.out ++ [0, 1]) := by
  rw [close_eq]
  rcases flushAck_cases s with ⟨h1, h2, h3, hf⟩ | ⟨hne, hf⟩
  · rw [hf]
    refine ⟨h1, h2, h3, rfl, by simp, ?_⟩
    rintro (h | h | h)
    · exact absurd h1 h
    · exact absurd h2 h
    · exact absurd h3 h
  · rw [hf]
    exact ⟨rfl, rfl, rfl, rfl, by simp, fun _ => ⟨rfl, by simp⟩⟩

/-- RESUME keeps buffers, tables and generators: ack ids continue, nothing is announced twice -/
theorem C04.resume_keeps (s : St) : step s .resume = s := rfl

example : ((run (initWith []) [.arrive ⟨.info 3, 1, [⟨.id 7, []⟩]⟩, .arrive ⟨.info 3, 2, [⟨.id 7, []⟩]⟩, .read, .read, .flushAck, .close]).acks)
    = [⟨1, [(1, 3)], [(1, 7)], [(3, 1), (3, 2)]⟩] := by decide

end Iscp.Down
