import Iscp.Lemmas.C06
/-
C06 — Each request receives its own response; request ids are unique.

Model: `Iscp.Corr.step` (Iscp/Model/Corr.lean) mirrors sendRequest / readRequestLoop / the typed wrappers of
wire/client_conn.go and the id generator of wire/req_id_generator.go.  A history is any list of events
`req` (a caller issues a request), `resp` (the broker sends any Request-typed message with any id), `cancel`
(a caller's context ends) — all interleavings, delays, duplicates and spurious responses are such lists.
-/
namespace Iscp.Corr

/-- ids handed out along a history -/
def issuedIds : List Out → List Nat
  | [] => []
  | .issued id :: r => id :: issuedIds r
  | _ :: r => issuedIds r

def numReqs : List Ev → Nat
  | [] => 0
  | .req _ _ :: r => numReqs r + 1
  | _ :: r => numReqs r

theorem issuedIds_eq_ids (l : List Out) : issuedIds l = ids l := by
  induction l with
  | nil => rfl
  | cons o r ih => cases o <;> simp only [issuedIds, ids, ih]

theorem numReqs_eq_nreq (l : List Ev) : numReqs l = nreq l := by
  induction l with
  | nil => rfl
  | cons e r ih => cases e <;> simp only [numReqs, nreq, ih]

/-- Every request id is even (the client's parity), differs from the connect request's id 0, and all ids issued on a
    connection are pairwise distinct — for any history with fewer than 2^31 - 1 requests (uint32 wrap-around). -/
theorem C06.ids_even_distinct (evs : List Ev) (h : numReqs evs < 2147483647) :
    let ids := issuedIds (run {} evs).2
    (∀ id ∈ ids, id % 2 = 0 ∧ id ≠ 0 ∧ id < 4294967296) ∧ ids.Nodup := by
  rw [numReqs_eq_nreq] at h
  have := ids_main evs {} rfl (by show 2 + 2 * nreq evs < 4294967296; omega)
  simp only [issuedIds_eq_ids]
  refine ⟨fun id hid => ?_, this.2⟩
  have h3 := this.1 id hid
  have : (2 : Nat) ≤ id := h3.2.1
  omega

/-- well-formedness of reachable states: every blocked caller has its reply slot registered under its own id,
    a caller blocks on at most one request, and no two blocked callers share an id. -/
structure Inv (s : St) : Prop where
  registered : ∀ w ∈ s.waiting, alGet w.id s.pending = some w.caller
  oneEach : (s.waiting.map (·.caller)).Nodup
  idsDistinct : (s.waiting.map (·.id)).Nodup

theorem C06.inv_init : Inv {} := by
  exact ⟨sinv_init.registered, sinv_init.oneEach, sinv_init.idsDistinct⟩

/-- the invariant holds in every state reachable by fewer than 2^31 - 1 requests -/
theorem C06.inv_reachable (evs : List Ev) (h : numReqs evs < 2147483647) : Inv (run {} evs).1 := by
  rw [numReqs_eq_nreq] at h
  have := sinv_run evs {} sinv_init (by show 2 + 2 * nreq evs < 4294967296; omega)
  exact ⟨this.registered, this.oneEach, this.idsDistinct⟩

/-- OWN RESPONSE: whenever a caller returns a response, it bears the id of that caller's own outstanding request and is
    of the kind that request expects — whatever else is in flight and in whatever order the broker answers. -/
theorem C06.own_response (s : St) (id : Nat) (rk : RKind) (c : Nat) (s' : St)
    (h : step s (.resp id rk) = (s', .delivered c rk)) :
    ∃ w ∈ s.waiting, w.caller = c ∧ w.id = id ∧ expected w.kind = rk ∧ alGet id s.pending = some c := by
  exact own_response_aux s id rk c s' h

/-- a response reaches at most the one caller registered under its id; every other blocked caller stays blocked, untouched -/
theorem C06.others_undisturbed (s : St) (hs : Inv s) (id : Nat) (rk : RKind) (w : Waiter)
    (hw : w ∈ s.waiting) (hne : w.id ≠ id) :
    w ∈ (step s (.resp id rk)).1.waiting ∧ alGet w.id (step s (.resp id rk)).1.pending = some w.caller := by
  exact others_undisturbed_aux s hs.registered hs.oneEach id rk w hw hne

/-- EVERY WAITER IS SERVED: in every well-formed state (hence every reachable one), however many requests are in flight, the
    response of the expected kind bearing a blocked caller's id is delivered to exactly that caller — no outstanding request
    can be starved or shadowed by the others -/
theorem C06.every_waiter_served (s : St) (hs : Inv s) (w : Waiter) (hw : w ∈ s.waiting) :
    (step s (.resp w.id (expected w.kind))).2 = .delivered w.caller (expected w.kind) := by
  have hreg := hs.registered w hw
  have hfind : ∀ (l : List Waiter), w ∈ l → (l.map (·.caller)).Nodup →
      l.find? (fun x => decide (x.caller = w.caller ∧ x.id = w.id)) = some w := by
    intro l
    induction l with
    | nil => intro h _; cases h
    | cons a l ih =>
      intro hw hnd
      simp only [List.map_cons, List.nodup_cons, List.mem_map, not_exists, not_and] at hnd
      rcases List.mem_cons.1 hw with heq | hw'
      · subst heq; simp
      · have hne : a.caller ≠ w.caller := fun h => hnd.1 w hw' h.symm
        rw [List.find?_cons_of_neg (by simp [hne])]
        exact ih hw' hnd.2
  have hf := hfind s.waiting hw hs.oneEach
  simp only [step, hreg, hf, if_true]

/-- … and so a burst of answers serves every outstanding caller, in whatever order the broker sends them: answering the
    waiters of a well-formed state one after the other (any enumeration without repetition) delivers each response to its own
    caller -/
theorem burst_served_aux : ∀ (ws : List Waiter) (s : St), SInv s → (∀ w ∈ ws, w ∈ s.waiting) → (ws.map (·.id)).Nodup →
    (run s (ws.map fun w => Ev.resp w.id (expected w.kind))).2 = ws.map fun w => Out.delivered w.caller (expected w.kind) := by
  intro ws
  induction ws with
  | nil => intro s _ _ _; rfl
  | cons w ws ih =>
    intro s hs hmem hnd
    simp only [List.map_cons, List.nodup_cons, List.mem_map, not_exists, not_and] at hnd
    have hw := hmem w (List.mem_cons_self ..)
    have hsI : Inv s := ⟨hs.registered, hs.oneEach, hs.idsDistinct⟩
    have h1 := C06.every_waiter_served s hsI w hw
    have hrest : ∀ x ∈ ws, x ∈ (step s (.resp w.id (expected w.kind))).1.waiting ∧
        alGet x.id (step s (.resp w.id (expected w.kind))).1.pending = some x.caller := by
      intro x hx
      exact others_undisturbed_aux s hs.registered hs.oneEach w.id _ x (hmem x (List.mem_cons_of_mem _ hx)) (fun h => hnd.1 x hx h)
    have hs' : SInv (step s (.resp w.id (expected w.kind))).1 := sinv_resp s hs w.id _
    have := ih _ hs' (fun x hx => (hrest x hx).1) hnd.2
    simp only [List.map_cons, run]
    rw [show (step s (Ev.resp w.id (expected w.kind))) = ((step s (Ev.resp w.id (expected w.kind))).1, (step s (Ev.resp w.id (expected w.kind))).2) from rfl]
    simp only [h1, this]

/-- … stated for reachable states: after any history of fewer than 2^31 - 1 requests, answering any set of outstanding
    requests back to back, in any order, serves each of them -/
theorem C06.burst_served (evs : List Ev) (h : numReqs evs < 2147483647) (ws : List Waiter)
    (hmem : ∀ w ∈ ws, w ∈ (run {} evs).1.waiting) (hnd : (ws.map (·.id)).Nodup) :
    (run (run {} evs).1 (ws.map fun w => Ev.resp w.id (expected w.kind))).2 = ws.map fun w => Out.delivered w.caller (expected w.kind) := by
  rw [numReqs_eq_nreq] at h
  have := sinv_run evs {} sinv_init (by show 2 + 2 * nreq evs < 4294967296; omega)
  exact burst_served_aux ws _ this hmem hnd

example : let s := (run {} [.req 1 .upOpen, .req 2 .metadata, .req 3 .downClose]).1
    (run s [.resp 6 .downCloseR, .resp 2 .upOpenR, .resp 4 .metaAck]).2 =
      [.delivered 3 .downCloseR, .delivered 1 .upOpenR, .delivered 2 .metaAck] := by decide

/-- unknown or already-answered ids are ignored without any state change -/
theorem C06.unknown_ignored (s : St) (id : Nat) (rk : RKind) (h : alGet id s.pending = none) :
    step s (.resp id rk) = (s, .ignored) := by
  exact step_resp_none s id rk h

/-- a response is consumed: a duplicate of it is ignored -/
theorem C06.duplicate_ignored (s : St) (id : Nat) (rk rk' : RKind) :
    (step (step s (.resp id rk)).1 (.resp id rk')).2 = .ignored := by
  exact duplicate_ignored_aux s id rk rk'

/-- CANCEL IS ISOLATED: a caller whose context ends stops waiting, nobody else's wait or registration changes,
    and a later response bearing its id is parked where nobody reads it (`stale`) — it is never handed to another caller. -/
theorem C06.cancel_isolated (s : St) (c : Nat) :
    (step s (.cancel c)).1.pending = s.pending ∧
    (step s (.cancel c)).1.waiting = s.waiting.filter (·.caller ≠ c) := by
  exact cancel_isolated_aux s c

theorem C06.cancelled_response_is_stale (s : St) (hs : Inv s) (w : Waiter) (hw : w ∈ s.waiting) (rk : RKind) :
    (step (step s (.cancel w.caller)).1 (.resp w.id rk)).2 = .stale := by
  exact cancelled_stale_aux s hs.registered w hw rk

/-- a response of an unexpected kind bearing a caller's id is reported to that caller as an error (`mismatch`), never delivered as a value of the wrong type -/
theorem C06.typed (s : St) (id : Nat) (rk : RKind) (c : Nat) (s' : St)
    (h : step s (.resp id rk) = (s', .mismatch c rk)) :
    ∃ w ∈ s.waiting, w.caller = c ∧ w.id = id ∧ expected w.kind ≠ rk := by
  exact typed_aux s id rk c s' h

example : (run {} [.req 1 .upOpen, .req 2 .metadata, .resp 4 .metaAck, .resp 2 .upOpenR, .resp 2 .upOpenR, .resp 8 .pong]).2
    = [.issued 2, .issued 4, .delivered 2 .metaAck, .delivered 1 .upOpenR, .ignored, .ignored] := by decide

end Iscp.Corr
