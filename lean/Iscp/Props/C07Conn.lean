import Iscp.Model.ConnM
import Iscp.Lemmas.ConnM
/-!
C07 at the level of the connection (M-Conn) — streams that share a connection keep apart through outages.

The routing-table theorems of `Props/C07.lean` assume that the aliases in use on one connection are pairwise distinct.  For
downstreams the alias is chosen by the client (the connection's alias generator; a resumed downstream asks for its old alias
again), so on the client side this is an obligation, not an assumption: it is stated here over every history of opens, outages,
redials, resumes and closes, and the `conn` harness checks at the broker that the real library meets it (no two live
downstreams ask for the same alias on one transport) and that it behaves as the model says.
-/
namespace Iscp.ConnM

/-- every stream's alias is the one it was given when it was opened (= its sid in the model: one generator per connection,
    never restarted) -/
def AliasEq (s : St) : Prop := ∀ x ∈ s.streams, x.streamAlias = x.sid

theorem openPending_alias (next : Nat) (ds : List Dir) : ∀ x ∈ openPending next ds, x.streamAlias = x.sid := by
  induction ds generalizing next with
  | nil => simp [openPending]
  | cons d ds ih =>
    intro x hx
    simp only [openPending, List.mem_cons] at hx
    rcases hx with rfl | hx
    · rfl
    · exact ih _ x hx

theorem aliasEq_step (s : St) (e : Ev) (h : AliasEq s) : AliasEq (step s e) := by
  have hmap : ∀ f, IdPres f → ∀ y ∈ s.streams.map f, y.streamAlias = y.sid := by
    intro f hf y hy
    obtain ⟨x, hx, rfl⟩ := List.mem_map.1 hy
    rw [(hf x).1, (hf x).2.2]; exact h x hx
  have happ : ∀ ex : List Stream, (∀ x ∈ ex, x.streamAlias = x.sid) → ∀ y ∈ s.streams ++ ex, y.streamAlias = y.sid := by
    intro ex hex y hy
    rcases List.mem_append.1 hy with hy | hy
    · exact h y hy
    · exact hex y hy
  rcases e with d | r | r | _ | (_|_) | _ | ⟨sid, (_|_)⟩ | sid | _ <;> cases hst : s.status <;>
    simp only [AliasEq, step, loseTransport, hst, ↓reduceIte, Bool.false_eq_true, reduceCtorEq] <;>
    (try (first | split | skip)) <;>
    first
    | exact h
    | exact happ _ (by simp)
    | exact happ _ (openPending_alias _ _)
    | exact hmap _ detach_id
    | exact hmap _ endWithConn_id
    | exact hmap _ (cond_id _ _ reopen_id)
    | exact hmap _ (cond_id _ _ (closeOne_id _))

theorem aliasEq_run (s : St) (evs : List Ev) (h : AliasEq s) : AliasEq (run s evs) := by
  induction evs generalizing s with
  | nil => exact h
  | cons e es ih => exact ih _ (aliasEq_step s e h)

/-- ALIASES STAY DISTINCT: after any history — opens on a healthy connection, opens that waited for a recovery, outages,
    failed and successful redials, resumes accepted or refused, closes — no two streams the connection has ever had share an
    alias.  In particular a stream opened after an outage never takes the alias of a stream that is being resumed. -/
theorem C07.aliases_distinct (evs : List Ev) : ((run {} evs).streams.map (·.streamAlias)).Nodup := by
  have ha : AliasEq (run {} evs) := aliasEq_run _ _ (by simp [AliasEq])
  have hn := (inv_reach evs).i2.1
  have : (run {} evs).streams.map (·.streamAlias) = (run {} evs).streams.map (·.sid) :=
    List.map_congr_left ha
  rw [this]; exact hn

/-- … and so an alias identifies one stream -/
theorem C07.alias_identifies (evs : List Ev) (x y : Stream) (hx : x ∈ (run {} evs).streams) (hy : y ∈ (run {} evs).streams)
    (h : x.streamAlias = y.streamAlias) : x = y := by
  have ha : AliasEq (run {} evs) := aliasEq_run _ _ (by simp [AliasEq])
  exact nodup_sid_eq _ (inv_reach evs).i2.1 x y hx hy (by rw [← ha x hx, ← ha y hy]; exact h)

/-- OPENING IS INDEPENDENT OF THE OTHER STREAMS: on a healthy connection an open yields a new attached stream whatever the
    other streams are doing (attached, waiting for their resume, closed), and leaves every one of them exactly as it was -/
theorem C07.open_independent (s : St) (d : Dir) (h : s.status = .connected) :
    (step s (.openStream d)).streams = s.streams ++ [{ sid := s.nextSid, dir := d, streamAlias := s.nextSid }] := by
  simp [step, h]

/-- … an open issued during an outage waits and changes no stream -/
theorem C07.open_during_outage_frame (s : St) (d : Dir) (h : s.status ≠ .connected) :
    (step s (.openStream d)).streams = s.streams := by
  cases hst : s.status <;> simp_all [step]

/-- LIFECYCLE FRAME: closing one stream, or the broker accepting or refusing one stream's resume, leaves every other stream of
    the connection exactly as it was (state, notifications delivered, identity) -/
theorem C07.lifecycle_frame (s : St) (sid : Nat) (x : Stream) (hx : x ∈ s.streams) (hne : x.sid ≠ sid) :
    x ∈ (step s (.closeStream sid)).streams ∧ ∀ a, x ∈ (step s (.resume sid a)).streams := by
  have hupd : ∀ f : Stream → Stream, x ∈ updStream sid f s.streams := by
    intro f
    refine List.mem_map.2 ⟨x, hx, ?_⟩
    show (if x.sid = sid then f x else x) = x
    rw [if_neg hne]
  refine ⟨?_, ?_⟩
  · cases hst : s.status <;> simp only [step, hst] <;> first | exact hx | exact hupd _
  · intro a
    cases hst : s.status <;> simp only [step, hst] <;> (try exact hx)
    split
    · cases a <;> first | exact hupd _ | exact hx
    · exact hx

/-- non-vacuity: an outage with one resumed and one newly opened downstream — two live streams, distinct aliases -/
example :
    let s := run {} [.openStream .down, .kill, .dial true, .resume 1 .ok, .openStream .down]
    s.streams.map (fun x => (x.sid, x.streamAlias, x.st)) = [(1, 1, .opened), (2, 2, .opened)] := by decide

end Iscp.ConnM
