import Iscp.Gen.SegGlue
import Iscp.Model.Seg
/-
C14, glue obligations over facts REGENERATED from transport/quic, transport/webtransport and
internal/segment/package.go on every run (tie K1).  They state that the Go glue instantiates the model
Iscp/Model/Seg.lean the way the C14 theorems assume: 8-byte header and positive payload size, a fresh
sequence number per message starting after MaxUint32, every received datagram handed to the reassembly
buffer, and a *periodic* expiry sweep (ticker-driven loop that ends only with the transport).
-/
namespace Iscp.Seg
open Iscp.Gen.SegGlue

theorem C14.glue_payload_size : headerSize = 8 ∧ 0 < maxDatagramFrameSize - headerSize := by decide

theorem C14.glue_fresh_seq : ∀ g ∈ all, g.seqInitMaxUint32 = true ∧ 0 < g.sendToCalls ∧ g.sendToFreshSeq = g.sendToCalls := by decide

theorem C14.glue_purge_periodic : ∀ g ∈ all, g.purgeLoops = 1 ∧ g.purgePeriodic = 1 := by decide

theorem C14.glue_recv_feeds_all : ∀ g ∈ all, g.recvLoops = 1 ∧ g.recvFeedsAll = 1 ∧ g.receiveCallsBuffer = true := by decide

/-- the model's initial sequence number is the Go initial value (math.MaxUint32) -/
theorem C14.glue_seq_init : seqInit = 4294967295 := rfl

end Iscp.Seg
