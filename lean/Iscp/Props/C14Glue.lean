import Iscp.Gen.SegGlue
import Iscp.Model.Seg
import Iscp.Lemmas.Seg
/-
C14, glue obligations over facts REGENERATED from transport/quic, transport/webtransport and
internal/segment/package.go on every run (tie K1).  They state that the Go glue instantiates the model
Iscp/Model/Seg.lean the way the C14 theorems assume: 8-byte header and positive payload size, a fresh
sequence number per message starting after MaxUint32, every received datagram handed to the reassembly
buffer, and a *periodic* expiry sweep (ticker-driven loop that ends only with the transport).
-/
namespace Iscp.Seg
open Iscp.Gen.SegGlue

theorem C14.glue_payload_size : headerSize = 8 ∧ 0 < maxDatagramFrameSize - headerSize := by decide

theorem C14.glue_fresh_seq : ∀ g ∈ all, g.seqInitMaxUint32 = true ∧ 0 < g.sendToCalls ∧ g.sendToFreshSeq = g.sendToCalls := by decide

theorem C14.glue_purge_periodic : ∀ g ∈ all, g.purgeLoops = 1 ∧ g.purgePeriodic = 1 := by decide

theorem C14.glue_recv_feeds_all : ∀ g ∈ all, g.recvLoops = 1 ∧ g.recvFeedsAll = 1 ∧ g.receiveCallsBuffer = true := by decide

/-- with the payload size the Go glue actually uses (regenerated constants), no emitted datagram exceeds the
    transport's maximum datagram frame size -/
theorem C14.glue_datagram_fits (seq : Nat) (m : Bytes) (ds : List Dg)
    (h : segments (maxDatagramFrameSize - headerSize).toNat seq m = some ds) :
    ∀ d ∈ ds, (d.encode.length : Int) ≤ maxDatagramFrameSize := by
  intro d hd
  have hc : headerSize = 8 ∧ 8 ≤ maxDatagramFrameSize ∧ 0 < (maxDatagramFrameSize - headerSize).toNat := by decide
  have := (sent_payloads_fit_lem _ seq m hc.2.2 ds h d hd).2.1
  have h8 := hc.1
  have hle := hc.2.1
  omega

/-- the model's initial sequence number is the Go initial value (math.MaxUint32) -/
theorem C14.glue_seq_init : seqInit = 4294967295 := rfl

end Iscp.Seg
