import Iscp.Lemmas.Rel
import Iscp.Props.C01
/-
C02 — Reliable upstream loses no data across disconnect and resume.

Model: Iscp/Model/Rel.lean on top of Iscp/Model/Up.lean.  A history is any list of upstream events (C01) interleaved with
`disconnect` (the transport dies at that position: between any two steps, i.e. before/after any chunk, ack, …) and `resume`
(the stream was resumed under its original id).  Which chunks reached the broker before a failure is not part of the state:
the theorems hold whichever did (a chunk is "delivered" once it is acknowledged or retransmitted).
-/
namespace Iscp.Rel
open Iscp Iscp.Up

def init (p : Policy) (rev : List (DataID × Nat)) (reliable : Bool) : St := { up := Up.init p rev, reliable := reliable }

/-- the projection of a history to the connection-stays-up events of C01: a disconnect acts as a flush (the dying flush loop
    cuts what is buffered), a resume cuts nothing -/
def proj : List Ev → List Up.Ev
  | [] => []
  | .up e :: r => e :: proj r
  | .disconnect :: r => .flush :: proj r
  | .resume :: r => proj r

/-- PROJECTION: disconnects and resumes never change what was cut, numbered, counted, buffered, learnt or reported: on these
    fields a history with failures equals its projection — so C01's conservation, numbering and close totals carry over verbatim
    (sequence numbers are never reused, totals still equal what was written). -/
theorem C02.up_projection (p : Policy) (rev : List (DataID × Nat)) (rel : Bool) (evs : List Ev) :
    let s := (run (init p rev rel) evs).up
    let t := Up.run (Up.init p rev) (proj evs)
    s.sent = t.sent ∧ s.sendHook = t.sendHook ∧ s.seq = t.seq ∧ s.total = t.total ∧ s.buf = t.buf ∧ s.rev = t.rev ∧
    s.ackHook = t.ackHook ∧ s.closeReq = t.closeReq := by
  sorry

/-- sequence numbers acknowledged along a history (by any result, whatever its code) -/
def acked : List Ev → List Nat
  | [] => []
  | .up (.ack rs _) :: r => rs.map (·.1) ++ acked r
  | _ :: r => acked r

/-- STORE INVARIANT (reliable stream): in every reachable state every chunk that was cut and not acknowledged is in the sent
    storage under its original sequence number with its original content — whatever failed and resumed in between. -/
theorem C02.store_inv (p : Policy) (rev : List (DataID × Nat)) (evs : List Ev) :
    let s := run (init p rev true) evs
    ∀ e ∈ s.up.sendHook, e.1 ∉ acked evs → alGet e.1 s.up.store = some e.2 := by
  sorry

/-- cancellation (link death) never removes a stored chunk -/
theorem C02.disconnect_keeps_store (s : St) (q : Nat) (v : Groups) (h : alGet q s.up.store = some v) :
    alGet q (disconnect s).up.store = some v := by
  sorry

/-- one alias never names two data ids in the table (guaranteed by the broker, cf. C01.AliasSane) -/
def RevInj (rev : List (DataID × Nat)) : Prop := ∀ d d' a, (d, a) ∈ rev → (d', a) ∈ rev → d = d'

/-- RESUME RESENDS: after a successful resume a reliable stream retransmits exactly the stored chunks, each under its original
    sequence number and — resolved through the alias table — with its stored content; and waits for each again. -/
theorem C02.resume_resends (s : St) (hr : s.reliable = true) (hinj : RevInj s.up.rev)
    (hnd : (s.up.store.map (·.1)).Nodup) :
    let s' := resume s
    (∀ q v, alGet q s.up.store = some v →
        ∃ c ∈ s'.resent, c.seq = q ∧ c.groups.map (resolve s.up.rev) = v.map some ∧ q ∈ s'.up.waiters) ∧
    (∀ c ∈ s'.resent, c ∈ s.resent ∨ (alGet c.seq s.up.store).isSome) ∧
    s'.up.store = s.up.store := by
  sorry

/-- a non-reliable stream drops its own stored chunks at resume and retransmits nothing -/
theorem C02.unreliable_resume_clears (s : St) (hr : s.reliable = false) :
    (resume s).resent = s.resent ∧ (resume s).up.store = [] := by
  sorry

/-- a chunk is delivered once it is acknowledged or retransmitted -/
def Delivered (s : St) (evs : List Ev) (q : Nat) : Prop := q ∈ acked evs ∨ ∃ c ∈ s.resent, c.seq = q

/-- DELIVERY: from every reachable state of a reliable stream, once the connection is back and the stream resumed, every chunk
    ever cut (hence, by C01.conservation through the projection, every point ever accepted and cut) has been delivered:
    acknowledged before, or retransmitted now with its original number and content. -/
theorem C02.delivery (p : Policy) (rev : List (DataID × Nat)) (evs : List Ev) :
    let evs' := evs ++ [.disconnect, .resume]
    let s := run (init p rev true) evs'
    s.up.buf = [] ∧ ∀ e ∈ s.up.sendHook, Delivered s evs' e.1 := by
  sorry

example : ((run (init .none [] true) [.up (.accept 1 [⟨1, [9]⟩]), .up .flush, .up (.accept 2 [⟨2, [8]⟩]), .disconnect, .resume]).resent.map (·.seq)) = [1, 2] := by decide

end Iscp.Rel
