import Iscp.Lemmas.Rel
import Iscp.Props.C01
/-
C02 — Reliable upstream loses no data across disconnect and resume.

Model: Iscp/Model/Rel.lean on top of Iscp/Model/Up.lean.  A history is any list of upstream events (C01) interleaved with
`disconnect` (the transport dies at that position: between any two steps, i.e. before/after any chunk, ack, …) and `resume`
(the stream was resumed under its original id).  Which chunks reached the broker before a failure is not part of the state:
the theorems hold whichever did (a chunk is "delivered" once it is acknowledged or retransmitted).
-/
namespace Iscp.Rel
open Iscp Iscp.Up

def init (p : Policy) (rev : List (DataID × Nat)) (reliable : Bool) : St := { up := Up.init p rev, reliable := reliable }

/-- the projection of a history to the connection-stays-up events of C01: a disconnect acts as a flush (the dying flush loop
    cuts what is buffered), a resume cuts nothing -/
def proj : List Ev → List Up.Ev
  | [] => []
  | .up e :: r => e :: proj r
  | .disconnect :: r => .flush :: proj r
  | .resume :: r => proj r

theorem Eqv_run_proj : ∀ (evs : List Ev) (s : St) (t : Up.St), Eqv s.up t → Eqv (run s evs).up (Up.run t (proj evs))
  | [], _, _, h => h
  | .up e :: r, s, t, h => by
    rw [run_cons]
    show Eqv _ (Up.run (Up.step t e) (proj r))
    exact Eqv_run_proj r _ _ (Eqv_step _ _ e h)
  | .disconnect :: r, s, t, h => by
    rw [run_cons]
    show Eqv _ (Up.run (cut t) (proj r))
    exact Eqv_run_proj r _ _ ((Eqv_disconnect s).trans (Eqv_cut _ _ h))
  | .resume :: r, s, t, h => by
    rw [run_cons]
    show Eqv _ (Up.run t (proj r))
    exact Eqv_run_proj r _ _ ((Eqv_resume s).trans h)

/-- PROJECTION: disconnects and resumes never change what was cut, numbered, counted, buffered, learnt or reported: on these
    fields a history with failures equals its projection — so C01's conservation, numbering and close totals carry over verbatim
    (sequence numbers are never reused, totals still equal what was written). -/
theorem C02.up_projection (p : Policy) (rev : List (DataID × Nat)) (rel : Bool) (evs : List Ev) :
    let s := (run (init p rev rel) evs).up
    let t := Up.run (Up.init p rev) (proj evs)
    s.sent = t.sent ∧ s.sendHook = t.sendHook ∧ s.seq = t.seq ∧ s.total = t.total ∧ s.buf = t.buf ∧ s.rev = t.rev ∧
    s.ackHook = t.ackHook ∧ s.closeReq = t.closeReq := by
  intro s t
  have h : Eqv s t := Eqv_run_proj evs (init p rev rel) (Up.init p rev) (Eqv.refl _)
  exact ⟨h.sent, h.sendHook, h.seq, h.total, h.buf, h.rev, h.ackHook, h.closeReq⟩

/-- sequence numbers acknowledged along a history (by any result, whatever its code) -/
def acked : List Ev → List Nat
  | [] => []
  | .up (.ack rs _) :: r => rs.map (·.1) ++ acked r
  | _ :: r => acked r

theorem acked_eq (evs : List Ev) : acked evs = (evs.flatMap res).map (·.1) := by
  induction evs with
  | nil => rfl
  | cons e r ih =>
    cases e with
    | up e => cases e <;> simp [acked, res, Up.res, ih]
    | disconnect => simp [acked, res, ih]
    | resume => simp [acked, res, ih]

theorem ackHook_init_run (p : Policy) (rev : List (DataID × Nat)) (rel : Bool) (evs : List Ev) :
    (run (init p rev rel) evs).up.ackHook.map (·.1) = acked evs := by
  rw [ackHook_run, acked_eq]
  rfl

theorem Kept_init_run (p : Policy) (rev : List (DataID × Nat)) (evs : List Ev) : Kept (run (init p rev true) evs).up :=
  Kept_run evs (init p rev true) rfl (Inv_init p rev) (Kept_init p rev)

/-- STORE INVARIANT (reliable stream): in every reachable state every chunk that was cut and not acknowledged is in the sent
    storage under its original sequence number with its original content — whatever failed and resumed in between. -/
theorem C02.store_inv (p : Policy) (rev : List (DataID × Nat)) (evs : List Ev) :
    let s := run (init p rev true) evs
    ∀ e ∈ s.up.sendHook, e.1 ∉ acked evs → alGet e.1 s.up.store = some e.2 := by
  intro s e he hn
  refine Kept_init_run p rev evs e he ?_
  rw [ackHook_init_run]
  exact hn

-- STATEMENT CHANGED: added the hypothesis `hq : q ≤ s.up.seq` (the stored chunk carries an already issued sequence number).
-- As written (for an arbitrary, possibly unreachable state `s`) the statement is false: the dying flush loop cuts the buffer
-- into chunk `s.up.seq + 1` and stores it with `alPut`, which overwrites an entry already stored under that (not yet issued)
-- number.  Counterexample (`example` below, by `decide`): seq = 0, store = [(1, [⟨9, []⟩])], buf = [(7, [⟨1, [1]⟩])]:
-- before `alGet 1 store = some [⟨9, []⟩]`, after `disconnect` `alGet 1 store = some [⟨7, [⟨1, [1]⟩]⟩]`.
-- The hypothesis holds for every stored chunk of every reachable state (`C02.store_keys_issued` below), so on reachable
-- states the original statement holds verbatim (`C02.disconnect_keeps_store_reachable`).
/-- cancellation (link death) never removes a stored chunk -/
theorem C02.disconnect_keeps_store (s : St) (q : Nat) (v : Groups) (h : alGet q s.up.store = some v) (hq : q ≤ s.up.seq) :
    alGet q (disconnect s).up.store = some v := by
  rw [disconnect_up]
  show alGet q (cut s.up).store = some v
  by_cases hb : s.up.buf = []
  · rw [cut_nil _ hb]; exact h
  · rw [cut_cons _ hb]
    show alGet q (alPut (s.up.seq + 1) (toGroups s.up.buf) s.up.store) = some v
    have hne : q ≠ s.up.seq + 1 := by omega
    rw [alGet_alPut_ne hne]
    exact h

/-- the counterexample to the original statement of `C02.disconnect_keeps_store` (no hypothesis on `q`) -/
example : ∃ (s : St) (q : Nat) (v : Groups), alGet q s.up.store = some v ∧ alGet q (disconnect s).up.store ≠ some v :=
  ⟨{ up := { buf := [(7, [⟨1, [1]⟩])], seq := 0, store := [(1, [⟨9, []⟩])] } }, 1, [⟨9, []⟩], by decide, by decide⟩

/-- in every reachable state (reliable or not) every stored chunk carries an already issued sequence number -/
theorem C02.store_keys_issued (p : Policy) (rev : List (DataID × Nat)) (rel : Bool) (evs : List Ev) (q : Nat) (v : Groups)
    (h : alGet q (run (init p rev rel) evs).up.store = some v) : q ≤ (run (init p rev rel) evs).up.seq :=
  alGet_le_of_KeysLe _ (KeysLe_run evs (init p rev rel) (fun _ hx => nomatch hx)) q v h

/-- the original statement of `C02.disconnect_keeps_store`, on reachable states -/
theorem C02.disconnect_keeps_store_reachable (p : Policy) (rev : List (DataID × Nat)) (rel : Bool) (evs : List Ev)
    (q : Nat) (v : Groups) (h : alGet q (run (init p rev rel) evs).up.store = some v) :
    alGet q (disconnect (run (init p rev rel) evs)).up.store = some v :=
  C02.disconnect_keeps_store _ q v h (C02.store_keys_issued p rev rel evs q v h)

/-- one alias never names two data ids in the table (guaranteed by the broker, cf. C01.AliasSane) -/
def RevInj (rev : List (DataID × Nat)) : Prop := ∀ d d' a, (d, a) ∈ rev → (d', a) ∈ rev → d = d'

theorem RevSane_of_RevInj (rev : List (DataID × Nat)) (h : RevInj rev) : RevSane rev := by
  intro e he e' he' heq
  obtain ⟨d, a⟩ := e
  obtain ⟨d', a'⟩ := e'
  simp only at heq
  subst heq
  exact h d d' a he he'

-- note: the hypothesis `hnd` is not needed by the proof; kept as stated
set_option linter.unusedVariables false in
/-- RESUME RESENDS: after a successful resume a reliable stream retransmits exactly the stored chunks, each under its original
    sequence number and — resolved through the alias table — with its stored content; and waits for each again. -/
theorem C02.resume_resends (s : St) (hr : s.reliable = true) (hinj : RevInj s.up.rev)
    (hnd : (s.up.store.map (·.1)).Nodup) :
    let s' := resume s
    (∀ q v, alGet q s.up.store = some v →
        ∃ c ∈ s'.resent, c.seq = q ∧ c.groups.map (resolve s.up.rev) = v.map some ∧ q ∈ s'.up.waiters) ∧
    (∀ c ∈ s'.resent, c ∈ s.resent ∨ (alGet c.seq s.up.store).isSome) ∧
    s'.up.store = s.up.store := by
  intro s'
  refine ⟨?_, ?_, resume_store s hr⟩
  · intro q v hqv
    have hm : (q, v) ∈ s.up.store := alGet_mem q v _ hqv
    refine ⟨resendOf s.up.rev (q, v), resume_resent_mem s hr _ hm, rfl, resendOf_resolve _ (RevSane_of_RevInj _ hinj) _, ?_⟩
    show q ∈ (resume s).up.waiters
    rw [resume_reliable s hr]
    show q ∈ (sortBySeq s.up.store).map (·.1)
    exact List.mem_map.2 ⟨(q, v), (mem_sortBySeq _ _).2 hm, rfl⟩
  · intro c hc
    have hc' : c ∈ (resume s).resent := hc
    rw [resume_reliable s hr] at hc'
    have hc'' : c ∈ s.resent ++ (sortBySeq s.up.store).map (resendOf s.up.rev) := hc'
    rcases List.mem_append.1 hc'' with h | h
    · exact Or.inl h
    · obtain ⟨x, hx, rfl⟩ := List.mem_map.1 h
      exact Or.inr (alGet_isSome_of_mem x _ ((mem_sortBySeq _ _).1 hx))

/-- a non-reliable stream drops its own stored chunks at resume and retransmits nothing -/
theorem C02.unreliable_resume_clears (s : St) (hr : s.reliable = false) :
    (resume s).resent = s.resent ∧ (resume s).up.store = [] := by
  rw [resume_unreliable s hr]
  exact ⟨rfl, rfl⟩

/-- a chunk is delivered once it is acknowledged or retransmitted -/
def Delivered (s : St) (evs : List Ev) (q : Nat) : Prop := q ∈ acked evs ∨ ∃ c ∈ s.resent, c.seq = q

/-- DELIVERY: from every reachable state of a reliable stream, once the connection is back and the stream resumed, every chunk
    ever cut (hence, by C01.conservation through the projection, every point ever accepted and cut) has been delivered:
    acknowledged before, or retransmitted now with its original number and content. -/
theorem C02.delivery (p : Policy) (rev : List (DataID × Nat)) (evs : List Ev) :
    let evs' := evs ++ [.disconnect, .resume]
    let s := run (init p rev true) evs'
    s.up.buf = [] ∧ ∀ e ∈ s.up.sendHook, Delivered s evs' e.1 := by
  intro evs' s
  have hs : s = resume (disconnect (run (init p rev true) evs)) := by
    show run (init p rev true) (evs ++ [.disconnect, .resume]) = _
    rw [run_append]; rfl
  have hr : (disconnect (run (init p rev true) evs)).reliable = true := by
    rw [disconnect_reliable, run_reliable]; rfl
  refine ⟨?_, ?_⟩
  · rw [hs, (Eqv_resume _).buf, disconnect_buf]
  · intro e he
    by_cases ha : e.1 ∈ acked evs'
    · exact Or.inl ha
    · right
      have hst : alGet e.1 s.up.store = some e.2 := C02.store_inv p rev evs' e he ha
      rw [hs, resume_store _ hr] at hst
      refine ⟨resendOf (disconnect (run (init p rev true) evs)).up.rev (e.1, e.2), ?_, rfl⟩
      rw [hs]
      exact resume_resent_mem _ hr _ (alGet_mem _ _ _ hst)

example : ((run (init .none [] true) [.up (.accept 1 [⟨1, [9]⟩]), .up .flush, .up (.accept 2 [⟨2, [8]⟩]), .disconnect, .resume]).resent.map (·.seq)) = [1, 2] := by decide

end Iscp.Rel
