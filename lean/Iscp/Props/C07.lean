import Iscp.Lemmas.C07
/-
C07 — Streams that share a connection are isolated from each other.

Two shared structures exist between streams of one connection: the sent-chunk storage (iscp/storage.go,
model Iscp/Model/Store.lean) and the per-alias routing tables of the wire connection (wire/client_conn.go,
model `Tables`/`rstep` in Iscp/Model/Corr.lean).  For both: an operation addressed to one stream leaves
every other stream's view unchanged (frame), hence any interleaving projected to one stream equals that
stream's solo run (non-interference, a statement over pairs of histories).
-/
namespace Iscp.Store

/-- FRAME (storage): Store / Remove / List / Clear on stream `a` never change what stream `b ≠ a` holds. -/
theorem C07.store_frame (np : Bool) (s : St) (op : Op) (b : Nat) (h : op.sid ≠ b) :
    view (step np s op).1 b = view s b := by
  exact store_frame_aux np s op b h

/-- a step on stream `b` reads and writes only `b`'s view -/
theorem C07.store_local (np : Bool) (s s' : St) (op : Op) (h : view s op.sid = view s' op.sid) :
    (step np s op).2 = (step np s' op).2 ∧ view (step np s op).1 op.sid = view (step np s' op).1 op.sid := by
  exact store_local_aux np s s' op h

/-- outputs of a history, in order -/
def outs (np : Bool) (s : St) : List Op → List (Nat × Out)
  | [] => []
  | op :: r => (op.sid, (step np s op).2) :: outs np (step np s op).1 r

/-- NON-INTERFERENCE (storage): for every interleaving `ops` of operations of any number of streams, what stream `b`
    ends up holding, and every result its own operations returned, are exactly those of the run that contains
    only `b`'s operations. -/
theorem C07.store_noninterference (np : Bool) (s : St) (ops : List Op) (b : Nat) :
    view (run np s ops) b = view (run np s (ops.filter (·.sid = b))) b ∧
    (outs np s ops).filter (·.1 = b) = outs np s (ops.filter (·.sid = b)) := by
  suffices H : ∀ (ops : List Op) (s s' : St), view s b = view s' b →
      view (run np s ops) b = view (run np s' (ops.filter (·.sid = b))) b ∧
      (outs np s ops).filter (·.1 = b) = outs np s' (ops.filter (·.sid = b)) from H ops s s rfl
  intro ops
  induction ops with
  | nil => intro s s' h; exact ⟨h, rfl⟩
  | cons op r ih =>
    intro s s' h
    by_cases hb : op.sid = b
    · subst hb
      have hl := C07.store_local np s s' op h
      have := ih _ _ hl.2
      simp only [List.filter_cons, decide_true, if_true, run_cons, outs, hl.1, this, and_self]
    · have hf := C07.store_frame np s op b hb
      have := ih (step np s op).1 s' (hf.trans h)
      simp only [List.filter_cons, hb, decide_false, run_cons, outs, this, and_self, if_false, Bool.false_eq_true]

/-- functional correctness of the storage as a map: a stored chunk is listed and removed with the stored content
    (payload dropped by the no-payload wrapper, nothing else), until it is removed or the stream is cleared. -/
theorem C07.store_then_list (np : Bool) (s : St) (sid seq : Nat) (v : Groups) :
    ∃ m, (step np (step np s (.store sid seq v)).1 (.list sid)).2 = .listed m ∧
      alGet seq m = some (if np then v.withoutPayload else v) := by
  refine ⟨alPut seq (if np then v.withoutPayload else v) ((alGet sid s).getD []), ?_, alGet_alPut_self seq _ _⟩
  simp only [step, alGet_alPut_self]

theorem C07.store_then_remove (np : Bool) (s : St) (sid seq : Nat) (v : Groups) :
    (step np (step np s (.store sid seq v)).1 (.remove sid seq)).2 = .removed (if np then v.withoutPayload else v) := by
  simp only [step, alGet_alPut_self]

theorem C07.remove_then_gone (np : Bool) (s : St) (sid seq : Nat) (v : Groups)
    (h : (step np s (.remove sid seq)).2 = .removed v) :
    (step np (step np s (.remove sid seq)).1 (.remove sid seq)).2 = .notFoundSeq := by
  simp only [step] at h ⊢
  split at h
  · cases h
  · split at h
    · cases h
    · simp only [alGet_alPut_self, alGet_alDel_self]

theorem C07.clear_then_empty (np : Bool) (s : St) (sid : Nat) :
    view (step np s (.clear sid)).1 sid = none := by
  exact alGet_alDel_self sid s

/-- REFINEMENT (storage): the storage is a map from (stream id, sequence number) to chunks.  After any history of
    Store / Remove / List / Clear, the chunk held under every key is what the simplest specification says
    (`specStep`: a store overwrites that key only, a remove deletes that key only, a clear deletes that stream's
    keys only, a list changes nothing) - so what a resume finds under a stream id is exactly the unacknowledged chunks. -/
theorem C07.store_refines_map (np : Bool) (s : St) (ops : List Op) :
    absGet (run np s ops) = specRun np (absGet s) ops :=
  store_refines_map_run_lem np s ops

/-- … and its outputs are the map's: Remove hands back exactly the chunk held under that key (and reports a miss iff there
    is none), List returns exactly the stream's part of the map. -/
theorem C07.store_outputs_refine (np : Bool) (s : St) (sid seq : Nat) :
    (∀ v, (step np s (.remove sid seq)).2 = .removed v ↔ absGet s sid seq = some v) ∧
    (∀ m, (step np s (.list sid)).2 = .listed m → ∀ q, alGet q m = absGet s sid q) :=
  ⟨fun v => remove_output_lem np s sid seq v, fun m h => list_output_lem np s sid m h⟩

/- non-vacuity: store, overwrite, remove and clear on two streams -/
example : absGet (run false [] [.store 1 5 [], .store 2 5 [], .remove 1 5]) 2 5 = some [] ∧
    absGet (run false [] [.store 1 5 [], .store 2 5 [], .remove 1 5]) 1 5 = none := by decide

/-- the no-payload wrapper keeps ids, point counts and elapsed times -/
theorem C07.no_payload_keeps_shape (gs : Groups) :
    gs.withoutPayload.map (·.id) = gs.map (·.id) ∧
    gs.withoutPayload.map (fun g => g.points.map (·.elapsed)) = gs.map (fun g => g.points.map (·.elapsed)) := by
  simp only [Groups.withoutPayload, List.map_map]
  constructor
  · rfl
  · congr 1; funext g
    simp only [Function.comp, Group.withoutPayload, List.map_map]
    rfl

example : view (run false [] [.store 1 1 [⟨5, [⟨3, [1, 2]⟩]⟩], .store 2 1 [], .clear 2]) 1 = some [(1, [⟨5, [⟨3, [1, 2]⟩]⟩])] := by decide

end Iscp.Store

namespace Iscp.Corr

/-- FRAME (routing): an event addressed to alias `a` changes nothing that alias `b ≠ a` can observe:
    acks, chunks (both channels), ack-completes and metadata queues of `b`. -/
theorem C07.route_frame (t : Tables) (e : REv) (a b : Nat) (h : e.target t = some a) (hb : b ≠ a) :
    rview (rstep t e).1 b = rview t b := by
  exact route_frame_aux t e a b h hb

/-- closing a stream id that is not registered changes nothing at all -/
theorem C07.route_close_unknown (t : Tables) (e : REv) (h : e.target t = none) : (rstep t e).1 = t := by
  cases e <;> simp only [REv.target] at h <;> first | cases h | simp only [rstep, h]

/-- a message for an alias (or source node) nobody subscribed to is dropped without changing any table -/
theorem C07.route_unknown_alias (t : Tables) (a n tok : Nat) :
    (alGet a t.acks = none → rstep t (.ack a tok) = (t, .unknown)) ∧
    (alGet a t.dps = none → rstep t (.chunk a tok) = (t, .unknown)) ∧
    (alGet a t.dpsU = none → rstep t (.chunkU a tok) = (t, .unknown)) ∧
    (alGet a t.ackc = none → rstep t (.ackComplete a tok) = (t, .unknown)) ∧
    (alGet a t.metaq = none → rstep t (.metadata a n tok) = (t, .unknown)) := by
  refine ⟨?_, ?_, ?_, ?_, ?_⟩ <;> intro h <;> simp only [rstep, enqueue, h]

/-- closing a stream removes exactly its own alias's entries -/
theorem C07.route_close_removes_own (t : Tables) (sid a : Nat) (h : alGet sid t.downAlias = some a) :
    rview (rstep t (.closeDown sid)).1 a = (alGet a t.acks, none, none, none, none) := by
  simp only [rstep, h, rview, alGet_alDel_self]

/-- per alias, acks are handed to the stream in arrival order, each once (below the queue capacity) -/
theorem C07.route_fifo (t : Tables) (a : Nat) (q : List Nat) (toks : List Nat)
    (h : alGet a t.acks = some q) (hc : q.length + toks.length ≤ qcap) :
    (rstep (toks.foldl (fun t tok => (rstep t (.ack a tok)).1) t) (.drainAck a)).2 = .items (q ++ toks) := by
  exact route_fifo_aux toks t a q h hc

example : (rstep (rstep (rstep {} (.openUp 7 3)).1 (.ack 3 11)).1 (.drainAck 3)).2 = .items [11] := by decide

/-- FAILING ONE STREAM CHANGES NOTHING FOR THE OTHERS: an upstream open or resume the broker refuses (whatever alias and stream
    id its response carries — a refusal's alias field is typically 0, which may be a healthy stream's alias) leaves every
    routing table exactly as it was -/
theorem C07.refused_open_changes_nothing (t : Tables) (a : ReqArgs) (rsid ralias : Nat) :
    afterResponse t .upOpen a rsid ralias false = t ∧ afterResponse t .upResume a rsid ralias false = t := by
  simp [afterResponse]

/-- … through the typed wrapper: whatever the correlator does with the response, the tables are untouched -/
theorem C07.refused_response_frame (w : Wire) (id rsid ralias : Nat) (rk : RKind)
    (hk : ∀ x ∈ w.c.waiting, x.kind = .upOpen ∨ x.kind = .upResume) :
    (wresp w id rk rsid ralias false).1.t = w.t := by
  unfold wresp
  cases hf : w.c.waiting.find? (fun x => alGet id w.c.pending = some x.caller ∧ x.id = id) with
  | none =>
    simp only [Option.map_none]
    split
    · next h1 h2 => cases h2
    · rfl
  | some x =>
    have hx := hk x (List.mem_of_find?_eq_some hf)
    simp only [Option.map_some]
    split
    · next h1 h2 =>
      simp only [Option.some.injEq] at h2
      subst h2
      rcases hx with h | h <;> simp [afterResponse, h]
    · rfl

/-- … while an accepted open touches the assigned alias only (the view of every other alias is unchanged) -/
theorem C07.accepted_open_frame (t : Tables) (a : ReqArgs) (rsid ralias b : Nat) (hb : b ≠ ralias) :
    rview (afterResponse t .upOpen a rsid ralias true) b = rview t b := by
  simp only [afterResponse, if_true]
  exact C07.route_frame t (.openUp rsid ralias) ralias b rfl hb

example : let w0 : Wire := {}
    let (w1, _) := wreq w0 1 .upOpen {}
    let (w2, _) := wresp w1 2 .upOpenR 7 0            -- stream 7 holds alias 0
    let (w3, _) := wreq w2 2 .upOpen {}
    let (w4, o) := wresp w3 4 .upOpenR 0 0 false       -- an unrelated open is refused; its alias field is 0
    (o, (rstep (rstep w4.t (.ack 0 11)).1 (.drainAck 0)).2) = (.delivered 2 .upOpenR, .items [11]) := by decide

end Iscp.Corr
