import Iscp.Model.Conv
import Iscp.Gen.Enums
/-!
C12 — decoders never crash on hostile bytes and accept only self-consistent messages.

What a theorem can carry here, and what it cannot.  "For all byte strings" over the real decoders involves the generated
protobuf unmarshaller and encoding/json of the Go standard library, which are not modelled.  The theorems below are about
(a) facts regenerated from the source on every run (`Iscp.Gen.Enums`): every codec entry point starts with a deferred recover
that assigns its error result and starts no goroutine — so, by Go's semantics of panics (trusted), whatever the converter does
on a hostile structure surfaces as an error; the converter and codec packages contain only range loops over the decoded
collections, no goroutines, no channel operations and no recursion — so conversion terminates; the size gate is applied to the raw
frame, and its error returned, before the decoder is called;
(b) the scalar part of the model (`Iscp.Conv`): enumeration values outside the wire enumeration are rejected, every accepted
value is a fixed point of encode∘decode (self-consistency), decoded durations are canonical, the gate refuses exactly the
frames above a non-zero maximum.
The byte-level claim is explored by the fuzz part of the codec harness and the frame part of the wire harness (search, not proof).
-/
namespace Iscp.Conv
open Iscp.Gen.Enums

/-- PANIC CONTAINMENT (regenerated fact): EncodeTo / DecodeFrom of both encodings start with a deferred recover that assigns the
    named error result, and start no goroutine (a panic in another goroutine could not be recovered) -/
theorem C12.decoders_contain_panics :
    wrappers.length = 4 ∧ ∀ w ∈ wrappers, w.firstIsDeferredRecover = true ∧ w.assignsNamedError = true ∧ w.hasGoStmt = false := by decide

/-- NO HANG (regenerated fact): no function of encoding/convert, encoding/protobuf, encoding/json has a `for` loop other than a
    range loop, starts a goroutine, touches a channel or is recursive -/
theorem C12.converters_terminate :
    convFns.length > 100 ∧ ∀ f ∈ convFns, f.nonRangeLoops = 0 ∧ f.goStmts = 0 ∧ f.chanOps = 0 ∧ f.inCycle = false := by decide +kernel

/-- the gate comes first (regenerated fact): Transport.Read validates the size of the raw frame and returns that error before DecodeFrom -/
theorem C12.gate_before_decode : 0 ≤ readGate.1 ∧ readGate.1 < readGate.2.1 ∧ readGate.2.2 = true := by decide

/-- SIZE GATE: refused exactly when a maximum is configured and the frame is larger -/
theorem C12.size_gate (max n : Nat) : sizeGate max n = false ↔ (max ≠ 0 ∧ max < n) := by
  simp only [sizeGate]; constructor
  · intro h; simp at h; omega
  · intro h; simp; omega

theorem lookup_mem {t : List (Int × Int)} {k v : Int} (h : lookup t k = some v) : (k, v) ∈ t := by
  unfold lookup at h
  cases hf : t.find? (·.1 = k) with
  | none => simp [hf] at h
  | some p =>
    simp [hf] at h
    have hm := List.mem_of_find?_eq_some hf
    have hk := List.find?_some hf
    simp at hk
    cases p with
    | mk a b => simp at h hk; subst h; subst hk; exact hm

/-- UNKNOWN ENUM NUMBERS are rejected: a wire value outside the wire enumeration has no library value (every integer, not a sample) -/
theorem C12.unknown_enum_rejected (v : Int) :
    (¬ (wireResultCodes.map (·.2)).contains v → lookup rcToLib v = none) ∧
    (¬ (wireQoS.map (·.2)).contains v → lookup qosToLib v = none) := by
  constructor
  · intro hn
    cases h : lookup rcToLib v with
    | none => rfl
    | some c =>
      exfalso; apply hn
      have hm := lookup_mem h
      have hall : ∀ p ∈ rcToLib, (wireResultCodes.map (·.2)).contains p.1 = true := by decide
      exact hall _ hm
  · intro hn
    cases h : lookup qosToLib v with
    | none => rfl
    | some c =>
      exfalso; apply hn
      have hm := lookup_mem h
      have hall : ∀ p ∈ qosToLib, (wireQoS.map (·.2)).contains p.1 = true := by decide
      exact hall _ hm

/-- SELF-CONSISTENCY of what is accepted: every decoded result code / QoS encodes again and decodes back to itself -/
theorem C12.accepted_enum_reencodes (w c : Int) :
    (lookup rcToLib w = some c → (lookup rcToWire c).bind (lookup rcToLib) = some c) ∧
    (lookup qosToLib w = some c → (lookup qosToWire c).bind (lookup qosToLib) = some c) := by
  constructor
  · intro h
    have hall : ∀ p ∈ rcToLib, (lookup rcToWire p.2).bind (lookup rcToLib) = some p.2 := by decide
    exact hall _ (lookup_mem h)
  · intro h
    have hall : ∀ p ∈ qosToLib, (lookup qosToWire p.2).bind (lookup qosToLib) = some p.2 := by decide
    exact hall _ (lookup_mem h)

/-- … and every decoded duration (any 32-bit wire value) encodes again to the same wire value -/
theorem C12.accepted_duration_reencodes (s : Nat) (h : s < 4294967296) :
    durToWireS (durFromWireS s) = s ∧ durToWireMs (durFromWireMs s) = s := by
  simp only [durFromWireS, durToWireS, durFromWireMs, durToWireMs, nsPerS, nsPerMs]; omega

example : lookup rcToLib 9999 = none ∧ lookup rcToLib 88 = some 30 ∧ sizeGate 10 11 = false ∧ sizeGate 0 11 = true := by decide

/-- … and every decoded elapsed time (any signed 64-bit wire value, negative ones included) encodes again to the same wire value:
    the encoder applies no clamp the decoder does not apply -/
theorem C12.accepted_elapsed_reencodes (w : Int) (h : fitsI64 w) : elapsedToWire (elapsedFromWire w) = w := by
  simp only [fitsI64, elapsedFromWire, elapsedToWire, wrap64] at *; omega

end Iscp.Conv
