import Iscp.Lemmas.Neg
/-
C17 — Negotiation parameters round-trip and both peers derive the same settings.

Property theorems only; helper lemmas are in Iscp/Lemmas/Neg.lean; the model is Iscp/Model/Neg.lean
(tied to transport/negotiation.go, transport/quic/negotiation.go, transport/{websocket,webtransport}/negotiation.go,
transport/dialer.go by the correspondence harness go/corr/neg).

`WF p` is the explicit guard of the round-trip theorems: string fields are valid UTF-8 (json.Marshal coerces
anything else to U+FFFD — covered by `C17.kv_coerces`), integers are Go ints (64 bit).  The binary form
additionally needs every string shorter than 2^16 bytes (u16 length prefix).
-/
namespace Iscp.Neg
open Iscp.Seg (Bytes)

def inInt64 (i : Int) : Prop := int64Min ≤ i ∧ i ≤ int64Max

structure WF (p : Params) : Prop where
  enc : utf8Valid p.enc = true
  comp : utf8Valid p.comp = true
  tid : utf8Valid p.tid = true
  tgid : utf8Valid p.tgid = true
  clevel : ∀ i, p.clevel = some i → inInt64 i
  cwinbits : ∀ i, p.cwinbits = some i → inInt64 i
  tgcount : inInt64 p.tgcount
  tgidx : inInt64 p.tgidx

structure Short (p : Params) : Prop where
  enc : p.enc.length < 65536
  comp : p.comp.length < 65536
  tid : p.tid.length < 65536
  tgid : p.tgid.length < 65536

/-- `WF` is the bundled form of the lemma-file guard `PWF` -/
theorem WF.toPWF {p : Params} (h : WF p) : PWF p :=
  ⟨h.enc, h.comp, h.tid, h.tgid, h.clevel, h.cwinbits, h.tgcount, h.tgidx⟩

/-- valid UTF-8 passes through json.Marshal's coercion unchanged -/
theorem C17.sanitize_valid (b : Bytes) (h : utf8Valid b = true) : sanitize b = b := by
  exact sanitize_of_valid b h

/-- the output of the coercion is always valid UTF-8 (what the peer receives is well formed) -/
theorem C17.sanitize_is_valid (b : Bytes) : utf8Valid (sanitize b) = true := by
  exact utf8Valid_sanitize b

/-- decimal rendering and parsing are inverse on Go ints -/
theorem C17.int_roundtrip (i : Int) (h : inInt64 i) : parseQuoted (showInt i) = .int i := by
  exact parseQuoted_showInt i h.1 h.2

/-- key/value map carrier: every well-formed parameter set survives MarshalKeyValues / UnmarshalKeyValues -/
theorem C17.kv_roundtrip (p : Params) (h : WF p) : unmarshalKV Params.zero (marshalKV p) = some p := by
  exact unmarshalKV_marshalKV p (WF.toPWF h)

/-- URL query values carrier (WebSocket, WebTransport) -/
theorem C17.url_roundtrip (p : Params) (h : WF p) : unmarshalURL Params.zero (marshalURL p) = some p := by
  exact unmarshalURL_marshalURL p (WF.toPWF h)

/-- QUIC binary carrier -/
theorem C17.bin_roundtrip (p : Params) (h : WF p) (hs : Short p) : unmarshalBin Params.zero (marshalBin p) = some p := by
  exact unmarshalBin_marshalBin p (WF.toPWF h) ⟨hs.enc, hs.comp, hs.tid, hs.tgid⟩

/-- well-formed key/value list for the binary form -/
structure KVsOK (kvs : List (Bytes × Bytes)) : Prop where
  nonempty : ∀ e ∈ kvs, e.1 ≠ []
  klen : ∀ e ∈ kvs, e.1.length < 65536
  vlen : ∀ e ∈ kvs, e.2.length < 65536
  kutf : ∀ e ∈ kvs, utf8Valid e.1 = true
  vutf : ∀ e ∈ kvs, utf8Valid e.2 = true
  nodup : (kvs.map (·.1)).Nodup

/-- The binary reader accepts exactly the encodings of well-formed key/value lists: anything truncated,
    with an empty or duplicated key, or with invalid UTF-8 in a key or value is rejected, never misread.
    (Input bytes are bytes: `< 256`.) -/
theorem C17.bin_reader_exact (bs : Bytes) (hb : ∀ b ∈ bs, b < 256) (kvs : List (Bytes × Bytes)) :
    readKV bs = some kvs ↔ (bs = marshalBinKV kvs ∧ KVsOK kvs) := by
  rw [readKV_iff bs hb kvs]
  constructor
  · rintro ⟨h1, h2, h3⟩
    exact ⟨h1, ⟨fun e he => (h2 e he).1, fun e he => (h2 e he).2.1, fun e he => (h2 e he).2.2.1,
      fun e he => (h2 e he).2.2.2.1, fun e he => (h2 e he).2.2.2.2, h3⟩⟩
  · rintro ⟨h1, h2⟩
    exact ⟨h1, fun e he => ⟨h2.nonempty e he, h2.klen e he, h2.vlen e he, h2.kutf e he, h2.vutf e he⟩, h2.nodup⟩

/-- URL values with an empty key, or a key with zero or several values, are rejected -/
theorem C17.url_rejects (p0 : Params) (vals : List (Bytes × List Bytes))
    (h : ∃ e ∈ vals, e.1 = [] ∨ e.2.length ≠ 1) : unmarshalURL p0 vals = none := by
  exact unmarshalURL_none p0 vals h

/-- a numeric parameter whose value is not a decimal Go int (nor the literal null) is rejected, whatever else the map holds -/
theorem C17.kv_rejects_non_numeric (p0 : Params) (kvs : List (Bytes × Bytes)) (k v : Bytes)
    (hk : k = tClevel ∨ k = tCwinbits ∨ k = tTgcount ∨ k = tTgidx) (hmem : (k, v) ∈ kvs)
    (hv : parseQuoted v = .err) : unmarshalKV p0 kvs = none := by
  exact unmarshalKV_none_of_mem p0 kvs k v (applyKV_numeric_err k v hk hv) hmem

/-- reconnect must be exactly "true" or "false" -/
theorem C17.kv_rejects_bad_bool (p0 : Params) (kvs : List (Bytes × Bytes)) (v : Bytes)
    (hmem : (tReconnect, v) ∈ kvs) (hv : v ≠ ascii "true" ∧ v ≠ ascii "false") : unmarshalKV p0 kvs = none := by
  exact unmarshalKV_none_of_mem p0 kvs tReconnect v (applyKV_bad_bool v hv.1 hv.2) hmem

/-- Validate rejects exactly: unknown encoding, unknown compression type, level outside 0..9, window bits outside 0..32;
    an accepted set is returned unchanged except for the defaulted level. -/
theorem C17.validate_rejects (p : Params) :
    validate p = none ↔
      (¬ (p.enc = [] ∨ p.enc = tJson ∨ p.enc = tProto) ∨
       ¬ (p.comp = [] ∨ p.comp = tPerMessage ∨ p.comp = tTakeover) ∨
       (∃ l, p.clevel = some l ∧ (l < 0 ∨ l > 9)) ∨
       (∃ w, p.cwinbits = some w ∧ (w < 0 ∨ w > 32))) := by
  rcases p with ⟨enc, comp, cl, cw, tid, rc, tgid, tgc, tgi⟩
  simp only [validate]
  by_cases h1 : (enc = [] ∨ enc = tJson ∨ enc = tProto) <;> simp only [h1, not_true, not_false_eq_true, if_true, if_false, true_or, false_or]
  by_cases h2 : (comp = [] ∨ comp = tPerMessage ∨ comp = tTakeover) <;> simp only [h2, not_true, not_false_eq_true, if_true, if_false, true_or, false_or]
  cases cl <;> cases cw <;> by_cases h3 : comp = [] <;> simp [h3, defaultLevel] <;> omega

theorem C17.validate_accepts (p p' : Params) (h : validate p = some p') :
    p' = { p with clevel := if p.comp ≠ [] ∧ p.clevel = none then some defaultLevel else p.clevel } := by
  rcases p with ⟨enc, comp, cl, cw, tid, rc, tgid, tgc, tgi⟩
  simp only [validate] at h
  split at h
  · simp at h
  · split at h
    · simp at h
    · cases cl <;> cases cw <;> by_cases h3 : comp = [] <;> simp [h3] at h ⊢ <;> (try split at h) <;> simp_all

/-- The compression configuration derived from a parameter set that names its compression type, level and
    window is a function of those parameters alone: both ends enable the same mode, level and window
    whatever their local base configuration is. -/
theorem C17.config_function_of_params (p : Params) (b1 b2 : Config)
    (hl : p.clevel ≠ none) (hw : p.cwinbits ≠ none) (hc : p.comp = tPerMessage ∨ p.comp = tTakeover) :
    effective (compressConfig p b1) = effective (compressConfig p b2) := by
  rcases p with ⟨enc, comp, cl, cw, tid, rc, tgid, tgc, tgi⟩
  cases cl with
  | none => simp at hl
  | some l =>
    cases cw with
    | none => simp at hw
    | some w =>
      simp only [compressConfig]
      rcases hc with hc | hc <;> simp only at hc <;> subst hc <;> by_cases h0 : l = 0 <;> simp [h0, effective, tPerMessage, tTakeover, ascii]

/-- every dialer of the library produces such a set (DialConfig.NegotiationParams) … -/
theorem C17.dial_names_all (c : DialConfig) :
    c.params.clevel ≠ none ∧ c.params.cwinbits ≠ none ∧ (c.params.comp = tPerMessage ∨ c.params.comp = tTakeover) := by
  simp only [DialConfig.params, Config.type]
  refine ⟨by simp, by simp, ?_⟩
  split <;> simp

/-- … and the configuration the peer derives from it is the dialer's own (when the dialer compresses at all). -/
theorem C17.dial_config_agrees (c : DialConfig) (b : Config) (he : c.compress.enable = true) (hl : c.compress.level ≠ 0) :
    effective (compressConfig c.params b) = effective c.compress := by
  rcases c with ⟨⟨en, lv, dt, wb⟩, enc, tid, rc, tgid, tgc, tgi⟩
  simp only at he hl
  subst he
  cases dt <;> simp [DialConfig.params, Config.type, compressConfig, hl, effective, tPerMessage, tTakeover, ascii]

/- non-vacuity: a concrete parameter set meets WF/Short and makes every round trip -/
example : unmarshalKV Params.zero (marshalKV ⟨tProto, tTakeover, some 6, some 15, ascii "t-1", true, ascii "g", 3, 2⟩)
    = some ⟨tProto, tTakeover, some 6, some 15, ascii "t-1", true, ascii "g", 3, 2⟩ := by decide +kernel
example : unmarshalBin Params.zero (marshalBin ⟨tProto, tTakeover, some 6, some 15, ascii "t-1", true, ascii "g", 3, 2⟩)
    = some ⟨tProto, tTakeover, some 6, some 15, ascii "t-1", true, ascii "g", 3, 2⟩ := by decide +kernel

end Iscp.Neg
