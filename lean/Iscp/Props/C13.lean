import Iscp.Model.Frame
import Iscp.Lemmas.Frame
/-!
C13 — transports keep message boundaries, bytes and order in every compression mode.

Theorems over M-Frame for every message sequence, every window size and every lawful codec.  What is modelled rather than
verified: DEFLATE (compress/flate) enters only through the round-trip contract `Codec.Lawful`; the WebSocket / QUIC libraries
deliver whole messages resp. an ordered byte stream (their contract); that one Write is one atomic step is a lock fact
(QUIC: sendMu, regenerated in Gen.LockCFG; WebSocket: the backend's writer exclusivity, exercised by the harness on the real
backends).
-/
namespace Iscp.Frame

/-- FRAMING ROUND TRIP: the reader recovers exactly the written payloads, in order, one per frame, nothing left over -/
theorem C13.framing_roundtrip (ps : List Bytes) (h : ∀ p ∈ ps, p.length < 4294967296) (fuel : Nat) (hf : ps.length < fuel) :
    deframeAll fuel (stream ps) = (ps, []) := by
  have := deframeAll_stream_append ps [] h (by simp [deframe1]) fuel hf
  simpa using this

/-- a stream cut inside a frame yields the whole messages before the cut and no invented message -/
theorem C13.framing_truncated (ps : List Bytes) (q : Bytes) (k : Nat) (h : ∀ p ∈ ps, p.length < 4294967296)
    (hq : q.length < 4294967296) (hk : k < (frame q).length) (fuel : Nat) (hf : ps.length < fuel) :
    deframeAll fuel (stream ps ++ (frame q).take k) = (ps, (frame q).take k) := by
  exact deframeAll_stream_append ps _ h (deframe1_take_frame q k hq hk) fuel hf

/-- BYTE COUNT: the stream is exactly 4 + length bytes per payload -/
theorem C13.framing_counts (ps : List Bytes) : (stream ps).length = framedBytes ps := by
  induction ps with
  | nil => simp [stream, framedBytes]
  | cons p ps ih =>
    rw [stream_cons, List.length_append, frame_length, ih]
    simp [framedBytes]

/-- COMPRESSION STAYS IN SYNC: with a lawful codec, in every mode, from equal windows, the reader decodes exactly the written
    messages in order, one wire message per message, and ends with the same window as the writer -/
theorem C13.compression_sync (c : Codec) (hc : c.Lawful) (mode : Mode) (win : Bytes) (ms : List Bytes) :
    recvAll c mode win (sendAll c mode win ms).2 = some ((sendAll c mode win ms).1, ms) ∧
    (sendAll c mode win ms).2.length = ms.length := by
  induction ms generalizing win with
  | nil => simp [sendAll, recvAll]
  | cons m ms ih =>
    cases mode with
    | off =>
      have := ih win
      simp only [sendAll, send, recvAll, recv, List.length_cons]
      simp [this.1, this.2]
    | perMessage =>
      have := ih win
      simp only [sendAll, send, recvAll, recv, List.length_cons, hc.1 [] m, Option.map_some]
      simp [this.1, this.2]
    | takeover w =>
      have := ih (trim w (win ++ m))
      have hd : c.decomp win (c.comp (writeDict win) m) = some m := by
        unfold writeDict; split
        · exact hc.2 win m
        · exact hc.1 win m
      simp only [sendAll, send, recvAll, recv, List.length_cons, hd, Option.map_some]
      simp [this.1, this.2]

/-- THE WINDOW is the last `w` bytes of everything sent so far, never longer than `w` -/
theorem C13.window_is_suffix (c : Codec) (w : Nat) (ms : List Bytes) :
    (sendAll c (.takeover w) [] ms).1 = windowOf (.takeover w) ms ∧ (sendAll c (.takeover w) [] ms).1.length ≤ w := by
  have h0 : trim w ([] : Bytes) = [] := by simp [trim]
  have h1 := sendAll_takeover_fst c w [] ms
  rw [h0, List.nil_append] at h1
  refine ⟨by simpa [windowOf] using h1, ?_⟩
  rw [h1]
  exact trim_length_le w _

/-- without context takeover no state is kept, and without compression the wire carries the message itself -/
theorem C13.stateless_modes (c : Codec) (win : Bytes) (ms : List Bytes) :
    (sendAll c .off win ms) = (win, ms) ∧ (sendAll c .perMessage win ms).1 = win ∧
    (sendAll c .perMessage win ms).2 = ms.map (c.comp []) := by
  refine ⟨?_, ?_, ?_⟩
  · induction ms with
    | nil => simp [sendAll]
    | cons m ms ih => simp [sendAll, send, ih]
  · induction ms with
    | nil => simp [sendAll]
    | cons m ms ih => simpa [sendAll, send] using ih
  · induction ms with
    | nil => simp [sendAll]
    | cons m ms ih => simpa [sendAll, send] using ih

/-- MODE SELECTION from the effective configuration -/
theorem C13.mode_selection (dt : Bool) (bits : Nat) :
    modeOf false dt bits = .off ∧ modeOf true true bits = .perMessage ∧ modeOf true false bits = .takeover (2 ^ bits) := by
  simp [modeOf]

/-- a decode error does not invent a message: if the codec rejects a wire message the reader stops there -/
theorem C13.decode_error_stops (c : Codec) (w : Nat) (win x : Bytes) (xs : List Bytes) (h : c.decomp win x = none) :
    recvAll c (.takeover w) win (x :: xs) = none := by
  simp [recvAll, recv, h]

-- the premises are satisfiable and the statements are not vacuous
example : idCodec.Lawful := ⟨fun _ _ => rfl, fun _ _ => rfl⟩
example : deframeAll 5 (stream [[1, 2, 3], [], [9]]) = ([[1, 2, 3], [], [9]], []) := by decide
example : (sendAll idCodec (.takeover 4) [] [[1, 2, 3], [4, 5, 6]]).1 = [3, 4, 5, 6] := by decide

end Iscp.Frame
