import Iscp.Model.Dgram
import Iscp.Props.C14
/-!
C13 / C14, unreliable path — message boundaries, bytes and (non-)delivery through compression + segmentation + reassembly +
decompression: for every lawful per-message codec, every payload size, every set of messages under distinct sequence numbers
and every arrival order with arbitrary losses and arrival times, the reader gets a message exactly when all its datagrams are
in, and it is the original message; never a decode error, never a partial or mixed message.  (Composition of `C14.reassembly`
with the codec contract; proofs in this file.)
-/
namespace Iscp.Dgram
open Iscp.Seg

/-- what the reader must see: like `Seg.spec`, with the application's messages in place of the compressed ones -/
def specU (appOf : Nat → Bytes) (segsOf : Nat → List Dg) : List Dg → List Dg → List Read
  | _, [] => []
  | seen, d :: rest =>
    (if (segsOf d.seq).all (fun x => decide (x ∈ d :: seen)) then Read.msg d.seq (appOf d.seq) else Read.nothing)
      :: specU appOf segsOf (d :: seen) rest

/-- decoding the receiver's specification gives the reader's specification -/
theorem map_readOf_spec (c : Codec) (hc : c.Lawful) (appOf : Nat → Bytes) (segsOf : Nat → List Dg) (l seen : List Dg) :
    (spec (fun s => c.comp (appOf s)) segsOf seen l).map (readOf c) = specU appOf segsOf seen l := by
  induction l generalizing seen with
  | nil => rfl
  | cons d rest ih =>
    simp only [spec, specU, List.map_cons, ih]
    congr 1
    split
    · simp only [readOf, hc (appOf d.seq)]
    · rfl

/-- every entry of the reader's specification is nothing or an original message -/
theorem specU_mem (appOf : Nat → Bytes) (segsOf : Nat → List Dg) (l seen : List Dg) :
    ∀ r ∈ specU appOf segsOf seen l, r = .nothing ∨ ∃ s, r = .msg s (appOf s) := by
  induction l generalizing seen with
  | nil => intro r hr; simp [specU] at hr
  | cons d rest ih =>
    intro r hr
    simp only [specU, List.mem_cons] at hr
    rcases hr with hr | hr
    · subst hr
      split
      · exact Or.inr ⟨d.seq, rfl⟩
      · exact Or.inl rfl
    · exact ih _ r hr

/-- UNRELIABLE PATH: the application reads exactly the original messages, each at the datagram that completes it -/
theorem C13.unreliable_path (c : Codec) (hc : c.Lawful) (P : Nat) (hP : 0 < P) (appOf : Nat → Bytes) (segsOf : Nat → List Dg)
    (tr : List (Nat × Dg)) (expiry : Nat)
    (g : Genuine P (fun s => c.comp (appOf s)) segsOf (tr.map (·.2))) :
    recvU c ⟨[], expiry⟩ tr = specU appOf segsOf [] (tr.map (·.2)) := by
  unfold recvU
  rw [C14.reassembly P hP (fun s => c.comp (appOf s)) segsOf tr expiry g]
  exact map_readOf_spec c hc appOf segsOf _ _

/-- never a decode error, never a message that was not sent -/
theorem C13.unreliable_no_garbage (c : Codec) (hc : c.Lawful) (P : Nat) (hP : 0 < P) (appOf : Nat → Bytes) (segsOf : Nat → List Dg)
    (tr : List (Nat × Dg)) (expiry : Nat)
    (g : Genuine P (fun s => c.comp (appOf s)) segsOf (tr.map (·.2))) :
    ∀ r ∈ recvU c ⟨[], expiry⟩ tr, r = .nothing ∨ ∃ s, r = .msg s (appOf s) := by
  rw [C13.unreliable_path c hc P hP appOf segsOf tr expiry g]
  exact specU_mem appOf segsOf _ _

/-- the sender's datagrams are what `Genuine` asks for: a message accepted by `sendU` is cut into the segments of its compressed form -/
theorem C13.sendU_segments (c : Codec) (P seq : Nat) (m : Bytes) (ds : List Dg) (h : sendU c P seq m = some ds) :
    segments P seq (c.comp m) = some ds := h

example : idCodec.Lawful := fun _ => rfl

end Iscp.Dgram
