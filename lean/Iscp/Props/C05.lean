import Iscp.Model.ConnM
import Iscp.Lemmas.ConnM
/-!
C05 — a lost transport is survived: reconnect, fresh token, every stream resumed.

Theorems over M-Conn for every event history (any number and position of transport failures, failed and successful redials,
resume answers, requests issued before, during and across outages).  The tie to iscp.Conn is the correspondence harness
go/corr/conn, which drives a real Conn against the scripted broker with the same events and compares the model's observable
state after every event.
-/
namespace Iscp.ConnM

/-- the requests issued by the application in an event history -/
def issued : List Ev → List Nat
  | [] => []
  | .request r :: es => r :: issued es
  | .requestCut r :: es => r :: issued es
  | _ :: es => issued es

/-- FRESH TOKEN: the token source is asked once per connect attempt; an attempt starts when an outage begins and whenever a
    back-off elapses while the connection is still reconnecting -/
theorem C05.token_per_attempt (evs : List Ev) :
    (run {} evs).tokens = (run {} evs).dials ∧ (run {} evs).dials = 1 + attempts {} evs := by
  have h := (inv_reach evs).i1.tok
  have hd := run_dials {} evs
  exact ⟨h, by rw [hd]⟩

/-- ONCE PER OUTAGE: disconnected notifications count the outages (plus the Close of a live connection, whose run loop ends),
    reconnected notifications the recoveries, and they alternate -/
theorem C05.events_once_per_outage (evs : List Ev) :
    (run {} evs).disc = outages {} evs + liveCloses {} evs ∧ (run {} evs).reconn = recoveries {} evs ∧
    (run {} evs).reconn ≤ (run {} evs).disc ∧ (run {} evs).disc ≤ (run {} evs).reconn + 1 ∧
    ((run {} evs).status = .connected → (run {} evs).disc = (run {} evs).reconn) ∧
    ((run {} evs).status ≠ .connected → (run {} evs).disc = (run {} evs).reconn + 1) ∧
    (run {} evs).inc = (run {} evs).reconn + 1 := by
  have h := (inv_reach evs).i1
  have hd := run_disc {} evs
  have hr := run_reconn {} evs
  have hc := h.conn
  have hn := h.nconn
  refine ⟨by rw [hd]; simp, by rw [hr]; simp, ?_, ?_, hc, hn, h.inc⟩
  · by_cases hs : (run {} evs).status = .connected
    · have := hc hs; omega
    · have := hn hs; omega
  · by_cases hs : (run {} evs).status = .connected
    · have := hc hs; omega
    · have := hn hs; omega

/-- IDENTITY: a stream keeps its stream id, direction and alias through every event; stream ids are never reused -/
theorem C05.identity_stable (evs : List Ev) (e : Ev) :
    (∀ x ∈ (run {} evs).streams, ∃ y ∈ (step (run {} evs) e).streams, y.sid = x.sid ∧ y.dir = x.dir ∧ y.streamAlias = x.streamAlias) ∧
    ((run {} evs).streams.map (·.sid)).Nodup ∧ (∀ x ∈ (run {} evs).streams, x.sid < (run {} evs).nextSid) := by
  have h := (inv_reach evs).i2
  exact ⟨step_streams_pres _ e, h.1, h.2.1⟩

/-- … and every resume request that was answered carried the stream's original id and alias -/
theorem C05.resume_under_original_identity (evs : List Ev) :
    ∀ r ∈ (run {} evs).resumes, ∃ x ∈ (run {} evs).streams, x.sid = r.2.1 ∧ x.streamAlias = r.2.2 ∧ 2 ≤ r.1 ∧ r.1 ≤ (run {} evs).inc := by
  exact (inv_reach evs).i3

/-- a successful resume re-attaches exactly that stream and notifies once -/
theorem C05.resume_ok_reattaches (s : St) (sid : Nat) (x : Stream) (hs : s.status = .connected) (hx : x ∈ s.streams)
    (hsid : x.sid = sid) (hr : x.st = .resuming) :
    { x with st := .opened, resumedEv := x.resumedEv + 1 } ∈ (step s (.resume sid .ok)).streams ∧
    (∀ y ∈ s.streams, y.sid ≠ sid → y ∈ (step s (.resume sid .ok)).streams) ∧
    (step s (.resume sid .ok)).status = .connected := by
  have hany : (s.streams.any fun y => decide (y.sid = sid) && decide (y.st = SState.resuming)) = true := by
    simp only [List.any_eq_true, Bool.and_eq_true, decide_eq_true_eq]
    exact ⟨x, hx, hsid, hr⟩
  simp only [step, hs, hany, ↓reduceIte]
  refine ⟨?_, ?_, trivial⟩
  · refine List.mem_map.2 ⟨x, hx, ?_⟩
    simp [hsid]
  · intro y hy hne
    refine List.mem_map.2 ⟨y, hy, ?_⟩
    simp [hne]

/-- REFUSAL IS LOCAL: a refused resume closes that stream with an error and a notification; the connection and every other
    stream are untouched -/
theorem C05.refusal_is_local (s : St) (sid : Nat) :
    let t := step s (.resume sid .refused)
    t.status = s.status ∧ t.inc = s.inc ∧ t.disc = s.disc ∧ t.reconn = s.reconn ∧ t.sent = s.sent ∧ t.pending = s.pending ∧
    t.streams.length = s.streams.length ∧
    (∀ y ∈ s.streams, y.sid ≠ sid → y ∈ t.streams) ∧
    (s.status = .connected → ∀ x ∈ s.streams, x.sid = sid → x.st = .resuming →
        { x with st := .closedErr, closedEv := x.closedEv + 1 } ∈ t.streams) := by
  intro t
  have key : ∀ t : St, t = step s (.resume sid .refused) →
      t.status = s.status ∧ t.inc = s.inc ∧ t.disc = s.disc ∧ t.reconn = s.reconn ∧ t.sent = s.sent ∧
      t.pending = s.pending ∧ (t.streams = s.streams ∨ (s.status = .connected ∧ t.streams = updStream sid (closeOne true) s.streams)) ∧
      (s.status = .connected → (∃ x ∈ s.streams, x.sid = sid ∧ x.st = .resuming) →
        t.streams = updStream sid (closeOne true) s.streams) := by
    intro t ht
    subst ht
    cases hst : s.status <;> simp only [step, hst]
    · split
      · simp
      · next hany =>
        simp only [List.any_eq_true, Bool.and_eq_true, decide_eq_true_eq] at hany
        simp only [hst, true_and, true_or]
        intro _ hex
        exact absurd hex hany
    · simp
    · simp
  obtain ⟨k1, k2, k3, k4, k5, k6, k7, k8⟩ := key t rfl
  refine ⟨k1, k2, k3, k4, k5, k6, ?_, ?_, ?_⟩
  · rcases k7 with h | ⟨_, h⟩ <;> rw [h]
    simp [updStream]
  · intro y hy hne
    rcases k7 with h | ⟨_, h⟩ <;> rw [h]
    · exact hy
    · refine List.mem_map.2 ⟨y, hy, ?_⟩
      simp [hne]
  · intro hc x hx hxs hxr
    rw [k8 hc ⟨x, hx, hxs, hxr⟩]
    refine List.mem_map.2 ⟨x, hx, ?_⟩
    simp [hxs, closeOne, live, hxr]

/-- NEVER SILENTLY DETACHED: in every reachable state a stream is attached, waiting for its resume, closed with exactly one
    closed notification, or ended together with the connection; waiting streams exist only while the connection lives, an
    error-closed stream presupposes a failure, and a stream ends silently only through the connection's own Close -/
theorem C05.no_silent_detach (evs : List Ev) :
    ∀ x ∈ (run {} evs).streams,
      (x.st = .opened ∨ x.st = .resuming ∨ x.st = .closedConn → x.closedEv = 0) ∧
      (x.st = .closedOk ∨ x.st = .closedErr → x.closedEv = 1) ∧
      (x.st = .opened → (run {} evs).status = .connected) ∧
      (x.st = .resuming → (run {} evs).status ≠ .closed) ∧
      (x.st = .closedErr → 1 ≤ (run {} evs).disc) ∧
      (x.st = .closedConn → (run {} evs).status = .closed) := by
  intro x hx
  obtain ⟨h1, h2, h3, h4, h5, h6, _⟩ := (inv_reach evs).i2.2.2 x hx
  exact ⟨h1, h2, h3, h4, h5, h6⟩

theorem issued_eq_flatMap (evs : List Ev) : issued evs = evs.flatMap reqOf := by
  induction evs with
  | nil => rfl
  | cons e es ih => cases e <;> simp [issued, reqOf, ih]

/-- REQUESTS ARE NOT LOST: every request issued so far has reached the broker, waits for recovery, or was failed — exactly one of
    the three; requests fail only because the connection was closed; nothing waits while the connection is up -/
theorem C05.requests_not_lost (evs : List Ev) :
    ((run {} evs).sent.map (·.2) ++ (run {} evs).pending ++ (run {} evs).failed).Perm (issued evs) ∧
    ((run {} evs).status ≠ .closed → (run {} evs).failed = []) ∧
    ((run {} evs).status ≠ .reconnecting → (run {} evs).pending = []) := by
  have h := (inv_reach evs).i1
  have hp := run_perm {} evs
  rw [← issued_eq_flatMap] at hp
  exact ⟨by simpa using hp, h.failed, h.pend⟩

-- STATEMENT CHANGED: the original statement was
--   theorem C05.recovery_flushes_pending (s : St) (h : s.status = .reconnecting) :
--       (step s (.dial true)).sent = s.sent ++ s.pending.map (fun r => (s.inc + 1, r)) ∧ (step s (.dial true)).pending = [] ∧
--       (step s (.dial true)).status = .connected
-- It is false in the model with attempts: a dial outcome only counts while an attempt is in progress.  Counterexample:
-- s = run {} [.kill, .request 7, .dial false] is reconnecting with attempting = false and pending = [7]; `.dial true` leaves it
-- unchanged (pending = [7], status = reconnecting) — checked by the `example` below.  The true variant asks for an attempt in
-- progress.
/-- … and a recovery (the attempt in progress succeeds) sends everything that waited, in order, on the new transport -/
theorem C05.recovery_flushes_pending (s : St) (h : s.status = .reconnecting) (ha : s.attempting = true) :
    (step s (.dial true)).sent = s.sent ++ s.pending.map (fun r => (s.inc + 1, r)) ∧ (step s (.dial true)).pending = [] ∧
    (step s (.dial true)).status = .connected := by
  simp [step, h, ha]

-- the counterexample to the original statement of C05.recovery_flushes_pending
example : let s := run {} [.kill, .request 7, .dial false]
    s.status = .reconnecting ∧ s.attempting = false ∧ (step s (.dial true)).pending = [7] ∧
    (step s (.dial true)).status = .reconnecting ∧ (step s (.dial true)).sent = [] := by decide

-- non-vacuity: a history with a failed redial, a recovery, one resume answered and one refused
example : let s := run {} [.openStream .up, .openStream .down, .kill, .request 7, .dial false, .backoff, .dial true, .resume 1 .ok, .resume 2 .refused]
    s.status = .connected ∧ s.tokens = 3 ∧ s.disc = 1 ∧ s.reconn = 1 ∧ s.sent = [(2, 7)] ∧
    s.streams.map (fun x => (x.sid, x.st, x.resumedEv, x.closedEv)) = [(1, .opened, 1, 0), (2, .closedErr, 0, 1)] := by decide

end Iscp.ConnM
