import Iscp.Model.Conv
import Iscp.Gen.Enums
/-
C11 — Every message survives encode/decode in both encodings, field by field.

Decided here by proof: (1) the mapping between the library's result codes / QoS values and the wire enumerations — the tables
are REGENERATED from message/, the vendored protobuf package and the four switch statements of encoding/convert on every run
(Iscp.Gen.Enums), and the theorems are re-checked by the kernel over the complete enumerations; (2) the scalar conversions and
the canonical form they induce.  The per-message plumbing (27 message kinds x fields x both carriers) is covered by the
reflection-driven round-trip harness go/corr/codec on the real codecs (every kind, every oneof variant, every enum value,
present / absent extension fields; protobuf and JSON; byte counts), which is validation by execution, not proof — stated so in
DESIGN.md.
-/
namespace Iscp.Conv
open Iscp.Gen.Enums

/-- TOTAL, library → wire: every library result code and every QoS value has a wire value -/
theorem C11.enum_total_to_wire :
    (∀ c ∈ libResultCodes, (lookup rcToWire c.2).isSome) ∧ (∀ q ∈ libQoS, (lookup qosToWire q.2).isSome) := by decide

/-- TOTAL, wire → library: every wire enumeration value maps back -/
theorem C11.enum_total_to_lib :
    (∀ c ∈ wireResultCodes, (lookup rcToLib c.2).isSome) ∧ (∀ q ∈ wireQoS, (lookup qosToLib q.2).isSome) := by decide

/-- the canonical form of a result code: the wire itself aliases NORMAL_CLOSURE and SUCCEEDED (both 0) -/
def canonRC (c : Int) : Int := if c = 2 then 1 else c

/-- ROUND TRIP: decoding the encoding of a result code / QoS value gives it back, up to the wire's own aliasing -/
theorem C11.enum_roundtrip :
    (∀ c ∈ libResultCodes, (lookup rcToWire c.2).bind (lookup rcToLib) = some (canonRC c.2)) ∧
    (∀ q ∈ libQoS, (lookup qosToWire q.2).bind (lookup qosToLib) = some q.2) := by decide

/-- the tables only relate existing enumeration values, and distinct canonical codes get distinct wire values -/
theorem C11.enum_tables_sound :
    (∀ p ∈ rcToWire, (libResultCodes.map (·.2)).contains p.1 ∧ (wireResultCodes.map (·.2)).contains p.2) ∧
    (∀ p ∈ rcToLib, (wireResultCodes.map (·.2)).contains p.1 ∧ (libResultCodes.map (·.2)).contains p.2) ∧
    (∀ p ∈ rcToWire, ∀ q ∈ rcToWire, p.2 = q.2 → canonRC p.1 = canonRC q.1) := by decide

/-- DURATIONS: a field at second (millisecond) resolution that fits its unsigned 32-bit wire field round-trips to its canonical
    form (truncated to the wire resolution, never more than one unit below); canonical values are fixed points -/
theorem C11.duration_roundtrip (d : Nat) :
    (fitsS d → durFromWireS (durToWireS d) = canonS d) ∧ canonS (canonS d) = canonS d ∧ canonS d ≤ d ∧ d < canonS d + nsPerS ∧
    (fitsMs d → durFromWireMs (durToWireMs d) = canonMs d) ∧ canonMs (canonMs d) = canonMs d ∧ canonMs d ≤ d ∧ d < canonMs d + nsPerMs := by
  refine ⟨?_, ?_, ?_, ?_, ?_, ?_, ?_, ?_⟩ <;>
    simp only [fitsS, fitsMs, canonS, canonMs, durFromWireS, durToWireS, durFromWireMs, durToWireMs, nsPerS, nsPerMs] <;> omega

/-- whole seconds (milliseconds) within the wire range are canonical: they survive unchanged -/
theorem C11.duration_exact (s : Nat) (h : s < 4294967296) :
    durFromWireS (durToWireS (s * nsPerS)) = s * nsPerS ∧ durFromWireMs (durToWireMs (s * nsPerMs)) = s * nsPerMs := by
  simp only [durFromWireS, durToWireS, durFromWireMs, durToWireMs, nsPerS, nsPerMs]; omega

/-- the guard is needed: one millisecond past the range wraps to zero (the real converter does the same, see harness op `durms`) -/
theorem C11.duration_guard_needed : ¬ fitsMs (4294967296 * nsPerMs) ∧ durFromWireMs (durToWireMs (4294967296 * nsPerMs)) = 0 := by decide

example : fitsS 4294967295000000000 ∧ fitsMs 4000000000000000 := by decide

/-- ELAPSED TIMES: every value a `time.Duration` can hold - negative ones included - is canonical for a data point's elapsed
    time: it survives unchanged (harness op `elapsed`; the message generator draws signed and extreme values) -/
theorem C11.elapsed_roundtrip (d : Int) (h : fitsI64 d) : elapsedFromWire (elapsedToWire d) = d := by
  simp only [fitsI64, elapsedFromWire, elapsedToWire, wrap64] at *; omega

example : fitsI64 (-5) ∧ elapsedFromWire (elapsedToWire (-5)) = -5 := by
  simp only [fitsI64, elapsedFromWire, elapsedToWire, wrap64]; omega

/-- the codec wrappers recover: EncodeTo / DecodeFrom of both encodings start with a deferred recover that assigns the error result (regenerated fact) -/
theorem C11.wrappers_recover :
    wrappers.length = 4 ∧ ∀ w ∈ wrappers, w.firstIsDeferredRecover = true ∧ w.assignsNamedError = true ∧ w.hasGoStmt = false := by decide

example : lookup rcToWire 30 = some 88 ∧ lookup rcToLib 88 = some 30 := by decide

end Iscp.Conv
