import Iscp.Lemmas.Lock
import Iscp.Gen.Guarded
/-!
C13, writer atomicity — the lock facts the message-level model relies on ("one Write is one atomic step"), regenerated from the
source on every run (`Iscp.Gen.Guarded`, same checker as C08 / C09):

* QUIC and WebTransport: the send stream is only ever touched with `sendMu` held, so the length prefix and the payload of one
  message are written without another writer in between;
* WebSocket: the write and the read dictionary are only touched under their mutexes, so one message is compressed against, and
  appended to, a dictionary no other writer changes meanwhile.  (That the frames of one message are not interleaved with another
  writer's is the connection's job: coder / nhooyr lock the message writer, the gorilla wrapper does since f5f39b1; the harness
  exercises all three with concurrent writers.)
-/
namespace Iscp.Lock
open Iscp.Gen.Guarded

/-- the four locations are among the guarded ones (a renamed or removed field would make this fail, not silently pass) -/
theorem C13.writer_state_is_guarded :
    locNames.contains "quic.Transport.sendStream" = true ∧ locNames.contains "webtransport.Transport.sendStream" = true ∧
    locNames.contains "websocket.Transport.writeWindowBuf" = true ∧ locNames.contains "websocket.Transport.readWindowBuf" = true ∧
    lockNames.contains "quic.Transport.sendMu" = true ∧ lockNames.contains "webtransport.Transport.sendMu" = true ∧
    lockNames.contains "websocket.Transport.writeWindowBufMu" = true ∧ lockNames.contains "websocket.Transport.readWindowBufMu" = true := by
  decide

/-- every function of the library passes the guarded-access check: on every path each access to a guarded location is made
    with its lock held -/
theorem C13.writer_atomic : fns.all checkFn = true := all_ok

end Iscp.Lock
