import Iscp.Model.Seg
/- Specification-side definitions for C14 (what the receiver must output), kept apart from the
   executable model of the code.  Core Lean only. -/
namespace Iscp.Seg

/-- The specification of the receiver: walking the arrival list, a message is handed up exactly at the
    datagram that makes all segments of its sequence number present, and it is the original message. -/
def spec (msgOf : Nat → Bytes) (segsOf : Nat → List Dg) : List Dg → List Dg → List RecvOut
  | _, [] => []
  | seen, d :: rest =>
    (if (segsOf d.seq).all (fun x => decide (x ∈ d :: seen)) then RecvOut.msg d.seq (msgOf d.seq) else RecvOut.none)
      :: spec msgOf segsOf (d :: seen) rest

/-- arrivals are genuine: segments of the sender's messages, no duplicates. -/
structure Genuine (P : Nat) (msgOf : Nat → Bytes) (segsOf : Nat → List Dg) (tr : List Dg) : Prop where
  segs : ∀ s, s ∈ tr.map (·.seq) → segments P s (msgOf s) = some (segsOf s)
  mem : ∀ d ∈ tr, d ∈ segsOf d.seq
  nodup : tr.Nodup

/-- run the receiver over a list of parsed datagrams with arbitrary arrival times. -/
def runDg (rb : RB) : List (Nat × Dg) → List RecvOut
  | [] => []
  | (now, d) :: rest => let r := rb.receiveDg now d; r.2 :: runDg r.1 rest

/-- run the receiver over raw datagram bytes (what the transport's read loop hands to `Receive`) -/
def runBytes (rb : RB) : List (Nat × Bytes) → List RecvOut
  | [] => []
  | (now, bs) :: rest => let r := rb.receive now bs; r.2 :: runBytes r.1 rest


end Iscp.Seg
