/-
M-Lock — abstract lock programs and a certificate checker.

The extractor (go/extract, topic LockCFG) turns the control-flow graph of every function of /repo that touches a
mutex into a `Fn`: blocks of abstract operations (lock / unlock / deferred unlock / cond.Wait / access to a guarded
field / call of a helper that expects locks held) with successor edges, plus a *certificate*: the multiset of locks
held and the deferred unlocks at the entry of every block.  `checkFn` verifies the certificate is inductive; the
soundness theorem (Props/C08) says that on EVERY entry→exit path every operation is legal and the function ends
with every lock released.
-/
namespace Iscp.Lock

inductive Mode | w | r
deriving DecidableEq, Repr

abbrev Held := List (Nat × Mode)      -- multiset of (lock token, mode), kept sorted by `insertH`

inductive Op
  | lock (m : Nat) (k : Mode)
  | unlock (m : Nat) (k : Mode)
  | deferUnlock (m : Nat) (k : Mode)
  | wait (m : Nat)                                -- sync.Cond.Wait on the cond whose L is lock m
  | acc (x : Nat) (write : Bool) (g : Nat)        -- access to guarded location x whose guard is lock g
  | call (req : List (Nat × Mode))                -- call of a helper that must be entered with these locks held
  | other
deriving DecidableEq, Repr

inductive Exit | none | ret | panic
deriving DecidableEq, Repr

structure Block where
  ops : List Op
  succs : List Nat
  exit : Exit
deriving Repr

structure St where
  held : Held
  deferred : Held
deriving DecidableEq, Repr

structure Fn where
  name : String
  entry : Held                 -- locks the function expects to be held by its caller (helpers "…WithoutLock")
  blocks : List Block
  cert : List St               -- state at the entry of each block
deriving Repr

def leKM (a b : Nat × Mode) : Bool :=
  a.1 < b.1 || (a.1 == b.1 && (match a.2, b.2 with | .w, _ => true | .r, .r => true | .r, .w => false))

def insertH (e : Nat × Mode) : Held → Held
  | [] => [e]
  | x :: r => if leKM e x then e :: x :: r else x :: insertH e r

def eraseH (e : Nat × Mode) : Held → Option Held
  | [] => none
  | x :: r => if x = e then some r else (eraseH e r).map (x :: ·)

def holdsW (h : Held) (m : Nat) : Bool := h.contains (m, .w)
def holdsAny (h : Held) (m : Nat) : Bool := h.any (·.1 == m)

/-- one abstract operation; `none` = illegal (self-deadlock, unlock of an unheld lock, Wait / guarded access / helper
    call without the required lock) -/
def execOp (s : St) : Op → Option St
  | .lock m .w => if holdsAny s.held m then none else some { s with held := insertH (m, .w) s.held }
  | .lock m .r => if holdsW s.held m then none else some { s with held := insertH (m, .r) s.held }
  | .unlock m k => (eraseH (m, k) s.held).map fun h => { s with held := h }
  | .deferUnlock m k => some { s with deferred := insertH (m, k) s.deferred }
  | .wait m => if holdsW s.held m then some s else none
  | .acc _ true g => if holdsW s.held g then some s else none
  | .acc _ false g => if holdsAny s.held g then some s else none
  | .call req => if req.all (fun e => match e.2 with | .w => holdsW s.held e.1 | .r => holdsAny s.held e.1) then some s else none
  | .other => some s

def execOps : St → List Op → Option St
  | s, [] => some s
  | s, o :: r => match execOp s o with
    | some s' => execOps s' r
    | none => none

/-- at an exit every held lock is exactly covered by a deferred unlock (and vice versa), up to the locks the caller owns -/
def exitOk (entry : Held) (s : St) : Bool :=
  s.held = entry.foldr insertH s.deferred

def checkBlock (f : Fn) (i : Nat) (b : Block) : Bool :=
  match f.cert[i]? with
  | none => false
  | some s0 =>
    match execOps s0 b.ops with
    | none => false
    | some s1 =>
      b.succs.all (fun j => f.cert[j]? == some s1) &&
      (match b.exit with
       | .none => true
       | .ret => exitOk f.entry s1
       | .panic => exitOk f.entry s1)

def checkFn (f : Fn) : Bool :=
  f.cert.length == f.blocks.length &&
  f.cert[0]? == some ⟨f.entry.foldr insertH [], []⟩ &&
  (List.range f.blocks.length).all (fun i => match f.blocks[i]? with | some b => checkBlock f i b | none => false)

/-- a path through the CFG: block indices, consecutive ones linked by a successor edge -/
def isPath (f : Fn) : List Nat → Bool
  | [] => true
  | [i] => i < f.blocks.length
  | i :: j :: r => (match f.blocks[i]? with | some b => b.succs.contains j | none => false) && isPath f (j :: r)

/-- run all operations along a path -/
def runPath (f : Fn) : St → List Nat → Option St
  | s, [] => some s
  | s, i :: r => match f.blocks[i]? with
    | none => none
    | some b => match execOps s b.ops with
      | some s' => runPath f s' r
      | none => none

end Iscp.Lock
