/-
M-Conn — the connection lifecycle of iscp.Conn as an event machine (C05, C10).

State: the connection status (iscp/state.go), the number of transport incarnations, dial attempts and token-source calls
(iscp/conn_options.go connectWire), the open streams of both directions with their identity (stream id, alias), the API
requests that wait for recovery (Conn.send), what reached the broker per incarnation, and the notifications delivered.

Events: what the application does (open a stream, issue a request, close a stream, Close) and what the environment does (the
transport fails, a redial fails or succeeds, the broker answers / refuses / never answers a resume request).

Modelled, not verified: goroutine scheduling between the run loop, the per-stream supervisors and the callers is collapsed to
the order of events; timers (keepalive detection, redial back-off) are events.
-/
namespace Iscp.ConnM

inductive Status where
  | connected | reconnecting | closed
deriving Repr, DecidableEq

inductive Dir where
  | up | down
deriving Repr, DecidableEq

inductive SState where
  | opened            -- attached to the current transport
  | resuming          -- waits for / performs its resume on the next transport
  | closedOk          -- closed by the application (stream Close), notified
  | closedErr         -- closed with an error (resume refused or cut), notified
  | closedConn        -- ended by the connection's Close (no stream notification: the connection's own is the notice)
deriving Repr, DecidableEq

structure Stream where
  sid : Nat
  dir : Dir
  streamAlias : Nat
  st : SState := .opened
  resumedEv : Nat := 0       -- resumed notifications delivered
  closedEv : Nat := 0        -- closed notifications delivered
deriving Repr, DecidableEq

inductive ResumeAnswer where
  | ok | refused
deriving Repr, DecidableEq

inductive Ev where
  | openStream (dir : Dir)
  | request (r : Nat)                 -- open / metadata / call request issued by the application (id r)
  | requestCut (r : Nat)              -- … whose exchange is interrupted by a transport failure
  | kill                              -- the transport fails (every resume exchange still unanswered is cut with it)
  | dial (ok : Bool)                  -- the outcome of the redial attempt in progress
  | backoff                           -- the back-off after a failed attempt has elapsed: the next attempt starts
  | resume (sid : Nat) (a : ResumeAnswer)
  | closeStream (sid : Nat)
  | close
deriving Repr, DecidableEq

structure St where
  status : Status := .connected
  attempting : Bool := false           -- a redial attempt is in progress (token fetched, dial under way)
  inc : Nat := 1                       -- transports established so far
  dials : Nat := 1                     -- connect attempts started so far
  tokens : Nat := 1                    -- token source calls so far
  nextSid : Nat := 1
  streams : List Stream := []
  pending : List Nat := []             -- requests waiting for recovery, oldest first
  pendingOpens : List Dir := []        -- stream opens waiting for recovery, oldest first
  sent : List (Nat × Nat) := []        -- (incarnation, request) that reached the broker, oldest first
  resumes : List (Nat × Nat × Nat) := []  -- (incarnation, stream id, alias) resume requests answered ok
  failed : List Nat := []              -- requests that returned an error to the caller
  disc : Nat := 0                      -- disconnected notifications
  reconn : Nat := 0                    -- reconnected notifications
  disconnectSent : Nat := 0            -- Disconnect messages
  wireAfterClose : Nat := 0            -- messages other than pings sent after the Disconnect
deriving Repr

def live (s : Stream) : Bool := s.st = .opened || s.st = .resuming

def closeOne (err : Bool) (x : Stream) : Stream :=
  if live x then { x with st := if err then .closedErr else .closedOk, closedEv := x.closedEv + 1 } else x

/-- the connection is closed under a live stream: the stream ends without a notification of its own -/
def endWithConn (x : Stream) : Stream := if live x then { x with st := .closedConn } else x

/-- the transport is lost: every attached stream waits for its resume on the next transport; a stream whose resume exchange was
    still unanswered on this transport has that exchange cut and is closed with an error -/
def detach (s : Stream) : Stream :=
  match s.st with
  | .opened => { s with st := .resuming }
  | .resuming => closeOne true s
  | _ => s

def loseTransport (s : St) : St :=
  match s.status with
  | .connected => { s with status := .reconnecting, disc := s.disc + 1, streams := s.streams.map detach,
                            attempting := true, dials := s.dials + 1, tokens := s.tokens + 1 }   -- the first redial attempt starts at once
  | _ => s

/-- streams opened by the requests that waited for the recovery -/
def openPending (next : Nat) : List Dir → List Stream
  | [] => []
  | d :: ds => { sid := next, dir := d, streamAlias := next } :: openPending (next + 1) ds

def updStream (sid : Nat) (f : Stream → Stream) (l : List Stream) : List Stream :=
  l.map (fun x => if x.sid = sid then f x else x)

def step (s : St) : Ev → St
  | .openStream d =>
    match s.status with
    | .connected =>
      { s with nextSid := s.nextSid + 1,
               streams := s.streams ++ [{ sid := s.nextSid, dir := d, streamAlias := s.nextSid }] }
    | .reconnecting => { s with pendingOpens := s.pendingOpens ++ [d] }
    | .closed => s
  | .request r =>
    match s.status with
    | .connected => { s with sent := s.sent ++ [(s.inc, r)] }
    | .reconnecting => { s with pending := s.pending ++ [r] }
    | .closed => { s with failed := s.failed ++ [r] }
  | .requestCut r =>
    match s.status with
    | .connected => { loseTransport s with pending := s.pending ++ [r] }
    | .reconnecting => { s with pending := s.pending ++ [r] }
    | .closed => { s with failed := s.failed ++ [r] }
  | .kill => loseTransport s
  | .dial ok =>
    match s.status with
    | .reconnecting =>
      if s.attempting then
        if ok then
          { s with status := .connected, attempting := false, inc := s.inc + 1, reconn := s.reconn + 1,
                   sent := s.sent ++ s.pending.map (fun r => (s.inc + 1, r)), pending := [],
                   streams := s.streams ++ openPending s.nextSid s.pendingOpens, nextSid := s.nextSid + s.pendingOpens.length,
                   pendingOpens := [] }
        else { s with attempting := false }   -- the attempt failed: the client backs off
      else s
    | _ => s
  | .backoff =>
    match s.status with
    | .reconnecting =>
      if s.attempting then s else { s with attempting := true, dials := s.dials + 1, tokens := s.tokens + 1 }
    | _ => s
  | .resume sid a =>
    match s.status with
    | .connected =>
      if s.streams.any (fun x => x.sid = sid && x.st = .resuming) then
        match a with
        | .ok => { s with streams := updStream sid (fun x => { x with st := .opened, resumedEv := x.resumedEv + 1 }) s.streams,
                          resumes := s.resumes ++ (s.streams.filter (fun x => x.sid = sid)).map (fun x => (s.inc, x.sid, x.streamAlias)) }
        | .refused => { s with streams := updStream sid (closeOne true) s.streams }
      else s
    | _ => s
  | .closeStream sid =>
    match s.status with
    | .closed => s
    | _ => { s with streams := updStream sid (closeOne false) s.streams }
  | .close =>
    match s.status with
    | .closed => s
    | st => { s with status := .closed, streams := s.streams.map endWithConn, failed := s.failed ++ s.pending, pending := [],
                     pendingOpens := [], attempting := false, disconnectSent := s.disconnectSent + 1,
                     disc := if st = .connected then s.disc + 1 else s.disc }   -- the run loop of a live connection ends: disconnected

def run (s : St) (evs : List Ev) : St := evs.foldl step s

/-- outages begun so far in an event history (what `disc` should count) -/
def outages : St → List Ev → Nat
  | _, [] => 0
  | s, e :: es => (if s.status = .connected ∧ (step s e).status = .reconnecting then 1 else 0) + outages (step s e) es

/-- Close calls that ended a live (connected) connection: its run loop ends, which is reported as a disconnection too -/
def liveCloses : St → List Ev → Nat
  | _, [] => 0
  | s, e :: es => (if s.status = .connected ∧ e = .close then 1 else 0) + liveCloses (step s e) es

/-- successful recoveries in an event history (what `reconn` should count) -/
def recoveries : St → List Ev → Nat
  | _, [] => 0
  | s, e :: es => (if s.status = .reconnecting ∧ (step s e).status = .connected then 1 else 0) + recoveries (step s e) es

/-- redial attempts started in an event history: one when an outage begins, one more whenever a back-off elapses while the
    connection is still reconnecting and no attempt is in progress -/
def attempts : St → List Ev → Nat
  | _, [] => 0
  | s, e :: es =>
    (if s.status = .connected ∧ (step s e).status = .reconnecting then 1 else 0) +
    (match e with | .backoff => if s.status = .reconnecting ∧ s.attempting = false then 1 else 0 | _ => 0) + attempts (step s e) es

end Iscp.ConnM
