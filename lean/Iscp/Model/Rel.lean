import Iscp.Model.Up
/-
M-Rel — the upstream across transport failures (iscp/upstream.go run/resume, iscp/conn.go supervisor):
what a disconnect and a resume do to the state of M-Up.

disconnect: the stream's run() ends; flushLoop's exit path cuts whatever is buffered into one more chunk (stored, its
  transmission fails); every per-chunk waiter is cancelled — cancellation does NOT remove the chunk from the store.
resume (success, same stream id): a reliable stream retransmits every stored chunk under its original sequence number with the
  stored content (alias substitution with the table as it is now) and re-registers a waiter for each; a non-reliable stream
  clears its own stored chunks.
-/
namespace Iscp.Rel
open Iscp Iscp.Up

structure St where
  up : Up.St := {}
  reliable : Bool := true
  resent : List Chunk := []          -- every retransmitted chunk, in retransmission order (per resume: ascending sequence numbers)
  resumes : Nat := 0
deriving Repr

def sortBySeq (m : List (Nat × Groups)) : List (Nat × Groups) :=
  m.foldl (fun acc x => (acc.filter (·.1 ≤ x.1)) ++ [x] ++ (acc.filter (·.1 > x.1))) []

def groupsToBuf (gs : Groups) : List (DataID × List Point) := gs.map fun g => (g.id, g.points)

def disconnect (s : St) : St :=
  let u := cut s.up
  { s with up := { u with waiters := [] } }

def resendOf (rev : List (DataID × Nat)) (e : Nat × Groups) : Chunk :=
  let (wg, ids) := toWire rev (groupsToBuf e.2)
  ⟨e.1, wg, ids⟩

def resume (s : St) : St :=
  if s.reliable then
    let stored := sortBySeq s.up.store
    { s with resent := s.resent ++ stored.map (resendOf s.up.rev), up := { s.up with waiters := stored.map (·.1) }, resumes := s.resumes + 1 }
  else
    { s with up := { s.up with store := [], waiters := [] }, resumes := s.resumes + 1 }

inductive Ev
  | up (e : Up.Ev)
  | disconnect
  | resume
deriving Repr

def step (s : St) : Ev → St
  | .up e => { s with up := Up.step s.up e }
  | .disconnect => disconnect s
  | .resume => resume s

def run (s : St) (evs : List Ev) : St := evs.foldl step s

end Iscp.Rel
