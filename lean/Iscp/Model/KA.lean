/-
M-KA — discrete-time model (milliseconds) of wire/client_conn.go keepAliveLoop + sendPing:
a ping is sent, the loop waits for its pong at most `T`; on timeout (or error) the connection is closed; otherwise the loop waits
for the next tick of a ticker of period `I` started with the loop (a tick that fired while the pong was awaited is buffered,
so the next ping goes out at once), and pings again.  The adversary chooses the delay of every pong (`none` = never).
-/
namespace Iscp.KA

structure Cfg where
  I : Nat      -- ping interval
  T : Nat      -- ping timeout
deriving Repr

/-- when the next ping is sent after the previous one completed at `done`, `L` being the time of the last consumed tick -/
def nextPing (c : Cfg) (done L : Nat) : Nat :=
  if done / c.I > L / c.I then done else (done / c.I + 1) * c.I

inductive Res
  | alive (pings : Nat) (lastPong : Nat)              -- all scripted pongs consumed, connection still up
  | closed (atT : Nat) (pings : Nat) (lastPong : Nat)  -- closed at time `atT` after sending `pings` pings
deriving DecidableEq, Repr

/-- run the loop: `t` = send time of the next ping, `L` = last consumed tick, `n` pings sent so far, `lp` = arrival time of the
    last pong accepted so far (0 = start) -/
def sim (c : Cfg) : List (Option Nat) → Nat → Nat → Nat → Nat → Res
  | [], _, _, n, lp => .alive n lp
  | d :: r, t, L, n, lp =>
    match d with
    | some x =>
      if x < c.T then
        let done := t + x
        let t' := nextPing c done L
        sim c r t' ((t' / c.I) * c.I) (n + 1) done
      else .closed (t + c.T) (n + 1) lp
    | none => .closed (t + c.T) (n + 1) lp

/-- the loop starts at time 0 with an immediate first ping -/
def run (c : Cfg) (delays : List (Option Nat)) : Res := sim c delays 0 0 0 0

/-- readPingLoop: every ping of the broker is answered by a pong with the same request id -/
def pongFor (pingId : Nat) : Nat := pingId

/-- the seconds announced in the connect request for a configured duration in ms (0 = use the default) -/
def announced (configuredMs defaultMs : Nat) : Nat := (if configuredMs = 0 then defaultMs else configuredMs) / 1000

end Iscp.KA
