import Iscp.Model.Data
/-
M-Rec — executable model of transport/reconnect/transport.go: successive incarnations of the underlying
transport with their write logs, the single write loop that retries the *same* request after a redial, the read
loop that redials on error and filters control pings, the shared `reconnect` with its attempt budget and
handshake read, Close, and what happens once the budget is exhausted.

Adversary: which underlying writes/reads fail (`failW`, `failR`), the outcome of every redial attempt (`script`).
Assumption (stated in C18): an underlying Write that returns an error did not deliver.
-/
namespace Iscp.Rec
open Iscp

inductive Dial | ok | fail | badHandshake
deriving DecidableEq, Repr

structure St where
  budget : Nat := 3
  inc : Nat := 0                               -- index of the current incarnation
  logs : List (Nat × List Bytes) := []         -- incarnation ↦ messages it accepted, in order
  failW : Bool := false                        -- writes on the current incarnation fail from now on
  script : List Dial := []                     -- outcomes of the next redial attempts (then: ok)
  dials : List Bool := [false]                 -- reconnect flag of every dial attempt so far (first dial: false)
  rq : List Bytes := []                        -- taken from an incarnation by the read loop, not yet returned by Read
  closed : Bool := false                       -- Close was called
  dead : Bool := false                         -- the redial budget was exhausted
deriving Repr

def pingMsg : Bytes := [112, 105, 110, 103]
def pongMsg : Bytes := [112, 111, 110, 103]

/-- `reconnect`: up to `budget` attempts, each consuming one scripted outcome; success = new incarnation -/
def redial : Nat → St → St
  | 0, s => { s with dead := true }
  | n + 1, s =>
    let (o, rest) := match s.script with
      | [] => (Dial.ok, [])
      | o :: r => (o, r)
    let s1 := { s with script := rest, dials := s.dials ++ [true] }
    match o with
    | .ok => { s1 with inc := s1.inc + 1, failW := false }   -- messages the read loop already took stay queued for Read
    | _ => redial n s1

def reconnect (s : St) : St := redial s.budget s

inductive Out
  | ok | err
  | wrote (inc : Nat)
  | msg (bs : Bytes)
  | state (inc : Nat) | deadState
deriving DecidableEq, Repr

def logTo (s : St) (bs : Bytes) : St :=
  { s with logs := alPut s.inc ((alGet s.inc s.logs).getD [] ++ [bs]) s.logs }

/-- the write loop serving one request (fuel: one retry suffices, a fresh incarnation accepts writes) -/
def write (s : St) (bs : Bytes) : St × Out :=
  if s.closed ∨ s.dead then (s, .err)
  else if s.failW then
    let s' := reconnect s
    if s'.dead then (s', .err) else (logTo s' bs, .wrote s'.inc)
  else (logTo s bs, .wrote s.inc)

/-- the current incarnation's Read fails: the read loop redials -/
def failRead (s : St) : St × Out :=
  if s.closed ∨ s.dead then (s, .deadState)
  else
    let s' := reconnect s
    if s'.dead then (s', .deadState) else (s', .state s'.inc)

/-- a message arrives on the current incarnation: control pings are answered with a pong and filtered out -/
def deliver (s : St) (bs : Bytes) : St × Out :=
  if s.closed ∨ s.dead then (s, .ok)
  else if bs = pingMsg then write s pongMsg
  else ({ s with rq := s.rq ++ [bs] }, .ok)

def read (s : St) : St × Out :=
  if s.closed ∨ s.dead then (s, .err)
  else match s.rq with
    | [] => (s, .err)         -- (the harness never reads an empty live queue; a blocked Read is not an output)
    | b :: r => ({ s with rq := r }, .msg b)

def close (s : St) : St := { s with closed := true }

inductive Ev
  | write (bs : Bytes) | failW | failR | script (l : List Dial) | deliver (bs : Bytes) | read | close
deriving Repr

def step (s : St) : Ev → St × Out
  | .write bs => write s bs
  | .failW => ({ s with failW := true }, .ok)
  | .failR => failRead s
  | .script l => ({ s with script := l }, .ok)
  | .deliver bs => deliver s bs
  | .read => read s
  | .close => (close s, .ok)

def run (s : St) : List Ev → St × List Out
  | [] => (s, [])
  | e :: r => let (s', o) := step s e; let (s'', os) := run s' r; (s'', o :: os)

/-- all messages accepted so far, incarnation by incarnation -/
def allLogged (s : St) : List Bytes := ((List.range (s.inc + 1)).map fun i => (alGet i s.logs).getD []).flatten

end Iscp.Rec
