import Iscp.Model.Data
/-
M-Rec — executable model of transport/reconnect/transport.go: successive incarnations of the underlying
transport with their write logs, the single write loop that retries the *same* request after every redial (as often
as the fresh connection's write fails again: `for { write; if err { reconnect; continue }; break }`), the read
loop that redials on error and filters control pings, the shared `reconnect` with its attempt budget and
handshake read, Close, and what happens once the budget is exhausted.

Adversary: which underlying writes/reads fail (`failW`, `failR`), the outcome of every redial attempt (`script`),
and how many of the next incarnations are themselves born with failing writes (`bornFailing`: repeated write failures).
Assumption (stated in C18): an underlying Write that returns an error did not deliver.
-/
namespace Iscp.Rec
open Iscp

inductive Dial | ok | fail | badHandshake
deriving DecidableEq, Repr

structure St where
  budget : Nat := 3
  inc : Nat := 0                               -- index of the current incarnation
  logs : List (Nat × List Bytes) := []         -- incarnation ↦ messages it accepted, in order
  failW : Bool := false                        -- writes on the current incarnation fail from now on
  script : List Dial := []                     -- outcomes of the next redial attempts (then: ok)
  dials : List Bool := [false]                 -- reconnect flag of every dial attempt so far (first dial: false)
  rq : List Bytes := []                        -- taken from an incarnation by the read loop, not yet returned by Read
  closed : Bool := false                       -- Close was called
  dead : Bool := false                         -- the redial budget was exhausted
  bornFailing : Nat := 0                       -- the next k incarnations are born with failing writes (adversary)
deriving Repr

def pingMsg : Bytes := [112, 105, 110, 103]
def pongMsg : Bytes := [112, 111, 110, 103]

/-- `reconnect`: up to `budget` attempts, each consuming one scripted outcome; success = new incarnation, whose writes
    fail from the start iff the adversary still has `bornFailing` incarnations to spoil (one is used up) -/
def redial : Nat → St → St
  | 0, s => { s with dead := true }
  | n + 1, s =>
    let (o, rest) := match s.script with
      | [] => (Dial.ok, [])
      | o :: r => (o, r)
    let s1 := { s with script := rest, dials := s.dials ++ [true] }
    match o with
    | .ok =>   -- messages the read loop already took stay queued for Read
      { s1 with inc := s1.inc + 1, failW := decide (0 < s1.bornFailing), bornFailing := s1.bornFailing - 1 }
    | _ => redial n s1

def reconnect (s : St) : St := redial s.budget s

inductive Out
  | ok | err
  | wrote (inc : Nat)
  | msg (bs : Bytes)
  | state (inc : Nat) | deadState
deriving DecidableEq, Repr

def logTo (s : St) (bs : Bytes) : St :=
  { s with logs := alPut s.inc ((alGet s.inc s.logs).getD [] ++ [bs]) s.logs }

/-- the write loop serving one request: `for { write; if err { reconnect; continue }; break }` — while the current
    incarnation's write fails, redial (giving up with an error only when the redial budget is exhausted) and retry the
    *same* request on the fresh incarnation, which may itself have been born with failing writes; the first incarnation
    whose write works accepts the request, once.  The first argument is fuel (one unit per loop iteration). -/
def writeLoop : Nat → St → Bytes → St × Out
  | 0, s, _ => (s, .err)   -- out of fuel (never reached with the fuel `write` supplies: see C18.write_err_only_dead)
  | n + 1, s, bs =>
    if s.failW then
      let s' := reconnect s
      if s'.dead then (s', .err) else writeLoop n s' bs
    else (logTo s bs, .wrote s.inc)

/-- Write: an error after Close or once dead; otherwise the write loop.  Fuel `bornFailing + 2` always suffices: every
    successful redial uses up one of the `bornFailing` spoilt incarnations, and an incarnation dialled when none is left
    accepts writes (so at most `bornFailing + 1` redials and one final successful write). -/
def write (s : St) (bs : Bytes) : St × Out :=
  if s.closed ∨ s.dead then (s, .err) else writeLoop (s.bornFailing + 2) s bs

/-- the current incarnation's Read fails: the read loop redials -/
def failRead (s : St) : St × Out :=
  if s.closed ∨ s.dead then (s, .deadState)
  else
    let s' := reconnect s
    if s'.dead then (s', .deadState) else (s', .state s'.inc)

/-- a message arrives on the current incarnation: control pings are answered with a pong and filtered out -/
def deliver (s : St) (bs : Bytes) : St × Out :=
  if s.closed ∨ s.dead then (s, .ok)
  else if bs = pingMsg then write s pongMsg
  else ({ s with rq := s.rq ++ [bs] }, .ok)

def read (s : St) : St × Out :=
  if s.closed ∨ s.dead then (s, .err)
  else match s.rq with
    | [] => (s, .err)         -- (the harness never reads an empty live queue; a blocked Read is not an output)
    | b :: r => ({ s with rq := r }, .msg b)

def close (s : St) : St := { s with closed := true }

inductive Ev
  | write (bs : Bytes) | failW | failR | script (l : List Dial) | deliver (bs : Bytes) | read | close
  | bornFailing (k : Nat)   -- the adversary: the next k incarnations are born with failing writes
deriving Repr

def step (s : St) : Ev → St × Out
  | .write bs => write s bs
  | .failW => ({ s with failW := true }, .ok)
  | .failR => failRead s
  | .script l => ({ s with script := l }, .ok)
  | .deliver bs => deliver s bs
  | .read => read s
  | .close => (close s, .ok)
  | .bornFailing k => ({ s with bornFailing := k }, .ok)

def run (s : St) : List Ev → St × List Out
  | [] => (s, [])
  | e :: r => let (s', o) := step s e; let (s'', os) := run s' r; (s'', o :: os)

/-- all messages accepted so far, incarnation by incarnation -/
def allLogged (s : St) : List Bytes := ((List.range (s.inc + 1)).map fun i => (alGet i s.logs).getD []).flatten

end Iscp.Rec
