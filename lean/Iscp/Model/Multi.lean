import Iscp.Model.Data
/-
M-Multi — executable model of transport/multi/transport.go (member set, current member, merged read queue,
Write/AsUnreliable/NegotiationParams routed to the current member, Close, counters), the application of
scheduler output in transportIDLoop, validateConfig, and the two pollers (round_robin_poller.go, last_used_poller.go).
Transport ids are tokens; token 0 is the empty id "".
-/
namespace Iscp.Multi
open Iscp

structure St where
  members : List Nat := []
  current : Nat := 0
  tx : List (Nat × Nat) := []            -- member ↦ bytes written through it
  rx : List (Nat × Nat) := []            -- member ↦ bytes read from it
  queue : List (Nat × Bytes) := []       -- merged read queue: (member it came from, message)
  lastRead : Nat := 0                    -- lastReadTransportID (0 = none yet)
  closed : List Nat := []
  rr : Nat := 0                          -- RoundRobinPoller.current
deriving Repr

inductive Out
  | ok | err
  | routed (member : Nat)                -- the call reached this member
  | crash                                -- nil member dereference (Go panic)
  | msg (member : Nat) (bs : Bytes)
  | empty
  | closedAll (ms : List Nat)
  | counters (tx rx : Nat)
  | id (t : Nat)
deriving DecidableEq, Repr

/-- NewTransport / validateConfig: members must be non-empty and the initial id must name a member
    (group id / total count checks are per-member configuration, supplied correctly by the harness). -/
def new (members : List Nat) (initial : Nat) : Option St :=
  if members.isEmpty then none
  else if ¬ members.contains initial then none
  else some { members := members, current := initial }

/-- transportIDLoop applying one scheduler output: ids that are not members are ignored -/
def select (s : St) (id : Nat) : St :=
  if s.members.contains id then { s with current := id } else s

def bump (l : List (Nat × Nat)) (k n : Nat) : List (Nat × Nat) := alPut k ((alGet k l).getD 0 + n) l
def total (l : List (Nat × Nat)) : Nat := (l.map (·.2)).sum

/-- Write / AsUnreliable / NegotiationParams: dereference the current member -/
def write (s : St) (bs : Bytes) : St × Out :=
  if s.members.contains s.current then ({ s with tx := bump s.tx s.current bs.length }, .routed s.current)
  else (s, .crash)

def deref (s : St) : Out := if s.members.contains s.current then .routed s.current else .crash

/-- a member delivers one message to its read goroutine, which queues it -/
def memberRead (s : St) (m : Nat) (bs : Bytes) : St :=
  if s.members.contains m then
    { s with queue := s.queue ++ [(m, bs)], rx := bump s.rx m bs.length, lastRead := m }
  else s

def read (s : St) : St × Out :=
  match s.queue with
  | [] => (s, .empty)
  | (m, bs) :: r => ({ s with queue := r }, .msg m bs)

def close (s : St) : St × Out := ({ s with closed := s.members }, .closedAll s.members)

def counters (s : St) : Out := .counters (total s.tx) (total s.rx)

/-- RoundRobinPoller.Get over its configured id list -/
def rrGet (ids : List Nat) (cur : Nat) : Nat × Nat :=
  if ids.isEmpty then (0, cur) else (ids.getD cur 0, (cur + 1) % ids.length)

/-- LastUsedPoller.Get as the code has it: the current id once something has been read, the (empty) last-read id before -/
def lastUsedGet (s : St) : Nat := if s.lastRead ≠ 0 then s.current else s.lastRead

inductive Ev
  | select (id : Nat) | write (bs : Bytes) | memberRead (m : Nat) (bs : Bytes) | read | close
deriving Repr

def step (s : St) : Ev → St × Out
  | .select id => (select s id, .ok)
  | .write bs => write s bs
  | .memberRead m bs => (memberRead s m bs, .ok)
  | .read => read s
  | .close => close s

def run (s : St) : List Ev → St × List Out
  | [] => (s, [])
  | e :: r => let (s', o) := step s e; let (s'', os) := run s' r; (s'', o :: os)

end Iscp.Multi
