import Iscp.Model.Data
/-
M-Up — executable model of the upstream of iscp/upstream.go, iscp/data.go, iscp/flush_policy.go:
the send buffer owned by the single flushLoop goroutine, the flush policies, the atomic cut buffer -> chunk under the
stream mutex (sequence number, totals, alias substitution, store-before-send, waiter registration, send hook),
acknowledgement processing (alias table "first alias wins", ack hook, removal from the store by the waiter), State(),
and the close request with its totals.

One event = one atomic step of the Go code (one iteration of flushLoop's select, or the processing of one ack).
A history is any list of events; the order of `accept`/`tick`/`flush` events is the order in which the single
flushLoop goroutine took them (that IS the linearisation of concurrent Write/Flush callers).
-/
namespace Iscp.Up
open Iscp

inductive Policy
  | none | interval | size (n : Nat) | intervalOrSize (n : Nat) | immediate
deriving DecidableEq, Repr

/-- FlushPolicy.IsFlush(size) -/
def Policy.isFlush : Policy → Nat → Bool
  | .none, _ => false
  | .interval, _ => false
  | .size n, sz => sz > n
  | .intervalOrSize n, sz => sz > n
  | .immediate, _ => true

/-- does the policy own a ticker -/
def Policy.ticks : Policy → Bool
  | .interval => true | .intervalOrSize _ => true | _ => false

/-- a group on the wire: data id in full form or replaced by its alias -/
inductive IdOrAlias | id (d : DataID) | alias (a : Nat)
deriving DecidableEq, Repr

structure WGroup where
  ref : IdOrAlias
  points : List Point
deriving DecidableEq, Repr

structure Chunk where
  seq : Nat
  groups : List WGroup
  dataIDs : List DataID          -- full ids announced with this chunk (not yet aliased), each once
deriving DecidableEq, Repr

structure St where
  policy : Policy := .none
  buf : List (DataID × List Point) := []     -- send buffer: data id ↦ points (an id with no points is possible)
  bufPayload : Nat := 0
  bufCount : Nat := 0
  seq : Nat := 0                              -- last issued sequence number
  total : Nat := 0                            -- totalDataPoints
  rev : List (DataID × Nat) := []             -- data id ↦ alias
  store : List (Nat × Groups) := []           -- sent storage: seq ↦ groups (full ids)
  waiters : List Nat := []                    -- sequence numbers with a registered result waiter
  sent : List Chunk := []                     -- every chunk cut so far, oldest first
  sendHook : List (Nat × Groups) := []        -- send-hook calls (seq, content), oldest first
  ackHook : List (Nat × Nat) := []            -- ack-hook calls (seq, result code)
  closeReq : Option (Nat × Nat) := none       -- (total data points, final sequence number) of the close request
deriving Repr

def payloadLen (ps : List Point) : Nat := (ps.map (·.payload.length)).sum

/-- append the points of one write to the buffer (flushLoop `case dpg := <-u.dpgCh`) -/
def bufAdd (buf : List (DataID × List Point)) (d : DataID) (ps : List Point) : List (DataID × List Point) :=
  match buf with
  | [] => [(d, ps)]
  | (d', ps') :: r => if d' = d then (d', ps' ++ ps) :: r else (d', ps') :: bufAdd r d ps

def revGet (rev : List (DataID × Nat)) (d : DataID) : Option Nat := (rev.find? (·.1 = d)).map (·.2)

/-- toUpstreamDataPointGroups: alias substitution and the list of not-yet-aliased ids -/
def toWire (rev : List (DataID × Nat)) (buf : List (DataID × List Point)) : List WGroup × List DataID :=
  (buf.map fun e => match revGet rev e.1 with
      | some a => (⟨.alias a, e.2⟩ : WGroup)
      | none => ⟨.id e.1, e.2⟩,
   (buf.filter fun e => (revGet rev e.1).isNone).map (·.1))

def toGroups (buf : List (DataID × List Point)) : Groups := buf.map fun e => ⟨e.1, e.2⟩

/-- `flush()`: cut the whole buffer into one chunk, atomically under the stream mutex; a no-op on an empty buffer -/
def cut (s : St) : St :=
  if s.buf.isEmpty then s
  else
    let seq := s.seq + 1
    let (wg, ids) := toWire s.rev s.buf
    let gs := toGroups s.buf
    { s with buf := [], bufPayload := 0, bufCount := 0, seq := seq, total := s.total + s.bufCount,
             sent := s.sent ++ [⟨seq, wg, ids⟩], sendHook := s.sendHook ++ [(seq, gs)],
             store := alPut seq gs s.store, waiters := s.waiters ++ [seq] }

/-- one write accepted by flushLoop -/
def accept (s : St) (d : DataID) (ps : List Point) : St :=
  let s1 := { s with buf := bufAdd s.buf d ps, bufPayload := s.bufPayload + payloadLen ps, bufCount := s.bufCount + ps.length }
  if s1.policy.isFlush s1.bufPayload then cut s1 else s1

/-- ticker fired (only policies with an interval have one) -/
def tick (s : St) : St := if s.policy.ticks then cut s else s

/-- processDataIDAliases: the first alias of an id wins -/
def learn (rev : List (DataID × Nat)) : List (Nat × DataID) → List (DataID × Nat)
  | [] => rev
  | (a, d) :: r => if (revGet rev d).isSome then learn rev r else learn (rev ++ [(d, a)]) r

/-- one result of an ack: ack hook always; the waiter (if any) removes the chunk from the store -/
def result (s : St) (seq code : Nat) : St :=
  let s1 := { s with ackHook := s.ackHook ++ [(seq, code)] }
  if s1.waiters.contains seq then { s1 with waiters := s1.waiters.filter (· ≠ seq), store := alDel seq s1.store } else s1

def ack (s : St) (results : List (Nat × Nat)) (aliases : List (Nat × DataID)) : St :=
  let s1 := { s with rev := learn s.rev aliases }
  results.foldl (fun st r => result st r.1 r.2) s1

/-- Close on a connection that stays up with every chunk acknowledged: final flush, then the close request with the totals -/
def closeFlush (s : St) : St := cut s
def closeRequest (s : St) : St := { s with closeReq := some (s.total, s.seq) }

inductive Ev
  | accept (d : DataID) (ps : List Point)
  | tick
  | flush
  | ack (results : List (Nat × Nat)) (aliases : List (Nat × DataID))
  | closeFlush
  | closeRequest
deriving Repr

def step (s : St) : Ev → St
  | .accept d ps => accept s d ps
  | .tick => tick s
  | .flush => cut s
  | .ack rs als => ack s rs als
  | .closeFlush => closeFlush s
  | .closeRequest => closeRequest s

def run (s : St) (evs : List Ev) : St := evs.foldl step s

/-- the broker's view: resolve a wire group through the alias table the client learnt from the broker (alias ↦ id) -/
def resolve (rev : List (DataID × Nat)) (g : WGroup) : Option Group :=
  match g.ref with
  | .id d => some ⟨d, g.points⟩
  | .alias a => (rev.find? (·.2 = a)).map fun e => ⟨e.1, g.points⟩

/-- all points of data id `d` in a list of groups, in order -/
def pointsOf (d : DataID) (gs : Groups) : List Point := (gs.filter (·.id = d)).flatMap (·.points)

end Iscp.Up
