/-
M-Frame — what the transports do to a byte message on its way to the peer (C13).

* QUIC / WebTransport reliable stream (transport/quic/transport.go writeTo / decodeFrom, identical in transport/webtransport):
  a 4-byte big-endian length prefix followed by the (optionally per-message compressed) payload; the reader uses io.ReadFull,
  so how the stream is cut into reads does not matter: the model decodes the concatenated stream.
* WebSocket (transport/websocket/transport.go): one WebSocket message per Write; three modes chosen from the negotiated
  compression parameters: off, per-message DEFLATE, DEFLATE with context takeover, where both sides keep a sliding dictionary
  ("window") that is extended by every message and trimmed to the window size after every message.

DEFLATE itself (compress/flate) is not modelled: it is a parameter `Codec` (compress with a dictionary, decompress with a
dictionary) whose only assumed behaviour is the round-trip law `Codec.Lawful`, stated as a hypothesis of the theorems.
-/
namespace Iscp.Frame

abbrev Bytes := List UInt8

/-! ## length-prefixed framing -/

def be32 (n : Nat) : Bytes :=
  [UInt8.ofNat (n / 16777216 % 256), UInt8.ofNat (n / 65536 % 256), UInt8.ofNat (n / 256 % 256), UInt8.ofNat (n % 256)]

def fromBe32 (a b c d : UInt8) : Nat := a.toNat * 16777216 + b.toNat * 65536 + c.toNat * 256 + d.toNat

/-- writeTo: prefix (uint32 of the length: wraps at 2^32) and payload -/
def frame (p : Bytes) : Bytes := be32 (p.length % 4294967296) ++ p

/-- one decodeFrom step on the remaining stream: `none` = the stream ends inside a frame (io.ReadFull fails) -/
def deframe1 : Bytes → Option (Bytes × Bytes)
  | a :: b :: c :: d :: rest =>
      let n := fromBe32 a b c d
      if n ≤ rest.length then some (rest.take n, rest.drop n) else none
  | _ => none

/-- the read loop: decode frames until the stream ends; returns the messages and the undecodable remainder -/
def deframeAll : Nat → Bytes → List Bytes × Bytes
  | 0, s => ([], s)
  | fuel + 1, s =>
      match deframe1 s with
      | none => ([], s)
      | some (m, rest) => let (ms, r) := deframeAll fuel rest; (m :: ms, r)

def stream (ps : List Bytes) : Bytes := ps.flatMap frame

/-- bytes counted by the sender for a list of payloads: 4 + length each -/
def framedBytes (ps : List Bytes) : Nat := (ps.map (fun p => 4 + p.length)).sum

/-! ## compression modes -/

structure Codec where
  comp : Bytes → Bytes → Bytes            -- dictionary, message ↦ compressed bytes
  decomp : Bytes → Bytes → Option Bytes   -- dictionary, compressed bytes ↦ message

/-- the contract assumed of compress/flate: what was compressed with a dictionary decompresses with the same dictionary, and
    what was compressed without one decompresses under any dictionary (a stream that references no history is valid whatever
    history the reader holds) -/
def Codec.Lawful (c : Codec) : Prop :=
  (∀ d m, c.decomp d (c.comp d m) = some m) ∧ (∀ d m, c.decomp d (c.comp [] m) = some m)

/-- the sender does not hand a dictionary shorter than this to the compressor (work-around for compress/flate writing a short
    preset dictionary out as data, see the fix commit in transport/websocket/transport.go) -/
def minWriteDictSize : Nat := 512
def writeDict (win : Bytes) : Bytes := if win.length < minWriteDictSize then [] else win

inductive Mode where
  | off
  | perMessage
  | takeover (window : Nat)
deriving Repr, DecidableEq

/-- mode selection of websocket.New from the effective compress.Config -/
def modeOf (enable disableTakeover : Bool) (windowBits : Nat) : Mode :=
  if !enable then .off else if disableTakeover then .perMessage else .takeover (2 ^ windowBits)

/-- `if WindowSize < buf.Len() { buf.Next(buf.Len() - WindowSize) }` -/
def trim (w : Nat) (b : Bytes) : Bytes := if w < b.length then b.drop (b.length - w) else b

/-- encodeTo…: new window and the bytes put on the wire -/
def send (c : Codec) : Mode → Bytes → Bytes → Bytes × Bytes
  | .off, win, m => (win, m)
  | .perMessage, win, m => (win, c.comp [] m)
  | .takeover w, win, m => (trim w (win ++ m), c.comp (writeDict win) m)

/-- decodeFrom…: new window and the message, `none` = decode error -/
def recv (c : Codec) : Mode → Bytes → Bytes → Option (Bytes × Bytes)
  | .off, win, x => some (win, x)
  | .perMessage, win, x => (c.decomp [] x).map (fun m => (win, m))
  | .takeover w, win, x => (c.decomp win x).map (fun m => (trim w (win ++ m), m))

/-- the writer over a message sequence: final window and the wire messages, in order -/
def sendAll (c : Codec) (mode : Mode) : Bytes → List Bytes → Bytes × List Bytes
  | win, [] => (win, [])
  | win, m :: ms => let (w1, x) := send c mode win m; let (w2, xs) := sendAll c mode w1 ms; (w2, x :: xs)

/-- the reader over the wire messages -/
def recvAll (c : Codec) (mode : Mode) : Bytes → List Bytes → Option (Bytes × List Bytes)
  | win, [] => some (win, [])
  | win, x :: xs =>
      match recv c mode win x with
      | none => none
      | some (w1, m) => (recvAll c mode w1 xs).map (fun (w2, ms) => (w2, m :: ms))

/-- the window after a history, computed from scratch: the last `w` bytes of everything sent so far -/
def windowOf (mode : Mode) (ms : List Bytes) : Bytes :=
  match mode with
  | .takeover w => trim w ms.flatten
  | _ => []

/-- a codec that does not compress (used by the driver: the real DEFLATE output is not reproduced, only its contract) -/
def idCodec : Codec := { comp := fun _ m => m, decomp := fun _ x => some x }

end Iscp.Frame
