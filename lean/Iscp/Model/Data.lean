/- Shared data shapes: data ids (tokens), points, groups, chunks.  Core Lean only. -/
namespace Iscp

abbrev Bytes := List Nat

/-- a data id is identified by a token (the harness maps token n to DataID{Name:"n<n>", Type:"t<n%3>"}) -/
abbrev DataID := Nat

structure Point where
  elapsed : Int
  payload : Bytes
deriving DecidableEq, Repr

/-- one data point group: data id and its points in order -/
structure Group where
  id : DataID
  points : List Point
deriving DecidableEq, Repr

abbrev Groups := List Group

def Point.withoutPayload (p : Point) : Point := { p with payload := [] }
def Group.withoutPayload (g : Group) : Group := { g with points := g.points.map Point.withoutPayload }
def Groups.withoutPayload (gs : Groups) : Groups := gs.map Group.withoutPayload

/-- generic association list on Nat keys -/
def alGet {α} (k : Nat) : List (Nat × α) → Option α
  | [] => none
  | (k', v) :: r => if k' = k then some v else alGet k r
def alDel {α} (k : Nat) (l : List (Nat × α)) : List (Nat × α) := l.filter fun e => e.1 ≠ k
def alPut {α} (k : Nat) (v : α) (l : List (Nat × α)) : List (Nat × α) := (k, v) :: alDel k l

end Iscp
