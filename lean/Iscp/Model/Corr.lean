import Iscp.Model.Data
/-
M-Corr — request/response correlation of wire/client_conn.go (sendRequest / readRequestLoop, the typed
Send*Request wrappers) with wire/req_id_generator.go; and M-Route — the per-alias routing tables of the same file
(openUpstream, Subscribe*, the read*Loop dispatchers, the table clean-up of Send*CloseRequest).

One step = one critical section of the Go code (`c.mu`, `upstreams.mu`, `downstreams.mu`) or one
channel hand-off; a history is a list of such steps chosen by an arbitrary scheduler/adversary.
-/
namespace Iscp.Corr
open Iscp

/-! ### request ids (uint32, step 2) -/

def idNext (cur : Nat) : Nat × Nat := (cur, (cur + 2) % 4294967296)   -- (returned id, new current)

/-! ### correlator -/

/-- request kinds issued through sendRequest, and the response kind each typed wrapper asserts -/
inductive Kind | upOpen | upResume | upClose | downOpen | downResume | downClose | metadata | ping
deriving DecidableEq, Repr

/-- kinds of `message.Request` values the broker may send with some request id -/
inductive RKind
  | upOpenR | upResumeR | upCloseR | downOpenR | downResumeR | downCloseR | metaAck | pong
  | other                                    -- any other Request-typed message (a request, a ConnectResponse, …)
deriving DecidableEq, Repr

def expected : Kind → RKind
  | .upOpen => .upOpenR | .upResume => .upResumeR | .upClose => .upCloseR
  | .downOpen => .downOpenR | .downResume => .downResumeR | .downClose => .downCloseR
  | .metadata => .metaAck | .ping => .pong

structure Waiter where
  caller : Nat
  id : Nat
  kind : Kind
deriving DecidableEq, Repr

structure St where
  cur : Nat := 2                         -- the connect request took id 0
  pending : List (Nat × Nat) := []       -- request id ↦ caller whose 1-slot reply channel is registered
  waiting : List Waiter := []            -- callers blocked in sendRequest's select
deriving Repr

inductive Out
  | issued (id : Nat)
  | delivered (caller : Nat) (rk : RKind)      -- caller returns this response
  | mismatch (caller : Nat) (rk : RKind)       -- caller receives a response of another kind: returned as an error
  | ignored                                     -- unknown or already answered id
  | stale                                       -- parked in the channel of a caller that already gave up; nobody is affected
  | cancelled (caller : Nat)
  | noop
deriving DecidableEq, Repr

inductive Ev
  | req (caller : Nat) (k : Kind)
  | resp (id : Nat) (rk : RKind)
  | cancel (caller : Nat)
deriving Repr

def step (s : St) : Ev → St × Out
  | .req c k =>
    let (id, cur') := idNext s.cur
    ({ cur := cur', pending := alPut id c s.pending, waiting := ⟨c, id, k⟩ :: s.waiting.filter (·.caller ≠ c) }, .issued id)
  | .resp id rk =>
    match alGet id s.pending with
    | none => (s, .ignored)
    | some c =>
      let s' := { s with pending := alDel id s.pending }
      match s.waiting.find? (fun w => w.caller = c ∧ w.id = id) with
      | none => (s', .stale)
      | some w =>
        let s'' := { s' with waiting := s'.waiting.filter (·.caller ≠ c) }
        if expected w.kind = rk then (s'', .delivered c rk) else (s'', .mismatch c rk)
  | .cancel c =>
    match s.waiting.find? (·.caller = c) with
    | none => (s, .noop)
    | some _ => ({ s with waiting := s.waiting.filter (·.caller ≠ c) }, .cancelled c)

def run (s : St) : List Ev → St × List Out
  | [] => (s, [])
  | e :: r => let (s', o) := step s e; let (s'', os) := run s' r; (s'', o :: os)

/-! ### routing tables -/

/-- queue capacity of every per-alias channel -/
def qcap : Nat := 1024

structure Tables where
  upAlias : List (Nat × Nat) := []               -- upstream stream id ↦ alias
  acks : List (Nat × List Nat) := []             -- alias ↦ queued ack tokens
  downAlias : List (Nat × Nat) := []             -- downstream stream id ↦ alias
  dps : List (Nat × List Nat) := []              -- alias ↦ queued chunk tokens (reliable channel)
  dpsU : List (Nat × List Nat) := []             -- alias ↦ queued chunk tokens (unreliable channel)
  ackc : List (Nat × List Nat) := []             -- alias ↦ queued ack-complete tokens
  metaq : List (Nat × List (Nat × List Nat)) := [] -- alias ↦ source node ↦ queued metadata tokens
deriving Repr

inductive REv
  | openUp (sid alias : Nat)                     -- openUpstream (after an open or resume response)
  | closeUp (sid : Nat)                          -- table clean-up of SendUpstreamCloseRequest
  | subDps (alias : Nat) | subDpsU (alias : Nat) | subAckc (alias : Nat)
  | subMeta (alias node : Nat)
  | openDown (sid alias : Nat)                   -- alias registration after a downstream open/resume response
  | closeDown (sid : Nat)
  | ack (alias tok : Nat)                        -- dispatch of one incoming message
  | chunk (alias tok : Nat) | chunkU (alias tok : Nat) | ackComplete (alias tok : Nat)
  | metadata (alias node tok : Nat)
  | drainAck (alias : Nat) | drainDps (alias : Nat) | drainDpsU (alias : Nat) | drainAckc (alias : Nat)
  | drainMeta (alias node : Nat)
deriving Repr

inductive ROut | ok | already | dropped | queued | unknown | items (l : List Nat) | nosub
deriving DecidableEq, Repr

def enqueue (tabs : List (Nat × List Nat)) (alias tok : Nat) : List (Nat × List Nat) × ROut :=
  match alGet alias tabs with
  | none => (tabs, .unknown)
  | some q => if q.length < qcap then (alPut alias (q ++ [tok]) tabs, .queued) else (tabs, .dropped)

def drain (tabs : List (Nat × List Nat)) (alias : Nat) : List (Nat × List Nat) × ROut :=
  match alGet alias tabs with
  | none => (tabs, .nosub)
  | some q => (alPut alias [] tabs, .items q)

def rstep (t : Tables) : REv → Tables × ROut
  | .openUp sid a => ({ t with upAlias := alPut sid a t.upAlias, acks := alPut a [] t.acks }, .ok)
  | .closeUp sid =>
    match alGet sid t.upAlias with
    | none => (t, .unknown)
    | some a => ({ t with upAlias := alDel sid t.upAlias, acks := alDel a t.acks }, .ok)
  | .subDps a => if (alGet a t.dps).isSome then (t, .already) else ({ t with dps := alPut a [] t.dps }, .ok)
  | .subDpsU a => if (alGet a t.dpsU).isSome then (t, .already) else ({ t with dpsU := alPut a [] t.dpsU }, .ok)
  | .subAckc a => if (alGet a t.ackc).isSome then (t, .already) else ({ t with ackc := alPut a [] t.ackc }, .ok)
  | .subMeta a n =>
    let m := (alGet a t.metaq).getD []
    ({ t with metaq := alPut a (alPut n [] m) t.metaq }, .ok)
  | .openDown sid a => ({ t with downAlias := alPut sid a t.downAlias }, .ok)
  | .closeDown sid =>
    match alGet sid t.downAlias with
    | none => (t, .unknown)
    | some a => ({ t with downAlias := alDel sid t.downAlias, dps := alDel a t.dps, dpsU := alDel a t.dpsU,
                          ackc := alDel a t.ackc, metaq := alDel a t.metaq }, .ok)
  | .ack a tok => let (q, o) := enqueue t.acks a tok; ({ t with acks := q }, o)
  | .chunk a tok => let (q, o) := enqueue t.dps a tok; ({ t with dps := q }, o)
  | .chunkU a tok => let (q, o) := enqueue t.dpsU a tok; ({ t with dpsU := q }, o)
  | .ackComplete a tok => let (q, o) := enqueue t.ackc a tok; ({ t with ackc := q }, o)
  | .metadata a n tok =>
    match alGet a t.metaq with
    | none => (t, .unknown)
    | some m => let (m', o) := enqueue m n tok; ({ t with metaq := alPut a m' t.metaq }, o)
  | .drainAck a => let (q, o) := drain t.acks a; ({ t with acks := q }, o)
  | .drainDps a => let (q, o) := drain t.dps a; ({ t with dps := q }, o)
  | .drainDpsU a => let (q, o) := drain t.dpsU a; ({ t with dpsU := q }, o)
  | .drainAckc a => let (q, o) := drain t.ackc a; ({ t with ackc := q }, o)
  | .drainMeta a n =>
    match alGet a t.metaq with
    | none => (t, .nosub)
    | some m => let (m', o) := drain m n; ({ t with metaq := alPut a m' t.metaq }, o)

/-- everything stream alias `a` can observe of the tables -/
def rview (t : Tables) (a : Nat) : Option (List Nat) × Option (List Nat) × Option (List Nat) × Option (List Nat) × Option (List (Nat × List Nat)) :=
  (alGet a t.acks, alGet a t.dps, alGet a t.dpsU, alGet a t.ackc, alGet a t.metaq)

/-- the alias an event is addressed to (for events addressed by stream id: the alias currently registered, if any) -/
def REv.target (t : Tables) : REv → Option Nat
  | .openUp _ a => some a | .closeUp sid => alGet sid t.upAlias
  | .subDps a => some a | .subDpsU a => some a | .subAckc a => some a | .subMeta a _ => some a
  | .openDown _ a => some a | .closeDown sid => alGet sid t.downAlias
  | .ack a _ => some a | .chunk a _ => some a | .chunkU a _ => some a | .ackComplete a _ => some a
  | .metadata a _ _ => some a
  | .drainAck a => some a | .drainDps a => some a | .drainDpsU a => some a | .drainAckc a => some a | .drainMeta a _ => some a

end Iscp.Corr

/-! ### the typed wrappers: correlator + routing tables composed (Send*Request of wire/client_conn.go) -/
namespace Iscp.Corr

/-- parameters a request carries that its wrapper uses after the response arrived -/
structure ReqArgs where
  sid : Nat := 0        -- StreamID of resume/close requests
  alias : Nat := 0      -- DesiredStreamIDAlias of downstream open/resume
deriving Repr

structure Wire where
  c : St := {}
  t : Tables := {}
  args : List (Nat × ReqArgs) := []     -- caller ↦ arguments of its outstanding request
deriving Repr

/-- table update performed by the wrapper once its (correctly typed) response arrived.
    `rsid`/`ralias` are AssignedStreamID / AssignedStreamIDAlias of the response (where it has them); `accepted` = the
    response's result code is Succeeded. -/
def afterResponse (t : Tables) (k : Kind) (a : ReqArgs) (rsid ralias : Nat) (accepted : Bool := true) : Tables :=
  match k with
  -- an upstream is registered under the alias the broker assigned — when the broker accepted the request; a refusal assigns
  -- nothing (its alias field is whatever the broker left there, typically 0, which may be another stream's alias)
  | .upOpen => if accepted then (rstep t (.openUp rsid ralias)).1 else t
  | .upResume => if accepted then (rstep t (.openUp a.sid ralias)).1 else t
  | .upClose => (rstep t (.closeUp a.sid)).1
  | .downOpen => (rstep t (.openDown rsid a.alias)).1
  | .downResume => (rstep t (.openDown a.sid a.alias)).1
  | .downClose => (rstep t (.closeDown a.sid)).1
  | .metadata => t
  | .ping => t

def wreq (w : Wire) (caller : Nat) (k : Kind) (a : ReqArgs) : Wire × Out :=
  let (c', o) := step w.c (.req caller k)
  ({ w with c := c', args := alPut caller a w.args }, o)

def wresp (w : Wire) (id : Nat) (rk : RKind) (rsid ralias : Nat) (accepted : Bool := true) : Wire × Out :=
  let kind? := (w.c.waiting.find? (fun x => alGet id w.c.pending = some x.caller ∧ x.id = id)).map (·.kind)
  let (c', o) := step w.c (.resp id rk)
  match o, kind? with
  | .delivered caller _, some k =>
    let a := (alGet caller w.args).getD {}
    ({ w with c := c', t := afterResponse w.t k a rsid ralias accepted }, o)
  | _, _ => ({ w with c := c' }, o)

def wcancel (w : Wire) (caller : Nat) : Wire × Out :=
  let (c', o) := step w.c (.cancel caller)
  ({ w with c := c' }, o)

end Iscp.Corr
